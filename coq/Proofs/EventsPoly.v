(** Proofs/EventsPoly.v — C17 for PianorollSequence and Performance, whose
    length is computed from the event list rather than stored. *)
From Coq Require Import ZArith List Bool Lia ZifyBool.
From NS Require Import Gen.G17 Model.Events Model.EventsPoly Proofs.Events.
Import ListNotations.
Local Open Scope Z_scope.

(* ------------------------------------------------------------------ *)
Module PianorollP.
  Import Pianoroll.

  Definition op_ok (o : op) : bool :=
    match o with PSetLength n _ => 0 <=? n | _ => true end.

  (** the step range is as long as the event list in every state whatsoever
      (end_step is computed), and [steps] lists one step per event *)
  Lemma range_is_len (s : st) :
    stop s - start s = len s /\ num_steps s = len s /\ len s = zlen (iter s) /\
    length (steps s) = length (events s) /\
    forall j, (j < length (events s))%nat -> nth_error (steps s) j = Some (start s + Z.of_nat j).
  Proof.
    unfold steps, stop, num_steps, len, iter. repeat split; try lia.
    - rewrite py_range_length. unfold zlen. lia.
    - intros j Hj. apply py_range_nth. unfold zlen. lia.
  Qed.

  Lemma index_agrees (s : st) :
    (forall i, 0 <= i < len s ->
       exists e, nth_error (iter s) (Z.to_nat i) = Some e /\
                 getitem s i = Some e /\ getitem s (i - len s) = Some e) /\
    (forall i, i < - len s \/ len s <= i -> getitem s i = None).
  Proof.
    unfold len, iter, getitem. split.
    - intros i Hi. destruct (nth_error_in_range (events s) (Z.to_nat i)) as [e He].
      { unfold zlen in Hi; lia. }
      exists e. split; [exact He|].
      destruct (py_index_spec (events s) i) as [H1 _].
      destruct (py_index_spec (events s) (i - zlen (events s))) as [_ [H2 _]].
      rewrite H1, H2 by lia. replace (i - zlen (events s) + zlen (events s)) with i by lia. auto.
    - intros i Hi. now apply py_index_spec.
  Qed.

  (** set_length(n), n >= 0: exactly n steps, the first min(n, len) events
      kept, silence appended, the start untouched; the assert cannot fire *)
  Lemma set_length_exact (s : st) n : 0 <= n ->
    exists s', set_length s n false = (s', Done) /\
      len s' = n /\ start s' = start s /\ stop s' - start s' = n /\
      events s' = firstn (Z.to_nat n) (events s) ++ repeat [] (Z.to_nat (n - len s)).
  Proof.
    intros Hn. unfold set_length, num_steps, len, stop. pose proof (zlen_nonneg (events s)) as Hl.
    destruct (zlen (events s) <? n) eqn:H1; [|destruct (n <? zlen (events s)) eqn:H2]; cbn [events start].
    - eexists. replace (zlen (events s ++ repeat [] (Z.to_nat (n - zlen (events s)))) =? n) with true
        by (rewrite zlen_app, zlen_repeat; lia).
      split; [reflexivity|]. unfold num_steps; cbn. rewrite zlen_app, zlen_repeat.
      rewrite firstn_all2 by (unfold zlen in *; lia). repeat split; lia.
    - assert (He : py_del_slice (events s) (Some n) None = firstn (Z.to_nat n) (events s)).
      { unfold py_del_slice, slice_lo, slice_hi, clamp_index. destruct (n <? 0) eqn:?; [lia|].
        replace (Z.to_nat (Z.max (Z.min n (zlen (events s))) (zlen (events s)))) with (length (events s))
          by (unfold zlen; lia).
        rewrite skipn_all, app_nil_r. f_equal. lia. }
      rewrite He. eexists.
      replace (zlen (firstn (Z.to_nat n) (events s)) =? n) with true by (rewrite zlen_firstn; lia).
      split; [reflexivity|]. unfold num_steps; cbn. rewrite zlen_firstn.
      replace (Z.to_nat (n - zlen (events s))) with 0%nat by lia. cbn. rewrite app_nil_r.
      repeat split; lia.
    - assert (zlen (events s) = n) by lia. eexists.
      replace (zlen (events s) =? n) with true by lia.
      split; [reflexivity|]. unfold num_steps; cbn.
      replace (Z.to_nat (n - zlen (events s))) with 0%nat by lia. cbn. rewrite app_nil_r.
      rewrite firstn_all2 by (unfold zlen in *; lia). repeat split; lia.
  Qed.

  (** from_left is the documented NotImplementedError and changes nothing *)
  Lemma set_length_from_left (s : st) n : set_length s n true = (s, NotImplementedError).
  Proof. reflexivity. Qed.

  Theorem no_assert : forall ops s, forallb op_ok ops = true ->
    Forall (fun so => snd so <> AssertionError) (trace s ops).
  Proof.
    induction ops as [|o ops IH]; intros s Hok; cbn in *; [constructor|].
    apply andb_prop in Hok. destruct Hok as [Ho Hr]. constructor; [|now apply IH].
    destruct o as [e sh|n [|]| |]; cbn [step]; rewrite ?set_length_from_left; cbn [snd]; try discriminate.
    cbn in Ho. destruct (set_length_exact s n) as (s' & -> & _); [lia|]. discriminate.
  Qed.
End PianorollP.

(* ------------------------------------------------------------------ *)
Module PerfP.
  Import Perf.

  Definition op_ok (o : op) : bool :=
    match o with
    | FSetLength n _ => 0 <=? n
    | FReinit _ m _ => 1 <=? m
    | _ => true
    end.

  (** ** sums of time shifts *)
  Lemma sum_app l r : sum_shifts (l ++ r) = sum_shifts l + sum_shifts r.
  Proof. induction l; cbn [sum_shifts app]; lia. Qed.
  Lemma sum_rev l : sum_shifts (rev l) = sum_shifts l.
  Proof. induction l; cbn [rev sum_shifts]; [reflexivity|]. rewrite sum_app. cbn [sum_shifts]. lia. Qed.
  Lemma sum_shift v : sum_shifts [shift v] = v.
  Proof. cbn. lia. Qed.
  Lemma is_shift_shift v : is_shift (shift v) = true.
  Proof. reflexivity. Qed.

  (** ** steps: one per event, the j-th being start + the shifts before it *)
  Lemma steps_from_spec : forall l st,
    length (steps_from st l) = length l /\
    forall j, (j < length l)%nat -> nth_error (steps_from st l) j = Some (st + sum_shifts (firstn j l)).
  Proof.
    induction l as [|e l IH]; intros st; cbn [steps_from length]; split; try reflexivity; try (intros; lia).
    - now rewrite (proj1 (IH _)).
    - intros [|j] Hj; cbn [nth_error firstn sum_shifts]; [f_equal; lia|].
      rewrite (proj2 (IH _)) by lia. f_equal. destruct (is_shift e); lia.
  Qed.

  Lemma range_is_sum (s : st) :
    stop s - start s = num_steps s /\ num_steps s = sum_shifts (events s) /\
    len s = zlen (iter s) /\ length (steps s) = length (events s) /\
    (forall j, (j < length (events s))%nat ->
       nth_error (steps s) j = Some (start s + sum_shifts (firstn j (events s)))).
  Proof.
    unfold stop, num_steps, len, iter, steps. destruct (steps_from_spec (events s) (start s)) as [H1 H2].
    repeat split; auto; lia.
  Qed.

  Lemma index_agrees (s : st) :
    (forall i, 0 <= i < len s ->
       exists e, nth_error (iter s) (Z.to_nat i) = Some e /\
                 getitem s i = Some e /\ getitem s (i - len s) = Some e) /\
    (forall i, i < - len s \/ len s <= i -> getitem s i = None).
  Proof.
    unfold len, iter, getitem. split.
    - intros i Hi. destruct (nth_error_in_range (events s) (Z.to_nat i)) as [e He].
      { unfold zlen in Hi; lia. }
      exists e. split; [exact He|].
      destruct (py_index_spec (events s) i) as [H1 _].
      destruct (py_index_spec (events s) (i - zlen (events s))) as [_ [H2 _]].
      rewrite H1, H2 by lia. replace (i - zlen (events s) + zlen (events s)) with i by lia. auto.
    - intros i Hi. now apply py_index_spec.
  Qed.

  (** ** _append_steps *)
  (** the `while` loop: with max_shift >= 1 it terminates within n iterations,
      so the fuel n that [append_steps] supplies is never exhausted, and it
      emits n div m maximal shifts followed by the remainder *)
  Lemma shift_loop_spec : forall fuel m n, 1 <= m -> 0 <= n -> (Z.to_nat n <= fuel)%nat ->
    shift_loop fuel m n =
      repeat (shift m) (Z.to_nat (n / m)) ++ (if 0 <? n mod m then [shift (n mod m)] else []).
  Proof.
    induction fuel as [|f IH]; intros m n Hm Hn Hf; cbn [shift_loop].
    - assert (n = 0) by lia. subst n. rewrite Z.div_0_l, Z.mod_0_l by lia. reflexivity.
    - destruct (m <=? n) eqn:Hc.
      + rewrite IH by lia.
        replace (n / m) with ((n - m) / m + 1).
        2:{ replace n with ((n - m) + 1 * m) at 2 by lia. rewrite Z.div_add by lia. reflexivity. }
        replace (n mod m) with ((n - m) mod m).
        2:{ replace n with ((n - m) + 1 * m) at 2 by lia. rewrite Z.mod_add by lia. reflexivity. }
        assert (0 <= (n - m) / m) by (apply Z.div_pos; lia).
        replace (Z.to_nat ((n - m) / m + 1)) with (S (Z.to_nat ((n - m) / m))) by lia.
        reflexivity.
      + rewrite Z.div_small, Z.mod_small by lia. reflexivity.
  Qed.

  Lemma sum_repeat_shift m k : sum_shifts (repeat (shift m) k) = Z.of_nat k * m.
  Proof.
    induction k; cbn [repeat sum_shifts]; [lia|]. rewrite is_shift_shift, IHk. cbn [shift snd]. lia.
  Qed.

  Lemma shift_loop_sum fuel m n : 1 <= m -> 0 <= n -> (Z.to_nat n <= fuel)%nat ->
    sum_shifts (shift_loop fuel m n) = n.
  Proof.
    intros Hm Hn Hf. rewrite shift_loop_spec by assumption. rewrite sum_app, sum_repeat_shift.
    pose proof (Z.div_mod n m ltac:(lia)). pose proof (Z.mod_pos_bound n m ltac:(lia)).
    assert (0 <= n / m) by (apply Z.div_pos; lia).
    destruct (0 <? n mod m) eqn:?; [rewrite sum_shift|cbn [sum_shifts]]; nia.
  Qed.

  (** the event list [_append_steps(n)] produces: either the new shifts are
      simply appended, or the trailing non-maximal time shift is topped up
      first; nothing else is touched *)
  Lemma append_steps_cases m l n :
    (append_steps m l n = l ++ shift_loop (Z.to_nat n) m n /\
       (l = [] \/ exists pre e, l = pre ++ [e] /\ is_shift e && (snd e <? m) = false)) \/
    (exists pre v, l = pre ++ [shift v] /\ v < m /\
       append_steps m l n =
         pre ++ [shift (v + Z.min n (m - v))] ++
         shift_loop (Z.to_nat (n - Z.min n (m - v))) m (n - Z.min n (m - v))).
  Proof.
    unfold append_steps. destruct (rev l) as [|e r'] eqn:Hr.
    - left. split; [reflexivity|]. left. rewrite <- (rev_involutive l), Hr. reflexivity.
    - assert (Hl : l = rev r' ++ [e]) by (rewrite <- (rev_involutive l), Hr; reflexivity).
      destruct (is_shift e && (snd e <? m)) eqn:Hc.
      + right. apply andb_prop in Hc. destruct Hc as [Hs Hv].
        assert (He : e = shift (snd e)).
        { destruct e as [t v]. unfold is_shift, shift in *. cbn in *. f_equal. lia. }
        exists (rev r'), (snd e). rewrite <- He. split; [exact Hl|]. split; [lia|].
        now rewrite <- app_assoc.
      + left. split; [reflexivity|]. right. eauto.
  Qed.

  Lemma append_steps_sum m l n : 1 <= m -> 0 <= n ->
    sum_shifts (append_steps m l n) = sum_shifts l + n.
  Proof.
    intros Hm Hn. destruct (append_steps_cases m l n) as [[-> _]|(pre & v & -> & Hv & ->)].
    - rewrite sum_app, shift_loop_sum by lia. lia.
    - rewrite !sum_app, !sum_shift, shift_loop_sum by lia. lia.
  Qed.

  (** ** _trim_steps *)
  Lemma trim_rev_sum : forall l trimmed num, trimmed <= num -> num <= trimmed + sum_shifts l ->
    sum_shifts (trim_rev l trimmed num) = trimmed + sum_shifts l - num.
  Proof.
    induction l as [|e r IH]; intros t num H1 H2; cbn [trim_rev sum_shifts] in *; [lia|].
    destruct (t <? num) eqn:Hc.
    - destruct (is_shift e) eqn:Hs.
      + destruct (num <? t + snd e) eqn:Hd.
        * cbn [sum_shifts]. rewrite is_shift_shift. cbn [shift snd]. lia.
        * rewrite IH by lia. lia.
      + rewrite IH by lia. lia.
    - cbn [sum_shifts]. destruct (is_shift e); lia.
  Qed.

  Lemma trim_steps_sum l num : 0 <= num <= sum_shifts l ->
    sum_shifts (trim_steps l num) = sum_shifts l - num.
  Proof.
    intros H. unfold trim_steps. rewrite sum_rev, trim_rev_sum; rewrite ?sum_rev; lia.
  Qed.

  Lemma is_shift_eq e : is_shift e = true -> e = shift (snd e).
  Proof. destruct e as [t v]. unfold is_shift, shift. cbn. intros H. f_equal. lia. Qed.

  Lemma trim_rev_shape : forall m t num, exists dropped kept, m = dropped ++ kept /\
    (trim_rev m t num = kept \/
     exists v w kept', kept = shift v :: kept' /\ 0 < w < v /\ trim_rev m t num = shift w :: kept').
  Proof.
    induction m as [|e r IH]; intros t num; cbn [trim_rev].
    - exists [], []. split; [reflexivity|now left].
    - destruct (t <? num) eqn:Hc.
      + destruct (is_shift e) eqn:Hs; [destruct (num <? t + snd e) eqn:Hd|].
        * exists [], (e :: r). split; [reflexivity|]. right.
          exists (snd e), (snd e - num + t), r. rewrite <- (is_shift_eq e Hs). repeat split; lia.
        * destruct (IH (t + snd e) num) as (d & k & -> & H). exists (e :: d), k. split; [reflexivity|exact H].
        * destruct (IH t num) as (d & k & -> & H). exists (e :: d), k. split; [reflexivity|exact H].
      + exists [], (e :: r). split; [reflexivity|now left].
  Qed.

  (** _trim_steps keeps a prefix of the events, possibly followed by a
      shortened version of the time shift that came next *)
  Lemma trim_steps_shape l num : exists pre post, l = pre ++ post /\
    (trim_steps l num = pre \/
     exists v w post', post = shift v :: post' /\ 0 < w < v /\ trim_steps l num = pre ++ [shift w]).
  Proof.
    unfold trim_steps. destruct (trim_rev_shape (rev l) 0 num) as (d & k & Hl & H).
    assert (Hl' : l = rev k ++ rev d) by (rewrite <- rev_app_distr, <- Hl, rev_involutive; reflexivity).
    destruct H as [H|(v & w & k' & -> & Hw & H)]; rewrite H.
    - exists (rev k), (rev d). split; [exact Hl'|now left].
    - cbn [rev] in *. exists (rev k'), (shift v :: rev d). split; [rewrite Hl', <- app_assoc; reflexivity|].
      right. exists v, w, (rev d). repeat split; lia.
  Qed.

  (** ** set_length *)
  (** set_length(n) with n >= 0 and max_shift_steps >= 1 yields exactly n
      steps from the same start: `assert self.num_steps == steps` holds *)
  Lemma set_length_exact (s : st) n : 1 <= max_shift s -> 0 <= n ->
    exists s', set_length s n false = (s', Done) /\
      num_steps s' = n /\ stop s' - start s' = n /\ start s' = start s /\ max_shift s' = max_shift s.
  Proof.
    intros Hm Hn. unfold set_length, num_steps, stop.
    destruct (sum_shifts (events s) <? n) eqn:H1; [|destruct (n <? sum_shifts (events s)) eqn:H2];
      cbn [events start max_shift].
    - eexists. rewrite append_steps_sum by lia.
      replace (sum_shifts (events s) + (n - sum_shifts (events s)) =? n) with true by lia.
      split; [reflexivity|]. cbn. rewrite append_steps_sum by lia. repeat split; lia.
    - eexists. rewrite trim_steps_sum by lia.
      replace (sum_shifts (events s) - (sum_shifts (events s) - n) =? n) with true by lia.
      split; [reflexivity|]. cbn. rewrite trim_steps_sum by lia. repeat split; lia.
    - eexists. replace (sum_shifts (events s) =? n) with true by lia.
      split; [reflexivity|]. cbn. repeat split; lia.
  Qed.

  Lemma set_length_from_left (s : st) n : set_length s n true = (s, NotImplementedError).
  Proof. reflexivity. Qed.

  (** ** over arbitrary histories *)
  (** max_shift_steps >= 1 and every event passes PerformanceEvent's
      validator: no op of the model constructs an event the real constructor
      would reject *)
  Definition PInv (s : st) : Prop := 1 <= max_shift s /\ Forall (fun e => ev_valid e = true) (events s).

  Local Notation V := (Forall (fun e => ev_valid e = true)).

  Lemma shift_valid v : ev_valid (shift v) = (0 <=? v).
  Proof. reflexivity. Qed.

  Lemma Forall_firstn_ {A} (P : A -> Prop) : forall n l, Forall P l -> Forall P (firstn n l).
  Proof. induction n; destruct l; cbn; intros H; auto; inversion H; subst; auto. Qed.
  Lemma Forall_skipn_ {A} (P : A -> Prop) : forall n l, Forall P l -> Forall P (skipn n l).
  Proof. induction n; destruct l; cbn; intros H; auto; inversion H; subst; auto. Qed.

  Lemma shift_loop_valid k m : 1 <= m -> 0 <= k -> V (shift_loop (Z.to_nat k) m k).
  Proof.
    intros Hm Hk. rewrite shift_loop_spec by lia. apply Forall_app. split.
    - apply Forall_forall. intros x Hx. apply repeat_spec in Hx. subst. rewrite shift_valid. lia.
    - pose proof (Z.mod_pos_bound k m ltac:(lia)).
      destruct (0 <? k mod m) eqn:?; constructor; [|constructor]. rewrite shift_valid. lia.
  Qed.

  Lemma append_steps_valid m l n : 1 <= m -> 0 <= n -> V l -> V (append_steps m l n).
  Proof.
    intros Hm Hn HV. destruct (append_steps_cases m l n) as [[-> _]|(pre & v & -> & Hv & ->)].
    - apply Forall_app. split; [exact HV|now apply shift_loop_valid].
    - apply Forall_app in HV. destruct HV as [HV1 HV2]. inversion HV2 as [|x y Hx _]; subst.
      rewrite shift_valid in Hx.
      apply Forall_app. split; [exact HV1|]. apply Forall_app. split.
      + constructor; [|constructor]. rewrite shift_valid. lia.
      + apply shift_loop_valid; lia.
  Qed.

  Lemma trim_rev_valid : forall l t num, V l -> V (trim_rev l t num).
  Proof.
    induction l as [|e r IH]; intros t num H; cbn [trim_rev]; [constructor|].
    inversion H; subst.
    destruct (t <? num) eqn:Hc; [|exact H].
    destruct (is_shift e); [destruct (num <? t + snd e) eqn:Hd|]; auto.
    constructor; [|assumption]. rewrite shift_valid. lia.
  Qed.

  Lemma trim_steps_valid l num : V l -> V (trim_steps l num).
  Proof.
    intros H. unfold trim_steps. apply Forall_rev. apply trim_rev_valid. now apply Forall_rev.
  Qed.

  Lemma step_pinv s o : PInv s -> op_ok o = true -> PInv (fst (step s o)).
  Proof.
    intros [Hm HV] Hok. destruct o as [t v|n fl|k| |s0 m nvb]; cbn [step fst op_ok] in *.
    - unfold append. destruct (ev_valid (t, v)) eqn:He; cbn; [|now split].
      split; cbn; [exact Hm|]. apply Forall_app. split; [exact HV|]. now repeat constructor.
    - unfold set_length. destruct fl; [now split|].
      set (ev := if num_steps s <? n then _ else _).
      assert (HE : V ev).
      { subst ev. unfold num_steps. destruct (sum_shifts (events s) <? n) eqn:?;
          [apply append_steps_valid; auto; lia|].
        destruct (n <? sum_shifts (events s)); [now apply trim_steps_valid|exact HV]. }
      destruct (num_steps _ =? n); split; cbn; auto.
    - split; cbn; [exact Hm|]. unfold py_slice. apply Forall_firstn_. now apply Forall_skipn_.
    - now split.
    - destruct (MAX_NUM_VELOCITY_BINS <? nvb); cbn; [now split|]. split; cbn; [lia|constructor].
  Qed.

  Theorem pinv_reachable : forall ops s,
    PInv s -> forallb op_ok ops = true -> PInv (run_ops s ops).
  Proof.
    unfold run_ops. induction ops as [|o ops IH]; intros s HI Hok; cbn in *; [exact HI|].
    apply andb_prop in Hok. destruct Hok as [Ho Hr]. apply IH; [|exact Hr]. now apply step_pinv.
  Qed.

  (** the assert in set_length never fires, anywhere in any history *)
  Theorem no_assert : forall ops s, PInv s -> forallb op_ok ops = true ->
    Forall (fun so => snd so <> AssertionError) (trace s ops).
  Proof.
    induction ops as [|o ops IH]; intros s HI Hok; cbn [trace forallb] in *; [constructor|].
    apply andb_prop in Hok. destruct Hok as [Ho Hr].
    constructor; [|apply IH; [now apply step_pinv|exact Hr]].
    destruct o as [t v|n [|]|k| |s0 m nvb]; cbn [step]; rewrite ?set_length_from_left; cbn [snd]; try discriminate.
    - unfold append. destruct (ev_valid (t, v)); discriminate.
    - cbn in Ho. destruct HI as [Hm _].
      destruct (set_length_exact s n) as (s' & -> & _); try lia. discriminate.
    - destruct (MAX_NUM_VELOCITY_BINS <? nvb); discriminate.
  Qed.

  (** ... and every set_length in a history does what it says *)
  Theorem set_length_in_history : forall ops s n,
    PInv s -> forallb op_ok ops = true -> 0 <= n ->
    let s1 := run_ops s ops in
    exists s2, step s1 (FSetLength n false) = (s2, Done) /\
               num_steps s2 = n /\ stop s2 - start s2 = n /\ start s2 = start s1.
  Proof.
    intros ops s n HI Hok Hn s1. destruct (pinv_reachable ops s HI Hok) as [Hm _]. fold s1 in Hm.
    destruct (set_length_exact s1 n Hm Hn) as (s2 & H1 & H2 & H3 & H4 & _).
    exists s2. cbn [step]. auto.
  Qed.

  (** outside the claim: a negative length trips the assert (as in the code) *)
  Lemma set_length_negative (s : st) n : PInv s -> n < 0 -> snd (set_length s n false) = AssertionError.
  Proof.
    intros [Hm HV] Hn. unfold set_length, num_steps.
    assert (H0 : forall l, V l -> 0 <= sum_shifts l).
    { induction 1 as [|e l He _ IH]; cbn [sum_shifts]; [lia|].
      destruct (is_shift e) eqn:Hs; [|lia].
      destruct e as [t v]. unfold is_shift in Hs. cbn in Hs.
      assert (t = EV_TIME_SHIFT) by lia. subst t. change (ev_valid (EV_TIME_SHIFT, v)) with (0 <=? v) in He.
      cbn [snd]. lia. }
    pose proof (H0 _ HV) as Hs.
    replace (sum_shifts (events s) <? n) with false by lia.
    replace (n <? sum_shifts (events s)) with true by lia. cbn [events].
    assert (Ht : 0 <= sum_shifts (trim_steps (events s) (sum_shifts (events s) - n))).
    { apply H0. now apply trim_steps_valid. }
    destruct (sum_shifts (trim_steps (events s) (sum_shifts (events s) - n)) =? n) eqn:?; [lia|reflexivity].
  Qed.
End PerfP.
