(** Proofs/FqCommon.v — lemmas about the shared helpers of the from_quantized models. *)
From Coq Require Import ZArith List Bool Lia ZifyBool Permutation Sorted.
From NS Require Import Base.NoteSeq Model.FqCommon.
Import ListNotations.
Local Open Scope Z_scope.
Ltac Zify.zify_post_hook ::= Z.to_euclidean_division_equations.

Lemma Ok_inj {A} (a b : A) : Ok a = Ok b -> a = b.
Proof. intros H. now injection H. Qed.

(** * insertion sort: permutation, sortedness *)
Lemma insert_perm {A} (le : A -> A -> bool) x l : Permutation (insert le x l) (x :: l).
Proof.
  induction l as [|y r IH]; cbn [insert]; [reflexivity|].
  destruct (le x y); [reflexivity|].
  rewrite IH. apply perm_swap.
Qed.

Lemma isort_perm {A} (le : A -> A -> bool) l : Permutation (isort le l) l.
Proof.
  induction l as [|x r IH]; cbn [isort]; [reflexivity|].
  rewrite insert_perm. now constructor.
Qed.

Lemma isort_In {A} (le : A -> A -> bool) l x : In x (isort le l) <-> In x l.
Proof. split; apply Permutation_in; [|symmetry]; apply isort_perm. Qed.

Section SortedBy.
  Context {A : Type} (le : A -> A -> bool).
  Hypothesis le_total : forall a b, le a b = true \/ le b a = true.
  Hypothesis le_trans : forall a b c, le a b = true -> le b c = true -> le a c = true.
  Let R a b := le a b = true.

  Lemma insert_sorted x l : StronglySorted R l -> StronglySorted R (insert le x l).
  Proof.
    induction 1 as [|y r Hs IH Hy]; cbn [insert].
    - constructor; constructor.
    - destruct (le x y) eqn:E.
      + constructor; [constructor; assumption|].
        constructor; [exact E|].
        eapply Forall_impl; [|exact Hy]. intros z Hz. eapply le_trans; eassumption.
      + constructor; [exact IH|].
        assert (Hyx : R y x) by (destruct (le_total x y) as [H|H]; [congruence|exact H]).
        eapply Permutation_Forall; [symmetry; apply insert_perm|].
        constructor; assumption.
  Qed.

  Lemma isort_sorted l : StronglySorted R (isort le l).
  Proof. induction l; cbn [isort]; [constructor|now apply insert_sorted]. Qed.
End SortedBy.

Lemma StronglySorted_app_inv {A} (R : A -> A -> Prop) l1 l2 :
  StronglySorted R (l1 ++ l2) ->
  StronglySorted R l1 /\ StronglySorted R l2 /\ (forall a b, In a l1 -> In b l2 -> R a b).
Proof.
  induction l1 as [|x l1 IH]; cbn [app]; intros H.
  - repeat split; [constructor|exact H|intros a b []].
  - inversion H as [|? ? Hs Hf]; subst. destruct (IH Hs) as (H1 & H2 & H3).
    repeat split; [|exact H2|].
    + constructor; [exact H1|]. rewrite Forall_forall in *. intros z Hz. apply Hf, in_or_app. now left.
    + intros a b [->|Ha] Hb; [|now apply H3].
      rewrite Forall_forall in Hf. apply Hf, in_or_app. now right.
Qed.

(** * lengths and Z-indexed access *)
Definition znth {A} (d : A) (i : Z) (l : list A) : A := nth (Z.to_nat i) l d.

Lemma len_nonneg {A} (l : list A) : 0 <= len l.
Proof. unfold len. lia. Qed.

Lemma len_app {A} (l1 l2 : list A) : len (l1 ++ l2) = len l1 + len l2.
Proof. unfold len. rewrite app_length. lia. Qed.

Lemma len_cons {A} (x : A) l : len (x :: l) = 1 + len l.
Proof. unfold len. cbn [length]. lia. Qed.

Lemma len_nil {A} : len (@nil A) = 0.
Proof. reflexivity. Qed.

Lemma len_zrepeat {A} (x : A) n : len (zrepeat x n) = Z.max 0 n.
Proof. unfold len, zrepeat. rewrite repeat_length. lia. Qed.

Lemma len_zfirstn {A} n (l : list A) : len (zfirstn n l) = Z.max 0 (Z.min n (len l)).
Proof. unfold len, zfirstn. rewrite firstn_length. lia. Qed.

Lemma len_map {A B} (f : A -> B) l : len (map f l) = len l.
Proof. unfold len. now rewrite map_length. Qed.

Lemma len_rev {A} (l : list A) : len (rev l) = len l.
Proof. unfold len. now rewrite rev_length. Qed.

Lemma len_zero_nil {A} (l : list A) : len l = 0 -> l = [].
Proof. destruct l; [reflexivity|]. rewrite len_cons. pose proof (len_nonneg l). lia. Qed.

Lemma len_set_length {A} (pad : A) n l : 0 <= n -> len (set_length pad n l) = n.
Proof.
  intros Hn. unfold set_length. pose proof (len_nonneg l).
  destruct (len l <? n) eqn:E.
  - rewrite len_app, len_zrepeat. lia.
  - rewrite len_zfirstn. lia.
Qed.

Lemma znth_app_l {A} (d : A) i l1 l2 : 0 <= i < len l1 -> znth d i (l1 ++ l2) = znth d i l1.
Proof. unfold znth, len. intros H. apply app_nth1. lia. Qed.

Lemma znth_app_r {A} (d : A) i l1 l2 : len l1 <= i -> znth d i (l1 ++ l2) = znth d (i - len l1) l2.
Proof.
  unfold znth, len. intros H. rewrite app_nth2 by lia. f_equal. lia.
Qed.

Lemma znth_zrepeat {A} (d x : A) i n : 0 <= i < n -> znth d i (zrepeat x n) = x.
Proof.
  unfold znth, zrepeat. intros H.
  assert (Hlt : (Z.to_nat i < Z.to_nat n)%nat) by lia.
  revert Hlt. generalize (Z.to_nat i) as k, (Z.to_nat n) as m.
  intros k m; revert k; induction m as [|m IH]; intros k Hk; [lia|].
  destruct k; cbn [repeat nth]; [reflexivity|]. apply IH. lia.
Qed.

Lemma znth_zfirstn {A} (d : A) i n l : 0 <= i < n -> znth d i (zfirstn n l) = znth d i l.
Proof.
  unfold znth, zfirstn. intros H.
  rewrite <- (firstn_skipn (Z.to_nat n) l) at 2.
  destruct (Z_lt_le_dec i (len (zfirstn n l))) as [Hl|Hl].
  - rewrite app_nth1; [reflexivity|]. unfold len, zfirstn in Hl. lia.
  - (* beyond the end of l: both default *)
    unfold len, zfirstn in Hl. rewrite firstn_length in Hl.
    rewrite !nth_overflow; [reflexivity| |].
    + rewrite app_length, firstn_length, skipn_length. lia.
    + rewrite firstn_length. lia.
Qed.

Lemma znth_cons_0 {A} (d x : A) l : znth d 0 (x :: l) = x.
Proof. reflexivity. Qed.

Lemma znth_cons_S {A} (d x : A) i l : 0 < i -> znth d i (x :: l) = znth d (i - 1) l.
Proof.
  unfold znth. intros H. replace (Z.to_nat i) with (S (Z.to_nat (i - 1))) by lia. reflexivity.
Qed.

Lemma znth_overflow {A} (d : A) i l : len l <= i -> znth d i l = d.
Proof. unfold znth, len. intros H. apply nth_overflow. lia. Qed.

Lemma znth_set_length {A} (pad : A) n i l :
  0 <= i < n -> znth pad i (set_length pad n l) = znth pad i l.
Proof.
  intros H. unfold set_length. destruct (len l <? n) eqn:E.
  - destruct (Z_lt_le_dec i (len l)).
    + now rewrite znth_app_l by lia.
    + rewrite znth_app_r by lia. rewrite znth_zrepeat by lia. now rewrite znth_overflow by lia.
  - now apply znth_zfirstn.
Qed.

Lemma znth_map {A B} (f : A -> B) (da : A) (db : B) i l :
  0 <= i < len l -> znth db i (map f l) = f (znth da i l).
Proof.
  unfold znth, len. intros H. rewrite (nth_indep _ db (f da)) by (rewrite map_length; lia).
  apply map_nth.
Qed.

Lemma range_from_length a n : length (range_from a n) = n.
Proof. revert a; induction n; intros; cbn; [reflexivity|now rewrite IHn]. Qed.

Lemma znth_range_from d a n i : 0 <= i < Z.of_nat n -> znth d i (range_from a n) = a + i.
Proof.
  revert a i; induction n as [|n IH]; intros a i H; [lia|].
  cbn [range_from]. destruct (Z.eq_dec i 0) as [->|Hi]; [rewrite znth_cons_0; lia|].
  rewrite znth_cons_S by lia. rewrite IH by lia. lia.
Qed.

Lemma In_range_from a n x : In x (range_from a n) <-> a <= x < a + Z.of_nat n.
Proof.
  revert a; induction n as [|n IH]; intros a; cbn [range_from In]; [lia|].
  rewrite IH. lia.
Qed.

#[export] Hint Rewrite @app_length @repeat_length @firstn_length @rev_length @map_length : lens.
Ltac len_simpl :=
  unfold len, zrepeat, zfirstn in *;
  repeat (progress (autorewrite with lens in *; cbn [length] in * )).

(** * existsb / forallb and permutations *)
Lemma existsb_perm {A} (f : A -> bool) l1 l2 : Permutation l1 l2 -> existsb f l1 = existsb f l2.
Proof.
  induction 1; cbn [existsb]; try congruence.
  - destruct (f x), (f y); reflexivity.
Qed.

Lemma existsb_filter {A} (f g : A -> bool) l : existsb f (filter g l) = existsb (fun x => g x && f x) l.
Proof.
  induction l as [|x r IH]; cbn [filter existsb]; [reflexivity|].
  destruct (g x); cbn [existsb andb]; now rewrite IH.
Qed.

(** * pad_len and bar_start *)
Lemma pad_len_spec n spb : 0 < spb -> n <= pad_len n spb < n + spb /\ (pad_len n spb) mod spb = 0.
Proof.
  unfold pad_len. intros H. split; [pose proof (Z.mod_pos_bound (- n) spb H); lia|].
  rewrite Zplus_mod_idemp_r. replace (n + - n) with 0 by lia. apply Zmod_0_l.
Qed.

Lemma bar_start_spec first ss spb : 0 < spb ->
  bar_start first ss spb <= first < bar_start first ss spb + spb /\ (bar_start first ss spb - ss) mod spb = 0.
Proof.
  unfold bar_start. intros H. pose proof (Z.mod_pos_bound (first - ss) spb H). split; [lia|].
  replace (first - (first - ss) mod spb - ss) with ((first - ss) - (first - ss) mod spb) by lia.
  rewrite Zminus_mod_idemp_r. replace (first - ss - (first - ss)) with 0 by lia. apply Zmod_0_l.
Qed.
