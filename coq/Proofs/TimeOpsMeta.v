(** Proofs/TimeOpsMeta.v — what concatenation does to the rest of the message
    (C13): last non-default scalar wins, repeated fields are appended in piece
    order, composers / genres lose their repeats. *)
From Coq Require Import ZArith List Bool Lia ZifyBool.
From NS Require Import Base.NoteSeq Model.TimeOps Proofs.TimeOpsTidy.
Import ListNotations.
Local Open Scope Z_scope.

Lemma merge_scalars_nth : forall a b i,
  nth i (merge_scalars a b) 0 = merge_z (nth i a 0) (nth i b 0).
Proof.
  induction a as [|x a IH]; intros b i.
  - cbn [merge_scalars]. unfold merge_z. destruct i; cbn [nth]; destruct (nth _ b 0 =? 0) eqn:E; lia.
  - destruct b as [|y b].
    + cbn [merge_scalars]. unfold merge_z. destruct i; cbn [nth]; reflexivity.
    + cbn [merge_scalars]. destruct i; cbn [nth]; [reflexivity|apply IH].
Qed.

Definition acc0 : meta := mkMeta [] [] [] [] [] [].

Lemma fold_merge_fields : forall ms m,
  let r := fold_left merge_meta ms m in
  m_composers r = m_composers m ++ flat_map m_composers ms /\
  m_genres r = m_genres m ++ flat_map m_genres ms /\
  m_instr r = m_instr m ++ flat_map m_instr ms /\
  m_parts r = m_parts m ++ flat_map m_parts ms /\
  m_groups r = m_groups m ++ flat_map m_groups ms /\
  forall i, nth i (m_scalars r) 0 = fold_left merge_z (map (fun x => nth i (m_scalars x) 0) ms) (nth i (m_scalars m) 0).
Proof.
  induction ms as [|x ms IH]; intros m; cbn [fold_left flat_map map].
  - rewrite !app_nil_r. repeat split; reflexivity.
  - destruct (IH (merge_meta m x)) as (A1 & A2 & A3 & A4 & A5 & A6).
    cbv zeta. rewrite A1, A2, A3, A4, A5. cbn [merge_meta m_composers m_genres m_instr m_parts m_groups m_scalars].
    rewrite <- !app_assoc. repeat split; try reflexivity.
    intro i. rewrite A6. cbn [merge_meta m_scalars]. rewrite merge_scalars_nth. reflexivity.
Qed.

(** "the last non-default value wins" *)
Lemma last_cons_default : forall {A} (x : A) l a, last (x :: l) a = last l x.
Proof.
  intros A x l. revert x. induction l as [|y l IH]; intros x a; [reflexivity|].
  change (last (x :: y :: l) a) with (last (y :: l) a). rewrite IH. symmetry. apply IH.
Qed.

Lemma fold_merge_z_last : forall l a,
  fold_left merge_z l a = last (filter (fun x => negb (x =? 0)) l) a.
Proof.
  induction l as [|x r IH]; intro a; [reflexivity|].
  cbn [fold_left filter]. rewrite IH. unfold merge_z. destruct (x =? 0) eqn:E; cbn [negb]; [reflexivity|].
  rewrite last_cons_default. reflexivity.
Qed.

(** order-preserving removal of repeats *)
Lemma nodup_z_In : forall l seen x, In x (nodup_z seen l) <-> In x l /\ ~ In x seen.
Proof.
  induction l as [|y r IH]; intros seen x; cbn [nodup_z].
  - cbn. tauto.
  - destruct (existsb (Z.eqb y) seen) eqn:E.
    + rewrite IH. apply existsb_exists in E. destruct E as (z & Hz & Hyz). assert (y = z) by lia. subst z.
      cbn. split; [tauto|]. intros [[->|H] Hn]; tauto.
    + assert (Hy : ~ In y seen).
      { intro H. assert (existsb (Z.eqb y) seen = true) by (apply existsb_exists; exists y; split; [exact H|lia]).
        congruence. }
      cbn [In]. rewrite IH. cbn [In]. split.
      * intros [->|[H Hn]]; [tauto|]. tauto.
      * intros [[->|H] Hn]; [tauto|]. destruct (Z.eq_dec y x); [tauto|]. right. tauto.
Qed.

Lemma nodup_z_NoDup : forall l seen, NoDup (nodup_z seen l).
Proof.
  induction l as [|y r IH]; intro seen; cbn [nodup_z]; [constructor|].
  destruct (existsb (Z.eqb y) seen); [apply IH|]. constructor; [|apply IH].
  rewrite nodup_z_In. cbn. tauto.
Qed.

Lemma nodup_z_subseq : forall l seen, subseq (nodup_z seen l) l.
Proof.
  induction l as [|y r IH]; intro seen; cbn [nodup_z]; [constructor|].
  destruct (existsb (Z.eqb y) seen); [apply sub_skip|apply sub_keep]; apply IH.
Qed.

(** concatenate_sequences on the rest of the message. *)
Theorem concat_meta_spec : forall ms,
  let r := concat_meta ms in
  (forall i, nth i (m_scalars r) 0 =
             last (filter (fun x => negb (x =? 0)) (map (fun m => nth i (m_scalars m) 0) ms)) 0) /\
  m_instr r = flat_map m_instr ms /\ m_parts r = flat_map m_parts ms /\ m_groups r = flat_map m_groups ms /\
  (NoDup (m_composers r) /\ subseq (m_composers r) (flat_map m_composers ms) /\
   forall x, In x (m_composers r) <-> In x (flat_map m_composers ms)) /\
  (NoDup (m_genres r) /\ subseq (m_genres r) (flat_map m_genres ms) /\
   forall x, In x (m_genres r) <-> In x (flat_map m_genres ms)).
Proof.
  intro ms. unfold concat_meta. fold acc0.
  destruct (fold_merge_fields ms acc0) as (A1 & A2 & A3 & A4 & A5 & A6). cbn [acc0 m_composers m_genres m_instr
    m_parts m_groups m_scalars app] in *.
  cbv zeta. cbn [m_scalars m_composers m_genres m_instr m_parts m_groups].
  rewrite A1, A2, A3, A4, A5. repeat split; try reflexivity.
  - intro i. rewrite A6. destruct i; apply fold_merge_z_last.
  - apply nodup_z_NoDup.
  - apply nodup_z_subseq.
  - rewrite nodup_z_In; tauto.
  - intro H. apply nodup_z_In. cbn. tauto.
  - apply nodup_z_NoDup.
  - apply nodup_z_subseq.
  - rewrite nodup_z_In; tauto.
  - intro H. apply nodup_z_In. cbn. tauto.
Qed.
