(** Proofs/ChordSymS13.v — shard 13 of 16 of the complete enumeration for C15:
    all pitch-class sets S with S /\ {0,1,2,3} = {2}, every bass, and for sets of
    at most 4 classes every first-occurrence order; evaluated by the kernel VM at Qed. *)
From Coq Require Import ZArith List Bool.
From NS Require Import Gen.G15 Model.ChordSym Proofs.ChordSym.
Import ListNotations.
Local Open Scope Z_scope.

Lemma shard_S13_ok : forallb check_set (shard [2]) = true.
Proof. vm_cast_no_check (@eq_refl bool true). Qed.
