(** Proofs/RenderPerfCanon.v — C06, Performance / MetricPerformance, structural version:
    [roundtrip_steps_perf]       rendering a canonical event list and extracting again is the identity;
    [extraction_canonical_perf]  every extracted event list is canonical.
    Independent of Proofs/RenderPerformance.v (own copies of [times_follow_steps], [perf_input_ok]
    inside [Module PC]; all helper lemmas live in [PC] too).

    roundtrip: [scan_rect] is an induction principle along [pf_canon_scan] with the decoder state
    alongside.  The timed reading [Tm] of a canonical list (tuples (step, off, pitch, note start,
    velocity) in event order) is (a) a permutation of the onsets and offsets of the decoded notes
    [Tm_perm], (b) strictly sorted by (step, note start, pitch) [Tm_sorted], (c) mapped back to the
    list by the encoder loop [Tm_loop].  The encoder's own sorted tuple list, projected to the same
    tuples, is sorted by the non-strict version of that order [med_note_events_sorted] and is a
    permutation of the same multiset, hence equal [sorted_perm_unique].
    extraction: [stageC], an invariant over [pf_loop] on the sorted tuple list in the style of
    FqPerfRound.stageB, carrying the scan state. *)
From Coq Require Import ZArith List Bool Lia ZifyBool Permutation Sorted.
From NS Require Import Base.NoteSeq Gen.G07 Model.FqCommon Model.FqPerformance Model.FqSpec
  Proofs.FqCommon Proofs.FqPerformance Proofs.FqPerfRound
  Model.RenderCommon Model.RenderPerformance.
Import ListNotations.
Local Open Scope Z_scope.
Ltac Zify.zify_post_hook ::= Z.to_euclidean_division_equations.

Module PC.

Definition times_follow_steps (l : list note) : Prop :=
  forall a b, In a l -> In b l ->
    (n_qstart a < n_qstart b -> n_start a < n_start b) /\ (n_qstart a = n_qstart b -> n_start a = n_start b).

Definition perf_input_ok (p : pf_params) (ns : list note) : Prop :=
  1 <= fp_max_shift p /\ (fp_bins p = 0 \/ 1 <= fp_bins p) /\
  Forall (fun n => n_qstart n < n_qend n /\ MIN_MIDI_VELOCITY <= n_vel n) ns /\
  no_pitch_overlap (pf_selected p ns) /\ times_follow_steps (pf_selected p ns).

(** * generic list lemmas *)
Lemma sorted_perm_unique {A} (lt le : A -> A -> Prop) :
  (forall a b, lt a b -> le b a -> False) ->
  forall l1 l2, StronglySorted lt l1 -> StronglySorted le l2 -> Permutation l1 l2 -> l1 = l2.
Proof.
  intros Hanti. induction l1 as [|a l1 IH]; intros l2 H1 H2 Hp.
  - apply Permutation_nil in Hp. auto.
  - destruct l2 as [|b l2]; [apply Permutation_sym, Permutation_nil in Hp; discriminate|].
    inversion H1 as [|? ? H1s H1f]; inversion H2 as [|? ? H2s H2f]; subst.
    rewrite Forall_forall in H1f, H2f.
    assert (a = b).
    { destruct (Permutation_in a Hp (or_introl eq_refl)) as [Hb|Hb]; [auto|].
      destruct (Permutation_in b (Permutation_sym Hp) (or_introl eq_refl)) as [Ha|Ha]; [auto|].
      exfalso. eapply Hanti; [apply H1f; exact Ha|apply H2f; exact Hb]. }
    subst b. f_equal. apply IH; auto. eapply Permutation_cons_inv; eauto.
Qed.

Lemma ssorted_map {A B} (R : A -> A -> Prop) (R' : B -> B -> Prop) (f : A -> B) l :
  (forall a b, In a l -> In b l -> R a b -> R' (f a) (f b)) ->
  StronglySorted R l -> StronglySorted R' (map f l).
Proof.
  induction l as [|x l IH]; intros HR Hs; cbn [map]; [constructor|].
  inversion Hs as [|? ? Hs' Hf]; subst. constructor.
  - apply IH; [|exact Hs']. intros a b Ha Hb. apply HR; now right.
  - rewrite Forall_forall in *. intros y Hy. apply in_map_iff in Hy. destruct Hy as (z & <- & Hz).
    apply HR; [now left|now right|now apply Hf].
Qed.

Lemma ssorted_nth {A} (R : A -> A -> Prop) l : StronglySorted R l ->
  forall i j a b, (i < j)%nat -> nth_error l i = Some a -> nth_error l j = Some b -> R a b.
Proof.
  induction 1 as [|x l Hs IH Hf]; intros i j a b Hij Ha Hb.
  - destruct i; discriminate.
  - destruct j as [|j]; [lia|]. cbn [nth_error] in Hb. destruct i as [|i].
    + cbn in Ha. injection Ha as <-. rewrite Forall_forall in Hf. apply Hf. eapply nth_error_In; eassumption.
    + cbn [nth_error] in Ha. eapply IH; [|eassumption|eassumption]. lia.
Qed.

Lemma filter_all {A} (f : A -> bool) l : (forall x, In x l -> f x = true) -> filter f l = l.
Proof.
  induction l as [|x l IH]; intros H; cbn [filter]; [reflexivity|].
  rewrite (H x (or_introl eq_refl)). f_equal. apply IH. intros y Hy. apply H. now right.
Qed.

Lemma zrepeat_snoc {A} (x : A) k : 0 <= k -> zrepeat x k ++ [x] = zrepeat x (k + 1).
Proof.
  intros Hk. unfold zrepeat. replace (Z.to_nat (k + 1)) with (S (Z.to_nat k)) by lia.
  induction (Z.to_nat k) as [|n IH]; cbn [repeat app]; [reflexivity|]. f_equal. exact IH.
Qed.

Lemma pf_shifts_decomp ms k u : 1 <= ms -> 0 <= k -> 1 <= u <= ms ->
  pf_shifts ms (k * ms + u) = zrepeat (EV_TIME_SHIFT, ms) k ++ [(EV_TIME_SHIFT, u)].
Proof.
  intros Hms Hk Hu. unfold pf_shifts.
  assert (E : (k * ms + u - 1) / ms = k) by (symmetry; apply Z.div_unique with (r := u - 1); lia).
  rewrite E. do 3 f_equal. lia.
Qed.

Lemma vel_bin_roundtrip b nb : 1 <= nb -> vel_to_bin (bin_to_vel b nb) nb = b.
Proof.
  intros Hnb. unfold vel_to_bin, bin_to_vel, bin_size, vel_range.
  assert (0 < (MAX_MIDI_VELOCITY - MIN_MIDI_VELOCITY + 1 + nb - 1) / nb).
  { apply Z.div_str_pos. assert (0 <= MAX_MIDI_VELOCITY - MIN_MIDI_VELOCITY) by (cbv; discriminate). lia. }
  set (bs := (MAX_MIDI_VELOCITY - MIN_MIDI_VELOCITY + 1 + nb - 1) / nb) in *.
  replace (MIN_MIDI_VELOCITY + (b - 1) * bs - MIN_MIDI_VELOCITY) with ((b - 1) * bs) by lia.
  rewrite Z.div_mul by lia. lia.
Qed.

(** * the encoder loop on "medium" tuples: all the loop and the sort keys look at *)
Record med := mkMed { m_step : Z; m_off : bool; m_pitch : Z; m_ns : Z; m_vel : Z }.

Definition med_of (t : tev) : med :=
  mkMed (te_step t) (te_off t) (n_pitch (te_note t)) (n_start (te_note t)) (n_vel (te_note t)).

Fixpoint mloop (nb ms : Z) (l : list med) (cur vbin : Z) : list pevent :=
  match l with
  | [] => []
  | t :: r =>
      let sh := if cur <? m_step t then pf_shifts ms (m_step t - cur) else [] in
      let cur' := if cur <? m_step t then m_step t else cur in
      let b := vel_to_bin (m_vel t) nb in
      let change := negb (nb =? 0) && negb (m_off t) && negb (b =? vbin) in
      let ve := if change then [(EV_VELOCITY, b)] else [] in
      let vbin' := if change then b else vbin in
      sh ++ ve ++ [((if m_off t then EV_NOTE_OFF else EV_NOTE_ON), m_pitch t)]
         ++ mloop nb ms r cur' vbin'
  end.

Lemma pf_loop_mloop nb ms : forall tes cur vbin,
  pf_loop nb ms tes cur vbin = mloop nb ms (map med_of tes) cur vbin.
Proof.
  induction tes as [|t r IH]; intros cur vbin; cbn [pf_loop mloop map]; [reflexivity|].
  cbn [med_of m_step m_off m_pitch m_vel]. now rewrite IH.
Qed.

(** strict / non-strict order by (step, note start, pitch) *)
Definition mlt (a b : med) : Prop :=
  m_step a < m_step b \/
  (m_step a = m_step b /\ (m_ns a < m_ns b \/ (m_ns a = m_ns b /\ m_pitch a < m_pitch b))).
Definition mle (a b : med) : Prop :=
  m_step a < m_step b \/
  (m_step a = m_step b /\ (m_ns a < m_ns b \/ (m_ns a = m_ns b /\ m_pitch a <= m_pitch b))).

(** * the timed reading of an event list, along the decoder *)
Fixpoint Tm (nb start : Z) (es : list pevent) (step vel : Z) (op : list entry) : list med :=
  match es with
  | [] => []
  | (ty, val) :: r =>
      if ty =? EV_NOTE_ON then
        mkMed (step + start) false val (step + start) vel :: Tm nb start r step vel (op ++ [(val, step, vel)])
      else if ty =? EV_NOTE_OFF then
        match take_first val op with
        | None => Tm nb start r step vel op
        | Some ((q, s, v), op') => mkMed (step + start) true q (s + start) v :: Tm nb start r step vel op'
        end
      else if ty =? EV_TIME_SHIFT then Tm nb start r (step + val) vel op
      else if ty =? EV_VELOCITY then Tm nb start r step (bin_to_vel val nb) op
      else []
  end.

Lemma Tm_on nb start v r step vel op :
  Tm nb start ((EV_NOTE_ON, v) :: r) step vel op
  = mkMed (step + start) false v (step + start) vel :: Tm nb start r step vel (op ++ [(v, step, vel)]).
Proof. reflexivity. Qed.
Lemma Tm_off nb start v r step vel op :
  Tm nb start ((EV_NOTE_OFF, v) :: r) step vel op
  = match take_first v op with
    | None => Tm nb start r step vel op
    | Some ((q, s, w), op') => mkMed (step + start) true q (s + start) w :: Tm nb start r step vel op'
    end.
Proof. reflexivity. Qed.
Lemma Tm_shift nb start v r step vel op :
  Tm nb start ((EV_TIME_SHIFT, v) :: r) step vel op = Tm nb start r (step + v) vel op.
Proof. reflexivity. Qed.
Lemma Tm_vel nb start v r step vel op :
  Tm nb start ((EV_VELOCITY, v) :: r) step vel op = Tm nb start r step (bin_to_vel v nb) op.
Proof. reflexivity. Qed.

Definition pq (x : entry) : Z * Z := (fst (fst x), snd (fst x)).

Lemma take_open_map v op :
  take_open v (map pq op)
  = match take_first v op with None => None | Some (x, op') => Some (pq x, map pq op') end.
Proof.
  induction op as [|[[q s] w] op IH]; cbn [map take_open take_first pq fst snd]; [reflexivity|].
  destruct (q =? v); [reflexivity|].
  rewrite IH.
  destruct (take_first v op) as [[y r']|]; reflexivity.
Qed.

Lemma take_first_pitch v : forall op x op', take_first v op = Some (x, op') -> fst (fst x) = v.
Proof.
  induction op as [|[[q s] w] op IH]; intros x op'; cbn [take_first]; [discriminate|].
  destruct (q =? v) eqn:E.
  - intros H. injection H as <- _. cbn. lia.
  - destruct (take_first v op) as [[y r']|] eqn:E2; [|discriminate]. intros H. injection H as <- _.
    eapply IH; reflexivity.
Qed.

Lemma take_first_perm v : forall op x op', take_first v op = Some (x, op') -> Permutation op (x :: op').
Proof.
  induction op as [|[[q s] w] op IH]; intros x op'; cbn [take_first]; [discriminate|].
  destruct (q =? v) eqn:E.
  - intros H. injection H as <- <-. reflexivity.
  - destruct (take_first v op) as [[y r']|] eqn:E2; [|discriminate]. intros H. injection H as <- <-.
    rewrite (IH _ _ eq_refl). apply perm_swap.
Qed.

(** * an induction principle along the canonical scan, with the decoder's state alongside *)
Section Scan.
  Variables nb ms : Z.
  Variable cf : pf_cst.
  Variable Q : list pevent -> pf_cst -> Z -> list entry -> Prop.

  Hypothesis Hnil : forall vel op, cs_open cf = map pq op -> Q [] cf vel op.
  Hypothesis Hon : forall v r c vel op, cs_open c = map pq op ->
    (nb <> 0 -> cs_vbin c <> 0) -> (forall x, In x op -> fst (fst x) <> v) ->
    match cs_onp c with None => True | Some q => q < v end ->
    pf_canon_scan nb ms r (mkPfCst (cs_step c) (cs_open c ++ [(v, cs_step c)]) (cs_vbin c) POn (cs_offkey c) (Some v))
      = Some cf ->
    Q r (mkPfCst (cs_step c) (cs_open c ++ [(v, cs_step c)]) (cs_vbin c) POn (cs_offkey c) (Some v))
      vel (op ++ [(v, cs_step c, vel)]) ->
    Q ((EV_NOTE_ON, v) :: r) c vel op.
  Hypothesis Hoff : forall v r c vel op s w op', cs_open c = map pq op ->
    take_first v op = Some ((v, s, w), op') ->
    cs_prev c <> PVel -> cs_onp c = None -> key_lt (cs_offkey c) s v = true -> s < cs_step c ->
    pf_canon_scan nb ms r (mkPfCst (cs_step c) (map pq op') (cs_vbin c) POff (Some (s, v)) None) = Some cf ->
    Q r (mkPfCst (cs_step c) (map pq op') (cs_vbin c) POff (Some (s, v)) None) vel op' ->
    Q ((EV_NOTE_OFF, v) :: r) c vel op.
  Hypothesis Hshift : forall v r c vel op, cs_open c = map pq op ->
    cs_prev c <> PVel -> 1 <= v <= ms -> (forall u, cs_prev c = PShift u -> u = ms) ->
    pf_canon_scan nb ms r (mkPfCst (cs_step c + v) (cs_open c) (cs_vbin c) (PShift v) None None) = Some cf ->
    Q r (mkPfCst (cs_step c + v) (cs_open c) (cs_vbin c) (PShift v) None None) vel op ->
    Q ((EV_TIME_SHIFT, v) :: r) c vel op.
  Hypothesis Hvel : forall v r c vel op, cs_open c = map pq op ->
    nb <> 0 -> cs_prev c <> PVel -> 1 <= v -> v <> cs_vbin c ->
    pf_canon_scan nb ms r (mkPfCst (cs_step c) (cs_open c) v PVel (cs_offkey c) (cs_onp c)) = Some cf ->
    Q r (mkPfCst (cs_step c) (cs_open c) v PVel (cs_offkey c) (cs_onp c)) (bin_to_vel v nb) op ->
    Q ((EV_VELOCITY, v) :: r) c vel op.

  Lemma scan_rect : forall es c vel op,
    pf_canon_scan nb ms es c = Some cf -> cs_open c = map pq op -> Q es c vel op.
  Proof.
    induction es as [|[ty v] r IH]; intros c vel op Hs Hop; cbn [pf_canon_scan] in Hs.
    - injection Hs as ->. now apply Hnil.
    - destruct (pf_canon_step nb ms c (ty, v)) as [c'|] eqn:E; [|discriminate].
      unfold pf_canon_step in E.
      assert (Hnv : forall k, is_pvel k = false -> k <> PVel) by (intros k Hk ->; discriminate).
      destruct (ty =? EV_NOTE_ON) eqn:T1.
      { apply Z.eqb_eq in T1. subst ty.
        destruct (negb (nb =? 0) && (cs_vbin c =? 0)) eqn:A1; cbn [orb] in E; [discriminate|].
        destruct (existsb (fun o => fst o =? v) (cs_open c)) eqn:A2; cbn [orb] in E; [discriminate|].
        destruct (match cs_onp c with None => true | Some q => q <? v end) eqn:A3; cbn [negb] in E; [|discriminate].
        injection E as <-. apply Hon; auto.
        - lia.
        - intros x Hx Heq. rewrite Hop in A2.
          assert (existsb (fun o => fst o =? v) (map pq op) = true); [|congruence].
          apply existsb_exists. exists (pq x). split; [now apply in_map|]. unfold pq. cbn [fst]. lia.
        - destruct (cs_onp c); [lia|exact I].
        - apply IH; [exact Hs|]. cbn [cs_open cs_step]. rewrite Hop, map_app. reflexivity. }
      destruct (ty =? EV_NOTE_OFF) eqn:T2.
      { apply Z.eqb_eq in T2. subst ty.
        destruct (is_pvel (cs_prev c)) eqn:A1; cbn [orb] in E; [discriminate|].
        destruct (cs_onp c) eqn:A2; cbn [negb] in E; [discriminate|].
        rewrite Hop, take_open_map in E.
        destruct (take_first v op) as [[[[q s] w] op']|] eqn:A3; [|discriminate].
        cbn [pq fst snd] in E.
        destruct (key_lt (cs_offkey c) s q) eqn:A4; cbn [andb] in E; [|discriminate].
        destruct (s <? cs_step c) eqn:A5; [|discriminate].
        injection E as <-.
        pose proof (take_first_pitch _ _ _ _ A3) as Hq. cbn in Hq. subst q.
        eapply Hoff; eauto; try lia; try (apply IH; [exact Hs|reflexivity]). }
      destruct (ty =? EV_TIME_SHIFT) eqn:T3.
      { apply Z.eqb_eq in T3. subst ty.
        destruct (is_pvel (cs_prev c)) eqn:A1; cbn [orb] in E; [discriminate|].
        destruct ((1 <=? v) && (v <=? ms)) eqn:A2; cbn [negb orb] in E; [|discriminate].
        destruct (match cs_prev c with PShift u => u =? ms | _ => true end) eqn:A3; cbn [negb] in E; [|discriminate].
        injection E as <-. apply Hshift; auto; try lia;
          try (intros u Hu; rewrite Hu in A3; lia); try (apply IH; [exact Hs|exact Hop]). }
      destruct (ty =? EV_VELOCITY) eqn:T4; [|discriminate].
      apply Z.eqb_eq in T4. subst ty.
      destruct (nb =? 0) eqn:A0; cbn [orb] in E; [discriminate|].
      destruct (is_pvel (cs_prev c)) eqn:A1; cbn [orb] in E; [discriminate|].
      destruct (1 <=? v) eqn:A2; cbn [negb orb] in E; [|discriminate].
      destruct (v =? cs_vbin c) eqn:A3; [discriminate|].
      injection E as <-. apply Hvel; auto; try lia; try (apply IH; [exact Hs|exact Hop]).
  Qed.
End Scan.

(** * properties of the timed reading of a canonical list *)
Section Canon.
  Variables nb ms start dv : Z.
  Hypothesis Hms : 1 <= ms.
  Hypothesis Hnb : nb = 0 \/ 1 <= nb.

  Definition on_e (x : entry) : med :=
    mkMed (snd (fst x) + start) false (fst (fst x)) (snd (fst x) + start) (snd x).
  Definition on_s (x : snote) : med :=
    let '(q, s, e, v) := x in mkMed s false q s v.
  Definition off_s (x : snote) : med :=
    let '(q, s, e, v) := x in mkMed e true q s v.

  (** ** the timed tuples are the onsets and offsets of the decoded notes *)
  Lemma Tm_perm cf : cs_open cf = [] -> forall es c vel op,
    pf_canon_scan nb ms es c = Some cf -> cs_open c = map pq op ->
    Permutation (map on_e op ++ Tm nb start es (cs_step c) vel op)
                (map on_s (pf_decode nb start es (cs_step c) vel op)
                 ++ map off_s (pf_decode nb start es (cs_step c) vel op)).
  Proof.
    intros Hfin.
    apply (scan_rect nb ms cf (fun es c vel op =>
      Permutation (map on_e op ++ Tm nb start es (cs_step c) vel op)
                  (map on_s (pf_decode nb start es (cs_step c) vel op)
                   ++ map off_s (pf_decode nb start es (cs_step c) vel op)))).
    - intros vel op Hop. rewrite Hfin in Hop. destruct op; [|discriminate]. cbn. constructor.
    - intros v r c vel op Hop _ _ _ _ IH. cbn [cs_step] in IH.
      rewrite Tm_on, dec_on. rewrite map_app, <- app_assoc in IH. exact IH.
    - intros v r c vel op s w op' Hop Htf _ _ _ Hs _ IH. cbn [cs_step] in IH.
      rewrite Tm_off, dec_off, Htf. replace (cs_step c =? s) with false by lia.
      cbn [map app on_s off_s].
      rewrite (Permutation_map on_e (take_first_perm _ _ _ _ Htf)). cbn [map app].
      change (on_e (v, s, w)) with (mkMed (s + start) false v (s + start) w).
      apply perm_skip.
      etransitivity; [symmetry; apply Permutation_middle|].
      etransitivity; [|apply Permutation_middle]. apply perm_skip. exact IH.
    - intros v r c vel op Hop _ _ _ _ IH. cbn [cs_step] in IH. rewrite Tm_shift, dec_shift. exact IH.
    - intros v r c vel op Hop _ _ _ _ _ IH. cbn [cs_step] in IH. rewrite Tm_vel, dec_vel. exact IH.
  Qed.

  (** ** no decoded note starts before the performance *)
  Lemma dec_starts cf : forall es c vel op,
    pf_canon_scan nb ms es c = Some cf -> cs_open c = map pq op ->
    0 <= cs_step c -> Forall (fun x : entry => 0 <= snd (fst x)) op ->
    Forall (fun x : snote => start <= snd (fst (fst x))) (pf_decode nb start es (cs_step c) vel op).
  Proof.
    apply (scan_rect nb ms cf (fun es c vel op =>
      0 <= cs_step c -> Forall (fun x : entry => 0 <= snd (fst x)) op ->
      Forall (fun x : snote => start <= snd (fst (fst x))) (pf_decode nb start es (cs_step c) vel op))).
    - intros vel op _ H0 Hop. cbn [pf_decode]. rewrite Forall_forall in *. intros x Hx.
      apply in_map_iff in Hx. destruct Hx as ([[q s] w] & <- & Hy). apply filter_In in Hy.
      destruct Hy as (Hy & _). specialize (Hop _ Hy). cbn in *. lia.
    - intros v r c vel op Hop _ _ _ _ IH H0 Ho. cbn [cs_step] in IH. rewrite dec_on. apply IH; [exact H0|].
      apply Forall_app. split; [exact Ho|]. constructor; [cbn; lia|constructor].
    - intros v r c vel op s w op' Hop Htf _ _ _ Hs _ IH H0 Ho. cbn [cs_step] in IH.
      rewrite dec_off, Htf. replace (cs_step c =? s) with false by lia.
      pose proof (take_first_perm _ _ _ _ Htf) as Hp.
      pose proof (Permutation_Forall Hp Ho) as Ho'. inversion Ho' as [|? ? Hx Ho'']; subst.
      constructor; [cbn in *; lia|]. now apply IH.
    - intros v r c vel op Hop _ Hv _ _ IH H0 Ho. cbn [cs_step] in IH. rewrite dec_shift. apply IH; [lia|exact Ho].
    - intros v r c vel op Hop _ _ _ _ _ IH H0 Ho. cbn [cs_step] in IH. rewrite dec_vel. now apply IH.
  Qed.

  (** ** the timed tuples are strictly sorted by (step, note start, pitch) *)
  Definition lowb (c : pf_cst) (t : med) : Prop :=
    cs_step c + start < m_step t \/
    (cs_step c + start = m_step t /\
     (m_off t = true -> cs_onp c = None /\ key_lt (cs_offkey c) (m_ns t - start) (m_pitch t) = true
                        /\ m_ns t < m_step t) /\
     (m_off t = false -> m_ns t = m_step t /\ match cs_onp c with None => True | Some q => q < m_pitch t end)).

  Lemma Tm_low cf : forall es c vel op,
    pf_canon_scan nb ms es c = Some cf -> cs_open c = map pq op ->
    forall t, In t (Tm nb start es (cs_step c) vel op) -> lowb c t.
  Proof.
    apply (scan_rect nb ms cf (fun es c vel op =>
      forall t, In t (Tm nb start es (cs_step c) vel op) -> lowb c t)).
    - intros vel op _ t [].
    - intros v r c vel op Hop _ _ Honp _ IH t. cbn [cs_step] in IH. rewrite Tm_on. intros [<-|Ht].
      + right. cbn [m_step m_off m_ns m_pitch]. split; [reflexivity|]. split; [discriminate|].
        intros _. split; [reflexivity|exact Honp].
      + specialize (IH t Ht). unfold lowb in *. cbn [cs_step cs_onp cs_offkey] in IH.
        destruct IH as [IH|(E & Hoff & Hon)]; [now left|right]. split; [exact E|]. split.
        * intros Ho. destruct (Hoff Ho) as (Hd & _). discriminate.
        * intros Ho. destruct (Hon Ho) as (H1 & H2). split; [exact H1|].
          destruct (cs_onp c); [lia|exact I].
    - intros v r c vel op s w op' Hop Htf _ Honp Hkey Hs _ IH t. cbn [cs_step] in IH. rewrite Tm_off, Htf.
      intros [<-|Ht].
      + right. cbn [m_step m_off m_ns m_pitch]. split; [reflexivity|]. split; [|discriminate].
        intros _. split; [exact Honp|]. split; [|lia]. replace (s + start - start) with s by lia. exact Hkey.
      + specialize (IH t Ht). unfold lowb in *. cbn [cs_step cs_onp cs_offkey] in IH.
        destruct IH as [IH|(E & Hoff & Hon)]; [now left|right]. split; [exact E|]. split.
        * intros Ho. destruct (Hoff Ho) as (_ & Hk & Hl). split; [exact Honp|]. split; [|exact Hl].
          unfold key_lt in *. destruct (cs_offkey c) as [[s' q']|]; [lia|reflexivity].
        * intros Ho. destruct (Hon Ho) as (H1 & _). split; [exact H1|]. rewrite Honp. exact I.
    - intros v r c vel op Hop _ Hv _ _ IH t. cbn [cs_step] in IH. rewrite Tm_shift. intros Ht.
      specialize (IH t Ht). unfold lowb in *. cbn [cs_step] in IH. left. lia.
    - intros v r c vel op Hop _ _ _ _ _ IH t. cbn [cs_step] in IH. rewrite Tm_vel. intros Ht.
      specialize (IH t Ht). unfold lowb in *. cbn [cs_step cs_onp cs_offkey] in IH. exact IH.
  Qed.

  Lemma Tm_sorted cf : forall es c vel op,
    pf_canon_scan nb ms es c = Some cf -> cs_open c = map pq op ->
    StronglySorted mlt (Tm nb start es (cs_step c) vel op).
  Proof.
    apply (scan_rect nb ms cf (fun es c vel op => StronglySorted mlt (Tm nb start es (cs_step c) vel op))).
    - intros; constructor.
    - intros v r c vel op Hop Hvb Hex Honp Hs' IH. rewrite Tm_on.
      cbn [cs_step] in IH. constructor; [exact IH|].
      apply Forall_forall. intros t Ht.
      pose proof (Tm_low cf r _ vel (op ++ [(v, cs_step c, vel)]) Hs'
                    ltac:(cbn [cs_open]; rewrite Hop, map_app; reflexivity) t Ht) as Hl.
      unfold lowb in Hl. cbn [cs_step cs_onp cs_offkey] in Hl. unfold mlt. cbn [m_step m_ns m_pitch].
      destruct Hl as [Hl|(E & Hoff & Hon)]; [now left|right]. split; [exact E|].
      destruct (m_off t) eqn:Eo.
      + destruct (Hoff eq_refl) as (Hd & _). discriminate.
      + destruct (Hon eq_refl) as (H1 & H2). right. split; lia.
    - intros v r c vel op s w op' Hop Htf Hpv Honp Hkey Hlt Hs' IH. rewrite Tm_off, Htf.
      cbn [cs_step] in IH. constructor; [exact IH|].
      apply Forall_forall. intros t Ht.
      pose proof (Tm_low cf r _ vel op' Hs' eq_refl t Ht) as Hl.
      unfold lowb in Hl. cbn [cs_step cs_onp cs_offkey] in Hl. unfold mlt. cbn [m_step m_ns m_pitch].
      destruct Hl as [Hl|(E & Hoff & Hon)]; [now left|right]. split; [exact E|].
      destruct (m_off t) eqn:Eo.
      + destruct (Hoff eq_refl) as (_ & Hk & _). unfold key_lt in Hk. lia.
      + destruct (Hon eq_refl) as (H1 & _). left. lia.
    - intros v r c vel op Hop Hpv Hv Hu _ IH. rewrite Tm_shift. exact IH.
    - intros v r c vel op Hop Hn Hpv Hv Hne _ IH. rewrite Tm_vel. exact IH.
  Qed.
  (** ** running the encoder loop over the timed tuples reproduces the list *)
  Definition pend_sh (c : pf_cst) (cur : Z) (Psh : list pevent) : Prop :=
    (Psh = [] /\ cur = cs_step c + start /\ (forall u, cs_prev c <> PShift u)) \/
    (exists k u, 0 <= k /\ 1 <= u <= ms /\ Psh = zrepeat (EV_TIME_SHIFT, ms) k ++ [(EV_TIME_SHIFT, u)] /\
       cs_step c + start = cur + k * ms + u /\ (cs_prev c = PShift u \/ cs_prev c = PVel)).
  Definition pend_v (c : pf_cst) (vbin : Z) (Pv : list pevent) : Prop :=
    (Pv = [] /\ vbin = cs_vbin c /\ cs_prev c <> PVel) \/
    (Pv = [(EV_VELOCITY, cs_vbin c)] /\ vbin <> cs_vbin c /\ cs_prev c = PVel /\ nb <> 0).

  Lemma pend_sh_emit c cur Psh : pend_sh c cur Psh ->
    (if cur <? cs_step c + start then pf_shifts ms (cs_step c + start - cur) else []) = Psh /\
    (if cur <? cs_step c + start then cs_step c + start else cur) = cs_step c + start.
  Proof.
    intros [(-> & -> & _)|(k & u & Hk & Hu & -> & E & _)].
    - rewrite Z.ltb_irrefl. auto.
    - assert (0 <= k * ms) by nia. replace (cur <? cs_step c + start) with true by lia. split; [|reflexivity].
      replace (cs_step c + start - cur) with (k * ms + u) by lia. now apply pf_shifts_decomp.
  Qed.

  Lemma Tm_loop cf : (cs_prev cf = PStart \/ cs_prev cf = POff) -> forall es c vel op,
    pf_canon_scan nb ms es c = Some cf -> cs_open c = map pq op ->
    vel_inv nb dv (cs_vbin c) vel -> forall cur vbin Psh Pv, pend_sh c cur Psh -> pend_v c vbin Pv ->
    mloop nb ms (Tm nb start es (cs_step c) vel op) cur vbin = Psh ++ Pv ++ es.
  Proof.
    intros Hfin.
    apply (scan_rect nb ms cf (fun es c vel op =>
      vel_inv nb dv (cs_vbin c) vel -> forall cur vbin Psh Pv, pend_sh c cur Psh -> pend_v c vbin Pv ->
      mloop nb ms (Tm nb start es (cs_step c) vel op) cur vbin = Psh ++ Pv ++ es)).
    - intros vel op _ _ cur vbin Psh Pv Hsh Hpv.
      assert (Psh = []) as ->.
      { destruct Hsh as [(-> & _)|(k & u & _ & _ & _ & _ & [H|H])]; [reflexivity| |];
          destruct Hfin as [H'|H']; congruence. }
      assert (Pv = []) as ->.
      { destruct Hpv as [(-> & _)|(_ & _ & H & _)]; [reflexivity|]. destruct Hfin as [H'|H']; congruence. }
      reflexivity.
    - intros v r c vel op Hop Hvb Hex Honp Hs' IH Hvi cur vbin Psh Pv Hsh Hpv.
      cbn [cs_step cs_vbin] in IH.
      rewrite Tm_on. cbn [mloop m_step m_off m_pitch m_vel]. destruct (pend_sh_emit _ _ _ Hsh) as (-> & ->).
      cbn [negb]. rewrite andb_true_r.
      assert (Hsh' : pend_sh (mkPfCst (cs_step c) (cs_open c ++ [(v, cs_step c)]) (cs_vbin c) POn (cs_offkey c) (Some v))
                             (cs_step c + start) []).
      { left. cbn [cs_step cs_prev]. repeat split; auto. intros u; discriminate. }
      assert (Hpv' : pend_v (mkPfCst (cs_step c) (cs_open c ++ [(v, cs_step c)]) (cs_vbin c) POn (cs_offkey c) (Some v))
                            (cs_vbin c) []).
      { left. cbn [cs_vbin cs_prev]. repeat split; auto. discriminate. }
      pose proof (IH Hvi (cs_step c + start) (cs_vbin c) [] [] Hsh' Hpv') as IH'. cbn [app] in IH'.
      destruct Hvi as [(Hz & Hvd)|(Hnz & Hvv)].
      + replace (nb =? 0) with true by lia. cbn [negb andb].
        destruct Hpv as [(-> & -> & _)|(_ & _ & _ & Hc)]; [|contradiction].
        rewrite IH'. reflexivity.
      + assert (Hvel : vel = bin_to_vel (cs_vbin c) nb) by (destruct Hvv as [Hvv|Hvv]; [now apply Hvb in Hvv|exact Hvv]).
        rewrite Hvel, vel_bin_roundtrip by lia. rewrite <- Hvel.
        replace (nb =? 0) with false by lia. cbn [negb andb].
        destruct Hpv as [(-> & -> & _)|(-> & Hne & _ & _)].
        * rewrite Z.eqb_refl. cbn [negb]. rewrite IH'. reflexivity.
        * replace (cs_vbin c =? vbin) with false by lia. cbn [negb]. rewrite IH'. reflexivity.
    - intros v r c vel op s w op' Hop Htf Hpvel Honp Hkey Hlt Hs' IH Hvi cur vbin Psh Pv Hsh Hpv.
      cbn [cs_step cs_vbin] in IH.
      rewrite Tm_off, Htf. cbn [mloop m_step m_off m_pitch m_vel]. destruct (pend_sh_emit _ _ _ Hsh) as (-> & ->).
      cbn [negb]. rewrite andb_false_r. cbn [andb].
      destruct Hpv as [(-> & -> & _)|(_ & _ & Hc & _)]; [|contradiction].
      rewrite (IH Hvi (cs_step c + start) (cs_vbin c) [] []); [reflexivity| |].
      + left. cbn [cs_step cs_prev]. repeat split; auto. intros u; discriminate.
      + left. cbn [cs_vbin cs_prev]. repeat split; auto. discriminate.
    - intros v r c vel op Hop Hpvel Hv Hu Hs' IH Hvi cur vbin Psh Pv Hsh Hpv.
      cbn [cs_step cs_vbin] in IH. rewrite Tm_shift.
      destruct Hpv as [(-> & -> & _)|(_ & _ & Hc & _)]; [|contradiction].
      rewrite (IH Hvi cur (cs_vbin c) (Psh ++ [(EV_TIME_SHIFT, v)]) []).
      + rewrite <- app_assoc. reflexivity.
      + right. cbn [cs_step cs_prev]. destruct Hsh as [(-> & -> & _)|(k & u & Hk & Hu' & -> & E & [Hp|Hp])]; [| |contradiction].
        * exists 0, v. repeat split; auto; try lia.
        * specialize (Hu _ Hp). subst u. exists (k + 1), v. repeat split; auto; try lia.
          rewrite zrepeat_snoc by lia. reflexivity.
      + left. cbn [cs_vbin cs_prev]. repeat split; auto. discriminate.
    - intros v r c vel op Hop Hnz Hpvel Hv Hne Hs' IH Hvi cur vbin Psh Pv Hsh Hpv.
      cbn [cs_step cs_vbin] in IH. rewrite Tm_vel.
      destruct Hpv as [(-> & -> & _)|(_ & _ & Hc & _)]; [|contradiction].
      rewrite (IH ltac:(right; split; [exact Hnz|now right]) cur (cs_vbin c) Psh [(EV_VELOCITY, v)]).
      + reflexivity.
      + destruct Hsh as [(-> & -> & _)|(k & u & Hk & Hu' & -> & E & _)].
        * left. cbn [cs_step cs_prev]. repeat split; auto. intros u; discriminate.
        * right. exists k, u. cbn [cs_step cs_prev]. repeat split; auto; lia.
      + right. cbn [cs_vbin cs_prev]. repeat split; auto.
  Qed.
End Canon.

(** * the tuples the encoder builds from the rendered notes *)
Definition on_m (n : note) : med := mkMed (n_qstart n) false (n_pitch n) (n_start n) (n_vel n).
Definition off_m (n : note) : med := mkMed (n_qend n) true (n_pitch n) (n_start n) (n_vel n).

Lemma med_note_events_perm sorted :
  Permutation (map med_of (pf_note_events sorted)) (map on_m sorted ++ map off_m sorted).
Proof.
  unfold pf_note_events. rewrite (Permutation_map med_of (isort_perm tev_le _)).
  rewrite map_app, !map_map.
  rewrite <- (map_snd_enum on_m sorted 0), <- (map_snd_enum off_m sorted 0). reflexivity.
Qed.

Lemma pf_le_total a b : pf_le a b = true \/ pf_le b a = true.
Proof. unfold pf_le. lia. Qed.
Lemma pf_le_trans a b c : pf_le a b = true -> pf_le b c = true -> pf_le a c = true.
Proof. unfold pf_le. lia. Qed.

Lemma med_note_events_sorted l :
  StronglySorted mle (map med_of (pf_note_events (isort pf_le l))).
Proof.
  set (sorted := isort pf_le l).
  assert (Hs : StronglySorted (fun a b => pf_le a b = true) sorted)
    by (apply isort_sorted; [apply pf_le_total|apply pf_le_trans]).
  eapply ssorted_map; [|apply note_events_sorted].
  intros a b Ha Hb Hle.
  apply In_note_events in Ha. destruct Ha as (ia & na & Hia & Hna & Hca).
  apply In_note_events in Hb. destruct Hb as (ib & nb' & Hib & Hnb & Hcb).
  assert (Ea : te_idx a = ia /\ te_note a = na) by (destruct Hca; subst a; auto).
  assert (Eb : te_idx b = ib /\ te_note b = nb') by (destruct Hcb; subst b; auto).
  destruct Ea as (Ea1 & Ea2). destruct Eb as (Eb1 & Eb2).
  unfold mle, med_of. cbn [m_step m_ns m_pitch]. rewrite Ea2, Eb2.
  unfold tev_le in Hle. rewrite Ea1, Eb1 in Hle.
  destruct (Z.lt_trichotomy ia ib) as [Hlt|[Heq|Hgt]].
  - assert (Hp : pf_le na nb' = true) by (eapply (ssorted_nth _ _ Hs); [|exact Hna|exact Hnb]; lia).
    unfold pf_le in Hp. lia.
  - subst ib. assert (H : na = nb') by (unfold sorted in *; congruence). rewrite <- ?H. lia.
  - lia.
Qed.

Lemma mlt_mle_anti a b : mlt a b -> mle b a -> False.
Proof. unfold mlt, mle. lia. Qed.

Lemma is_nil_true {A} (l : list A) : is_nil l = true -> l = [].
Proof. destruct l; [reflexivity|discriminate]. Qed.

Theorem roundtrip_steps_perf : forall p dv i pr drum es,
  1 <= fp_max_shift p -> (fp_bins p = 0 \/ 1 <= fp_bins p) ->
  (match fp_instrument p with None => True | Some j => j = i end) ->
  canonical_perf (fp_bins p) (fp_max_shift p) es = true ->
  pf_from_quantized p (pf_rnotes p dv i pr drum es) = es.
Proof.
  intros p dv i pr drum es Hms Hnb Hinstr Hcan.
  unfold canonical_perf in Hcan.
  set (c0 := mkPfCst 0 [] 0 PStart None None) in *.
  destruct (pf_canon_scan (fp_bins p) (fp_max_shift p) es c0) as [cf|] eqn:Hscan; [|discriminate].
  apply andb_true_iff in Hcan. destruct Hcan as (Hopen & Hprev). apply is_nil_true in Hopen.
  assert (Hfin : cs_prev cf = PStart \/ cs_prev cf = POff) by (destruct (cs_prev cf); auto; discriminate).
  set (nb := fp_bins p) in *. set (ms := fp_max_shift p) in *. set (start := fp_start p).
  assert (Hop0 : cs_open c0 = map pq []) by reflexivity.
  unfold pf_from_quantized, pf_rnotes, pf_to_step_notes. fold nb ms start.
  change 0 with (cs_step c0) at 1.
  set (D := pf_decode nb start es (cs_step c0) dv []).
  set (notes := map (snote_note i pr drum) D).
  assert (Hkeep : filter (pf_keep start (fp_instrument p)) notes = notes).
  { apply filter_all. intros n Hn. apply in_map_iff in Hn. destruct Hn as ([[[q s] e] v] & <- & Hx).
    pose proof (dec_starts nb ms start cf es c0 dv [] Hscan Hop0 ltac:(cbn; lia) ltac:(constructor)) as Hst.
    fold D in Hst. rewrite Forall_forall in Hst. specialize (Hst _ Hx). cbn [fst snd] in Hst.
    unfold pf_keep, snote_note, rnote. cbn [n_qstart n_instr].
    destruct (fp_instrument p) as [j|]; [subst j|]; lia. }
  unfold pf_sorted_notes. rewrite Hkeep. rewrite pf_loop_mloop.
  assert (Hon : map on_m notes = map (on_s) D).
  { unfold notes. rewrite map_map. apply map_ext. intros [[[q s] e] v]. reflexivity. }
  assert (Hoff : map off_m notes = map (off_s) D).
  { unfold notes. rewrite map_map. apply map_ext. intros [[[q s] e] v]. reflexivity. }
  assert (HT : Tm nb start es (cs_step c0) dv [] = map med_of (pf_note_events (isort pf_le notes))).
  { apply (sorted_perm_unique mlt mle mlt_mle_anti).
    - now apply (Tm_sorted nb ms start cf es c0 dv []).
    - apply med_note_events_sorted.
    - rewrite med_note_events_perm.
      rewrite (Permutation_map on_m (isort_perm pf_le notes)), (Permutation_map off_m (isort_perm pf_le notes)).
      rewrite Hon, Hoff.
      pose proof (Tm_perm nb ms start cf Hopen es c0 dv [] Hscan Hop0) as Hp. cbn [map app] in Hp. exact Hp. }
  rewrite <- HT.
  pose proof (Tm_loop nb ms start dv Hms Hnb cf Hfin es c0 dv [] Hscan Hop0) as HL.
  assert (Hvi : vel_inv nb dv (cs_vbin c0) dv).
  { unfold vel_inv. cbn [cs_vbin c0]. destruct Hnb as [H|H]; [left; auto|right; split; [lia|now left]]. }
  specialize (HL Hvi start 0 [] []). cbn [app] in HL. apply HL.
  - left. cbn. repeat split; auto. intros u; discriminate.
  - left. cbn. repeat split; auto. discriminate.
Qed.

(** * extraction produces canonical lists *)
Lemma scan_app nb ms l1 : forall l2 c,
  pf_canon_scan nb ms (l1 ++ l2) c
  = match pf_canon_scan nb ms l1 c with Some c' => pf_canon_scan nb ms l2 c' | None => None end.
Proof.
  induction l1 as [|e l1 IH]; intros l2 c; cbn [app pf_canon_scan]; [reflexivity|].
  destruct (pf_canon_step nb ms c e); [apply IH|reflexivity].
Qed.

Definition prevok (ms : Z) (c : pf_cst) : Prop :=
  cs_prev c <> PVel /\ forall u, cs_prev c = PShift u -> u = ms.
Definition shifted (c : pf_cst) (d u : Z) : pf_cst :=
  mkPfCst (cs_step c + d) (cs_open c) (cs_vbin c) (PShift u) None None.

Lemma step_shift nb ms c v : prevok ms c -> 1 <= v <= ms ->
  pf_canon_step nb ms c (EV_TIME_SHIFT, v) = Some (shifted c v v).
Proof.
  intros (H1 & H2) Hv. unfold pf_canon_step.
  change (EV_TIME_SHIFT =? EV_NOTE_ON) with false. change (EV_TIME_SHIFT =? EV_NOTE_OFF) with false.
  change (EV_TIME_SHIFT =? EV_TIME_SHIFT) with true. cbn iota.
  replace ((1 <=? v) && (v <=? ms)) with true by lia.
  destruct (cs_prev c) as [|u| | |] eqn:E; cbn [is_pvel orb negb]; try reflexivity; try congruence.
  rewrite (H2 u eq_refl), Z.eqb_refl. reflexivity.
Qed.

Lemma step_vel nb ms c v : nb <> 0 -> cs_prev c <> PVel -> 1 <= v -> v <> cs_vbin c ->
  pf_canon_step nb ms c (EV_VELOCITY, v)
  = Some (mkPfCst (cs_step c) (cs_open c) v PVel (cs_offkey c) (cs_onp c)).
Proof.
  intros Hnz Hp Hv Hne. unfold pf_canon_step.
  change (EV_VELOCITY =? EV_NOTE_ON) with false. change (EV_VELOCITY =? EV_NOTE_OFF) with false.
  change (EV_VELOCITY =? EV_TIME_SHIFT) with false. change (EV_VELOCITY =? EV_VELOCITY) with true. cbn iota.
  replace (nb =? 0) with false by lia. replace (1 <=? v) with true by lia.
  replace (v =? cs_vbin c) with false by lia.
  destruct (cs_prev c); try reflexivity. congruence.
Qed.

Lemma step_on nb ms c v : (nb <> 0 -> cs_vbin c <> 0) ->
  existsb (fun o => fst o =? v) (cs_open c) = false ->
  match cs_onp c with None => True | Some q => q < v end ->
  pf_canon_step nb ms c (EV_NOTE_ON, v)
  = Some (mkPfCst (cs_step c) (cs_open c ++ [(v, cs_step c)]) (cs_vbin c) POn (cs_offkey c) (Some v)).
Proof.
  intros Hvb Hex Honp. unfold pf_canon_step. change (EV_NOTE_ON =? EV_NOTE_ON) with true. cbn iota.
  rewrite Hex. replace (negb (nb =? 0) && (cs_vbin c =? 0)) with false by lia.
  destruct (cs_onp c) as [q|]; [replace (q <? v) with true by lia|]; reflexivity.
Qed.

Lemma step_off nb ms c v q s op' : cs_prev c <> PVel -> cs_onp c = None ->
  take_open v (cs_open c) = Some ((q, s), op') -> key_lt (cs_offkey c) s q = true -> s < cs_step c ->
  pf_canon_step nb ms c (EV_NOTE_OFF, v) = Some (mkPfCst (cs_step c) op' (cs_vbin c) POff (Some (s, q)) None).
Proof.
  intros Hp Honp Htk Hk Hs. unfold pf_canon_step.
  change (EV_NOTE_OFF =? EV_NOTE_ON) with false. change (EV_NOTE_OFF =? EV_NOTE_OFF) with true. cbn iota.
  rewrite Honp, Htk, Hk. replace (s <? cs_step c) with true by lia.
  destruct (cs_prev c); try reflexivity. congruence.
Qed.

Lemma scan_repeat_shift nb ms v : 1 <= ms -> 1 <= v <= ms -> forall n c, prevok ms c ->
  pf_canon_scan nb ms (repeat (EV_TIME_SHIFT, ms) n ++ [(EV_TIME_SHIFT, v)]) c
  = Some (shifted c (Z.of_nat n * ms + v) v).
Proof.
  intros Hms Hv. induction n as [|n IH]; intros c Hc; cbn [repeat app pf_canon_scan].
  - rewrite step_shift by auto. f_equal.
  - rewrite step_shift by (auto; lia). rewrite IH.
    + f_equal. unfold shifted. cbn [cs_step cs_open cs_vbin]. f_equal. lia.
    + split; cbn [shifted cs_prev]; [discriminate|]. intros u H. now injection H.
Qed.

Lemma scan_pf_shifts nb ms d c : 1 <= ms -> 0 < d -> prevok ms c ->
  exists u, pf_canon_scan nb ms (pf_shifts ms d) c = Some (shifted c d u).
Proof.
  intros Hms Hd Hc. unfold pf_shifts, zrepeat.
  assert (Hk : 0 <= (d - 1) / ms) by (apply Z.div_pos; lia).
  pose proof (Z.div_mod (d - 1) ms ltac:(lia)) as Hdm.
  pose proof (Z.mod_pos_bound (d - 1) ms ltac:(lia)) as Hmb.
  set (k := (d - 1) / ms) in *.
  assert (Hrest : 1 <= d - k * ms <= ms) by nia.
  exists (d - k * ms). rewrite scan_repeat_shift by auto. f_equal. f_equal.
  rewrite Z2Nat.id by exact Hk. lia.
Qed.

Lemma take_open_split p (l1 : list (Z * Z)) x l2 :
  (forall y, In y l1 -> fst y <> p) -> fst x = p ->
  take_open p (l1 ++ x :: l2) = Some (x, l1 ++ l2).
Proof.
  induction l1 as [|[q s] l1 IH]; intros Hl1 Hx; cbn [app take_open].
  - destruct x as [q s]. cbn in Hx. subst q. now rewrite Z.eqb_refl.
  - assert (q <> p) by (apply (Hl1 (q, s)); now left).
    replace (q =? p) with false by lia.
    rewrite IH; [reflexivity| |exact Hx]. intros y Hy. apply Hl1. now right.
Qed.

Section StageC.
  Variable sel : list note.
  Variables start nb ms : Z.
  Hypothesis Hms : 1 <= ms.
  Hypothesis Hnb : nb = 0 \/ 1 <= nb.
  Hypothesis Hlen : forall n, In n sel -> n_qstart n < n_qend n.
  Hypothesis Hno : no_pitch_overlap sel.
  Hypothesis Hvel : forall n, In n sel -> MIN_MIDI_VELOCITY <= n_vel n.
  Hypothesis Hord : forall i j a b, (i < j)%nat -> nth_error sel i = Some a -> nth_error sel j = Some b ->
    n_qstart a < n_qstart b \/ (n_qstart a = n_qstart b /\ n_pitch a < n_pitch b).

  Lemma valid_ord x y : valid sel x -> valid sel y -> te_idx x < te_idx y ->
    n_qstart (te_note x) < n_qstart (te_note y) \/
    (n_qstart (te_note x) = n_qstart (te_note y) /\ n_pitch (te_note x) < n_pitch (te_note y)).
  Proof. intros (Hx0 & Hx & _) (Hy0 & Hy & _) Hlt. eapply Hord; [|exact Hx|exact Hy]. lia. Qed.

  Lemma valid_in t : valid sel t -> In (te_note t) sel.
  Proof. intros (_ & Hx & _). eapply nth_error_In; eassumption. Qed.

  Definition okey (o : tev) : Z * Z := (n_pitch (te_note o), te_step o - start).

  Definition lowc (c : pf_cst) (t : tev) : Prop :=
    (te_off t = true -> cs_onp c = None /\
       key_lt (cs_offkey c) (n_qstart (te_note t) - start) (n_pitch (te_note t)) = true) /\
    (te_off t = false -> match cs_onp c with None => True | Some q => q < n_pitch (te_note t) end).

  Lemma existsb_okey p O : (forall o, In o O -> n_pitch (te_note o) <> p) ->
    existsb (fun x : Z * Z => fst x =? p) (map okey O) = false.
  Proof.
    induction O as [|o O IH]; intros H; cbn [map existsb]; [reflexivity|].
    rewrite IH by (intros; apply H; now right).
    assert (n_pitch (te_note o) <> p) by (apply H; now left). unfold okey. cbn [fst]. lia.
  Qed.

  Lemma stageC : forall R O cur vbin c,
    StronglySorted tlt R -> StronglySorted tlt O ->
    Forall (valid sel) R -> Forall (valid sel) O -> Forall (fun o => te_off o = false) O ->
    (forall o, In o O -> In (off_of (te_idx o) (te_note o)) R /\ forall t, In t R -> tlt o t) ->
    (forall t, In t R -> te_off t = true ->
       (exists o, In o O /\ t = off_of (te_idx o) (te_note o)) \/ In (on_of (te_idx t) (te_note t)) R) ->
    (forall t, In t R -> te_off t = false -> In (off_of (te_idx t) (te_note t)) R) ->
    (forall t, In t R -> cur <= te_step t) ->
    cs_step c = cur - start -> cs_open c = map okey O -> cs_vbin c = vbin ->
    (cs_prev c = PStart \/ cs_prev c = POff \/ (cs_prev c = POn /\ O <> [])) ->
    (forall t, In t R -> te_step t = cur -> lowc c t) ->
    exists cf, pf_canon_scan nb ms (pf_loop nb ms R cur vbin) c = Some cf /\ cs_open cf = [] /\
               (cs_prev cf = PStart \/ cs_prev cf = POff).
  Proof.
    induction R as [|t R' IH]; intros O cur vbin c HsR HsO HvR HvO HoffO Hc He Hg Hcur.
    - intros Hstep Hopen Hvb Hprev Hlow. assert (O = []) by (destruct O as [|o O']; [reflexivity|]; destruct (Hc o (or_introl eq_refl)) as ([] & _)).
      subst O. cbn [pf_loop pf_canon_scan]. exists c. split; [reflexivity|]. split; [exact Hopen|].
      destruct Hprev as [H|[H|(_ & H)]]; auto. contradiction.
    - inversion HsR as [|? ? HsR' HfR]; subst. rewrite Forall_forall in HfR.
      inversion HvR as [|? ? Hvt HvR']; subst.
      intros Hstep Hopen Hvb Hprev Hlow.
      assert (Hcur0 : cur <= te_step t) by (apply Hcur; now left).
      assert (Hcur' : (if cur <? te_step t then te_step t else cur) = te_step t)
        by (destruct (cur <? te_step t) eqn:E; lia).
      assert (Hnext : forall u, In u R' -> te_step t <= te_step u).
      { intros u Hu. specialize (HfR u Hu). unfold tlt in HfR. lia. }
      assert (Hpok : prevok ms c).
      { split; [intros H|intros u H]; rewrite H in Hprev; destruct Hprev as [H'|[H'|(H' & _)]]; discriminate. }
      cbn [pf_loop]. rewrite Hcur'.
      (* the state after the time shifts *)
      assert (Hsh : exists c1,
        (forall rest, pf_canon_scan nb ms ((if cur <? te_step t then pf_shifts ms (te_step t - cur) else []) ++ rest) c
                      = pf_canon_scan nb ms rest c1) /\
        cs_step c1 = te_step t - start /\ cs_open c1 = cs_open c /\ cs_vbin c1 = vbin /\ cs_prev c1 <> PVel /\
        (forall t', In t' (t :: R') -> te_step t' = te_step t -> lowc c1 t')).
      { destruct (cur <? te_step t) eqn:E.
        - destruct (scan_pf_shifts nb ms (te_step t - cur) c Hms ltac:(lia) Hpok) as (u & Hu).
          exists (shifted c (te_step t - cur) u). split; [intros rest; now rewrite scan_app, Hu|].
          unfold shifted. cbn [cs_step cs_open cs_vbin cs_prev].
          split; [lia|]. split; [reflexivity|]. split; [exact Hvb|]. split; [discriminate|].
          intros t' _ _. split; intros _; [split; reflexivity|exact I].
        - exists c. assert (cur = te_step t) by lia.
          split; [intros; reflexivity|]. split; [lia|]. split; [reflexivity|]. split; [exact Hvb|].
          split; [apply Hpok|]. intros t' Ht' Hs'. apply Hlow; [exact Ht'|lia]. }
      destruct Hsh as (c1 & Hc1 & Hst1 & Hop1 & Hvb1 & Hpv1 & Hlow1).
      rewrite Hc1. clear Hc1.
      destruct (te_off t) eqn:Eoff.
      + (* NOTE_OFF *)
        cbn [negb]. rewrite andb_false_r. cbn [andb app pf_canon_scan].
        destruct (He t (or_introl eq_refl) Eoff) as [(o & HoO & Hto)|Hon].
        2:{ exfalso. destruct Hon as [Hon|Hon].
            - apply (f_equal te_off) in Hon. cbn in Hon. congruence.
            - specialize (HfR _ Hon). pose proof (valid_len sel Hlen t Hvt). destruct Hvt as (_ & _ & Hst).
              rewrite Eoff in Hst. unfold tlt in HfR. cbn in HfR. lia. }
        destruct (in_split o O HoO) as (O1 & O2 & HO). subst O.
        assert (Hvo : valid sel o) by (rewrite Forall_forall in HvO; now apply HvO).
        assert (Hoo : te_off o = false) by (rewrite Forall_forall in HoffO; now apply HoffO).
        assert (Hidx : te_idx t = te_idx o /\ te_note t = te_note o) by (rewrite Hto; split; reflexivity).
        destruct Hidx as (Hti & Htn).
        destruct (StronglySorted_app_inv _ _ _ HsO) as (_ & _ & Hcross).
        assert (Hfirst : forall y, In y (map okey O1) -> fst y <> n_pitch (te_note t)).
        { intros y Hy Hp. apply in_map_iff in Hy. destruct Hy as (o' & <- & Ho'). cbn [okey fst] in Hp.
          assert (Ho'O : In o' (O1 ++ o :: O2)) by (apply in_or_app; now left).
          assert (Hvo' : valid sel o') by (rewrite Forall_forall in HvO; now apply HvO).
          assert (Hoo' : te_off o' = false) by (rewrite Forall_forall in HoffO; now apply HoffO).
          pose proof (Hcross o' o Ho' (or_introl eq_refl)) as Hlt.
          destruct (Z.eq_dec (te_idx o') (te_idx o)) as [Heq|Hneq].
          - pose proof (valid_same_idx _ _ _ Hvo' Hvo Heq) as Hnote.
            assert (o' = o).
            { rewrite (valid_eta _ o' Hvo'), (valid_eta _ o Hvo), Hoo, Hoo', Heq, Hnote. reflexivity. }
            subst o'. exact (tlt_irrefl _ Hlt).
          - destruct (Hc o' Ho'O) as (Hoff' & _).
            assert (Hoff'R : In (off_of (te_idx o') (te_note o')) R').
            { destruct Hoff' as [Heq|H]; [|exact H]. rewrite Hto in Heq.
              apply (f_equal te_idx) in Heq. cbn in Heq. congruence. }
            specialize (HfR _ Hoff'R).
            rewrite Htn in Hp.
            destruct (valid_disjoint sel Hno o' o Hvo' Hvo Hneq Hp) as [Hd|Hd];
              pose proof (valid_len sel Hlen o Hvo); pose proof (valid_len sel Hlen o' Hvo');
              destruct Hvo as (_ & _ & Hso); destruct Hvo' as (_ & _ & Hso');
              rewrite Hoo in Hso; rewrite Hoo' in Hso';
              rewrite Hto in HfR; unfold tlt in HfR, Hlt; cbn in HfR; lia. }
        assert (Hsteps : te_step t = n_qend (te_note o) /\ te_step o = n_qstart (te_note o)).
        { destruct Hvo as (_ & _ & Hso). rewrite Hoo in Hso. rewrite Hto. cbn. auto. }
        destruct Hsteps as (Hst & Hso). pose proof (valid_len sel Hlen o Hvo) as Hl.
        destruct (Hlow1 t (or_introl eq_refl) eq_refl) as (Hlo & _). destruct (Hlo Eoff) as (Honp1 & Hkey1).
        rewrite (step_off nb ms c1 _ (n_pitch (te_note o)) (te_step o - start) (map okey (O1 ++ O2))); auto.
        2:{ rewrite Hop1, Hopen, map_app. cbn [map]. rewrite map_app.
            apply (take_open_split _ _ (okey o)); [exact Hfirst|]. cbn [okey fst]. now rewrite Htn. }
        2:{ rewrite Htn, <- Hso in Hkey1. exact Hkey1. }
        2:{ lia. }
        apply (IH (O1 ++ O2) (te_step t) vbin); auto.
        * eapply StronglySorted_remove; exact HsO.
        * rewrite Forall_forall in *. intros x Hx. apply HvO. apply in_app_or in Hx. apply in_or_app.
          destruct Hx; [now left|right; now right].
        * rewrite Forall_forall in *. intros x Hx. apply HoffO. apply in_app_or in Hx. apply in_or_app.
          destruct Hx; [now left|right; now right].
        * intros o' Ho'.
          assert (Ho'O : In o' (O1 ++ o :: O2)).
          { apply in_app_or in Ho'. apply in_or_app. destruct Ho'; [now left|right; now right]. }
          destruct (Hc o' Ho'O) as (Hoff' & Hlt'). split; [|intros u Hu; apply Hlt'; now right].
          destruct Hoff' as [Heq|H]; [|exact H]. exfalso.
          rewrite Hto in Heq. injection Heq as _ Hi Hn.
          assert (Hvo' : valid sel o') by (rewrite Forall_forall in HvO; now apply HvO).
          assert (Hoo' : te_off o' = false) by (rewrite Forall_forall in HoffO; now apply HoffO).
          assert (o' = o).
          { rewrite (valid_eta _ o' Hvo'), (valid_eta _ o Hvo), Hoo, Hoo'. congruence. }
          subst o'. apply in_app_or in Ho'. destruct Ho' as [H1|H2].
          -- exact (tlt_irrefl _ (Hcross o o H1 (or_introl eq_refl))).
          -- apply StronglySorted_app_inv in HsO. destruct HsO as (_ & Hs2 & _).
             inversion Hs2 as [|? ? _ Hf2]; subst. rewrite Forall_forall in Hf2.
             exact (tlt_irrefl _ (Hf2 o H2)).
        * intros u Hu Huoff. destruct (He u (or_intror Hu) Huoff) as [(o'' & Ho'' & Hu'')|Hon].
          -- left. exists o''. split; [|exact Hu''].
             apply in_app_or in Ho''. apply in_or_app. destruct Ho'' as [H|[H|H]]; [now left| |now right].
             exfalso. subst o''. rewrite <- Hto in Hu''. subst u. exact (tlt_irrefl _ (HfR t Hu)).
          -- right. destruct Hon as [Heq|H]; [|exact H].
             apply (f_equal te_off) in Heq. cbn in Heq. congruence.
        * intros u Hu Huoff. destruct (Hg u (or_intror Hu) Huoff) as [Heq|H]; [|exact H].
          exfalso. rewrite Hto in Heq. injection Heq as _ Hi Hn.
          assert (Hvu : valid sel u) by (rewrite Forall_forall in HvR'; now apply HvR').
          assert (u = o).
          { rewrite (valid_eta _ u Hvu), (valid_eta _ o Hvo), Hoo, Huoff. congruence. }
          subst u. destruct (Hc o HoO) as (_ & Hlt). exact (tlt_irrefl _ (Hlt o (or_intror Hu))).
        * (* the bounds for the rest of this step *)
          intros u Hu Hus. unfold lowc. cbn [cs_onp cs_offkey].
          assert (Hvu : valid sel u) by (rewrite Forall_forall in HvR'; now apply HvR').
          split; [|intros _; exact I]. intros Huoff. split; [reflexivity|].
          pose proof (HfR u Hu) as Hlt. unfold tlt in Hlt. rewrite Eoff, Huoff in Hlt.
          assert (Hii : te_idx t < te_idx u) by (destruct Hlt as [H|(_ & [H|(_ & H & _)])]; [lia|exact H|discriminate]).
          pose proof (valid_ord t u Hvt Hvu Hii) as Ho. rewrite Htn in Ho. unfold key_lt. lia.
      + (* NOTE_ON, possibly after a VELOCITY *)
        cbn [negb]. rewrite andb_true_r.
        set (b := vel_to_bin (n_vel (te_note t)) nb).
        set (change := negb (nb =? 0) && negb (b =? vbin)).
        assert (Hb : nb <> 0 -> 1 <= b).
        { intros Hz. apply vel_to_bin_pos; [lia|]. apply Hvel, valid_in, Hvt. }
        assert (Hve : exists c2,
          (forall rest, pf_canon_scan nb ms ((if change then [(EV_VELOCITY, b) : pevent] else []) ++ rest) c1
                        = pf_canon_scan nb ms rest c2) /\
          cs_step c2 = cs_step c1 /\ cs_open c2 = cs_open c1 /\ cs_vbin c2 = (if change then b else vbin) /\
          cs_offkey c2 = cs_offkey c1 /\ cs_onp c2 = cs_onp c1 /\ (nb <> 0 -> cs_vbin c2 <> 0)).
        { unfold change. destruct (nb =? 0) eqn:E0; cbn [negb andb].
          - exists c1. repeat split; auto. lia.
          - destruct (b =? vbin) eqn:Eb; cbn [negb].
            + exists c1. repeat split; auto. lia.
            + exists (mkPfCst (cs_step c1) (cs_open c1) b PVel (cs_offkey c1) (cs_onp c1)).
              split; [|cbn; repeat split; auto; lia].
              intros rest. cbn [app pf_canon_scan]. rewrite step_vel; auto; lia. }
        destruct Hve as (c2 & Hc2 & Hst2 & Hop2 & Hvb2 & Hok2 & Hon2 & Hnz2).
        rewrite Hc2. clear Hc2. cbn [app pf_canon_scan].
        assert (Hvst : te_step t = n_qstart (te_note t)) by (destruct Hvt as (_ & _ & H); now rewrite Eoff in H).
        assert (Hfree : forall o, In o O -> n_pitch (te_note o) <> n_pitch (te_note t)).
        { intros o Ho Hp.
          assert (Hvo : valid sel o) by (rewrite Forall_forall in HvO; now apply HvO).
          assert (Hoo : te_off o = false) by (rewrite Forall_forall in HoffO; now apply HoffO).
          destruct (Hc o Ho) as (Hoff & Hlt). pose proof (Hlt t (or_introl eq_refl)) as Hot.
          assert (Hneq : te_idx o <> te_idx t).
          { intros Heq. pose proof (valid_same_idx _ _ _ Hvo Hvt Heq) as Hnote.
            assert (o = t).
            { rewrite (valid_eta _ o Hvo), (valid_eta _ t Hvt), Hoo, Eoff, Heq, Hnote. reflexivity. }
            subst o. exact (tlt_irrefl _ Hot). }
          assert (HoffR : In (off_of (te_idx o) (te_note o)) R').
          { destruct Hoff as [Heq|H]; [|exact H]. apply (f_equal te_off) in Heq. cbn in Heq. congruence. }
          pose proof (HfR _ HoffR) as Hto. unfold tlt in Hto, Hot. cbn [te_step te_idx te_off off_of] in Hto.
          pose proof (valid_len sel Hlen o Hvo). pose proof (valid_len sel Hlen t Hvt).
          assert (Hso : te_step o = n_qstart (te_note o)) by (destruct Hvo as (_ & _ & H'); now rewrite Hoo in H').
          destruct (valid_disjoint sel Hno o t Hvo Hvt Hneq Hp) as [Hd|Hd]; [|lia].
          assert (Hii : te_idx t < te_idx o) by lia.
          pose proof (valid_ord t o Hvt Hvo Hii). lia. }
        destruct (Hlow1 t (or_introl eq_refl) eq_refl) as (_ & Hlo). specialize (Hlo Eoff).
        rewrite step_on; auto.
        2:{ rewrite Hop2, Hop1, Hopen. now apply existsb_okey. }
        2:{ rewrite Hon2. exact Hlo. }
        apply (IH (O ++ [t]) (te_step t) (if change then b else vbin)); auto.
        * apply StronglySorted_snoc; [exact HsO|]. intros y Hy. destruct (Hc y Hy) as (_ & Hlt). apply Hlt. now left.
        * apply Forall_app. split; [exact HvO|]. constructor; [exact Hvt|constructor].
        * apply Forall_app. split; [exact HoffO|]. constructor; [exact Eoff|constructor].
        * intros o Ho. apply in_app_or in Ho. destruct Ho as [Ho|[<-|[]]].
          -- destruct (Hc o Ho) as (Hoff & Hlt). split; [|intros u Hu; apply Hlt; now right].
             destruct Hoff as [Heq|H]; [|exact H]. apply (f_equal te_off) in Heq. cbn in Heq. congruence.
          -- split; [|intros u Hu; now apply HfR].
             destruct (Hg t (or_introl eq_refl) Eoff) as [Heq|H]; [|exact H].
             apply (f_equal te_off) in Heq. cbn in Heq. congruence.
        * intros u Hu Huoff. destruct (He u (or_intror Hu) Huoff) as [(o & Ho & Huo)|Hon].
          -- left. exists o. split; [apply in_or_app; now left|exact Huo].
          -- destruct Hon as [Heq|H]; [|right; exact H].
             left. exists t. split; [apply in_or_app; right; now left|].
             assert (Hvu : valid sel u) by (rewrite Forall_forall in HvR'; now apply HvR').
             pose proof (valid_eta _ u Hvu) as Hu'. rewrite Huoff in Hu'. rewrite Hu', Heq. reflexivity.
        * intros u Hu Huoff. destruct (Hg u (or_intror Hu) Huoff) as [Heq|H]; [|exact H].
          apply (f_equal te_off) in Heq. cbn in Heq. congruence.
        * cbn [cs_step]. lia.
        * cbn [cs_open]. rewrite Hop2, Hop1, Hopen, map_app. cbn [map okey]. rewrite Hst2, Hst1. reflexivity.
        * right. right. split; [reflexivity|]. intros H. apply app_eq_nil in H. destruct H; discriminate.
        * intros u Hu Hus. unfold lowc. cbn [cs_onp cs_offkey].
          assert (Hvu : valid sel u) by (rewrite Forall_forall in HvR'; now apply HvR').
          pose proof (HfR u Hu) as Hlt. unfold tlt in Hlt. rewrite Eoff in Hlt.
          pose proof (valid_len sel Hlen u Hvu) as Hlu.
          split.
          -- intros Huoff. exfalso. rewrite Huoff in Hlt.
             assert (Hsu : te_step u = n_qend (te_note u)) by (destruct Hvu as (_ & _ & H); now rewrite Huoff in H).
             destruct Hlt as [H|(_ & [H|(Hi & _)])]; [lia| |].
             ++ pose proof (valid_ord t u Hvt Hvu H). lia.
             ++ pose proof (valid_same_idx _ _ _ Hvt Hvu Hi) as Hn. rewrite Hn in Hvst. lia.
          -- intros Huoff. rewrite Huoff in Hlt.
             assert (Hsu : te_step u = n_qstart (te_note u)) by (destruct Hvu as (_ & _ & H); now rewrite Huoff in H).
             destruct Hlt as [H|(_ & [H|(_ & _ & H)])]; [lia| |discriminate].
             pose proof (valid_ord t u Hvt Hvu H). lia.
  Qed.
End StageC.

Theorem extraction_canonical_perf : forall p ns,
  perf_input_ok p ns ->
  canonical_perf (fp_bins p) (fp_max_shift p) (pf_from_quantized p ns) = true.
Proof.
  intros p ns (Hms & Hnb & Hwf & Hno & Htf). unfold pf_from_quantized.
  set (sel := pf_sorted_notes (fp_start p) (fp_instrument p) ns).
  set (start := fp_start p). set (nb := fp_bins p) in *. set (ms := fp_max_shift p) in *.
  assert (Hperm : Permutation sel (pf_selected p ns)) by apply isort_perm.
  assert (Hsel_in : forall n, In n sel -> In n ns /\ start <= n_qstart n).
  { intros n Hn. eapply Permutation_in in Hn; [|exact Hperm]. apply filter_In in Hn. destruct Hn as (Hn & Hk).
    unfold pf_keep in Hk. split; [exact Hn|]. unfold start. lia. }
  rewrite Forall_forall in Hwf.
  assert (Hlen : forall n, In n sel -> n_qstart n < n_qend n) by (intros n Hn; apply Hwf, Hsel_in, Hn).
  assert (Hvel : forall n, In n sel -> MIN_MIDI_VELOCITY <= n_vel n) by (intros n Hn; apply Hwf, Hsel_in, Hn).
  assert (Hno' : no_pitch_overlap sel) by (eapply no_pitch_overlap_perm; [symmetry; exact Hperm|exact Hno]).
  assert (Hord : forall i j a b, (i < j)%nat -> nth_error sel i = Some a -> nth_error sel j = Some b ->
            n_qstart a < n_qstart b \/ (n_qstart a = n_qstart b /\ n_pitch a < n_pitch b)).
  { intros i j a b Hij Ha Hb.
    assert (Hs : StronglySorted (fun a b => pf_le a b = true) sel)
      by (apply isort_sorted; [apply pf_le_total|apply pf_le_trans]).
    pose proof (ssorted_nth _ _ Hs i j a b Hij Ha Hb) as Hle. unfold pf_le in Hle.
    pose proof (nth_error_In _ _ Ha) as Hia. pose proof (nth_error_In _ _ Hb) as Hib.
    assert (Hsa : In a (pf_selected p ns)) by (eapply Permutation_in; eauto).
    assert (Hsb : In b (pf_selected p ns)) by (eapply Permutation_in; eauto).
    destruct (Htf a b Hsa Hsb) as (T1 & T2). destruct (Htf b a Hsb Hsa) as (T3 & T4).
    assert (Hab : a <> b).
    { intros ->. destruct Hno' as (Hnd & _). rewrite NoDup_nth_error in Hnd.
      assert (i = j); [apply Hnd; [apply nth_error_Some; congruence|congruence]|lia]. }
    destruct Hno' as (_ & Hdis).
    pose proof (Hlen a Hia). pose proof (Hlen b Hib).
    destruct (Z.eq_dec (n_pitch a) (n_pitch b)) as [Hp|Hp]; [destruct (Hdis a b Hia Hib Hab Hp)|]; lia. }
  set (tes := pf_note_events sel).
  assert (Hvalid : Forall (valid sel) tes).
  { apply Forall_forall. intros t Ht. apply In_note_events in Ht.
    destruct Ht as (i & n & Hi & Hn & [-> | ->]); unfold valid; cbn; auto. }
  set (c0 := mkPfCst 0 [] 0 PStart None None).
  assert (H : exists cf, pf_canon_scan nb ms (pf_loop nb ms tes start 0) c0 = Some cf /\ cs_open cf = [] /\
                         (cs_prev cf = PStart \/ cs_prev cf = POff)).
  { apply (stageC sel start nb ms Hms Hnb Hlen Hno' Hvel Hord tes [] start 0 c0).
    - apply sorted_strict; [apply note_events_sorted|].
      eapply Permutation_NoDup; [apply Permutation_map; symmetry; apply isort_perm|].
      rewrite map_app, !map_map. cbn [ik te_idx te_off].
      apply nodup_app; [apply (nodup_enum false)|apply (nodup_enum true)|].
      intros x Hx Hx'. apply in_map_iff in Hx. apply in_map_iff in Hx'.
      destruct Hx as (y & <- & _). destruct Hx' as (z & Hz & _). discriminate.
    - constructor.
    - exact Hvalid.
    - constructor.
    - constructor.
    - intros o [].
    - intros t Ht Hoff. right. apply In_note_events in Ht.
      destruct Ht as (i & n & Hi & Hn & [-> | ->]); [discriminate|].
      cbn [te_idx te_note off_of]. apply In_note_events. exists i, n. auto.
    - intros t Ht Hoff. apply In_note_events in Ht.
      destruct Ht as (i & n & Hi & Hn & [-> | ->]); [|discriminate].
      cbn [te_idx te_note on_of]. apply In_note_events. exists i, n. auto.
    - intros t Ht. apply In_note_events in Ht. destruct Ht as (i & n & Hi & Hn & Hcase).
      apply nth_error_In in Hn. pose proof (Hlen n Hn). destruct (Hsel_in n Hn) as (_ & Hs).
      destruct Hcase as [-> | ->]; cbn; lia.
    - cbn. lia.
    - reflexivity.
    - reflexivity.
    - now left.
    - intros t _ _. split; intros _; [split; reflexivity|exact I]. }
  destruct H as (cf & Hscan & Hopen & Hprev).
  unfold canonical_perf. fold c0. fold tes. rewrite Hscan, Hopen. cbn [is_nil andb].
  destruct Hprev as [-> | ->]; reflexivity.
Qed.

End PC.

(** * the C06 statements (Performance / MetricPerformance, structural version) *)
Theorem roundtrip_steps_perf : forall p dv i pr drum es,
  1 <= fp_max_shift p -> (fp_bins p = 0 \/ 1 <= fp_bins p) ->
  (match fp_instrument p with None => True | Some j => j = i end) ->
  canonical_perf (fp_bins p) (fp_max_shift p) es = true ->
  pf_from_quantized p (pf_rnotes p dv i pr drum es) = es.
Proof. exact PC.roundtrip_steps_perf. Qed.

Theorem extraction_canonical_perf : forall p ns,
  PC.perf_input_ok p ns ->
  canonical_perf (fp_bins p) (fp_max_shift p) (pf_from_quantized p ns) = true.
Proof. exact PC.extraction_canonical_perf. Qed.

(** a non-trivial canonical performance: 8 velocity bins, max_shift 3 (shifts of 4 and 8 steps are
    split), a chord, two abutting notes of pitch 60 (NOTE_OFF before NOTE_ON in one step), a velocity
    change, two notes ending in one step; start_step 5, instrument 2 *)
Example perf_canonical_example :
  let p := mkPfParams 5 8 3 (Some 2) in
  let es := [(EV_VELOCITY, 5); (EV_NOTE_ON, 60); (EV_NOTE_ON, 64); (EV_TIME_SHIFT, 3); (EV_TIME_SHIFT, 1);
             (EV_NOTE_OFF, 60); (EV_NOTE_ON, 60); (EV_TIME_SHIFT, 2); (EV_NOTE_OFF, 64); (EV_VELOCITY, 3);
             (EV_NOTE_ON, 67); (EV_TIME_SHIFT, 3); (EV_TIME_SHIFT, 3); (EV_TIME_SHIFT, 2);
             (EV_NOTE_OFF, 60); (EV_NOTE_OFF, 67)] in
  canonical_perf (fp_bins p) (fp_max_shift p) es = true /\
  pf_to_step_notes p 100 es = [(60, 5, 9, 65); (64, 5, 11, 65); (60, 9, 19, 65); (67, 11, 19, 33)] /\
  pf_from_quantized p (pf_rnotes p 100 2 0 false es) = es /\
  canonical_perf (fp_bins p) (fp_max_shift p) (pf_from_quantized p (pf_rnotes p 100 2 0 false es)) = true.
Proof. vm_compute. repeat split; reflexivity. Qed.
