(** Proofs/AudioPcm.v — C20: the binary32 PCM round trip, by complete
    enumeration of the 65536 int16 values inside the kernel (about 10 s). *)
From Coq Require Import ZArith List Bool Lia ZifyBool PrimFloat FloatOps SpecFloat.
From NS Require Import Base.FloatBridge Model.Audio.
Import ListNotations.
Local Open Scope Z_scope.
Ltac Zify.zify_post_hook ::= Z.to_euclidean_division_equations.

(** * zrange *)
Lemma zrange_iter_inv p : forall acc i,
  let r := Pos.iter (fun '(acc, i) => (i :: acc, i - 1)) (acc, i) p in
  snd r = i - Zpos p /\ forall v, In v (fst r) <-> (In v acc \/ i - Zpos p < v <= i).
Proof.
  induction p using Pos.peano_ind; intros acc i.
  - cbn. split; [lia|]. intros v. split.
    + intros [H|H]; [right; lia | left; exact H].
    + intros [H|H]; [right; exact H | left; lia].
  - cbv zeta. rewrite Pos.iter_succ.
    specialize (IHp acc i). cbv zeta in IHp.
    destruct (Pos.iter _ (acc, i) p) as [l j]. cbn [fst snd] in *.
    destruct IHp as [Hj Hin]. subst j. split; [lia|].
    intros v. cbn [In]. rewrite Hin. split.
    + intros [H|[H|H]]; [right; lia | left; exact H | right; lia].
    + intros [H|H]; [right; left; exact H|].
      destruct (Z.eq_dec v (i - Zpos p)); [left; lia | right; right; lia].
Qed.

Lemma zrange_In lo n v : In v (zrange lo n) <-> lo <= v < lo + n.
Proof.
  unfold zrange. destruct n as [|p|p].
  - cbn. lia.
  - destruct (zrange_iter_inv p [] (lo + Zpos p - 1)) as [_ H]. rewrite H. cbn [In]. lia.
  - cbn. lia.
Qed.

(** * int16 -> float32 -> int16 is the identity: all 65536 values *)
Definition pcm_ok (v : Z) : bool :=
  match f32_to_i16 (i16_to_f32 v) with Some z => z =? v | None => false end.

Lemma pcm_all : forallb pcm_ok (zrange I16_MIN 65536) = true.
Proof. vm_compute. reflexivity. Qed.

Theorem pcm_roundtrip v : I16_MIN <= v <= I16_MAX -> f32_to_i16 (i16_to_f32 v) = Some v.
Proof.
  intros Hv.
  assert (Hin : In v (zrange I16_MIN 65536)).
  { exact (proj2 (zrange_In I16_MIN 65536 v) ltac:(unfold I16_MIN, I16_MAX in *; lia)). }
  pose proof (proj1 (forallb_forall pcm_ok (zrange I16_MIN 65536)) pcm_all v Hin) as H.
  clear Hin. unfold pcm_ok in H.
  destruct (f32_to_i16 (i16_to_f32 v)) as [z|]; [|exfalso; exact (Bool.diff_false_true H)].
  apply Z.eqb_eq in H. rewrite H. reflexivity.
Qed.

Corollary pcm_injective v w :
  I16_MIN <= v <= I16_MAX -> I16_MIN <= w <= I16_MAX -> i16_to_f32 v = i16_to_f32 w -> v = w.
Proof.
  intros Hv Hw E. apply pcm_roundtrip in Hv. apply pcm_roundtrip in Hw.
  rewrite E in Hv. congruence.
Qed.

(** every float32 produced is finite and its product with 32767 stays in the int16 range *)
Corollary pcm_no_ub v : I16_MIN <= v <= I16_MAX -> f32_to_i16 (i16_to_f32 v) <> None.
Proof. intros H. rewrite (pcm_roundtrip v H). discriminate. Qed.

(** * The float32 sample is THE binary32 number nearest to v / 32767
    Independent of [SFdiv]'s own correctness: an integer-only check, by complete
    enumeration, that the result is a normal 24-bit float [+-m * 2^e] with
        | m * 2^e - v / 32767 |  <  2^e / 2      (half a unit in the last place)
    scaled by 32767 * 2^(-e) to stay in Z.  (32767 is odd, so a tie cannot occur and
    the nearest value is unique.) *)
Definition f32_nearest_ok (v : Z) : bool :=
  match i16_to_f32 v with
  | S754_zero _ => v =? 0
  | S754_finite s m e =>
      (2 ^ 23 <=? Zpos m) && (Zpos m <? 2 ^ 24) && (e <? 0) && (-149 <=? e) &&
      (2 * Z.abs ((if s then Zneg m else Zpos m) * I16_MAX - v * 2 ^ (- e)) <? I16_MAX)
  | _ => false
  end.

Lemma f32_nearest_all : forallb f32_nearest_ok (zrange I16_MIN 65536) = true.
Proof. vm_compute. reflexivity. Qed.

Theorem pcm_f32_nearest v : I16_MIN <= v <= I16_MAX -> f32_nearest_ok v = true.
Proof.
  intros Hv.
  assert (Hin : In v (zrange I16_MIN 65536)).
  { exact (proj2 (zrange_In I16_MIN 65536 v) ltac:(unfold I16_MIN, I16_MAX in *; lia)). }
  exact (proj1 (forallb_forall f32_nearest_ok (zrange I16_MIN 65536)) f32_nearest_all v Hin).
Qed.

Theorem pcm_f32_nearest_prop v : I16_MIN <= v <= I16_MAX ->
  match i16_to_f32 v with
  | S754_zero _ => v = 0
  | S754_finite s m e =>
      2 ^ 23 <= Zpos m < 2 ^ 24 /\ -149 <= e < 0 /\
      2 * Z.abs ((if s then Zneg m else Zpos m) * I16_MAX - v * 2 ^ (- e)) < I16_MAX
  | _ => False
  end.
Proof.
  intros Hv. pose proof (pcm_f32_nearest v Hv) as H. unfold f32_nearest_ok in H.
  destruct (i16_to_f32 v) as [s|s| |s m e]; try discriminate H.
  - apply Z.eqb_eq. exact H.
  - apply andb_prop in H as [H H5]. apply andb_prop in H as [H H4].
    apply andb_prop in H as [H H3]. apply andb_prop in H as [H1 H2].
    apply Z.leb_le in H1, H4. apply Z.ltb_lt in H2, H3, H5. repeat split; assumption.
Qed.

(** The WAV write/read composite (minus the container) on a whole signal. *)
Theorem pcm_roundtrip_list xs :
  Forall (fun v => I16_MIN <= v <= I16_MAX) xs -> f32s_to_i16s (i16s_to_f32s xs) = Some xs.
Proof.
  induction 1 as [|v r Hv _ IH]; [reflexivity|].
  cbn [i16s_to_f32s map f32s_to_i16s]. rewrite (pcm_roundtrip v Hv).
  unfold i16s_to_f32s in IH. rewrite IH. reflexivity.
Qed.

Theorem wav_roundtrip_id xs :
  Forall (fun v => I16_MIN <= v <= I16_MAX) xs ->
  wav_roundtrip (i16s_to_f32s xs) = Some (i16s_to_f32s xs).
Proof. intros H. unfold wav_roundtrip. rewrite (pcm_roundtrip_list xs H). reflexivity. Qed.

