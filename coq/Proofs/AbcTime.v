(** Proofs/AbcTime.v — C04: note lengths, the clock, onsets, broken rhythm,
    default unit note length and tempo resolution. *)
From Coq Require Import ZArith QArith Qfield List Bool Lia Lra.
From NS Require Import Gen.G04 Model.Abc Proofs.AbcKeys Proofs.AbcPitch.
Import ListNotations.
Local Open Scope Q_scope.

(** ** The normalised operations are the field operations *)
Lemma qadd_eq : forall a b, qadd a b == a + b.  Proof. intros; apply Qred_correct. Qed.
Lemma qsub_eq : forall a b, qsub a b == a - b.  Proof. intros; apply Qred_correct. Qed.
Lemma qmul_eq : forall a b, qmul a b == a * b.  Proof. intros; apply Qred_correct. Qed.
Lemma qdiv_eq : forall a b, qdiv a b == a / b.  Proof. intros; apply Qred_correct. Qed.
Lemma qeqb_iff : forall a b, qeqb a b = true <-> a == b.  Proof. intros; apply Qeq_bool_iff. Qed.

Lemma qltb_iff : forall a b, qltb a b = true <-> a < b.
Proof. intros a b. unfold qltb, Qlt. apply Z.ltb_lt. Qed.

Lemma qzero_iff : forall a, qzero a = true <-> a == 0.
Proof.
  intros [n d]. unfold qzero, Qeq. cbn. rewrite Z.eqb_eq. split; intro H; lia.
Qed.

Lemma qfrac_pos : forall n p, qfrac n (Zpos p) == inject_Z n / inject_Z (Zpos p).
Proof. intros. unfold qfrac. rewrite Qred_correct. apply Qmake_Qdiv. Qed.

Lemma inject_pos_nz : forall z, (0 < z)%Z -> ~ inject_Z z == 0.
Proof. intros z H E. unfold Qeq, inject_Z in E. cbn in E. lia. Qed.

Lemma qpow2_nz : forall k, (0 <= k)%Z -> ~ qpow2 k == 0.
Proof. intros k H. unfold qpow2, qz. apply inject_pos_nz. apply Z.pow_pos_nonneg; lia. Qed.

(** ** Note length = unit x multiplier *)
Definition len_mult (l : lenspec) : option Q :=
  match ls_num l, ls_slashes l, ls_den l with
  | None, 0%Z, None => Some 1
  | None, Zpos k, None => Some (1 / inject_Z (2 ^ Zpos k))                  (* A/  A//  A/// *)
  | None, 1%Z, Some m => if (0 <? m)%Z then Some (1 / inject_Z m) else None       (* A/3 *)
  | Some n, 0%Z, None => Some (inject_Z n)                                         (* A3 *)
  | Some n, 1%Z, None => Some (inject_Z n / 2)                                     (* A3/ *)
  | Some n, 1%Z, Some m => if (0 <? m)%Z then Some (inject_Z n / inject_Z m) else None   (* A3/2 *)
  | _, _, _ => None
  end.

Ltac getm :=
  match goal with
  | H : Some ?a = Some ?m |- _ =>
      let E := fresh in
      assert (E : m = a) by (apply (f_equal (fun o => match o with Some x => x | None => 0 end)) in H;
                             symmetry; exact H);
      subst m
  end.

Lemma note_length_rule : forall u l m, len_mult l = Some m ->
  exists q, note_length u l = Ok q /\ q == u * m.
Proof.
  intros u [num sl den] m H. unfold len_mult in H. unfold note_length. cbn [ls_num ls_slashes ls_den] in *.
  destruct num as [n|]; destruct sl as [|k|k]; destruct den as [d|]; cbv beta iota in *; try discriminate.
  - getm.
    eexists; split; [reflexivity|]. rewrite qmul_eq. unfold qz. reflexivity.
  - destruct k; try discriminate.
    destruct (0 <? d)%Z eqn:P; [|discriminate]. apply Z.ltb_lt in P.
    getm.
    replace (d =? 0)%Z with false by (symmetry; apply Z.eqb_neq; lia).
    eexists; split; [reflexivity|]. rewrite qmul_eq. destruct d; try lia. now rewrite qfrac_pos.
  - destruct k; try discriminate. getm.
    eexists; split; [reflexivity|]. rewrite qmul_eq. change 2%Z with (Zpos 2). rewrite qfrac_pos. reflexivity.
  - getm. eexists; split; [reflexivity|]. field.
  - destruct k; try discriminate.
    destruct (0 <? d)%Z eqn:P; [|discriminate]. apply Z.ltb_lt in P.
    getm.
    cbn [Z.eqb]. replace (d =? 0)%Z with false by (symmetry; apply Z.eqb_neq; lia).
    eexists; split; [reflexivity|]. rewrite qdiv_eq. unfold qz. field. apply inject_pos_nz. lia.
  - destruct k; getm;
      (eexists; split; [reflexivity|]); rewrite qdiv_eq; unfold qpow2, qz; field;
      apply inject_pos_nz; apply Z.pow_pos_nonneg; lia.
Qed.

(* the remaining forms are rejected: A3//, A3//2 (ABCParseError), A//3 (escapes as ValueError),
   division by zero *)
Lemma note_length_rejects : forall u n k d, (2 <= k)%Z ->
  note_length u (mkLen (Some n) k d) = Err EParse.
Proof. intros u n k d H. unfold note_length. cbn. destruct k as [|[p|p|]|]; try lia; reflexivity. Qed.

(** ** Frame: only notes move the clock or touch the note list *)
Definition same_nc (s s' : st) : Prop := notes s' = notes s /\ cur s' = cur s.

Lemma same_nc_refl : forall s, same_nc s s.  Proof. split; reflexivity. Qed.
Lemma same_nc_trans : forall a b c, same_nc a b -> same_nc b c -> same_nc a c.
Proof. intros a b c [H1 H2] [H3 H4]. split; congruence. Qed.

Lemma parse_field_nc : forall s f s', parse_field s f = Ok s' -> same_nc s s'.
Proof.
  intros s f s' H. destruct f as [|n|m|n d|q|t m e ea| | |]; cbn [parse_field] in H; try discriminate.
  - injection H as <-; apply same_nc_refl.
  - injection H as <-; split; reflexivity.
  - destruct m; try discriminate; injection H as <-; split; reflexivity.
  - destruct (d =? 0)%Z; [discriminate|]. injection H as <-; split; reflexivity.
  - destruct q as [beats rate|rate|].
    + destruct (sum_beats beats 0); cbn [bind] in H; [|discriminate].
      destruct (in_header s); [injection H as <-; split; reflexivity|]. apply add_tempo_frame in H. split; tauto.
    + destruct (in_header s); [injection H as <-; split; reflexivity|]. apply add_tempo_frame in H. split; tauto.
    + injection H as <-; apply same_nc_refl.
  - destruct (parse_key t m e ea) as [[[a pk] pm]|]; cbn [bind] in H; [|discriminate].
    injection H as <-; split; reflexivity.
Qed.

Lemma set_values_nc : forall s s', set_values_from_header s = Ok s' -> same_nc s s'.
Proof.
  intros s s' H. unfold set_values_from_header in H.
  destruct (truthy_q (unit_len s)).
  - cbn [bind] in H. destruct (truthy_z (htempo_rate s)); [|injection H as <-; apply same_nc_refl].
    destruct (htempo_rate s); [|injection H as <-; apply same_nc_refl].
    apply add_tempo_frame in H. split; tauto.
  - destruct (default_unit s) as [u|]; cbn [bind] in H; [|discriminate].
    destruct (truthy_z (htempo_rate (set_unit s (Some u)))); [|injection H as <-; split; reflexivity].
    destruct (htempo_rate (set_unit s (Some u))); [|injection H as <-; split; reflexivity].
    apply add_tempo_frame in H. cbn in H. split; tauto.
Qed.

Lemma add_section_nc : forall s t s1 new, add_section s t = (s1, new) -> same_nc s s1.
Proof.
  intros s t s1 new H. unfold add_section in H.
  destruct (sects s) as [|[t0 i0] r] eqn:E.
  - destruct (qltb 0 t); cbn in H.
    + destruct (qeqb 0 t); injection H as <- <-; split; reflexivity.
    + rewrite E in H. injection H as <- <-; split; reflexivity.
  - cbn in H. rewrite E in H. destruct (qeqb t0 t); injection H as <- <-; split; reflexivity.
Qed.

Lemma add_group_prev_nc : forall s n s', add_group_prev s n = Ok s' -> same_nc s s'.
Proof.
  intros s n s' H. unfold add_group_prev in H.
  destruct (sects s) as [|x [|[t i] r]]; try discriminate. injection H as <-. split; reflexivity.
Qed.

Lemma repeat_common_nc : forall s b f s', repeat_common s b f = Ok s' -> same_nc s s'.
Proof.
  intros s b f s' H. unfold repeat_common in H.
  destruct (match expected s with Some e => _ | None => false end); [discriminate|].
  destruct (add_section s (cur s)) as [s1 new] eqn:E. apply add_section_nc in E.
  destruct b as [b|].
  - destruct (qzero (cur s)); [discriminate|].
    destruct (add_group_prev s1 b) as [s2|] eqn:G; cbn [bind] in H; [|discriminate].
    apply add_group_prev_nc in G. injection H as <-.
    eapply same_nc_trans; [exact E|]. eapply same_nc_trans; [exact G|]. split; reflexivity.
  - destruct new.
    + destruct (qltb 0 (cur s)).
      * destruct (add_group_prev s1 1) as [s2|] eqn:G; cbn [bind] in H; [|discriminate].
        apply add_group_prev_nc in G. injection H as <-.
        eapply same_nc_trans; [exact E|]. eapply same_nc_trans; [exact G|]. split; reflexivity.
      * cbn [bind] in H. injection H as <-. eapply same_nc_trans; [exact E|]. split; reflexivity.
    + cbn [bind] in H. injection H as <-. eapply same_nc_trans; [exact E|]. split; reflexivity.
Qed.

Lemma step_bar_nc : forall s lc bl rc s', step_bar s lc bl rc = Ok s' -> same_nc s s'.
Proof.
  intros s lc bl rc s' H. unfold step_bar in H.
  destruct ((0 <? lc)%Z || (0 <? rc)%Z).
  - apply repeat_common_nc in H. destruct H as [H1 H2]. split; [rewrite H1|rewrite H2]; reflexivity.
  - destruct (2 <=? bl)%Z; [|injection H as <-; split; reflexivity].
    cbn [expected set_bacc] in H. destruct (expected s); [injection H as <-; split; reflexivity|].
    cbn [cur set_bacc] in H.
    destruct (qltb 0 (cur s)); [|injection H as <-; split; reflexivity].
    destruct (add_section (set_bacc s []) (cur s)) as [s1 new] eqn:E.
    apply add_section_nc in E. destruct E as [E1 E2]. cbn in E1, E2.
    destruct new; [|injection H as <-; split; assumption].
    apply add_group_prev_nc in H. destruct H as [H1 H2]. split; congruence.
Qed.

Lemma step_colons_nc : forall s n s', step_colons s n = Ok s' -> same_nc s s'.
Proof.
  intros s n s' H. unfold step_colons in H.
  destruct (negb (n mod 2 =? 0)%Z); [discriminate|].
  apply repeat_common_nc in H. destruct H as [H1 H2]. split; [rewrite H1|rewrite H2]; reflexivity.
Qed.

Lemma finalize_nc : forall s s', finalize s = Ok s' -> same_nc s s'.
Proof.
  intros s s' H. unfold finalize in H.
  destruct (truthy_z (expected s)); [discriminate|].
  destruct (sects s) as [|[t i] rest] eqn:E.
  - cbn [bind] in H. rewrite E in H. injection H as <-. apply same_nc_refl.
  - destruct (notes s) as [|n ns] eqn:N; [discriminate|].
    destruct (qeqb t (n_end n)); cbn [bind] in H.
    + cbn [sects set_sects groups] in H.
      destruct rest as [|[t1 i1] r1]; [injection H as <-; split; reflexivity|].
      destruct (groups s) as [|[g c] gr]; [injection H as <-; split; reflexivity|].
      destruct (negb (g =? i1)%Z); injection H as <-; split; reflexivity.
    + rewrite E in H.
      destruct (groups s) as [|[g c] gr]; [injection H as <-; apply same_nc_refl|].
      destruct (negb (g =? i)%Z); injection H as <-; split; reflexivity.
Qed.

(** ** The clock: what a note token does *)
Lemma step_note_clock : forall s a l octs len s',
  step_note s a l octs len = Ok s' -> broken s = None ->
  exists p u ln,
    unit_len s = Some u /\ note_length u len = Ok ln /\ ~ cur_qpm s == 0 /\
    notes s' = mkN p (cur s) (cur s') :: notes s /\
    cur s' == cur s + (60 / cur_qpm s) * (ln * 4).
Proof.
  intros s a l octs len s' H B. unfold step_note in H.
  destruct (note_pitch (kacc s) (bacc s) a l octs) as [[p b']|]; cbn [bind] in H; [|discriminate].
  destruct (unit_len s) as [u|] eqn:U; [|discriminate].
  destruct (note_length u len) as [ln|] eqn:NL; cbn [bind] in H; [|discriminate].
  destruct (qzero (cur_qpm s)) eqn:Z; [discriminate|].
  rewrite B in H. injection H as <-. exists p, u, ln.
  split; [reflexivity|]. split; [exact NL|]. split.
  { intro E. apply qzero_iff in E. congruence. }
  split; [reflexivity|].
  cbn [cur set_notes set_cur]. rewrite qadd_eq. unfold note_seconds. rewrite !qmul_eq, qdiv_eq. reflexivity.
Qed.

(** ** Broken rhythm on two notes of the same length *)
Lemma apply_broken_rule : forall s gt k n2 n1 rest,
  notes s = n2 :: n1 :: rest -> (0 <= k)%Z ->
  let d1 := n_end n1 - n_start n1 in
  let d2 := n_end n2 - n_start n2 in
  (~ d1 == d2 -> apply_broken s (gt, k) = Err EParse) /\
  (d1 == d2 ->
   exists s' n2' n1', apply_broken s (gt, k) = Ok s' /\ notes s' = n2' :: n1' :: rest /\
     cur s' = cur s /\
     n_pitch n1' = n_pitch n1 /\ n_pitch n2' = n_pitch n2 /\
     n_start n1' = n_start n1 /\ n_end n2' = n_end n2 /\
     let move := d1 - d1 / inject_Z (2 ^ k) in
     n_end n1' == n_end n1 + (if gt then move else - move) /\
     n_start n2' == n_start n2 + (if gt then move else - move)).
Proof.
  intros s gt k n2 n1 rest N K d1 d2. unfold apply_broken. rewrite N. cbn [fst snd].
  split.
  - intro NE. destruct (qeqb _ _) eqn:E; [|reflexivity].
    apply qeqb_iff in E. rewrite !qsub_eq in E. contradiction.
  - intro EQ. destruct (qeqb _ _) eqn:E.
    + cbn [negb].
      assert (NZ : ~ inject_Z (2 ^ k) == 0) by (apply inject_pos_nz; apply Z.pow_pos_nonneg; lia).
      destruct gt; do 3 eexists; (split; [reflexivity|]); cbn [notes set_notes cur n_pitch n_start n_end];
        (split; [reflexivity|]); (split; [reflexivity|]); (split; [reflexivity|]); (split; [reflexivity|]);
        (split; [reflexivity|]); (split; [reflexivity|]); cbv zeta; subst d1;
        split; cbn [n_end n_start]; repeat (rewrite qadd_eq || rewrite qsub_eq || rewrite qdiv_eq); unfold qpow2, qz;
        field; exact NZ.
    + exfalso. assert (qeqb (qsub (n_end n1) (n_start n1)) (qsub (n_end n2) (n_start n2)) = true).
      { apply qeqb_iff. rewrite !qsub_eq. exact EQ. } congruence.
Qed.

(** ** Contiguity: every note starts where the previous one ends, the first at 0,
       the last ends at the clock — also across broken rhythm *)
Fixpoint chain (ns : list nnote) (t : Q) : Prop :=
  match ns with
  | [] => t == 0
  | n :: r => n_end n == t /\ chain r (n_start n)
  end.

Lemma chain_ext : forall ns t t', t == t' -> chain ns t -> chain ns t'.
Proof. destruct ns; cbn; intros t t' E H; [now rewrite <- E|]. destruct H; split; [now rewrite <- E|assumption]. Qed.

Lemma apply_broken_chain : forall s br s', apply_broken s br = Ok s' ->
  chain (notes s) (cur s) -> chain (notes s') (cur s').
Proof.
  intros s br s' H C. unfold apply_broken in H.
  destruct (notes s) as [|n2 [|n1 rest]] eqn:E; try discriminate.
  destruct (negb _); [discriminate|].
  cbn [chain] in C. destruct C as [C1 [C2 C3]].
  destruct (fst br); injection H as <-; cbn [chain notes cur set_notes n_end n_start];
    (split; [assumption|]); (split; [|assumption]);
    match goal with
    | |- qadd _ ?a == _ => generalize a
    | |- qsub _ ?a == _ => generalize a
    end; intro adj; rewrite ?qadd_eq, ?qsub_eq, C2; reflexivity.
Qed.

Lemma step_item_chain : forall s i s', step_item s i = Ok s' ->
  chain (notes s) (cur s) -> chain (notes s') (cur s').
Proof.
  intros s i s' H C.
  assert (F : same_nc s s' -> chain (notes s') (cur s')).
  { intros [F1 F2]. now rewrite F1, F2. }
  destruct i as [f| |t]; cbn [step_item] in H.
  - apply F. eapply parse_field_nc; eassumption.
  - destruct (in_header s).
    + destruct (set_values_from_header s) as [s1|] eqn:E; cbn [bind] in H; [|discriminate].
      injection H as <-. apply set_values_nc in E. destruct E as [E1 E2]. cbn. now rewrite E1, E2.
    + cbn [bind] in H. injection H as <-. assumption.
  - destruct t as [a l octs len|lc bl rc|n|gt k|f| |u]; cbn [step_token] in H.
    + unfold step_note in H.
      destruct (note_pitch (kacc s) (bacc s) a l octs) as [[p b']|]; cbn [bind] in H; [|discriminate].
      destruct (unit_len s) as [u|]; [|discriminate].
      destruct (note_length u len) as [ln|]; cbn [bind] in H; [|discriminate].
      destruct (qzero (cur_qpm s)); [discriminate|].
      match type of H with context [set_notes ?A ?B] =>
        assert (C1 : chain (notes (set_notes A B)) (cur (set_notes A B))) by (cbn; split; [reflexivity|assumption])
      end.
      destruct (broken s) as [br|].
      * match type of H with context [apply_broken ?S br] => destruct (apply_broken S br) as [s2|] eqn:B end;
          cbn [bind] in H; [|discriminate].
        injection H as <-. apply apply_broken_chain in B; [|exact C1]. exact B.
      * injection H as <-. exact C1.
    + apply F. eapply step_bar_nc; eassumption.
    + apply F. eapply step_colons_nc; eassumption.
    + destruct (broken s); [discriminate|]. injection H as <-. assumption.
    + apply F. eapply parse_field_nc; eassumption.
    + injection H as <-. assumption.
    + destruct u; discriminate.
Qed.

Lemma run_items_chain : forall is s s', run_items s is = Ok s' ->
  chain (notes s) (cur s) -> chain (notes s') (cur s').
Proof.
  induction is as [|i r IH]; intros s s' H C; cbn [run_items] in H.
  - now injection H as <-.
  - destruct (step_item s i) as [s1|] eqn:E; cbn [bind] in H; [|discriminate].
    eapply IH; [exact H|]. eapply step_item_chain; eassumption.
Qed.

(* sum of the durations of a list of notes *)
Fixpoint sumdur (ns : list nnote) : Q :=
  match ns with [] => 0 | n :: r => (n_end n - n_start n) + sumdur r end.

Lemma chain_sum : forall ns t, chain ns t -> t == sumdur ns.
Proof.
  induction ns as [|n r IH]; intros t C; cbn [chain sumdur] in *; [assumption|].
  destruct C as [C1 C2]. rewrite <- (IH _ C2). rewrite <- C1. ring.
Qed.

Lemma chain_suffix : forall pre n post t, chain (pre ++ n :: post) t -> chain post (n_start n).
Proof.
  induction pre as [|x r IH]; intros n post t C; cbn [app chain] in C.
  - tauto.
  - destruct C as [_ C]. eapply IH; exact C.
Qed.

Lemma sumdur_app : forall a b, sumdur (a ++ b) == sumdur a + sumdur b.
Proof. induction a as [|x r IH]; intros b; cbn [app sumdur]; [ring|]. rewrite IH. ring. Qed.

Lemma sumdur_rev : forall a, sumdur (rev a) == sumdur a.
Proof. induction a as [|x r IH]; cbn [rev sumdur]; [reflexivity|]. rewrite sumdur_app, IH. cbn [sumdur]. ring. Qed.

(* the parsed tune: onset of every note = sum of the durations of the earlier notes;
   total_time = sum of all durations *)
Lemma parsed_onsets : forall is t, parse_items is = Ok t ->
  (forall before n after, t_notes t = before ++ n :: after -> n_start n == sumdur before) /\
  t_total t == sumdur (t_notes t).
Proof.
  intros is t H. unfold parse_items in H.
  destruct (run_items st0 is) as [s1|] eqn:R; cbn [bind] in H; [|discriminate].
  assert (C1 : chain (notes s1) (cur s1)).
  { eapply run_items_chain; [exact R|]. cbn. reflexivity. }
  destruct (if in_header s1 then set_values_from_header s1 else Ok s1) as [s2|] eqn:V; cbn [bind] in H; [|discriminate].
  assert (N2 : same_nc s1 s2).
  { destruct (in_header s1); [now apply set_values_nc|]. injection V as <-. apply same_nc_refl. }
  destruct (finalize s2) as [s3|] eqn:F; cbn [bind] in H; [|discriminate].
  apply finalize_nc in F. injection H as <-.
  assert (C3 : chain (notes s3) (cur s3)).
  { destruct N2 as [A1 A2], F as [B1 B2]. rewrite B1, B2, A1, A2. exact C1. }
  unfold tune_of. cbn [t_notes t_total]. split.
  - intros before n after E.
    assert (E' : notes s3 = rev after ++ n :: rev before).
    { rewrite <- (rev_involutive (notes s3)), E. rewrite rev_app_distr. cbn [rev]. now rewrite <- app_assoc. }
    rewrite E' in C3. apply chain_suffix in C3. apply chain_sum in C3. rewrite C3. apply sumdur_rev.
  - rewrite sumdur_rev. destruct (notes s3) as [|n r] eqn:E; cbn [chain sumdur] in *.
    + reflexivity.
    + destruct C3 as [_ C3]. apply chain_sum in C3. rewrite <- C3. ring.
Qed.

(** ** Default unit note length and tempo resolution *)
Lemma default_unit_rule : forall s,
  match tsigs s with
  | [] => exists u, default_unit s = Ok u /\ u == 1 / 8
  | [(_, n, d)] =>
      (0 < d)%Z ->
      exists u, default_unit s = Ok u /\
        u == (if (4 * n <? 3 * d)%Z then 1 / 16 else 1 / 8)
  | _ => default_unit s = Err EParse
  end.
Proof.
  intros s. unfold default_unit. destruct (tsigs s) as [|[[t n] d] [|x r]].
  - eexists; split; [reflexivity|]. reflexivity.
  - intros D. replace (d =? 0)%Z with false by (symmetry; apply Z.eqb_neq; lia).
    destruct d as [|p|p]; try lia.
    assert (E : qltb (qfrac n (Zpos p)) (qfrac 3 4) = (4 * n <? 3 * Zpos p)%Z).
    { destruct (qltb _ _) eqn:Q.
      - apply qltb_iff in Q. change 4%Z with (Zpos 4) in Q at 1. rewrite !qfrac_pos in Q.
        symmetry. apply Z.ltb_lt.
        unfold Qlt, Qdiv, Qmult, Qinv, inject_Z in Q. cbn in Q. lia.
      - symmetry. apply Z.ltb_ge. destruct (Z.lt_ge_cases (4 * n) (3 * Zpos p)) as [L|L]; [|lia].
        exfalso. assert (X : qltb (qfrac n (Zpos p)) (qfrac 3 4) = true); [|congruence].
        apply qltb_iff. change 4%Z with (Zpos 4) at 1. rewrite !qfrac_pos.
        unfold Qlt, Qdiv, Qmult, Qinv, inject_Z. cbn. lia. }
    rewrite E. destruct (4 * n <? 3 * Zpos p)%Z; eexists; (split; [reflexivity|]); reflexivity.
  - reflexivity.
Qed.

(* qpm = unit of the beat (in whole notes) x 4 x beats per minute; a bare rate counts
   unit note lengths *)
Lemma add_tempo_rule : forall s u rate,
  match (match u with Some x => Some x | None => unit_len s end) with
  | None => add_tempo s u rate = Err ETypeError
  | Some x => exists s', add_tempo s u rate = Ok s' /\
      exists q, tempos s' = (cur s, q) :: tempos s /\ q == x * 4 * inject_Z rate /\ cur_qpm s' = q
  end.
Proof.
  intros s u rate. unfold add_tempo.
  destruct (match u with Some x => Some x | None => unit_len s end) as [x|]; [|reflexivity].
  eexists; split; [reflexivity|]. eexists; split; [reflexivity|]. split; [|reflexivity].
  rewrite !qmul_eq. reflexivity.
Qed.
