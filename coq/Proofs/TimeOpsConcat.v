(** Proofs/TimeOpsConcat.v — concatenate_sequences and
    repeat_sequence_to_duration (C13). *)
From Coq Require Import ZArith List Bool Lia ZifyBool Permutation Sorted.
From NS Require Import Base.Sx Base.NoteSeq Model.TimeOps Proofs.TimeOps Proofs.TimeOpsTidy.
Import ListNotations.
Local Open Scope Z_scope.
Ltac Zify.zify_post_hook ::= Z.to_euclidean_division_equations.

(** * Where each piece goes *)

(** The duration a piece occupies: the explicit one, else its total_time. *)
Definition dur_of (p : seq * option Z) : Z :=
  match snd p with Some d => d | None => s_total (fst p) end.

(** A piece the property quantifies over: unquantized, total_time >= 0, an
    explicit duration not shorter than total_time. *)
Definition piece_ok (p : seq * option Z) : Prop :=
  is_quantized (fst p) = false /\ 0 <= s_total (fst p) /\
  match snd p with Some d => s_total (fst p) <= d | None => True end.

(** All events of one repeated field, piece i moved by the summed durations of
    the pieces before it ([cur] = what has accumulated so far). *)
Fixpoint placed {A : Type} (get : seq -> list A) (mv : (Z -> Z) -> A -> A)
         (ps : list (seq * option Z)) (cur : Z) : list A :=
  match ps with
  | [] => []
  | p :: r => map (mv (fun t => t + cur)) (get (fst p)) ++ placed get mv r (cur + dur_of p)
  end.

(** total_time of the result: where the last piece's total_time lands. *)
Fixpoint end_time (ps : list (seq * option Z)) (cur last : Z) : Z :=
  match ps with
  | [] => last
  | p :: r => end_time r (cur + dur_of p) (cur + s_total (fst p))
  end.

Lemma map_id_ext : forall {A} (g : A -> A) (l : list A), (forall x, g x = x) -> map g l = l.
Proof. intros A g l Hg. induction l; cbn; [reflexivity|]. rewrite Hg, IHl. reflexivity. Qed.

Lemma note_t_0 : forall n, note_t (fun t => t + 0) n = n.
Proof. intros []; unfold note_t, note_with_times; cbn. rewrite !Z.add_0_r. reflexivity. Qed.
Lemma tempo_t_0 : forall n, tempo_t (fun t => t + 0) n = n.
Proof. intros []; unfold tempo_t; cbn. rewrite !Z.add_0_r. reflexivity. Qed.
Lemma tsig_t_0 : forall n, tsig_t (fun t => t + 0) n = n.
Proof. intros []; unfold tsig_t; cbn. rewrite !Z.add_0_r. reflexivity. Qed.
Lemma ksig_t_0 : forall n, ksig_t (fun t => t + 0) n = n.
Proof. intros []; unfold ksig_t; cbn. rewrite !Z.add_0_r. reflexivity. Qed.
Lemma text_t_0 : forall n, text_t (fun t => t + 0) n = n.
Proof. intros []; unfold text_t; cbn. rewrite !Z.add_0_r. reflexivity. Qed.
Lemma cc_t_0 : forall n, cc_t (fun t => t + 0) n = n.
Proof. intros []; unfold cc_t; cbn. rewrite !Z.add_0_r. reflexivity. Qed.
Lemma bend_t_0 : forall n, bend_t (fun t => t + 0) n = n.
Proof. intros []; unfold bend_t; cbn. rewrite !Z.add_0_r. reflexivity. Qed.
Lemma sect_t_0 : forall n, sect_t (fun t => t + 0) n = n.
Proof. intros []; unfold sect_t; cbn. rewrite !Z.add_0_r. reflexivity. Qed.

(** The eight repeated fields of [r] are those of [cat] followed by [ps] placed from [cur]. *)
Definition appended (cat r : seq) (ps : list (seq * option Z)) (cur : Z) : Prop :=
  s_notes r = s_notes cat ++ placed s_notes note_t ps cur /\
  s_tempos r = s_tempos cat ++ placed s_tempos tempo_t ps cur /\
  s_tsigs r = s_tsigs cat ++ placed s_tsigs tsig_t ps cur /\
  s_ksigs r = s_ksigs cat ++ placed s_ksigs ksig_t ps cur /\
  s_texts r = s_texts cat ++ placed s_texts text_t ps cur /\
  s_ccs r = s_ccs cat ++ placed s_ccs cc_t ps cur /\
  s_bends r = s_bends cat ++ placed s_bends bend_t ps cur /\
  s_sects r = s_sects cat ++ placed s_sects sect_t ps cur.

Lemma concat_loop_spec : forall ps cur cat,
  Forall piece_ok ps -> 0 <= s_total cat <= cur ->
  exists r, concat_loop ps cur cat = Ok r /\ appended cat r ps cur /\
            s_total r = end_time ps cur (s_total cat).
Proof.
  induction ps as [|[s od] ps IH]; intros cur cat Hok Hinv.
  - exists cat. split; [reflexivity|]. unfold appended; cbn. rewrite !app_nil_r. repeat split; reflexivity.
  - inversion Hok as [|? ? Hp Hps]; subst. destruct Hp as (Hq & Ht & Hd). cbn [fst snd] in *.
    cbn [concat_loop].
    assert (Hchk : (match od with Some d => d <? s_total s | None => false end) = false)
      by (destruct od; lia).
    rewrite Hchk.
    destruct (0 <? cur) eqn:Hc.
    + (* shifted by cur *)
      unfold shift. destruct (cur <=? 0) eqn:Hc'; [lia|]. rewrite Hq.
      match goal with |- context [merge cat ?p] => set (sh := p) end.
      set (cat' := merge cat sh).
      assert (Htot : s_total cat' = cur + s_total s).
      { unfold cat', merge, sh, merge_z; cbn [s_total]. destruct (s_total s + cur =? 0) eqn:Z0; lia. }
      assert (Hcur : (match od with Some d => cur + d | None => s_total cat' end) = cur + dur_of (s, od)).
      { unfold dur_of; cbn [fst snd]. destruct od; lia. }
      rewrite Hcur.
      destruct (IH (cur + dur_of (s, od)) cat' Hps) as (r & Hr & Happ & Hrt).
      { rewrite Htot. unfold dur_of; cbn [fst snd]. destruct od; lia. }
      exists r. split; [exact Hr|]. split.
      * unfold appended in *. cbn [placed fst].
        destruct Happ as (A1 & A2 & A3 & A4 & A5 & A6 & A7 & A8).
        rewrite A1, A2, A3, A4, A5, A6, A7, A8. unfold cat', merge, sh;
          cbn [s_notes s_tempos s_tsigs s_ksigs s_texts s_ccs s_bends s_sects].
        rewrite <- !app_assoc. repeat split; reflexivity.
      * rewrite Hrt, Htot. cbn [end_time fst]. reflexivity.
    + (* first pieces: nothing accumulated yet, merged unshifted *)
      assert (cur = 0) by lia. subst cur.
      set (cat' := merge cat s).
      assert (Htot : s_total cat' = 0 + s_total s).
      { unfold cat', merge, merge_z; cbn [s_total]. destruct (s_total s =? 0) eqn:Z0; lia. }
      assert (Hcur : (match od with Some d => 0 + d | None => s_total cat' end) = 0 + dur_of (s, od)).
      { unfold dur_of; cbn [fst snd]. destruct od; lia. }
      rewrite Hcur.
      destruct (IH (0 + dur_of (s, od)) cat' Hps) as (r & Hr & Happ & Hrt).
      { rewrite Htot. unfold dur_of; cbn [fst snd]. destruct od; lia. }
      exists r. split; [exact Hr|]. split.
      * unfold appended in *. cbn [placed fst].
        destruct Happ as (A1 & A2 & A3 & A4 & A5 & A6 & A7 & A8).
        rewrite A1, A2, A3, A4, A5, A6, A7, A8. unfold cat', merge;
          cbn [s_notes s_tempos s_tsigs s_ksigs s_texts s_ccs s_bends s_sects].
        rewrite (map_id_ext _ _ note_t_0), (map_id_ext _ _ tempo_t_0), (map_id_ext _ _ tsig_t_0),
          (map_id_ext _ _ ksig_t_0), (map_id_ext _ _ text_t_0), (map_id_ext _ _ cc_t_0),
          (map_id_ext _ _ bend_t_0), (map_id_ext _ _ sect_t_0).
        rewrite <- !app_assoc. repeat split; reflexivity.
      * rewrite Hrt, Htot. cbn [end_time fst]. reflexivity.
Qed.

(** concatenate_sequences on pieces the property quantifies over. *)
Lemma concat_pairs_spec : forall ps,
  Forall piece_ok ps ->
  exists r, concat_pairs ps = Ok r /\
    s_notes r = placed s_notes note_t ps 0 /\
    s_tempos r = tidy_tempos (placed s_tempos tempo_t ps 0) /\
    s_tsigs r = tidy_tsigs (placed s_tsigs tsig_t ps 0) /\
    s_ksigs r = tidy_ksigs (placed s_ksigs ksig_t ps 0) /\
    s_texts r = placed s_texts text_t ps 0 /\
    s_ccs r = placed s_ccs cc_t ps 0 /\
    s_bends r = placed s_bends bend_t ps 0 /\
    s_sects r = placed s_sects sect_t ps 0 /\
    s_total r = end_time ps 0 0 /\
    s_sub r = (0, 0).
Proof.
  intros ps Hok.
  destruct (concat_loop_spec ps 0 empty_seq Hok) as (c & Hc & Happ & Ht); [cbn; lia|].
  unfold concat_pairs. rewrite Hc. eexists; split; [reflexivity|].
  destruct Happ as (A1 & A2 & A3 & A4 & A5 & A6 & A7 & A8). cbn in A1, A2, A3, A4, A5, A6, A7, A8.
  unfold remove_redundant, clear_sub;
    cbn [s_notes s_tempos s_tsigs s_ksigs s_texts s_ccs s_bends s_sects s_total s_sub].
  rewrite A1, A2, A3, A4, A5, A6, A7, A8, Ht. repeat split; reflexivity.
Qed.

(** The two-list API. *)
Lemma concatenate_no_durations : forall ss,
  concatenate ss [] = concat_pairs (map (fun s => (s, None)) ss).
Proof. reflexivity. Qed.

Lemma concatenate_durations : forall ss ds,
  ds <> [] -> length ss = length ds ->
  concatenate ss ds = concat_pairs (combine ss (map Some ds)).
Proof.
  intros ss ds Hne Hlen. unfold concatenate, pair_durations.
  destruct ds; [congruence|]. rewrite Hlen, Nat.eqb_refl. reflexivity.
Qed.

Lemma concatenate_length_mismatch : forall ss ds,
  ds <> [] -> length ss <> length ds -> concatenate ss ds = Err EValue.
Proof.
  intros ss ds Hne Hlen. unfold concatenate, pair_durations.
  destruct ds; [congruence|]. apply Nat.eqb_neq in Hlen. rewrite Hlen. reflexivity.
Qed.

(** A duration shorter than the piece's total_time is rejected. *)
Definition too_short (p : seq * option Z) : bool :=
  match snd p with Some d => d <? s_total (fst p) | None => false end.

Lemma concat_loop_short : forall ps cur cat,
  Forall (fun p => is_quantized (fst p) = false) ps -> existsb too_short ps = true ->
  concat_loop ps cur cat = Err EValue.
Proof.
  induction ps as [|[s od] ps IH]; intros cur cat Hq Hex; [discriminate|].
  inversion Hq as [|? ? Hq1 Hq2]; subst. cbn [fst] in Hq1.
  cbn [concat_loop]. cbn [existsb] in Hex. unfold too_short at 1 in Hex; cbn [fst snd] in Hex.
  destruct (match od with Some d => d <? s_total s | None => false end) eqn:E; [reflexivity|].
  cbn [orb] in Hex.
  destruct (0 <? cur) eqn:Hc.
  - unfold shift. destruct (cur <=? 0) eqn:Hc'; [lia|]. rewrite Hq1. apply IH; assumption.
  - apply IH; assumption.
Qed.

Lemma concat_pairs_short : forall ps,
  Forall (fun p => is_quantized (fst p) = false) ps -> existsb too_short ps = true ->
  concat_pairs ps = Err EValue.
Proof. intros. unfold concat_pairs. rewrite concat_loop_short by assumption. reflexivity. Qed.

(** Membership form of [placed]: an event is in the result iff it is an event
    of some piece i moved by the summed durations of pieces 0..i-1. *)
Definition offset (ps : list (seq * option Z)) (i : nat) : Z :=
  fold_right Z.add 0 (map dur_of (firstn i ps)).

Lemma placed_In : forall {A} (get : seq -> list A) mv ps cur e,
  In e (placed get mv ps cur) <->
  exists i p e0 off, nth_error ps i = Some p /\ In e0 (get (fst p)) /\
                     off = cur + offset ps i /\ e = mv (fun t => t + off) e0.
Proof.
  intros A get mv. induction ps as [|p ps IH]; intros cur e; cbn [placed].
  - split; [intros []|]. intros (i & p & e0 & off & H & _). destruct i; discriminate.
  - rewrite in_app_iff, in_map_iff, IH. split.
    + intros [(e0 & <- & Hin)|(i & q & e0 & off & Hn & Hin & Hoff & ->)].
      * exists 0%nat, p, e0, cur. cbn. repeat split; auto; lia.
      * exists (S i), q, e0, off. cbn [nth_error]. repeat split; auto.
        unfold offset in *; cbn [firstn map fold_right]. lia.
    + intros (i & q & e0 & off & Hn & Hin & Hoff & ->). destruct i as [|i].
      * cbn in Hn. inversion Hn; subst q. left. exists e0. split; [|exact Hin].
        unfold offset in Hoff; cbn in Hoff. replace off with cur by lia. reflexivity.
      * right. exists i, q, e0, off. cbn [nth_error] in Hn. repeat split; auto.
        unfold offset in *; cbn [firstn map fold_right] in Hoff. lia.
Qed.

(** Quantization status of the result (needed because repeat cuts the
    concatenation with extract_subsequence, which rejects quantized input). *)
Lemma concat_loop_unquantized : forall ps cur cat r,
  Forall (fun p => is_quantized (fst p) = false) ps -> is_quantized cat = false ->
  concat_loop ps cur cat = Ok r -> is_quantized r = false.
Proof.
  induction ps as [|[s od] ps IH]; intros cur cat r Hok Hq H.
  - inversion H; subst; exact Hq.
  - inversion Hok as [|? ? Hqs Hps]; subst. cbn [fst] in Hqs.
    cbn [concat_loop] in H.
    destruct (match od with Some d => d <? s_total s | None => false end); [discriminate|].
    assert (Hm : forall p, s_spq p = s_spq s -> s_sps p = s_sps s -> is_quantized (merge cat p) = false).
    { intros p E1 E2. unfold is_quantized, merge, merge_z in *; cbn [s_spq s_sps]. rewrite E1, E2.
      destruct (s_spq s =? 0) eqn:Z1, (s_sps s =? 0) eqn:Z2; cbn [negb]; lia. }
    destruct (0 <? cur) eqn:Hc.
    + unfold shift in H. destruct (cur <=? 0); [discriminate|]. rewrite Hqs in H.
      eapply IH; [exact Hps| |exact H]; apply Hm; reflexivity.
    + eapply IH; [exact Hps| |exact H]; apply Hm; reflexivity.
Qed.

Lemma concat_pairs_unquantized : forall ps r,
  Forall (fun p => is_quantized (fst p) = false) ps -> concat_pairs ps = Ok r -> is_quantized r = false.
Proof.
  intros ps r Hok H. unfold concat_pairs in H.
  destruct (concat_loop ps 0 empty_seq) as [c|] eqn:E; [|discriminate]. inversion H; subst r.
  apply concat_loop_unquantized in E; [|exact Hok|reflexivity]. exact E.
Qed.

(** * repeat_sequence_to_duration *)

(** "Enough copies": n = ceil(d / sd) is the least n with n * sd >= d. *)
Lemma ceil_div_spec : forall d sd, 0 < sd ->
  (ceil_div d sd - 1) * sd < d <= ceil_div d sd * sd.
Proof. intros. unfold ceil_div. nia. Qed.

(** The duration one copy occupies: the explicit argument unless None / 0. *)
Definition eff_dur (s : seq) (osd : option Z) : Z :=
  match osd with Some x => if x =? 0 then s_total s else x | None => s_total s end.

Lemma repeat_pairs_eq : forall s d osd,
  repeat_pairs s d osd =
  if eff_dur s osd =? 0 then Err EZeroDiv
  else Ok (repeat (s, Some (eff_dur s osd)) (Z.to_nat (ceil_div d (eff_dur s osd)))).
Proof. reflexivity. Qed.

Lemma end_time_repeat : forall s sd n cur last,
  end_time (repeat (s, Some sd) (S n)) cur last = cur + Z.of_nat n * sd + s_total s.
Proof.
  induction n; intros cur last.
  - cbn. lia.
  - change (repeat (s, Some sd) (S (S n))) with ((s, Some sd) :: repeat (s, Some sd) (S n)).
    cbn [end_time]. rewrite IHn. unfold dur_of; cbn [fst snd]. lia.
Qed.

Lemma offset_repeat : forall (p : seq * option Z) n i, (i <= n)%nat ->
  offset (repeat p n) i = Z.of_nat i * dur_of p.
Proof.
  induction n; intros i Hi.
  - assert (i = 0%nat) by lia. subst. reflexivity.
  - destruct i; [reflexivity|]. unfold offset in *. cbn [repeat firstn map fold_right].
    rewrite IHn by lia. lia.
Qed.

(** Copy k of the sequence sits k * sd later. *)
Lemma placed_repeat_In : forall {A} (get : seq -> list A) mv s sd n e,
  In e (placed get mv (repeat (s, Some sd) n) 0) <->
  exists k e0 off, (k < n)%nat /\ In e0 (get s) /\ off = Z.of_nat k * sd /\ e = mv (fun t => t + off) e0.
Proof.
  intros. rewrite placed_In. split.
  - intros (i & p & e0 & off & Hn & Hin & Hoff & ->).
    assert (Hi : (i < n)%nat).
    { assert (Hne : nth_error (repeat (s, Some sd) n) i <> None) by congruence.
      apply nth_error_Some in Hne. rewrite repeat_length in Hne. exact Hne. }
    assert (p = (s, Some sd)) by (apply nth_error_In in Hn; apply repeat_spec in Hn; exact Hn). subst p.
    exists i, e0, off. rewrite offset_repeat in Hoff by lia. unfold dur_of in Hoff; cbn [fst snd] in *.
    repeat split; auto; lia.
  - intros (k & e0 & off & Hk & Hin & Hoff & ->).
    exists k, (s, Some sd), e0, off. rewrite offset_repeat by lia. unfold dur_of; cbn [fst snd].
    split; [|split; [exact Hin|split; [lia|reflexivity]]].
    clear - Hk. revert k Hk. induction n; intros k Hk; [lia|]. destruct k; [reflexivity|].
    cbn. apply IHn. lia.
Qed.

Lemma max_end_le : forall d l m, Forall (fun n => n_end n <= d) l -> m <= d ->
  fold_left (fun m n => Z.max m (n_end n)) l m <= d.
Proof.
  induction l as [|x r IH]; intros m F Hm; cbn; [exact Hm|].
  inversion F; subst. apply IH; [assumption|lia].
Qed.

(** The notes of a window: exactly the notes starting in [0, d), cut at d. *)
Lemma window_notes_In : forall d l n',
  In n' (window_notes d l) <->
  exists n, In n l /\ 0 <= n_start n < d /\ n' = note_with_times n (n_start n) (Z.min (n_end n) d).
Proof.
  intros. unfold window_notes. rewrite in_map_iff. split.
  - intros (n & <- & Hin). apply filter_In in Hin. destruct Hin as [Hin Hc].
    apply sort_by_In in Hin. exists n. repeat split; auto; lia.
  - intros (n & Hin & Hr & ->). exists n. split; [reflexivity|].
    apply filter_In. split; [apply sort_by_In; exact Hin|lia].
Qed.

Lemma window_notes_bounded : forall d l, Forall (fun n => n_end n <= d) (window_notes d l).
Proof.
  intros. apply Forall_forall. intros n' Hin. apply window_notes_In in Hin.
  destruct Hin as (n & _ & _ & ->). destruct n; unfold note_with_times; cbn. lia.
Qed.

(** repeat_sequence_to_duration = cut at d the concatenation of ceil(d/sd) copies. *)
Lemma repeat_spec : forall s d osd,
  is_quantized s = false -> 0 < s_total s <= eff_dur s osd -> 0 < d ->
  let sd := eff_dur s osd in
  let n := Z.to_nat (ceil_div d sd) in
  let ps := repeat (s, Some sd) n in
  (n >= 1)%nat /\ (Z.of_nat n - 1) * sd < d <= Z.of_nat n * sd /\
  exists r, repeat_to_duration s d osd = Ok r /\
    s_notes r = window_notes d (placed s_notes note_t ps 0) /\
    s_tempos r = window_state tp_time tempo_t d (tidy_tempos (placed s_tempos tempo_t ps 0)) /\
    s_tsigs r = window_state ts_time tsig_t d (tidy_tsigs (placed s_tsigs tsig_t ps 0)) /\
    s_ksigs r = window_state ks_time ksig_t d (tidy_ksigs (placed s_ksigs ksig_t ps 0)) /\
    s_sects r = placed s_sects sect_t ps 0 /\
    s_total r = max_end (s_notes r) /\ s_total r <= d /\
    s_sub r = (0, 0).
Proof.
  intros s d osd Hq Ht Hd sd n ps.
  assert (Hsd : 0 < sd) by (unfold sd; lia).
  pose proof (ceil_div_spec d sd Hsd) as Hc.
  assert (Hn : 1 <= ceil_div d sd) by nia.
  assert (Hn' : Z.of_nat n = ceil_div d sd) by (unfold n; lia).
  split; [lia|]. split; [rewrite Hn'; exact Hc|].
  assert (Hok : Forall piece_ok ps).
  { apply Forall_forall. intros p Hp. apply repeat_spec in Hp. subst p.
    unfold piece_ok; cbn [fst snd]. fold sd. repeat split; auto; lia. }
  destruct (concat_pairs_spec ps Hok) as (c & Hcat & C1 & C2 & C3 & C4 & C5 & C6 & C7 & C8 & C9 & C10).
  assert (Hcq : is_quantized c = false).
  { eapply concat_pairs_unquantized; [|exact Hcat]. eapply Forall_impl; [|exact Hok]. intros p H; apply H. }
  assert (Hct : 0 < s_total c).
  { rewrite C9. unfold ps. destruct n as [|m]; [lia|]. rewrite end_time_repeat. nia. }
  unfold repeat_to_duration. rewrite repeat_pairs_eq. fold sd. destruct (sd =? 0) eqn:E0; [lia|].
  fold n. fold ps. rewrite Hcat. unfold window. rewrite Hcq.
  destruct (d <? 0) eqn:E1; [lia|]. destruct (s_total c <=? 0) eqn:E2; [lia|].
  eexists; split; [reflexivity|].
  cbn [s_notes s_tempos s_tsigs s_ksigs s_sects s_total s_sub].
  rewrite C1, C2, C3, C4, C8. repeat split; try reflexivity.
  unfold max_end. apply max_end_le; [apply window_notes_bounded|lia].
Qed.

Lemma repeat_zero_duration : forall s d osd, eff_dur s osd = 0 -> repeat_to_duration s d osd = Err EZeroDiv.
Proof. intros s d osd H. unfold repeat_to_duration. rewrite repeat_pairs_eq, H. reflexivity. Qed.

Lemma repeat_nothing_requested : forall s d osd, 0 < eff_dur s osd -> d <= 0 ->
  repeat_to_duration s d osd = Err EValue.
Proof.
  intros s d osd Hsd Hd. unfold repeat_to_duration. rewrite repeat_pairs_eq.
  destruct (eff_dur s osd =? 0) eqn:E; [lia|].
  pose proof (ceil_div_spec d _ Hsd) as Hc.
  assert (Hn : Z.to_nat (ceil_div d (eff_dur s osd)) = 0%nat) by nia. rewrite Hn.
  cbn. destruct (d <? 0); reflexivity.
Qed.

(** Instances for notes, as stated in Props/C13.v. *)
Lemma placed_notes_In : forall (get : seq -> list note) mv ps cur e,
  In e (placed get mv ps cur) <->
  exists i p e0 off, nth_error ps i = Some p /\ In e0 (get (fst p)) /\
                     off = cur + offset ps i /\ e = mv (fun t => t + off) e0.
Proof. intros. apply placed_In. Qed.

Lemma repeat_notes_In : forall s sd n (e : note),
  In e (placed s_notes note_t (repeat (s, Some sd) n) 0) <->
  exists k e0 off, (k < n)%nat /\ In e0 (s_notes s) /\ off = Z.of_nat k * sd /\ e = note_t (fun t => t + off) e0.
Proof. intros. apply placed_repeat_In. Qed.

(** The notes of repeat_sequence_to_duration, in one statement: exactly the
    notes of copies k = 0 .. n-1 (copy k moved by k * sd) that start before d,
    with their ends cut at d. *)
Lemma repeat_result_notes : forall s d osd r,
  is_quantized s = false -> 0 < s_total s <= eff_dur s osd -> 0 < d ->
  repeat_to_duration s d osd = Ok r ->
  let sd := eff_dur s osd in
  let n := Z.to_nat (ceil_div d sd) in
  forall n', In n' (s_notes r) <->
    exists k n0, (k < n)%nat /\ In n0 (s_notes s) /\ 0 <= n_start n0 + Z.of_nat k * sd < d /\
      n' = note_with_times n0 (n_start n0 + Z.of_nat k * sd) (Z.min (n_end n0 + Z.of_nat k * sd) d).
Proof.
  intros s d osd r Hq Ht Hd Hr sd n n'.
  destruct (repeat_spec s d osd Hq Ht Hd) as (_ & _ & r' & Hr' & Hn & _).
  rewrite Hr in Hr'. inversion Hr'; subst r'. rewrite Hn. fold sd. fold n.
  rewrite window_notes_In. split.
  - intros (m & Hm & Hrange & ->). apply repeat_notes_In in Hm.
    destruct Hm as (k & e0 & off & Hk & He0 & -> & ->).
    exists k, e0. destruct e0; unfold note_t, note_with_times in *; cbn in *. repeat split; auto; lia.
  - intros (k & n0 & Hk & Hn0 & Hrange & ->).
    exists (note_t (fun t => t + Z.of_nat k * sd) n0). split.
    + apply repeat_notes_In. exists k, n0, (Z.of_nat k * sd). repeat split; auto.
    + destruct n0; unfold note_t, note_with_times in *; cbn in *. repeat split; auto; lia.
Qed.

(** Shifting twice is shifting by the sum. *)
Lemma shift_shift : forall a b s r, shift a s = Ok r -> 0 < b -> shift b r = shift (a + b) s.
Proof.
  intros a b s r H Hb. unfold shift in H.
  destruct (a <=? 0) eqn:Ea; [discriminate|]. destruct (is_quantized s) eqn:Q; [discriminate|].
  inversion H; subst r; clear H. unfold shift at 1 2.
  destruct (b <=? 0) eqn:Eb; [lia|]. destruct (a + b <=? 0) eqn:Eab; [lia|].
  unfold is_quantized at 1. cbn [s_spq s_sps]. fold (is_quantized s). rewrite Q.
  cbn [s_notes s_tempos s_tsigs s_ksigs s_texts s_ccs s_bends s_sects s_total s_qsteps s_spq s_sps s_tpq s_rest].
  rewrite !map_map. f_equal. f_equal; try lia; apply map_ext; intros [];
    unfold note_t, note_with_times, tempo_t, tsig_t, ksig_t, text_t, cc_t, bend_t, sect_t; cbn; f_equal; lia.
Qed.

(** The composed operation drops ONLY tempo / time-signature / key events that repeat the value in
    force: every other field is exactly the placed events; the three state lists are sub-sequences of
    the time-ordered placed events and carry the same value in force at every time. *)
Lemma concat_drops_only_redundant : forall ps,
  Forall piece_ok ps ->
  exists r, concat_pairs ps = Ok r /\
    s_notes r = placed s_notes note_t ps 0 /\ s_texts r = placed s_texts text_t ps 0 /\
    s_ccs r = placed s_ccs cc_t ps 0 /\ s_bends r = placed s_bends bend_t ps 0 /\
    s_sects r = placed s_sects sect_t ps 0 /\
    (let all := sort_by tp_time (placed s_tempos tempo_t ps 0) in
     subseq (s_tempos r) all /\
     forall t, force tp_time tp_qpm None (s_tempos r) t = force tp_time tp_qpm None all t) /\
    (let all := sort_by ts_time (placed s_tsigs tsig_t ps 0) in
     subseq (s_tsigs r) all /\
     forall t, force ts_time (fun e => (ts_num e, ts_den e)) None (s_tsigs r) t =
               force ts_time (fun e => (ts_num e, ts_den e)) None all t) /\
    (let all := sort_by ks_time (placed s_ksigs ksig_t ps 0) in
     subseq (s_ksigs r) all /\
     forall t, force ks_time (fun e => (ks_key e, ks_mode e)) None (s_ksigs r) t =
               force ks_time (fun e => (ks_key e, ks_mode e)) None all t).
Proof.
  intros ps Hok.
  destruct (concat_pairs_spec ps Hok) as (r & Hr & C1 & C2 & C3 & C4 & C5 & C6 & C7 & C8 & _).
  exists r. split; [exact Hr|]. rewrite C1, C2, C3, C4, C5, C6, C7, C8.
  repeat split; try reflexivity.
  - apply tidy_tempos_subseq.
  - intro t. apply tidy_tempos_force.
  - apply tidy_tsigs_subseq.
  - intro t. apply tidy_tsigs_force.
  - apply tidy_ksigs_subseq.
  - intro t. apply tidy_ksigs_force.
Qed.
