(** Proofs/TimeOps.v — lemmas about Model/TimeOps.v (C13). *)
From Coq Require Import ZArith List Bool Lia ZifyBool.
From NS Require Import Base.Sx Base.NoteSeq Model.TimeOps.
Import ListNotations.
Local Open Scope Z_scope.
Ltac Zify.zify_post_hook ::= Z.to_euclidean_division_equations.

Lemma shift_rejects_nonpositive : forall d s, d <= 0 -> shift d s = Err EValue.
Proof. intros d s H. unfold shift. destruct (d <=? 0) eqn:E; [reflexivity|lia]. Qed.
