(** Proofs/TimeOps.v — lemmas about Model/TimeOps.v (C13): shift, stretch,
    redundant-event removal, concatenation. *)
From Coq Require Import ZArith List Bool Lia ZifyBool Permutation Sorted.
From NS Require Import Base.Sx Base.NoteSeq Model.TimeOps.
Import ListNotations.
Local Open Scope Z_scope.
Ltac Zify.zify_post_hook ::= Z.to_euclidean_division_equations.

(** * Every time of a sequence (for exactness / well-formedness statements) *)
Definition all_times (s : seq) : list Z :=
  flat_map (fun n => [n_start n; n_end n]) (s_notes s) ++ map tp_time (s_tempos s)
  ++ map ts_time (s_tsigs s) ++ map ks_time (s_ksigs s) ++ map tx_time (s_texts s)
  ++ map cc_time (s_ccs s) ++ map pb_time (s_bends s) ++ map sa_time (s_sects s) ++ [s_total s].

(** [moved f s r]: every note and every event of all eight repeated fields of
    [r] is the corresponding one of [s] with its time(s) replaced by [f time],
    nothing else about it changed, in the same order. *)
Definition moved (f : Z -> Z) (s r : seq) : Prop :=
  s_notes r = map (note_t f) (s_notes s) /\
  map tp_time (s_tempos r) = map (fun t => f (tp_time t)) (s_tempos s) /\
  s_tsigs r = map (tsig_t f) (s_tsigs s) /\
  s_ksigs r = map (ksig_t f) (s_ksigs s) /\
  s_texts r = map (text_t f) (s_texts s) /\
  s_ccs r = map (cc_t f) (s_ccs s) /\
  s_bends r = map (bend_t f) (s_bends s) /\
  s_sects r = map (sect_t f) (s_sects s).

(** The fields no time operation may touch. *)
Definition same_rest (s r : seq) : Prop :=
  s_qsteps r = s_qsteps s /\ s_spq r = s_spq s /\ s_sps r = s_sps s /\
  s_tpq r = s_tpq s /\ s_rest r = s_rest s.

(** * shift_sequence_times *)
Lemma shift_spec : forall d s,
  0 < d -> is_quantized s = false ->
  exists r, shift d s = Ok r /\
    moved (fun t => t + d) s r /\
    map tp_qpm (s_tempos r) = map tp_qpm (s_tempos s) /\
    s_total r = s_total s + d /\
    s_sub r = (0, 0) /\
    same_rest s r.
Proof.
  intros d s Hd Hq. unfold shift. rewrite Hq.
  destruct (d <=? 0) eqn:E; [lia|].
  eexists; split; [reflexivity|].
  unfold moved, same_rest; cbn [s_notes s_tempos s_tsigs s_ksigs s_texts s_ccs s_bends s_sects
    s_total s_sub s_qsteps s_spq s_sps s_tpq s_rest].
  rewrite !map_map. cbn [tempo_t tp_time tp_qpm]. repeat split; reflexivity.
Qed.

Lemma shift_error_iff : forall d s e,
  shift d s = Err e <->
  (d <= 0 /\ e = EValue) \/ (0 < d /\ is_quantized s = true /\ e = EQuant).
Proof.
  intros d s e. unfold shift.
  destruct (d <=? 0) eqn:E; [|destruct (is_quantized s) eqn:Q]; split; intro H.
  - inversion H; left; split; [lia|reflexivity].
  - destruct H as [[_ ->]|[H _]]; [reflexivity|lia].
  - inversion H; right; repeat split; lia.
  - destruct H as [[H _]|[_ [_ ->]]]; [lia|reflexivity].
  - discriminate.
  - destruct H as [[H _]|[_ [H _]]]; [lia|discriminate].
Qed.

(** A shifted well-formed sequence is well-formed. *)
Lemma Forall_map_iff : forall {A B} (P : B -> Prop) (g : A -> B) l,
  Forall P (map g l) <-> Forall (fun x => P (g x)) l.
Proof. intros. rewrite !Forall_forall. setoid_rewrite in_map_iff. firstorder (subst; auto). Qed.

Lemma shift_wf : forall d s r, shift d s = Ok r -> seq_wf s -> seq_wf r.
Proof.
  intros d s r H W. unfold shift in H.
  destruct (d <=? 0) eqn:E; [discriminate|]. destruct (is_quantized s); [discriminate|].
  inversion H; subst r; clear H. assert (Hd : 0 < d) by lia. clear E.
  destruct W as (Wn & W1 & W2 & W3 & W4 & W5 & W6 & W7).
  unfold seq_wf; cbn [s_notes s_tempos s_tsigs s_ksigs s_texts s_ccs s_bends s_sects s_total].
  repeat split; apply Forall_map_iff;
    match goal with
    | |- Forall _ (s_notes _) =>
        eapply Forall_impl; [|exact Wn]; intros n (A & B & C);
        destruct n; unfold note_wf, note_t, note_with_times in *; cbn in *; lia
    | _ => idtac
    end.
  - eapply Forall_impl; [|exact W1]; intros ? HH; cbv beta in HH; cbn; lia.
  - eapply Forall_impl; [|exact W2]; intros ? HH; cbv beta in HH; cbn; lia.
  - eapply Forall_impl; [|exact W3]; intros ? HH; cbv beta in HH; cbn; lia.
  - eapply Forall_impl; [|exact W4]; intros ? HH; cbv beta in HH; cbn; lia.
  - eapply Forall_impl; [|exact W5]; intros ? HH; cbv beta in HH; cbn; lia.
  - eapply Forall_impl; [|exact W6]; intros ? HH; cbv beta in HH; cbn; lia.
  - eapply Forall_impl; [|exact W7]; intros ? HH; cbv beta in HH; cbn; lia.
Qed.

(** * stretch_note_sequence *)

(** The exactness side condition of the tick model: every product t * fn/fd
    and every quotient qpm / (fn/fd) is an integer (the generators' dyadic
    grid; binary64 computes these without rounding). *)
Definition stretch_exact (fn fd : Z) (s : seq) : bool :=
  forallb (fun t => (t * fn) mod fd =? 0) (all_times s) &&
  forallb (fun q => (q * fd) mod fn =? 0) (map tp_qpm (s_tempos s)).

Lemma stretch_spec : forall fn fd s,
  0 < fn -> 0 < fd -> is_quantized s = false ->
  exists r, stretch fn fd s = Ok r /\
    moved (mulf fn fd) s r /\
    map tp_qpm (s_tempos r) = map (fun t => divf fn fd (tp_qpm t)) (s_tempos s) /\
    s_total r = mulf fn fd (s_total s) /\
    s_sub r = s_sub s /\
    same_rest s r.
Proof.
  intros fn fd s Hn Hd Hq. unfold stretch. rewrite Hq.
  assert (Hid : forall t, mulf fd fd t = t) by (intro t; unfold mulf; nia).
  assert (Hidq : forall q, divf fd fd q = q) by (intro q; unfold divf; nia).
  destruct (fn =? fd) eqn:E.
  - assert (fn = fd) by lia. subst fn.
    eexists; split; [reflexivity|].
    assert (Hm : forall {A} (g : A -> A) (l : list A), (forall x, g x = x) -> l = map g l).
    { intros A g l Hg. induction l; cbn; [reflexivity|]. rewrite Hg, <- IHl. reflexivity. }
    unfold moved, same_rest. repeat split; try reflexivity.
    + apply Hm. intros []; unfold note_t, note_with_times; cbn. rewrite !Hid. reflexivity.
    + apply map_ext. intro. rewrite Hid. reflexivity.
    + apply Hm. intros []; unfold tsig_t; cbn. rewrite Hid. reflexivity.
    + apply Hm. intros []; unfold ksig_t; cbn. rewrite Hid. reflexivity.
    + apply Hm. intros []; unfold text_t; cbn. rewrite Hid. reflexivity.
    + apply Hm. intros []; unfold cc_t; cbn. rewrite Hid. reflexivity.
    + apply Hm. intros []; unfold bend_t; cbn. rewrite Hid. reflexivity.
    + apply Hm. intros []; unfold sect_t; cbn. rewrite Hid. reflexivity.
    + apply map_ext. intro. rewrite Hidq. reflexivity.
    + rewrite Hid. reflexivity.
  - eexists; split; [reflexivity|].
    unfold moved, same_rest; cbn [s_notes s_tempos s_tsigs s_ksigs s_texts s_ccs s_bends s_sects
      s_total s_sub s_qsteps s_spq s_sps s_tpq s_rest].
    rewrite !map_map. cbn [tp_time tp_qpm]. repeat split; reflexivity.
Qed.

(** Under the exactness condition the model's [t * fn / fd] IS the product. *)
Lemma stretch_exact_times : forall fn fd s t,
  0 < fd -> stretch_exact fn fd s = true -> In t (all_times s) -> mulf fn fd t * fd = t * fn.
Proof.
  intros fn fd s t Hd H Hin. unfold stretch_exact in H. apply andb_true_iff in H. destruct H as [H _].
  rewrite forallb_forall in H. specialize (H t Hin). unfold mulf. nia.
Qed.

Lemma stretch_exact_qpm : forall fn fd s tp,
  0 < fn -> stretch_exact fn fd s = true -> In tp (s_tempos s) -> divf fn fd (tp_qpm tp) * fn = tp_qpm tp * fd.
Proof.
  intros fn fd s tp Hn H Hin. unfold stretch_exact in H. apply andb_true_iff in H. destruct H as [_ H].
  rewrite forallb_forall in H. specialize (H (tp_qpm tp) (in_map _ _ _ Hin)). unfold divf. nia.
Qed.

Lemma stretch_error_iff : forall fn fd s e,
  stretch fn fd s = Err e <-> is_quantized s = true /\ e = EQuant.
Proof.
  intros. unfold stretch. destruct (is_quantized s); [|destruct (fn =? fd)]; split; intro H;
    try discriminate; try (destruct H; discriminate).
  - inversion H; auto.
  - destruct H as [_ ->]; reflexivity.
Qed.

(** Stretching is order preserving on times (so it keeps start <= end <= total). *)
Lemma mulf_monotone : forall fn fd a b, 0 <= fn -> 0 < fd -> a <= b -> mulf fn fd a <= mulf fn fd b.
Proof. intros. unfold mulf. apply Z.div_le_mono; nia. Qed.

Lemma mulf_nonneg : forall fn fd a, 0 <= fn -> 0 < fd -> 0 <= a -> 0 <= mulf fn fd a.
Proof. intros. unfold mulf. apply Z.div_pos; nia. Qed.
