(** Proofs/AbcBook.v — C04: parse_abc_tunebook treats every tune on its own;
    unsupported constructs are reported with their documented class. *)
From Coq Require Import ZArith QArith List Bool Lia.
From NS Require Import Gen.G04 Model.Abc.
Import ListNotations.
Local Open Scope Z_scope.

(** the tunes that parse and the exceptions of those that do not, each computed
    from the tune alone (plus the file header) *)
Fixpoint oks (h : list line) (ts : list (list line)) : list tune :=
  match ts with
  | [] => []
  | t :: r => match parse_tune (h ++ t) with Ok tn => tn :: oks h r | Err _ => oks h r end
  end.

Fixpoint errs (h : list line) (ts : list (list line)) : list exn :=
  match ts with
  | [] => []
  | t :: r => match parse_tune (h ++ t) with Ok _ => errs h r | Err e => e :: errs h r end
  end.

Definition no_foreign_in (h : list line) (ts : list (list line)) : Prop :=
  forall t e, In t ts -> parse_tune (h ++ t) = Err e -> foreign e = false.

Lemma existsb_ref_false : forall (tunes : list tune) r,
  ~ In r (map t_ref tunes) -> existsb (fun x => t_ref x =? r) tunes = false.
Proof.
  induction tunes as [|x l IH]; intros r H; cbn [existsb]; [reflexivity|].
  cbn [map In] in H. apply orb_false_iff. split.
  - apply Z.eqb_neq. intro E. apply H. now left.
  - apply IH. intro I. apply H. now right.
Qed.

Lemma book_loop_spec : forall h ts tunes excs,
  no_foreign_in h ts ->
  NoDup (map t_ref (rev tunes ++ oks h ts)) ->
  book_loop h ts tunes excs = BookOk (rev tunes ++ oks h ts) (rev excs ++ errs h ts).
Proof.
  induction ts as [|t r IH]; intros tunes excs NF ND; cbn [book_loop oks errs].
  - now rewrite !app_nil_r.
  - assert (NF' : no_foreign_in h r) by (intros t' e I; apply NF; now right).
    cbn [oks] in ND.
    destruct (parse_tune (h ++ t)) as [tn|e] eqn:P.
    + assert (X : existsb (fun x => t_ref x =? t_ref tn) tunes = false).
      { apply existsb_ref_false. intro I.
        rewrite map_app in ND. apply NoDup_remove_2 with (l := map t_ref (rev tunes)) (l' := map t_ref (oks h r)) in ND.
        apply ND. apply in_or_app. left. rewrite map_rev. apply in_rev. now rewrite rev_involutive. }
      rewrite X. rewrite IH; [|assumption|].
      * cbn [rev]. now rewrite <- !app_assoc.
      * cbn [rev]. now rewrite <- app_assoc.
    + rewrite (NF t e (or_introl eq_refl) P). rewrite IH; [|assumption|assumption].
      cbn [rev]. now rewrite <- !app_assoc.
Qed.

(* a foreign exception in some tune aborts the whole tunebook *)
Lemma book_loop_foreign : forall h ts tunes excs t e,
  In t ts -> parse_tune (h ++ t) = Err e -> foreign e = true ->
  exists e', book_loop h ts tunes excs = BookRaise e'.
Proof.
  induction ts as [|x r IH]; intros tunes excs t e I P F; [destruct I|].
  cbn [book_loop]. destruct I as [->|I].
  - rewrite P, F. eauto.
  - destruct (parse_tune (h ++ x)) as [tn|e0].
    + destruct (existsb _ tunes); [eauto|]. eapply IH; eassumption.
    + destruct (foreign e0); [eauto|]. eapply IH; eassumption.
Qed.

(* two successfully parsed tunes with the same reference number: the documented
   DuplicateReferenceNumberError is raised *)
Lemma book_loop_duplicate : forall h ts tunes excs,
  no_foreign_in h ts ->
  ~ NoDup (map t_ref (rev tunes ++ oks h ts)) -> NoDup (map t_ref tunes) ->
  book_loop h ts tunes excs = BookRaise EDuplicate.
Proof.
  induction ts as [|t r IH]; intros tunes excs NF ND N0; cbn [book_loop oks] in *.
  - exfalso. apply ND. rewrite app_nil_r, map_rev. apply NoDup_rev in N0. exact N0.
  - assert (NF' : no_foreign_in h r) by (intros t' e I; apply NF; now right).
    destruct (parse_tune (h ++ t)) as [tn|e] eqn:P.
    + destruct (existsb (fun x => t_ref x =? t_ref tn) tunes) eqn:X; [reflexivity|].
      apply IH; [assumption| |].
      * cbn [rev]. now rewrite <- app_assoc.
      * cbn [map]. constructor; [|assumption]. intro I.
        apply in_map_iff in I. destruct I as [x [E I]].
        assert (existsb (fun x => t_ref x =? t_ref tn) tunes = true); [|congruence].
        apply existsb_exists. exists x. split; [assumption|]. now apply Z.eqb_eq.
    + rewrite (NF t e (or_introl eq_refl) P). now apply IH.
Qed.

(* parse_abc_tunebook with a file header section (no X: line) and tunes *)
Lemma book_isolation_header : forall h t0 ts,
  existsb is_x_line h = false ->
  no_foreign_in h (t0 :: ts) -> NoDup (map t_ref (oks h (t0 :: ts))) ->
  parse_book (h :: t0 :: ts) = BookOk (oks h (t0 :: ts)) (errs h (t0 :: ts)) /\
  forall t, In t (t0 :: ts) ->
    parse_book [h; t] = match parse_tune (h ++ t) with
                        | Ok tn => BookOk [tn] []
                        | Err e => BookOk [] [e]
                        end.
Proof.
  intros h t0 ts HX NF ND. split.
  - unfold parse_book, split_header. rewrite HX. now apply book_loop_spec.
  - intros t I. unfold parse_book, split_header. rewrite HX. cbn [book_loop].
    destruct (parse_tune (h ++ t)) as [tn|e] eqn:P; [reflexivity|].
    now rewrite (NF t e I P).
Qed.

(* no file header: the first section carries an X: line (or there is one section) *)
Lemma book_isolation_plain : forall ts,
  match ts with h :: _ :: _ => existsb is_x_line h = true | _ => True end ->
  no_foreign_in [] ts -> NoDup (map t_ref (oks [] ts)) ->
  parse_book ts = BookOk (oks [] ts) (errs [] ts) /\
  forall t, In t ts ->
    parse_book [t] = match parse_tune t with
                     | Ok tn => BookOk [tn] []
                     | Err e => BookOk [] [e]
                     end.
Proof.
  intros ts HX NF ND. split.
  - unfold parse_book, split_header.
    destruct ts as [|h [|t1 r]]; [reflexivity| |].
    + now apply book_loop_spec.
    + rewrite HX. now apply book_loop_spec.
  - intros t I. unfold parse_book, split_header. cbn [book_loop app].
    destruct (parse_tune t) as [tn|e] eqn:P; [reflexivity|].
    now rewrite (NF t e I P).
Qed.

(** ** Unsupported constructs *)
Lemma run_items_app : forall a b s,
  run_items s (a ++ b) = match run_items s a with Ok s1 => run_items s1 b | Err e => Err e end.
Proof.
  induction a as [|i r IH]; intros b s; cbn [app run_items]; [reflexivity|].
  destruct (step_item s i); cbn [bind]; [apply IH|reflexivity].
Qed.

Definition unsup_exn (u : unsup) : exn :=
  match u with UChord => EChord | UTuplet => ETuplet | UVariant => EVariant | UInvalid => EInvalidChar end.

(* the first unsupported construct reached decides the (documented) exception *)
Lemma unsupported_token_reported : forall pre u post s,
  run_items st0 pre = Ok s ->
  parse_items (pre ++ ITok (TUnsup u) :: post) = Err (unsup_exn u) /\ foreign (unsup_exn u) = false.
Proof.
  intros pre u post s R. unfold parse_items. rewrite run_items_app, R. cbn [run_items step_item step_token].
  destruct u; split; reflexivity.
Qed.

Lemma unsupported_field_reported : forall pre post s,
  run_items st0 pre = Ok s ->
  parse_items (pre ++ IField FP :: post) = Err EPart /\
  parse_items (pre ++ IField FV :: post) = Err EMultiVoice /\
  parse_items (pre ++ ITok (TInline FP) :: post) = Err EPart /\
  parse_items (pre ++ ITok (TInline FV) :: post) = Err EMultiVoice.
Proof.
  intros pre post s R. unfold parse_items. rewrite !run_items_app, R. repeat split; reflexivity.
Qed.
