(** Proofs/PermMidi.v — C12 for note_sequence_to_pretty_midi (C03 glue model,
    [MidiGlue.write]): resolution, initial tempo and tempo map are equal, the
    instruments are created for the same keys in the same order and hold the same
    notes / pitch bends / control changes as multisets, time and key signatures are
    the same multisets.  Needs only "no two tempos share a time".
    (drop_events_n_seconds_after_last_note is not part of the C03 model; the
    implementation-side comparison of the C12 check covers it.) *)
From Coq Require Import ZArith List Bool Lia Permutation Sorted.
From NS Require Import Base.NoteSeq Model.PermDefs Proofs.PermTools.
From NS Require Import Gen.G03 Model.TempoMap Model.MidiGlue Proofs.MidiGlue Proofs.MidiGlueExt.
Import ListNotations.
Local Open Scope Z_scope.

Definition pinstr_rel (a b : pinstr) : Prop :=
  pi_prog a = pi_prog b /\ pi_drum a = pi_drum b /\ Permutation (pi_notes a) (pi_notes b) /\
  Permutation (pi_bends a) (pi_bends b) /\ Permutation (pi_ccs a) (pi_ccs b).

Definition pm_rel (a b : pm) : Prop :=
  pm_res a = pm_res b /\ pm_u0 a = pm_u0 b /\ pm_scales a = pm_scales b /\
  Permutation (pm_tsigs a) (pm_tsigs b) /\ Permutation (pm_ksigs a) (pm_ksigs b) /\
  Forall2 pinstr_rel (pm_instrs a) (pm_instrs b).

(** * sorted(instrument_events.keys()) depends only on the set of keys *)
Definition key_lt (a b : key) : Prop := key_ltb a b = true.

Lemma key_ltb_spec a b :
  key_ltb a b = true <->
  (k_id a < k_id b \/ (k_id a = k_id b /\
    (k_prog a < k_prog b \/ (k_prog a = k_prog b /\ k_drum a = false /\ k_drum b = true)))).
Proof.
  unfold key_ltb.
  destruct (k_id a <? k_id b) eqn:E1; [split; [intros _; left; lia|reflexivity]|].
  destruct (k_id b <? k_id a) eqn:E2; [split; [discriminate|intros; lia]|].
  destruct (k_prog a <? k_prog b) eqn:E3; [split; [intros _; right; split; [lia|left; lia]|reflexivity]|].
  destruct (k_prog b <? k_prog a) eqn:E4; [split; [discriminate|intros; lia]|].
  destruct (k_drum a), (k_drum b); cbn [negb andb]; split; intros H; try discriminate H; try reflexivity.
  - destruct H as [H|[_ [H|[_ [H1 H2]]]]]; try lia; discriminate.
  - destruct H as [H|[_ [H|[_ [H1 H2]]]]]; try lia; discriminate.
  - right. split; [lia|]. right. split; [lia|]. split; reflexivity.
  - destruct H as [H|[_ [H|[_ [H1 H2]]]]]; try lia; discriminate.
Qed.

Lemma key_lt_trans a b c : key_lt a b -> key_lt b c -> key_lt a c.
Proof.
  unfold key_lt. rewrite !key_ltb_spec.
  intros [H|[E [H|[E' [D1 D2]]]]] [G|[F [G|[F' [D3 D4]]]]]; try (left; lia);
    try (right; split; [lia|left; lia]); congruence.
Qed.

Lemma key_lt_asym a b : key_lt a b -> key_lt b a -> False.
Proof.
  unfold key_lt. rewrite !key_ltb_spec.
  intros [H|[E [H|[E' [D1 D2]]]]] [G|[F [G|[F' [D3 D4]]]]]; try lia; congruence.
Qed.

Lemma key_total a b : key_ltb a b = false -> a <> b -> key_lt b a.
Proof.
  intros H N. unfold key_lt. rewrite key_ltb_spec.
  assert (~ (k_id a < k_id b \/ (k_id a = k_id b /\
    (k_prog a < k_prog b \/ (k_prog a = k_prog b /\ k_drum a = false /\ k_drum b = true))))) as NH
    by (rewrite <- key_ltb_spec; congruence).
  destruct a as [[a1 a2] a3], b as [[b1 b2] b3]. unfold k_id, k_prog, k_drum in *. cbn [fst snd] in *.
  destruct (Z.lt_trichotomy a1 b1) as [L|[E|G]]; [exfalso; apply NH; now left| |now left].
  right. split; [lia|].
  destruct (Z.lt_trichotomy a2 b2) as [L|[E2|G]]; [exfalso; apply NH; right; split; [lia|now left]| |now left].
  right. split; [lia|]. subst.
  destruct a3, b3; try (exfalso; apply N; reflexivity); [split; reflexivity|].
  exfalso. apply NH. right. split; [reflexivity|]. right. repeat split.
Qed.

Lemma kins_sorted x l : StronglySorted key_lt l -> ~ In x l -> StronglySorted key_lt (kins x l).
Proof.
  induction 1 as [|y r S IH F]; intros Hx; cbn [kins].
  - repeat constructor.
  - destruct (key_ltb x y) eqn:E.
    + constructor; [constructor; assumption|]. constructor; [exact E|].
      eapply Forall_impl; [|exact F]. intros z Hz. eapply key_lt_trans; [exact E|exact Hz].
    + constructor; [apply IH; intros H; apply Hx; now right|].
      eapply Permutation_Forall; [symmetry; apply kins_perm|]. constructor; [|exact F].
      apply key_total; [exact E|]. intros ->. apply Hx. now left.
Qed.

Lemma ksort_sorted l : StronglySorted key_lt (ksort l).
Proof.
  induction l as [|a l IH]; cbn [ksort fold_right]; [constructor|]. fold (ksort l). unfold kadd.
  destruct (existsb (key_eqb a) (ksort l)) eqn:E; [exact IH|].
  apply kins_sorted; [exact IH|]. intros H. apply existsb_key in H. congruence.
Qed.

Lemma ksort_ext l l' : (forall k, In k l <-> In k l') -> ksort l = ksort l'.
Proof.
  intros H. apply (sorted_perm_unique key_lt).
  - intros a b _ _ H1 H2. exfalso. eapply key_lt_asym; eassumption.
  - apply ksort_sorted.
  - apply ksort_sorted.
  - apply NoDup_Permutation; [apply ksort_nodup|apply ksort_nodup|].
    intros k. rewrite !ksort_in. apply H.
Qed.

Lemma seq_keys_perm s s' : seq_perm s s' -> seq_keys s = seq_keys s'.
Proof.
  intros P. unfold seq_keys. apply ksort_ext. intros k.
  assert (Pk : Permutation (map note_key (s_notes s) ++ map bend_key (s_bends s) ++ map cc_key (s_ccs s))
                           (map note_key (s_notes s') ++ map bend_key (s_bends s') ++ map cc_key (s_ccs s'))).
  { destruct P. repeat apply Permutation_app; now apply Permutation_map. }
  split; apply Permutation_in; [exact Pk|symmetry; exact Pk].
Qed.

(** * the instruments *)
Lemma build_rel s s' k : seq_perm s s' -> pinstr_rel (build s k) (build s' k).
Proof.
  intros []. unfold build, pinstr_rel. cbn. repeat split; apply Permutation_map, perm_filter; assumption.
Qed.

Lemma pinstr_rel_refl a : pinstr_rel a a.
Proof. unfold pinstr_rel. repeat split; reflexivity. Qed.

Lemma Forall2_app2 {A} (R : A -> A -> Prop) l1 l1' l2 l2' :
  Forall2 R l1 l1' -> Forall2 R l2 l2' -> Forall2 R (l1 ++ l2) (l1' ++ l2').
Proof. induction 1; cbn [app]; [trivial|]. intros. constructor; auto. Qed.

Lemma Forall2_rev2 {A} (R : A -> A -> Prop) l l' : Forall2 R l l' -> Forall2 R (rev l) (rev l').
Proof. induction 1; cbn [rev]; [constructor|]. apply Forall2_app2; [assumption|]. now repeat constructor. Qed.

Lemma assign_fold_rel s s' ks : seq_perm s s' -> forall f f' u app app',
  pinstr_rel f f' -> Forall2 pinstr_rel app app' ->
  let '(r1, _, a1) := fold_left (assign_step true s) ks (f, u, app) in
  let '(r2, _, a2) := fold_left (assign_step true s') ks (f', u, app') in
  pinstr_rel r1 r2 /\ Forall2 pinstr_rel a1 a2.
Proof.
  intros P. induction ks as [|k r IH]; intros f f' u app app' Hf Ha; cbn [fold_left].
  - split; assumption.
  - unfold assign_step at 2 4. destruct ((0 <? k_id k) || (true && u)).
    + apply IH; [exact Hf|]. constructor; [now apply build_rel|exact Ha].
    + apply IH; [now apply build_rel|exact Ha].
Qed.

Lemma write_instrs_rel s s' : seq_perm s s' -> Forall2 pinstr_rel (write_instrs true s) (write_instrs true s').
Proof.
  intros P. unfold write_instrs. rewrite <- (seq_keys_perm _ _ P).
  pose proof (assign_fold_rel s s' (seq_keys s) P empty_instr empty_instr false [] []
                (pinstr_rel_refl _) (Forall2_nil _)) as H.
  destruct (fold_left (assign_step true s) (seq_keys s) (empty_instr, false, [])) as [[r1 u1] a1].
  destruct (fold_left (assign_step true s') (seq_keys s) (empty_instr, false, [])) as [[r2 u2] a2].
  destruct H as [H1 H2]. constructor; [exact H1|]. now apply Forall2_rev2.
Qed.

Theorem perm_midi_write s s' : seq_perm s s' -> distinct_on tp_time (s_tempos s) ->
  pm_rel (write s) (write s').
Proof.
  intros P D. destruct (tempo_order_irrelevant s s' (sp_tempos _ _ P) D) as [U Sc].
  unfold write, write_gen, pm_rel. cbn [pm_res pm_u0 pm_scales pm_tsigs pm_ksigs pm_instrs].
  split; [unfold write_res; now rewrite (sp_tpq _ _ P)|].
  split; [exact U|]. split; [exact Sc|].
  split; [apply Permutation_map, (sp_tsigs _ _ P)|].
  split; [apply Permutation_map, (sp_ksigs _ _ P)|].
  now apply write_instrs_rel.
Qed.
