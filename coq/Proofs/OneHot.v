(** Proofs/OneHot.v — bijection theorems for the one-hot encodings (C09). *)
From Coq Require Import ZArith List Bool Lia ZifyBool.
From NS Require Import Gen.G09 Model.OneHot.
Import ListNotations.
Local Open Scope Z_scope.
Ltac Zify.zify_post_hook ::= Z.to_euclidean_division_equations.

(** * Melody: for every legal (min_note, max_note) *)
Ltac mel_unfold :=
  unfold mel_cfg_ok, mel_num_classes, mel_encode, mel_decode,
         NUM_SPECIAL_MELODY_EVENTS, MIN_MIDI_PITCH, MAX_MIDI_PITCH in *.

Ltac split_ifs :=
  repeat match goal with
         | H : context [if ?b then _ else _] |- _ => destruct b eqn:?; try discriminate H
         | |- context [if ?b then _ else _] => destruct b eqn:?
         end.

Lemma mel_dec_enc mn mx i :
  mel_cfg_ok mn mx = true -> 0 <= i < mel_num_classes mn mx ->
  mel_encode mn mx (mel_decode mn i) = Some i.
Proof.
  mel_unfold; intros Hc Hi. split_ifs; try (f_equal; lia); lia.
Qed.

Lemma mel_enc_range mn mx e c :
  mel_cfg_ok mn mx = true -> mel_encode mn mx e = Some c ->
  0 <= c < mel_num_classes mn mx.
Proof.
  mel_unfold; intros Hc He. split_ifs; inversion He; subst; lia.
Qed.

Lemma mel_enc_dec mn mx e c :
  mel_cfg_ok mn mx = true -> mel_encode mn mx e = Some c -> mel_decode mn c = e.
Proof.
  mel_unfold; intros Hc He. split_ifs; inversion He; subst; split_ifs; lia.
Qed.

(* every valid melody event (special or in range) is accepted, nothing else is *)
Lemma mel_enc_total mn mx e :
  mel_cfg_ok mn mx = true ->
  (mel_encode mn mx e <> None <-> (- NUM_SPECIAL_MELODY_EVENTS <= e < 0 \/ mn <= e < mx)).
Proof.
  mel_unfold; intros Hc. split_ifs; split; intros; try congruence; lia.
Qed.

(** * Event-range encodings: any list of non-empty ranges with distinct types *)
Definition rtype (r : range) : Z := fst (fst r).
Definition ranges_ok (rs : list range) : Prop :=
  Forall (fun r : range => snd (fst r) <= snd r) rs /\ NoDup (map rtype rs).

Lemma oh_num_classes_nonneg rs :
  Forall (fun r : range => snd (fst r) <= snd r) rs -> 0 <= oh_num_classes rs.
Proof.
  induction 1 as [|[[t mn] mx] r H _ IH]; cbn [oh_num_classes]; [lia|].
  cbn in H. lia.
Qed.

Lemma oh_encode_notin rs off ty v :
  ~ In ty (map rtype rs) -> oh_encode rs off ty v = None.
Proof.
  revert off; induction rs as [|[[t mn] mx] r IH]; intros off Hn; cbn [oh_encode]; [reflexivity|].
  cbn in Hn. destruct (t =? ty) eqn:E; [exfalso; apply Hn; left; lia|].
  apply IH. tauto.
Qed.

(* decode then encode: identity on every index of the class range *)
Lemma oh_dec_enc rs : ranges_ok rs -> forall off i,
  off <= i < off + oh_num_classes rs ->
  exists t v, oh_decode rs off i = Some (t, v) /\ oh_encode rs off t v = Some i /\
              exists mn mx, In (t, mn, mx) rs /\ mn <= v <= mx.
Proof.
  intros [Hne Hnd]. induction rs as [|[[t mn] mx] r IH]; intros off i Hi.
  - cbn in Hi. lia.
  - cbn [oh_num_classes] in Hi. cbn [oh_decode oh_encode].
    inversion Hne as [|? ? Hh Ht]; subst. cbn in Hh.
    inversion Hnd as [|? ? Hnotin Hnd']; subst.
    destruct ((off <=? i) && (i <=? off + mx - mn)) eqn:E.
    + exists t, (mn + i - off). split; [reflexivity|].
      rewrite Z.eqb_refl. split; [f_equal; lia|].
      exists mn, mx. split; [left; reflexivity | lia].
    + destruct (IH Ht Hnd' (off + (mx - mn + 1)) i) as (t' & v' & Hd & He & mn' & mx' & Hin & Hv); [lia|].
      exists t', v'. split; [exact Hd|]. split.
      * destruct (t =? t') eqn:Et.
        -- exfalso. apply Hnotin. apply Z.eqb_eq in Et. subst t'.
           apply (in_map rtype) in Hin. exact Hin.
        -- exact He.
      * exists mn', mx'. split; [right; exact Hin | exact Hv].
Qed.

(* encode then decode: identity on every valid event, and the index is in range *)
Lemma oh_enc_dec rs : ranges_ok rs -> forall off t mn mx v,
  In (t, mn, mx) rs -> mn <= v <= mx ->
  exists c, oh_encode rs off t v = Some c /\ off <= c < off + oh_num_classes rs /\
            oh_decode rs off c = Some (t, v).
Proof.
  intros [Hne Hnd]. induction rs as [|[[t0 mn0] mx0] r IH]; intros off t mn mx v Hin Hv.
  - destruct Hin.
  - inversion Hne as [|? ? Hh Ht]; subst. cbn in Hh.
    inversion Hnd as [|? ? Hnotin Hnd']; subst.
    pose proof (oh_num_classes_nonneg r Ht) as Hnn.
    cbn [oh_num_classes oh_encode oh_decode].
    destruct Hin as [Heq | Hin].
    + inversion Heq; subst. rewrite Z.eqb_refl.
      exists (off + v - mn). split; [reflexivity|]. split; [lia|].
      destruct ((off <=? off + v - mn) && (off + v - mn <=? off + mx - mn)) eqn:E; [f_equal; f_equal; lia | lia].
    + destruct (t0 =? t) eqn:Et.
      * exfalso. apply Hnotin. apply Z.eqb_eq in Et. subst t0.
        apply (in_map rtype) in Hin. exact Hin.
      * destruct (IH Ht Hnd' (off + (mx0 - mn0 + 1)) t mn mx v Hin Hv) as (c & He & Hc & Hd).
        exists c. split; [exact He|]. split; [lia|].
        destruct ((off <=? c) && (c <=? off + mx0 - mn0)) eqn:E; [lia | exact Hd].
Qed.

(** Instance: PerformanceOneHotEncoding, every configuration *)
Definition perf_cfg_ok (nb ms minp maxp : Z) : Prop := 0 <= nb /\ 1 <= ms /\ minp <= maxp.

Lemma perf_ranges_ok nb ms minp maxp :
  perf_cfg_ok nb ms minp maxp -> ranges_ok (perf_ranges nb ms minp maxp).
Proof.
  intros (Hnb & Hms & Hp). unfold perf_ranges, ranges_ok.
  destruct (0 <? nb) eqn:E; cbn [app map rtype fst snd]; split.
  - repeat constructor; cbn; lia.
  - unfold EV_NOTE_ON, EV_NOTE_OFF, EV_TIME_SHIFT, EV_VELOCITY.
    repeat constructor; cbn; intuition lia.
  - repeat constructor; cbn; lia.
  - unfold EV_NOTE_ON, EV_NOTE_OFF, EV_TIME_SHIFT.
    repeat constructor; cbn; intuition lia.
Qed.

Definition perf_valid (nb ms minp maxp ty v : Z) : Prop :=
  (ty = EV_NOTE_ON /\ minp <= v <= maxp) \/ (ty = EV_NOTE_OFF /\ minp <= v <= maxp) \/
  (ty = EV_TIME_SHIFT /\ 1 <= v <= ms) \/ (ty = EV_VELOCITY /\ 0 < nb /\ 1 <= v <= nb).

Lemma perf_valid_in nb ms minp maxp ty v :
  perf_valid nb ms minp maxp ty v ->
  exists mn mx, In (ty, mn, mx) (perf_ranges nb ms minp maxp) /\ mn <= v <= mx.
Proof.
  unfold perf_valid, perf_ranges. intros [[-> H]|[[-> H]|[[-> H]|[-> [Hnb H]]]]].
  - exists minp, maxp. split; [left; reflexivity | exact H].
  - exists minp, maxp. split; [right; left; reflexivity | exact H].
  - exists 1, ms. split; [right; right; left; reflexivity | exact H].
  - exists 1, nb. split; [|exact H].
    destruct (0 <? nb) eqn:E; [|lia]. right; right; right; left; reflexivity.
Qed.

Lemma perf_in_valid nb ms minp maxp ty mn mx v :
  In (ty, mn, mx) (perf_ranges nb ms minp maxp) -> mn <= v <= mx ->
  perf_valid nb ms minp maxp ty v.
Proof.
  unfold perf_valid, perf_ranges. intros Hin Hv.
  destruct (0 <? nb) eqn:E; cbn [app In] in Hin;
  repeat (destruct Hin as [Hin|Hin]; [inversion Hin; subst; clear Hin|]); try destruct Hin; try tauto.
  right; right; right. repeat split; lia.
Qed.

Lemma perf_dec_enc nb ms minp maxp i :
  perf_cfg_ok nb ms minp maxp ->
  0 <= i < oh_num_classes (perf_ranges nb ms minp maxp) ->
  exists t v, oh_decode (perf_ranges nb ms minp maxp) 0 i = Some (t, v) /\
              oh_encode (perf_ranges nb ms minp maxp) 0 t v = Some i /\
              perf_valid nb ms minp maxp t v.
Proof.
  intros Hc Hi.
  destruct (oh_dec_enc _ (perf_ranges_ok _ _ _ _ Hc) 0 i) as (t & v & Hd & He & mn & mx & Hin & Hv); [lia|].
  exists t, v. repeat split; try assumption. eapply perf_in_valid; eassumption.
Qed.

Lemma perf_enc_dec nb ms minp maxp ty v :
  perf_cfg_ok nb ms minp maxp -> perf_valid nb ms minp maxp ty v ->
  exists c, oh_encode (perf_ranges nb ms minp maxp) 0 ty v = Some c /\
            0 <= c < oh_num_classes (perf_ranges nb ms minp maxp) /\
            oh_decode (perf_ranges nb ms minp maxp) 0 c = Some (ty, v).
Proof.
  intros Hc Hv. destruct (perf_valid_in _ _ _ _ _ _ Hv) as (mn & mx & Hin & Hr).
  destruct (oh_enc_dec _ (perf_ranges_ok _ _ _ _ Hc) 0 ty mn mx v Hin Hr) as (c & He & Hcr & Hd).
  exists c. repeat split; try assumption; lia.
Qed.

Lemma perf_num_classes nb ms minp maxp :
  0 <= nb -> oh_num_classes (perf_ranges nb ms minp maxp) = 2 * (maxp - minp + 1) + ms + nb.
Proof.
  intros H. unfold perf_ranges. destruct (0 <? nb) eqn:E; cbn [app oh_num_classes]; lia.
Qed.

(** * Velocity bins: for every bin count 1..127 and velocity 1..127 *)
Ltac vel_unfold := unfold vel_to_bin, bin_to_vel, bin_size, vel_range, MIN_MIDI_VELOCITY, MAX_MIDI_VELOCITY in *.

Lemma bin_size_pos nb : 1 <= nb <= 127 -> 1 <= bin_size nb /\ 127 <= nb * bin_size nb.
Proof. vel_unfold. intros H. nia. Qed.

Lemma vel_bin_range nb v : 1 <= nb <= 127 -> 1 <= v <= 127 -> 1 <= vel_to_bin v nb <= nb.
Proof.
  intros Hnb Hv. destruct (bin_size_pos nb Hnb) as [H1 H2].
  unfold vel_to_bin, MIN_MIDI_VELOCITY. set (bs := bin_size nb) in *.
  assert (0 <= (v - 1) / bs) by (apply Z.div_pos; lia).
  assert ((v - 1) / bs < nb).
  { apply Z.div_lt_upper_bound; nia. }
  lia.
Qed.

Lemma vel_bin_mono nb v1 v2 : 1 <= nb <= 127 -> v1 <= v2 -> vel_to_bin v1 nb <= vel_to_bin v2 nb.
Proof.
  intros Hnb Hv. destruct (bin_size_pos nb Hnb) as [H1 _].
  unfold vel_to_bin. set (bs := bin_size nb) in *.
  assert ((v1 - MIN_MIDI_VELOCITY) / bs <= (v2 - MIN_MIDI_VELOCITY) / bs) by (apply Z.div_le_mono; lia).
  lia.
Qed.

Lemma bin_vel_right_inverse nb b : 1 <= nb <= 127 -> vel_to_bin (bin_to_vel b nb) nb = b.
Proof.
  intros Hnb. destruct (bin_size_pos nb Hnb) as [H1 _].
  unfold vel_to_bin, bin_to_vel, MIN_MIDI_VELOCITY. set (bs := bin_size nb) in *.
  replace (1 + (b - 1) * bs - 1) with ((b - 1) * bs) by lia.
  rewrite Z.div_mul by lia. lia.
Qed.

Lemma bin_vel_lower_bound nb v : 1 <= nb <= 127 -> 1 <= v <= 127 ->
  bin_to_vel (vel_to_bin v nb) nb <= v < bin_to_vel (vel_to_bin v nb) nb + bin_size nb.
Proof.
  intros Hnb Hv. destruct (bin_size_pos nb Hnb) as [H1 _].
  unfold vel_to_bin, bin_to_vel, MIN_MIDI_VELOCITY. set (bs := bin_size nb) in *.
  pose proof (Z.div_mod (v - 1) bs ltac:(lia)) as Hdm.
  pose proof (Z.mod_pos_bound (v - 1) bs ltac:(lia)) as Hm.
  nia.
Qed.

(** * Multi-drum *)
Lemma fold_pow_bound (f : nat -> bool) n :
  0 <= fold_right Z.add 0 (map (fun i => if f i then 2 ^ Z.of_nat i else 0) (range_nat n)) < 2 ^ Z.of_nat n.
Proof.
  induction n as [|k IH].
  - cbn. lia.
  - cbn [range_nat]. rewrite map_app, fold_right_app. cbn [map fold_right].
    replace (2 ^ Z.of_nat (S k)) with (2 * 2 ^ Z.of_nat k) by (rewrite Nat2Z.inj_succ, Z.pow_succ_r; lia).
    assert (Hp : 0 < 2 ^ Z.of_nat k) by (apply Z.pow_pos_nonneg; lia).
    assert (Hgen : forall l a, fold_right Z.add a l = fold_right Z.add 0 l + a).
    { induction l as [|x l IHl]; intros a; cbn; [lia | rewrite IHl; lia]. }
    rewrite Hgen. destruct (f k); lia.
Qed.

(* any pitch set, any drum table: the class index is in [0, 2^types) *)
Lemma drum_enc_range types ign ev c :
  drum_encode types ign ev = Some c -> 0 <= c < drum_num_classes types.
Proof.
  unfold drum_encode, drum_num_classes.
  destruct (negb ign && _); [discriminate|].
  intros H; inversion H; subst; clear H.
  apply (fold_pow_bound (fun i => existsb (fun o => match o with Some j => Nat.eqb i j | None => false end)
                                    (map (drum_lookup types 0) ev))).
Qed.

Fixpoint zrange (n : nat) : list Z :=
  match n with O => [] | S k => zrange k ++ [Z.of_nat k] end.

Lemma zrange_in n i : 0 <= i < Z.of_nat n -> In i (zrange n).
Proof.
  induction n as [|k IH]; intros H; [lia|].
  cbn [zrange]. apply in_or_app.
  destruct (Z.eq_dec i (Z.of_nat k)); [right; left; congruence | left; apply IH; lia].
Qed.

Definition drum_default_check : bool :=
  forallb (fun i => match drum_encode DEFAULT_DRUM_TYPE_PITCHES true (drum_decode DEFAULT_DRUM_TYPE_PITCHES i) with
                    | Some c => c =? i | None => false end
                    && match drum_encode DEFAULT_DRUM_TYPE_PITCHES false (drum_decode DEFAULT_DRUM_TYPE_PITCHES i) with
                    | Some c => c =? i | None => false end)
          (zrange (Z.to_nat (drum_num_classes DEFAULT_DRUM_TYPE_PITCHES))).

Lemma drum_default_check_true : drum_default_check = true.
Proof. vm_compute. reflexivity. Qed.

(* complete enumeration of the class range of the table the code ships *)
Lemma drum_dec_enc_default ign i :
  0 <= i < drum_num_classes DEFAULT_DRUM_TYPE_PITCHES ->
  drum_encode DEFAULT_DRUM_TYPE_PITCHES ign (drum_decode DEFAULT_DRUM_TYPE_PITCHES i) = Some i.
Proof.
  intros Hi. pose proof drum_default_check_true as H. unfold drum_default_check in H.
  rewrite forallb_forall in H. specialize (H i).
  assert (Hin : In i (zrange (Z.to_nat (drum_num_classes DEFAULT_DRUM_TYPE_PITCHES)))).
  { apply zrange_in. rewrite Z2Nat.id; [exact Hi | lia]. }
  specialize (H Hin). apply andb_prop in H. destruct H as [Ht Hf].
  destruct ign.
  - destruct (drum_encode _ true _) as [c|]; [|discriminate]. f_equal. lia.
  - destruct (drum_encode _ false _) as [c|]; [|discriminate]. f_equal. lia.
Qed.

(* encode . decode . encode = encode: decoding yields a canonical representative
   with the same drum classes *)
Lemma drum_enc_dec_canonical ign ev c :
  drum_encode DEFAULT_DRUM_TYPE_PITCHES ign ev = Some c ->
  drum_encode DEFAULT_DRUM_TYPE_PITCHES ign (drum_decode DEFAULT_DRUM_TYPE_PITCHES c) = Some c.
Proof.
  intros H. apply drum_dec_enc_default. eapply drum_enc_range; eassumption.
Qed.

(** * Note density: strictly increasing positive boundaries *)
Fixpoint strictly_inc (lo : Z) (bs : list Z) : Prop :=
  match bs with [] => True | b :: r => lo < b /\ strictly_inc b r end.

Lemma dens_encode_from_range bs idx e :
  idx <= dens_encode_from bs idx e <= idx + Z.of_nat (length bs).
Proof.
  revert idx; induction bs as [|b r IH]; intros idx; cbn [dens_encode_from length]; [lia|].
  destruct (e <? b); [lia|]. specialize (IH (idx + 1)). lia.
Qed.

Lemma dens_enc_range bs e : 0 <= dens_encode bs e < dens_num_classes bs.
Proof.
  unfold dens_encode, dens_num_classes. pose proof (dens_encode_from_range bs 0 e). lia.
Qed.

Lemma strictly_inc_nth_gt r : forall b k,
  strictly_inc b r -> (k < length r)%nat -> b < nth k r 0.
Proof.
  induction r as [|x r IHr]; intros b k Hs Hk; cbn [length] in Hk; [lia|].
  destruct Hs as [Hx Hs]. destruct k as [|k]; cbn [nth]; [lia|].
  specialize (IHr x k Hs). lia.
Qed.

Lemma dens_encode_from_nth bs : forall lo idx k,
  strictly_inc lo bs -> (k < length bs)%nat ->
  dens_encode_from bs idx (nth k bs 0) = idx + Z.of_nat k + 1.
Proof.
  induction bs as [|b r IH]; intros lo idx k Hs Hk; cbn [length] in Hk; [lia|].
  destruct Hs as [Hlo Hs]. cbn [dens_encode_from].
  destruct k as [|k].
  - cbn [nth]. destruct (b <? b) eqn:E; [lia|].
    destruct r as [|b2 r2]; cbn [dens_encode_from]; [lia|].
    destruct Hs as [Hb2 _]. destruct (b <? b2) eqn:E2; lia.
  - cbn [nth].
    assert (Hgt : b < nth k r 0) by (apply strictly_inc_nth_gt; [exact Hs | lia]).
    destruct (nth k r 0 <? b) eqn:E; [lia|].
    rewrite (IH b (idx + 1) k Hs) by lia. lia.
Qed.

Lemma dens_dec_enc bs i :
  strictly_inc 0 bs -> 0 <= i < dens_num_classes bs -> dens_encode bs (dens_decode bs i) = i.
Proof.
  unfold dens_num_classes, dens_decode, dens_encode. intros Hs Hi.
  destruct (i =? 0) eqn:E.
  - assert (i = 0) by lia. subst i. destruct bs as [|b r]; cbn [dens_encode_from]; [reflexivity|].
    destruct Hs as [Hb _]. destruct (0 <? b) eqn:E2; lia.
  - rewrite (dens_encode_from_nth bs 0 0 (Z.to_nat (i - 1)) Hs) by lia. lia.
Qed.

(* the decoded value is the lower bound of the bin the event falls in *)
Lemma dens_lower_bound bs : forall lo idx e,
  strictly_inc lo bs -> lo <= e ->
  let c := dens_encode_from bs idx e in
  (c = idx \/ (idx < c /\ nth (Z.to_nat (c - idx - 1)) bs 0 <= e)).
Proof.
  induction bs as [|b r IH]; intros lo idx e Hs He; cbn [dens_encode_from]; [left; reflexivity|].
  destruct Hs as [Hlo Hs]. destruct (e <? b) eqn:E; [left; reflexivity|].
  right. pose proof (dens_encode_from_range r (idx + 1) e) as Hr.
  split; [lia|].
  destruct (IH b (idx + 1) e Hs ltac:(lia)) as [Heq | [Hlt Hn]].
  - rewrite Heq. replace (idx + 1 - idx - 1) with 0 by lia. cbn. lia.
  - replace (Z.to_nat (dens_encode_from r (idx + 1) e - idx - 1))
      with (S (Z.to_nat (dens_encode_from r (idx + 1) e - (idx + 1) - 1))) by lia.
    cbn [nth]. exact Hn.
Qed.

Lemma dens_enc_dec_lower bs e :
  strictly_inc 0 bs -> 0 <= e -> dens_decode bs (dens_encode bs e) <= e.
Proof.
  intros Hs He. unfold dens_decode, dens_encode.
  destruct (dens_lower_bound bs 0 0 e Hs He) as [Heq | [Hlt Hn]].
  - rewrite Heq. cbn. exact He.
  - destruct (dens_encode_from bs 0 e =? 0) eqn:E; [lia|].
    replace (dens_encode_from bs 0 e - 1) with (dens_encode_from bs 0 e - 0 - 1) by lia. exact Hn.
Qed.
