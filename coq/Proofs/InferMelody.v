(** Proofs/InferMelody.v — linking the Viterbi path, the frame summaries and the
    written melody notes (C19): every melody note written for a path of finite
    log-likelihood starts exactly where a real note of the same pitch starts. *)
From Coq Require Import ZArith List Bool Lia Arith.
From NS Require Import Model.Viterbi Model.InferWrite Proofs.Viterbi Proofs.InferWrite.
Import ListNotations.
Local Open Scope Z_scope.

Lemma xadd_some a b : xadd a b <> None -> a <> None /\ b <> None.
Proof. destruct a, b; cbn; intros H; split; congruence. Qed.

(* a path of finite score only visits states whose emission (initial score for
   the first frame) is finite; lists most-recent-first as in [score] *)
Lemma score_x_finite_emits init cols : forall fr p,
  length p = Datatypes.S (length fr) -> score_x init cols fr p <> None ->
  forall j e, In (j, e) (combine p (fr ++ [init])) -> nth j e None <> None.
Proof.
  induction fr as [|e0 fr IH]; intros p Hl Hs j e Hin.
  - destruct p as [|a [|b q]]; cbn in Hl; try lia. cbn in Hin. destruct Hin as [Heq|[]].
    inversion Heq; subst. exact Hs.
  - destruct p as [|a [|b q]]; cbn in Hl; try lia.
    unfold score_x in Hs. cbn [score] in Hs.
    apply xadd_some in Hs. destruct Hs as [Hs He]. apply xadd_some in Hs. destruct Hs as [Hs _].
    cbn [app combine] in Hin. destruct Hin as [Heq|Hin].
    + inversion Heq; subst. exact He.
    + apply (IH (b :: q)); [cbn in *; lia | exact Hs | exact Hin].
Qed.

Lemma combine_snoc {A B} (a : list A) (b : list B) x y :
  length a = length b -> combine (a ++ [x]) (b ++ [y]) = combine a b ++ [(x, y)].
Proof.
  revert b; induction a as [|u a IH]; intros [|v b] H; cbn in H; try lia; [reflexivity|].
  cbn. f_equal. apply IH. lia.
Qed.

Lemma combine_rev {A B} (a : list A) : forall (b : list B),
  length a = length b -> combine (rev a) (rev b) = rev (combine a b).
Proof.
  induction a as [|u a IH]; intros [|v b] H; cbn in H; try lia; [reflexivity|].
  cbn [rev combine]. rewrite combine_snoc by (rewrite !rev_length; lia). rewrite IH by lia. reflexivity.
Qed.

Lemma map2_xadd_some a : forall b j, nth j (map2 xadd a b) None <> None -> nth j b None <> None.
Proof.
  induction a as [|x a IH]; intros [|y b] j H; cbn in H; try (destruct j; cbn in H; congruence).
  destruct j; cbn in *.
  - apply xadd_some in H. apply H.
  - apply IH. exact H.
Qed.

(* forward orientation, melody initialisation: emission rows e0 :: frames *)
Lemma melody_finite_path_emits cols e0 frames path :
  length path = Datatypes.S (length frames) ->
  score_x (melody_init cols e0) cols (rev frames) (rev path) <> None ->
  forall j e, In (j, e) (combine path (e0 :: frames)) -> nth j e None <> None.
Proof.
  intros Hl Hs j e Hin.
  set (init := melody_init cols e0) in *.
  assert (H : forall j e, In (j, e) (combine path (init :: frames)) -> nth j e None <> None).
  { intros j0 e1 H0. apply (score_x_finite_emits init cols (rev frames) (rev path)).
    - rewrite !rev_length. exact Hl.
    - exact Hs.
    - replace (rev frames ++ [init]) with (rev (init :: frames)) by reflexivity.
      rewrite combine_rev by (cbn; lia). apply in_rev in H0. exact H0. }
  destruct path as [|a q]; [destruct Hin|]. cbn [combine] in *. destruct Hin as [Heq|Hin].
  - inversion Heq; subst. specialize (H j init (or_introl eq_refl)).
    unfold init, melody_init in H. apply map2_xadd_some in H. exact H.
  - apply H. right. exact Hin.
Qed.

Lemma In_combine_nth_error {A B} (a : list A) : forall (b : list B) x y,
  In (x, y) (combine a b) -> exists f, nth_error a f = Some x /\ nth_error b f = Some y.
Proof.
  induction a as [|u a IH]; intros [|v b] x y H; cbn in H; try (destruct H; fail).
  destruct H as [H|H].
  - inversion H; subst. exists 0%nat. split; reflexivity.
  - destruct (IH b x y H) as (f & H1 & H2). exists (Datatypes.S f). split; assumption.
Qed.

Lemma nth_error_combine {A B} (a : list A) : forall (b : list B) f x y,
  nth_error a f = Some x -> nth_error b f = Some y -> In (x, y) (combine a b).
Proof.
  induction a as [|u a IH]; intros [|v b] f x y H1 H2; destruct f; cbn in *; try discriminate.
  - inversion H1; inversion H2; subst. left. reflexivity.
  - right. eapply IH; eassumption.
Qed.

Lemma index_to_event_onset pitches j p :
  index_to_event pitches j = Onset p ->
  exists k, j = Datatypes.S k /\ (k < length pitches)%nat /\ p = nth k pitches 0.
Proof.
  unfold index_to_event. destruct j as [|k]; [discriminate|].
  destruct (Nat.leb (Datatypes.S k) (length pitches)) eqn:E; [|discriminate].
  intros H. inversion H; subst. apply Nat.leb_le in E. exists k. repeat split. lia.
Qed.

(** The "start at onsets of real notes of the same pitch" clause, with the one
    un-modelled step as an explicit hypothesis: _melody_frame_log_likelihood
    gives log 0 = -inf to an onset state in a frame that has no onset of its
    pitch (checked on every end-to-end case by the harness). *)
Theorem melody_notes_start_at_real_notes notes total cols e0 frames path ns :
  (forall n, In n notes -> 0 <= f_start n /\ 0 <= f_end n <= total) ->
  let fn := frame_notes notes total in
  let et := note_event_times fn total in
  let pitches := note_pitches fn in
  (forall f k, (k < length pitches)%nat -> has_onset fn et f (nth k pitches 0) = false ->
               nth (Datatypes.S k) (nth f (e0 :: frames) []) None = None) ->
  length path = Datatypes.S (length frames) ->
  score_x (melody_init cols e0) cols (rev frames) (rev path) <> None ->
  infer_melody_write (map (index_to_event pitches) path) notes total = Some ns ->
  forall n, In n ns ->
    exists r, In r notes /\ melodic total r = true /\ f_pitch r = m_pitch n /\ f_start r = m_start n.
Proof.
  intros Hr fn et pitches Hstruct Hl Hs Hw n Hn.
  destruct (infer_melody_write_wf _ notes total ns Hr Hw) as [_ Hon].
  specialize (Hon n Hn). fold fn in Hon. fold et in Hon.
  apply In_combine_nth_error in Hon. destruct Hon as (f & He & Ht).
  rewrite nth_error_map in He. destruct (nth_error path f) as [j|] eqn:Ej; [|discriminate].
  cbn in He. inversion He as [He']. clear He.
  apply index_to_event_onset in He'. destruct He' as (k & -> & Hk & Hp).
  assert (Hf : (f < length (e0 :: frames))%nat).
  { cbn [length]. rewrite <- Hl. apply nth_error_Some. congruence. }
  destruct (nth_error (e0 :: frames) f) as [e|] eqn:Ee; [|apply nth_error_None in Ee; lia].
  pose proof (nth_error_combine _ _ f _ _ Ej Ee) as Hin.
  pose proof (melody_finite_path_emits cols e0 frames path Hl Hs _ _ Hin) as Hfin.
  assert (Enth : nth f (e0 :: frames) [] = e) by (apply nth_error_nth; exact Ee).
  destruct (has_onset fn et f (nth k pitches 0)) eqn:Eo.
  - destruct (onset_frame_starts_at_note notes total f (nth k pitches 0) Hr Eo) as (r & H1 & H2 & H3 & H4).
    exists r. repeat split; try assumption; [congruence|].
    fold fn in H4. fold et in H4. rewrite <- H4. apply nth_error_nth with (d := 0) in Ht. exact Ht.
  - exfalso. apply Hfin. rewrite <- Enth. apply Hstruct; assumption.
Qed.
