(** Proofs/ChordSymMain.v — assembly of the 4 enumeration shards and the C15 theorems. *)
From Coq Require Import ZArith List Bool.
From NS Require Import Gen.G15 Model.ChordSym Proofs.ChordSym.
From NS Require Import Proofs.ChordSymS0 Proofs.ChordSymS1 Proofs.ChordSymS2 Proofs.ChordSymS3.
Import ListNotations.
Local Open Scope Z_scope.

Lemma all_sets_checked : forallb check_set all_sets = true.
Proof.
  rewrite all_sets_split, forallb_flat_map. cbn [subs map app forallb].
  rewrite shard_S0_ok, shard_S1_ok, shard_S2_ok, shard_S3_ok.
  reflexivity.
Qed.

(** ** C15 core: the round trip, for every non-empty list of integers *)
Theorem name_roundtrip : forall pitches, pitches <> [] ->
  exists m, In m pitches /\ (forall x, In x pitches -> m <= x) /\
            RT (pcs_of pitches) (m mod 12) (name_pitches pitches).
Proof. exact (name_roundtrip_from_enumeration all_sets_checked). Qed.

Lemma name_empty : name_pitches [] = Ok NoChord /\ render NoChord = NO_CHORD.
Proof. split; reflexivity. Qed.

(** every produced name is accepted by the interpreter, and is a symbol the regex can deliver *)
Theorem names_parse : forall pitches s, name_pitches pitches = Ok (Fig s) ->
  sym_lexable s = true /\
  exists d r b ps q, sym_degrees s = Ok d /\ sym_root s = Ok r /\ sym_bass s = Ok b /\
                     sym_pitches s = Ok ps /\ sym_quality s = Ok q.
Proof.
  intros pitches s Hn.
  assert (Hne : pitches <> []) by (intros ->; cbn in Hn; discriminate).
  destruct (name_roundtrip pitches Hne) as [m [_ [_ H]]]. rewrite Hn in H. cbn [RT] in H.
  destruct H as [ps [Hp [Hb _]]].
  pose proof Hp as Hp'. unfold sym_pitches, bind in Hp'.
  destruct (sym_degrees s) as [d|] eqn:Hd; [|discriminate].
  destruct (sym_root s) as [r|] eqn:Hr; [|discriminate].
  assert (Hq : exists q, sym_quality s = Ok q).
  { unfold sym_quality, bind. rewrite Hd.
    destruct (dict_get d 1); [|eexists; reflexivity].
    destruct (dict_get d 3); [|eexists; reflexivity].
    destruct (dict_get d 5); [|eexists; reflexivity].
    repeat match goal with |- context [if ?c then _ else _] => destruct c end; eexists; reflexivity. }
  destruct Hq as [q Hq]. split.
  - unfold sym_lexable, step_ok.
    unfold sym_root, pitch_class_to_midi in Hr.
    destruct (dict_get STEPS_MIDI (fst (s_root s))); [|discriminate].
    unfold sym_bass in Hb. destruct (s_bass s) as [bp|].
    + unfold pitch_class_to_midi in Hb. destruct (dict_get STEPS_MIDI (fst bp)); [|discriminate].
      unfold sym_degrees, bind, parse_kind in Hd. destruct (lookup_mods (s_mods s)); [|discriminate].
      destruct (sdict_get KINDS_BY_ABBREV (s_kind s)); [reflexivity|discriminate].
    + unfold sym_degrees, bind, parse_kind in Hd. destruct (lookup_mods (s_mods s)); [|discriminate].
      destruct (sdict_get KINDS_BY_ABBREV (s_kind s)); [reflexivity|discriminate].
  - exists d, r, (m mod 12), ps, q. repeat split; assumption.
Qed.

(** ** C15 core: consistency of the interpreter, for every structured symbol *)
Theorem parse_consistent : forall s,
  (forall r, sym_root s = Ok r -> 0 <= r < 12) /\
  (forall b, sym_bass s = Ok b -> 0 <= b < 12) /\
  (forall ps x, sym_pitches s = Ok ps -> In x ps -> 0 <= x < 12) /\
  (forall q r ps, sym_quality s = Ok q -> sym_root s = Ok r -> sym_pitches s = Ok ps ->
     (q = CHORD_QUALITY_MAJOR -> triad_in r 4 7 ps) /\
     (q = CHORD_QUALITY_MINOR -> triad_in r 3 7 ps) /\
     (q = CHORD_QUALITY_AUGMENTED -> triad_in r 4 8 ps) /\
     (q = CHORD_QUALITY_DIMINISHED -> triad_in r 3 6 ps)).
Proof.
  intros s. split; [apply sym_root_range|]. split; [apply sym_bass_range|].
  split; [apply sym_pitches_range|]. apply quality_triad.
Qed.

(** ** Examples *)
Definition str (l : list Z) := l.

Example ex_c_major : option_map render (match name_pitches [60; 64; 67] with Ok f => Some f | Err _ => None end)
                     = Some [67].                                           (* "C" *)
Proof. vm_compute. reflexivity. Qed.

(* the probe witness of F13: {C, Db} over Db.  The repaired namer writes "Dbped(add#7)". *)
Example ex_f13_witness :
  match name_pitches [12; 1] with
  | Ok (Fig s) => render_sym s = [68; 98; 112; 101; 100; 40; 97; 100; 100; 35; 55; 41] /\
                  sym_pitches s = Ok [1; 0] /\ sym_bass s = Ok 1
  | _ => False
  end.
Proof. vm_compute. repeat split; reflexivity. Qed.

Example ex_unnameable : name_pitches [60; 61; 62; 63; 64; 65; 66; 67; 68; 69; 70; 71] = Err E_ChordSymbol.
Proof. vm_compute. reflexivity. Qed.

(* the name (not its meaning) depends on the order in which the pitches are listed:
   "Cped(addb2)(add6)" vs "Cped(add6)(addb2)" *)
Example ex_name_depends_on_list_order :
  name_pitches [48; 61; 69] <> name_pitches [48; 69; 61] /\
  (forall x, In x (pcs_of [48; 61; 69]) <-> In x (pcs_of [48; 69; 61])).
Proof. split; [vm_compute; discriminate|]. intros x. cbn. tauto. Qed.

(* the interpreter reads an added 7th relative to the flat 7th *)
Example ex_add7_is_flat_seventh :
  sym_pitches (mkSym (CH_C, 0) [112; 101; 100] [([97; 100; 100], 7)] None) = Ok [0; 10].
Proof. vm_compute. reflexivity. Qed.

(** ** The code as found in /repo (before notes/C15-fix-1.diff and C15-fix-2.diff) *)
Lemma name_pitches_v_fixed : forall pitches, name_pitches_v true true pitches = name_pitches pitches.
Proof. intros [|p0 tl]; reflexivity. Qed.

(* the round-trip statement for a variant of the namer *)
Definition roundtrip_holds (name : list Z -> res figure) : Prop :=
  forall pitches, pitches <> [] ->
  exists m, In m pitches /\ (forall x, In x pitches -> m <= x) /\ RT (pcs_of pitches) (m mod 12) (name pitches).

Ltac refute_with w :=
  intros H; destruct (H w ltac:(discriminate)) as [m [Hin [_ HRT]]];
  vm_compute in HRT; destruct HRT as [ps [Hp [Hb Hx]]]; injection Hp as <-;
  repeat (destruct Hin as [<-|Hin]; [try discriminate Hb | ]); try contradiction.

(* as found: {C, Db} over Db is named "Dbped(add7)", which denotes {Db, B} *)
Lemma as_found_refuted : ~ roundtrip_holds (name_pitches_v false false).
Proof.
  refute_with [12; 1]. destruct (proj2 (Hx 0) ltac:(cbn; tauto)) as [[?|[?|[]]]|?]; discriminate.
Qed.

(* only the bass index repaired: same witness *)
Lemma fix1_only_refuted : ~ roundtrip_holds (name_pitches_v true false).
Proof.
  refute_with [12; 1]. destruct (proj2 (Hx 0) ltac:(cbn; tauto)) as [[?|[?|[]]]|?]; discriminate.
Qed.

(* only the added seventh repaired: D F# A E over D is named "D", the E is lost *)
Lemma fix2_only_refuted : ~ roundtrip_holds (name_pitches_v false true).
Proof.
  refute_with [62; 66; 69; 76]. destruct (proj2 (Hx 4) ltac:(cbn; tauto)) as [[?|[?|[?|[]]]]|?]; discriminate.
Qed.

Lemma fixed_holds : roundtrip_holds (name_pitches_v true true).
Proof. intros pitches Hne. rewrite name_pitches_v_fixed. exact (name_roundtrip pitches Hne). Qed.
