(** Proofs/ChordSym.v — general lemmas for C15: list enumeration (subsets,
    permutations), the set-order model, soundness of the boolean round-trip
    check, the lifting from arbitrary pitch lists to the enumerated domain, and
    consistency of the interpreter for every structured symbol. *)
From Coq Require Import ZArith List Bool Lia Permutation.
From NS Require Import Gen.G15 Model.ChordSym.
Import ListNotations.
Local Open Scope Z_scope.

(** * Small facts *)
Lemma zmem_In : forall x l, zmem x l = true <-> In x l.
Proof.
  intros x l. unfold zmem. rewrite existsb_exists. split.
  - intros [y [Hy He]]. apply Z.eqb_eq in He. subst. exact Hy.
  - intros H. exists x. split; [exact H | apply Z.eqb_refl].
Qed.

Lemma zmem_false : forall x l, zmem x l = false <-> ~ In x l.
Proof.
  intros x l. rewrite <- zmem_In. destruct (zmem x l); split; intros; congruence.
Qed.

(** * dedup: first occurrences, in order *)
Lemma dedup_go_spec : forall l seen,
  (forall x, In x (dedup_go seen l) <-> In x l /\ ~ In x seen) /\ NoDup (dedup_go seen l).
Proof.
  induction l as [|a l IH]; intros seen; cbn [dedup_go].
  - split; [intros x; cbn; tauto | constructor].
  - destruct (zmem a seen) eqn:Hm.
    + apply zmem_In in Hm. destruct (IH seen) as [H1 H2]. split; [|exact H2].
      intros x. rewrite H1. cbn. split; [tauto|]. intros [[->|Hx] Hn]; [contradiction|tauto].
    + apply zmem_false in Hm. destruct (IH (a :: seen)) as [H1 H2]. split.
      * intros x. cbn. rewrite H1. cbn. split.
        -- intros [->|[Hx Hn]]; [tauto|]. split; [tauto|]. intros Hs. apply Hn. tauto.
        -- intros [[->|Hx] Hn]; [tauto|]. destruct (Z.eq_dec a x) as [->|Hne]; [tauto|].
           right. split; [exact Hx|]. intros [->|Hs]; [congruence|contradiction].
      * constructor; [|exact H2]. rewrite H1. cbn. tauto.
Qed.

Lemma dedup_In : forall l x, In x (dedup l) <-> In x l.
Proof. intros l x. unfold dedup. rewrite (proj1 (dedup_go_spec l [])). cbn. tauto. Qed.

Lemma dedup_NoDup : forall l, NoDup (dedup l).
Proof. intros l. apply (proj2 (dedup_go_spec l [])). Qed.

(** * zsort: insertion sort *)
Lemma zinsert_perm : forall x l, Permutation (zinsert x l) (x :: l).
Proof.
  induction l as [|y r IH]; cbn [zinsert]; [reflexivity|].
  destruct (x <=? y); [reflexivity|].
  rewrite IH. apply perm_swap.
Qed.

Lemma zsort_perm : forall l, Permutation (zsort l) l.
Proof.
  induction l as [|x r IH]; cbn; [constructor|].
  fold (zsort r). rewrite zinsert_perm. constructor. exact IH.
Qed.

(** strictly increasing, all elements above [lo] *)
Fixpoint ssorted (lo : Z) (l : list Z) : Prop :=
  match l with [] => True | x :: r => lo < x /\ ssorted x r end.

Lemma ssorted_weaken : forall l lo lo', lo' <= lo -> ssorted lo l -> ssorted lo' l.
Proof. destruct l; cbn; intros; [exact I|]. split; [lia|tauto]. Qed.

Lemma ssorted_lb : forall l lo x, ssorted lo l -> In x l -> lo < x.
Proof.
  induction l as [|y r IH]; cbn; intros lo x Hs Hin; [contradiction|].
  destruct Hs as [H1 H2]. destruct Hin as [->|Hin]; [exact H1|].
  specialize (IH _ _ H2 Hin). lia.
Qed.

Lemma zinsert_ssorted : forall l lo x, ssorted lo l -> lo < x -> ~ In x l -> ssorted lo (zinsert x l).
Proof.
  induction l as [|y r IH]; cbn [zinsert]; intros lo x Hs Hlo Hn.
  - cbn. tauto.
  - cbn in Hs. destruct Hs as [H1 H2]. destruct (x <=? y) eqn:Hc.
    + apply Z.leb_le in Hc. cbn. assert (x <> y) by (intros ->; apply Hn; left; reflexivity).
      repeat split; try lia. exact H2.
    + apply Z.leb_gt in Hc. cbn. split; [exact H1|]. apply IH; [exact H2|lia|].
      intros Hin. apply Hn. right. exact Hin.
Qed.

Lemma zsort_ssorted : forall l lo, NoDup l -> (forall x, In x l -> lo < x) -> ssorted lo (zsort l).
Proof.
  induction l as [|x r IH]; intros lo Hnd Hlo; cbn; [exact I|].
  fold (zsort r). inversion Hnd; subst.
  apply zinsert_ssorted.
  - apply IH; [assumption|]. intros y Hy. apply Hlo. right. exact Hy.
  - apply Hlo. left. reflexivity.
  - intros Hin. apply (Permutation_in _ (zsort_perm r)) in Hin. contradiction.
Qed.

Lemma ssorted_ext : forall l1 l2 lo, ssorted lo l1 -> ssorted lo l2 ->
  (forall x, In x l1 <-> In x l2) -> l1 = l2.
Proof.
  induction l1 as [|a r1 IH]; intros [|b r2] lo H1 H2 He.
  - reflexivity.
  - exfalso. apply (proj2 (He b)). left. reflexivity.
  - exfalso. apply (proj1 (He a)). left. reflexivity.
  - cbn in H1, H2. destruct H1 as [Ha Hr1]. destruct H2 as [Hb Hr2].
    assert (a = b).
    { assert (Ia : In a (b :: r2)) by (apply He; left; reflexivity).
      assert (Ib : In b (a :: r1)) by (apply He; left; reflexivity).
      destruct Ia as [->|Ia]; [reflexivity|]. destruct Ib as [->|Ib]; [reflexivity|].
      pose proof (ssorted_lb _ _ _ Hr2 Ia). pose proof (ssorted_lb _ _ _ Hr1 Ib). lia. }
    subst b. f_equal. apply (IH r2 a Hr1 Hr2).
    intros x. split; intros Hx.
    + assert (In x (a :: r2)) as [->|Hx'] by (apply He; right; exact Hx); [|exact Hx'].
      pose proof (ssorted_lb _ _ _ Hr1 Hx). lia.
    + assert (In x (a :: r1)) as [->|Hx'] by (apply He; right; exact Hx); [|exact Hx'].
      pose proof (ssorted_lb _ _ _ Hr2 Hx). lia.
Qed.

(** * Enumeration of subsets of a range *)
Fixpoint subs (l : list Z) : list (list Z) :=
  match l with [] => [[]] | x :: r => map (cons x) (subs r) ++ subs r end.

Fixpoint zrange (lo : Z) (n : nat) : list Z :=
  match n with O => [] | S m => lo :: zrange (lo + 1) m end.

Lemma subs_nil : forall l, In [] (subs l).
Proof. induction l; cbn; [tauto|]. apply in_or_app. right. exact IHl. Qed.

Lemma subs_range : forall n lo S,
  ssorted (lo - 1) S -> (forall x, In x S -> x < lo + Z.of_nat n) -> In S (subs (zrange lo n)).
Proof.
  induction n as [|n IH]; intros lo S Hs Hub.
  - destruct S as [|x r]; [cbn; tauto|]. exfalso. cbn in Hs. destruct Hs as [Hx _].
    specialize (Hub x (or_introl eq_refl)). lia.
  - destruct S as [|x r]; [apply subs_nil|]. cbn [zrange subs]. apply in_or_app.
    cbn in Hs. destruct Hs as [Hx Hr].
    destruct (Z.eq_dec x lo) as [->|Hne].
    + left. apply in_map. apply IH.
      * replace (lo + 1 - 1) with lo by lia. exact Hr.
      * intros y Hy. specialize (Hub y (or_intror Hy)). lia.
    + right. apply IH.
      * cbn. split; [lia|exact Hr].
      * intros y Hy. specialize (Hub y Hy). lia.
Qed.

(** * Enumeration of permutations *)
Fixpoint ins_all (x : Z) (l : list Z) : list (list Z) :=
  match l with [] => [[x]] | y :: r => (x :: l) :: map (cons y) (ins_all x r) end.

Fixpoint perms (l : list Z) : list (list Z) :=
  match l with [] => [[]] | x :: r => flat_map (ins_all x) (perms r) end.

Lemma ins_all_in : forall x l1 l2, In (l1 ++ x :: l2) (ins_all x (l1 ++ l2)).
Proof.
  induction l1 as [|a l1 IH]; intros l2; cbn.
  - destruct l2; cbn; tauto.
  - right. apply in_map. apply IH.
Qed.

Lemma perms_complete : forall l' l, Permutation l l' -> In l (perms l').
Proof.
  induction l' as [|x r IH]; intros l Hp.
  - apply Permutation_sym, Permutation_nil in Hp. subst. cbn. tauto.
  - assert (Hin : In x l) by (apply (Permutation_in _ (Permutation_sym Hp)); left; reflexivity).
    apply in_split in Hin. destruct Hin as [l1 [l2 ->]].
    cbn [perms]. apply in_flat_map. exists (l1 ++ l2). split.
    + apply IH. apply Permutation_sym in Hp. apply Permutation_cons_app_inv in Hp.
      apply Permutation_sym. exact Hp.
    + apply ins_all_in.
Qed.

(** * The boolean round-trip check and its meaning *)
Definition is_cse (e : exn) : bool := match e with E_ChordSymbol => true | _ => false end.

Definition rt_ok (pcs : list Z) (bass : Z) (r : res figure) : bool :=
  match r with
  | Err e => is_cse e
  | Ok NoChord => false
  | Ok (Fig s) =>
      match sym_pitches s, sym_bass s with
      | Ok ps, Ok b =>
          (b =? bass) && forallb (fun x => zmem x pcs) (b :: ps) && forallb (fun x => zmem x (b :: ps)) pcs
      | _, _ => false
      end
  end.

(** The property for one result: [pcs] are the supplied pitch classes. *)
Definition RT (pcs : list Z) (bass : Z) (r : res figure) : Prop :=
  match r with
  | Err e => e = E_ChordSymbol
  | Ok NoChord => False
  | Ok (Fig s) => exists ps, sym_pitches s = Ok ps /\ sym_bass s = Ok bass /\
                             forall x, (In x ps \/ x = bass) <-> In x pcs
  end.

Lemma rt_ok_sound : forall pcs bass r, rt_ok pcs bass r = true -> RT pcs bass r.
Proof.
  intros pcs bass [[|s]|e]; cbn [rt_ok RT]; intros H.
  - discriminate.
  - destruct (sym_pitches s) as [ps|] eqn:Hp; [|discriminate].
    destruct (sym_bass s) as [b|] eqn:Hb; [|discriminate].
    apply andb_prop in H. destruct H as [H H3]. apply andb_prop in H. destruct H as [H1 H2].
    apply Z.eqb_eq in H1. subst b. exists ps. split; [reflexivity|]. split; [reflexivity|].
    rewrite forallb_forall in H2, H3. intros x. split.
    + intros Hx. apply zmem_In. apply H2. cbn. destruct Hx as [Hx| ->]; auto.
    + intros Hx. specialize (H3 x Hx). apply zmem_In in H3. cbn in H3. destruct H3 as [<-|H3]; auto.
  - destruct e; cbn in H; congruence.
Qed.

Lemma RT_ext : forall pcs pcs' bass r, (forall x, In x pcs <-> In x pcs') -> RT pcs bass r -> RT pcs' bass r.
Proof.
  intros pcs pcs' bass [[|s]|e] He; cbn [RT]; auto.
  intros [ps [H1 [H2 H3]]]. exists ps. repeat split; auto; intros Hx.
  - apply He, H3, Hx.
  - apply H3, He, Hx.
Qed.

(** What the kernel enumerates, per pitch-class set [S] (ascending):
    - up to 4 classes: every first-occurrence order [ks] (CPython keeps such a set in an
      8-slot table whose iteration order depends on insertion order) and every bass;
    - 5 or more classes: the set iterates in ascending order; every bass. *)
Definition check_small (ks : list Z) : bool :=
  forallb (fun b => rt_ok ks b (name_ord (t8_order ks) b)) ks.
Definition check_big (S : list Z) : bool :=
  forallb (fun b => rt_ok S b (name_ord S b)) S.
Definition check_set (S : list Z) : bool :=
  if len S <=? 4 then forallb check_small (perms S) else check_big S.

Definition PCS : list Z := [0; 1; 2; 3; 4; 5; 6; 7; 8; 9; 10; 11].
Definition all_sets : list (list Z) := subs PCS.

(** * Lifting: any pitch list falls into the enumerated domain *)
Lemma list_min_spec : forall l p0, In (fold_left Z.min l p0) (p0 :: l) /\
  (forall x, In x (p0 :: l) -> fold_left Z.min l p0 <= x).
Proof.
  induction l as [|a l IH]; intros p0; cbn [fold_left].
  - split; [left; reflexivity|]. intros x [->|[]]. lia.
  - destruct (IH (Z.min p0 a)) as [H1 H2]. split.
    + destruct H1 as [H1|H1]; [|right; right; exact H1].
      rewrite <- H1. destruct (Z.min_spec p0 a) as [[_ ->]|[_ ->]]; [left|right; left]; reflexivity.
    + intros x Hx. assert (Hm : fold_left Z.min l (Z.min p0 a) <= Z.min p0 a) by (apply H2; left; reflexivity).
      destruct Hx as [->|[->|Hx]]; [lia|lia|]. apply H2. right. exact Hx.
Qed.

Lemma pcs_of_range : forall pitches x, In x (pcs_of pitches) -> 0 <= x < 12.
Proof.
  intros pitches x Hx. unfold pcs_of in Hx. apply in_map_iff in Hx. destruct Hx as [p [<- _]].
  apply Z.mod_pos_bound. lia.
Qed.

Section Lift.
  Hypothesis all_checked : forallb check_set all_sets = true.

  Lemma name_ord_rt : forall l b, l <> [] -> (forall x, In x l -> 0 <= x < 12) -> In b l ->
    RT l b (name_ord (pyset_iter l) b).
  Proof.
    intros l b Hne Hrange Hb.
    set (ks := dedup l). set (S := zsort ks).
    assert (Hks : forall x, In x ks <-> In x l) by (intros; apply dedup_In).
    assert (Hperm : Permutation S ks) by apply zsort_perm.
    assert (HS : ssorted (0 - 1) S).
    { apply zsort_ssorted; [apply dedup_NoDup|]. intros x Hx. apply Hks, Hrange in Hx. lia. }
    assert (Hin : In S all_sets).
    { apply (subs_range 12 0 S HS). intros x Hx. apply (Permutation_in _ Hperm), Hks, Hrange in Hx. lia. }
    rewrite forallb_forall in all_checked. specialize (all_checked S Hin).
    unfold check_set in all_checked.
    assert (Hlen : len S = len ks) by (unfold len; rewrite (Permutation_length Hperm); reflexivity).
    rewrite Hlen in all_checked. unfold pyset_iter. fold ks.
    destruct (len ks <=? 4).
    - rewrite forallb_forall in all_checked.
      specialize (all_checked ks (perms_complete S ks (Permutation_sym Hperm))).
      unfold check_small in all_checked. rewrite forallb_forall in all_checked.
      specialize (all_checked b (proj2 (Hks b) Hb)).
      apply rt_ok_sound in all_checked. exact (RT_ext ks l b _ Hks all_checked).
    - fold S. unfold check_big in all_checked. rewrite forallb_forall in all_checked.
      assert (HbS : In b S) by (apply (Permutation_in _ (Permutation_sym Hperm)), Hks, Hb).
      specialize (all_checked b HbS). apply rt_ok_sound in all_checked.
      refine (RT_ext S l b _ _ all_checked). intros x. rewrite <- Hks. split; intros Hx.
      + exact (Permutation_in _ Hperm Hx).
      + exact (Permutation_in _ (Permutation_sym Hperm) Hx).
  Qed.

  Lemma name_roundtrip_from_enumeration : forall pitches, pitches <> [] ->
    exists m, In m pitches /\ (forall x, In x pitches -> m <= x) /\
              RT (pcs_of pitches) (m mod 12) (name_pitches pitches).
  Proof.
    intros [|p0 tl] Hne; [congruence|].
    destruct (list_min_spec (p0 :: tl) p0) as [H1 H2].
    exists (list_min p0 (p0 :: tl)). unfold list_min.
    assert (Hin : In (fold_left Z.min (p0 :: tl) p0) (p0 :: tl)).
    { destruct H1 as [H1|H1]; [rewrite <- H1; left; reflexivity|exact H1]. }
    split; [exact Hin|]. split; [intros x Hx; apply H2; right; exact Hx|].
    cbn [name_pitches]. unfold list_min. apply name_ord_rt.
    - cbn. discriminate.
    - apply pcs_of_range.
    - unfold pcs_of. apply in_map_iff. eexists. split; [reflexivity|exact Hin].
  Qed.
End Lift.

(** * The name is a function of (first-occurrence order of the pitch classes, lowest pitch class) *)
Definition lowest (pitches : list Z) : Z := match pitches with [] => 0 | p0 :: _ => list_min p0 pitches end.

Lemma name_layout_independent : forall p q, p <> [] -> q <> [] ->
  dedup (pcs_of p) = dedup (pcs_of q) -> lowest p mod 12 = lowest q mod 12 ->
  name_pitches p = name_pitches q.
Proof.
  intros [|p0 p] [|q0 q] Hp Hq Hd Hb; try congruence.
  cbn [name_pitches]. cbn [lowest] in Hb. rewrite Hb. unfold pyset_iter. rewrite Hd. reflexivity.
Qed.

(** ... and of (set of pitch classes, lowest pitch class) alone once there are five classes *)
Lemma name_set_independent : forall p q, p <> [] -> q <> [] ->
  (forall x, In x (pcs_of p) <-> In x (pcs_of q)) -> 5 <= len (dedup (pcs_of p)) ->
  lowest p mod 12 = lowest q mod 12 ->
  name_pitches p = name_pitches q.
Proof.
  intros [|p0 p] [|q0 q] Hp Hq He Hlen Hb; try congruence.
  cbn [name_pitches]. cbn [lowest] in Hb. rewrite Hb. f_equal.
  set (kp := dedup (pcs_of (p0 :: p))) in *. set (kq := dedup (pcs_of (q0 :: q))).
  assert (Hpq : Permutation kp kq).
  { apply NoDup_Permutation; try apply dedup_NoDup. intros x. unfold kp, kq. rewrite !dedup_In. apply He. }
  unfold pyset_iter. fold kp kq.
  assert (Hl : len kq = len kp) by (unfold len; rewrite (Permutation_length Hpq); reflexivity).
  rewrite Hl. destruct (len kp <=? 4) eqn:Hc; [apply Z.leb_le in Hc; lia|].
  apply (ssorted_ext _ _ (0 - 1)).
  - apply zsort_ssorted; [apply dedup_NoDup|]. intros x Hx. apply dedup_In, pcs_of_range in Hx. lia.
  - apply zsort_ssorted; [apply dedup_NoDup|]. intros x Hx. apply dedup_In, pcs_of_range in Hx. lia.
  - intros x. split; intros Hx.
    + apply (Permutation_in _ (zsort_perm kp)) in Hx. apply (Permutation_in _ Hpq) in Hx.
      exact (Permutation_in _ (Permutation_sym (zsort_perm kq)) Hx).
    + apply (Permutation_in _ (zsort_perm kq)) in Hx. apply (Permutation_in _ (Permutation_sym Hpq)) in Hx.
      exact (Permutation_in _ (Permutation_sym (zsort_perm kp)) Hx).
Qed.

(** * The interpreter, for every structured symbol *)
Lemma midi_range : forall step alter r, pitch_class_to_midi step alter = Ok r -> 0 <= r < 12.
Proof.
  unfold pitch_class_to_midi. intros step alter r. destruct (dict_get STEPS_MIDI step); [|discriminate].
  intros H. injection H as <-. apply Z.mod_pos_bound. lia.
Qed.

Lemma sym_root_range : forall s r, sym_root s = Ok r -> 0 <= r < 12.
Proof. intros s r. unfold sym_root. apply midi_range. Qed.

Lemma sym_bass_range : forall s b, sym_bass s = Ok b -> 0 <= b < 12.
Proof. intros s b. unfold sym_bass. destruct (s_bass s); [apply midi_range|apply sym_root_range]. Qed.

Lemma degree_pitches_range : forall root d ps x, degree_pitches root d = Ok ps -> In x ps -> 0 <= x < 12.
Proof.
  induction d as [|[k v] d IH]; cbn [degree_pitches]; intros ps x H Hx.
  - injection H as <-. contradiction.
  - destruct (dict_get DEGREE_OFFSETS ((k - 1) mod 7 + 1)); [|discriminate].
    destruct (degree_pitches root d) as [l|]; [|discriminate]. cbn in H. injection H as <-.
    destruct Hx as [<-|Hx]; [apply Z.mod_pos_bound; lia|]. exact (IH l x eq_refl Hx).
Qed.

Lemma sym_pitches_range : forall s ps x, sym_pitches s = Ok ps -> In x ps -> 0 <= x < 12.
Proof.
  intros s ps x. unfold sym_pitches, bind. destruct (sym_degrees s); [|discriminate].
  destruct (sym_root s); [|discriminate]. apply degree_pitches_range.
Qed.

Lemma degree_pitches_in : forall root d ps k v off, degree_pitches root d = Ok ps ->
  dict_get d k = Some v -> dict_get DEGREE_OFFSETS ((k - 1) mod 7 + 1) = Some off ->
  In ((root + off + v) mod 12) ps.
Proof.
  induction d as [|[k' v'] d IH]; cbn [degree_pitches dict_get]; intros ps k v off H Hk Ho; [discriminate|].
  destruct (dict_get DEGREE_OFFSETS ((k' - 1) mod 7 + 1)) as [off'|] eqn:Ho'; [|discriminate].
  destruct (degree_pitches root d) as [l|]; [|discriminate]. cbn in H. injection H as <-.
  destruct (k' =? k) eqn:Hkk.
  - apply Z.eqb_eq in Hkk. subst k'. injection Hk as <-. rewrite Ho in Ho'. injection Ho' as <-. left. reflexivity.
  - right. exact (IH l k v off eq_refl Hk Ho).
Qed.

(** quality X implies the triad of X is among the pitches *)
Definition triad_in (r t3 t5 : Z) (ps : list Z) : Prop :=
  In r ps /\ In ((r + t3) mod 12) ps /\ In ((r + t5) mod 12) ps.

Lemma quality_triad : forall s q r ps,
  sym_quality s = Ok q -> sym_root s = Ok r -> sym_pitches s = Ok ps ->
  (q = CHORD_QUALITY_MAJOR -> triad_in r 4 7 ps) /\
  (q = CHORD_QUALITY_MINOR -> triad_in r 3 7 ps) /\
  (q = CHORD_QUALITY_AUGMENTED -> triad_in r 4 8 ps) /\
  (q = CHORD_QUALITY_DIMINISHED -> triad_in r 3 6 ps).
Proof.
  intros s q r ps Hq Hr Hp.
  pose proof (sym_root_range s r Hr) as Hrr.
  unfold sym_quality, sym_pitches, bind in *.
  destruct (sym_degrees s) as [d|]; [|discriminate]. rewrite Hr in Hp.
  destruct (dict_get d 1) as [a|] eqn:H1; [|injection Hq as <-; repeat split; intros; discriminate].
  destruct (dict_get d 3) as [b|] eqn:H3; [|injection Hq as <-; repeat split; intros; discriminate].
  destruct (dict_get d 5) as [c|] eqn:H5; [|injection Hq as <-; repeat split; intros; discriminate].
  assert (P1 : In ((r + 0 + a) mod 12) ps) by (apply (degree_pitches_in r d ps 1 a 0 Hp H1); reflexivity).
  assert (P3 : In ((r + 4 + b) mod 12) ps) by (apply (degree_pitches_in r d ps 3 b 4 Hp H3); reflexivity).
  assert (P5 : In ((r + 7 + c) mod 12) ps) by (apply (degree_pitches_in r d ps 5 c 7 Hp H5); reflexivity).
  assert (R0 : (r + 0 + 0) mod 12 = r) by (rewrite !Z.add_0_r; apply Z.mod_small; lia).
  assert (Hcase : forall t3 t5, a = 0 -> b = t3 - 4 -> c = t5 - 7 -> triad_in r t3 t5 ps).
  { intros t3 t5 -> -> ->. unfold triad_in. split; [rewrite <- R0 at 1; exact P1|]. split.
    - replace (r + t3) with (r + 4 + (t3 - 4)) by lia. exact P3.
    - replace (r + t5) with (r + 7 + (t5 - 7)) by lia. exact P5. }
  destruct (a =? 0) eqn:Ea; destruct (b =? 0) eqn:Eb; destruct (c =? 0) eqn:Ec;
  destruct (b =? -1) eqn:Eb'; destruct (c =? 1) eqn:Ec'; destruct (c =? -1) eqn:Ec'';
  cbn in Hq; injection Hq as <-;
  repeat match goal with H : (_ =? _) = true |- _ => apply Z.eqb_eq in H end;
  (split; [intros Hq | split; [intros Hq | split; intros Hq]]);
  try (exfalso; revert Hq; vm_compute; discriminate);
  apply Hcase; lia.
Qed.

(** the interpreter raises nothing but ChordSymbolError on a symbol the regex can deliver
    (kind abbreviation in the table, root and bass letters in A..G) *)
Definition step_ok (pc : Z * Z) : bool := match dict_get STEPS_MIDI (fst pc) with Some _ => true | None => false end.
Definition sym_lexable (s : sym) : bool :=
  step_ok (s_root s) && match s_bass s with Some b => step_ok b | None => true end &&
  match sdict_get KINDS_BY_ABBREV (s_kind s) with Some _ => true | None => false end.

Lemma apply_mod_err : forall d fn alter degree e, apply_mod d fn alter degree = Err e -> e = E_ChordSymbol.
Proof.
  intros d fn alter degree e. unfold apply_mod.
  destruct (fn =? 0); [destruct (dict_get d degree); congruence|].
  destruct (fn =? 1); destruct (dict_get d degree); congruence.
Qed.

Lemma apply_modifications_err : forall ms d e, apply_modifications d ms = Err e -> e = E_ChordSymbol.
Proof.
  induction ms as [|[[fn alter] degree] ms IH]; cbn [apply_modifications]; intros d e H; [discriminate|].
  unfold bind in H. destruct (apply_mod d fn alter degree) eqn:Hm.
  - exact (IH _ _ H).
  - injection H as <-. exact (apply_mod_err _ _ _ _ _ Hm).
Qed.

Lemma lookup_mods_err : forall mods e, lookup_mods mods = Err e -> e = E_ChordSymbol.
Proof.
  induction mods as [|[p degree] r IH]; cbn [lookup_mods]; intros e H; [discriminate|].
  destruct (sdict_get DEGREE_MODIFICATIONS p) as [[fn alter]|]; [|congruence].
  unfold bind in H. destruct (lookup_mods r); [discriminate|]. injection H as <-. apply IH. reflexivity.
Qed.

Lemma sym_degrees_err : forall s e, sym_lexable s = true -> sym_degrees s = Err e -> e = E_ChordSymbol.
Proof.
  intros s e Hl. unfold sym_lexable in Hl. apply andb_prop in Hl. destruct Hl as [_ Hk].
  unfold sym_degrees, bind, parse_kind.
  destruct (lookup_mods (s_mods s)) eqn:Hm; [|intros H; injection H as <-; exact (lookup_mods_err _ _ Hm)].
  destruct (sdict_get KINDS_BY_ABBREV (s_kind s)); [|discriminate].
  apply apply_modifications_err.
Qed.

Lemma offsets_total : forall k, exists off, dict_get DEGREE_OFFSETS ((k - 1) mod 7 + 1) = Some off.
Proof.
  intros k. pose proof (Z.mod_pos_bound (k - 1) 7 ltac:(lia)) as H.
  assert (Hc : (k - 1) mod 7 = 0 \/ (k - 1) mod 7 = 1 \/ (k - 1) mod 7 = 2 \/ (k - 1) mod 7 = 3 \/
               (k - 1) mod 7 = 4 \/ (k - 1) mod 7 = 5 \/ (k - 1) mod 7 = 6) by lia.
  destruct Hc as [-> | [-> | [-> | [-> | [-> | [-> | ->]]]]]]; eexists; reflexivity.
Qed.

Lemma degree_pitches_total : forall root d, exists ps, degree_pitches root d = Ok ps.
Proof.
  induction d as [|[k v] d [ps IH]]; cbn [degree_pitches]; [eexists; reflexivity|].
  destruct (offsets_total k) as [off ->]. rewrite IH. cbn. eexists. reflexivity.
Qed.

Lemma interp_only_chord_symbol_error : forall s, sym_lexable s = true ->
  (exists r, sym_root s = Ok r) /\ (exists b, sym_bass s = Ok b) /\
  ((exists ps q, sym_pitches s = Ok ps /\ sym_quality s = Ok q) \/
   (sym_pitches s = Err E_ChordSymbol /\ sym_quality s = Err E_ChordSymbol)).
Proof.
  intros s Hl. pose proof Hl as Hl'. unfold sym_lexable in Hl'.
  apply andb_prop in Hl'. destruct Hl' as [Hl' _]. apply andb_prop in Hl'. destruct Hl' as [Hr Hb].
  assert (HR : exists r, sym_root s = Ok r).
  { unfold sym_root, pitch_class_to_midi. unfold step_ok in Hr.
    destruct (dict_get STEPS_MIDI (fst (s_root s))); [eexists; reflexivity|discriminate]. }
  split; [exact HR|]. split.
  { unfold sym_bass. destruct (s_bass s) as [b|]; [|exact HR].
    unfold pitch_class_to_midi. unfold step_ok in Hb.
    destruct (dict_get STEPS_MIDI (fst b)); [eexists; reflexivity|discriminate]. }
  destruct HR as [r HR]. unfold sym_pitches, sym_quality, bind. rewrite HR.
  destruct (sym_degrees s) as [d|e] eqn:Hd.
  - left. destruct (degree_pitches_total r d) as [ps ->]. exists ps.
    destruct (dict_get d 1); [|eexists; split; reflexivity].
    destruct (dict_get d 3); [|eexists; split; reflexivity].
    destruct (dict_get d 5); [|eexists; split; reflexivity].
    repeat match goal with |- context [if ?c then _ else _] => destruct c end; eexists; split; reflexivity.
  - right. rewrite (sym_degrees_err s e Hl Hd). split; reflexivity.
Qed.

(** * Memoisation of the per-root search, used only to make the enumeration cheap

    [_largest_chord_kind_from_relative_pitches] depends only on the relative pitch list, and
    the same few thousand lists recur over the 73548 enumerated cases.  The table below maps
    a key of the list to (list, result); a lookup is used only if the stored list equals the
    requested one, otherwise the search is run directly, so [lk_fast] equals the model
    function for EVERY argument whatever the table contains (soundness does not depend on
    which lists were tabulated). *)
Inductive tree (A : Type) := Leaf | Node (l : tree A) (v : option A) (r : tree A).
Arguments Leaf {A}.
Arguments Node {A} l v r.

Fixpoint tfind {A} (p : positive) (t : tree A) : option A :=
  match t with
  | Leaf => None
  | Node l v r => match p with xH => v | xO q => tfind q l | xI q => tfind q r end
  end.

Fixpoint tadd {A} (p : positive) (a : A) (t : tree A) : tree A :=
  match p with
  | xH => match t with Leaf => Node Leaf (Some a) Leaf | Node l _ r => Node l (Some a) r end
  | xO q => match t with Leaf => Node (tadd q a Leaf) None Leaf | Node l v r => Node (tadd q a l) v r end
  | xI q => match t with Leaf => Node Leaf None (tadd q a Leaf) | Node l v r => Node l v (tadd q a r) end
  end.

Lemma tfind_leaf : forall A p, @tfind A p Leaf = None.
Proof. destruct p; reflexivity. Qed.

Lemma tfind_tadd_same : forall A p (a : A) t, tfind p (tadd p a t) = Some a.
Proof. induction p; intros a t; destruct t; cbn; auto. Qed.

Lemma tfind_tadd_other : forall A p q (a : A) t, p <> q -> tfind q (tadd p a t) = tfind q t.
Proof.
  induction p; intros q a t Hne; destruct t, q; cbn; try rewrite tfind_leaf; try reflexivity;
    try congruence; try (rewrite IHp; [try rewrite tfind_leaf; reflexivity | congruence]).
Qed.

Definition key (rel : list Z) : positive := Z.to_pos (fold_left (fun acc x => acc * 16 + x + 1) rel 1).

Definition entry := (list Z * res (option kind * list degree))%type.

Definition build_table (rels : list (list Z)) : tree entry :=
  fold_left (fun t rel => tadd (key rel) (rel, largest_kind_from_rel rel) t) rels Leaf.

Definition table_sound (t : tree entry) : Prop :=
  forall k rel v, tfind k t = Some (rel, v) -> v = largest_kind_from_rel rel.

Lemma build_table_sound : forall rels, table_sound (build_table rels).
Proof.
  intros rels. unfold build_table.
  assert (H : forall t, table_sound t ->
            table_sound (fold_left (fun t rel => tadd (key rel) (rel, largest_kind_from_rel rel) t) rels t)).
  { induction rels as [|rel rels IH]; intros t Ht; cbn [fold_left]; [exact Ht|].
    apply IH. intros k rel' v Hf. destruct (Pos.eq_dec (key rel) k) as [<-|Hne].
    - rewrite tfind_tadd_same in Hf. injection Hf as <- <-. reflexivity.
    - rewrite tfind_tadd_other in Hf by exact Hne. exact (Ht _ _ _ Hf). }
  apply H. intros k rel v Hf. rewrite tfind_leaf in Hf. discriminate.
Qed.

Lemma zlist_eqb_eq : forall a b, zlist_eqb a b = true -> a = b.
Proof.
  induction a as [|x a IH]; intros [|y b]; cbn; intros H; try discriminate; [reflexivity|].
  apply andb_prop in H. destruct H as [H1 H2]. apply Z.eqb_eq in H1. subst. f_equal. exact (IH _ H2).
Qed.

Definition lk_fast (tbl : tree entry) (rel : list Z) : res (option kind * list degree) :=
  match tfind (key rel) tbl with
  | Some (rel', v) => if zlist_eqb rel' rel then v else largest_kind_from_rel rel
  | None => largest_kind_from_rel rel
  end.

Lemma lk_fast_eq : forall tbl, table_sound tbl -> forall rel, lk_fast tbl rel = largest_kind_from_rel rel.
Proof.
  intros tbl Ht rel. unfold lk_fast. destruct (tfind (key rel) tbl) as [[rel' v]|] eqn:Hf; [|reflexivity].
  destruct (zlist_eqb rel' rel) eqn:He; [|reflexivity].
  apply zlist_eqb_eq in He. subst rel'. exact (Ht _ _ _ Hf).
Qed.

Lemma fold_left_ext : forall {A B} (F G : A -> B -> A) l a0,
  (forall a b, F a b = G a b) -> fold_left F l a0 = fold_left G l a0.
Proof.
  intros A B F G l. induction l as [|b l IH]; intros a0 H; cbn [fold_left]; [reflexivity|].
  rewrite H. apply IH. exact H.
Qed.

Lemma choose_root_ext : forall f g l, (forall r, f r = g r) -> choose_root f l = choose_root g l.
Proof.
  intros f g l H. unfold choose_root. apply fold_left_ext. intros acc root. rewrite H. reflexivity.
Qed.

Definition name_ord_fast (tbl : tree entry) (order : list Z) (bass : Z) : res figure :=
  let others := pyset_iter (filter (fun x => negb (x =? bass)) order) in
  let cands := bass :: others in
  name_with (fun root => lk_fast tbl (rel_of cands root)) bass others.

Lemma name_ord_fast_eq : forall tbl, table_sound tbl -> forall order bass,
  name_ord_fast tbl order bass = name_ord order bass.
Proof.
  intros tbl Ht order bass. unfold name_ord_fast, name_ord, name_core, name_with. cbv zeta.
  f_equal. apply choose_root_ext. intros r. apply lk_fast_eq. exact Ht.
Qed.

Definition check_small_fast tbl (ks : list Z) : bool :=
  forallb (fun b => rt_ok ks b (name_ord_fast tbl (t8_order ks) b)) ks.
Definition check_big_fast tbl (S : list Z) : bool :=
  forallb (fun b => rt_ok S b (name_ord_fast tbl S b)) S.
Definition check_set_fast tbl (S : list Z) : bool :=
  if len S <=? 4 then forallb (check_small_fast tbl) (perms S) else check_big_fast tbl S.

Lemma forallb_eq : forall {A} (f g : A -> bool) l, (forall x, f x = g x) -> forallb f l = forallb g l.
Proof. intros A f g l H. induction l as [|x l IH]; cbn; [reflexivity|]. rewrite H, IH. reflexivity. Qed.

Lemma check_set_fast_eq : forall tbl, table_sound tbl -> forall S, check_set_fast tbl S = check_set S.
Proof.
  intros tbl Ht S. unfold check_set_fast, check_set. destruct (len S <=? 4).
  - apply forallb_eq. intros ks. unfold check_small_fast, check_small. apply forallb_eq. intros b.
    rewrite name_ord_fast_eq by exact Ht. reflexivity.
  - unfold check_big_fast, check_big. apply forallb_eq. intros b.
    rewrite name_ord_fast_eq by exact Ht. reflexivity.
Qed.

(** the relative pitch lists worth tabulating: every injective sequence of at most 4 classes
    containing 0 (any order), and every ascending list of at least 5 classes starting with 0 *)
Fixpoint seqs (n : nat) (l : list Z) : list (list Z) :=
  match n with
  | O => [[]]
  | S m => [] :: flat_map (fun x => map (cons x) (seqs m (filter (fun y => negb (y =? x)) l))) l
  end.
Definition ALL_RELS : list (list Z) :=
  filter (fun r => zmem 0 r) (seqs 4 PCS) ++
  map (cons 0) (filter (fun r => 4 <=? len r) (subs [1; 2; 3; 4; 5; 6; 7; 8; 9; 10; 11])).

(** * Sharding of the enumeration: 4 shards by the subset of {0,1} *)
Definition TAIL : list Z := [2; 3; 4; 5; 6; 7; 8; 9; 10; 11].
Definition shard (pre : list Z) : list (list Z) := map (app pre) (subs TAIL).

Definition check_shard (pre : list Z) : bool :=
  let tbl := build_table ALL_RELS in forallb (check_set_fast tbl) (shard pre).

Lemma check_shard_sound : forall pre, check_shard pre = true -> forallb check_set (shard pre) = true.
Proof.
  intros pre H. unfold check_shard in H. cbv zeta in H. rewrite <- H.
  apply forallb_eq. intros S. symmetry. apply check_set_fast_eq. apply build_table_sound.
Qed.

Lemma all_sets_split : all_sets = flat_map shard (subs [0; 1]).
Proof. vm_compute. reflexivity. Qed.

Lemma forallb_flat_map : forall {A B} (f : B -> bool) (g : A -> list B) l,
  forallb f (flat_map g l) = forallb (fun x => forallb f (g x)) l.
Proof.
  intros A B f g. induction l as [|x l IH]; cbn; [reflexivity|].
  rewrite forallb_app, IH. reflexivity.
Qed.
