(** Proofs/TrEquiv09.v — the Gallina text re-translated on every run from the SOURCE of
    performance_lib._velocity_bin_size / velocity_to_bin / velocity_bin_to_velocity and of
    MelodyOneHotEncoding.__init__ / num_classes / encode_event / decode_event (Gen/Tr.v, produced by
    harness/vt/pytr.py) is equal, for all arguments, to the hand-written model of Model/OneHot.v that the
    C09 theorems are about. *)
From Coq Require Import ZArith Bool Lia.
From NS Require Import Base.TrTac Gen.G09 Gen.Tr Model.OneHot.
Local Open Scope Z_scope.

Ltac consts := unfold vel_range, MAX_MIDI_VELOCITY, MIN_MIDI_VELOCITY, NUM_SPECIAL_MELODY_EVENTS,
                      MIN_MIDI_PITCH, MAX_MIDI_PITCH in *.

Lemma ceil_forms a nb : 0 < nb -> - ((- a) / nb) = (a + nb - 1) / nb.
Proof.
  intros H.
  pose proof (Z.div_mod (- a) nb ltac:(lia)) as E1. pose proof (Z.mod_pos_bound (- a) nb H) as B1.
  pose proof (Z.div_mod (a + nb - 1) nb ltac:(lia)) as E2. pose proof (Z.mod_pos_bound (a + nb - 1) nb H) as B2.
  set (q1 := (- a) / nb) in *. set (q2 := (a + nb - 1) / nb) in *.
  set (r1 := (- a) mod nb) in *. set (r2 := (a + nb - 1) mod nb) in *.
  assert (Hs : nb * (q1 + q2) = nb - 1 - r1 - r2) by (rewrite Z.mul_add_distr_l; lia).
  assert (q1 + q2 = 0) by nia. lia.
Qed.

Lemma tr_bin_size_eq nb : 0 < nb -> tr_velocity_bin_size nb = Some (bin_size nb).
Proof.
  intros H. unfold tr_velocity_bin_size, bin_size. consts.
  first [ solve [ destruct (nb =? 0) eqn:E; [apply Z.eqb_eq in E; lia|]; f_equal; apply ceil_forms; exact H ]
        | tr_solve ].
Qed.

Lemma tr_bin_size_zero : tr_velocity_bin_size 0 = None.
Proof. reflexivity. Qed.

Lemma bin_size_pos nb : 0 < nb -> 0 < bin_size nb.
Proof.
  intros H. unfold bin_size. consts.
  pose proof (Z.div_mod (127 - 1 + 1 + nb - 1) nb ltac:(lia)). pose proof (Z.mod_pos_bound (127 - 1 + 1 + nb - 1) nb H). nia.
Qed.

Lemma tr_velocity_to_bin_eq v nb : 0 < nb -> tr_velocity_to_bin v nb = Some (vel_to_bin v nb).
Proof.
  intros H. unfold tr_velocity_to_bin. rewrite ?(tr_bin_size_eq nb H).
  pose proof (bin_size_pos nb H).
  first [ solve [ destruct (bin_size nb =? 0) eqn:E; [apply Z.eqb_eq in E; lia|];
                  unfold vel_to_bin; consts; reflexivity ]
        | unfold vel_to_bin; consts; generalize dependent (bin_size nb); intros bs Hbs; tr_solve ].
Qed.

Lemma tr_velocity_bin_to_velocity_eq b nb : 0 < nb ->
  tr_velocity_bin_to_velocity b nb = Some (bin_to_vel b nb).
Proof.
  intros H. unfold tr_velocity_bin_to_velocity. rewrite ?(tr_bin_size_eq nb H).
  first [ solve [ unfold bin_to_vel; consts; reflexivity ]
        | unfold bin_to_vel; consts; generalize dependent (bin_size nb); intros bs; tr_solve ].
Qed.

Lemma tr_melody_init_eq mn mx :
  tr_melody_init mn mx = if mel_cfg_ok mn mx then Some tt else None.
Proof.
  unfold tr_melody_init, mel_cfg_ok. consts.
  first [ solve [ destruct (mn <? 0) eqn:A, (mx >? 127 + 1) eqn:B, (mx <=? mn) eqn:C,
                           (0 <=? mn) eqn:A', (mx <=? 127 + 1) eqn:B', (mn <? mx) eqn:C'; cbn; try reflexivity; lia ]
        | tr_solve ].
Qed.

Lemma tr_melody_num_classes_eq mn mx : tr_melody_num_classes mx mn = Some (mel_num_classes mn mx).
Proof. unfold tr_melody_num_classes, mel_num_classes. consts. first [ reflexivity | tr_solve ]. Qed.

Lemma tr_melody_encode_eq mn mx e : tr_melody_encode_event mx mn e = mel_encode mn mx e.
Proof.
  unfold tr_melody_encode_event, mel_encode. consts.
  first [ solve [ replace (e >=? mx) with (mx <=? e) by (rewrite Z.geb_leb; reflexivity); reflexivity ]
        | tr_solve ].
Qed.

Lemma tr_melody_decode_eq mn i : tr_melody_decode_event mn i = Some (mel_decode mn i).
Proof.
  unfold tr_melody_decode_event, mel_decode. consts.
  first [ solve [ destruct (i <? 2); reflexivity ] | tr_solve ].
Qed.
