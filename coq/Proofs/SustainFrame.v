(** Proofs/SustainFrame.v — C14: drum notes are untouched; total_time covers
    every returned note (for the repaired closing loop; refuted for the
    original one). *)
From Coq Require Import ZArith List Bool Lia ZifyBool Permutation.
From NS Require Import Base.NoteSeq Gen.G14 Model.Sustain Proofs.Sustain.
Import ListNotations.
Local Open Scope Z_scope.
Ltac Zify.zify_post_hook ::= Z.to_euclidean_division_equations.

(** * Which list entries survive a loop *)
Lemma off_loop_incl : forall i t act cs tot, incl (fst (fst (off_loop i t act cs tot))) act.
Proof.
  induction act; intros; cbn [off_loop]; [apply incl_refl|].
  destruct (n_instr (cell_at cs a) =? i).
  - destruct (n_end (cell_at cs a) <? t).
    + apply incl_tl. apply IHact.
    + specialize (IHact cs tot). destruct (off_loop i t act cs tot) as [[k c] o]. cbn [fst] in *.
      apply incl_cons; [left; reflexivity | apply incl_tl; exact IHact].
  - specialize (IHact cs tot). destruct (off_loop i t act cs tot) as [[k c] o]. cbn [fst] in *.
    apply incl_cons; [left; reflexivity | apply incl_tl; exact IHact].
Qed.

Lemma on_loop_incl : forall i p t act cs, incl (fst (on_loop i p t act cs)) act.
Proof.
  induction act; intros; cbn [on_loop]; [apply incl_refl|].
  destruct (n_instr (cell_at cs a) =? i).
  - destruct (n_pitch (cell_at cs a) =? p).
    + apply incl_tl. apply IHact.
    + specialize (IHact cs). destruct (on_loop i p t act cs) as [k c]. cbn [fst] in *.
      apply incl_cons; [left; reflexivity | apply incl_tl; exact IHact].
  - specialize (IHact cs). destruct (on_loop i p t act cs) as [k c]. cbn [fst] in *.
    apply incl_cons; [left; reflexivity | apply incl_tl; exact IHact].
Qed.

Lemma remove_first_eq_incl : forall cs v act, incl (remove_first_eq cs v act) act.
Proof.
  induction act; cbn [remove_first_eq]; [apply incl_refl|].
  destruct (note_eqb (cell_at cs a) v).
  - apply incl_tl. apply incl_refl.
  - apply incl_cons; [left; reflexivity | apply incl_tl; exact IHact].
Qed.

Lemma drum_sim : forall cs cs' j, sim cs cs' -> n_drum (cell_at cs' j) = n_drum (cell_at cs j).
Proof. intros. apply strip_fields. apply sim_nth. exact H. Qed.

(** * Drum cells *)
Lemma off_loop_frame : forall i t act cs tot j, ~ In j act ->
  nth j (snd (fst (off_loop i t act cs tot))) dummy_cell = nth j cs dummy_cell.
Proof.
  induction act; intros; cbn [off_loop]; auto.
  assert (a <> j /\ ~ In j act) as [N1 N2] by (cbn [In] in H; tauto).
  destruct (n_instr (cell_at cs a) =? i).
  - destruct (n_end (cell_at cs a) <? t).
    + rewrite IHact by exact N2. apply set_end_at_nth_neq. exact N1.
    + specialize (IHact cs tot j N2). destruct (off_loop i t act cs tot) as [[k c] o]. exact IHact.
  - specialize (IHact cs tot j N2). destruct (off_loop i t act cs tot) as [[k c] o]. exact IHact.
Qed.

Lemma on_loop_drum : forall i p t act cs j,
  (forall a, In a act -> n_drum (cell_at cs a) = false) -> n_drum (cell_at cs j) = true ->
  nth j (snd (on_loop i p t act cs)) dummy_cell = nth j cs dummy_cell.
Proof.
  induction act; intros cs j HA HJ; cbn [on_loop]; auto.
  assert (HA' : forall b, In b act -> n_drum (cell_at cs b) = false) by (intros; apply HA; right; assumption).
  destruct (n_instr (cell_at cs a) =? i).
  - destruct (n_pitch (cell_at cs a) =? p).
    + set (cs1 := set_end_at cs a t).
      set (cs2 := if n_start (cell_at cs a) =? t then kill_first (cell_at cs1 a) cs1 else cs1).
      assert (S1 : sim cs cs1) by apply sim_set_end_at.
      assert (S2 : sim cs cs2).
      { unfold cs2. destruct (_ =? t); [eapply sim_trans; [exact S1 | apply sim_kill_first] | exact S1]. }
      assert (NA : a <> j). { intros ->. rewrite (HA j (or_introl eq_refl)) in HJ. discriminate. }
      assert (N1 : nth j cs1 dummy_cell = nth j cs dummy_cell) by (apply set_end_at_nth_neq; exact NA).
      rewrite IHact.
      * unfold cs2. destruct (_ =? t); [|exact N1]. rewrite kill_first_nth_neq; [exact N1|].
        intros C. assert (n_drum (cell_at cs1 j) = n_drum (cell_at cs1 a)) as D by (unfold cell_at at 1; rewrite C; reflexivity).
        rewrite !(drum_sim cs cs1) in D by exact S1. rewrite HJ, (HA a (or_introl eq_refl)) in D. discriminate.
      * intros b Hb. rewrite (drum_sim cs cs2) by exact S2. apply HA'. exact Hb.
      * rewrite (drum_sim cs cs2) by exact S2. exact HJ.
    + specialize (IHact cs j HA' HJ). destruct (on_loop i p t act cs) as [k c]. exact IHact.
  - specialize (IHact cs j HA' HJ). destruct (on_loop i p t act cs) as [k c]. exact IHact.
Qed.

Record invD (cs0 : list cell) (s : st) : Prop := {
  id_sim : sim cs0 (cells s);
  id_act : forall a, In a (active s) -> n_drum (cell_at cs0 a) = false;
  id_cells : forall j, n_drum (cell_at cs0 j) = true -> nth j (cells s) dummy_cell = nth j cs0 dummy_cell }.

Lemma step_invD : forall ns s e, ev_wf ns e -> invD (init_cells ns) s -> invD (init_cells ns) (step s e).
Proof.
  intros ns s e Hwf I. set (cs0 := init_cells ns) in *.
  assert (DA : forall a, In a (active s) -> n_drum (cell_at (cells s) a) = false).
  { intros a Ha. rewrite (drum_sim cs0) by apply (id_sim _ _ I). apply (id_act _ _ I a Ha). }
  assert (DJ : forall j, n_drum (cell_at cs0 j) = true -> n_drum (cell_at (cells s) j) = true).
  { intros j Hj. rewrite (drum_sim cs0) by apply (id_sim _ _ I). exact Hj. }
  unfold step. unfold ev_wf in Hwf. destruct (e_kind e) eqn:K.
  - constructor; cbn [cells active]; apply I.
  - pose proof (off_loop_sim (e_instr e) (e_time e) (active s) (cells s) (total s)) as S.
    pose proof (off_loop_incl (e_instr e) (e_time e) (active s) (cells s) (total s)) as IN.
    pose proof (off_loop_frame (e_instr e) (e_time e) (active s) (cells s) (total s)) as F.
    destruct (off_loop _ _ _ _ _) as [[k c] o]. cbn [fst snd] in *.
    constructor; cbn [cells active].
    + eapply sim_trans; [apply (id_sim _ _ I) | exact S].
    + intros a Ha. apply (id_act _ _ I). apply IN. exact Ha.
    + intros j Hj. rewrite F; [apply (id_cells _ _ I j Hj)|].
      intros C. rewrite (id_act _ _ I j C) in Hj. discriminate.
  - destruct Hwf as [n [Nn [Dn _]]]. pose proof (cell_at_init _ _ _ Nn) as Cn. fold cs0 in Cn.
    destruct (is_sus _ _).
    + set (p := n_pitch (cell_at (cells s) (e_ref e))).
      pose proof (on_loop_sim (e_instr e) p (e_time e) (active s) (cells s)) as S.
      pose proof (on_loop_incl (e_instr e) p (e_time e) (active s) (cells s)) as IN.
      pose proof (fun j => on_loop_drum (e_instr e) p (e_time e) (active s) (cells s) j DA) as F.
      destruct (on_loop _ _ _ _ _) as [k c]. cbn [fst snd] in *.
      constructor; cbn [cells active].
      * eapply sim_trans; [apply (id_sim _ _ I) | exact S].
      * intros a Ha. apply in_app_iff in Ha. destruct Ha as [Ha|[<-|[]]].
        -- apply (id_act _ _ I). apply IN. exact Ha.
        -- rewrite Cn. exact Dn.
      * intros j Hj. rewrite F by (apply DJ; exact Hj). apply (id_cells _ _ I j Hj).
    + constructor; cbn [cells active]; try apply I.
      intros a Ha. apply in_app_iff in Ha. destruct Ha as [Ha|[<-|[]]].
      * apply (id_act _ _ I a Ha).
      * rewrite Cn. exact Dn.
  - destruct (is_sus _ _); [exact I|].
    constructor; cbn [cells active]; try apply I.
    intros a Ha. apply (id_act _ _ I). eapply remove_first_eq_incl. exact Ha.
Qed.

Lemma run_invD : forall ns evs s, Forall (ev_wf ns) evs -> invD (init_cells ns) s ->
  invD (init_cells ns) (run_events evs s).
Proof.
  induction evs; intros s Hw I; cbn [run_events fold_left]; [exact I|].
  apply IHevs; [inversion Hw; assumption|]. apply step_invD; [inversion Hw; assumption | exact I].
Qed.

(** T2: drum notes are returned as they were. *)
Lemma sustain_drums_unchanged : forall ctl ns ccs tot,
  Forall2 (fun n c => n_drum n = true -> c = mkCell n true) ns (fst (sustain_cells ctl ns ccs tot)).
Proof.
  intros.
  assert (I : invD (init_cells ns) (pre_close ctl ns ccs tot)).
  { apply run_invD; [apply sorted_events_wf|].
    constructor; cbn [init_st cells active]; [apply sim_refl | intros a [] | reflexivity]. }
  apply (nth_Forall2 _ dummy_cell).
  - rewrite (sim_length _ _ (sustain_cells_sim ctl ns ccs tot)). unfold init_cells. apply map_length.
  - intros j n Hj Dn. unfold sustain_cells, sustain_cells_gen. rewrite close_other.
    + rewrite (id_cells _ _ I j); [apply nth_init; exact Hj|]. rewrite (cell_at_init _ _ _ Hj). exact Dn.
    + intros C. pose proof (id_act _ _ I j C) as D. rewrite (cell_at_init _ _ _ Hj) in D. congruence.
Qed.

(** * total_time covers every cell *)
Definition covered (tot : Z) (cs : list cell) : Prop := Forall (fun c => n_end (c_n c) <= tot) cs.

Lemma covered_mono : forall tot tot' cs, tot <= tot' -> covered tot cs -> covered tot' cs.
Proof. unfold covered; intros. eapply Forall_impl; [|exact H0]. cbv beta. intros; lia. Qed.

Lemma covered_set_end_at : forall tot cs a t, t <= tot -> covered tot cs -> covered tot (set_end_at cs a t).
Proof.
  unfold covered, set_end_at. intros tot cs a t Ht. revert a.
  induction cs as [|c cs IH]; intros [|a] H; cbn [upd]; auto; inversion H; subst; constructor; auto.
Qed.

Lemma covered_kill_first : forall tot v cs, covered tot cs -> covered tot (kill_first v cs).
Proof.
  unfold covered. induction cs; cbn [kill_first]; intros H; auto. inversion H; subst.
  destruct (c_alive a && note_eqb (c_n a) v); constructor; auto.
Qed.

Lemma off_loop_covered : forall i t act cs tot, covered tot cs ->
  covered (snd (off_loop i t act cs tot)) (snd (fst (off_loop i t act cs tot))).
Proof.
  induction act; intros; cbn [off_loop]; auto.
  destruct (n_instr (cell_at cs a) =? i).
  - destruct (n_end (cell_at cs a) <? t).
    + apply IHact. destruct (tot <? t) eqn:E.
      * apply covered_set_end_at; [lia|]. eapply covered_mono; [|exact H]. lia.
      * apply covered_set_end_at; [lia | exact H].
    + specialize (IHact cs tot H). destruct (off_loop i t act cs tot) as [[k c] o]. exact IHact.
  - specialize (IHact cs tot H). destruct (off_loop i t act cs tot) as [[k c] o]. exact IHact.
Qed.

Lemma on_loop_covered : forall i p t tot act cs, t <= tot -> covered tot cs ->
  covered tot (snd (on_loop i p t act cs)).
Proof.
  induction act; intros; cbn [on_loop]; auto.
  destruct (n_instr (cell_at cs a) =? i).
  - destruct (n_pitch (cell_at cs a) =? p).
    + apply IHact; [exact H|]. destruct (_ =? t).
      * apply covered_kill_first. apply covered_set_end_at; assumption.
      * apply covered_set_end_at; assumption.
    + specialize (IHact cs H H0). destruct (on_loop i p t act cs) as [k c]. exact IHact.
  - specialize (IHact cs H H0). destruct (on_loop i p t act cs) as [k c]. exact IHact.
Qed.

Lemma close_covered : forall t act cs tot, covered tot cs ->
  covered (snd (close t act cs tot)) (fst (close t act cs tot)).
Proof.
  induction act; intros; cbn [close]; auto.
  apply IHact. destruct (tot <? t) eqn:E.
  - apply covered_set_end_at; [lia|]. eapply covered_mono; [|exact H]. lia.
  - apply covered_set_end_at; [lia | exact H].
Qed.

Lemma covered_b_nth : forall tot ns j n, covered_b tot ns = true -> nth_error ns j = Some n -> n_end n <= tot.
Proof.
  unfold covered_b; intros. rewrite forallb_forall in H. apply nth_error_In in H0. specialize (H n H0). lia.
Qed.

Lemma step_covered : forall ns tot0 s e,
  ordered_b ns = true -> covered_b tot0 ns = true -> ev_wf ns e ->
  tot0 <= total s -> covered (total s) (cells s) -> covered (total (step s e)) (cells (step s e)).
Proof.
  intros ns tot0 s e Hord Hcov Hwf Ht C. unfold step. unfold ev_wf in Hwf. destruct (e_kind e) eqn:K.
  - exact C.
  - pose proof (off_loop_covered (e_instr e) (e_time e) (active s) (cells s) (total s) C) as H.
    destruct (off_loop _ _ _ _ _) as [[k c] o]. exact H.
  - destruct Hwf as [n [Nn [Dn [_ Tn]]]].
    pose proof (ordered_b_nth _ _ _ Hord Nn Dn). pose proof (covered_b_nth _ _ _ _ Hcov Nn).
    destruct (is_sus _ _); [|exact C].
    pose proof (on_loop_covered (e_instr e) (n_pitch (cell_at (cells s) (e_ref e))) (e_time e) (total s)
                  (active s) (cells s) ltac:(lia) C) as H1.
    destruct (on_loop _ _ _ _ _) as [k c]. exact H1.
  - destruct (is_sus _ _); exact C.
Qed.

Lemma run_covered : forall ns tot0, ordered_b ns = true -> covered_b tot0 ns = true ->
  forall evs s, Forall (ev_wf ns) evs -> tot0 <= total s -> covered (total s) (cells s) ->
  covered (total (run_events evs s)) (cells (run_events evs s)).
Proof.
  intros ns tot0 Hord Hcov. induction evs; intros s Hw Ht C; cbn [run_events fold_left]; auto.
  apply IHevs.
  - inversion Hw; assumption.
  - etransitivity; [exact Ht | apply step_total].
  - apply (step_covered ns tot0); auto. inversion Hw; assumption.
Qed.

(** T5: if total_time covered the input notes it covers every cell of the result. *)
Lemma sustain_total_covers : forall ctl ns ccs tot,
  ordered_b ns = true -> covered_b tot ns = true ->
  Forall (fun c => n_end (c_n c) <= snd (sustain_cells ctl ns ccs tot)) (fst (sustain_cells ctl ns ccs tot)).
Proof.
  intros. unfold sustain_cells, sustain_cells_gen. apply close_covered.
  unfold pre_close. apply (run_covered ns tot H H0).
  - apply sorted_events_wf.
  - cbn. lia.
  - cbn [init_st total cells]. unfold covered, init_cells. apply Forall_forall. intros c Hc.
    apply in_map_iff in Hc. destruct Hc as [n [<- Hn]]. cbn [c_n].
    unfold covered_b in H0. rewrite forallb_forall in H0. specialize (H0 n Hn). lia.
Qed.

Lemma live_notes_In : forall cs n, In n (live_notes cs) -> exists c, In c cs /\ c_n c = n /\ c_alive c = true.
Proof.
  unfold live_notes; intros. apply in_map_iff in H. destruct H as [c [E H]]. apply filter_In in H.
  exists c. tauto.
Qed.

(** The same statement on sequences. *)
Lemma apply_sustain_total_covers : forall ctl s s',
  ordered_b (s_notes s) = true -> covered_b (s_total s) (s_notes s) = true ->
  apply_sustain ctl s = Some s' ->
  s_total s <= s_total s' /\ forall n, In n (s_notes s') -> n_end n <= s_total s'.
Proof.
  intros ctl s s' Hord Hcov H. unfold apply_sustain, apply_sustain_gen in H.
  destruct (is_quantized s); [discriminate|].
  fold (sustain_cells ctl (s_notes s) (s_ccs s) (s_total s)) in H.
  pose proof (sustain_total_covers ctl _ (s_ccs s) _ Hord Hcov) as C.
  pose proof (sustain_total_monotone ctl (s_notes s) (s_ccs s) (s_total s)) as M.
  destruct (sustain_cells _ _ _ _) as [cs tot]. injection H as <-. cbn [with_notes_total s_total s_notes fst snd] in *.
  split; [exact M|]. intros n Hn. apply live_notes_In in Hn. destruct Hn as [c [C1 [<- _]]].
  rewrite Forall_forall in C. apply C. exact C1.
Qed.

(** F2.  The closing loop as it was before notes/C14-fix-1.diff
    ([sequence.total_time = time]) does NOT have this property: one held note
    and a longer drum note. *)
Definition f2_witness : seq :=
  mkSeq [mkNote 60 100 0 4 0 0 false 0 0 0; mkNote 36 100 0 20 0 0 true 0 0 0]
        [] [] [] [] [mkCc 2 0 64 127 0 0 false] [] [] 20 0 0 0 (0, 0) 220 0.

Lemma sustain_total_covers_orig_refuted :
  exists ctl s s', ordered_b (s_notes s) = true /\ covered_b (s_total s) (s_notes s) = true /\
    apply_sustain_orig ctl s = Some s' /\ exists n, In n (s_notes s') /\ s_total s' < n_end n.
Proof.
  exists 64, f2_witness. eexists. split; [reflexivity|]. split; [reflexivity|].
  split; [vm_compute; reflexivity|]. eexists. split; [right; left; reflexivity|]. cbn. lia.
Qed.

(** The result is the input with new notes and total_time; nothing else changes. *)
Lemma apply_sustain_result : forall ctl s s', apply_sustain ctl s = Some s' ->
  s' = with_notes_total s (live_notes (fst (sustain_cells ctl (s_notes s) (s_ccs s) (s_total s))))
                          (snd (sustain_cells ctl (s_notes s) (s_ccs s) (s_total s))).
Proof.
  intros ctl s s' H. unfold apply_sustain, apply_sustain_gen in H. destruct (is_quantized s); [discriminate|].
  fold (sustain_cells ctl (s_notes s) (s_ccs s) (s_total s)) in H.
  destruct (sustain_cells _ _ _ _). injection H as <-. reflexivity.
Qed.

(** * Events of other instruments
    An event of instrument [j <> i] leaves alone every cell of instrument [i],
    the entries of [i] in the active list (in order) and the pedal flag of [i]. *)
Definition ev_instr_ok (cs : list cell) (e : event) : Prop :=
  match e_kind e with
  | KNoteOn | KNoteOff => iof cs (e_ref e) = e_instr e
  | _ => True
  end.

Lemma is_sus_off_neq : forall i j l, i <> j -> is_sus i (sus_off j l) = is_sus i l.
Proof.
  unfold is_sus, sus_off. induction l; intros; cbn [filter existsb]; auto.
  destruct (a =? j) eqn:E; cbn [negb existsb]; rewrite IHl by assumption; [|reflexivity].
  assert ((i =? a) = false) as -> by lia. reflexivity.
Qed.

Lemma step_other_instrument : forall s e i,
  ev_instr_ok (cells s) e -> e_instr e <> i ->
  (forall j, iof (cells s) j = i -> nth j (cells (step s e)) dummy_cell = nth j (cells s) dummy_cell) /\
  filter (fun a => iof (cells s) a =? i) (active (step s e)) = filter (fun a => iof (cells s) a =? i) (active s) /\
  is_sus i (sus (step s e)) = is_sus i (sus s).
Proof.
  intros s e i Hok Hne. unfold step. unfold ev_instr_ok in Hok.
  assert (Q : forall a, iof (cells s) a = e_instr e -> (iof (cells s) a =? i) = false) by (intros; lia).
  destruct (e_kind e) eqn:K.
  - cbn [cells active sus]. repeat split; auto. unfold is_sus. cbn [existsb].
    assert ((i =? e_instr e) = false) as -> by lia. reflexivity.
  - pose proof (off_loop_other _ (e_instr e) (e_time e) (active s) (cells s) (total s) Q) as [O1 O2].
    destruct (off_loop _ _ _ _ _) as [[k c] o]. cbn [fst snd cells active sus] in *.
    repeat split; auto.
    + intros j Hj. apply O1. lia.
    + apply is_sus_off_neq. lia.
  - assert (filter (fun a => iof (cells s) a =? i) [e_ref e] = []) as NEW.
    { cbn [filter]. rewrite (Q _ Hok). reflexivity. }
    destruct (is_sus _ _).
    + pose proof (on_loop_other _ (e_instr e) (n_pitch (cell_at (cells s) (e_ref e))) (e_time e)
                    (active s) (cells s) Q) as [O1 O2].
      destruct (on_loop _ _ _ _ _) as [k c]. cbn [fst snd cells active sus] in *.
      repeat split; auto.
      * intros j Hj. apply O1. lia.
      * rewrite filter_app, NEW, app_nil_r. exact O2.
    + cbn [cells active sus]. repeat split; auto. rewrite filter_app, NEW, app_nil_r. reflexivity.
  - destruct (is_sus _ _); [repeat split; auto|].
    cbn [cells active sus]. repeat split; auto.
    apply remove_first_eq_other. intros a Ha. apply Q. unfold iof. rewrite Ha. exact Hok.
Qed.

Lemma ev_instr_ok_sim : forall cs cs' e, sim cs cs' -> ev_instr_ok cs e -> ev_instr_ok cs' e.
Proof.
  unfold ev_instr_ok; intros. destruct (e_kind e); auto; rewrite (iof_sim cs cs') by assumption; assumption.
Qed.

(** T6: any run of events that all belong to other instruments. *)
Lemma run_other_instruments : forall i evs s,
  Forall (fun e => ev_instr_ok (cells s) e /\ e_instr e <> i) evs ->
  (forall j, iof (cells s) j = i ->
     nth j (cells (run_events evs s)) dummy_cell = nth j (cells s) dummy_cell) /\
  filter (fun a => iof (cells s) a =? i) (active (run_events evs s)) =
  filter (fun a => iof (cells s) a =? i) (active s) /\
  is_sus i (sus (run_events evs s)) = is_sus i (sus s).
Proof.
  intros i. induction evs; intros s H; cbn [run_events fold_left]; [repeat split; auto|].
  inversion H as [|e l [H1 H2] H3]; subst.
  destruct (step_other_instrument s a i H1 H2) as [A1 [A2 A3]].
  pose proof (step_sim s a) as S.
  assert (F : forall b, (iof (cells (step s a)) b =? i) = (iof (cells s) b =? i)) by (intros; rewrite (iof_sim _ _ b S); reflexivity).
  destruct (IHevs (step s a)) as [B1 [B2 B3]].
  { eapply Forall_impl; [|exact H3]. cbv beta. intros e [E1 E2]. split; [|exact E2].
    eapply ev_instr_ok_sim; [exact S | exact E1]. }
  fold (run_events evs (step s a)). repeat split.
  - intros j Hj. rewrite B1 by (rewrite (iof_sim _ _ j S); exact Hj). apply A1. exact Hj.
  - rewrite <- A2.
    rewrite !(filter_ext (fun a0 => iof (cells s) a0 =? i) (fun a0 => iof (cells (step s a)) a0 =? i))
      by (intros; symmetry; apply F).
    exact B2.
  - rewrite B3. exact A3.
Qed.
