(** Proofs/WfExamples.v — C11: concrete instances (non-vacuity).  A sequence with every
    repeated field populated is well-formed; each modelled operation accepts it and returns
    a well-formed result computed in the kernel; the predicate is not trivially true. *)
From Coq Require Import ZArith List Bool.
From NS Require Import Base.Sx Base.NoteSeq Gen.G02 Model.Wf Model.WfOps.
From NS Require Model.TimeOps Model.Extract Model.Split Model.Transpose Model.Sustain.
Import ListNotations.
Local Open Scope Z_scope.

(** pitched note 4..8 on instrument 0 held by a pedal pressed at 5 and released at 10, a drum note 6..12 that
    ends last, two tempos stored OUT of time order, a beat, a pitch bend, two sections *)
Definition ex : seq :=
  mkSeq [mkNote 60 100 4 8 0 0 false 0 0 0; mkNote 36 90 6 12 9 0 true 0 0 0]
        [mkTempo 6 90; mkTempo 0 120] [mkTsig 0 4 4] [mkKsig 0 0 0]
        [mkText 2 0 [] 2; mkText 7 0 [] 2] [mkCc 5 0 64 127 0 0 false; mkCc 10 0 64 0 0 0 false] [mkBend 3 100 0 0 false]
        [mkSect 0 1; mkSect 6 2] 12 0 0 0 (0, 0) 220 0.

Lemma examples :
  wfb ex = true /\
  (* the predicate rejects: total_time before a note end, a note ending before it starts, a negative event *)
  wfb (with_total ex 11) = false /\
  wfb (mkSeq [mkNote 60 100 4 3 0 0 false 0 0 0] [] [] [] [] [] [] [] 12 0 0 0 (0, 0) 220 0) = false /\
  wfb (mkSeq [] [] [] [] [] [mkCc (-1) 0 64 0 0 0 false] [] [] 12 0 0 0 (0, 0) 220 0) = false /\
  (exists r, TimeOps.shift 3 ex = TimeOps.Ok r /\ wfb r = true /\ s_total r = 15) /\
  (exists r, TimeOps.stretch 3 2 ex = TimeOps.Ok r /\ wfb r = true /\ s_total r = 18) /\
  (exists r, Extract.trim ex 5 10 = Extract.Ok r /\ wfb r = true /\
             map (fun n => (n_start n, n_end n)) (s_notes r) = [(6, 10)] /\ s_total r = 10) /\
  (exists p q, Split.split_hop ex 7 false = Extract.Ok [p; q] /\ wfb p = true /\ wfb q = true /\
               map (fun n => (n_start n, n_end n)) (s_notes p) = [(4, 7); (6, 7)] /\ s_notes q = []) /\
  (exists r, Transpose.transpose_ns ex 80 0 127 false = Some (r, 1) /\ wfb r = true /\
             map n_pitch (s_notes r) = [36] /\ s_total r = 12) /\
  (exists r, Sustain.apply_sustain 64 ex = Some r /\ wfb r = true /\
             map (fun n => (n_start n, n_end n)) (s_notes r) = [(4, 10); (6, 12)]) /\
  (exists r, TimeOps.concatenate [ex; ex] [] = TimeOps.Ok r /\ wfb r = true /\ s_total r = 24 /\
             length (s_notes r) = 4%nat /\ map tp_time (s_tempos r) = [0; 6; 12; 18]) /\
  (exists r, TimeOps.repeat_to_duration ex 20 None = TimeOps.Ok r /\ wfb r = true /\
             map (fun n => (n_start n, n_end n)) (s_notes r) = [(4, 8); (6, 12); (16, 20); (18, 20)]) /\
  wfb (TimeOps.remove_redundant ex) = true /\
  wfb (merge_sequences [ex; with_total ex 20]) = true /\ s_total (merge_sequences [ex; with_total ex 20]) = 20 /\
  (exists r, expand_section_groups ex true [2; 1; 2] = EOk r /\ wfb r = true /\ s_total r = 18 /\
             map (fun n => (n_start n, n_end n)) (s_notes r) = [(0, 6); (10, 12); (12, 18)]) /\
  expand_section_groups ex true [3] = EErr XKey /\
  (exists r, TimeOps.adjust (fun t => 2 * t + 1) None ex = TimeOps.Ok (r, 0) /\ wfb r = true /\ s_total r = 25) /\
  TimeOps.adjust (fun t => 10 - t) None ex = TimeOps.Err TimeOps.EAdjust.
Proof. vm_compute. repeat split; try reflexivity; repeat eexists; reflexivity. Qed.

(** The well-formedness theorem is FALSE of merge_sequences as it was before /repo 0c555ce:
    a long sequence merged with a shorter one keeps the shorter total_time. *)
Lemma merge_orig_refuted :
  exists ss, forallb wfb ss = true /\ wfb (merge_sequences_orig ss) = false /\ wfb (merge_sequences ss) = true.
Proof.
  exists [mkSeq [mkNote 60 100 0 5 0 0 false 0 0 0] [] [] [] [] [] [] [] 5 0 0 0 (0, 0) 220 0;
          mkSeq [mkNote 62 100 0 2 0 0 false 0 0 0] [] [] [] [] [] [] [] 2 0 0 0 (0, 0) 220 0].
  vm_compute. repeat split; reflexivity.
Qed.
