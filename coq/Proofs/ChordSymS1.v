(** Proofs/ChordSymS1.v — shard 1 of 4 of the complete enumeration for C15:
    all pitch-class sets S with S /\ {0,1} = {0}, every bass, and for sets of at most
    4 classes every first-occurrence order; evaluated by the kernel VM at Qed. *)
From Coq Require Import ZArith List Bool.
From NS Require Import Gen.G15 Model.ChordSym Proofs.ChordSym.
Import ListNotations.
Local Open Scope Z_scope.

Lemma shard_S1_fast : check_shard [0] = true.
Proof. vm_cast_no_check (@eq_refl bool true). Qed.

Lemma shard_S1_ok : forallb check_set (shard [0]) = true.
Proof. exact (check_shard_sound _ shard_S1_fast). Qed.
