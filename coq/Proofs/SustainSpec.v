(** Proofs/SustainSpec.v — C14: inside the quantifier the result is the
    declarative specification ([sustain_refines_spec]).

    Simulation invariant over the sorted event list [evs = done ++ rest]:
    every non-drum note is
      - pending  (its NOTE_ON is in [rest]): untouched, not in the active list;
      - active   (in the list): untouched; and once its NOTE_OFF has been
                 processed it is HELD: the pedal flag of its instrument is down,
                 the declarative pedal state at its end is "down", no release of
                 that pedal later than its end has been processed, and every
                 restrike of its pitch at or after its end is still pending;
      - finished (processed, not in the list): its cell carries [spec_end].
    The pedal flags are [last_pedal] of the processed prefix, which at every
    note event equals the declarative [pedal_down] at that time
    ([pedal_at_note_event]).  [i_b2] records, for a sounding note, that a
    restrike at exactly its end was processed with the pedal up. *)
From Coq Require Import ZArith List Bool Lia ZifyBool Permutation.
From NS Require Import Base.NoteSeq Gen.G14 Model.Sustain Proofs.Sustain Proofs.SustainFrame
  Proofs.SustainMono Proofs.SustainSpecA Proofs.SustainSpecB.
Import ListNotations.
Local Open Scope Z_scope.
Ltac Zify.zify_post_hook ::= Z.to_euclidean_division_equations.

Lemma event_eq_dec : forall a b : event, {a = b} + {a <> b}.
Proof. decide equality; [apply Z.eq_dec | apply Nat.eq_dec | decide equality | apply Z.eq_dec]. Qed.

Lemma set_end_id : forall n, set_end n (n_end n) = n.
Proof. intros []. reflexivity. Qed.

Lemma NoDup_snoc : forall {A} (l : list A) x, NoDup l -> ~ In x l -> NoDup (l ++ [x]).
Proof.
  induction l; intros x ND NI; cbn [app]; [constructor; [intros []|constructor]|].
  inversion ND; subst. constructor.
  - intros C. apply in_app_iff in C. destruct C as [C|[C|[]]]; [contradiction|]. subst. apply NI. left. reflexivity.
  - apply IHl; [assumption|]. intros C. apply NI. right. exact C.
Qed.

Lemma is_sus_off_eq : forall i l, is_sus i (sus_off i l) = false.
Proof.
  unfold is_sus, sus_off. induction l; cbn [filter existsb]; auto.
  destruct (a =? i) eqn:E; cbn [negb existsb]; [exact IHl|]. rewrite IHl. assert ((i =? a) = false) as -> by lia. reflexivity.
Qed.

Lemma on_refs_app : forall a b, on_refs (a ++ b) = on_refs a ++ on_refs b.
Proof. intros. unfold on_refs. rewrite filter_app, map_app. reflexivity. Qed.

Section Spec.
  Variable ctl : Z.
  Variable ns : list note.
  Variable ccs : list cc.
  Hypothesis Hord : ordered_b ns = true.
  Hypothesis Hnc : no_clash ns = true.
  Let evs := sorted_events ctl ns ccs.
  Let cs0 := init_cells ns.

  Definition V (k : nat) (n : note) : Prop := nth_error ns k = Some n /\ n_drum n = false.
  Definition on_ev (k : nat) (n : note) : event := mkEv (n_start n) KNoteOn k (n_instr n).
  Definition off_ev (k : nat) (n : note) : event := mkEv (n_end n) KNoteOff k (n_instr n).
  Definition pe (i : Z) : list cc := pedal_events ctl i ccs.
  Definition same (n m : note) : Prop := n_instr m = n_instr n /\ n_pitch m = n_pitch n.

  Lemma V_fun : forall k n n', V k n -> V k n' -> n = n'.
  Proof. intros k n n' [A _] [B _]. congruence. Qed.

  Lemma ev_in : forall k n, V k n -> In (on_ev k n) evs /\ In (off_ev k n) evs.
  Proof.
    intros k n [N D]. unfold evs, sorted_events. split.
    - eapply Permutation_in; [symmetry; apply sort_events_perm|]. unfold build_events.
      rewrite !in_app_iff. left. unfold note_events. apply in_map_iff. exists (k, n).
      split; [reflexivity|]. apply filter_In. split; [apply In_indexed; exact N | cbn [snd]; rewrite D; reflexivity].
    - eapply Permutation_in; [symmetry; apply sort_events_perm|]. unfold build_events.
      rewrite !in_app_iff. right. left. unfold note_events. apply in_map_iff. exists (k, n).
      split; [reflexivity|]. apply filter_In. split; [apply In_indexed; exact N | cbn [snd]; rewrite D; reflexivity].
  Qed.

  Lemma ev_on_form : forall x, In x evs -> e_kind x = KNoteOn -> exists n, V (e_ref x) n /\ x = on_ev (e_ref x) n.
  Proof.
    intros x Hx K. pose proof (sorted_events_wf ctl ns ccs) as W. rewrite Forall_forall in W.
    specialize (W x Hx). unfold ev_wf in W. rewrite K in W. destruct W as [n [A [B [C D]]]].
    exists n. split; [split; assumption|]. destruct x; cbn in *. subst. reflexivity.
  Qed.

  Lemma ev_off_form : forall x, In x evs -> e_kind x = KNoteOff -> exists n, V (e_ref x) n /\ x = off_ev (e_ref x) n.
  Proof.
    intros x Hx K. pose proof (sorted_events_wf ctl ns ccs) as W. rewrite Forall_forall in W.
    specialize (W x Hx). unfold ev_wf in W. rewrite K in W. destruct W as [n [A [B [C D]]]].
    exists n. split; [split; assumption|]. destruct x; cbn in *. subst. reflexivity.
  Qed.

  Lemma on_unique : forall done j nj rest, evs = done ++ on_ev j nj :: rest -> ~ In (on_ev j nj) rest.
  Proof.
    intros done j nj rest E C.
    assert (ND : NoDup (on_refs evs)).
    { unfold evs, sorted_events. eapply Permutation_NoDup; [apply on_refs_perm; symmetry; apply sort_events_perm | apply on_refs_build]. }
    rewrite E, on_refs_app in ND.
    assert (on_refs (on_ev j nj :: rest) = j :: on_refs rest) as Q by reflexivity.
    rewrite Q in ND. apply NoDup_remove_2 in ND. apply ND. apply in_or_app. right.
    unfold on_refs. apply in_map_iff. exists (on_ev j nj). split; [reflexivity|]. apply filter_In. split; [exact C | reflexivity].
  Qed.

  (** Two distinct non-drum notes of one pitch and instrument: the one whose NOTE_ON
      comes first ends by the time the other starts, and they start apart. *)
  Lemma restrike_facts : forall a na j nj, V a na -> V j nj -> a <> j -> same na nj ->
    n_start na <= n_start nj -> n_start na < n_start nj /\ n_end na <= n_start nj.
  Proof.
    intros a na j nj [A1 A2] [J1 J2] N [S1 S2] L.
    pose proof (no_clash_nth ns a j na nj Hnc A1 J1 N) as C.
    pose proof (ordered_b_nth _ _ _ Hord J1 J2) as O.
    unfold clash in C. rewrite A2, J2 in C. cbn [negb andb] in C. lia.
  Qed.

  Lemma same_value_same_index : forall a na k nk, V a na -> V k nk ->
    n_instr na = n_instr nk -> n_pitch na = n_pitch nk -> n_start na = n_start nk -> a = k.
  Proof.
    intros a na k nk [A1 A2] [K1 K2] I P S. destruct (Nat.eq_dec a k) as [|N]; auto. exfalso.
    pose proof (no_clash_nth ns a k na nk Hnc A1 K1 N) as C.
    unfold clash in C. rewrite A2, K2 in C. cbn [negb andb] in C. lia.
  Qed.

  Definition held (k : nat) (n : note) (done rest : list event) : Prop :=
    last_pedal (n_instr n) done = true /\
    pedal_down (n_end n) (pe (n_instr n)) = true /\
    (forall x, In x done -> e_kind x = KSusOff -> e_instr x = n_instr n -> e_time x <= n_end n) /\
    (forall m nm, V m nm -> m <> k -> same n nm -> n_end n <= n_start nm -> In (on_ev m nm) rest).

  Record inv (s : st) (done rest : list event) : Prop := {
    i_sim : sim cs0 (cells s);
    i_nd : NoDup (active s);
    i_act : forall a, In a (active s) -> exists n, V a n /\ ~ In (on_ev a n) rest;
    i_sus : forall i, is_sus i (sus s) = last_pedal i done;
    i_live : forall k n, V k n -> In (on_ev k n) rest \/ In k (active s) ->
             nth k (cells s) dummy_cell = mkCell n true;
    i_done : forall k n, V k n -> ~ In (on_ev k n) rest -> ~ In k (active s) ->
             nth k (cells s) dummy_cell = mkCell (set_end n (spec_end ctl ns ccs k n)) true;
    i_held : forall k n, V k n -> In k (active s) -> ~ In (off_ev k n) rest -> held k n done rest;
    i_b2 : forall k n m nm, V k n -> In k (active s) -> V m nm -> m <> k -> same n nm ->
           n_end n <= n_start nm -> ~ In (on_ev m nm) rest ->
           pedal_down (n_start nm) (pe (n_instr n)) = false }.

  (** Facts about one step [evs = done ++ e :: rest]. *)
  Lemma split_facts : forall done e rest, evs = done ++ e :: rest ->
    (forall x, In x done -> ev_lt e x = false) /\ (forall y, In y rest -> ev_lt y e = false).
  Proof.
    intros done e rest E.
    pose proof (sort_events_sorted (build_events ctl ns ccs)) as S. fold (sorted_events ctl ns ccs) in S.
    fold evs in S. rewrite E in S. apply sorted_split in S. destruct S as [_ [S2 S3]].
    rewrite Forall_forall in S2, S3. split; assumption.
  Qed.

  Lemma in_split3 : forall (x : event) done e rest, In x (done ++ e :: rest) -> In x done \/ x = e \/ In x rest.
  Proof. intros. apply in_app_iff in H. destruct H as [H|[H|H]]; auto. Qed.

  Lemma act_pending : forall s done rest k n, inv s done rest -> V k n -> In k (active s) -> ~ In (on_ev k n) rest.
  Proof.
    intros s done rest k n I Vk Hk. destruct (i_act _ _ _ I k Hk) as [n' [V' N']].
    rewrite (V_fun k n n' Vk V'). exact N'.
  Qed.

  Lemma act_cell : forall s done rest k n, inv s done rest -> V k n -> In k (active s) -> cell_at (cells s) k = n.
  Proof. intros. unfold cell_at. rewrite (i_live _ _ _ H k n H0 (or_intror H1)). reflexivity. Qed.

  Lemma V_range : forall s done rest k n, inv s done rest -> V k n -> (k < length (cells s))%nat.
  Proof.
    intros s done rest k n I [N _]. rewrite (sim_length _ _ (i_sim _ _ _ I)). unfold cs0, init_cells.
    rewrite map_length. apply nth_error_Some. congruence.
  Qed.

  Lemma held_transfer : forall k n done e rest,
    held k n done (e :: rest) ->
    ~ (e_kind e = KSusOff /\ e_instr e = n_instr n) ->
    (forall m nm, V m nm -> m <> k -> same n nm -> n_end n <= n_start nm -> e <> on_ev m nm) ->
    held k n (done ++ [e]) rest.
  Proof.
    intros k n done e rest [H1 [H2 [H3 H4]]] NR NO. split; [|split; [exact H2|split]].
    - rewrite last_pedal_snoc, H1. unfold lp_step. destruct (e_kind e) eqn:K; auto.
      + destruct (e_instr e =? n_instr n); reflexivity.
      + destruct (e_instr e =? n_instr n) eqn:Q; [|reflexivity]. exfalso. apply NR. split; [reflexivity | lia].
    - intros x Hx Kx Ix. apply in_app_iff in Hx. destruct Hx as [Hx|[<-|[]]]; [apply H3; assumption|].
      exfalso. apply NR. split; assumption.
    - intros m nm Vm Nm Sm Lm. destruct (H4 m nm Vm Nm Sm Lm) as [C|C]; [|exact C].
      exfalso. apply (NO m nm Vm Nm Sm Lm). exact C.
  Qed.

  Lemma step_sus_on : forall s done e rest,
    evs = done ++ e :: rest -> e_kind e = KSusOn -> inv s done (e :: rest) -> inv (step s e) (done ++ [e]) rest.
  Proof.
    intros s done e rest E K I. unfold step. rewrite K.
    assert (NON : forall k n, e <> on_ev k n) by (intros k n C; rewrite C in K; discriminate).
    assert (NOFF : forall k n, e <> off_ev k n) by (intros k n C; rewrite C in K; discriminate).
    constructor; cbn [cells active sus].
    - apply I.
    - apply I.
    - intros a Ha. destruct (i_act _ _ _ I a Ha) as [n [Vn Nn]]. exists n. split; [exact Vn|].
      intros C. apply Nn. right. exact C.
    - intros i. rewrite last_pedal_snoc. unfold lp_step. rewrite K. rewrite <- (i_sus _ _ _ I i).
      unfold is_sus. cbn [existsb]. destruct (i =? e_instr e) eqn:A, (e_instr e =? i) eqn:B; try lia; reflexivity.
    - intros k n Vk [H|H]; apply (i_live _ _ _ I k n Vk); [left; right; exact H | right; exact H].
    - intros k n Vk N1 N2. apply (i_done _ _ _ I k n Vk); [|exact N2].
      intros [C|C]; [apply (NON k n C) | exact (N1 C)].
    - intros k n Vk Hk N. apply held_transfer.
      + apply (i_held _ _ _ I k n Vk Hk). intros [C|C]; [apply (NOFF k n C) | exact (N C)].
      + intros [C _]. congruence.
      + intros m nm _ _ _ _. apply NON.
    - intros k n m nm Vk Hk Vm Nm Sm Lm N. apply (i_b2 _ _ _ I k n m nm); auto.
      intros [C|C]; [apply (NON m nm C) | exact (N C)].
  Qed.


  Lemma step_sus_off : forall s done e rest,
    evs = done ++ e :: rest -> e_kind e = KSusOff -> inv s done (e :: rest) -> inv (step s e) (done ++ [e]) rest.
  Proof.
    intros s done e rest E K I. unfold step. rewrite K.
    destruct (split_facts done e rest E) as [SD SR].
    pose proof code_order as CO.
    assert (NON : forall k n, e <> on_ev k n) by (intros k n C; rewrite C in K; discriminate).
    assert (NOFF : forall k n, e <> off_ev k n) by (intros k n C; rewrite C in K; discriminate).
    pose proof (off_loop_sim (e_instr e) (e_time e) (active s) (cells s) (total s)) as SIM.
    destruct (off_loop_char (e_instr e) (e_time e) (active s) (cells s) (total s) (i_nd _ _ _ I)) as [A [B C]].
    { intros a Ha. destruct (i_act _ _ _ I a Ha) as [n [Vn _]]. apply (V_range s done (e :: rest) a n I Vn). }
    destruct (off_loop (e_instr e) (e_time e) (active s) (cells s) (total s)) as [[keep cs'] tot'] eqn:OL.
    cbn [fst snd] in *.
    assert (COND : forall k n, V k n -> In k (active s) ->
              off_cond (e_instr e) (e_time e) (cells s) k = (n_instr n =? e_instr e) && (n_end n <? e_time e)).
    { intros k n Vk Hk. unfold off_cond. rewrite (act_cell s done (e :: rest) k n I Vk Hk). reflexivity. }
    assert (KEEP : forall k, In k keep <-> In k (active s) /\ off_cond (e_instr e) (e_time e) (cells s) k = false).
    { intros. rewrite A, filter_In, negb_true_iff. tauto. }
    constructor; cbn [cells active sus].
    - eapply sim_trans; [apply (i_sim _ _ _ I) | exact SIM].
    - rewrite A. apply NoDup_filter. apply (i_nd _ _ _ I).
    - intros a Ha. apply KEEP in Ha. destruct (i_act _ _ _ I a (proj1 Ha)) as [n [Vn Nn]]. exists n.
      split; [exact Vn|]. intros X. apply Nn. right. exact X.
    - intros i. rewrite last_pedal_snoc. unfold lp_step. rewrite K. rewrite <- (i_sus _ _ _ I i).
      destruct (e_instr e =? i) eqn:Q.
      + assert (i = e_instr e) as -> by lia. apply is_sus_off_eq.
      + apply is_sus_off_neq. lia.
    - intros k n Vk H. rewrite C.
      + apply (i_live _ _ _ I k n Vk). destruct H as [H|H]; [left; right; exact H | right; apply KEEP in H; apply H].
      + intros [X Y]. destruct H as [H|H].
        * apply (act_pending s done (e :: rest) k n I Vk X). right. exact H.
        * apply KEEP in H. destruct H as [_ H]. congruence.
    - intros k n Vk N1 N2. destruct (in_dec Nat.eq_dec k (active s)) as [Hk|Hk].
      + assert (Ck : off_cond (e_instr e) (e_time e) (cells s) k = true).
        { destruct (off_cond (e_instr e) (e_time e) (cells s) k) eqn:Q; auto. exfalso. apply N2. apply KEEP. split; assumption. }
        rewrite (B k Hk Ck). rewrite (i_live _ _ _ I k n Vk (or_intror Hk)). unfold set_cell. cbn [c_n c_alive].
        f_equal. f_equal. symmetry. rewrite (COND k n Vk Hk) in Ck.
        assert (Ik : n_instr n = e_instr e) by lia. assert (Ek : n_end n < e_time e) by lia.
        assert (NOFFk : ~ In (off_ev k n) (e :: rest)).
        { intros [X|X]; [apply (NOFF k n X)|]. specialize (SR _ X). unfold ev_lt in SR. cbn [off_ev e_time] in SR. lia. }
        destruct (i_held _ _ _ I k n Vk Hk NOFFk) as [H1 [H2 [H3 H4]]].
        apply spec_end_at; [apply Vk | exact H2 | | | ].
        * left. destruct (pedal_event_from_cc ctl ns ccs (e_instr e) e) as [c0 [C1 C2]].
          { fold evs. rewrite E. apply in_or_app. right. left. reflexivity. }
          { split; [right; exact K | reflexivity]. }
          exists c0. assert (T0 : cc_time c0 = e_time e) by (rewrite C2; reflexivity).
          assert (O0 : is_on c0 = false).
          { unfold is_on. rewrite C2 in K. cbn [ev_of_cc e_kind] in K. destruct (64 <=? cc_val c0); [discriminate | reflexivity]. }
          split; [|exact T0]. split; [rewrite Ik; exact C1 | split; [exact O0 | lia]].
        * intros c [R1 [R2 R3]]. destruct (cc_in_events ctl ns ccs (n_instr n) c R1) as [X1 X2]. fold evs in X1.
          rewrite E in X1. apply in_split3 in X1. destruct X1 as [X1|[X1|X1]].
          -- exfalso. specialize (H3 _ X1). cbn [ev_of_cc e_kind e_instr e_time] in H3. unfold is_on in R2.
             rewrite R2 in H3. specialize (H3 eq_refl (proj2 X2)). lia.
          -- rewrite <- X1. cbn [ev_of_cc e_time]. lia.
          -- specialize (SR _ X1). unfold ev_lt in SR. cbn [ev_of_cc e_time] in SR. lia.
        * intros j m [M1 [M2 [M3 [M4 [M5 M6]]]]].
          destruct (H4 j m (conj M1 M3) M2 (conj M4 M5) M6) as [X|X]; [exfalso; apply (NON j m X)|].
          specialize (SR _ X). unfold ev_lt in SR. cbn [on_ev e_time] in SR. lia.
      + rewrite C by (intros [X _]; contradiction). apply (i_done _ _ _ I k n Vk); [|exact Hk].
        intros [X|X]; [apply (NON k n X) | exact (N1 X)].
    - intros k n Vk Hk N. apply KEEP in Hk. destruct Hk as [Hk Ck].
      assert (NOFFk : ~ In (off_ev k n) (e :: rest)) by (intros [X|X]; [apply (NOFF k n X) | exact (N X)]).
      apply held_transfer; [apply (i_held _ _ _ I k n Vk Hk NOFFk) | | intros; apply NON].
      intros [_ Q]. rewrite (COND k n Vk Hk) in Ck.
      destruct (ev_in k n Vk) as [_ OFFIN]. rewrite E in OFFIN. apply in_split3 in OFFIN.
      destruct OFFIN as [X|[X|X]]; [|apply (NOFF k n); symmetry; exact X | exact (N X)].
      specialize (SD _ X). unfold ev_lt in SD. cbn [off_ev e_time e_kind] in SD. rewrite K in SD.
      cbn [kind_code] in SD. lia.
    - intros k n m nm Vk Hk Vm Nm Sm Lm N. apply KEEP in Hk. apply (i_b2 _ _ _ I k n m nm); auto; [apply Hk|].
      intros [X|X]; [apply (NON m nm X) | exact (N X)].
  Qed.


  Lemma step_note_off : forall s done e rest,
    evs = done ++ e :: rest -> e_kind e = KNoteOff -> inv s done (e :: rest) -> inv (step s e) (done ++ [e]) rest.
  Proof.
    intros s done e rest E K I.
    destruct (split_facts done e rest E) as [SD SR]. pose proof code_order as CO.
    destruct (ev_off_form e) as [n0 [V0 E0]]; [rewrite E; apply in_or_app; right; left; reflexivity | exact K |].
    assert (NON : forall k n, e <> on_ev k n) by (intros k n C; rewrite C in K; discriminate).
    assert (OFFK : forall k n, e = off_ev k n -> k = e_ref e) by (intros k n C; rewrite C; reflexivity).
    assert (I0 : e_instr e = n_instr n0) by (rewrite E0; reflexivity).
    assert (T0 : e_time e = n_end n0) by (rewrite E0; reflexivity).
    assert (NSUS : forall i, last_pedal i (done ++ [e]) = last_pedal i done)
      by (intros; rewrite last_pedal_snoc; unfold lp_step; rewrite K; reflexivity).
    assert (PD : forall i, last_pedal i done = pedal_down (e_time e) (pe i))
      by (intros; apply (pedal_at_note_event ctl ns ccs i done e rest E (or_intror K))).
    assert (WEAK_ON : forall k n, ~ In (on_ev k n) rest -> ~ In (on_ev k n) (e :: rest))
      by (intros k n N [X|X]; [apply (NON k n X) | exact (N X)]).
    assert (HT : forall k n, V k n -> In k (active s) -> e <> off_ev k n -> ~ In (off_ev k n) rest ->
                 held k n (done ++ [e]) rest).
    { intros k n Vk Hk Q N. apply held_transfer.
      - apply (i_held _ _ _ I k n Vk Hk). intros [X|X]; [exact (Q X) | exact (N X)].
      - intros [C _]. congruence.
      - intros m nm _ _ _ _. apply NON. }
    unfold step. rewrite K. destruct (is_sus (e_instr e) (sus s)) eqn:SUS.
    - (* pedal down: the note stays in the list and is now held *)
      assert (PDT : pedal_down (n_end n0) (pe (n_instr n0)) = true)
        by (rewrite <- T0, <- I0, <- PD, <- (i_sus _ _ _ I); exact SUS).
      constructor.
      + apply I.
      + apply I.
      + intros a Ha. destruct (i_act _ _ _ I a Ha) as [n [Vn Nn]]. exists n. split; [exact Vn|].
        intros X. apply Nn. right. exact X.
      + intros i. rewrite NSUS. apply I.
      + intros k n Vk [H|H]; apply (i_live _ _ _ I k n Vk); [left; right; exact H | right; exact H].
      + intros k n Vk N1 N2. apply (i_done _ _ _ I k n Vk); auto.
      + intros k n Vk Hk N. destruct (event_eq_dec e (off_ev k n)) as [Q|Q]; [|apply HT; assumption].
        assert (k = e_ref e) by (apply (OFFK k n Q)). subst k. rewrite (V_fun _ n n0 Vk V0) in *.
        split; [|split; [exact PDT|split]].
        * rewrite NSUS, <- (i_sus _ _ _ I), <- I0. exact SUS.
        * intros x Hx Kx Ix. apply in_app_iff in Hx. destruct Hx as [Hx|[<-|[]]]; [|congruence].
          specialize (SD _ Hx). unfold ev_lt in SD. lia.
        * intros m nm Vm Nm Sm Lm. destruct (in_dec event_eq_dec (on_ev m nm) rest) as [Y|Y]; [exact Y|]. exfalso.
          pose proof (i_b2 _ _ _ I (e_ref e) n0 m nm V0 Hk Vm Nm Sm Lm (WEAK_ON m nm Y)) as B2.
          destruct (ev_in m nm Vm) as [ONIN _]. rewrite E in ONIN. apply in_split3 in ONIN.
          destruct ONIN as [X|[X|X]]; [|apply (NON m nm); symmetry; exact X | exact (Y X)].
          specialize (SD _ X). unfold ev_lt in SD. cbn [on_ev e_time] in SD.
          assert (n_start nm = n_end n0) as Q2 by lia. rewrite Q2 in B2. congruence.
      + intros k n m nm Vk Hk Vm Nm Sm Lm N. apply (i_b2 _ _ _ I k n m nm); auto.
    - (* pedal up *)
      assert (PDF : pedal_down (n_end n0) (pe (n_instr n0)) = false)
        by (rewrite <- T0, <- I0, <- PD, <- (i_sus _ _ _ I); exact SUS).
      destruct (in_dec Nat.eq_dec (e_ref e) (active s)) as [H0|H0].
      + assert (C0 : cell_at (cells s) (e_ref e) = n0) by (apply (act_cell s done (e :: rest) _ n0 I V0 H0)).
        destruct (remove_first_eq_unique (cells s) (e_ref e) (active s) (i_nd _ _ _ I) H0) as [RA RN].
        { intros a Ha Q. destruct (i_act _ _ _ I a Ha) as [na [Va _]].
          rewrite (act_cell s done (e :: rest) a na I Va Ha), C0 in Q. subst na.
          apply (same_value_same_index a n0 (e_ref e) n0 Va V0); reflexivity. }
        constructor; cbn [cells active sus].
        * apply I.
        * exact RN.
        * intros a Ha. apply RA in Ha. destruct (i_act _ _ _ I a (proj1 Ha)) as [n [Vn Nn]]. exists n.
          split; [exact Vn|]. intros X. apply Nn. right. exact X.
        * intros i. rewrite NSUS. apply I.
        * intros k n Vk [H|H]; apply (i_live _ _ _ I k n Vk); [left; right; exact H | right; apply RA in H; apply H].
        * intros k n Vk N1 N2. destruct (Nat.eq_dec k (e_ref e)) as [->|NE].
          -- rewrite (V_fun _ n n0 Vk V0) in *. rewrite (i_live _ _ _ I _ n0 V0 (or_intror H0)).
             rewrite (spec_end_up ctl ns ccs _ n0 (proj2 V0) PDF), set_end_id. reflexivity.
          -- apply (i_done _ _ _ I k n Vk); auto. intros X. apply N2. apply RA. split; assumption.
        * intros k n Vk Hk N. apply RA in Hk. destruct Hk as [Hk NE]. apply HT; auto.
          intros Q. apply NE. apply (OFFK k n Q).
        * intros k n m nm Vk Hk Vm Nm Sm Lm N. apply RA in Hk. apply (i_b2 _ _ _ I k n m nm); auto. apply Hk.
      + rewrite remove_first_eq_none.
        * constructor; cbn [cells active sus].
          -- apply I.
          -- apply I.
          -- intros a Ha. destruct (i_act _ _ _ I a Ha) as [n [Vn Nn]]. exists n. split; [exact Vn|].
             intros X. apply Nn. right. exact X.
          -- intros i. rewrite NSUS. apply I.
          -- intros k n Vk [H|H]; apply (i_live _ _ _ I k n Vk); [left; right; exact H | right; exact H].
          -- intros k n Vk N1 N2. apply (i_done _ _ _ I k n Vk); auto.
          -- intros k n Vk Hk N. apply HT; auto. intros Q. apply H0. rewrite <- (OFFK k n Q). exact Hk.
          -- intros k n m nm Vk Hk Vm Nm Sm Lm N. apply (i_b2 _ _ _ I k n m nm); auto.
        * intros a Ha Q. destruct (i_act _ _ _ I a Ha) as [na [Va _]].
          rewrite (act_cell s done (e :: rest) a na I Va Ha) in Q.
          pose proof (sim_nth _ _ (e_ref e) (i_sim _ _ _ I)) as S. rewrite <- Q in S.
          unfold cs0 in S. rewrite (cell_at_init _ _ _ (proj1 V0)) in S. apply strip_fields in S.
          destruct S as [S1 [_ [S3 [S4 _]]]].
          apply H0. rewrite <- (same_value_same_index a na (e_ref e) n0 Va V0 S4 S1 S3). exact Ha.
  Qed.


  Lemma step_note_on : forall s done e rest,
    evs = done ++ e :: rest -> e_kind e = KNoteOn -> inv s done (e :: rest) -> inv (step s e) (done ++ [e]) rest.
  Proof.
    intros s done e rest E K I.
    destruct (split_facts done e rest E) as [SD SR]. pose proof code_order as CO.
    destruct (ev_on_form e) as [nj [Vj Ej]]; [rewrite E; apply in_or_app; right; left; reflexivity | exact K |].
    assert (NOFF : forall k n, e <> off_ev k n) by (intros k n C; rewrite C in K; discriminate).
    assert (ONK : forall k n, V k n -> e = on_ev k n -> k = e_ref e /\ n = nj).
    { intros k n Vk C. assert (k = e_ref e) by (rewrite C; reflexivity). subst k. split; [reflexivity | apply (V_fun _ n nj Vk Vj)]. }
    assert (I0 : e_instr e = n_instr nj) by (rewrite Ej; reflexivity).
    assert (T0 : e_time e = n_start nj) by (rewrite Ej; reflexivity).
    assert (NSUS : forall i, last_pedal i (done ++ [e]) = last_pedal i done)
      by (intros; rewrite last_pedal_snoc; unfold lp_step; rewrite K; reflexivity).
    assert (PD : forall i, last_pedal i done = pedal_down (e_time e) (pe i))
      by (intros; apply (pedal_at_note_event ctl ns ccs i done e rest E (or_introl K))).
    assert (PENDJ : In (on_ev (e_ref e) nj) (e :: rest)) by (left; exact Ej).
    assert (NJ : ~ In (e_ref e) (active s)).
    { intros C. apply (act_pending s done (e :: rest) _ nj I Vj C). exact PENDJ. }
    assert (CJ : cell_at (cells s) (e_ref e) = nj).
    { unfold cell_at. rewrite (i_live _ _ _ I _ nj Vj (or_introl PENDJ)). reflexivity. }
    assert (NJR : ~ In (on_ev (e_ref e) nj) rest) by (apply (on_unique done); rewrite <- Ej; exact E).
    pose proof (ordered_b_nth _ _ _ Hord (proj1 Vj) (proj2 Vj)) as ORDJ.
    assert (OFFJ : In (off_ev (e_ref e) nj) rest).
    { destruct (ev_in _ nj Vj) as [_ X]. rewrite E in X. apply in_split3 in X.
      destruct X as [X|[X|X]]; [|exfalso; apply (NOFF (e_ref e) nj); symmetry; exact X | exact X].
      exfalso. specialize (SD _ X). unfold ev_lt in SD. cbn [off_ev e_time e_kind] in SD. rewrite K in SD.
      cbn [kind_code] in SD. lia. }
    assert (EARLY : forall a na, V a na -> ~ In (on_ev a na) (e :: rest) -> n_start na <= n_start nj).
    { intros a na Va N. destruct (ev_in a na Va) as [X _]. rewrite E in X. apply in_split3 in X.
      destruct X as [X|[X|X]]; [|exfalso; apply N; left; symmetry; exact X | exfalso; apply N; right; exact X].
      specialize (SD _ X). unfold ev_lt in SD. cbn [on_ev e_time] in SD. lia. }
    assert (ACT_SAME : forall a na, V a na -> In a (active s) -> same na nj ->
              n_start na < n_start nj /\ n_end na <= n_start nj).
    { intros a na Va Ha Sa. apply (restrike_facts a na (e_ref e) nj Va Vj); [intros ->; contradiction | exact Sa|].
      apply (EARLY a na Va). apply (act_pending s done (e :: rest) a na I Va Ha). }
    assert (B2J : forall m nm, V m nm -> m <> e_ref e -> same nj nm -> n_end nj <= n_start nm ->
              ~ In (on_ev m nm) rest -> False).
    { intros m nm Vm Nm [S1 S2] Lm N.
      assert (n_start nm <= n_start nj).
      { apply (EARLY m nm Vm). intros [X|X]; [|exact (N X)]. apply Nm. apply (ONK m nm Vm X). }
      apply Nm. apply (same_value_same_index m nm (e_ref e) nj Vm Vj); [exact S1 | exact S2 | lia]. }
    assert (WEAK_ON : forall k n, V k n -> k <> e_ref e -> ~ In (on_ev k n) rest -> ~ In (on_ev k n) (e :: rest)).
    { intros k n Vk NE N [X|X]; [apply NE; apply (ONK k n Vk X) | exact (N X)]. }
    assert (WEAK_OFF : forall k n, ~ In (off_ev k n) rest -> ~ In (off_ev k n) (e :: rest))
      by (intros k n N [X|X]; [apply (NOFF k n X) | exact (N X)]).
    assert (ACTJ : exists n, V (e_ref e) n /\ ~ In (on_ev (e_ref e) n) rest) by (exists nj; split; assumption).
    unfold step. rewrite K. destruct (is_sus (e_instr e) (sus s)) eqn:SUS.
    - (* pedal down: every active note of this pitch on this instrument ends here *)
      rewrite CJ.
      assert (COND : forall k n, V k n -> In k (active s) ->
                on_cond (e_instr e) (n_pitch nj) (cells s) k = (n_instr n =? e_instr e) && (n_pitch n =? n_pitch nj)).
      { intros k n Vk Hk. unfold on_cond. rewrite (act_cell s done (e :: rest) k n I Vk Hk). reflexivity. }
      pose proof (on_loop_sim (e_instr e) (n_pitch nj) (e_time e) (active s) (cells s)) as SIM.
      destruct (on_loop_char (e_instr e) (n_pitch nj) (e_time e) (active s) (cells s) (i_nd _ _ _ I)) as [A [B C]].
      { intros a Ha. destruct (i_act _ _ _ I a Ha) as [n [Vn _]]. apply (V_range s done (e :: rest) a n I Vn). }
      { intros a Ha Ca. destruct (i_act _ _ _ I a Ha) as [na [Va _]]. rewrite (COND a na Va Ha) in Ca.
        rewrite (act_cell s done (e :: rest) a na I Va Ha).
        destruct (ACT_SAME a na Va Ha) as [Q _]; [split; lia | lia]. }
      destruct (on_loop (e_instr e) (n_pitch nj) (e_time e) (active s) (cells s)) as [keep cs'] eqn:OL.
      cbn [fst snd] in *.
      assert (KEEP : forall k, In k keep <-> In k (active s) /\ on_cond (e_instr e) (n_pitch nj) (cells s) k = false).
      { intros. rewrite A, filter_In, negb_true_iff. tauto. }
      assert (CSAME : forall k n, V k n -> In k (active s) ->
                on_cond (e_instr e) (n_pitch nj) (cells s) k = true -> same n nj).
      { intros k n Vk Hk Ck. rewrite (COND k n Vk Hk) in Ck. split; lia. }
      assert (SAMEC : forall k n, V k n -> In k (active s) -> same n nj ->
                on_cond (e_instr e) (n_pitch nj) (cells s) k = true).
      { intros k n Vk Hk [S1 S2]. rewrite (COND k n Vk Hk). lia. }
      constructor; cbn [cells active sus].
      + eapply sim_trans; [apply (i_sim _ _ _ I) | exact SIM].
      + apply NoDup_snoc; [rewrite A; apply NoDup_filter; apply (i_nd _ _ _ I)|].
        intros X. apply KEEP in X. apply NJ. apply X.
      + intros a Ha. apply in_app_iff in Ha. destruct Ha as [Ha|[<-|[]]]; [|exact ACTJ].
        apply KEEP in Ha. destruct (i_act _ _ _ I a (proj1 Ha)) as [n [Vn Nn]]. exists n.
        split; [exact Vn|]. intros X. apply Nn. right. exact X.
      + intros i. rewrite NSUS. apply I.
      + intros k n Vk H. rewrite C.
        * apply (i_live _ _ _ I k n Vk). destruct H as [H|H]; [left; right; exact H|].
          apply in_app_iff in H. destruct H as [H|[<-|[]]]; [right; apply KEEP in H; apply H|].
          left. rewrite (V_fun _ n nj Vk Vj). exact PENDJ.
        * intros [X Y]. destruct H as [H|H].
          -- apply (act_pending s done (e :: rest) k n I Vk X). right. exact H.
          -- apply in_app_iff in H. destruct H as [H|[<-|[]]]; [|exact (NJ X)].
             apply KEEP in H. destruct H as [_ H]. congruence.
      + intros k n Vk N1 N2.
        assert (NE : k <> e_ref e) by (intros ->; apply N2; apply in_or_app; right; left; reflexivity).
        destruct (in_dec Nat.eq_dec k (active s)) as [Hk|Hk].
        * assert (Ck : on_cond (e_instr e) (n_pitch nj) (cells s) k = true).
          { destruct (on_cond (e_instr e) (n_pitch nj) (cells s) k) eqn:Q; auto. exfalso. apply N2.
            apply in_or_app. left. apply KEEP. split; assumption. }
          rewrite (B k Hk Ck). rewrite (i_live _ _ _ I k n Vk (or_intror Hk)). unfold set_cell. cbn [c_n c_alive].
          f_equal. f_equal. symmetry.
          pose proof (CSAME k n Vk Hk Ck) as Sk. destruct (ACT_SAME k n Vk Hk Sk) as [Q1 Q2]. destruct Sk as [S1 S2].
          assert (CAND : exists j m, res_cand ns k n j m /\ n_start m = e_time e).
          { exists (e_ref e), nj. split; [|symmetry; exact T0].
            split; [apply Vj|]. split; [congruence|]. split; [apply Vj|]. repeat split; assumption. }
          destruct (Z.eq_dec (n_end n) (n_start nj)) as [EQ|NEQ].
          -- apply spec_end_at; [apply Vk | | right; exact CAND | |].
             ++ rewrite EQ, <- T0. fold (pe (n_instr n)). rewrite <- S1, <- I0, <- PD, <- (i_sus _ _ _ I). exact SUS.
             ++ intros c [_ [_ R3]]. lia.
             ++ intros j m [_ [_ [_ [_ [_ M6]]]]]. lia.
          -- assert (NOFFk : ~ In (off_ev k n) (e :: rest)).
             { intros [X|X]; [apply (NOFF k n X)|]. specialize (SR _ X). unfold ev_lt in SR.
               cbn [off_ev e_time] in SR. lia. }
             destruct (i_held _ _ _ I k n Vk Hk NOFFk) as [H1 [H2 [H3 H4]]].
             apply spec_end_at; [apply Vk | exact H2 | right; exact CAND | |].
             ++ intros c [R1 [R2 R3]]. destruct (cc_in_events ctl ns ccs (n_instr n) c R1) as [X1 X2]. fold evs in X1.
                rewrite E in X1. apply in_split3 in X1. destruct X1 as [X1|[X1|X1]].
                ** exfalso. specialize (H3 _ X1). cbn [ev_of_cc e_kind e_instr e_time] in H3. unfold is_on in R2.
                   rewrite R2 in H3. specialize (H3 eq_refl (proj2 X2)). lia.
                ** exfalso. rewrite <- X1 in K. cbn [ev_of_cc e_kind] in K. destruct (64 <=? cc_val c); discriminate.
                ** specialize (SR _ X1). unfold ev_lt in SR. cbn [ev_of_cc e_time] in SR. lia.
             ++ intros j m [M1 [M2 [M3 [M4 [M5 M6]]]]].
                destruct (H4 j m (conj M1 M3) M2 (conj M4 M5) M6) as [X|X].
                ** rewrite X. cbn [on_ev e_time]. lia.
                ** specialize (SR _ X). unfold ev_lt in SR. cbn [on_ev e_time] in SR. lia.
        * rewrite C by (intros [X _]; contradiction). apply (i_done _ _ _ I k n Vk); [|exact Hk].
          apply WEAK_ON; assumption.
      + intros k n Vk Hk N. apply in_app_iff in Hk. destruct Hk as [Hk|[<-|[]]].
        * apply KEEP in Hk. destruct Hk as [Hk Ck]. apply held_transfer.
          -- apply (i_held _ _ _ I k n Vk Hk). apply WEAK_OFF. exact N.
          -- intros [X _]. congruence.
          -- intros m nm Vm Nm Sm Lm X. destruct (ONK m nm Vm X) as [-> ->].
             rewrite (SAMEC k n Vk Hk Sm) in Ck. discriminate.
        * exfalso. apply N. rewrite (V_fun _ n nj Vk Vj). exact OFFJ.
      + intros k n m nm Vk Hk Vm Nm Sm Lm N. apply in_app_iff in Hk. destruct Hk as [Hk|[<-|[]]].
        * apply KEEP in Hk. destruct Hk as [Hk Ck].
          destruct (event_eq_dec e (on_ev m nm)) as [X|X].
          -- destruct (ONK m nm Vm X) as [-> ->]. rewrite (SAMEC k n Vk Hk Sm) in Ck. discriminate.
          -- apply (i_b2 _ _ _ I k n m nm); auto. intros [Y|Y]; [exact (X Y) | exact (N Y)].
        * exfalso. rewrite (V_fun _ n nj Vk Vj) in *. apply (B2J m nm Vm Nm Sm Lm N).
    - (* pedal up: the note just joins the list *)
      constructor; cbn [cells active sus].
      + apply I.
      + apply NoDup_snoc; [apply (i_nd _ _ _ I) | exact NJ].
      + intros a Ha. apply in_app_iff in Ha. destruct Ha as [Ha|[<-|[]]]; [|exact ACTJ].
        destruct (i_act _ _ _ I a Ha) as [n [Vn Nn]]. exists n. split; [exact Vn|]. intros X. apply Nn. right. exact X.
      + intros i. rewrite NSUS. apply I.
      + intros k n Vk H. apply (i_live _ _ _ I k n Vk). destruct H as [H|H]; [left; right; exact H|].
        apply in_app_iff in H. destruct H as [H|[<-|[]]]; [right; exact H|].
        left. rewrite (V_fun _ n nj Vk Vj). exact PENDJ.
      + intros k n Vk N1 N2.
        assert (NE : k <> e_ref e) by (intros ->; apply N2; apply in_or_app; right; left; reflexivity).
        apply (i_done _ _ _ I k n Vk); [apply WEAK_ON; assumption|].
        intros X. apply N2. apply in_or_app. left. exact X.
      + intros k n Vk Hk N. apply in_app_iff in Hk. destruct Hk as [Hk|[<-|[]]].
        * pose proof (i_held _ _ _ I k n Vk Hk (WEAK_OFF k n N)) as H. apply held_transfer; [exact H | |].
          -- intros [X _]. congruence.
          -- intros m nm Vm Nm [S1 S2] Lm X. destruct (ONK m nm Vm X) as [-> ->].
             destruct H as [H1 _]. rewrite <- (i_sus _ _ _ I), <- S1, <- I0 in H1. congruence.
        * exfalso. apply N. rewrite (V_fun _ n nj Vk Vj). exact OFFJ.
      + intros k n m nm Vk Hk Vm Nm Sm Lm N. apply in_app_iff in Hk. destruct Hk as [Hk|[<-|[]]].
        * destruct (event_eq_dec e (on_ev m nm)) as [X|X].
          -- destruct (ONK m nm Vm X) as [-> ->]. destruct Sm as [S1 S2].
             rewrite <- T0, <- S1, <- I0. fold (pe (e_instr e)). rewrite <- PD, <- (i_sus _ _ _ I). exact SUS.
          -- apply (i_b2 _ _ _ I k n m nm); auto. intros [Y|Y]; [exact (X Y) | exact (N Y)].
        * exfalso. rewrite (V_fun _ n nj Vk Vj) in *. apply (B2J m nm Vm Nm Sm Lm N).
  Qed.


  Lemma step_inv : forall s done e rest,
    evs = done ++ e :: rest -> inv s done (e :: rest) -> inv (step s e) (done ++ [e]) rest.
  Proof.
    intros s done e rest E I. destruct (e_kind e) eqn:K.
    - apply step_sus_on; assumption.
    - apply step_sus_off; assumption.
    - apply step_note_on; assumption.
    - apply step_note_off; assumption.
  Qed.

  Lemma run_inv : forall rest done s, evs = done ++ rest -> inv s done rest ->
    inv (run_events rest s) (done ++ rest) [].
  Proof.
    induction rest as [|e rest IH]; intros done s E I; cbn [run_events fold_left].
    - rewrite app_nil_r. exact I.
    - replace (done ++ e :: rest) with ((done ++ [e]) ++ rest) by (rewrite <- app_assoc; reflexivity).
      apply IH; [rewrite <- app_assoc; exact E | apply step_inv; assumption].
  Qed.

  Lemma init_inv : forall tot, inv (init_st ns tot) [] evs.
  Proof.
    intros. constructor; cbn [init_st cells active sus].
    - apply sim_refl.
    - constructor.
    - intros a [].
    - intros i. reflexivity.
    - intros k n Vk _. apply nth_init. apply Vk.
    - intros k n Vk N _. exfalso. apply N. apply (ev_in k n Vk).
    - intros k n _ [].
    - intros k n m nm _ [].
  Qed.

  Lemma Forall2_nth_error : forall {A B} (R : A -> B -> Prop) l l' k a,
    Forall2 R l l' -> nth_error l k = Some a -> exists b, nth_error l' k = Some b /\ R a b.
  Proof.
    intros A B R l l' k a H. revert k. induction H; intros [|k] Hk; cbn [nth_error] in *; try discriminate.
    - injection Hk as <-. exists y. split; [reflexivity | assumption].
    - apply IHForall2. exact Hk.
  Qed.

  (** Every cell of the result carries the specified end and is alive. *)
  Lemma final_cells : forall tot k n, nth_error ns k = Some n ->
    nth k (fst (sustain_cells ctl ns ccs tot)) dummy_cell = mkCell (set_end n (spec_end ctl ns ccs k n)) true.
  Proof.
    intros tot k n Nk. destruct (n_drum n) eqn:D.
    - rewrite (spec_end_drum _ _ _ _ _ D), set_end_id.
      destruct (Forall2_nth_error _ _ _ k n (sustain_drums_unchanged ctl ns ccs tot) Nk) as [c [C1 C2]].
      rewrite (nth_error_nth _ _ _ C1). apply C2. exact D.
    - assert (Vk : V k n) by (split; assumption).
      assert (I : inv (pre_close ctl ns ccs tot) evs [])
        by exact (run_inv evs [] (init_st ns tot) eq_refl (init_inv tot)).
      unfold sustain_cells, sustain_cells_gen. fold evs.
      set (sF := pre_close ctl ns ccs tot) in *.
      destruct (in_dec Nat.eq_dec k (active sF)) as [Hk|Hk].
      + rewrite close_char; [|apply (i_nd _ _ _ I)| |exact Hk].
        2:{ intros a Ha. destruct (i_act _ _ _ I a Ha) as [na [Va _]]. apply (V_range sF evs [] a na I Va). }
        rewrite (i_live _ _ _ I k n Vk (or_intror Hk)). unfold set_cell. cbn [c_n c_alive]. f_equal. f_equal.
        destruct (i_held _ _ _ I k n Vk Hk (fun X => X)) as [H1 [H2 [H3 H4]]].
        rewrite (spec_end_last ctl ns ccs k n D H2).
        * rewrite max_event_time_last. reflexivity.
        * intros c [R1 [R2 R3]]. destruct (cc_in_events ctl ns ccs (n_instr n) c R1) as [X1 X2]. fold evs in X1.
          specialize (H3 _ X1). cbn [ev_of_cc e_kind e_instr e_time] in H3. unfold is_on in R2.
          rewrite R2 in H3. specialize (H3 eq_refl (proj2 X2)). lia.
        * intros j m [M1 [M2 [M3 [M4 [M5 M6]]]]]. apply (H4 j m (conj M1 M3) M2 (conj M4 M5) M6).
      + rewrite close_other by exact Hk. apply (i_done _ _ _ I k n Vk (fun X => X) Hk).
  Qed.

  Lemma live_map_alive : forall {A} (f : A -> note) (l : list A),
    live_notes (map (fun x => mkCell (f x) true) l) = map f l.
  Proof. intros. unfold live_notes. induction l; cbn; congruence. Qed.

  Lemma sustain_cells_spec : forall tot,
    live_notes (fst (sustain_cells ctl ns ccs tot)) = spec_notes ctl ns ccs.
  Proof.
    intros. unfold spec_notes. rewrite <- (live_map_alive (fun p => set_end (snd p) (spec_end ctl ns ccs (fst p) (snd p)))).
    f_equal. apply list_eq_nth_error. intros k.
    assert (L : length (fst (sustain_cells ctl ns ccs tot)) = length ns).
    { rewrite (sim_length _ _ (sustain_cells_sim ctl ns ccs tot)). unfold init_cells. apply map_length. }
    rewrite nth_error_map, nth_error_indexed. destruct (nth_error ns k) as [n|] eqn:Nk; cbn [option_map fst snd].
    - rewrite (nth_error_nth' _ dummy_cell) by (rewrite L; apply nth_error_Some; congruence).
      f_equal. apply final_cells. exact Nk.
    - apply nth_error_None. rewrite L. apply nth_error_None. exact Nk.
  Qed.
End Spec.

(** The [ext] theorem: inside the quantifier the returned notes are exactly the
    declarative specification. *)
Theorem sustain_refines_spec : forall ctl s s',
  ordered_b (s_notes s) = true -> no_clash (s_notes s) = true ->
  apply_sustain ctl s = Some s' ->
  s_notes s' = spec_notes ctl (s_notes s) (s_ccs s).
Proof.
  intros ctl s s' Hord Hnc H. apply apply_sustain_result in H. subst s'. cbn [with_notes_total s_notes].
  apply sustain_cells_spec; assumption.
Qed.

(** Unfolded per note: the end of the k-th returned note. *)
Corollary sustain_end_is_spec_end : forall ctl s s' k n,
  ordered_b (s_notes s) = true -> no_clash (s_notes s) = true ->
  apply_sustain ctl s = Some s' -> nth_error (s_notes s) k = Some n ->
  nth_error (s_notes s') k = Some (set_end n (spec_end ctl (s_notes s) (s_ccs s) k n)).
Proof.
  intros ctl s s' k n Hord Hnc H Nk. rewrite (sustain_refines_spec ctl s s' Hord Hnc H).
  unfold spec_notes. rewrite nth_error_map, nth_error_indexed, Nk. reflexivity.
Qed.
