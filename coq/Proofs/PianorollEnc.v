(** Proofs/PianorollEnc.v — PianorollEncoderDecoder (C08): for every input size
    and every strictly increasing pitch tuple below it, the label (sum of
    2**pitch) is in range and decodes back to the tuple; every in-range class
    index decodes; the input vector marks exactly the pitches of the tuple. *)
From Coq Require Import ZArith List Bool Lia ZifyBool.
From NS Require Import Model.EncDec Model.PianorollEnc Proofs.EncDec.
Import ListNotations.
Local Open Scope Z_scope.
Ltac Zify.zify_post_hook ::= Z.to_euclidean_division_equations.

(* a PianorollSequence event: strictly increasing pitch offsets in [lo, hi) *)
Fixpoint pr_valid_from (lo hi : Z) (ev : list Z) : bool :=
  match ev with
  | [] => true
  | p :: r => (lo <=? p) && (p <? hi) && pr_valid_from (p + 1) hi r
  end.
Definition pr_valid (size : Z) (ev : list Z) : bool := pr_valid_from 0 size ev.

Fixpoint powsum (lo : Z) (ev : list Z) : Z :=
  match ev with [] => 0 | p :: r => 2 ^ (p - lo) + powsum lo r end.

Definition irange (lo : Z) (m : nat) : list Z := map (fun k => lo + Z.of_nat k) (seq 0 m).

Lemma irange_S lo m : irange lo (S m) = lo :: irange (lo + 1) m.
Proof.
  unfold irange. cbn [seq map]. f_equal; [lia|].
  rewrite <- seq_shift, map_map. apply map_ext. intros; lia.
Qed.

Lemma zrange_irange size : zrange size = irange 0 (Z.to_nat size).
Proof. unfold zrange, irange. apply map_ext. intros; lia. Qed.

Lemma valid_from_weaken lo lo' hi ev :
  lo' <= lo -> pr_valid_from lo hi ev = true -> pr_valid_from lo' hi ev = true.
Proof.
  destruct ev as [|p r]; cbn [pr_valid_from]; intros Hle Hv; [reflexivity|].
  apply andb_true_iff in Hv as [Hv Hr]. apply andb_true_iff in Hv as [H1 H2].
  rewrite Hr, andb_true_r. apply andb_true_iff; split; lia.
Qed.

Lemma valid_from_empty lo hi ev : hi <= lo -> pr_valid_from lo hi ev = true -> ev = [].
Proof.
  destruct ev as [|p r]; cbn [pr_valid_from]; intros Hle Hv; [reflexivity|].
  apply andb_true_iff in Hv as [Hv Hr]. apply andb_true_iff in Hv as [H1 H2]. lia.
Qed.

Lemma valid_from_cons lo hi p r :
  pr_valid_from lo hi (p :: r) = true <-> lo <= p /\ p < hi /\ pr_valid_from (p + 1) hi r = true.
Proof.
  cbn [pr_valid_from]. rewrite !andb_true_iff. split; intros H; [destruct H as [[? ?] ?]|destruct H as (? & ? & ?)];
    repeat split; try lia; auto.
Qed.

Lemma powsum_shift hi ev : forall lo,
  pr_valid_from (lo + 1) hi ev = true -> powsum lo ev = 2 * powsum (lo + 1) ev.
Proof.
  induction ev as [|p r IH]; intros lo Hv; cbn [powsum]; [lia|].
  apply valid_from_cons in Hv. destruct Hv as (H1 & H2 & Hr).
  rewrite (IH lo) by (apply (valid_from_weaken (p + 1)); [lia|exact Hr]).
  replace (p - lo) with (Z.succ (p - (lo + 1))) by lia.
  rewrite Z.pow_succ_r by lia. lia.
Qed.

(** reading m bits of the sum of distinct powers gives the tuple back, and the sum is below 2^m *)
Lemma pr_bits_powsum m : forall lo ev acc,
  pr_valid_from lo (lo + Z.of_nat m) ev = true ->
  pr_bits (irange lo m) (powsum lo ev) acc = (acc ++ ev, 0) /\
  0 <= powsum lo ev < 2 ^ Z.of_nat m.
Proof.
  induction m as [|m IH]; intros lo ev acc Hv.
  - apply valid_from_empty in Hv; [|lia]. subst ev. cbn. rewrite app_nil_r. split; [reflexivity|lia].
  - rewrite irange_S. cbn [pr_bits]. rewrite Nat2Z.inj_succ, Z.pow_succ_r by lia.
    assert (Hhi : lo + Z.of_nat (S m) = lo + 1 + Z.of_nat m) by lia. rewrite Hhi in Hv. clear Hhi.
    destruct ev as [|p r].
    + cbn [powsum]. change (0 mod 2 =? 0) with true. cbv iota. change (Z.shiftr 0 1) with 0.
      destruct (IH (lo + 1) [] acc eq_refl) as [Hb Hr]. cbn [powsum] in Hb. rewrite Hb. split; [reflexivity|lia].
    + apply valid_from_cons in Hv. destruct Hv as (H1 & H2 & Hvr0).
      destruct (Z.eq_dec p lo) as [->|Hne].
      * (* the lowest bit is set *)
        assert (Hvr : pr_valid_from (lo + 1) (lo + 1 + Z.of_nat m) r = true) by exact Hvr0.
        cbn [powsum]. rewrite Z.sub_diag. change (2 ^ 0) with 1.
        rewrite (powsum_shift (lo + 1 + Z.of_nat m)) by exact Hvr.
        destruct (IH (lo + 1) r (acc ++ [lo]) Hvr) as [Hb Hr].
        set (s := powsum (lo + 1) r) in *.
        rewrite Z.shiftr_div_pow2 by lia. change (2 ^ 1) with 2.
        destruct ((1 + 2 * s) mod 2 =? 0) eqn:?; [lia|].
        replace ((1 + 2 * s) / 2) with s by lia.
        rewrite Hb, <- app_assoc. split; [reflexivity|lia].
      * assert (Hvr : pr_valid_from (lo + 1) (lo + 1 + Z.of_nat m) (p :: r) = true)
          by (apply valid_from_cons; repeat split; [lia|lia|exact Hvr0]).
        rewrite (powsum_shift (lo + 1 + Z.of_nat m)) by exact Hvr.
        destruct (IH (lo + 1) (p :: r) acc Hvr) as [Hb Hr].
        set (s := powsum (lo + 1) (p :: r)) in *.
        rewrite Z.shiftr_div_pow2 by lia. change (2 ^ 1) with 2.
        destruct ((2 * s) mod 2 =? 0) eqn:?; [|lia].
        replace (2 * s / 2) with s by lia.
        rewrite Hb. split; [reflexivity|lia].
Qed.

Lemma pr_bits_rest is : forall c acc, snd (pr_bits is c acc) = c / 2 ^ Z.of_nat (length is).
Proof.
  induction is as [|i is IH]; intros c acc; cbn [pr_bits length].
  - cbn. now rewrite Z.div_1_r.
  - rewrite IH, Z.shiftr_div_pow2 by lia. change (2 ^ 1) with 2.
    rewrite Nat2Z.inj_succ, Z.pow_succ_r by lia.
    rewrite Z.div_div by lia. reflexivity.
Qed.

Lemma event_to_label_powsum ev : forall lo hi acc,
  0 <= lo -> pr_valid_from lo hi ev = true -> pr_event_to_label ev acc = Some (acc + powsum 0 ev).
Proof.
  induction ev as [|p r IH]; intros lo hi acc Hlo Hv; cbn [pr_event_to_label powsum].
  - f_equal; lia.
  - apply valid_from_cons in Hv. destruct Hv as (H1 & H2 & Hr).
    destruct (p <? 0) eqn:?; [lia|].
    rewrite (IH (p + 1) hi) by (auto; lia). rewrite Z.sub_0_r. f_equal; lia.
Qed.

Section Pianoroll.
  Variable size : Z.
  Hypothesis size_nonneg : 0 <= size.

  Theorem pr_label_decode ev hist :
    pr_valid size ev = true ->
    exists l, pr_event_to_label ev 0 = Some l /\ 0 <= l < pr_num_classes size /\
              pr_decode size l hist = Some ev.
  Proof.
    intros Hv. unfold pr_valid in Hv.
    exists (powsum 0 ev). rewrite (event_to_label_powsum ev 0 size 0) by (auto; lia).
    split; [f_equal; lia|].
    replace size with (0 + Z.of_nat (Z.to_nat size)) in Hv by lia.
    destruct (pr_bits_powsum (Z.to_nat size) 0 ev [] Hv) as [Hb Hr].
    rewrite Z2Nat.id in Hr by lia.
    unfold pr_decode, pr_num_classes in *. split; [exact Hr|].
    destruct (powsum 0 ev <? 2 ^ size) eqn:?; [|lia]. cbn [negb].
    rewrite zrange_irange, Hb. cbn. reflexivity.
  Qed.

  Theorem pianoroll_default_label hist :
    0 <= pr_default_label < pr_num_classes size /\ pr_decode size pr_default_label hist = Some [].
  Proof.
    destruct (pr_label_decode [] hist eq_refl) as (l & Hl & Hr & Hd). cbn in Hl. inversion Hl; subst.
    unfold pr_default_label. auto.
  Qed.

  (* through the sequence-level functions *)
  Theorem pianoroll_decode_label (es : list (list Z)) p ev :
    0 <= p -> nth_error es (Z.to_nat p) = Some ev -> pr_valid size ev = true ->
    exists l, pr_label es p = Some l /\ 0 <= l < pr_num_classes size /\
              pr_decode size l (firstn (Z.to_nat p) es) = Some ev.
  Proof.
    intros Hp He Hv. destruct (pr_label_decode ev (firstn (Z.to_nat p) es) Hv) as (l & Hl & Hr & Hd).
    exists l. unfold pr_label. rewrite py_nth_pos, He by lia. cbn [bind]. auto.
  Qed.

  (* every class index in [0, 2^size) decodes (both asserts hold) ... *)
  Theorem pianoroll_decode_total l hist :
    0 <= l < pr_num_classes size -> exists ev, pr_decode size l hist = Some ev.
  Proof.
    unfold pr_decode, pr_num_classes in *. intros Hl.
    destruct (l <? 2 ^ size) eqn:?; [|lia]. cbn [negb].
    destruct (pr_bits (zrange size) l []) as [ev rest] eqn:Hb.
    assert (rest = l / 2 ^ Z.of_nat (length (zrange size))) as Hrest.
    { rewrite <- pr_bits_rest with (acc := []). now rewrite Hb. }
    rewrite zrange_length, Z2Nat.id in Hrest by lia.
    rewrite Z.div_small in Hrest by lia. subst rest. cbn. eauto.
  Qed.

  (* ... and nothing else does *)
  Theorem pianoroll_decode_rejects l hist :
    l < 0 \/ pr_num_classes size <= l -> pr_decode size l hist = None.
  Proof.
    unfold pr_decode, pr_num_classes in *. intros Hl.
    destruct (l <? 2 ^ size) eqn:?; cbn [negb]; [|reflexivity].
    destruct (pr_bits (zrange size) l []) as [ev rest] eqn:Hb.
    assert (rest = l / 2 ^ Z.of_nat (length (zrange size))) as Hrest.
    { rewrite <- pr_bits_rest with (acc := []). now rewrite Hb. }
    rewrite zrange_length, Z2Nat.id in Hrest by lia.
    assert (0 < 2 ^ size) by (apply Z.pow_pos_nonneg; lia).
    assert (rest < 0) by (subst rest; apply Z.div_lt_upper_bound; lia).
    destruct (rest =? 0) eqn:?; [lia|reflexivity].
  Qed.

  Theorem pianoroll_generation_total ls : forall evs,
    Forall (fun l => 0 <= l < pr_num_classes size) ls ->
    exists out, generate (pr_decode size) ls evs = Some out /\
                length out = (length evs + length ls)%nat /\
                ed_num_steps (pr size) ls = Some (zlen out - zlen evs).
  Proof.
    induction ls as [|l ls IH]; intros evs Hl.
    - exists evs. cbn. repeat split; auto; try lia. f_equal. unfold zlen; cbn; lia.
    - inversion Hl; subst. destruct (pianoroll_decode_total l evs H1) as (e & He).
      cbn [generate]. rewrite He. cbn [bind].
      destruct (IH (evs ++ [e]) H2) as (out & Ho & Hlen & _).
      exists out. split; [exact Ho|]. rewrite app_length in Hlen; cbn in Hlen.
      split; [cbn; lia|]. cbn. f_equal. unfold zlen. cbn [length]. lia.
  Qed.

  (** the input vector: [size] entries, 1 exactly at the pitches of the tuple *)
  Lemma event_to_input_spec ev : forall v,
    Forall (fun p => 0 <= p < zlen v) ev ->
    exists v', pr_event_to_input ev v = Some v' /\ zlen v' = zlen v /\
               forall k, nth k v' 0 = if existsb (Z.eqb (Z.of_nat k)) ev then 1 else nth k v 0.
  Proof.
    induction ev as [|p r IH]; intros v Hall; cbn [pr_event_to_input existsb].
    - exists v. auto.
    - inversion Hall as [|? ? Hp Hr]; subst.
      rewrite py_set_pos by lia. cbn [bind].
      assert (Hlen : zlen (upd (Z.to_nat p) 1 v) = zlen v) by (unfold zlen; now rewrite upd_length).
      destruct (IH (upd (Z.to_nat p) 1 v)) as (v' & Hv' & Hl' & Hn').
      { rewrite Hlen. exact Hr. }
      exists v'. split; [exact Hv'|]. split; [lia|].
      intros k. rewrite Hn'. destruct (existsb (Z.eqb (Z.of_nat k)) r) eqn:?.
      + now rewrite orb_true_r.
      + rewrite orb_false_r. destruct (Z.of_nat k =? p) eqn:Hk.
        * replace k with (Z.to_nat p) by lia. apply nth_upd_same. unfold zlen in *; lia.
        * apply nth_upd_other. lia.
  Qed.

  Lemma valid_from_bounds ev : forall lo, pr_valid_from lo size ev = true -> 0 <= lo ->
    Forall (fun p => 0 <= p < size) ev.
  Proof.
    induction ev as [|p r IH]; intros lo Hv Hlo; [constructor|].
    apply valid_from_cons in Hv. destruct Hv as (H1 & H2 & Hr).
    constructor; [lia|]. apply (IH (p + 1)); [exact Hr|lia].
  Qed.

  Theorem pianoroll_input_shape (es : list (list Z)) p ev :
    0 <= p -> nth_error es (Z.to_nat p) = Some ev -> pr_valid size ev = true ->
    exists v, pr_input size es p = Some v /\ zlen v = size /\
              forall k, nth k v 0 = if existsb (Z.eqb (Z.of_nat k)) ev then 1 else 0.
  Proof.
    intros Hp He Hv. unfold pr_input. rewrite py_nth_pos, He by lia. cbn [bind].
    destruct (event_to_input_spec ev (zeros size)) as (v' & Hv' & Hl' & Hn').
    { rewrite zeros_length. replace (Z.max 0 size) with size by lia.
      apply (valid_from_bounds ev 0); [exact Hv|lia]. }
    exists v'. split; [exact Hv'|]. split; [rewrite Hl', zeros_length; lia|].
    intros k. rewrite Hn', zeros_nth. reflexivity.
  Qed.
End Pianoroll.

Example pianoroll_nonvacuous :
  pr_valid 5 [0; 2; 4] = true /\ pr_event_to_label [0; 2; 4] 0 = Some 21 /\
  pr_decode 5 21 [] = Some [0; 2; 4] /\ pr_decode 5 32 [] = None /\ pr_decode 5 (-1) [] = None.
Proof. vm_compute. repeat split. Qed.
