(** Proofs/RenderPerformance.v — C06 for NotePerformance and Performance / MetricPerformance:
    rendering, re-quantizing and extracting again gives the event sequence back.
    - [roundtrip_steps_noteperf], [extraction_canonical_noteperf] (NotePerformance);
    - [roundtrip_extracted_perf]: what [pf_from_quantized] returns for a well-formed quantized
      note list is a fixpoint of render-then-extract. *)
From Coq Require Import ZArith List Bool Lia ZifyBool Permutation Sorted.
From NS Require Import Base.NoteSeq Gen.G07 Model.FqCommon Model.FqPerformance Model.FqSpec
  Proofs.FqCommon Proofs.FqPerformance Proofs.FqPerfRound
  Model.RenderCommon Model.RenderPerformance.
Import ListNotations.
Local Open Scope Z_scope.
Ltac Zify.zify_post_hook ::= Z.to_euclidean_division_equations.

Definition times_follow_steps (l : list note) : Prop :=
  forall a b, In a l -> In b l ->
    (n_qstart a < n_qstart b -> n_start a < n_start b) /\ (n_qstart a = n_qstart b -> n_start a = n_start b).

Definition perf_input_ok (p : pf_params) (ns : list note) : Prop :=
  1 <= fp_max_shift p /\ (fp_bins p = 0 \/ 1 <= fp_bins p) /\
  Forall (fun n => n_qstart n < n_qend n /\ MIN_MIDI_VELOCITY <= n_vel n) ns /\
  no_pitch_overlap (pf_selected p ns) /\ times_follow_steps (pf_selected p ns).

(** * velocity bins *)
Lemma bin_size_pos nb : 1 <= nb -> 1 <= bin_size nb.
Proof.
  intros H. unfold bin_size, vel_range.
  assert (0 < (MAX_MIDI_VELOCITY - MIN_MIDI_VELOCITY + 1 + nb - 1) / nb); [|lia].
  apply Z.div_str_pos. assert (0 <= MAX_MIDI_VELOCITY - MIN_MIDI_VELOCITY) by (cbv; discriminate). lia.
Qed.

Lemma vel_bin_vel b nb : 1 <= nb -> vel_to_bin (bin_to_vel b nb) nb = b.
Proof.
  intros H. pose proof (bin_size_pos nb H) as Hs. unfold vel_to_bin, bin_to_vel.
  replace (MIN_MIDI_VELOCITY + (b - 1) * bin_size nb - MIN_MIDI_VELOCITY) with ((b - 1) * bin_size nb) by lia.
  rewrite Z.div_mul by lia. lia.
Qed.

(** * insertion sort of a sorted list *)
Lemma isort_cons_sorted {A} (le : A -> A -> bool) x r :
  isort le r = r -> match r with [] => True | y :: _ => le x y = true end -> isort le (x :: r) = x :: r.
Proof.
  intros Hr Hx. cbn [isort]. rewrite Hr. destruct r as [|y r']; [reflexivity|]. cbn [insert]. now rewrite Hx.
Qed.

(** * NotePerformance: render, then extract *)
Section NotePerf.
  Variables (nb ms md start i pr : Z) (drum : bool).

  Definition np_rl (evs : list np_event) (step : Z) : list note :=
    map (snote_note i pr drum) (np_decode nb start evs step).

  Lemma np_rl_cons sh q b du r step :
    np_rl ((sh, q, b, du) :: r) step
    = rnote q (bin_to_vel b nb) i pr drum (step + sh + start) (step + sh + du + start) :: np_rl r (step + sh).
  Proof. reflexivity. Qed.

  Lemma np_scan_cons sh q b du r prev :
    np_canon_scan nb ms md ((sh, q, b, du) :: r) prev = true ->
    1 <= nb /\ 0 <= sh <= ms /\ 1 <= du <= md /\ 1 <= b /\
    (sh = 0 -> match prev with Some pq => pq <= q | None => True end) /\
    np_canon_scan nb ms md r (Some q) = true.
  Proof.
    cbn [np_canon_scan]. intros H. repeat (apply andb_true_iff in H; destruct H as (H & ?)).
    repeat split; try lia; [|assumption]. intros ->. cbn in H1. destruct prev; [lia|exact I].
  Qed.

  Lemma np_rl_sorted : forall evs step prev,
    np_canon_scan nb ms md evs prev = true ->
    isort pf_le (np_rl evs step) = np_rl evs step /\
    forall a, n_start a = step + start -> prev = Some (n_pitch a) ->
      match np_rl evs step with [] => True | b :: _ => pf_le a b = true end.
  Proof.
    induction evs as [|[[[sh q] b] du] r IH]; intros step prev Hc.
    - split; [reflexivity|]. intros; exact I.
    - apply np_scan_cons in Hc. destruct Hc as (Hnb & Hsh & Hdu & Hb & Hprev & Hr).
      rewrite np_rl_cons. destruct (IH (step + sh) (Some q) Hr) as (IH1 & IH2). split.
      + apply isort_cons_sorted; [exact IH1|]. apply IH2; reflexivity.
      + intros a Ha Hp. subst prev. unfold pf_le, rnote. cbn [n_start n_pitch]. rewrite Ha.
        destruct (Z.eq_dec sh 0) as [->|Hne]; [specialize (Hprev eq_refl); cbn in Hprev|]; lia.
  Qed.

  Lemma np_rl_keep instr : match instr with None => True | Some j => j = i end -> forall evs step prev,
    np_canon_scan nb ms md evs prev = true -> 0 <= step ->
    filter (pf_keep start instr) (np_rl evs step) = np_rl evs step.
  Proof.
    intros Hinstr. induction evs as [|[[[sh q] b] du] r IH]; intros step prev Hc Hstep; [reflexivity|].
    apply np_scan_cons in Hc. destruct Hc as (Hnb & Hsh & Hdu & Hb & Hprev & Hr).
    rewrite np_rl_cons. cbn [filter].
    assert (Hk : pf_keep start instr (rnote q (bin_to_vel b nb) i pr drum (step + sh + start) (step + sh + du + start)) = true).
    { unfold pf_keep, rnote. cbn [n_qstart n_instr]. destruct instr as [j|]; [subst j|]; lia. }
    rewrite Hk. f_equal. apply (IH _ _ Hr). lia.
  Qed.

  Lemma np_rl_loop : forall evs step prev,
    np_canon_scan nb ms md evs prev = true ->
    np_loop nb ms md (np_rl evs step) (step + start) = Ok evs.
  Proof.
    induction evs as [|[[[sh q] b] du] r IH]; intros step prev Hc; [reflexivity|].
    apply np_scan_cons in Hc. destruct Hc as (Hnb & Hsh & Hdu & Hb & Hprev & Hr).
    rewrite np_rl_cons. cbn [np_loop]. unfold rnote. cbn [n_qstart n_qend n_pitch n_vel].
    replace (step + sh + start - (step + start)) with sh by lia.
    replace (step + sh + du + start - (step + sh + start)) with du by lia.
    replace (ms <? sh) with false by lia. replace (sh <? 0) with false by lia.
    replace (nb =? 0) with false by lia. replace (md <? du) with false by lia. replace (du <? 1) with false by lia.
    rewrite (IH (step + sh) _ Hr). cbn [bind]. rewrite vel_bin_vel by lia. reflexivity.
  Qed.
End NotePerf.

Theorem roundtrip_steps_noteperf : forall p md i pr drum evs,
  (match fp_instrument p with None => True | Some j => j = i end) ->
  canonical_noteperf (fp_bins p) (fp_max_shift p) md evs = true ->
  np_from_quantized p md (np_rnotes p i pr drum evs) = Ok evs.
Proof.
  intros p md i pr drum evs Hi Hc. unfold canonical_noteperf in Hc.
  unfold np_from_quantized, np_rnotes, np_to_step_notes, pf_sorted_notes.
  fold (np_rl (fp_bins p) (fp_start p) i pr drum evs 0).
  rewrite (np_rl_keep (fp_bins p) (fp_max_shift p) md (fp_start p) i pr drum (fp_instrument p) Hi evs 0 None Hc) by lia.
  rewrite (proj1 (np_rl_sorted (fp_bins p) (fp_max_shift p) md (fp_start p) i pr drum evs 0 None Hc)).
  apply (np_rl_loop (fp_bins p) (fp_max_shift p) md (fp_start p) i pr drum evs 0 None Hc).
Qed.

(** * NotePerformance: extraction gives canonical tuple lists *)
Lemma pf_le_total a b : pf_le a b = true \/ pf_le b a = true.
Proof. unfold pf_le. lia. Qed.

Lemma pf_le_trans a b c : pf_le a b = true -> pf_le b c = true -> pf_le a c = true.
Proof. unfold pf_le. lia. Qed.

Lemma pf_sorted_notes_sorted start instr ns :
  StronglySorted (fun a b => pf_le a b = true) (pf_sorted_notes start instr ns).
Proof. apply isort_sorted; [apply pf_le_total|apply pf_le_trans]. Qed.

Lemma np_loop_canonical nb ms md : 0 <= nb -> forall sel cur evs prev,
  np_loop nb ms md sel cur = Ok evs ->
  StronglySorted (fun a b => pf_le a b = true) sel ->
  times_follow_steps sel ->
  Forall (fun n => MIN_MIDI_VELOCITY <= n_vel n) sel ->
  (forall pq, prev = Some pq -> forall n, In n sel -> n_qstart n = cur -> pq <= n_pitch n) ->
  np_canon_scan nb ms md evs prev = true.
Proof.
  intros Hnb0. induction sel as [|n r IH]; intros cur evs prev; cbn [np_loop].
  - intros H _ _ _ _. apply Ok_inj in H. subst evs. reflexivity.
  - destruct (ms <? n_qstart n - cur) eqn:E1; [discriminate|].
    destruct (n_qstart n - cur <? 0) eqn:E2; [discriminate|].
    destruct (nb =? 0) eqn:E3; [discriminate|].
    destruct (md <? n_qend n - n_qstart n) eqn:E4; [discriminate|].
    destruct (n_qend n - n_qstart n <? 1) eqn:E5; [discriminate|].
    destruct (np_loop nb ms md r (n_qstart n)) as [l|c] eqn:Er; cbn [bind]; [|discriminate].
    intros H Hs Ht Hv Hp. apply Ok_inj in H. subst evs.
    inversion Hs as [|? ? Hs' Hf]; subst. inversion Hv as [|? ? Hvn Hvr]; subst.
    rewrite Forall_forall in Hf.
    assert (IHr : np_canon_scan nb ms md l (Some (n_pitch n)) = true).
    { apply (IH _ _ _ Er Hs').
      - intros a b Ha Hb. apply Ht; now right.
      - exact Hvr.
      - intros pq Hpq m Hm Hq. injection Hpq as <-.
        destruct (Ht m n (or_intror Hm) (or_introl eq_refl)) as (_ & Heq). specialize (Heq Hq).
        specialize (Hf m Hm). unfold pf_le in Hf. lia. }
    cbn [np_canon_scan]. rewrite IHr.
    assert (Hnb : 1 <= nb) by lia.
    pose proof (vel_to_bin_pos (n_vel n) nb Hnb Hvn).
    assert (Hq : (if n_qstart n - cur =? 0 then match prev with Some pq => pq <=? n_pitch n | None => true end else true) = true).
    { destruct (n_qstart n - cur =? 0) eqn:E0; [|reflexivity]. destruct prev as [pq|]; [|reflexivity].
      specialize (Hp pq eq_refl n (or_introl eq_refl)). lia. }
    rewrite Hq. lia.
Qed.

(** The statement of the reference file plus [0 <= fp_bins p]: [np_loop] only rejects
    [num_velocity_bins = 0]; with a negative number of bins the bins come out <= 0
    (p = mkPfParams 0 (-1) 3 None, one note of velocity 100: result [(0, 60, 0, 1)]). *)
Theorem extraction_canonical_noteperf : forall p md ns evs,
  0 <= fp_bins p ->
  Forall (fun n => MIN_MIDI_VELOCITY <= n_vel n) ns ->
  times_follow_steps (pf_selected p ns) ->
  np_from_quantized p md ns = Ok evs ->
  canonical_noteperf (fp_bins p) (fp_max_shift p) md evs = true.
Proof.
  intros p md ns evs Hnb Hv Ht H. unfold np_from_quantized in H. unfold canonical_noteperf.
  assert (Hin : forall n, In n (pf_sorted_notes (fp_start p) (fp_instrument p) ns) -> In n (pf_selected p ns))
    by (intros n Hn; apply isort_In in Hn; exact Hn).
  apply (np_loop_canonical _ _ _ Hnb _ _ _ _ H).
  - apply pf_sorted_notes_sorted.
  - intros a b Ha Hb. apply Ht; now apply Hin.
  - apply Forall_forall. intros n Hn. apply Hin, filter_In in Hn. rewrite Forall_forall in Hv. apply Hv, Hn.
  - intros pq Hpq. discriminate.
Qed.

Example noteperf_canonical_example :
  let p := mkPfParams 5 8 3 None in
  let evs := [(0, 60, 3, 2); (0, 64, 3, 4); (2, 50, 1, 1); (3, 50, 8, 10); (0, 50, 2, 1)] in
  canonical_noteperf (fp_bins p) (fp_max_shift p) 10 evs = true /\
  np_from_quantized p 10 (np_rnotes p 0 0 false evs) = Ok evs.
Proof. vm_compute. split; reflexivity. Qed.

(** * Performance / MetricPerformance *)
(** ** generic facts about insertion sort *)
Lemma sorted_perm_eq {A} (R : A -> A -> Prop) : forall l1 l2,
  StronglySorted R l1 -> StronglySorted R l2 -> Permutation l1 l2 ->
  (forall a b, In a l1 -> In b l1 -> R a b -> R b a -> a = b) -> l1 = l2.
Proof.
  induction l1 as [|a r1 IH]; intros l2 H1 H2 Hp Hanti.
  - apply Permutation_nil in Hp. now subst.
  - destruct l2 as [|b r2]; [apply Permutation_sym, Permutation_nil in Hp; discriminate|].
    inversion H1 as [|? ? H1' F1]; subst. inversion H2 as [|? ? H2' F2]; subst.
    rewrite Forall_forall in F1, F2.
    assert (a = b).
    { assert (Ha : In a (b :: r2)) by (eapply Permutation_in; [exact Hp|now left]).
      assert (Hb : In b (a :: r1)) by (eapply Permutation_in; [symmetry; exact Hp|now left]).
      destruct Ha as [->|Ha]; [reflexivity|]. destruct Hb as [->|Hb]; [reflexivity|].
      apply Hanti; [now left|now right|apply F1, Hb|apply F2, Ha]. }
    subst b. f_equal. apply IH; auto.
    + eapply Permutation_cons_inv; exact Hp.
    + intros x y Hx Hy. apply Hanti; now right.
Qed.

(** the sorted list does not depend on the input order when the order is antisymmetric on it *)
Lemma isort_perm_invariant {A} (le : A -> A -> bool) l l' :
  (forall a b, le a b = true \/ le b a = true) ->
  (forall a b c, le a b = true -> le b c = true -> le a c = true) ->
  (forall a b, In a l -> In b l -> le a b = true -> le b a = true -> a = b) ->
  Permutation l l' -> isort le l = isort le l'.
Proof.
  intros Htot Htr Hanti Hp. apply (sorted_perm_eq (fun a b => le a b = true)).
  - now apply isort_sorted.
  - now apply isort_sorted.
  - rewrite !isort_perm. exact Hp.
  - intros a b Ha Hb. apply Hanti; now apply (isort_In le l).
Qed.

Lemma insert_map {A B} (le : A -> A -> bool) (le' : B -> B -> bool) (f : A -> B) x : forall s,
  (forall b, In b s -> le' (f x) (f b) = le x b) -> insert le' (f x) (map f s) = map f (insert le x s).
Proof.
  induction s as [|y s IH]; intros H; cbn [map insert]; [reflexivity|].
  rewrite (H y (or_introl eq_refl)). destruct (le x y); [reflexivity|].
  cbn [map]. f_equal. apply IH. intros b Hb. apply H. now right.
Qed.

Lemma isort_map {A B} (le : A -> A -> bool) (le' : B -> B -> bool) (f : A -> B) : forall l,
  (forall a b, In a l -> In b l -> le' (f a) (f b) = le a b) -> isort le' (map f l) = map f (isort le l).
Proof.
  induction l as [|x r IH]; intros H; cbn [map isort]; [reflexivity|].
  rewrite IH by (intros; apply H; now right).
  apply insert_map. intros b Hb. apply isort_In in Hb. apply H; [now left|now right].
Qed.

Lemma filter_all {A} (f : A -> bool) l : (forall x, In x l -> f x = true) -> filter f l = l.
Proof.
  induction l as [|x l IH]; intros H; cbn [filter]; [reflexivity|].
  rewrite (H x (or_introl eq_refl)). f_equal. apply IH. intros y Hy. apply H. now right.
Qed.

Lemma note_eq_dec (a b : note) : {a = b} + {a <> b}.
Proof. decide equality; try apply Z.eq_dec; apply bool_dec. Qed.

(** ** the encoder only looks at (pitch, quantized start, quantized end, velocity bin) *)
Definition tev_map (f : note -> note) (t : tev) : tev :=
  mkTev (te_step t) (te_idx t) (te_off t) (f (te_note t)).

Lemma enum_from_map {A B} (f : A -> B) l : forall k,
  enum_from k (map f l) = map (fun x => (fst x, f (snd x))) (enum_from k l).
Proof. induction l as [|x l IH]; intros k; cbn [map enum_from fst snd]; [reflexivity|]. now rewrite IH. Qed.

Lemma In_enum_snd {A} (l : list A) k x : In x (enum_from k l) -> In (snd x) l.
Proof.
  destruct x as [i a]. intros H. apply In_enum_from in H. destruct H as (_ & H).
  cbn [snd]. eapply nth_error_In; exact H.
Qed.

Lemma note_events_map f l :
  (forall n, In n l -> n_qstart (f n) = n_qstart n /\ n_qend (f n) = n_qend n) ->
  pf_note_events (map f l) = map (tev_map f) (pf_note_events l).
Proof.
  intros H. unfold pf_note_events. rewrite enum_from_map, !map_map. cbn [fst snd].
  rewrite <- (isort_map tev_le tev_le (tev_map f)) by reflexivity.
  f_equal. rewrite map_app, !map_map. f_equal; apply map_ext_in; intros x Hx;
    apply In_enum_snd in Hx; destruct (H _ Hx) as (H1 & H2); unfold tev_map; cbn [te_step te_idx te_off te_note];
    congruence.
Qed.

Lemma pf_loop_map nb ms f : forall tes cur vbin,
  (forall t, In t tes -> n_pitch (f (te_note t)) = n_pitch (te_note t) /\
     (nb = 0 \/ vel_to_bin (n_vel (f (te_note t))) nb = vel_to_bin (n_vel (te_note t)) nb)) ->
  pf_loop nb ms (map (tev_map f) tes) cur vbin = pf_loop nb ms tes cur vbin.
Proof.
  induction tes as [|t r IH]; intros cur vbin H; [reflexivity|].
  assert (Hr : forall c v, pf_loop nb ms (map (tev_map f) r) c v = pf_loop nb ms r c v)
    by (intros; apply IH; intros u Hu; apply H; now right).
  cbn [map pf_loop]. set (R := map (tev_map f) r) in *. unfold tev_map. cbn [te_step te_off te_note].
  destruct (H t (or_introl eq_refl)) as (Hp & Hv). rewrite Hp.
  destruct Hv as [Hz|Hv].
  - replace (nb =? 0) with true by lia. cbn [negb andb]. now rewrite Hr.
  - rewrite Hv, Hr. reflexivity.
Qed.

Definition pf_phi (nb dv i pr : Z) (drum : bool) (n : note) : note :=
  snote_note i pr drum (pf_note_proj nb dv n).

Theorem roundtrip_extracted_perf : forall p dv i pr drum ns,
  perf_input_ok p ns ->
  (match fp_instrument p with None => True | Some j => j = i end) ->
  let es := pf_from_quantized p ns in
  pf_from_quantized p (pf_rnotes p dv i pr drum es) = es.
Proof.
  intros p dv i pr drum ns (Hms & Hnb & Hwf & Hno & Htf) Hi es.
  pose proof (perf_notes_roundtrip p dv ns Hms Hnb Hwf Hno) as Hperm. fold es in Hperm.
  set (nb := fp_bins p) in *. set (sel := pf_selected p ns) in *.
  set (phi := pf_phi nb dv i pr drum).
  set (ns' := pf_rnotes p dv i pr drum es).
  assert (Hperm' : Permutation ns' (map phi sel)).
  { replace (map phi sel) with (map (snote_note i pr drum) (map (pf_note_proj nb dv) sel))
      by (rewrite map_map; reflexivity).
    unfold ns', pf_rnotes. apply Permutation_map. exact Hperm. }
  assert (Hkeep : forall n, In n sel -> pf_keep (fp_start p) (fp_instrument p) n = true)
    by (intros n Hn; apply filter_In in Hn; apply Hn).
  assert (Hlen : forall n, In n sel -> n_qstart n < n_qend n).
  { intros n Hn. apply filter_In in Hn. rewrite Forall_forall in Hwf. apply Hwf, Hn. }
  assert (Hinj : forall a b, In a sel -> In b sel -> n_qstart a = n_qstart b -> n_pitch a = n_pitch b -> a = b).
  { intros a b Ha Hb Hq Hp. destruct (note_eq_dec a b) as [|Hne]; [assumption|].
    destruct Hno as (_ & Hdis). specialize (Hdis a b Ha Hb Hne Hp).
    pose proof (Hlen a Ha). pose proof (Hlen b Hb). lia. }
  assert (Hle : forall a b, In a sel -> In b sel -> pf_le (phi a) (phi b) = pf_le a b).
  { intros a b Ha Hb. unfold pf_le, phi, pf_phi, pf_note_proj, snote_note, rnote. cbn [n_start n_pitch].
    destruct (Htf a b Ha Hb) as (H1 & H2). destruct (Htf b a Hb Ha) as (H3 & _). lia. }
  unfold pf_from_quantized. fold ns'. fold nb.
  unfold pf_sorted_notes at 1.
  rewrite filter_all.
  2:{ intros x Hx. eapply Permutation_in in Hx; [|exact Hperm']. apply in_map_iff in Hx.
      destruct Hx as (n & <- & Hn). specialize (Hkeep n Hn). unfold pf_keep in *.
      unfold phi, pf_phi, pf_note_proj, snote_note, rnote. cbn [n_qstart n_instr].
      destruct (fp_instrument p) as [j|]; [subst j|]; lia. }
  rewrite (isort_perm_invariant pf_le ns' (map phi sel) pf_le_total pf_le_trans).
  3: exact Hperm'.
  2:{ intros a b Ha Hb Hab Hba.
      eapply Permutation_in in Ha; [|exact Hperm']. eapply Permutation_in in Hb; [|exact Hperm'].
      apply in_map_iff in Ha. apply in_map_iff in Hb.
      destruct Ha as (a0 & <- & Ha0). destruct Hb as (b0 & <- & Hb0). f_equal.
      unfold pf_le, phi, pf_phi, pf_note_proj, snote_note, rnote in Hab, Hba. cbn [n_start n_pitch] in Hab, Hba.
      apply Hinj; auto; lia. }
  rewrite (isort_map pf_le pf_le phi sel Hle).
  rewrite note_events_map by (intros; split; reflexivity).
  rewrite pf_loop_map; [reflexivity|].
  intros t Ht. split; [reflexivity|].
  destruct Hnb as [Hz|Hpos]; [left; exact Hz|right].
  unfold phi, pf_phi, pf_note_proj, snote_note, rnote, pf_vel_rep. cbn [n_vel]. fold nb.
  replace (nb =? 0) with false by lia. apply vel_bin_vel. exact Hpos.
Qed.

Example perf_roundtrip_example :
  let p := mkPfParams 5 8 3 None in
  let mk q v s e := rnote q v 0 0 false s e in
  let ns := [mk 60 100 7 9; mk 60 30 9 12; mk 64 100 7 12; mk 67 50 7 20; mk 40 1 30 31; mk 41 127 2 8] in
  let es := pf_from_quantized p ns in
  es = [(3, 2); (4, 7); (1, 60); (1, 64); (4, 4); (1, 67); (3, 2); (2, 60); (4, 2); (1, 60); (3, 3);
        (2, 64); (2, 60); (3, 3); (3, 3); (3, 2); (2, 67); (3, 3); (3, 3); (3, 3); (3, 1); (4, 1);
        (1, 40); (3, 1); (2, 40)] /\
  pf_from_quantized p (pf_rnotes p 77 0 0 false es) = es.
Proof. vm_compute. split; reflexivity. Qed.
