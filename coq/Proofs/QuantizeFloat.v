(** Proofs/QuantizeFloat.v — float layer of C01: [quantize_to_step] on IEEE
    binary64, proved through Flocq.  [R_of x] is the real value of a float,
    [rnd] is round-to-nearest-even in binary64. *)
From Coq Require Import ZArith Reals Floats Lia Lra.
From Flocq Require Import Core BinarySingleNaN PrimFloat Relative.
From NS Require Import Base.FloatBridge Gen.G01 Model.Quantize.
Open Scope R_scope.

(** * The regenerated cutoff *)
(** [1 - QUANTIZE_CUTOFF] is exactly one half (re-checked by the kernel against
    the value regenerated from the code on every run). *)
Lemma omc_half : one_minus_cutoff = 0x1p-1%float.
Proof. vm_compute. reflexivity. Qed.

Lemma omc_R : R_of one_minus_cutoff = / 2 /\ fin one_minus_cutoff.
Proof. rewrite omc_half. exact half_R. Qed.

(** the default-cutoff function is the explicit-cutoff function at the regenerated QUANTIZE_CUTOFF *)
Lemma q2s_cut_default t s : q2s_cut cutoff t s = q2s t s.
Proof. reflexivity. Qed.

(** * Elementary facts *)
Lemma format_IZR_small (z : Z) : (Z.abs z < 2 ^ 53)%Z -> generic_format radix2 fexp (IZR z).
Proof.
  intros H. apply generic_format_FLT. apply (FLT_spec _ _ _ _ (Float radix2 z 0)).
  - unfold F2R. cbn [Fnum Fexp bpow]. lra.
  - cbn [Fnum]. unfold prec. exact H.
  - cbn [Fexp]. unfold emax, prec. lia.
Qed.

Lemma format_half_int (z : Z) : (Z.abs z < 2 ^ 53)%Z -> generic_format radix2 fexp (IZR z * / 2).
Proof.
  intros H. apply generic_format_FLT. apply (FLT_spec _ _ _ _ (Float radix2 z (-1))).
  - unfold F2R. cbn [Fnum Fexp]. replace (bpow radix2 (-1)) with (/ 2) by (cbn; lra). reflexivity.
  - cbn [Fnum]. unfold prec. exact H.
  - cbn [Fexp]. unfold emax, prec. lia.
Qed.

Lemma bpow_ge_1 e : (0 <= e)%Z -> 1 <= bpow radix2 e.
Proof. intros H. apply (bpow_le radix2 0 e H). Qed.

Lemma bpow_double e : bpow radix2 (e + 1) = bpow radix2 e + bpow radix2 e.
Proof. rewrite bpow_plus. cbn [bpow]. simpl (IZR (Z.pow_pos radix2 1)). lra. Qed.

(** product and sum stay finite for |t*sps| <= 2^60 *)
Lemma prod_R t s : fin t -> fin s -> Rabs (R_of t * R_of s) <= bpow radix2 60 ->
  R_of (t * s)%float = rnd (R_of t * R_of s) /\ fin (t * s)%float /\
  Rabs (R_of (t * s)%float) <= bpow radix2 60.
Proof.
  intros Ft Fs Hb. destruct (mul_R t s 60 Ft Fs ltac:(lia) Hb) as [E F].
  split; [exact E|]. split; [exact F|]. rewrite E. apply rnd_abs_le_bpow; [lia|exact Hb].
Qed.

Lemma sum_R x : fin x -> Rabs (R_of x) <= bpow radix2 60 ->
  R_of (x + one_minus_cutoff)%float = rnd (R_of x + / 2) /\ fin (x + one_minus_cutoff)%float.
Proof.
  intros Fx Hb. destruct omc_R as [Eh Fh].
  assert (Hs : Rabs (R_of x + R_of one_minus_cutoff) <= bpow radix2 61).
  { rewrite Eh. change 61%Z with (60 + 1)%Z. rewrite bpow_double.
    pose proof (bpow_ge_1 60 ltac:(lia)).
    apply Rle_trans with (Rabs (R_of x) + Rabs (/ 2)). apply Rabs_triang.
    rewrite (Rabs_pos_eq (/ 2)) by lra. lra. }
  destruct (add_R x one_minus_cutoff 61 Fx Fh ltac:(lia) Hs) as [E F].
  rewrite Eh in E. split; assumption.
Qed.

(** the value [quantize_to_step] computes, as a real-number expression *)
Lemma q2s_R t s : fin t -> fin s -> Rabs (R_of t * R_of s) <= bpow radix2 60 ->
  q2s t s = Ztrunc (rnd (rnd (R_of t * R_of s) + / 2)).
Proof.
  intros Ft Fs Hb. destruct (prod_R t s Ft Fs Hb) as (E & F & B).
  destruct (sum_R _ F B) as [E2 _]. unfold q2s. rewrite trunc_Ztrunc, E2, E. reflexivity.
Qed.

(** * Monotone *)
Theorem q2s_mono t1 t2 s :
  fin t1 -> fin t2 -> fin s ->
  0 <= R_of t1 <= R_of t2 -> R_of t2 <= bpow radix2 40 -> 0 <= R_of s <= bpow radix2 20 ->
  (q2s t1 s <= q2s t2 s)%Z.
Proof.
  intros F1 F2 Fs [H0 H12] Hb [Hs0 Hs1].
  assert (Hp : forall t, 0 <= R_of t <= bpow radix2 40 -> Rabs (R_of t * R_of s) <= bpow radix2 60).
  { intros t [Ht0 Ht1]. rewrite Rabs_pos_eq by (apply Rmult_le_pos; lra).
    replace (bpow radix2 60) with (bpow radix2 40 * bpow radix2 20) by (rewrite <- bpow_plus; reflexivity).
    apply Rmult_le_compat; lra. }
  rewrite (q2s_R t1 s F1 Fs (Hp t1 ltac:(lra))), (q2s_R t2 s F2 Fs (Hp t2 ltac:(lra))).
  apply Ztrunc_le. apply round_le; auto with typeclass_instances.
  apply Rplus_le_compat_r. apply round_le; auto with typeclass_instances.
  apply Rmult_le_compat_r; lra.
Qed.

(** monotone for every sign of time as well (needed for the negative-time clause) *)
Theorem q2s_mono_any t1 t2 s :
  fin t1 -> fin t2 -> fin s ->
  R_of t1 <= R_of t2 -> Rabs (R_of t1) <= bpow radix2 40 -> Rabs (R_of t2) <= bpow radix2 40 ->
  0 <= R_of s <= bpow radix2 20 ->
  (q2s t1 s <= q2s t2 s)%Z.
Proof.
  intros F1 F2 Fs H12 Hb1 Hb2 [Hs0 Hs1].
  assert (Hp : forall t, Rabs (R_of t) <= bpow radix2 40 -> Rabs (R_of t * R_of s) <= bpow radix2 60).
  { intros t Ht. rewrite Rabs_mult, (Rabs_pos_eq (R_of s)) by lra.
    replace (bpow radix2 60) with (bpow radix2 40 * bpow radix2 20) by (rewrite <- bpow_plus; reflexivity).
    apply Rmult_le_compat; try lra. apply Rabs_pos. }
  rewrite (q2s_R t1 s F1 Fs (Hp t1 Hb1)), (q2s_R t2 s F2 Fs (Hp t2 Hb2)).
  apply Ztrunc_le. apply round_le; auto with typeclass_instances.
  apply Rplus_le_compat_r. apply round_le; auto with typeclass_instances.
  apply Rmult_le_compat_r; lra.
Qed.

(** * Non-negative times give non-negative steps; two steps before zero gives a negative step *)
Theorem q2s_nonneg t s :
  fin t -> fin s -> 0 <= R_of t * R_of s <= bpow radix2 60 -> (0 <= q2s t s)%Z.
Proof.
  intros Ft Fs [H0 H1]. rewrite (q2s_R t s Ft Fs) by (rewrite Rabs_pos_eq; lra).
  assert (0 <= rnd (R_of t * R_of s)).
  { apply round_ge_generic; auto with typeclass_instances. apply generic_format_0. }
  assert (0 <= rnd (rnd (R_of t * R_of s) + / 2)).
  { apply round_ge_generic; auto with typeclass_instances. apply generic_format_0. lra. }
  rewrite Ztrunc_floor by assumption. apply Zfloor_lub. assumption.
Qed.

Theorem q2s_negative t s :
  fin t -> fin s -> - bpow radix2 60 <= R_of t * R_of s <= -2 -> (q2s t s < 0)%Z.
Proof.
  intros Ft Fs [H0 H1]. rewrite (q2s_R t s Ft Fs) by (rewrite Rabs_left1; lra).
  assert (A : rnd (R_of t * R_of s) <= -2).
  { apply round_le_generic; auto with typeclass_instances.
    apply (format_IZR_small (-2)). cbn. lia. }
  assert (B : rnd (rnd (R_of t * R_of s) + / 2) <= IZR (-3) * / 2).
  { apply round_le_generic; auto with typeclass_instances.
    apply (format_half_int (-3)). cbn. lia. lra. }
  rewrite Ztrunc_ceil by lra.
  assert (Zceil (rnd (rnd (R_of t * R_of s) + / 2)) <= -1)%Z; [|lia].
  apply Zceil_glb. lra.
Qed.

(** * Exact ties round up *)
Theorem q2s_tie_up t s k :
  fin t -> fin s -> (0 <= k < 2 ^ 51)%Z -> R_of t * R_of s = IZR k + / 2 ->
  q2s t s = (k + 1)%Z.
Proof.
  intros Ft Fs Hk E.
  assert (Hk' : 0 <= IZR k < bpow radix2 51).
  { split. apply IZR_le; lia. change (bpow radix2 51) with (IZR (2 ^ 51)). apply IZR_lt; lia. }
  assert (B : Rabs (R_of t * R_of s) <= bpow radix2 60).
  { rewrite E, Rabs_pos_eq by lra. pose proof (bpow_le radix2 (51 + 1) 60 ltac:(lia)) as H.
    rewrite bpow_double in H. pose proof (bpow_ge_1 51 ltac:(lia)). lra. }
  rewrite (q2s_R t s Ft Fs B), E.
  replace (IZR k + / 2) with (IZR (2 * k + 1) * / 2) by (rewrite plus_IZR, mult_IZR; lra).
  rewrite (round_generic radix2 fexp ZnearestE (IZR (2 * k + 1) * / 2))
    by (apply format_half_int; lia).
  replace (IZR (2 * k + 1) * / 2 + / 2) with (IZR (k + 1)) by (rewrite !plus_IZR, mult_IZR; lra).
  rewrite round_generic by (auto with typeclass_instances; apply format_IZR_small; lia).
  apply Ztrunc_IZR.
Qed.

(** * Nearest step away from half-step boundaries *)
Definition u53 : R := / 2 * bpow radix2 (- prec + 1).      (* 2^-53 *)
Definition eta : R := / 2 * bpow radix2 (3 - emax - prec).  (* 2^-1075 *)

Lemma rnd_err x : 0 <= x -> Rabs (rnd x - x) <= u53 * x + eta.
Proof.
  intros Hx.
  destruct (error_N_FLT radix2 (3 - emax - prec) prec ltac:(unfold prec; lia) (fun z => negb (Z.even z)) x)
    as (eps & et & He & Ht & _ & E).
  rewrite E. replace (x * (1 + eps) + et - x) with (x * eps + et) by ring.
  apply Rle_trans with (Rabs (x * eps) + Rabs et). apply Rabs_triang.
  rewrite Rabs_mult, (Rabs_pos_eq x) by exact Hx.
  unfold u53, eta. apply Rplus_le_compat; [|exact Ht].
  rewrite Rmult_comm. apply Rmult_le_compat_r; assumption.
Qed.

Lemma u53_val : bpow radix2 (-50) = 8 * u53.
Proof.
  unfold u53. replace (- prec + 1)%Z with (-52)%Z by (unfold prec; lia).
  replace (-50)%Z with (3 + (-1) + (-52))%Z by lia. rewrite !bpow_plus.
  replace (bpow radix2 3) with 8 by (cbn; lra). replace (bpow radix2 (-1)) with (/ 2) by (cbn; lra). ring.
Qed.

Lemma u53_small : 0 < u53 <= / 1024.
Proof.
  unfold u53. replace (- prec + 1)%Z with (-52)%Z by (unfold prec; lia). split.
  - pose proof (bpow_gt_0 radix2 (-52)). lra.
  - pose proof (bpow_le radix2 (-52) (-9) ltac:(lia)) as H.
    replace (bpow radix2 (-9)) with (/ 512) in H by (cbn; lra). lra.
Qed.

Lemma eta_small : 0 < eta <= u53 / 4.
Proof.
  unfold eta, u53. replace (3 - emax - prec)%Z with (-1074)%Z by (unfold emax, prec; lia).
  replace (- prec + 1)%Z with (-52)%Z by (unfold prec; lia). split.
  - pose proof (bpow_gt_0 radix2 (-1074)). lra.
  - pose proof (bpow_le radix2 (-1074) (-54) ltac:(lia)) as H.
    replace (-54)%Z with ((-2) + (-52))%Z in H by lia. rewrite bpow_plus in H.
    replace (bpow radix2 (-2)) with (/ 4) in H by (cbn; lra). lra.
Qed.

(** the computed value is within 2^-50 (p+1) of p + 1/2 *)
Lemma q2s_value_close p : 0 <= p ->
  Rabs (rnd (rnd p + / 2) - (p + / 2)) < bpow radix2 (-50) * (p + 1).
Proof.
  intros Hp. rewrite u53_val.
  pose proof u53_small as [U0 U1]. pose proof eta_small as [E0 E1].
  assert (X0 : 0 <= rnd p).
  { apply round_ge_generic; auto with typeclass_instances. apply generic_format_0. }
  pose proof (rnd_err p Hp) as D1.
  pose proof (rnd_err (rnd p + / 2) ltac:(lra)) as D2.
  assert (X1 : rnd p <= p + (u53 * p + eta)).
  { apply Rabs_le_inv in D1. lra. }
  replace (rnd (rnd p + / 2) - (p + / 2)) with ((rnd (rnd p + / 2) - (rnd p + / 2)) + (rnd p - p)) by ring.
  eapply Rle_lt_trans. apply Rabs_triang.
  eapply Rle_lt_trans. apply Rplus_le_compat; [exact D2|exact D1].
  (* u (x1 + 1/2) + eta + u p + eta  <  8 u (p+1) *)
  assert (u53 * rnd p <= u53 * (p + (u53 * p + eta))) by (apply Rmult_le_compat_l; lra).
  assert (u53 * (u53 * p) <= u53 * p).
  { rewrite <- Rmult_assoc. apply Rmult_le_compat_r. lra.
    replace u53 with (u53 * 1) at 3 by ring. apply Rmult_le_compat_l; lra. }
  assert (u53 * eta <= u53) by (replace u53 with (u53 * 1) at 2 by ring; apply Rmult_le_compat_l; lra).
  assert (0 <= u53 * p) by (apply Rmult_le_pos; lra).
  nra.
Qed.

Theorem q2s_nearest t s :
  fin t -> fin s ->
  0 <= R_of t * R_of s <= bpow radix2 60 ->
  (forall k : Z, Rabs (R_of t * R_of s - (IZR k + / 2)) > bpow radix2 (-50) * (R_of t * R_of s + 1)) ->
  q2s t s = Zfloor (R_of t * R_of s + / 2).
Proof.
  intros Ft Fs [H0 H1] Hm.
  rewrite (q2s_R t s Ft Fs) by (rewrite Rabs_pos_eq; lra).
  set (p := R_of t * R_of s) in *.
  set (k := Zfloor (p + / 2)).
  pose proof (Zfloor_lb (p + / 2)) as L. pose proof (Zfloor_ub (p + / 2)) as Ub. fold k in L, Ub.
  pose proof (q2s_value_close p H0) as C. set (y := rnd (rnd p + / 2)) in *.
  set (d := bpow radix2 (-50) * (p + 1)) in *.
  assert (D0 : 0 < d).
  { unfold d. apply Rmult_lt_0_compat. apply bpow_gt_0. lra. }
  (* margin below: k - 1/2 ... and above: k + 1/2 *)
  pose proof (Hm (k - 1)%Z) as M1. pose proof (Hm k) as M2.
  rewrite minus_IZR in M1.
  assert (A1 : IZR k + d < p + / 2).
  { rewrite Rabs_pos_eq in M1 by lra. lra. }
  assert (A2 : p + / 2 < IZR k + 1 - d).
  { rewrite Rabs_left1 in M2 by lra. lra. }
  apply Rabs_lt_inv in C.
  assert (Y0 : 0 <= y).
  { unfold y. apply round_ge_generic; auto with typeclass_instances. apply generic_format_0.
    assert (0 <= rnd p). { apply round_ge_generic; auto with typeclass_instances. apply generic_format_0. }
    lra. }
  rewrite Ztrunc_floor by exact Y0.
  apply Zfloor_imp. rewrite plus_IZR. lra.
Qed.

(** a usable sufficient form of the margin: p + 1/2 is at distance > d from every integer as soon
    as it is at distance > d from its own floor and from floor + 1 *)
Theorem q2s_nearest_local t s :
  fin t -> fin s ->
  0 <= R_of t * R_of s <= bpow radix2 60 ->
  let p := R_of t * R_of s in
  let k := Zfloor (p + / 2) in
  let d := bpow radix2 (-50) * (p + 1) in
  IZR k + d < p + / 2 < IZR k + 1 - d ->
  q2s t s = k.
Proof.
  intros Ft Fs H01 p k d Hk. apply q2s_nearest; try assumption.
  intros j. fold p. fold d.
  assert (D0 : 0 < d).
  { unfold d. apply Rmult_lt_0_compat. apply bpow_gt_0. unfold p. lra. }
  destruct (Z_lt_le_dec j k) as [Hj|Hj].
  - assert (IZR j <= IZR k - 1). { rewrite <- minus_IZR. apply IZR_le. lia. }
    rewrite Rabs_pos_eq by lra. lra.
  - assert (IZR k <= IZR j) by (apply IZR_le; lia).
    rewrite Rabs_left1 by lra. lra.
Qed.

(** * Integers as floats, and the two resolutions *)
Lemma of_uint63_R (z : Z) : (0 <= z < 2 ^ 53)%Z ->
  R_of (PrimFloat.of_uint63 (Uint63.of_Z z)) = IZR z /\ fin (PrimFloat.of_uint63 (Uint63.of_Z z)).
Proof.
  intros Hz. unfold R_of, fin. rewrite of_int63_equiv.
  assert (Ez : Uint63.to_Z (Uint63.of_Z z) = z).
  { rewrite Uint63.of_Z_spec. apply Z.mod_small. unfold Uint63.wB. cbn. lia. }
  rewrite Ez.
  generalize (binary_normalize_correct prec emax Hprec Hmax mode_NE z 0 false).
  cbv zeta. unfold F2R. cbn [Fnum Fexp bpow]. rewrite Rmult_1_r.
  change (round radix2 (SpecFloat.fexp prec emax) (round_mode mode_NE) (IZR z)) with (rnd (IZR z)).
  rewrite (round_generic radix2 fexp ZnearestE (IZR z)) by (apply format_IZR_small; lia).
  rewrite Rlt_bool_true.
  - intros (H1 & H2 & _). split; assumption.
  - rewrite Rabs_pos_eq by (apply IZR_le; lia).
    apply Rlt_trans with (bpow radix2 53). change (bpow radix2 53) with (IZR (2 ^ 53)). apply IZR_lt; lia.
    apply bpow_lt. unfold emax. lia.
Qed.

Lemma f_of_Z_R (z : Z) : (0 <= z < 2 ^ 53)%Z -> R_of (f_of_Z z) = IZR z /\ fin (f_of_Z z).
Proof.
  intros Hz. unfold f_of_Z, f_of_me. replace (z <? 0)%Z with false by lia.
  rewrite Z.abs_eq by lia. destruct (of_uint63_R z Hz) as [E F].
  unfold R_of, fin in *. rewrite ldexp_equiv.
  generalize (Bldexp_correct prec emax Hprec Hmax mode_NE (Prim2B (of_uint63 (Uint63.of_Z z))) 0).
  rewrite E. cbn [bpow]. rewrite Rmult_1_r.
  change (round radix2 (SpecFloat.fexp prec emax) (round_mode mode_NE) (IZR z)) with (rnd (IZR z)).
  rewrite (round_generic radix2 fexp ZnearestE (IZR z)) by (apply format_IZR_small; lia).
  rewrite Rlt_bool_true.
  - intros (H1 & H2 & _). rewrite F in H2. split; assumption.
  - rewrite Rabs_pos_eq by (apply IZR_le; lia).
    apply Rlt_trans with (bpow radix2 53). change (bpow radix2 53) with (IZR (2 ^ 53)). apply IZR_lt; lia.
    apply bpow_lt. unfold emax. lia.
Qed.

(** absolute resolution: the int steps_per_second is converted exactly *)
Lemma sps_abs_R (sps : Z) : (0 <= sps <= 2 ^ 20)%Z ->
  R_of (sps_abs sps) = IZR sps /\ fin (sps_abs sps) /\ 0 <= R_of (sps_abs sps) <= bpow radix2 20.
Proof.
  intros H. destruct (f_of_Z_R sps ltac:(lia)) as [E F]. unfold sps_abs. rewrite E.
  split; [reflexivity|]. split; [exact F|]. split. apply IZR_le; lia.
  change (bpow radix2 20) with (IZR (2 ^ 20)). apply IZR_le; lia.
Qed.

(** tempo-relative resolution: steps_per_quarter * qpm / 60 with two roundings; finite, positive,
    bounded, and within 2^-51-relative of the exact value *)
Lemma sixty_R : R_of 60%float = 60 /\ fin 60%float.
Proof.
  split; [|reflexivity]. rewrite R_of_SF.
  replace (Prim2SF 60%float) with (S754_finite false 8444249301319680 (-47)) by (vm_compute; reflexivity).
  unfold SF2R, F2R. cbn -[IZR]. lra.
Qed.

Theorem sps_rel_R (spq : Z) (qpm : PrimFloat.float) :
  (1 <= spq <= 1024)%Z -> fin qpm -> 1 <= R_of qpm <= 1024 ->
  let x := IZR spq * R_of qpm / 60 in
  fin (sps_rel spq qpm) /\ 0 < R_of (sps_rel spq qpm) <= bpow radix2 20 /\
  Rabs (R_of (sps_rel spq qpm) - x) <= bpow radix2 (-51) * x.
Proof.
  intros Hs Fq [Q0 Q1] x.
  destruct (f_of_Z_R spq ltac:(lia)) as [Es Fs]. destruct sixty_R as [E60 F60].
  assert (S0 : 1 <= IZR spq <= 1024) by (split; apply IZR_le; lia).
  assert (P0 : 1 <= IZR spq * R_of qpm <= 1024 * 1024) by nra.
  assert (B20 : bpow radix2 20 = 1024 * 1024) by (cbn; lra).
  unfold sps_rel.
  destruct (mul_R (f_of_Z spq) qpm 20 Fs Fq ltac:(lia)) as [Em Fm].
  { rewrite Es, Rabs_pos_eq by lra. lra. }
  rewrite Es in Em.
  set (m := rnd (IZR spq * R_of qpm)) in *.
  assert (M0 : 1 <= m <= 1024 * 1024).
  { unfold m. split.
    - apply round_ge_generic; auto with typeclass_instances. apply (format_IZR_small 1). cbn; lia. lra.
    - apply round_le_generic; auto with typeclass_instances.
      replace (1024 * 1024) with (IZR 1048576) by lra. apply format_IZR_small. cbn; lia. lra. }
  destruct (div_R (f_of_Z spq * qpm)%float 60%float 20 Fm F60) as [Ed Fd].
  { rewrite E60. lra. } { lia. }
  { rewrite Em, E60, Rabs_pos_eq by (apply Rmult_le_pos; lra). lra. }
  rewrite Em, E60 in Ed.
  pose proof u53_small as [U0 U1]. pose proof eta_small as [H0 H1].
  (* relative errors: both roundings are in the normal range *)
  assert (RE : forall z, bpow radix2 (-6) <= z -> Rabs (rnd z - z) <= u53 * z).
  { intros z Hz. pose proof (bpow_gt_0 radix2 (-6)).
    pose proof (relative_error_N_FLT radix2 (3 - emax - prec) prec ltac:(unfold prec; lia)
                  (fun n => negb (Z.even n)) z) as RR.
    rewrite (Rabs_pos_eq z) in RR by lra. apply RR.
    apply Rle_trans with (bpow radix2 (-6)); [|exact Hz]. apply bpow_le. unfold emax, prec. lia. }
  assert (B6 : bpow radix2 (-6) = / 64) by (cbn; lra).
  assert (R1 : Rabs (m - IZR spq * R_of qpm) <= u53 * (IZR spq * R_of qpm)).
  { unfold m. apply RE. lra. }
  assert (D0 : / 64 <= m / 60 <= 1024 * 1024) by lra.
  assert (R2 : Rabs (rnd (m / 60) - m / 60) <= u53 * (m / 60)).
  { apply RE. lra. }
  assert (Q : / 64 <= rnd (m / 60) <= 1024 * 1024).
  { split.
    - rewrite <- B6. apply round_ge_generic; auto with typeclass_instances.
      apply generic_format_bpow. unfold FLT_exp, emax, prec. lia. lra.
    - apply round_le_generic; auto with typeclass_instances.
      replace (1024 * 1024) with (IZR 1048576) by lra. apply format_IZR_small. cbn; lia. lra. }
  split; [exact Fd|]. rewrite Ed.
  apply Rabs_le_inv in R1. apply Rabs_le_inv in R2.
  split.
  - rewrite B20. lra.
  - replace (bpow radix2 (-51)) with (4 * u53) by (pose proof u53_val as V; replace (-50)%Z with (1 + (-51))%Z in V by lia;
      rewrite bpow_plus in V; replace (bpow radix2 1) with 2 in V by (cbn; lra); lra).
    unfold x. apply Rabs_le. nra.
Qed.
