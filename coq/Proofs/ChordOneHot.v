(** Proofs/ChordOneHot.v — the chord one-hot encodings are bijections onto their class range.
    The domains are genuinely finite (25 / 49 indices, 12 roots x 5 qualities): complete
    enumeration inside the kernel over the tables regenerated from the code, lifted to
    universally quantified statements. *)
From Coq Require Import ZArith List Bool Lia.
From NS Require Import Gen.G09 Model.ChordOneHot.
Import ListNotations.
Local Open Scope Z_scope.

Definition zrange (n : nat) : list Z := map Z.of_nat (seq 0 n).

Lemma in_zrange n z : 0 <= z < Z.of_nat n -> In z (zrange n).
Proof.
  intros H. unfold zrange. rewrite <- (Z2Nat.id z) by lia.
  apply in_map. apply in_seq. lia.
Qed.

Definition mean_eqb (a b : option (Z * Z)) : bool :=
  match a, b with
  | None, None => true
  | Some (r1, q1), Some (r2, q2) => (r1 =? r2) && (q1 =? q2)
  | _, _ => false
  end.

Lemma mean_eqb_eq a b : mean_eqb a b = true -> a = b.
Proof.
  destruct a as [[r1 q1]|], b as [[r2 q2]|]; cbn; try discriminate; auto.
  intros H. apply andb_prop in H. destruct H as [H1 H2].
  apply Z.eqb_eq in H1. apply Z.eqb_eq in H2. subst. reflexivity.
Qed.

(** decode then encode is the identity on one index *)
Definition dec_enc_ok (dec : Z -> chres (option (Z * Z))) (enc : option (Z * Z) -> chres Z) (i : Z) : bool :=
  match dec i with
  | ChOk ev => match enc ev with ChOk c => c =? i | ChErr => false end
  | ChErr => false
  end.

Lemma dec_enc_ok_spec dec enc i : dec_enc_ok dec enc i = true ->
  exists ev, dec i = ChOk ev /\ enc ev = ChOk i.
Proof.
  unfold dec_enc_ok. destruct (dec i) as [ev|]; [|discriminate].
  destruct (enc ev) as [c|] eqn:E; [|discriminate].
  intros H. apply Z.eqb_eq in H. subst. exists ev. split; [reflexivity | exact E].
Qed.

Lemma mm_all : forallb (dec_enc_ok mm_decode mm_encode) (zrange 25) = true.
Proof. vm_compute. reflexivity. Qed.
Lemma triad_all : forallb (dec_enc_ok triad_decode triad_encode) (zrange 49) = true.
Proof. vm_compute. reflexivity. Qed.

Lemma mm_classes : ch_num_classes 2 = 25. Proof. vm_compute. reflexivity. Qed.
Lemma triad_classes : ch_num_classes 4 = 49. Proof. vm_compute. reflexivity. Qed.

Lemma mm_decode_encode i : 0 <= i < ch_num_classes 2 ->
  exists ev, mm_decode i = ChOk ev /\ mm_encode ev = ChOk i.
Proof.
  rewrite mm_classes. intros H. apply dec_enc_ok_spec.
  apply (proj1 (forallb_forall _ _) mm_all). apply in_zrange. cbn. lia.
Qed.

Lemma triad_decode_encode i : 0 <= i < ch_num_classes 4 ->
  exists ev, triad_decode i = ChOk ev /\ triad_encode ev = ChOk i.
Proof.
  rewrite triad_classes. intros H. apply dec_enc_ok_spec.
  apply (proj1 (forallb_forall _ _) triad_all). apply in_zrange. cbn. lia.
Qed.

Lemma mm_decode_injective i j : 0 <= i < ch_num_classes 2 -> 0 <= j < ch_num_classes 2 ->
  mm_decode i = mm_decode j -> i = j.
Proof.
  intros Hi Hj E. destruct (mm_decode_encode i Hi) as (a & Da & Ea).
  destruct (mm_decode_encode j Hj) as (b & Db & Eb).
  rewrite Da, Db in E. injection E as ->. rewrite Ea in Eb. injection Eb as ->. reflexivity.
Qed.

Lemma triad_decode_injective i j : 0 <= i < ch_num_classes 4 -> 0 <= j < ch_num_classes 4 ->
  triad_decode i = triad_decode j -> i = j.
Proof.
  intros Hi Hj E. destruct (triad_decode_encode i Hi) as (a & Da & Ea).
  destruct (triad_decode_encode j Hj) as (b & Db & Eb).
  rewrite Da, Db in E. injection E as ->. rewrite Ea in Eb. injection Eb as ->. reflexivity.
Qed.

(** encode then decode: for every root 0..11 and every quality value 0..4, an accepted event lands in
    range and decodes to a name with the same root and quality; qualities outside the encoder's set
    are rejected. *)
Definition enc_dec_ok (nq : Z) (enc : option (Z * Z) -> chres Z) (dec : Z -> chres (option (Z * Z)))
           (accepted : Z -> bool) (rq : Z * Z) : bool :=
  let (r, q) := rq in
  match enc (Some (r, q)) with
  | ChOk c => accepted q && (0 <=? c) && (c <? ch_num_classes nq) &&
              match dec c with ChOk m => mean_eqb m (Some (r, q)) | ChErr => false end
  | ChErr => negb (accepted q)
  end.

Definition all_rq : list (Z * Z) := list_prod (zrange 12) (zrange 5).

Definition mm_accepts (q : Z) := (q =? CHORD_QUALITY_MAJOR) || (q =? CHORD_QUALITY_MINOR).
Definition triad_accepts (q : Z) :=
  (q =? CHORD_QUALITY_MAJOR) || (q =? CHORD_QUALITY_MINOR) || (q =? CHORD_QUALITY_AUGMENTED) || (q =? CHORD_QUALITY_DIMINISHED).

Lemma mm_enc_all : forallb (enc_dec_ok 2 mm_encode mm_decode mm_accepts) all_rq = true.
Proof. vm_compute. reflexivity. Qed.
Lemma triad_enc_all : forallb (enc_dec_ok 4 triad_encode triad_decode triad_accepts) all_rq = true.
Proof. vm_compute. reflexivity. Qed.

Lemma in_all_rq r q : 0 <= r < 12 -> 0 <= q < 5 -> In (r, q) all_rq.
Proof. intros Hr Hq. unfold all_rq. apply in_prod; apply in_zrange; cbn; lia. Qed.

Lemma enc_dec_generic nq enc dec acc r q c :
  forallb (enc_dec_ok nq enc dec acc) all_rq = true ->
  0 <= r < 12 -> 0 <= q < 5 -> enc (Some (r, q)) = ChOk c ->
  0 <= c < ch_num_classes nq /\ dec c = ChOk (Some (r, q)) /\ acc q = true.
Proof.
  intros A Hr Hq E.
  pose proof (proj1 (forallb_forall _ _) A (r, q) (in_all_rq r q Hr Hq)) as H.
  unfold enc_dec_ok in H. rewrite E in H.
  apply andb_prop in H. destruct H as [H Hd].
  apply andb_prop in H. destruct H as [H Hlt].
  apply andb_prop in H. destruct H as [Ha Hge].
  destruct (dec c) as [m|]; [|discriminate]. apply mean_eqb_eq in Hd. subst m.
  repeat split; try assumption; lia.
Qed.

Lemma enc_rejects_generic nq enc dec acc r q :
  forallb (enc_dec_ok nq enc dec acc) all_rq = true ->
  0 <= r < 12 -> 0 <= q < 5 -> enc (Some (r, q)) = ChErr -> acc q = false.
Proof.
  intros A Hr Hq E.
  pose proof (proj1 (forallb_forall _ _) A (r, q) (in_all_rq r q Hr Hq)) as H.
  unfold enc_dec_ok in H. rewrite E in H. apply negb_true_iff in H. exact H.
Qed.

Lemma mm_encode_decode r q c : 0 <= r < 12 -> 0 <= q < 5 -> mm_encode (Some (r, q)) = ChOk c ->
  0 <= c < ch_num_classes 2 /\ mm_decode c = ChOk (Some (r, q)) /\ mm_accepts q = true.
Proof. apply enc_dec_generic. exact mm_enc_all. Qed.

Lemma triad_encode_decode r q c : 0 <= r < 12 -> 0 <= q < 5 -> triad_encode (Some (r, q)) = ChOk c ->
  0 <= c < ch_num_classes 4 /\ triad_decode c = ChOk (Some (r, q)) /\ triad_accepts q = true.
Proof. apply enc_dec_generic. exact triad_enc_all. Qed.

Lemma mm_encode_rejects r q : 0 <= r < 12 -> 0 <= q < 5 -> mm_encode (Some (r, q)) = ChErr -> mm_accepts q = false.
Proof. apply enc_rejects_generic with (dec := mm_decode) (nq := 2). exact mm_enc_all. Qed.

Lemma triad_encode_rejects r q : 0 <= r < 12 -> 0 <= q < 5 -> triad_encode (Some (r, q)) = ChErr -> triad_accepts q = false.
Proof. apply enc_rejects_generic with (dec := triad_decode) (nq := 4). exact triad_enc_all. Qed.

Lemma no_chord_is_class_zero : mm_encode None = ChOk 0 /\ triad_encode None = ChOk 0 /\
  mm_decode 0 = ChOk None /\ triad_decode 0 = ChOk None.
Proof. repeat split. Qed.
