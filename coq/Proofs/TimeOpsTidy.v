(** Proofs/TimeOpsTidy.v — the stable sort and the redundant-event pass of
    remove_redundant_data (C13). *)
From Coq Require Import ZArith List Bool Lia ZifyBool Permutation Sorted.
From NS Require Import Base.Sx Base.NoteSeq Model.TimeOps.
Import ListNotations.
Local Open Scope Z_scope.

(** * Stable insertion sort *)
Section Sort.
  Context {A : Type} (key : A -> Z).

  Definition le_key (a b : A) : Prop := key a <= key b.
  Definition sorted_by (l : list A) : Prop := StronglySorted le_key l.

  Lemma insert_by_perm : forall x l, Permutation (insert_by key x l) (x :: l).
  Proof.
    induction l as [|y r IH]; cbn; [reflexivity|].
    destruct (key x <=? key y); [reflexivity|].
    rewrite IH. apply perm_swap.
  Qed.

  Lemma sort_by_perm : forall l, Permutation (sort_by key l) l.
  Proof.
    induction l as [|x r IH]; cbn; [reflexivity|].
    rewrite insert_by_perm. apply perm_skip. exact IH.
  Qed.

  Lemma insert_by_sorted : forall x l, sorted_by l -> sorted_by (insert_by key x l).
  Proof.
    induction l as [|y r IH]; intros S; cbn.
    - constructor; constructor.
    - inversion S as [|? ? S' F]; subst.
      destruct (key x <=? key y) eqn:E.
      + constructor; [exact S|]. constructor; [unfold le_key; lia|].
        eapply Forall_impl; [|exact F]. unfold le_key; intros; lia.
      + constructor; [apply IH; exact S'|].
        eapply Permutation_Forall; [symmetry; apply insert_by_perm|].
        constructor; [unfold le_key; lia|exact F].
  Qed.

  Lemma sort_by_sorted : forall l, sorted_by (sort_by key l).
  Proof.
    induction l; cbn; [constructor|]. apply insert_by_sorted. assumption.
  Qed.

  (** Stability: events with equal time keep their storage order. *)
  Lemma insert_by_class : forall k x l,
    filter (fun e => key e =? k) (insert_by key x l) =
    (if key x =? k then [x] else []) ++ filter (fun e => key e =? k) l.
  Proof.
    induction l as [|y r IH]; cbn.
    - destruct (key x =? k); reflexivity.
    - destruct (key x <=? key y) eqn:E; cbn.
      + destruct (key x =? k), (key y =? k); reflexivity.
      + rewrite IH. destruct (key x =? k) eqn:X, (key y =? k) eqn:Y; cbn; try reflexivity. lia.
  Qed.

  Lemma sort_by_stable : forall k l,
    filter (fun e => key e =? k) (sort_by key l) = filter (fun e => key e =? k) l.
  Proof.
    induction l as [|x r IH]; [reflexivity|].
    change (sort_by key (x :: r)) with (insert_by key x (sort_by key r)).
    rewrite insert_by_class, IH. cbn [filter]. destruct (key x =? k); reflexivity.
  Qed.

  Lemma sort_by_In : forall x l, In x (sort_by key l) <-> In x l.
  Proof.
    intros; split; apply Permutation_in; [|symmetry]; apply sort_by_perm.
  Qed.
End Sort.

(** * Dropping events that repeat their predecessor's value *)
Inductive subseq {A : Type} : list A -> list A -> Prop :=
| sub_nil : subseq [] []
| sub_skip : forall x l1 l2, subseq l1 l2 -> subseq l1 (x :: l2)
| sub_keep : forall x l1 l2, subseq l1 l2 -> subseq (x :: l1) (x :: l2).

Section Dedup.
  Context {A V : Type} (time : A -> Z) (val : A -> V) (same : A -> A -> bool).
  Context (same_spec : forall a b, same a b = true <-> val a = val b).

  Lemma drop_rep_subseq : forall l p, subseq (drop_rep same p l) l.
  Proof.
    induction l as [|x r IH]; intro p; cbn; [constructor|].
    destruct (same p x); [apply sub_skip|apply sub_keep]; apply IH.
  Qed.

  (** Only drops: what remains is the input with some events removed, in the same order. *)
  Lemma dedup_subseq : forall l, subseq (dedup same l) l.
  Proof. destruct l; cbn; [constructor|]. apply sub_keep, drop_rep_subseq. Qed.

  (** The value in force at time [t]: scan the time-ordered events up to [t]. *)
  Fixpoint force (cur : option V) (l : list A) (t : Z) : option V :=
    match l with
    | [] => cur
    | e :: r => if time e <=? t then force (Some (val e)) r t else cur
    end.

  Lemma force_drop_rep : forall l p t,
    sorted_by time (p :: l) ->
    force (Some (val p)) (drop_rep same p l) t = force (Some (val p)) l t.
  Proof.
    induction l as [|x r IH]; intros p t S; cbn [drop_rep force]; [reflexivity|].
    inversion S as [|? ? S' F]; subst.
    destruct (same p x) eqn:E.
    - apply same_spec in E. rewrite E. rewrite IH by exact S'.
      destruct (time x <=? t) eqn:T; [reflexivity|].
      destruct r as [|y r']; cbn [force]; [reflexivity|].
      inversion S' as [|? ? _ F']; subst. inversion F'; subst. unfold le_key in *.
      destruct (time y <=? t) eqn:T'; [lia|reflexivity].
    - cbn [force]. rewrite IH by exact S'. reflexivity.
  Qed.

  (** Removing redundant events never changes the value in force, at any time. *)
  Lemma dedup_force : forall l t,
    sorted_by time l -> force None (dedup same l) t = force None l t.
  Proof.
    intros [|x r] t S; cbn [dedup force]; [reflexivity|].
    destruct (time x <=? t); [|reflexivity]. apply force_drop_rep. exact S.
  Qed.

  (** Exactly which events go: the one at a given position of the time-ordered
      list is dropped iff the event just before it carries the same value. *)
  Lemma drop_rep_app : forall l1 p x l2,
    drop_rep same p (l1 ++ x :: l2) = drop_rep same p (l1 ++ [x]) ++ drop_rep same x l2.
  Proof.
    induction l1 as [|y r IH]; intros p x l2; cbn.
    - destruct (same p x); reflexivity.
    - rewrite IH. destruct (same p y); reflexivity.
  Qed.

  Lemma drop_rep_snoc : forall l p x,
    drop_rep same p (l ++ [x]) = drop_rep same p l ++ (if same (last l p) x then [] else [x]).
  Proof.
    induction l as [|y r IH]; intros p x.
    - cbn. destruct (same p x); reflexivity.
    - change ((y :: r) ++ [x]) with (y :: (r ++ [x])). cbn [drop_rep]. rewrite IH.
      replace (last (y :: r) p) with (last r y) by (clear; revert y; induction r; intros; cbn in *; auto;
                                                    destruct r; auto).
      destruct (same p y); reflexivity.
  Qed.

  Lemma dedup_app : forall l1 x l2,
    dedup same (l1 ++ x :: l2) = dedup same (l1 ++ [x]) ++ drop_rep same x l2.
  Proof.
    intros [|y r] x l2; cbn; [reflexivity|]. rewrite drop_rep_app. reflexivity.
  Qed.

  Lemma dedup_snoc : forall p l x,
    dedup same ((p :: l) ++ [x]) =
    dedup same (p :: l) ++ (if same (last l p) x then [] else [x]).
  Proof. intros. cbn. rewrite drop_rep_snoc. reflexivity. Qed.

  (** Nothing redundant is left: neighbours in the result differ in value. *)
  Lemma drop_rep_adjacent : forall l p a b pre post,
    p :: drop_rep same p l = pre ++ a :: b :: post -> val a <> val b.
  Proof.
    induction l as [|x r IH]; intros p a b pre post H; cbn [drop_rep] in H.
    - destruct pre as [|? [|? ?]]; discriminate.
    - destruct (same p x) eqn:E.
      + destruct pre as [|q pre'].
        * cbn in H. inversion H as [[Hp Hr]]. subst a.
          assert (E' : val p = val x) by (apply same_spec; exact E).
          rewrite E'. apply (IH x x b [] post). cbn. rewrite Hr. reflexivity.
        * cbn in H. inversion H as [[Hp Hr]]. subst q.
          apply (IH x a b (x :: pre') post). cbn. rewrite Hr. reflexivity.
      + destruct pre as [|q pre'].
        * cbn in H. inversion H; subst. intro C. apply same_spec in C. congruence.
        * cbn in H. inversion H as [[Hp Hr]]. apply (IH x a b pre' post). exact Hr.
  Qed.

  Lemma dedup_adjacent : forall l a b pre post,
    dedup same l = pre ++ a :: b :: post -> val a <> val b.
  Proof.
    intros [|x r] a b pre post H; cbn [dedup] in H.
    - destruct pre; discriminate.
    - eapply drop_rep_adjacent; exact H.
  Qed.
End Dedup.

(** Instances for the three event kinds. *)
Lemma tempo_same_spec : forall a b, tempo_same a b = true <-> tp_qpm a = tp_qpm b.
Proof. intros; unfold tempo_same; lia. Qed.
Lemma tsig_same_spec : forall a b,
  tsig_same a b = true <-> (ts_num a, ts_den a) = (ts_num b, ts_den b).
Proof.
  intros; unfold tsig_same; split; intro H.
  - apply andb_true_iff in H. f_equal; lia.
  - inversion H. apply andb_true_iff; lia.
Qed.
Lemma ksig_same_spec : forall a b,
  ksig_same a b = true <-> (ks_key a, ks_mode a) = (ks_key b, ks_mode b).
Proof.
  intros; unfold ksig_same; split; intro H.
  - apply andb_true_iff in H. f_equal; lia.
  - inversion H. apply andb_true_iff; lia.
Qed.

(** * The statements used by Props/C13.v, instantiated *)
Lemma tempo_sort_stable_permutation : forall (l : list tempo),
  Permutation (sort_by tp_time l) l /\ sorted_by tp_time (sort_by tp_time l) /\
  forall k, filter (fun e => tp_time e =? k) (sort_by tp_time l) = filter (fun e => tp_time e =? k) l.
Proof.
  intro l. split; [apply sort_by_perm|]. split; [apply sort_by_sorted|]. intro k. apply sort_by_stable.
Qed.

Lemma tidy_tempos_subseq : forall l, subseq (tidy_tempos l) (sort_by tp_time l).
Proof. intro l. apply dedup_subseq. Qed.

Lemma tidy_tempos_force : forall l t,
  force tp_time tp_qpm None (tidy_tempos l) t = force tp_time tp_qpm None (sort_by tp_time l) t.
Proof. intros. apply (dedup_force tp_time tp_qpm tempo_same tempo_same_spec). apply sort_by_sorted. Qed.

Lemma tidy_tsigs_force : forall l t,
  force ts_time (fun e => (ts_num e, ts_den e)) None (tidy_tsigs l) t =
  force ts_time (fun e => (ts_num e, ts_den e)) None (sort_by ts_time l) t.
Proof. intros. apply (dedup_force ts_time _ tsig_same tsig_same_spec). apply sort_by_sorted. Qed.

Lemma tidy_ksigs_force : forall l t,
  force ks_time (fun e => (ks_key e, ks_mode e)) None (tidy_ksigs l) t =
  force ks_time (fun e => (ks_key e, ks_mode e)) None (sort_by ks_time l) t.
Proof. intros. apply (dedup_force ks_time _ ksig_same ksig_same_spec). apply sort_by_sorted. Qed.

Lemma dedup_drops_exactly_repeats : forall {A} (same : A -> A -> bool) p l x l2,
  dedup same ((p :: l) ++ x :: l2) =
  dedup same (p :: l) ++ (if same (last l p) x then [] else [x]) ++ drop_rep same x l2.
Proof. intros. rewrite dedup_app, dedup_snoc, <- app_assoc. reflexivity. Qed.

Lemma tidy_tempos_adjacent : forall l a b pre post,
  tidy_tempos l = pre ++ a :: b :: post -> tp_qpm a <> tp_qpm b.
Proof. intro l. apply (dedup_adjacent tp_qpm tempo_same tempo_same_spec). Qed.

Lemma tempo_dedup_drops_exactly_repeats : forall (p : tempo) l x l2,
  dedup tempo_same ((p :: l) ++ x :: l2) =
  dedup tempo_same (p :: l) ++ (if tempo_same (last l p) x then [] else [x]) ++ drop_rep tempo_same x l2.
Proof. intros. apply dedup_drops_exactly_repeats. Qed.

Lemma tidy_tsigs_subseq : forall l, subseq (tidy_tsigs l) (sort_by ts_time l).
Proof. intro l. apply dedup_subseq. Qed.
Lemma tidy_ksigs_subseq : forall l, subseq (tidy_ksigs l) (sort_by ks_time l).
Proof. intro l. apply dedup_subseq. Qed.
