(** Proofs/MidiGlue.v — the round trip  read ∘ pm_roundtrip ∘ write  of
    Model/MidiGlue.v (C03). *)
From Coq Require Import ZArith List Bool Lia ZifyBool Permutation.
From NS Require Import Base.NoteSeq Gen.G03 Model.TempoMap Model.MidiGlue Proofs.TempoMap.
Import ListNotations.
Local Open Scope Z_scope.
Ltac Zify.zify_post_hook ::= Z.to_euclidean_division_equations.

(** * keys *)
Lemma key_eqb_eq : forall a b, key_eqb a b = true <-> a = b.
Proof.
  intros [[a1 a2] a3] [[b1 b2] b3]. unfold key_eqb, k_id, k_prog, k_drum. cbn [fst snd].
  rewrite !andb_true_iff, !Z.eqb_eq, Bool.eqb_true_iff. split.
  - intros [[-> ->] ->]. reflexivity.
  - intros H. inversion H. auto.
Qed.

Lemma key_eqb_refl : forall a, key_eqb a a = true.
Proof. intros. apply key_eqb_eq. reflexivity. Qed.

Lemma kins_perm : forall x l, Permutation (kins x l) (x :: l).
Proof.
  induction l as [|y r IH]; cbn [kins]; [reflexivity|].
  destruct (key_ltb x y); [reflexivity|].
  rewrite IH. apply perm_swap.
Qed.

Lemma existsb_key : forall x l, existsb (key_eqb x) l = true <-> In x l.
Proof.
  intros. rewrite existsb_exists. split.
  - intros (y & Hy & E). apply key_eqb_eq in E. subst. exact Hy.
  - intros H. exists x. split; [exact H | apply key_eqb_refl].
Qed.

Lemma ksort_in : forall l k, In k (ksort l) <-> In k l.
Proof.
  induction l as [|a l IH]; intros k; cbn [ksort fold_right]; [tauto|].
  fold (ksort l). unfold kadd. destruct (existsb (key_eqb a) (ksort l)) eqn:E.
  - apply existsb_key in E. rewrite IH in *. cbn [In]. split; [tauto|].
    intros [->|H]; auto.
  - split; intros H.
    + apply (Permutation_in _ (kins_perm a (ksort l))) in H. cbn [In] in *. rewrite IH in H. exact H.
    + apply (Permutation_in _ (Permutation_sym (kins_perm a (ksort l)))). cbn [In] in *. rewrite IH. exact H.
Qed.

Lemma ksort_nodup : forall l, NoDup (ksort l).
Proof.
  induction l as [|a l IH]; cbn [ksort fold_right]; [constructor|].
  fold (ksort l). unfold kadd. destruct (existsb (key_eqb a) (ksort l)) eqn:E; [exact IH|].
  apply (Permutation_NoDup (Permutation_sym (kins_perm a (ksort l)))).
  constructor; [|exact IH]. intro H. apply existsb_key in H. congruence.
Qed.

(** * tempo loop *)
Fixpoint tsorted_from (tl : Z) (ts : list tempo) : Prop :=
  match ts with
  | [] => True
  | t :: r => tl <= tp_time t /\ tsorted_from (tp_time t) r
  end.

Lemma tmins_sorted : forall x l tl, tsorted_from tl l -> tl <= tp_time x -> tsorted_from tl (tmins x l).
Proof.
  induction l as [|y r IH]; intros tl Hs Hx; cbn [tmins tsorted_from] in *; [auto|].
  destruct Hs as [H1 H2]. destruct (tp_time x <=? tp_time y) eqn:E; cbn [tsorted_from].
  - repeat split; auto; lia.
  - split; [auto|]. apply IH; auto; lia.
Qed.

Lemma sort_tempos_sorted : forall l, Forall (fun t => 0 <= tp_time t) l -> tsorted_from 0 (sort_tempos l).
Proof.
  induction 1; cbn [sort_tempos fold_right tsorted_from]; auto.
  apply tmins_sorted; auto.
Qed.

Lemma tmins_in : forall x l y, In y (tmins x l) <-> y = x \/ In y l.
Proof.
  induction l as [|a r IH]; intros y; cbn [tmins In]; [intuition|].
  destruct (tp_time x <=? tp_time a); cbn [In]; [intuition|]. rewrite IH. intuition.
Qed.

Lemma sort_tempos_in : forall l y, In y (sort_tempos l) <-> In y l.
Proof.
  induction l as [|a r IH]; intros y; cbn [sort_tempos fold_right In]; [tauto|].
  fold (sort_tempos r). rewrite tmins_in, IH. intuition.
Qed.

Lemma tempo_loop_inv : forall u0 init ts l tl, 0 < u0 -> wf l ->
  (forall t, tl <= t -> hd_tick l <= ttt u0 l t) ->
  tsorted_from tl ts -> (forall t, In t ts -> 0 < tp_qpm t) ->
  wf (fold_left (tempo_step u0 init) ts l).
Proof.
  induction ts as [|t r IH]; intros l tl Hu Hwf Hhd Hs Hq; cbn [fold_left]; [exact Hwf|].
  cbn [tsorted_from] in Hs. destruct Hs as [Hs1 Hs2].
  unfold tempo_step at 2. destruct (is_initial init t).
  - apply (IH l (tp_time t)); auto.
    + intros t' Ht'. apply Hhd. lia.
    + intros t' Ht'. apply Hq. right. exact Ht'.
  - assert (0 < tp_qpm t) as Hus by (apply Hq; left; reflexivity).
    apply (IH _ (tp_time t)); auto.
    + cbn [wf]. repeat split; auto.
    + intros t' Ht'. cbn [hd_tick]. eapply ttt_ge_hd; eauto.
    + intros t' Ht'. apply Hq. right. exact Ht'.
Qed.

(** * validity of the input (checkable) *)
Definition valid (s : seq) : bool :=
  forallb (fun t => (0 <=? tp_time t) && (0 <? tp_qpm t)) (s_tempos s) &&
  forallb (fun k => (0 <=? ks_key k) && (ks_key k <=? 11)) (s_ksigs s).

Lemma valid_tempos : forall s, valid s = true ->
  forall t, In t (s_tempos s) -> 0 <= tp_time t /\ 0 < tp_qpm t.
Proof.
  intros s H t Ht. unfold valid in H. apply andb_prop in H. destruct H as [H _].
  rewrite forallb_forall in H. specialize (H t Ht). lia.
Qed.

Lemma write_u0_pos : forall s, valid s = true -> 0 < write_u0 s.
Proof.
  intros s H. unfold write_u0. destruct (initial_tempo (s_tempos s)) eqn:E.
  - unfold initial_tempo in E. apply find_some in E. destruct E as [E _].
    apply (valid_tempos s H t E).
  - unfold DEFAULT_US_PER_QUARTER. lia.
Qed.

Lemma write_scales_wf : forall s, valid s = true -> wf (write_scales s).
Proof.
  intros s H. unfold write_scales, tempo_loop.
  apply (tempo_loop_inv _ _ _ [] 0).
  - apply write_u0_pos; auto.
  - exact I.
  - intros t _. cbn [hd_tick]. apply ttt_nonneg; [apply write_u0_pos; auto | exact I].
  - apply sort_tempos_sorted. apply Forall_forall. intros t Ht. apply (valid_tempos s H t Ht).
  - intros t Ht. apply (proj1 (sort_tempos_in _ _)) in Ht. apply (valid_tempos s H t Ht).
Qed.

(** every tempo of the written map is a tempo of the input (or the default) *)
Lemma tempo_loop_us : forall u0 init ts l us,
  In us (map snd (fold_left (tempo_step u0 init) ts l)) ->
  In us (map snd l) \/ exists t, In t ts /\ tp_qpm t = us.
Proof.
  induction ts as [|t r IH]; intros l us H; cbn [fold_left] in H; [left; exact H|].
  apply IH in H. destruct H as [H|(t' & Ht' & E)].
  - unfold tempo_step in H. destruct (is_initial init t); [left; exact H|].
    cbn [map In snd] in H. destruct H as [H|H]; [right; exists t; split; [left; reflexivity | exact H] | left; exact H].
  - right. exists t'. split; [right; exact Ht' | exact E].
Qed.

Lemma write_all_us : forall s us, In us (all_us (write_u0 s) (write_scales s)) ->
  us = DEFAULT_US_PER_QUARTER \/ exists t, In t (s_tempos s) /\ tp_qpm t = us.
Proof.
  intros s us [H|H].
  - unfold write_u0 in H. destruct (initial_tempo (s_tempos s)) eqn:E.
    + unfold initial_tempo in E. apply find_some in E. right. exists t. split; [apply E | exact H].
    + left. auto.
  - unfold write_scales, tempo_loop in H. apply tempo_loop_us in H. destruct H as [H|(t & Ht & E)].
    + cbn in H. contradiction.
    + right. exists t. split; [apply sort_tempos_in; exact Ht | exact E].
Qed.

(** * instruments *)
Lemma assign_used : forall fix9 s ks f app, fix9 = true ->
  fold_left (assign_step fix9 s) ks (f, true, app) = (f, true, rev (map (build s) ks) ++ app).
Proof.
  intros fix9 s ks f app ->. revert app.
  induction ks as [|k r IH]; intros app; cbn [fold_left map rev]; [reflexivity|].
  unfold assign_step at 2. rewrite orb_true_r. rewrite IH. rewrite <- app_assoc. reflexivity.
Qed.

Lemma assign_spec : forall s ks app,
  exists ks', Permutation ks ks' /\
   (let '(first, _, app') := fold_left (assign_step true s) ks (empty_instr, false, app) in
    first :: rev app' = empty_instr :: rev app ++ map (build s) ks' \/
    exists k0 r, ks' = k0 :: r /\ first :: rev app' = build s k0 :: rev app ++ map (build s) r).
Proof.
  intros s. induction ks as [|k r IH]; intros app.
  - exists []. split; [constructor|]. cbn. left. rewrite app_nil_r. reflexivity.
  - cbn [fold_left]. unfold assign_step at 2. cbn [andb]. rewrite orb_false_r.
    destruct (0 <? k_id k) eqn:E.
    + destruct (IH (build s k :: app)) as (ks' & HP & H).
      destruct (fold_left (assign_step true s) r (empty_instr, false, build s k :: app)) as [[first u] app'].
      destruct H as [H|(k0 & r0 & E0 & H)].
      * exists (k :: ks'). split; [constructor; exact HP|]. left.
        rewrite H. cbn [rev map]. rewrite <- app_assoc. reflexivity.
      * exists (k0 :: k :: r0). split.
        { subst ks'. rewrite HP. apply perm_swap. }
        right. exists k0, (k :: r0). split; [reflexivity|].
        rewrite H. cbn [rev map]. rewrite <- app_assoc. reflexivity.
    + rewrite assign_used by reflexivity.
      exists (k :: r). split; [reflexivity|]. right. exists k, r. split; [reflexivity|].
      rewrite rev_app_distr, rev_involutive. reflexivity.
Qed.

Lemma write_instrs_spec : forall s,
  exists ks', Permutation (seq_keys s) ks' /\
    (write_instrs true s = empty_instr :: map (build s) ks' \/ write_instrs true s = map (build s) ks').
Proof.
  intros s. destruct (assign_spec s (seq_keys s) []) as (ks' & HP & H).
  exists ks'. split; [exact HP|]. unfold write_instrs.
  destruct (fold_left (assign_step true s) (seq_keys s) (empty_instr, false, [])) as [[first u] app'].
  destruct H as [H|(k0 & r & E & H)].
  - left. exact H.
  - right. subst ks'. exact H.
Qed.

(** * the reader over the channel *)
Definition grp_notes (s : seq) (k : key) : list note := filter (fun n => key_eqb (note_key n) k) (s_notes s).
Definition grp_ccs (s : seq) (k : key) : list cc := filter (fun c => key_eqb (cc_key c) k) (s_ccs s).
Definition grp_bends (s : seq) (k : key) : list bend := filter (fun b => key_eqb (bend_key b) k) (s_bends s).

Definition conv_note (snap : Z -> Z) (j : Z) (n : note) : note :=
  mkNote (n_pitch n) (n_vel n) (snap (n_start n)) (snap (n_end n)) j (n_prog n) (n_drum n) 0 0 0.
Definition conv_cc (snap : Z -> Z) (j : Z) (c : cc) : cc :=
  mkCc (snap (cc_time c)) 0 (cc_num c) (cc_val c) j (cc_prog c) (cc_drum c).
Definition conv_bend (snap : Z -> Z) (j : Z) (b : bend) : bend :=
  mkBend (snap (pb_time b)) (pb_bend b) j (pb_prog b) (pb_drum b).

Definition grp_nonempty (s : seq) (k : key) : bool := match grp_notes s k with [] => false | _ => true end.

(** output instrument numbers: consecutive over the groups that have notes *)
Fixpoint tag (s : seq) (i : Z) (ks : list key) : list (Z * key) :=
  match ks with
  | [] => []
  | k :: r => if grp_nonempty s k then (i, k) :: tag s (i + 1) r else tag s i r
  end.

Lemma has_notes_chan_build : forall snap s k, has_notes (chan_instr snap (build s k)) = grp_nonempty s k.
Proof.
  intros. unfold has_notes, grp_nonempty, grp_notes. cbn.
  destruct (filter (fun n => key_eqb (note_key n) k) (s_notes s)); reflexivity.
Qed.

Lemma key_fields : forall k a b c, (a, b, c) = k -> k_prog k = b /\ k_drum k = c /\ k_id k = a.
Proof. intros k a b c <-. auto. Qed.

Lemma read_notes_tag : forall snap s ks i,
  read_notes i (filter has_notes (map (chan_instr snap) (map (build s) ks))) =
  flat_map (fun jk => map (conv_note snap (fst jk)) (grp_notes s (snd jk))) (tag s i ks).
Proof.
  induction ks as [|k r IH]; intros i; cbn [map filter tag]; [reflexivity|].
  rewrite has_notes_chan_build. destruct (grp_nonempty s k).
  - cbn [read_notes flat_map fst snd]. rewrite IH. f_equal.
    cbn [chan_instr build pi_notes pi_prog pi_drum]. rewrite !map_map.
    apply map_ext_in. intros n Hn. apply filter_In in Hn. destruct Hn as [_ Hn].
    apply key_eqb_eq in Hn. unfold note_key in Hn. apply key_fields in Hn. destruct Hn as (-> & -> & _).
    reflexivity.
  - apply IH.
Qed.

Lemma read_ccs_tag : forall snap s ks i,
  read_ccs i (filter has_notes (map (chan_instr snap) (map (build s) ks))) =
  flat_map (fun jk => map (conv_cc snap (fst jk)) (grp_ccs s (snd jk))) (tag s i ks).
Proof.
  induction ks as [|k r IH]; intros i; cbn [map filter tag]; [reflexivity|].
  rewrite has_notes_chan_build. destruct (grp_nonempty s k).
  - cbn [read_ccs flat_map fst snd]. rewrite IH. f_equal.
    cbn [chan_instr build pi_ccs pi_prog pi_drum]. rewrite !map_map.
    apply map_ext_in. intros n Hn. apply filter_In in Hn. destruct Hn as [_ Hn].
    apply key_eqb_eq in Hn. unfold cc_key in Hn. apply key_fields in Hn. destruct Hn as (-> & -> & _).
    reflexivity.
  - apply IH.
Qed.

Lemma read_bends_tag : forall snap s ks i,
  read_bends i (filter has_notes (map (chan_instr snap) (map (build s) ks))) =
  flat_map (fun jk => map (conv_bend snap (fst jk)) (grp_bends s (snd jk))) (tag s i ks).
Proof.
  induction ks as [|k r IH]; intros i; cbn [map filter tag]; [reflexivity|].
  rewrite has_notes_chan_build. destruct (grp_nonempty s k).
  - cbn [read_bends flat_map fst snd]. rewrite IH. f_equal.
    cbn [chan_instr build pi_bends pi_prog pi_drum]. rewrite !map_map.
    apply map_ext_in. intros n Hn. apply filter_In in Hn. destruct Hn as [_ Hn].
    apply key_eqb_eq in Hn. unfold bend_key in Hn. apply key_fields in Hn. destruct Hn as (-> & -> & _).
    reflexivity.
  - apply IH.
Qed.

Lemma tag_snd : forall s ks i, map snd (tag s i ks) = filter (grp_nonempty s) ks.
Proof.
  induction ks as [|k r IH]; intros i; cbn [tag filter map]; [reflexivity|].
  destruct (grp_nonempty s k); cbn [map snd]; rewrite IH; reflexivity.
Qed.

Lemma tag_fst_ge : forall s ks i j, In j (map fst (tag s i ks)) -> i <= j.
Proof.
  induction ks as [|k r IH]; intros i j H; cbn [tag] in H; [contradiction|].
  destruct (grp_nonempty s k).
  - cbn [map fst In] in H. destruct H as [H|H]; [lia|]. apply IH in H. lia.
  - apply IH; auto.
Qed.

Lemma tag_fst_nodup : forall s ks i, NoDup (map fst (tag s i ks)).
Proof.
  induction ks as [|k r IH]; intros i; cbn [tag]; [constructor|].
  destruct (grp_nonempty s k); [|apply IH].
  cbn [map fst]. constructor; [|apply IH].
  intro H. apply tag_fst_ge in H. lia.
Qed.

Lemma grp_nonempty_iff : forall s k, grp_nonempty s k = true <-> exists n, In n (s_notes s) /\ note_key n = k.
Proof.
  intros. unfold grp_nonempty, grp_notes. split.
  - destruct (filter _ _) as [|n l] eqn:E; [discriminate|]. intros _.
    assert (In n (n :: l)) as H by (left; reflexivity). rewrite <- E in H.
    apply filter_In in H. destruct H as [H1 H2]. apply key_eqb_eq in H2. eauto.
  - intros (n & Hn & E). assert (In n (filter (fun n => key_eqb (note_key n) k) (s_notes s))) as H.
    { apply filter_In. split; [auto | apply key_eqb_eq; auto]. }
    destruct (filter _ _); [contradiction | reflexivity].
Qed.

(** * key signatures: the +12 offset survives *)
Lemma ksig_roundtrip : forall key mode tm, 0 <= key <= 11 ->
  read_ksig (mkPksig (if mode =? KEY_MODE_MINOR then key + MAJOR_TO_MINOR_OFFSET else key) tm)
  = Some (mkKsig tm key (if mode =? KEY_MODE_MINOR then KEY_MODE_MINOR else KEY_MODE_MAJOR)).
Proof.
  intros key mode tm H. unfold read_ksig, MAJOR_TO_MINOR_OFFSET. cbn [pks_key pks_time].
  destruct (mode =? KEY_MODE_MINOR).
  - replace ((key + 12) / 12) with 1 by lia. replace ((key + 12) mod 12) with key by lia. reflexivity.
  - replace (key / 12) with 0 by lia. replace (key mod 12) with key by lia. reflexivity.
Qed.

Definition norm_mode (m : Z) : Z := if m =? KEY_MODE_MINOR then KEY_MODE_MINOR else KEY_MODE_MAJOR.

Definition wkey (k : ksig) : Z := if ks_mode k =? KEY_MODE_MINOR then ks_key k + MAJOR_TO_MINOR_OFFSET else ks_key k.

Lemma wkey_range : forall k, 0 <= ks_key k <= 11 -> 0 <= wkey k <= 23.
Proof. intros. unfold wkey, MAJOR_TO_MINOR_OFFSET. destruct (ks_mode k =? KEY_MODE_MINOR); lia. Qed.

Lemma read_ksig_total : forall kn tm, 0 <= kn <= 23 -> read_ksig (mkPksig kn tm) <> None.
Proof.
  intros. unfold read_ksig. cbn [pks_key].
  destruct (kn / 12 =? 0) eqn:E0; [discriminate|].
  destruct (kn / 12 =? 1) eqn:E1; [discriminate|]. lia.
Qed.

Lemma tins_in : forall A (x : Z * A) l y, In y (tins x l) <-> y = x \/ In y l.
Proof.
  induction l as [|a r IH]; intros y; cbn [tins In]; [intuition|].
  destruct (fst x <=? fst a); cbn [In]; [intuition|]. rewrite IH. intuition.
Qed.

Lemma tsort_in : forall A (l : list (Z * A)) y, In y (tsort l) <-> In y l.
Proof.
  induction l as [|a r IH]; intros y; cbn [tsort fold_right In]; [tauto|].
  fold (tsort r). rewrite tins_in, IH. intuition.
Qed.

Lemma read_ksigs_total : forall l, (forall k, In k l -> 0 <= pks_key k <= 23) -> read_ksigs l <> None.
Proof.
  induction l as [|k r IH]; intros H; cbn [read_ksigs]; [discriminate|].
  assert (read_ksig k <> None) as H1.
  { destruct k as [kn tm]. apply read_ksig_total. apply (H (mkPksig kn tm)). left. reflexivity. }
  assert (read_ksigs r <> None) as H2 by (apply IH; intros; apply H; right; auto).
  destruct (read_ksig k); [|congruence]. destruct (read_ksigs r); [discriminate|congruence].
Qed.

(** * the main structural theorem *)
Definition snap_of (s : seq) (t : Z) : Z :=
  tt (write_u0 s) (write_scales s) (ttt (write_u0 s) (write_scales s) t).

(** the channel writes every tempo of this sequence exactly (false for about a
    fifth of all microsecond values with the real pretty_midi: F19) *)
Definition chan_exact (wr : Z -> Z) (s : seq) : Prop :=
  forall us, In us (all_us (write_u0 s) (write_scales s)) -> wr us = us.

Lemma tempo_events_exact : forall wr s, chan_exact wr s ->
  tempo_events wr (write_u0 s) (write_scales s) = tempo_events (fun x => x) (write_u0 s) (write_scales s).
Proof.
  intros wr s H. unfold tempo_events. f_equal.
  - f_equal. apply H. left. reflexivity.
  - apply map_ext_in. intros e He. f_equal. apply H. right.
    apply in_rev in He. apply in_map with (f := snd) in He. exact He.
Qed.

Lemma flat_map_ext_in : forall A B (f g : A -> list B) l, (forall x, In x l -> f x = g x) -> flat_map f l = flat_map g l.
Proof.
  induction l as [|a r IH]; intros H; cbn [flat_map]; [reflexivity|].
  rewrite H by (left; reflexivity). rewrite IH; [reflexivity|]. intros. apply H. right. auto.
Qed.

Theorem roundtrip_structure : forall wr s, valid s = true -> chan_exact wr s ->
  exists out gs, roundtrip wr s = Some out /\
    NoDup (map fst gs) /\ NoDup (map snd gs) /\
    (forall k, In k (map snd gs) <-> exists n, In n (s_notes s) /\ note_key n = k) /\
    s_notes out = flat_map (fun jk => map (conv_note (snap_of s) (fst jk)) (grp_notes s (snd jk))) gs /\
    s_ccs out = flat_map (fun jk => map (conv_cc (snap_of s) (fst jk)) (grp_ccs s (snd jk))) gs /\
    s_bends out = flat_map (fun jk => map (conv_bend (snap_of s) (fst jk)) (grp_bends s (snd jk))) gs /\
    s_tpq out = write_res s /\
    (forall k, 0 <= k ->
       tt (tp_qpm (hd (mkTempo 0 0) (s_tempos out)))
          (rev (map (fun t => (ttt (write_u0 s) (write_scales s) (tp_time t), tp_qpm t)) (tl (s_tempos out)))) k
       = tt (write_u0 s) (write_scales s) k).
Proof.
  intros wr s Hv Hex.
  pose proof (write_u0_pos s Hv) as Hu. pose proof (write_scales_wf s Hv) as Hwf.
  unfold roundtrip, pm_roundtrip, write. cbn [write_gen pm_u0 pm_scales pm_res pm_tsigs pm_ksigs pm_instrs].
  rewrite (tempo_events_exact wr s Hex).
  pose proof (load_tempos_exact (write_u0 s) (write_scales s) Hu Hwf) as Hload.
  rewrite load_tempos_id in *.
  pose proof (loaded_spec (write_u0 s) (write_scales s) Hu Hwf) as Hls.
  destruct (loaded (write_u0 s) (write_scales s)) as [ru0 rl] eqn:EL. cbn [fst snd] in Hload.
  destruct Hls as (_ & _ & _ & Hrwf & Hru0).
  unfold read. cbn [pm_ksigs pm_instrs pm_u0 pm_scales pm_tsigs pm_res].
  set (snap := fun t => tt ru0 rl (ttt (write_u0 s) (write_scales s) t)).
  assert (forall t, snap t = snap_of s t) as Hsnap.
  { intros t. unfold snap, snap_of. apply Hload. apply ttt_nonneg; auto. }
  (* key signatures are all readable *)
  destruct (read_ksigs _) as [ks|] eqn:EK.
  2:{ exfalso. revert EK. apply read_ksigs_total. intros k Hk. unfold chan_ksigs in Hk.
      apply in_map_iff in Hk. destruct Hk as (e & <- & He). cbn [pks_key].
      apply (proj1 (tsort_in _ _ _)) in He. apply in_map_iff in He. destruct He as (pk & <- & Hpk). cbn [snd].
      apply in_map_iff in Hpk. destruct Hpk as (k0 & <- & Hk0). cbn [pks_key].
      unfold valid in Hv. apply andb_prop in Hv. destruct Hv as [_ Hv]. rewrite forallb_forall in Hv.
      specialize (Hv k0 Hk0). fold (wkey k0). apply wkey_range. lia. }
  destruct (write_instrs_spec s) as (ks' & HP & Hwi).
  exists (mkSeq (read_notes 0 (filter has_notes (map (chan_instr snap) (write_instrs true s))))
           (read_tempos ru0 rl)
           (map (fun t => mkTsig (pts_time t) (pts_num t) (pts_den t))
                (chan_tsigs (write_u0 s) (write_scales s) ru0 rl
                   (map (fun t => mkPtsig (ts_num t) (ts_den t) (ts_time t)) (s_tsigs s))))
           ks []
           (read_ccs 0 (filter has_notes (map (chan_instr snap) (write_instrs true s))))
           (read_bends 0 (filter has_notes (map (chan_instr snap) (write_instrs true s)))) []
           (read_total (read_notes 0 (filter has_notes (map (chan_instr snap) (write_instrs true s)))))
           0 0 0 (0, 0) (write_res s) 0).
  exists (tag s 0 ks').
  split; [reflexivity|].
  split; [apply tag_fst_nodup|].
  assert (NoDup ks') as Hnd by (apply (Permutation_NoDup HP), ksort_nodup).
  split; [rewrite tag_snd; apply NoDup_filter; exact Hnd|].
  split.
  { intros k. rewrite tag_snd, filter_In, grp_nonempty_iff. split; [tauto|].
    intros (n & Hn & E). split; [|eauto].
    apply (Permutation_in _ HP). unfold seq_keys. apply ksort_in. apply in_or_app. left.
    rewrite <- E. apply in_map. exact Hn. }
  cbn [s_notes s_ccs s_bends s_tpq s_tempos].
  assert (filter has_notes (map (chan_instr snap) (write_instrs true s)) =
          filter has_notes (map (chan_instr snap) (map (build s) ks'))) as HF.
  { destruct Hwi as [-> | ->]; [|reflexivity]. cbn [map filter]. reflexivity. }
  rewrite HF, read_notes_tag, read_ccs_tag, read_bends_tag.
  split; [apply flat_map_ext_in; intros jk _; apply map_ext; intros n; unfold conv_note; rewrite !Hsnap; reflexivity|].
  split; [apply flat_map_ext_in; intros jk _; apply map_ext; intros n; unfold conv_cc; rewrite !Hsnap; reflexivity|].
  split; [apply flat_map_ext_in; intros jk _; apply map_ext; intros n; unfold conv_bend; rewrite !Hsnap; reflexivity|].
  split; [reflexivity|].
  (* the tempo list read back rebuilds the writer's tick -> time function *)
  intros k Hk. unfold read_tempos. cbn [hd tl tp_qpm].
  rewrite map_map. cbn [tp_time tp_qpm].
  rewrite (map_ext_in _ (fun e => e)).
  2:{ intros [k1 us1] He. cbn [fst snd]. f_equal.
      assert (0 <= k1) as Hk1.
      { apply in_rev in He. clear - He Hrwf. induction rl as [|[a b] r IH]; [contradiction|].
        cbn [wf] in Hrwf. destruct Hrwf as (_ & H1 & H2). pose proof (wf_hd_nonneg r H2).
        destruct He as [He|He]; [inversion He; subst; lia | apply IH; auto]. }
      rewrite (Hload k1 Hk1). apply ttt_tt; auto. }
  rewrite map_id, rev_involutive. apply Hload. exact Hk.
Qed.

(** * readable corollary: a bijection on notes with an injective renumbering *)
Lemma NoDup_map_inj : forall A B (f : A -> B) l a b,
  NoDup (map f l) -> In a l -> In b l -> f a = f b -> a = b.
Proof.
  induction l as [|x r IH]; intros a b Hnd Ha Hb E; [contradiction|].
  cbn [map] in Hnd. inversion Hnd as [|? ? Hx Hr]; subst.
  destruct Ha as [->|Ha]; destruct Hb as [->|Hb]; auto.
  - exfalso. apply Hx. rewrite E. apply in_map. exact Hb.
  - exfalso. apply Hx. rewrite <- E. apply in_map. exact Ha.
Qed.

Definition idx_of (gs : list (Z * key)) (k : key) : Z :=
  match find (fun jk => key_eqb (snd jk) k) gs with Some jk => fst jk | None => -1 end.

Lemma find_key : forall (gs : list (Z * key)) jk, NoDup (map snd gs) -> In jk gs ->
  find (fun x => key_eqb (snd x) (snd jk)) gs = Some jk.
Proof.
  induction gs as [|a r IH]; intros jk Hnd Hin; [contradiction|].
  cbn [find]. destruct (key_eqb (snd a) (snd jk)) eqn:E.
  - apply key_eqb_eq in E. f_equal. apply (NoDup_map_inj _ _ (@snd Z key) (a :: r)); auto. left. reflexivity.
  - destruct Hin as [->|Hin]; [rewrite key_eqb_refl in E; discriminate|].
    apply IH; auto. cbn [map] in Hnd. inversion Hnd. auto.
Qed.

Lemma idx_of_in : forall (gs : list (Z * key)) jk, NoDup (map snd gs) -> In jk gs -> idx_of gs (snd jk) = fst jk.
Proof. intros. unfold idx_of. rewrite find_key; auto. Qed.

Lemma idx_of_inj : forall gs k1 k2, NoDup (map fst gs) -> NoDup (map snd gs) ->
  In k1 (map snd gs) -> In k2 (map snd gs) -> idx_of gs k1 = idx_of gs k2 -> k1 = k2.
Proof.
  intros gs k1 k2 H1 H2 I1 I2 E.
  apply in_map_iff in I1. destruct I1 as (a & <- & Ha).
  apply in_map_iff in I2. destruct I2 as (b & <- & Hb).
  rewrite !idx_of_in in E by auto. f_equal. apply (NoDup_map_inj _ _ (@fst Z key) gs); auto.
Qed.

Lemma filter_or_perm : forall A (p q : A -> bool) l, (forall x, p x && q x = false) ->
  Permutation (filter (fun x => p x || q x) l) (filter p l ++ filter q l).
Proof.
  induction l as [|x r IH]; intros H; cbn [filter]; [reflexivity|].
  specialize (IH H). specialize (H x).
  destruct (p x) eqn:Ep; destruct (q x) eqn:Eq; cbn [orb andb] in *; try discriminate.
  - cbn [app]. constructor. exact IH.
  - apply Permutation_cons_app. exact IH.
  - exact IH.
Qed.

Lemma partition_perm : forall (l : list note) ks, NoDup ks ->
  Permutation (filter (fun n => existsb (key_eqb (note_key n)) ks) l)
              (flat_map (fun k => filter (fun n => key_eqb (note_key n) k) l) ks).
Proof.
  induction ks as [|k r IH]; intros Hnd.
  - cbn [existsb flat_map]. induction l; cbn [filter]; auto.
  - inversion Hnd as [|? ? Hk Hr]; subst. cbn [existsb flat_map].
    rewrite filter_or_perm.
    + apply Permutation_app; [reflexivity | apply IH; exact Hr].
    + intros n. destruct (key_eqb (note_key n) k) eqn:E; [|reflexivity]. cbn [andb].
      apply key_eqb_eq in E. rewrite E.
      destruct (existsb (key_eqb k) r) eqn:E2; [|reflexivity].
      apply existsb_key in E2. contradiction.
Qed.

Lemma filter_all : forall A (p : A -> bool) l, (forall x, In x l -> p x = true) -> filter p l = l.
Proof.
  induction l as [|x r IH]; intros H; cbn [filter]; [reflexivity|].
  rewrite H by (left; reflexivity). f_equal. apply IH. intros. apply H. right. auto.
Qed.

Lemma map_flat_map' : forall A B C (F : B -> C) (g : A -> list B) l,
  map F (flat_map g l) = flat_map (fun x => map F (g x)) l.
Proof.
  induction l as [|a r IH]; cbn [flat_map map]; [reflexivity|]. rewrite map_app, IH. reflexivity.
Qed.

Lemma flat_map_map' : forall A B C (f : B -> list C) (g : A -> B) l,
  flat_map f (map g l) = flat_map (fun x => f (g x)) l.
Proof.
  induction l as [|a r IH]; cbn [flat_map map]; [reflexivity|]. rewrite IH. reflexivity.
Qed.

Theorem roundtrip_notes_bijection : forall wr s, valid s = true -> chan_exact wr s ->
  exists out l idx, roundtrip wr s = Some out /\
    Permutation (s_notes s) l /\
    s_notes out = map (fun n => conv_note (snap_of s) (idx (note_key n)) n) l /\
    (forall n1 n2, In n1 (s_notes s) -> In n2 (s_notes s) ->
       (idx (note_key n1) = idx (note_key n2) <-> note_key n1 = note_key n2)) /\
    (forall n, In n (s_notes s) -> 0 <= n_start n -> 0 <= n_end n ->
       near_some (write_u0 s) (write_scales s) (snap_of s (n_start n)) (n_start n) /\
       near_some (write_u0 s) (write_scales s) (snap_of s (n_end n)) (n_end n)).
Proof.
  intros wr s Hv Hex.
  destruct (roundtrip_structure wr s Hv Hex) as (out & gs & Hrt & Hf & Hs & Hcov & Hn & _).
  exists out, (flat_map (fun jk => grp_notes s (snd jk)) gs), (idx_of gs).
  split; [exact Hrt|].
  split.
  { rewrite <- (flat_map_map' _ _ _ (fun k => grp_notes s k) (@snd Z key) gs). unfold grp_notes.
    rewrite <- partition_perm by exact Hs.
    rewrite filter_all; [reflexivity|].
    intros n Hin. apply existsb_key. apply Hcov. eauto. }
  split.
  { rewrite Hn, map_flat_map'. apply flat_map_ext_in. intros jk Hjk.
    apply map_ext_in. intros n Hin. unfold grp_notes in Hin. apply filter_In in Hin.
    destruct Hin as [_ E]. apply key_eqb_eq in E. rewrite E, idx_of_in by auto. reflexivity. }
  split.
  { intros n1 n2 H1 H2. split; [|intros ->; reflexivity].
    apply idx_of_inj; auto; apply Hcov; eauto. }
  intros n Hin H0 H1.
  pose proof (write_u0_pos s Hv). pose proof (write_scales_wf s Hv).
  split; apply ttt_near; auto.
Qed.

Lemma writer_map_wf : forall s, valid s = true -> 0 < write_u0 s /\ wf (write_scales s).
Proof. intros s H. split; [apply write_u0_pos | apply write_scales_wf]; exact H. Qed.
