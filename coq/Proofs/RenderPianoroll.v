(** Proofs/RenderPianoroll.v — C06 for PianorollSequence at step level.

    [roundtrip_steps_pianoroll]: rendering a canonical pianoroll sequence and extracting it again
    (any split_repeats) gives the sequence back.
    [extraction_canonical_pianoroll]: what the extractor produces is canonical; for the legacy
    rendering (final_step one short after a silent last frame) provided the sequence is "tight"
    ([total_quantized_steps] is the end of a kept note, or there is no frame).
    [pianoroll_legacy_refuted]: the legacy rendering loses a silent last frame.

    Core: lemmas [render_cover] / [render_restart] over [pr_render]'s own recursion: a rendered note
    of offset [q] covers the absolute step [t] iff [q] is in frame [t - step], and a rendered note
    of offset [q] starts at [t + 1] only if [q] is NOT in frame [t - step]. *)
From Coq Require Import ZArith List Bool Lia ZifyBool Permutation Sorted.
From NS Require Import Base.NoteSeq Gen.G07 Model.FqCommon Model.FqPianoroll Model.FqSpec
  Proofs.FqCommon Proofs.FqPianoroll Model.RenderCommon Model.RenderPianoroll.
Import ListNotations.
Local Open Scope Z_scope.
Ltac Zify.zify_post_hook ::= Z.to_euclidean_division_equations.

(** * membership *)
Lemma zmem_In x l : zmem x l = true <-> In x l.
Proof.
  unfold zmem. rewrite existsb_exists. split.
  - intros (y & Hy & E). apply Z.eqb_eq in E. now subst.
  - intros H. exists x. split; [assumption|apply Z.eqb_refl].
Qed.

Lemma zmem_false x l : zmem x l = false <-> ~ In x l.
Proof. rewrite <- zmem_In. destruct (zmem x l); intuition congruence. Qed.

Lemma pr_new_In frame : forall have q, In q (pr_new frame have) -> In q frame /\ ~ In q have.
Proof.
  induction frame as [|x r IH]; intros have q; cbn [pr_new]; [intros []|].
  destruct (zmem x have) eqn:E.
  - intros H. apply IH in H. cbn [In]. tauto.
  - intros [->|H].
    + split; [now left|]. now apply zmem_false.
    + apply IH in H. cbn [In] in *. tauto.
Qed.

Lemma pr_new_complete frame : forall have q, In q frame -> In q have \/ In q (pr_new frame have).
Proof.
  induction frame as [|x r IH]; intros have q; cbn [pr_new In]; [tauto|].
  destruct (zmem x have) eqn:E.
  - intros [->|H]; [left; now apply zmem_In|now apply IH].
  - intros [->|H]; [right; now left|].
    destruct (IH (x :: have) q H) as [[->|H1]|H1]; cbn [In]; tauto.
Qed.

(** * the rendering loop *)
Section Render.
Variables vel ins prg minp : Z.

Definition close (e : Z) (o : Z * Z) : note := rnote (fst o + minp) vel ins prg false (snd o) e.

(** everything the loop emits, the notes still open being closed at [F] *)
Definition all_notes (es : list (list Z)) (step : Z) (open : list (Z * Z)) (F : Z) : list note :=
  let '(ns, op) := pr_render vel ins prg minp es step open in ns ++ map (close F) op.

Definition next_open (frame : list Z) (step : Z) (open : list (Z * Z)) : list (Z * Z) :=
  filter (fun o => zmem (fst o) frame) open ++ map (fun q => (q, step)) (pr_new frame (map fst open)).

Lemma all_notes_nil step open F : all_notes [] step open F = map (close F) open.
Proof. reflexivity. Qed.

Lemma all_notes_cons frame r step open F :
  all_notes (frame :: r) step open F
  = map (close step) (filter (fun o => negb (zmem (fst o) frame)) open)
    ++ all_notes r (step + 1) (next_open frame step open) F.
Proof.
  unfold all_notes, next_open. cbn [pr_render].
  destruct (pr_render vel ins prg minp r (step + 1) _) as [ns op]. now rewrite app_assoc.
Qed.

Lemma render_snd_cons frame r step open :
  snd (pr_render vel ins prg minp (frame :: r) step open)
  = snd (pr_render vel ins prg minp r (step + 1) (next_open frame step open)).
Proof.
  unfold next_open. cbn [pr_render].
  now destruct (pr_render vel ins prg minp r (step + 1) _) as [ns op].
Qed.

Lemma In_all_cons n frame r step open F :
  In n (all_notes (frame :: r) step open F) <->
  (exists o, In o open /\ ~ In (fst o) frame /\ n = close step o)
  \/ In n (all_notes r (step + 1) (next_open frame step open) F).
Proof.
  rewrite all_notes_cons, in_app_iff, in_map_iff.
  split; (intros [H|H]; [left|now right]).
  - destruct H as (o & <- & Ho). apply filter_In in Ho. destruct Ho as (Ho & Hm).
    exists o. repeat split; [assumption|]. apply zmem_false. now destruct (zmem (fst o) frame).
  - destruct H as (o & Ho & Hm & ->). exists o. split; [reflexivity|]. apply filter_In. split; [assumption|].
    apply zmem_false in Hm. now rewrite Hm.
Qed.

Lemma next_open_In o frame step open :
  In o (next_open frame step open) ->
  In (fst o) frame /\ (In o open \/ (snd o = step /\ ~ In (fst o) (map fst open))).
Proof.
  unfold next_open. rewrite in_app_iff, filter_In, in_map_iff. intros [(Ho & Hm)|(q & <- & Hq)].
  - apply zmem_In in Hm. tauto.
  - apply pr_new_In in Hq. cbn [fst snd]. tauto.
Qed.

Lemma next_open_complete q frame step open :
  In q frame -> exists a, In (q, a) (next_open frame step open) /\ (In (q, a) open \/ a = step).
Proof.
  intros Hq. destruct (pr_new_complete frame (map fst open) q Hq) as [H|H].
  - apply in_map_iff in H. destruct H as ((q' & a) & Hf & Ho). cbn [fst] in Hf. subst q'.
    exists a. split; [|now left]. unfold next_open. apply in_or_app. left. apply filter_In.
    split; [assumption|]. now apply zmem_In.
  - exists step. split; [|now right]. unfold next_open. apply in_or_app. right.
    apply in_map_iff. now exists q.
Qed.

(** (E) a note that started before [step] comes from [open] *)
Lemma render_origin es : forall step open F n,
  In n (all_notes es step open F) ->
  In (n_pitch n - minp, n_qstart n) open \/ step <= n_qstart n.
Proof.
  induction es as [|frame r IH]; intros step open F n.
  - rewrite all_notes_nil, in_map_iff. intros ((q & a) & <- & Ho). left. cbn.
    now replace (q + minp - minp) with q by lia.
  - rewrite In_all_cons. intros [(o & Ho & _ & ->)|H].
    + left. destruct o as (q & a). cbn. now replace (q + minp - minp) with q by lia.
    + apply IH in H. destruct H as [H|H]; [|right; lia].
      apply next_open_In in H. cbn [fst snd] in H. destruct H as (_ & [H|(H & _)]); [now left|right; lia].
Qed.

(** (D) every open note is emitted *)
Lemma render_open_emitted es : forall step open F q a,
  In (q, a) open -> step + len es <= F ->
  exists n, In n (all_notes es step open F) /\ n_pitch n = q + minp /\ n_qstart n = a /\ step <= n_qend n.
Proof.
  induction es as [|frame r IH]; intros step open F q a Ho HF.
  - exists (close F (q, a)). rewrite all_notes_nil. split; [now apply in_map|].
    rewrite len_nil in HF. cbn. lia.
  - rewrite len_cons in HF. destruct (zmem q frame) eqn:Hm.
    + destruct (IH (step + 1) (next_open frame step open) F q a) as (n & Hn & Hp & Hs & He); [|lia|].
      { unfold next_open. apply in_or_app. left. apply filter_In. now split. }
      exists n. rewrite In_all_cons. repeat split; [now right|assumption|assumption|lia].
    + exists (close step (q, a)). rewrite In_all_cons. split.
      * left. exists (q, a). repeat split; [assumption|]. now apply zmem_false.
      * cbn. lia.
Qed.

(** (C) shape of the emitted notes *)
Lemma render_wf es : forall lo step open F n,
  (forall o, In o open -> lo <= snd o < step) -> lo <= step -> step + len es <= F ->
  In n (all_notes es step open F) ->
  lo <= n_qstart n < n_qend n /\ step <= n_qend n <= F /\
  (In (n_pitch n - minp) (map fst open) \/ exists f, In f es /\ In (n_pitch n - minp) f).
Proof.
  induction es as [|frame r IH]; intros lo step open F n Hop Hlo HF.
  - rewrite len_nil in HF. rewrite all_notes_nil, in_map_iff. intros ((q & a) & <- & Ho).
    specialize (Hop _ Ho). cbn [close rnote n_qstart n_qend n_pitch fst snd] in *. repeat split; try lia. left.
    replace (q + minp - minp) with q by lia. apply in_map_iff. now exists (q, a).
  - rewrite len_cons in HF. pose proof (len_nonneg r) as Hr.
    rewrite In_all_cons. intros [((q & a) & Ho & _ & ->)|H].
    + specialize (Hop _ Ho). cbn [close rnote n_qstart n_qend n_pitch fst snd] in *. repeat split; try lia. left.
      replace (q + minp - minp) with q by lia. apply in_map_iff. now exists (q, a).
    + apply (IH lo) in H; [| |lia|lia].
      * destruct H as (H1 & H2 & H3). repeat split; try lia. right.
        destruct H3 as [H3|(f & Hf & H3)].
        -- apply in_map_iff in H3. destruct H3 as (o & <- & Ho). apply next_open_In in Ho.
           exists frame. split; [now left|tauto].
        -- exists f. split; [now right|assumption].
      * intros o Ho. apply next_open_In in Ho. destruct Ho as (_ & [Ho|(Ho & _)]).
        -- specialize (Hop _ Ho). lia.
        -- lia.
Qed.

(** (A) a rendered note of offset [q] covers step [t] iff [q] is in frame [t - step] *)
Lemma render_cover es : forall step open F t q,
  (forall o, In o open -> snd o < step) -> step + len es <= F -> step <= t < step + len es ->
  (exists n, In n (all_notes es step open F) /\ n_pitch n = q + minp /\ n_qstart n <= t < n_qend n)
  <-> In q (znth [] (t - step) es).
Proof.
  induction es as [|frame r IH]; intros step open F t q Hop HF Ht.
  - rewrite len_nil in Ht. lia.
  - rewrite len_cons in HF, Ht.
    assert (Hop' : forall o, In o (next_open frame step open) -> snd o < step + 1).
    { intros o Ho. apply next_open_In in Ho. destruct Ho as (_ & [Ho|(Ho & _)]); [|lia].
      specialize (Hop _ Ho). lia. }
    destruct (Z.eq_dec t step) as [->|Hne].
    + replace (step - step) with 0 by lia. rewrite znth_cons_0. split.
      * intros (n & Hn & Hp & Hc). apply In_all_cons in Hn. destruct Hn as [(o & _ & _ & ->)|Hn].
        -- cbn in Hc. lia.
        -- apply render_origin in Hn. destruct Hn as [Hn|Hn]; [|lia].
           apply next_open_In in Hn. cbn [fst] in Hn. destruct Hn as (Hn & _).
           now replace (n_pitch n - minp) with q in Hn by lia.
      * intros Hq. destruct (next_open_complete q frame step open Hq) as (a & Ha & Ha').
        assert (a <= step) by (destruct Ha' as [Ha'|Ha']; [specialize (Hop _ Ha'); cbn in Hop; lia|lia]).
        destruct (render_open_emitted r (step + 1) _ F q a Ha) as (n & Hn & Hp & Hs & He); [lia|].
        exists n. rewrite In_all_cons. repeat split; [now right|assumption|lia|lia].
    + rewrite znth_cons_S by lia. replace (t - step - 1) with (t - (step + 1)) by lia.
      rewrite <- (IH (step + 1) (next_open frame step open) F t q Hop') by lia. split.
      * intros (n & Hn & Hp & Hc). apply In_all_cons in Hn. destruct Hn as [(o & _ & _ & ->)|Hn].
        -- cbn in Hc. lia.
        -- now exists n.
      * intros (n & Hn & Hp & Hc). exists n. rewrite In_all_cons. tauto.
Qed.

(** a note that starts exactly at [step] is new: its offset is not open *)
Lemma render_fresh es step open F n :
  (forall o, In o open -> snd o < step) ->
  In n (all_notes es step open F) -> n_qstart n = step ->
  ~ In (n_pitch n - minp) (map fst open).
Proof.
  intros Hop Hn Hs. destruct es as [|frame r].
  - rewrite all_notes_nil, in_map_iff in Hn. destruct Hn as (o & <- & Ho).
    specialize (Hop _ Ho). cbn in Hs. lia.
  - apply In_all_cons in Hn. destruct Hn as [(o & Ho & _ & ->)|Hn].
    + specialize (Hop _ Ho). cbn in Hs. lia.
    + apply render_origin in Hn. destruct Hn as [Hn|Hn]; [|lia].
      apply next_open_In in Hn. cbn [fst snd] in Hn. destruct Hn as (_ & [Hn|(_ & Hn)]); [|assumption].
      specialize (Hop _ Hn). cbn in Hop. lia.
Qed.

(** (B) a rendered note of offset [q] starting at [t + 1] means [q] is not in frame [t - step] *)
Lemma render_restart es : forall step open F t q n,
  (forall o, In o open -> snd o < step) ->
  In n (all_notes es step open F) -> n_pitch n = q + minp -> n_qstart n = t + 1 -> step <= t ->
  ~ In q (znth [] (t - step) es).
Proof.
  induction es as [|frame r IH]; intros step open F t q n Hop Hn Hp Hs Ht.
  - rewrite znth_overflow by (rewrite len_nil; lia). intros [].
  - assert (Hop' : forall o, In o (next_open frame step open) -> snd o < step + 1).
    { intros o Ho. apply next_open_In in Ho. destruct Ho as (_ & [Ho|(Ho & _)]); [|lia].
      specialize (Hop _ Ho). lia. }
    apply In_all_cons in Hn. destruct Hn as [(o & Ho & _ & ->)|Hn].
    { specialize (Hop _ Ho). cbn in Hs. lia. }
    destruct (Z.eq_dec t step) as [->|Hne].
    + replace (step - step) with 0 by lia. rewrite znth_cons_0. intros Hq.
      apply (render_fresh _ _ _ _ _ Hop' Hn Hs).
      destruct (next_open_complete q frame step open Hq) as (a & Ha & _).
      apply in_map_iff. exists (q, a). split; [cbn; lia|assumption].
    + rewrite znth_cons_S by lia. replace (t - step - 1) with (t - (step + 1)) by lia.
      apply (IH (step + 1) _ F t q n Hop' Hn Hp Hs). lia.
Qed.

(** the offsets of the last frame are open when the loop ends *)
Lemma render_last_open es : forall f step open q,
  In q f -> In q (map fst (snd (pr_render vel ins prg minp (es ++ [f]) step open))).
Proof.
  induction es as [|frame r IH]; intros f step open q Hq.
  - cbn [app]. rewrite render_snd_cons. cbn [pr_render snd].
    destruct (next_open_complete q f step open Hq) as (a & Ha & _).
    apply in_map_iff. now exists (q, a).
  - cbn [app]. rewrite render_snd_cons. now apply IH.
Qed.

End Render.

(** * auxiliary facts on lists *)
Lemma max_end_bound m ns : (forall n, In n ns -> n_qend n <= m) -> max_end m ns = m.
Proof.
  unfold max_end. induction ns as [|a r IH]; intros H; [reflexivity|]. cbn [fold_left].
  pose proof (H a (or_introl eq_refl)).
  destruct (n_qend a >? m) eqn:E; [lia|]. apply IH. intros n Hn. apply H. now right.
Qed.

Lemma znth_ext {A} (d : A) l1 l2 :
  len l1 = len l2 -> (forall i, 0 <= i < len l1 -> znth d i l1 = znth d i l2) -> l1 = l2.
Proof.
  unfold len, znth. intros Hl H. apply (nth_ext _ _ d d); [lia|].
  intros n Hn. specialize (H (Z.of_nat n)). rewrite Nat2Z.id in H. apply H. lia.
Qed.

Lemma znth_In {A} (d : A) i l : 0 <= i < len l -> In (znth d i l) l.
Proof. unfold znth, len. intros H. apply nth_In. lia. Qed.

Lemma rev_cons_snoc {A} (l : list A) f t : rev l = f :: t -> l = rev t ++ [f].
Proof. intros H. rewrite <- (rev_involutive l), H. reflexivity. Qed.

Lemma ascending_from_ge lo l x : ascending_from lo l = true -> In x l -> lo <= x.
Proof.
  revert lo; induction l as [|y r IH]; intros lo; cbn [ascending_from In]; [tauto|].
  intros H [->|Hx]; [lia|]. apply andb_prop in H. destruct H as (H1 & H2). specialize (IH _ H2 Hx). lia.
Qed.

Lemma ascending_from_weaken lo lo' l : lo' <= lo -> ascending_from lo l = true -> ascending_from lo' l = true.
Proof.
  destruct l; cbn [ascending_from]; [reflexivity|]. intros H H1. apply andb_prop in H1.
  destruct H1 as (H1 & ->). rewrite andb_true_r. lia.
Qed.

(** a strictly ascending list within [lo, lo+n) is what filtering the range by membership gives *)
Lemma filter_zmem_range n : forall lo f,
  ascending_from lo f = true -> (forall x, In x f -> x < lo + Z.of_nat n) ->
  filter (fun q => zmem q f) (range_from lo n) = f.
Proof.
  induction n as [|n IH]; intros lo f Ha Hb.
  - destruct f as [|x r]; [reflexivity|]. cbn [ascending_from] in Ha.
    specialize (Hb x (or_introl eq_refl)). lia.
  - cbn [range_from filter]. destruct f as [|x r].
    + cbn [zmem existsb]. clear. generalize (range_from (lo + 1) n). intros l.
      induction l; [reflexivity|assumption].
    + cbn [ascending_from] in Ha. apply andb_prop in Ha. destruct Ha as (Hx & Hr).
      destruct (Z.eq_dec x lo) as [->|Hne].
      * replace (zmem lo (lo :: r)) with true by (symmetry; apply zmem_In; now left).
        f_equal. transitivity (filter (fun q => zmem q r) (range_from (lo + 1) n));
          [|apply (IH (lo + 1) r Hr); intros y Hy; specialize (Hb y (or_intror Hy)); lia].
        apply filter_ext_in. intros q Hq. apply In_range_from in Hq.
        unfold zmem. cbn [existsb]. replace (q =? lo) with false by lia. reflexivity.
      * replace (zmem lo (x :: r)) with false.
        -- apply IH; [cbn [ascending_from]; rewrite Hr, andb_true_r; lia|].
           intros y Hy. specialize (Hb y Hy). lia.
        -- symmetry. apply zmem_false. intros [H|H]; [lia|].
           pose proof (ascending_from_ge _ _ _ Hr H). lia.
Qed.

Lemma valid_frame_filter_range (g : Z -> bool) w :
  0 <= w -> valid_frame w (filter g (range_from 0 (Z.to_nat w))) = true.
Proof.
  intros Hw. unfold valid_frame. apply andb_true_intro. split.
  - generalize (Z.to_nat w) 0. intros n. induction n as [|n IH]; intros lo; [reflexivity|].
    cbn [range_from filter]. destruct (g lo).
    + cbn [ascending_from]. rewrite IH, andb_true_r. lia.
    + apply (ascending_from_weaken (lo + 1)); [lia|apply IH].
  - apply forallb_forall. intros q Hq. apply filter_In in Hq. destruct Hq as (Hq & _).
    apply In_range_from in Hq. lia.
Qed.

Lemma valid_frame_spec w f : valid_frame w f = true ->
  ascending_from 0 f = true /\ forall q, In q f -> 0 <= q < w.
Proof.
  unfold valid_frame. intros H. apply andb_prop in H. destruct H as (Ha & Hb). split; [assumption|].
  intros q Hq. pose proof (ascending_from_ge _ _ _ Ha Hq).
  rewrite forallb_forall in Hb. specialize (Hb q Hq). lia.
Qed.

(** * the rendered sequence of a canonical pianoroll *)
Lemma canonical_pianoroll_spec legacy minp maxp s0 es :
  canonical_pianoroll legacy minp maxp s0 es = true ->
  0 <= s0 /\ (forall f, In f es -> valid_frame (maxp - minp + 1) f = true) /\
  (legacy = false \/ es = [] \/ exists l q f, es = l ++ [q :: f]).
Proof.
  unfold canonical_pianoroll. intros H. apply andb_prop in H. destruct H as (H & H3).
  apply andb_prop in H. destruct H as (H1 & H2). split; [lia|]. split.
  - now apply forallb_forall.
  - destruct legacy; [right|now left]. cbn [negb orb] in H3. destruct (rev es) as [|f t] eqn:E.
    + left. rewrite <- (rev_involutive es), E. reflexivity.
    + right. apply rev_cons_snoc in E. destruct f as [|q f]; [discriminate|]. now exists (rev t), q, f.
Qed.

Lemma pr_to_step_notes_canonical legacy vel ins prg minp maxp s0 es :
  canonical_pianoroll legacy minp maxp s0 es = true ->
  pr_to_step_notes legacy vel ins prg minp s0 es
  = (all_notes vel ins prg minp es s0 [] (s0 + len es), s0 + len es).
Proof.
  intros Hc. apply canonical_pianoroll_spec in Hc. destruct Hc as (_ & _ & Hlast).
  unfold pr_to_step_notes, all_notes.
  destruct (pr_render vel ins prg minp es s0 []) as [ns op] eqn:E.
  assert ((if legacy then s0 + Z.max 0 (len es - 1) + (if is_nil op then 0 else 1) else s0 + len es)
          = s0 + len es) as ->; [|reflexivity].
  destruct Hlast as [->|Hlast]; [reflexivity|]. destruct legacy; [|reflexivity].
  destruct Hlast as [->|(l & q & f & ->)].
  - cbn in E. injection E as <- <-. unfold len. cbn [is_nil length]. lia.
  - pose proof (render_last_open vel ins prg minp l (q :: f) s0 [] q (or_introl eq_refl)) as H.
    rewrite E in H. cbn [snd] in H. destruct op as [|o op]; [destruct H|].
    cbn [is_nil]. rewrite len_app. change (len [q :: f]) with 1. pose proof (len_nonneg l). lia.
Qed.

Lemma pr_from_quantized_spq p s r : pr_from_quantized p s = Ok r -> pe_spq r = s_spq s.
Proof.
  unfold pr_from_quantized. destruct (s_spq s <=? 0); [discriminate|].
  destruct (_ || _); [discriminate|]. destruct (negb _); [discriminate|].
  intros H. injection H as <-. reflexivity.
Qed.

Theorem roundtrip_steps_pianoroll : forall legacy spq ts v i pr minp maxp split s0 es,
  0 < spq -> minp <= maxp + 1 ->
  canonical_pianoroll legacy minp maxp s0 es = true ->
  pr_from_quantized (mkPrParams s0 minp maxp split) (pr_rseq legacy spq ts v i pr minp s0 es)
  = Ok (mkPrResult es s0 spq).
Proof.
  intros legacy spq ts v i pr minp maxp split s0 es Hspq Hw Hc.
  unfold pr_rseq. rewrite (pr_to_step_notes_canonical _ _ _ _ _ _ _ _ Hc).
  apply canonical_pianoroll_spec in Hc. destruct Hc as (Hs0 & Hvalid & _).
  set (F := s0 + len es). set (notes := all_notes v i pr minp es s0 [] F).
  pose proof (len_nonneg es) as Hlen.
  assert (Hwf : forall n, In n notes ->
            s0 <= n_qstart n < n_qend n /\ n_qend n <= F /\ 0 <= n_pitch n - minp < maxp - minp + 1).
  { intros n Hn. apply (render_wf v i pr minp es s0 s0 [] F) in Hn; [|intros o []|lia|unfold F; lia].
    destruct Hn as (H1 & H2 & [[]|(f & Hf & H3)]). repeat split; try lia.
    - apply Hvalid, valid_frame_spec in Hf. destruct Hf as (_ & Hf). apply (Hf _ H3).
    - apply Hvalid, valid_frame_spec in Hf. destruct Hf as (_ & Hf). apply (Hf _ H3). }
  rewrite max_end_bound by (intros n Hn; apply Hwf in Hn; lia).
  set (p := mkPrParams s0 minp maxp split). set (s := rseq spq ts notes [] F).
  assert (Hkeep : forall n, In n notes -> pr_keep p n = true).
  { intros n Hn. apply Hwf in Hn. unfold pr_keep, p. cbn [pp_start pp_min_pitch pp_max_pitch]. lia. }
  assert (Herr := pianoroll_errors p s).
  specialize (Herr (fun n (Hn : In n notes) => ltac:(apply Hwf in Hn; cbn; lia)) Hw).
  destruct (pr_from_quantized p s) as [r|c] eqn:E.
  2:{ exfalso. cbn in Herr. destruct Herr as [(_ & H)|(_ & H)]; lia. }
  clear Herr. pose proof (pr_from_quantized_spq _ _ _ E) as Hq.
  apply pianoroll_frames in E. destruct E as (Hst & Hl & Hfr).
  destruct r as [ev st q]. cbn [pe_start pe_events pe_spq] in *. cbn in Hq, Hst, Hl, Hfr.
  subst q st. do 2 f_equal.
  apply (znth_ext []); [unfold F in Hl; lia|].
  intros k Hk. rewrite Hfr by lia. clear Hfr.
  assert (Hvk : valid_frame (maxp - minp + 1) (znth [] k es) = true) by (apply Hvalid, znth_In; unfold F in Hl; lia).
  apply valid_frame_spec in Hvk. destruct Hvk as (Hasc & Hrange).
  unfold pr_spec_frame. cbn [pp_max_pitch pp_min_pitch p].
  transitivity (filter (fun q => zmem q (znth [] k es)) (range_from 0 (Z.to_nat (maxp - minp + 1))));
    [|apply (filter_zmem_range _ 0 _ Hasc); intros x Hx; apply Hrange in Hx; lia].
  apply filter_ext_in. intros q Hq. apply In_range_from in Hq.
  assert (Hk' : s0 <= s0 + k < s0 + len es) by (unfold F in Hl; lia).
  pose proof (render_cover v i pr minp es s0 [] F (s0 + k) q) as Hcov.
  replace (s0 + k - s0) with k in Hcov by lia.
  specialize (Hcov (fun o (H : In o []) => match H with end) (Z.le_refl _) Hk'). fold notes in Hcov.
  unfold pr_spec_cell. destruct (zmem q (znth [] k es)) eqn:Hm.
  - apply zmem_In in Hm. apply andb_true_intro. split.
    + apply Hcov in Hm. destruct Hm as (n & Hn & Hp & Hc). apply existsb_exists. exists n.
      split; [exact Hn|]. unfold pr_covers. rewrite (Hkeep n Hn). cbn [pp_start pp_min_pitch p]. lia.
    + destruct (existsb (pr_restarts p k q) notes) eqn:Er; [|now rewrite andb_false_r].
      exfalso. apply existsb_exists in Er. destruct Er as (n & Hn & Hr).
      unfold pr_restarts in Hr. cbn [pp_start pp_min_pitch p] in Hr.
      apply (render_restart v i pr minp es s0 [] F (s0 + k) q n); [intros o []|exact Hn|lia|lia|lia|].
      now replace (s0 + k - s0) with k by lia.
  - apply zmem_false in Hm. replace (existsb (pr_covers p k q) notes) with false; [reflexivity|].
    symmetry. apply not_true_is_false. intros Hex. apply Hm, Hcov.
    apply existsb_exists in Hex. destruct Hex as (n & Hn & Hc). exists n. split; [exact Hn|].
    unfold pr_covers in Hc. cbn [pp_start pp_min_pitch p] in Hc. lia.
Qed.

(** * extraction gives canonical sequences *)
Definition pr_tight (p : pr_params) (s : seq) : Prop :=
  s_qsteps s = pp_start p \/ exists n, In n (s_notes s) /\ pr_keep p n = true /\ n_qend n = s_qsteps s.

Lemma pr_from_quantized_valid p s r :
  pr_from_quantized p s = Ok r ->
  forallb (valid_frame (pp_max_pitch p - pp_min_pitch p + 1)) (pe_events r) = true.
Proof.
  unfold pr_from_quantized. destruct (s_spq s <=? 0); [discriminate|].
  destruct (_ || _) eqn:E; [discriminate|]. destruct (negb _); [discriminate|].
  intros H. injection H as <-. cbn [pe_events]. apply forallb_forall. intros f Hf.
  apply in_map_iff in Hf. destruct Hf as (st & <- & _). apply valid_frame_filter_range. lia.
Qed.

Theorem extraction_canonical_pianoroll : forall legacy p s r,
  0 <= pp_start p ->
  (forall n, In n (s_notes s) -> n_qend n <= s_qsteps s /\ n_qstart n < n_qend n) ->
  (legacy = true -> pr_tight p s) ->
  pr_from_quantized p s = Ok r ->
  canonical_pianoroll legacy (pp_min_pitch p) (pp_max_pitch p) (pe_start r) (pe_events r) = true.
Proof.
  intros legacy p s r Hs0 Hwf Htight E. unfold canonical_pianoroll.
  rewrite (pr_from_quantized_valid _ _ _ E).
  apply pianoroll_frames in E. destruct E as (Hst & Hl & Hfr). rewrite Hst.
  replace (0 <=? pp_start p) with true by lia. cbn [andb].
  destruct legacy; [|reflexivity]. specialize (Htight eq_refl). cbn [negb orb].
  destruct (rev (pe_events r)) as [|f t] eqn:Er; [reflexivity|].
  apply rev_cons_snoc in Er. rewrite Er in Hl, Hfr. rewrite len_app, len_cons, len_nil in Hl.
  pose proof (len_nonneg (rev t)) as Ht.
  specialize (Hfr (len (rev t))). rewrite znth_app_r, Z.sub_diag, znth_cons_0 in Hfr by lia.
  specialize (Hfr ltac:(lia)).
  destruct Htight as [Hq|(n & Hn & Hk & He)]; [lia|].
  assert (In (n_pitch n - pp_min_pitch p) f) as Hin; [|now destruct f].
  rewrite Hfr. apply pr_spec_frame_In. destruct (Hwf n Hn) as (_ & Hlt).
  pose proof Hk as Hk'. unfold pr_keep in Hk'. split; [lia|].
  unfold pr_spec_cell. apply andb_true_intro. split.
  - apply existsb_exists. exists n. split; [exact Hn|]. unfold pr_covers. rewrite Hk. lia.
  - replace (existsb (pr_restarts p (len (rev t)) (n_pitch n - pp_min_pitch p)) (s_notes s)) with false;
      [now rewrite andb_false_r|].
    symmetry. apply not_true_is_false. intros Hex. apply existsb_exists in Hex.
    destruct Hex as (m & Hm & Hr). destruct (Hwf m Hm). unfold pr_restarts in Hr. lia.
Qed.

(** * the code before notes/C06-fix-2.diff loses the last frame of a sequence that ends in silence:
    [[1]; []; []] comes back as [[1]; []] *)
Theorem pianoroll_legacy_refuted : exists spq ts v i pr minp maxp split s0 es,
  0 < spq /\ minp <= maxp + 1 /\ canonical_pianoroll false minp maxp s0 es = true /\
  pr_from_quantized (mkPrParams s0 minp maxp split) (pr_rseq true spq ts v i pr minp s0 es)
  <> Ok (mkPrResult es s0 spq).
Proof.
  exists 4, (mkTsig 0 4 4), 100, 0, 0, 21, 108, true, 0, [[1]; []; []].
  split; [lia|]. split; [lia|]. split; [vm_compute; reflexivity|]. vm_compute. discriminate.
Qed.

(** * a non-trivial canonical pianoroll (fixed code): start step 3, an empty frame in the middle, pitch
    offset 0 repeated after the gap, notes sustained over several frames, an EMPTY LAST frame, both
    split_repeats settings; the same roll without its last frame is canonical for the legacy code too *)
Example pianoroll_canonical_example :
  let es := [[0; 2]; [0]; []; [0; 5]; [5; 12]; []] in
  let es' := [[0; 2]; [0]; []; [0; 5]; [5; 12]] in
  let ts := mkTsig 0 4 4 in
  canonical_pianoroll false 60 72 3 es = true /\
  pr_from_quantized (mkPrParams 3 60 72 true) (pr_rseq false 4 ts 80 0 0 60 3 es) = Ok (mkPrResult es 3 4) /\
  pr_from_quantized (mkPrParams 3 60 72 false) (pr_rseq false 4 ts 80 0 0 60 3 es) = Ok (mkPrResult es 3 4) /\
  canonical_pianoroll true 60 72 3 es = false /\
  canonical_pianoroll true 60 72 3 es' = true /\
  pr_from_quantized (mkPrParams 3 60 72 true) (pr_rseq true 4 ts 80 0 0 60 3 es') = Ok (mkPrResult es' 3 4).
Proof. vm_compute. repeat split. Qed.
