(** Proofs/WfSustain.v — C11 for apply_sustain_control_changes (model: Model/Sustain.v,
    C14, imported read-only).

    New here: an invariant of the event loop showing that NO note ever ends before it
    starts — for every input with start <= end, with or without overlapping notes of one
    pitch (the C14 theorem [C14_ends_monotone] needs the no-overlap hypothesis; this one
    does not).  Idea: an index sits in an active list only after its NOTE_ON event has been
    processed, events are processed in time order, and every end time the loop writes is
    the time of the current (or the last) event. *)
From Coq Require Import ZArith List Bool Lia ZifyBool Permutation.
From NS Require Import Base.Sx Base.NoteSeq Model.Wf Proofs.WfBase
     Gen.G14 Model.Sustain Proofs.Sustain Proofs.SustainFrame Proofs.SustainMono.
Import ListNotations.
Local Open Scope Z_scope.

Definition ord (cs : list cell) : Prop := Forall (fun c => n_start (c_n c) <= n_end (c_n c)) cs.

Lemma ord_cell_at : forall cs a, ord cs -> n_start (cell_at cs a) <= n_end (cell_at cs a).
Proof.
  intros cs a H. unfold cell_at. destruct (nth_in_or_default a cs dummy_cell) as [Hin | ->].
  - unfold ord in H. rewrite Forall_forall in H. apply H, Hin.
  - cbn. lia.
Qed.

Lemma ord_set_end_at : forall cs a t, ord cs -> n_start (cell_at cs a) <= t -> ord (set_end_at cs a t).
Proof.
  unfold ord, set_end_at, cell_at. induction cs as [|c cs IH]; intros [|a] t H Ht; cbn [upd nth] in *; auto.
  - inversion H; subst. constructor; [|assumption]. destruct c as [n al]. destruct n; cbn in *. exact Ht.
  - inversion H; subst. constructor; [assumption|]. apply IH; assumption.
Qed.

Lemma ord_kill_first : forall v cs, ord cs -> ord (kill_first v cs).
Proof.
  unfold ord. induction cs as [|c cs IH]; cbn [kill_first]; intros H; auto. inversion H; subst.
  destruct (c_alive c && note_eqb (c_n c) v); constructor; auto.
Qed.

Lemma start_sim : forall cs cs' a, sim cs cs' -> n_start (cell_at cs' a) = n_start (cell_at cs a).
Proof. intros cs cs' a H. apply (strip_fields _ _ (sim_nth cs cs' a H)). Qed.

Lemma off_loop_ord : forall i t act cs tot, ord cs -> ord (snd (fst (off_loop i t act cs tot))).
Proof.
  induction act as [|a r IH]; intros cs tot H; cbn [off_loop]; auto.
  destruct (n_instr (cell_at cs a) =? i).
  - destruct (n_end (cell_at cs a) <? t) eqn:E.
    + apply IH. apply ord_set_end_at; [exact H|]. pose proof (ord_cell_at cs a H). lia.
    + specialize (IH cs tot H). destruct (off_loop i t r cs tot) as [[k c] o]. exact IH.
  - specialize (IH cs tot H). destruct (off_loop i t r cs tot) as [[k c] o]. exact IH.
Qed.

Lemma on_loop_ord : forall cs0 i p t act cs,
  sim cs0 cs -> ord cs -> (forall a, In a act -> n_start (cell_at cs0 a) <= t) ->
  ord (snd (on_loop i p t act cs)).
Proof.
  intros cs0 i p t. induction act as [|a r IH]; intros cs S H St; cbn [on_loop]; auto.
  assert (Sr : forall b, In b r -> n_start (cell_at cs0 b) <= t) by (intros; apply St; now right).
  destruct (n_instr (cell_at cs a) =? i).
  - destruct (n_pitch (cell_at cs a) =? p).
    + assert (O1 : ord (set_end_at cs a t)).
      { apply ord_set_end_at; [exact H|]. rewrite (start_sim cs0 cs a S). apply St. now left. }
      assert (S1 : sim cs0 (set_end_at cs a t)) by (eapply sim_trans; [exact S|apply sim_set_end_at]).
      destruct (n_start (cell_at cs a) =? t).
      * apply IH; [|apply ord_kill_first; exact O1|exact Sr].
        eapply sim_trans; [exact S1|apply sim_kill_first].
      * apply IH; assumption.
    + specialize (IH cs S H Sr). destruct (on_loop i p t r cs) as [k c]. exact IH.
  - specialize (IH cs S H Sr). destruct (on_loop i p t r cs) as [k c]. exact IH.
Qed.

Lemma close_ord : forall cs0 t act cs tot,
  sim cs0 cs -> ord cs -> (forall a, In a act -> n_start (cell_at cs0 a) <= t) ->
  ord (fst (close t act cs tot)).
Proof.
  intros cs0 t. induction act as [|a r IH]; intros cs tot S H St; cbn [close]; auto.
  apply IH.
  - eapply sim_trans; [exact S|apply sim_set_end_at].
  - apply ord_set_end_at; [exact H|]. rewrite (start_sim cs0 cs a S). apply St. now left.
  - intros; apply St; now right.
Qed.

(** The loop invariant. *)
Record inv (ns : list note) (s : st) (t : Z) : Prop := {
  inv_sim : sim (init_cells ns) (cells s);
  inv_ord : ord (cells s);
  inv_started : forall a, In a (active s) -> n_start (cell_at (init_cells ns) a) <= t }.

Lemma step_inv : forall ns s e t,
  ev_wf ns e -> t <= e_time e -> inv ns s t -> inv ns (step s e) (e_time e).
Proof.
  intros ns s e t Hwf Ht [S O St].
  assert (St' : forall a, In a (active s) -> n_start (cell_at (init_cells ns) a) <= e_time e)
    by (intros a Ha; specialize (St a Ha); lia).
  pose proof (step_sim s e) as SS.
  constructor; [eapply sim_trans; [exact S|exact SS]| |]; unfold step in *; unfold ev_wf in Hwf;
    destruct (e_kind e) eqn:K.
  - exact O.
  - pose proof (off_loop_ord (e_instr e) (e_time e) (active s) (cells s) (total s) O) as H.
    destruct (off_loop _ _ _ _ _) as [[k c] o]. exact H.
  - destruct (is_sus _ _); [|exact O].
    pose proof (on_loop_ord (init_cells ns) (e_instr e) (n_pitch (cell_at (cells s) (e_ref e))) (e_time e)
                  (active s) (cells s) S O St') as H.
    destruct (on_loop _ _ _ _ _) as [k c]. exact H.
  - destruct (is_sus _ _); exact O.
  - cbn [active]. exact St'.
  - pose proof (off_loop_incl (e_instr e) (e_time e) (active s) (cells s) (total s)) as I.
    destruct (off_loop _ _ _ _ _) as [[k c] o]. cbn [active fst] in *. intros a Ha. apply St', I, Ha.
  - destruct Hwf as (n & Nn & _ & _ & Tn).
    assert (Hr : n_start (cell_at (init_cells ns) (e_ref e)) <= e_time e)
      by (rewrite (cell_at_init ns _ n Nn); lia).
    destruct (is_sus _ _).
    + pose proof (on_loop_incl (e_instr e) (n_pitch (cell_at (cells s) (e_ref e))) (e_time e) (active s) (cells s)) as I.
      destruct (on_loop _ _ _ _ _) as [k c]. cbn [active fst] in *. intros a Ha. apply in_app_or in Ha.
      destruct Ha as [Ha|[<-|[]]]; [apply St', I, Ha|exact Hr].
    + cbn [active]. intros a Ha. apply in_app_or in Ha. destruct Ha as [Ha|[<-|[]]]; [apply St', Ha|exact Hr].
  - destruct (is_sus _ _); [exact St'|]. cbn [active]. intros a Ha. apply St'.
    eapply remove_first_eq_incl. exact Ha.
Qed.

Lemma last_default : forall (l : list Z) y d d', last (y :: l) d = last (y :: l) d'.
Proof. induction l as [|x r IH]; intros y d d'; [reflexivity|]. cbn [last] in *. apply (IH x). Qed.

Lemma last_cons : forall (l : list Z) x d, last (x :: l) d = last l x.
Proof. destruct l as [|y r]; intros x d; [reflexivity|]. cbn [last]. apply last_default. Qed.

Lemma run_inv : forall ns evs s t,
  sorted evs -> Forall (ev_wf ns) evs -> (forall e, In e evs -> t <= e_time e) -> inv ns s t ->
  inv ns (run_events evs s) (last (map e_time evs) t).
Proof.
  intros ns. induction evs as [|e l IH]; intros s t So Hw Hle I; [exact I|].
  unfold run_events. cbn [fold_left]. fold (run_events l (step s e)).
  cbn [map]. rewrite last_cons.
  inversion So as [|? ? Hlt So']; subst. inversion Hw as [|? ? We Wl]; subst.
  apply IH; [exact So'|exact Wl| |].
  - intros e' He'. eapply sorted_time_le; eauto.
  - apply (step_inv ns s e t); [exact We|apply Hle; now left|exact I].
Qed.

(** No cell of the result ends before it starts. *)
Lemma sustain_ord : forall ctl ns ccs tot,
  Forall (fun n => n_start n <= n_end n) ns -> ord (fst (sustain_cells ctl ns ccs tot)).
Proof.
  intros ctl ns ccs tot H. unfold sustain_cells, sustain_cells_gen, pre_close.
  pose proof (sort_events_sorted (build_events ctl ns ccs)) as So.
  pose proof (sorted_events_wf ctl ns ccs) as Hw.
  fold (sorted_events ctl ns ccs) in So.
  assert (I0 : forall t, inv ns (init_st ns tot) t).
  { intros t. constructor; cbn [init_st cells active].
    - apply sim_refl.
    - unfold ord, init_cells. apply Forall_map_iff. exact H.
    - intros a []. }
  destruct (sorted_events ctl ns ccs) as [|e0 l] eqn:E.
  - cbn. unfold ord, init_cells. apply Forall_map_iff. exact H.
  - assert (Hle : forall e, In e (e0 :: l) -> e_time e0 <= e_time e).
    { intros e [<-|He]; [lia|]. inversion So; subst. eapply sorted_time_le; eauto. }
    pose proof (run_inv ns (e0 :: l) (init_st ns tot) (e_time e0) So Hw Hle (I0 _)) as [S O St].
    apply (close_ord (init_cells ns)); [exact S|exact O|].
    unfold last_time. cbn [map] in *. rewrite (last_default _ _ 0 (e_time e0)). exact St.
Qed.

Lemma wf_ordered_b : forall s, wf s -> ordered_b (s_notes s) = true /\ covered_b (s_total s) (s_notes s) = true.
Proof.
  intros s W. pose proof (wf_notes _ W) as Wn. rewrite Forall_forall in Wn. unfold ordered_b, covered_b.
  split; apply forallb_forall; intros n Hn; destruct (Wn n Hn) as (A & B & C); lia.
Qed.

(** [wf] is preserved — for ALL well-formed unquantized inputs. *)
Lemma wf_sustain : forall ctl s s', wf s -> apply_sustain ctl s = Some s' -> wf s'.
Proof.
  intros ctl s s' W H. destruct (wf_ordered_b s W) as [Ho Hc].
  destruct (apply_sustain_total_covers ctl s s' Ho Hc H) as [Tm Cov].
  pose proof (apply_sustain_result ctl s s' H) as R.
  pose proof (sustain_shape ctl (s_notes s) (s_ccs s) (s_total s)) as Sh. cbv zeta in Sh.
  assert (On : Forall (fun n => n_start n <= n_end n) (s_notes s)).
  { eapply Forall_impl; [|apply (wf_notes _ W)]. intros n (A & B & C). exact B. }
  pose proof (sustain_ord ctl (s_notes s) (s_ccs s) (s_total s) On) as O.
  destruct W as (W0 & Wn & W1 & W2 & W3 & W4 & W5 & W6 & W7).
  apply wf_intro.
  - lia.
  - apply Forall_forall. intros n' Hn'. pose proof (Cov n' Hn') as E. rewrite R in Hn'.
    cbn [with_notes_total s_notes] in Hn'. apply live_notes_In in Hn'. destruct Hn' as (c & Hc' & <- & _).
    unfold ord in O. rewrite Forall_forall in O. pose proof (O c Hc') as Oc.
    destruct (Forall2_In_r _ _ _ _ Sh Hc') as (n & Hn & Rn).
    rewrite Forall_forall in Wn. destruct (Wn n Hn) as (A & _).
    assert (n_start (c_n c) = n_start n) by (rewrite Rn; destruct n; reflexivity).
    unfold note_wf. lia.
  - rewrite R. exact W1.
  - rewrite R. exact W2.
  - rewrite R. exact W3.
  - rewrite R. exact W4.
  - rewrite R. exact W5.
  - rewrite R. exact W6.
  - rewrite R. exact W7.
Qed.

(** every returned note is an input note with (possibly) another end, nothing else changed *)
Lemma inv_sustain : forall ctl s s', apply_sustain ctl s = Some s' ->
  came_from (fun n n' => n' = set_end n (n_end n')) (s_notes s) (s_notes s').
Proof.
  intros ctl s s' H. pose proof (apply_sustain_result ctl s s' H) as R.
  pose proof (sustain_shape ctl (s_notes s) (s_ccs s) (s_total s)) as Sh. cbv zeta in Sh.
  intros n' Hn'. rewrite R in Hn'. cbn [with_notes_total s_notes] in Hn'. apply live_notes_In in Hn'.
  destruct Hn' as (c & Hc & <- & _). destruct (Forall2_In_r _ _ _ _ Sh Hc) as (n & Hn & Rn).
  exists n. split; assumption.
Qed.
