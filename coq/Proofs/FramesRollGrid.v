(** Proofs/FramesRollGrid.v — painting lemmas for sequence_to_pianoroll's active
    roll and the grid round trip roll -> notes -> roll (C18). *)
From Coq Require Import ZArith List Bool Lia.
From Coq Require Import PrimFloat.
From NS Require Import Base.FloatBridge Gen.G18 Model.FramesRoll Proofs.FramesRoll Proofs.FramesRollFloat.
Import ListNotations.
Local Open Scope Z_scope.

(** * Painting *)
Lemma set_nth_length {A} (v : A) : forall l p, length (set_nth p v l) = length l.
Proof. induction l as [|x l IH]; intros [|p]; cbn; auto. Qed.

Lemma set_nth_nth (v : bool) : forall l p q, (p < length l)%nat ->
  nth q (set_nth p v l) false = if Nat.eqb q p then v else nth q l false.
Proof.
  induction l as [|x l IH]; intros p q Hp; [cbn in Hp; lia|].
  destruct p, q; cbn [set_nth nth Nat.eqb]; try reflexivity.
  apply IH. cbn in Hp. lia.
Qed.

Definition covers (s e : Z) (col : nat) (j q : nat) : bool :=
  (s <=? Z.of_nat j) && (Z.of_nat j <? e) && Nat.eqb q col.

Lemma paint_from_spec (v : bool) lo hi p : forall m i0 R P, rect m R P -> (p < P)%nat ->
  rect (paint_from i0 lo hi p (fun _ => v) m) R P /\
  forall j q, mg (paint_from i0 lo hi p (fun _ => v) m) j q =
              if (Nat.ltb j R) && (lo <=? i0 + Z.of_nat j) && (i0 + Z.of_nat j <? hi) && Nat.eqb q p
              then v else mg m j q.
Proof.
  induction m as [|row r IH]; intros i0 R P [Hl Hr] Hp.
  - cbn in Hl. subst R. cbn [paint_from]. split; [split; [reflexivity|intros ? []]|].
    intros j q. cbn. reflexivity.
  - cbn [length] in Hl. destruct R as [|R]; [discriminate|]. injection Hl as Hl.
    assert (Hrect : rect r R P) by (split; [assumption|intros x Hx; apply Hr; right; assumption]).
    destruct (IH (i0 + 1) R P Hrect Hp) as [[IH1 IH2] IH3].
    assert (Hrow : length row = P) by (apply Hr; left; reflexivity).
    cbn [paint_from]. split.
    + split; [cbn [length]; rewrite IH1; reflexivity|].
      intros x [Hx|Hx]; [|apply IH2; assumption]. subst x.
      destruct ((lo <=? i0) && (i0 <? hi)); [rewrite set_nth_length|]; assumption.
    + intros [|j] q; unfold mg; cbn [nth].
      * replace (i0 + Z.of_nat 0) with i0 by lia. cbn [Nat.ltb Nat.leb andb].
        destruct ((lo <=? i0) && (i0 <? hi)) eqn:E; cbn [andb].
        -- rewrite set_nth_nth by lia. reflexivity.
        -- destruct (lo <=? i0); destruct (i0 <? hi); try discriminate; reflexivity.
      * fold (mg (paint_from (i0 + 1) lo hi p (fun _ => v) r) j q). rewrite IH3.
        replace (i0 + 1 + Z.of_nat j) with (i0 + Z.of_nat (S j)) by lia.
        change (Nat.ltb (S j) (S R)) with (Nat.ltb j R). reflexivity.
Qed.

Lemma py_idx_id n i : 0 <= i <= n -> py_idx n i = i.
Proof. intros H. unfold py_idx. destruct (i <? 0) eqn:E; [apply Z.ltb_lt in E; lia|lia]. Qed.

Lemma paint_spec (v : bool) m R P s e p : rect m R P -> (p < P)%nat -> 0 <= s <= e -> e <= Z.of_nat R ->
  rect (paint m s e p (fun _ => v)) R P /\
  forall j q, mg (paint m s e p (fun _ => v)) j q = if covers s e p j q then v else mg m j q.
Proof.
  intros Hm Hp Hs He. unfold paint. cbv zeta.
  assert (Hlen : Z.of_nat (length m) = Z.of_nat R) by (destruct Hm as [-> _]; reflexivity).
  rewrite Hlen. rewrite !py_idx_id by lia.
  destruct (paint_from_spec v s e p m 0 R P Hm Hp) as [H1 H2]. split; [assumption|].
  intros j q. rewrite H2. unfold covers. cbn [Z.add].
  destruct (Nat.ltb j R) eqn:Ej; [reflexivity|]. cbn [andb].
  apply Nat.ltb_ge in Ej.
  destruct ((s <=? Z.of_nat j) && (Z.of_nat j <? e)) eqn:E; [|reflexivity].
  apply andb_prop in E. destruct E as [_ E]. apply Z.ltb_lt in E. lia.
Qed.

Lemma blank_rect R P : 0 <= R -> 0 <= P -> rect (blank R P false) (Z.to_nat R) (Z.to_nat P).
Proof.
  intros. unfold blank. split; [apply repeat_length|].
  intros r Hr. apply repeat_spec in Hr. subst. apply repeat_length.
Qed.

Lemma blank_mg R P j q : mg (blank R P false) j q = false.
Proof.
  unfold mg, blank.
  destruct (nth_in_or_default j (repeat (repeat false (Z.to_nat P)) (Z.to_nat R)) []) as [H|H].
  - apply repeat_spec in H. rewrite H. apply (nth_zrow (Z.to_nat P) q).
  - rewrite H. apply nth_nil_bool.
Qed.

(* a sequence of paintings with [true] *)
Lemma fold_paint_true (fr : snote -> Z * Z * nat) : forall l m R P, rect m R P ->
  (forall n, In n l -> 0 <= fst (fst (fr n)) <= snd (fst (fr n)) /\ snd (fst (fr n)) <= Z.of_nat R /\ (snd (fr n) < P)%nat) ->
  let res := fold_left (fun m n => paint m (fst (fst (fr n))) (snd (fst (fr n))) (snd (fr n)) (fun _ => true)) l m in
  rect res R P /\
  forall j q, mg res j q = true <->
              (mg m j q = true \/ exists n, In n l /\ covers (fst (fst (fr n))) (snd (fst (fr n))) (snd (fr n)) j q = true).
Proof.
  induction l as [|n l IH]; intros m R P Hm Hl.
  - cbn. split; [assumption|]. intros j q. split; [auto|]. intros [H|(n & [] & _)]. assumption.
  - cbn [fold_left].
    destruct (Hl n (or_introl eq_refl)) as (H1 & H2 & H3).
    destruct (paint_spec true m R P _ _ _ Hm H3 H1 H2) as [Hr Hg].
    specialize (IH _ R P Hr (fun n' Hn' => Hl n' (or_intror Hn'))). cbv zeta in IH.
    destruct IH as [IH1 IH2]. split; [assumption|].
    intros j q. rewrite IH2. rewrite Hg. split.
    + intros [H|(n' & Hn' & Hc)].
      * destruct (covers _ _ _ j q) eqn:E; [right; exists n; split; [left; reflexivity|assumption]|left; assumption].
      * right. exists n'. split; [right|]; assumption.
    + intros [H|(n' & [Hn'|Hn'] & Hc)].
      * left. rewrite H. destruct (covers _ _ _ j q); reflexivity.
      * subst n'. left. rewrite Hc. reflexivity.
      * right. exists n'. split; assumption.
Qed.

(** * Sorting keeps the notes *)
Lemma ins_note_In x : forall l y, In y (ins_note x l) <-> y = x \/ In y l.
Proof.
  induction l as [|z l IH]; intros y; cbn [ins_note].
  - cbn. intuition.
  - destruct (PrimFloat.leb (n_start x) (n_start z)).
    + cbn. intuition.
    + cbn [In]. rewrite IH. intuition.
Qed.

Lemma sort_notes_In : forall l y, In y (sort_notes l) <-> In y l.
Proof.
  unfold sort_notes. induction l as [|x l IH]; intros y; cbn [fold_right]; [reflexivity|].
  rewrite ins_note_In, IH. cbn. intuition.
Qed.

(** * Every active cell of a plain roll lies in exactly the maximal run around it *)
Lemma run_around (f : Z -> bool) T : (forall i, f i = true -> 0 <= i < T) ->
  forall i, f i = true -> exists a b, maximal_run f a b /\ a <= i < b.
Proof.
  intros Hrange i Hi.
  assert (Hleft : forall n i, Z.of_nat n = i -> f i = true ->
            exists a, a <= i /\ f (a - 1) = false /\ forall j, a <= j <= i -> f j = true).
  { induction n as [|n IH]; intros i0 Hn H0.
    - exists i0. split; [lia|]. split.
      + destruct (f (i0 - 1)) eqn:E; [apply Hrange in E; lia|reflexivity].
      + intros j Hj. replace j with i0 by lia. assumption.
    - destruct (f (i0 - 1)) eqn:E.
      + destruct (IH (i0 - 1)) as (a & Ha1 & Ha2 & Ha3); [lia|assumption|].
        exists a. split; [lia|]. split; [assumption|].
        intros j Hj. destruct (Z.eq_dec j i0); [subst; assumption|apply Ha3; lia].
      + exists i0. split; [lia|]. split; [assumption|]. intros j Hj. replace j with i0 by lia. assumption. }
  assert (Hright : forall n i, Z.of_nat n = T - i -> f i = true ->
            exists b, i < b /\ f b = false /\ forall j, i <= j < b -> f j = true).
  { induction n as [|n IH]; intros i0 Hn H0.
    - apply Hrange in H0. lia.
    - destruct (f (i0 + 1)) eqn:E.
      + destruct (IH (i0 + 1)) as (b & Hb1 & Hb2 & Hb3); [lia|assumption|].
        exists b. split; [lia|]. split; [assumption|].
        intros j Hj. destruct (Z.eq_dec j i0); [subst; assumption|apply Hb3; lia].
      + exists (i0 + 1). split; [lia|]. split; [assumption|]. intros j Hj. replace j with i0 by lia. assumption. }
  pose proof (Hrange i Hi) as Hir.
  destruct (Hleft (Z.to_nat i) i) as (a & Ha1 & Ha2 & Ha3); [lia|assumption|].
  destruct (Hright (Z.to_nat (T - i)) i) as (b & Hb1 & Hb2 & Hb3); [lia|assumption|].
  exists a, b. split; [|lia].
  split; [lia|]. split; [assumption|]. split; [|assumption].
  intros j Hj. destruct (Z_le_gt_dec j i); [apply Ha3; lia|apply Hb3; lia].
Qed.

(** * The grid round trip *)
Definition span_ok (fps : flt) (sp : Z * Z * Z) : bool :=
  let a := snd (fst sp) in let b := snd sp in
  frame_exact fps a && frame_exact fps b &&
  PrimFloat.leb zero ((ftime fps b - ftime fps a) * f1000)%float.

(* frame index arithmetic is exact at every run boundary, no decoded note is lost to the
   0 ms minimum duration, and the re-encoded roll is not shorter than the original *)
Definition grid_premise (fps : flt) (F : list (list bool)) : bool :=
  forallb (span_ok fps) (decode_spans F None None) &&
  (Z.of_nat (length F) <=? roll_rows fps (fz (Z.of_nat (length F) + 1) * frame_len fps)%float).

Definition mk_dnote (fps : flt) (mn : Z) (sp : Z * Z * Z) : dnote :=
  {| d_pitch := fst (fst sp) + mn; d_start := ftime fps (snd (fst sp)); d_end := ftime fps (snd sp) |}.

Lemma filter_map_all {A B} (f : A -> option B) (g : A -> B) : forall l,
  (forall x, In x l -> f x = Some (g x)) -> filter_map f l = map g l.
Proof.
  induction l as [|x l IH]; intros H; [reflexivity|].
  cbn [filter_map map]. rewrite (H x (or_introl eq_refl)). f_equal. apply IH. intros y Hy. apply H. right. assumption.
Qed.

Lemma fold_left_ext {A B} (f g : A -> B -> A) : (forall a b, f a b = g a b) ->
  forall l a, fold_left f l a = fold_left g l a.
Proof. intros H. induction l as [|x l IH]; intros a; [reflexivity|]. cbn. rewrite H. apply IH. Qed.

Lemma eff_plain F p i : eff F None None p i = mget F i p.
Proof. unfold eff. cbn. rewrite orb_false_r, andb_true_r. reflexivity. Qed.

Theorem grid_roundtrip_exact_proof fps mn F T P :
  (0 < T)%nat -> rect F T P -> grid_premise fps F = true ->
  forall i p, mget (grid_roundtrip fps mn F) i p = mget F i p.
Proof.
  intros HT HF Hprem i p.
  unfold grid_premise in Hprem. apply andb_prop in Hprem. destruct Hprem as [Hspans Hrows].
  rewrite forallb_forall in Hspans. apply Z.leb_le in Hrows.
  assert (HlenF : length F = T) by apply HF. rewrite HlenF in Hrows.
  pose proof (rect_width _ _ _ HF HT) as Hw.
  unfold grid_roundtrip, p2s. rewrite Hw, HlenF.
  set (total := (fz (Z.of_nat T + 1) * frame_len fps)%float) in *.
  set (c := grid_cfg fps total mn (Z.of_nat P)).
  set (spans := decode_spans F None None) in *.
  (* facts about every decoded span *)
  assert (Hsp : forall q a b, In (q, a, b) spans ->
            0 <= q < Z.of_nat P /\ 0 <= a < b /\ b <= Z.of_nat T /\ span_ok fps (q, a, b) = true).
  { intros q a b Hin.
    pose proof (decode_spans_pitch_range F None None T P HT HF I I q a b Hin) as Hq.
    destruct (runs_decoded_proof F None None T P HT HF I I q Hq) as [_ Hiff].
    apply Hiff in Hin as Hns. apply note_span_plain in Hns.
    destruct Hns as (Hab & Hpre & Hall & Hend).
    assert (Hra : forall j, eff F None None q j = true -> 0 <= j < Z.of_nat T).
    { intros j Hj. apply (eff_range F None None T P q j HF I Hj). }
    split; [assumption|]. split; [|split].
    - pose proof (Hra a (Hall a ltac:(lia))). lia.
    - pose proof (Hra (b - 1) (Hall (b - 1) ltac:(lia))). lia.
    - apply Hspans. assumption. }
  (* no note is dropped *)
  assert (Hkeep : filter_map (end_pitch fps zero mn) spans = map (mk_dnote fps mn) spans).
  { apply filter_map_all. intros [[q a] b] Hin.
    destruct (Hsp q a b Hin) as (_ & _ & _ & Hok).
    unfold span_ok in Hok. cbn [fst snd] in Hok. apply andb_prop in Hok. destruct Hok as [_ Hle].
    unfold end_pitch. rewrite Hle. reflexivity. }
  rewrite Hkeep. rewrite map_map.
  set (notes := map (fun sp => snote_of DEFAULT_DECODE_VELOCITY (mk_dnote fps mn sp)) spans).
  set (fr := fun n : snote => (f_start (note_frames c n), f_end (note_frames c n), col_of c n)).
  unfold active_roll.
  rewrite (fold_left_ext (paint_active c)
             (fun m n => paint m (fst (fst (fr n))) (snd (fst (fr n))) (snd (fr n)) (fun _ => true)))
    by (intros m n; reflexivity).
  assert (Hrows_c : rows_of c = roll_rows fps total) by reflexivity.
  assert (Hcols_c : cols_of c = Z.of_nat P) by (unfold cols_of, c; cbn; lia).
  assert (Hrows0 : 0 <= rows_of c) by lia.
  pose proof (blank_rect (rows_of c) (cols_of c) Hrows0 ltac:(lia)) as Hblank.
  rewrite Hcols_c, Nat2Z.id in Hblank.
  (* the painted notes and their frames *)
  assert (Hpainted : forall n, In n (painted_notes c notes) <->
            exists q a b, In (q, a, b) spans /\ n = snote_of DEFAULT_DECODE_VELOCITY (mk_dnote fps mn (q, a, b))).
  { intros n. unfold painted_notes. rewrite filter_In, sort_notes_In. unfold notes. rewrite in_map_iff. split.
    - intros [([[q a] b] & <- & Hin) _]. exists q, a, b. split; [assumption|reflexivity].
    - intros (q & a & b & Hin & ->). split; [exists (q, a, b); split; [reflexivity|assumption]|].
      destruct (Hsp q a b Hin) as (Hq & _).
      unfold in_range, c. cbn.
      destruct (q + mn <? mn) eqn:E1; [apply Z.ltb_lt in E1; lia|].
      destruct (mn + Z.of_nat P - 1 <? q + mn) eqn:E2; [apply Z.ltb_lt in E2; lia|]. reflexivity. }
  assert (Hfr : forall q a b, In (q, a, b) spans ->
            fr (snote_of DEFAULT_DECODE_VELOCITY (mk_dnote fps mn (q, a, b))) = (a, b, Z.to_nat q)).
  { intros q a b Hin. destruct (Hsp q a b Hin) as (Hq & Hab & HbT & Hok).
    unfold span_ok in Hok. cbn [fst snd] in Hok.
    apply andb_prop in Hok. destruct Hok as [Hok _]. apply andb_prop in Hok. destruct Hok as [Ha Hb].
    unfold frame_exact in Ha, Hb.
    apply andb_prop in Ha. destruct Ha as [Ha _]. apply andb_prop in Hb. destruct Hb as [_ Hb].
    apply Z.eqb_eq in Ha. apply Z.eqb_eq in Hb.
    unfold fr, note_frames, main_frames, fft, col_of, c. cbn.
    change (fz a * (1 / fps))%float with (ftime fps a). change (fz b * (1 / fps))%float with (ftime fps b).
    rewrite Ha, Hb. f_equal; [f_equal; lia|]. f_equal. lia. }
  destruct (fold_paint_true fr (painted_notes c notes) _ _ _ Hblank) as [Hres1 Hres2].
  { intros n Hn. apply Hpainted in Hn. destruct Hn as (q & a & b & Hin & ->).
    rewrite (Hfr q a b Hin). cbn [fst snd].
    destruct (Hsp q a b Hin) as (Hq & Hab & HbT & _). lia. }
  cbv zeta in Hres2.
  (* cell by cell *)
  unfold mget. destruct ((i <? 0) || (p <? 0)) eqn:Eneg; [reflexivity|].
  apply orb_false_elim in Eneg. destruct Eneg as [Ei Ep]. apply Z.ltb_ge in Ei. apply Z.ltb_ge in Ep.
  set (j := Z.to_nat i). set (q := Z.to_nat p).
  rewrite Hcols_c. apply eq_true_iff_eq. rewrite Hres2. rewrite blank_mg.
  assert (HmgF : mg F j q = mget F (Z.of_nat j) (Z.of_nat q)) by (rewrite mget_nat; reflexivity).
  rewrite HmgF. split.
  - intros [H|(n & Hn & Hc)]; [discriminate|].
    apply Hpainted in Hn. destruct Hn as (q' & a & b & Hin & ->).
    rewrite (Hfr q' a b Hin) in Hc. cbn [fst snd] in Hc. unfold covers in Hc.
    apply andb_prop in Hc. destruct Hc as [Hc Hq]. apply andb_prop in Hc. destruct Hc as [Hc1 Hc2].
    apply Z.leb_le in Hc1. apply Z.ltb_lt in Hc2. apply Nat.eqb_eq in Hq.
    destruct (Hsp q' a b Hin) as (Hq' & _).
    destruct (runs_decoded_proof F None None T P HT HF I I q' Hq') as [_ Hiff].
    apply Hiff in Hin. apply note_span_plain in Hin. destruct Hin as (_ & _ & Hall & _).
    specialize (Hall (Z.of_nat j) ltac:(lia)). rewrite eff_plain in Hall.
    replace (Z.of_nat q) with q' by lia. exact Hall.
  - intros Hcell. right.
    destruct (mget_range _ _ _ _ _ HF Hcell) as [Hjr Hqr].
    assert (Hrun : exists a b, maximal_run (eff F None None (Z.of_nat q)) a b /\ a <= Z.of_nat j < b).
    { apply (run_around _ (Z.of_nat T)).
      - intros i0 H0. apply (eff_range F None None T P _ _ HF I H0).
      - rewrite eff_plain. exact Hcell. }
    destruct Hrun as (a & b & Hrun & Hjab).
    apply note_span_plain in Hrun.
    destruct (runs_decoded_proof F None None T P HT HF I I (Z.of_nat q) Hqr) as [_ Hiff].
    apply Hiff in Hrun.
    exists (snote_of DEFAULT_DECODE_VELOCITY (mk_dnote fps mn (Z.of_nat q, a, b))).
    split; [apply Hpainted; exists (Z.of_nat q), a, b; split; [assumption|reflexivity]|].
    rewrite (Hfr _ a b Hrun). cbn [fst snd]. unfold covers.
    rewrite Nat2Z.id, Nat.eqb_refl.
    destruct (a <=? Z.of_nat j) eqn:E1; [|apply Z.leb_gt in E1; lia].
    destruct (Z.of_nat j <? b) eqn:E2; [|apply Z.ltb_ge in E2; lia]. reflexivity.
Qed.

(** The premise holds for every power-of-two frame rate. *)
Theorem grid_premise_pow2 fps k F T P :
  fin fps -> R_of fps = Raux.bpow Zaux.radix2 k -> -64 <= k <= 64 ->
  (0 < T)%nat -> rect F T P -> Z.of_nat T < 2 ^ 52 ->
  grid_premise fps F = true.
Proof.
  intros Ffps Rfps Hk HT HF HTb. unfold grid_premise.
  assert (HlenF : length F = T) by apply HF. rewrite HlenF.
  apply andb_true_intro. split.
  - apply forallb_forall. intros [[q a] b] Hin.
    pose proof (decode_spans_pitch_range F None None T P HT HF I I q a b Hin) as Hq.
    destruct (runs_decoded_proof F None None T P HT HF I I q Hq) as [_ Hiff].
    apply Hiff in Hin. apply note_span_plain in Hin. destruct Hin as (Hab & _ & Hall & _).
    assert (Hra : forall j, eff F None None q j = true -> 0 <= j < Z.of_nat T).
    { intros j Hj. apply (eff_range F None None T P q j HF I Hj). }
    pose proof (Hra a (Hall a ltac:(lia))). pose proof (Hra (b - 1) (Hall (b - 1) ltac:(lia))).
    unfold span_ok. cbn [fst snd].
    rewrite (frame_exact_pow2 fps k Ffps Rfps Hk a) by lia.
    rewrite (frame_exact_pow2 fps k Ffps Rfps Hk b) by lia.
    rewrite (kept_pow2 fps k Ffps Rfps Hk a b) by lia. reflexivity.
  - rewrite (rows_pow2 fps k Ffps Rfps Hk (Z.of_nat T)) by lia. apply Z.leb_le. lia.
Qed.

(** The unconditional statement is false of the code as it is: at 100 frames per second
    a run starting at frame 29 comes back starting at frame 28 (finding F14). *)
Definition f14_roll : list (list bool) := map (fun i => [Z.leb 29 i]) (map Z.of_nat (seq 0 31)).

Lemma grid_roundtrip_refuted_proof :
  rect f14_roll 31 1 /\
  mget f14_roll 28 0 = false /\ mget (grid_roundtrip fps100 21 f14_roll) 28 0 = true /\
  grid_premise fps100 f14_roll = false.
Proof.
  split; [split; [reflexivity|]|].
  - intros r Hr. unfold f14_roll in Hr. apply in_map_iff in Hr. destruct Hr as (x & <- & _). reflexivity.
  - vm_compute. repeat split; reflexivity.
Qed.

(* the hypotheses of the theorems are satisfiable by a non-trivial roll *)
Definition demo_roll : list (list bool) :=
  [[true; false]; [true; false]; [false; true]; [true; true]; [false; true]].

Lemma grid_premise_nonvacuous_proof :
  rect demo_roll 5 2 /\ grid_premise (fz 16) demo_roll = true /\
  decode_spans demo_roll None None = [(0, 0, 2); (0, 3, 4); (1, 2, 5)] /\
  grid_premise (fz 50) demo_roll = true.
Proof.
  split; [split; [reflexivity|]|].
  - intros r Hr. cbn in Hr. repeat (destruct Hr as [<-|Hr]; [reflexivity|]). destruct Hr.
  - vm_compute. repeat split; reflexivity.
Qed.

(** * Minimum duration: only notes shorter than min_duration_ms are dropped *)
Lemma in_filter_map {A B} (f : A -> option B) : forall l y, In y (filter_map f l) <-> exists x, In x l /\ f x = Some y.
Proof.
  induction l as [|x l IH]; intros y; cbn [filter_map].
  - split; [intros []|intros (x & [] & _)].
  - destruct (f x) eqn:E.
    + cbn [In]. rewrite IH. split.
      * intros [->|(x' & H1 & H2)]; [exists x; split; [left; reflexivity|assumption]|exists x'; split; [right|]; assumption].
      * intros (x' & [->|H1] & H2); [left; congruence|right; exists x'; split; assumption].
    + rewrite IH. split.
      * intros (x' & H1 & H2). exists x'. split; [right|]; assumption.
      * intros (x' & [->|H1] & H2); [congruence|exists x'; split; assumption].
Qed.

Theorem p2s_notes_proof fps md mmp F On Off d :
  In d (snd (p2s fps md mmp F On Off)) <->
  exists p a b, In (p, a, b) (decode_spans F On Off) /\
                PrimFloat.leb md ((ftime fps b - ftime fps a) * f1000)%float = true /\
                d = {| d_pitch := p + mmp; d_start := ftime fps a; d_end := ftime fps b |}.
Proof.
  unfold p2s. cbn [snd]. rewrite in_filter_map. split.
  - intros ([[p a] b] & Hin & He). exists p, a, b. split; [assumption|].
    unfold end_pitch in He. destruct (PrimFloat.leb md _) eqn:E; [|discriminate].
    split; [reflexivity|]. congruence.
  - intros (p & a & b & Hin & Hle & ->). exists (p, a, b). split; [assumption|].
    unfold end_pitch. rewrite Hle. reflexivity.
Qed.

(** * pianoroll_onsets_to_note_sequence: one note per set cell *)
Lemma row_cells_In i : forall row p0 i' p,
  In (i', p) (row_cells i p0 row) <-> i' = i /\ p0 <= p /\ nth (Z.to_nat (p - p0)) row false = true.
Proof.
  induction row as [|b row IH]; intros p0 i' p; cbn [row_cells].
  - split; [intros []|]. intros (_ & _ & H). rewrite nth_nil_bool in H. discriminate.
  - assert (Hstep : (i' = i /\ p0 <= p /\ nth (Z.to_nat (p - p0)) (b :: row) false = true) <->
                    ((i' = i /\ p = p0 /\ b = true) \/ (i' = i /\ p0 + 1 <= p /\ nth (Z.to_nat (p - (p0 + 1))) row false = true))).
    { split.
      - intros (H1 & H2 & H3). destruct (Z.eq_dec p p0) as [->|Hne].
        + left. replace (p0 - p0) with 0 in H3 by lia. cbn in H3. auto.
        + right. split; [assumption|]. split; [lia|].
          replace (Z.to_nat (p - p0)) with (S (Z.to_nat (p - (p0 + 1)))) in H3 by lia. exact H3.
      - intros [(H1 & -> & H3)|(H1 & H2 & H3)].
        + split; [assumption|]. split; [lia|]. replace (p0 - p0) with 0 by lia. exact H3.
        + split; [assumption|]. split; [lia|].
          replace (Z.to_nat (p - p0)) with (S (Z.to_nat (p - (p0 + 1)))) by lia. exact H3. }
    rewrite Hstep. destruct b.
    + cbn [In]. rewrite IH. split.
      * intros [H|H]; [inversion H; subst; left; auto|right; assumption].
      * intros [(-> & -> & _)|H]; [left; reflexivity|right; assumption].
    + rewrite IH. split; [intros H; right; assumption|]. intros [(_ & _ & H)|H]; [discriminate|assumption].
Qed.

Lemma nonzero_cells_In : forall m i0 i p,
  In (i, p) (nonzero_cells i0 m) <-> i0 <= i /\ 0 <= p /\ mg m (Z.to_nat (i - i0)) (Z.to_nat p) = true.
Proof.
  induction m as [|row m IH]; intros i0 i p; cbn [nonzero_cells].
  - split; [intros []|]. intros (_ & _ & H). unfold mg in H.
    replace (nth (Z.to_nat (i - i0)) (@nil (list bool)) []) with (@nil bool) in H by (destruct (Z.to_nat (i - i0)); reflexivity).
    rewrite nth_nil_bool in H. discriminate.
  - rewrite in_app_iff, row_cells_In, IH. unfold mg. split.
    + intros [(-> & H2 & H3)|(H1 & H2 & H3)].
      * split; [lia|]. split; [lia|]. replace (i0 - i0) with 0 by lia. cbn [Z.to_nat nth].
        replace (p - 0) with p in H3 by lia. exact H3.
      * split; [lia|]. split; [lia|].
        replace (Z.to_nat (i - i0)) with (S (Z.to_nat (i - (i0 + 1)))) by lia. exact H3.
    + intros (H1 & H2 & H3). destruct (Z.eq_dec i i0) as [->|Hne].
      * left. split; [reflexivity|]. split; [lia|]. replace (i0 - i0) with 0 in H3 by lia. cbn [Z.to_nat nth] in H3.
        replace (p - 0) with p by lia. exact H3.
      * right. split; [lia|]. split; [lia|].
        replace (Z.to_nat (i - i0)) with (S (Z.to_nat (i - (i0 + 1)))) in H3 by lia. exact H3.
Qed.

Theorem onsets2s_notes_proof fps dur mmp m d :
  In d (snd (onsets2s fps dur mmp m)) <->
  exists i p, mget m i p = true /\
              d = {| d_pitch := p + mmp; d_start := ftime fps i; d_end := (ftime fps i + dur)%float |}.
Proof.
  unfold onsets2s. cbn [snd]. rewrite in_map_iff. split.
  - intros ([i p] & <- & Hin). apply nonzero_cells_In in Hin. destruct Hin as (H1 & H2 & H3).
    exists i, p. split; [|reflexivity]. unfold mget.
    destruct (i <? 0) eqn:E1; [apply Z.ltb_lt in E1; lia|]. destruct (p <? 0) eqn:E2; [apply Z.ltb_lt in E2; lia|].
    cbn. replace (i - 0) with i in H3 by lia. exact H3.
  - intros (i & p & Hm & ->). exists (i, p). split; [reflexivity|]. apply nonzero_cells_In.
    unfold mget in Hm. destruct (i <? 0) eqn:E1; [discriminate|]. destruct (p <? 0) eqn:E2; [discriminate|].
    apply Z.ltb_ge in E1. apply Z.ltb_ge in E2. cbn in Hm.
    split; [lia|]. split; [lia|]. replace (i - 0) with i by lia. exact Hm.
Qed.

(** * Corollaries stated in Props/C18.v *)
Theorem runs_decoded_plain_proof F T P : (0 < T)%nat -> rect F T P ->
  forall p a b, In (p, a, b) (decode_spans F None None) <->
                (0 <= p < Z.of_nat P /\ maximal_run (fun i => mget F i p) a b).
Proof.
  intros HT HF p a b. split.
  - intros Hin. pose proof (decode_spans_pitch_range F None None T P HT HF I I p a b Hin) as Hp.
    split; [assumption|].
    destruct (runs_decoded_proof F None None T P HT HF I I p Hp) as [_ Hiff].
    apply Hiff in Hin. apply note_span_plain in Hin.
    destruct Hin as (H1 & H2 & H3 & H4). rewrite eff_plain in H2, H4.
    split; [assumption|]. split; [assumption|]. split; [|assumption].
    intros j Hj. rewrite <- eff_plain. apply H3. assumption.
  - intros (Hp & H1 & H2 & H3 & H4).
    destruct (runs_decoded_proof F None None T P HT HF I I p Hp) as [_ Hiff].
    apply Hiff. apply note_span_plain.
    split; [assumption|]. rewrite !eff_plain. split; [assumption|]. split; [|assumption].
    intros j Hj. rewrite eff_plain. apply H3. assumption.
Qed.

Theorem grid_roundtrip_pow2_proof fps k mn F T P :
  fin fps -> R_of fps = Raux.bpow Zaux.radix2 k -> -64 <= k <= 64 ->
  (0 < T)%nat -> rect F T P -> Z.of_nat T < 2 ^ 52 ->
  forall i p, mget (grid_roundtrip fps mn F) i p = mget F i p.
Proof.
  intros. apply (grid_roundtrip_exact_proof fps mn F T P); try assumption.
  apply (grid_premise_pow2 fps k F T P); assumption.
Qed.

Lemma pow2_rate_nonvacuous_proof : fin (fz 16) /\ R_of (fz 16) = Raux.bpow Zaux.radix2 4.
Proof.
  destruct (fz_R 16) as [H1 H2]; [cbn; lia|]. split; [assumption|]. rewrite H1. cbn. reflexivity.
Qed.

Lemma frames_at_least_one_proof fps occ s e :
  fst (frames_from_times fps occ s e) + 1 <= snd (frames_from_times fps occ s e).
Proof. apply (fft_bounds fps occ s e). Qed.

(** * The active roll of sequence_to_pianoroll, for any note list (occupancy test off,
    onsets overlapping, no blank frame): a cell is active iff some in-range note covers it *)
Lemma paint_spec_clamped (v : bool) m R P s e p : rect m R P -> (p < P)%nat -> 0 <= s -> 0 <= e ->
  rect (paint m s e p (fun _ => v)) R P /\
  forall j q, mg (paint m s e p (fun _ => v)) j q = if covers s e p j q && Nat.ltb j R then v else mg m j q.
Proof.
  intros Hm Hp Hs He. unfold paint. cbv zeta.
  assert (Hlen : Z.of_nat (length m) = Z.of_nat R) by (destruct Hm as [-> _]; reflexivity).
  rewrite Hlen.
  assert (Hidx : forall x, 0 <= x -> py_idx (Z.of_nat R) x = Z.min x (Z.of_nat R)).
  { intros x Hx. unfold py_idx. destruct (x <? 0) eqn:E; [apply Z.ltb_lt in E; lia|reflexivity]. }
  rewrite !Hidx by assumption.
  destruct (paint_from_spec v (Z.min s (Z.of_nat R)) (Z.min e (Z.of_nat R)) p m 0 R P Hm Hp) as [H1 H2].
  split; [assumption|]. intros j q. rewrite H2. unfold covers. cbn [Z.add].
  destruct (Nat.ltb j R) eqn:Ej; [|rewrite andb_false_r; reflexivity].
  apply Nat.ltb_lt in Ej. cbn [andb]. rewrite andb_true_r.
  replace (Z.min s (Z.of_nat R) <=? Z.of_nat j) with (s <=? Z.of_nat j)
    by (destruct (s <=? Z.of_nat j) eqn:E1; destruct (Z.min s (Z.of_nat R) <=? Z.of_nat j) eqn:E2; try reflexivity;
        [apply Z.leb_le in E1; apply Z.leb_gt in E2; lia|apply Z.leb_gt in E1; apply Z.leb_le in E2; lia]).
  replace (Z.of_nat j <? Z.min e (Z.of_nat R)) with (Z.of_nat j <? e)
    by (destruct (Z.of_nat j <? e) eqn:E1; destruct (Z.of_nat j <? Z.min e (Z.of_nat R)) eqn:E2; try reflexivity;
        [apply Z.ltb_lt in E1; apply Z.ltb_ge in E2; lia|apply Z.ltb_ge in E1; apply Z.ltb_lt in E2; lia]).
  reflexivity.
Qed.

Lemma fold_paint_true_clamped (fr : snote -> Z * Z * nat) : forall l m R P, rect m R P ->
  (forall n, In n l -> 0 <= fst (fst (fr n)) /\ 0 <= snd (fst (fr n)) /\ (snd (fr n) < P)%nat) ->
  let res := fold_left (fun m n => paint m (fst (fst (fr n))) (snd (fst (fr n))) (snd (fr n)) (fun _ => true)) l m in
  rect res R P /\
  forall j q, mg res j q = true <->
              (mg m j q = true \/
               ((j < R)%nat /\ exists n, In n l /\ covers (fst (fst (fr n))) (snd (fst (fr n))) (snd (fr n)) j q = true)).
Proof.
  induction l as [|n l IH]; intros m R P Hm Hl.
  - cbn. split; [assumption|]. intros j q. split; [auto|]. intros [H|(_ & n & [] & _)]. assumption.
  - cbn [fold_left].
    destruct (Hl n (or_introl eq_refl)) as (H1 & H2 & H3).
    destruct (paint_spec_clamped true m R P _ _ _ Hm H3 H1 H2) as [Hr Hg].
    specialize (IH _ R P Hr (fun n' Hn' => Hl n' (or_intror Hn'))). cbv zeta in IH.
    destruct IH as [IH1 IH2]. split; [assumption|].
    intros j q. rewrite IH2. rewrite Hg. split.
    + intros [H|(HjR & n' & Hn' & Hc)].
      * destruct (covers _ _ _ j q && Nat.ltb j R) eqn:E; [|left; assumption].
        apply andb_prop in E. destruct E as [E1 E2]. apply Nat.ltb_lt in E2.
        right. split; [assumption|]. exists n. split; [left; reflexivity|assumption].
      * right. split; [assumption|]. exists n'. split; [right|]; assumption.
    + intros [H|(HjR & n' & [Hn'|Hn'] & Hc)].
      * left. rewrite H. destruct (covers _ _ _ j q && Nat.ltb j R); reflexivity.
      * subst n'. left. rewrite Hc. apply Nat.ltb_lt in HjR. rewrite HjR. reflexivity.
      * right. split; [assumption|]. exists n'. split; assumption.
Qed.

Theorem active_frames_proof c notes :
  c_blank c = false -> c_overlap c = true -> gt0 (c_occ c) = false ->
  0 <= rows_of c -> 0 <= cols_of c ->
  (forall n, In n notes -> in_range c n = true -> 0 <= sframe (c_fps c) (n_start n)) ->
  forall i p, 0 <= i -> 0 <= p ->
  (mget (active_roll c notes) i p = true <->
   (i < rows_of c /\
    exists n, In n notes /\ in_range c n = true /\ p = n_pitch n - c_min_pitch c /\
              sframe (c_fps c) (n_start n) <= i <
              Z.max (sframe (c_fps c) (n_start n) + 1) (eframe (c_fps c) (n_end n)))).
Proof.
  intros Hblank Hover Hocc Hrows Hcols Hnonneg i p Hi Hp.
  set (fr := fun n : snote => (f_start (note_frames c n), f_end (note_frames c n), col_of c n)).
  unfold active_roll.
  rewrite (fold_left_ext (paint_active c)
             (fun m n => paint m (fst (fst (fr n))) (snd (fst (fr n))) (snd (fr n)) (fun _ => true)))
    by (intros m n; unfold paint_active; rewrite Hblank; reflexivity).
  pose proof (blank_rect (rows_of c) (cols_of c) Hrows Hcols) as Hb.
  assert (Hfr : forall n, fr n = (sframe (c_fps c) (n_start n),
                                  Z.max (sframe (c_fps c) (n_start n) + 1) (eframe (c_fps c) (n_end n)), col_of c n)).
  { intros n. unfold fr, note_frames. cbn [f_start f_end]. rewrite Hover.
    unfold main_frames, fft. rewrite (fft_no_occupancy _ _ _ _ Hocc). reflexivity. }
  assert (Hpn : forall n, In n (painted_notes c notes) <-> In n notes /\ in_range c n = true).
  { intros n. unfold painted_notes. rewrite filter_In, sort_notes_In. reflexivity. }
  assert (Hrange : forall n, in_range c n = true -> 0 <= n_pitch n - c_min_pitch c < cols_of c).
  { intros n H. unfold in_range in H. apply negb_true_iff in H. apply orb_false_elim in H. destruct H as [H1 H2].
    apply Z.ltb_ge in H1. apply Z.ltb_ge in H2. unfold cols_of. lia. }
  destruct (fold_paint_true_clamped fr (painted_notes c notes) _ _ _ Hb) as [_ Hres].
  { intros n Hn. apply Hpn in Hn. destruct Hn as [Hn Hr]. rewrite Hfr. cbn [fst snd].
    pose proof (Hnonneg n Hn Hr). pose proof (Hrange n Hr). unfold col_of. lia. }
  cbv zeta in Hres.
  unfold mget. destruct (i <? 0) eqn:Ei; [apply Z.ltb_lt in Ei; lia|].
  destruct (p <? 0) eqn:Ep; [apply Z.ltb_lt in Ep; lia|]. cbn [orb].
  rewrite Hres. rewrite blank_mg. split.
  - intros [H|(HjR & n & Hn & Hc)]; [discriminate|].
    apply Hpn in Hn. destruct Hn as [Hn Hr]. rewrite Hfr in Hc. cbn [fst snd] in Hc. unfold covers in Hc.
    apply andb_prop in Hc. destruct Hc as [Hc Hq]. apply andb_prop in Hc. destruct Hc as [Hc1 Hc2].
    apply Z.leb_le in Hc1. apply Z.ltb_lt in Hc2. apply Nat.eqb_eq in Hq.
    pose proof (Hrange n Hr). unfold col_of in Hq.
    split; [lia|]. exists n. split; [assumption|]. split; [assumption|]. split; lia.
  - intros (HiR & n & Hn & Hr & Hpn' & Hspan). right. split; [lia|].
    exists n. split; [apply Hpn; split; assumption|]. rewrite Hfr. cbn [fst snd]. unfold covers, col_of.
    rewrite Z2Nat.id by lia.
    destruct (sframe (c_fps c) (n_start n) <=? i) eqn:E1; [|apply Z.leb_gt in E1; lia].
    destruct (i <? Z.max (sframe (c_fps c) (n_start n) + 1) (eframe (c_fps c) (n_end n))) eqn:E2; [|apply Z.ltb_ge in E2; lia].
    cbn [andb]. apply Nat.eqb_eq. lia.
Qed.

Theorem active_roll_shape_proof c notes :
  c_blank c = false -> c_overlap c = true -> gt0 (c_occ c) = false ->
  0 <= rows_of c -> 0 <= cols_of c ->
  (forall n, In n notes -> in_range c n = true -> 0 <= sframe (c_fps c) (n_start n)) ->
  rect (active_roll c notes) (Z.to_nat (roll_rows (c_fps c) (c_total c))) (Z.to_nat (c_max_pitch c - c_min_pitch c + 1)).
Proof.
  intros Hblank Hover Hocc Hrows Hcols Hnonneg.
  set (fr := fun n : snote => (f_start (note_frames c n), f_end (note_frames c n), col_of c n)).
  unfold active_roll.
  rewrite (fold_left_ext (paint_active c)
             (fun m n => paint m (fst (fst (fr n))) (snd (fst (fr n))) (snd (fr n)) (fun _ => true)))
    by (intros m n; unfold paint_active; rewrite Hblank; reflexivity).
  pose proof (blank_rect (rows_of c) (cols_of c) Hrows Hcols) as Hb.
  destruct (fold_paint_true_clamped fr (painted_notes c notes) _ _ _ Hb) as [Hr _]; [|exact Hr].
  intros n Hn. unfold painted_notes in Hn. apply filter_In in Hn. destruct Hn as [Hn Hr].
  apply (proj1 (sort_notes_In _ _)) in Hn.
  unfold fr, note_frames. cbn [f_start f_end fst snd]. rewrite Hover.
  unfold main_frames, fft. rewrite (fft_no_occupancy _ _ _ _ Hocc). cbn [fst snd].
  pose proof (Hnonneg n Hn Hr).
  unfold in_range in Hr. apply negb_true_iff in Hr. apply orb_false_elim in Hr. destruct Hr as [H1 H2].
  apply Z.ltb_ge in H1. apply Z.ltb_ge in H2. unfold col_of, cols_of in *. lia.
Qed.

(** * The converse: notes on the frame grid -> roll -> notes *)
Lemma maximal_run_unique (f : Z -> bool) a b a' b' i :
  maximal_run f a b -> maximal_run f a' b' -> a <= i < b -> a' <= i < b' -> a = a' /\ b = b'.
Proof.
  intros (H1 & H2 & H3 & H4) (H1' & H2' & H3' & H4') Hi Hi'.
  split.
  - destruct (Z.lt_trichotomy a a') as [Hlt|[Heq|Hgt]]; [|assumption|].
    + rewrite (H3 (a' - 1)) in H2' by lia. discriminate.
    + rewrite (H3' (a - 1)) in H2 by lia. discriminate.
  - destruct (Z.lt_trichotomy b b') as [Hlt|[Heq|Hgt]]; [|assumption|].
    + rewrite (H3' b) in H4 by lia. discriminate.
    + rewrite (H3 b') in H4' by lia. discriminate.
Qed.

Definition grid_note (fps : flt) (mn : Z) (sp : Z * Z * Z) : snote :=
  snote_of DEFAULT_DECODE_VELOCITY (mk_dnote fps mn sp).

Theorem grid_converse_proof fps total mn P (N : list (Z * Z * Z)) :
  let c := grid_cfg fps total mn (Z.of_nat P) in
  0 < rows_of c ->
  (forall p a b, In (p, a, b) N ->
     0 <= p < Z.of_nat P /\ 0 <= a < b /\ b <= rows_of c /\ frame_exact fps a = true /\ frame_exact fps b = true) ->
  (forall p a b a' b', In (p, a, b) N -> In (p, a', b') N -> (a = a' /\ b = b') \/ b < a' \/ b' < a) ->
  forall p a b,
    In (p, a, b) (decode_spans (active_roll c (map (grid_note fps mn) N)) None None) <-> In (p, a, b) N.
Proof.
  intros c Hrows HN Hsep.
  set (notes := map (grid_note fps mn) N).
  set (R := active_roll c notes).
  assert (Hcols : cols_of c = Z.of_nat P) by (unfold cols_of, c; cbn; lia).
  assert (Hfr : forall p a b, In (p, a, b) N ->
            sframe fps (ftime fps a) = a /\ eframe fps (ftime fps b) = b).
  { intros p a b Hin. destruct (HN p a b Hin) as (_ & _ & _ & Ha & Hb).
    unfold frame_exact in Ha, Hb. apply andb_prop in Ha. apply andb_prop in Hb.
    destruct Ha as [Ha _]. destruct Hb as [_ Hb]. apply Z.eqb_eq in Ha. apply Z.eqb_eq in Hb. auto. }
  assert (Hinr : forall sp, In sp N -> in_range c (grid_note fps mn sp) = true).
  { intros [[p a] b] Hin. destruct (HN p a b Hin) as (Hp & _).
    unfold in_range, c, grid_note. cbn.
    destruct (p + mn <? mn) eqn:E1; [apply Z.ltb_lt in E1; lia|].
    destruct (mn + Z.of_nat P - 1 <? p + mn) eqn:E2; [apply Z.ltb_lt in E2; lia|]. reflexivity. }
  assert (Hnonneg : forall n, In n notes -> in_range c n = true -> 0 <= sframe (c_fps c) (n_start n)).
  { intros n Hn _. unfold notes in Hn. apply in_map_iff in Hn. destruct Hn as ([[p a] b] & <- & Hin).
    destruct (Hfr p a b Hin) as [Ha _]. destruct (HN p a b Hin) as (_ & Hab & _).
    unfold grid_note, c. cbn. change (fz a * (1 / fps))%float with (ftime fps a). lia. }
  assert (Hcell : forall i q, mget R i q = true <-> exists a b, In (q, a, b) N /\ a <= i < b).
  { intros i q.
    destruct (Z_lt_ge_dec i 0) as [Hi|Hi].
    { split.
      - unfold mget. destruct (i <? 0) eqn:E; [discriminate|apply Z.ltb_ge in E; lia].
      - intros (a & b & Hin & Hab). destruct (HN q a b Hin) as (_ & Ha & _). lia. }
    destruct (Z_lt_ge_dec q 0) as [Hq|Hq].
    { split.
      - unfold mget. destruct (q <? 0) eqn:E; [rewrite orb_true_r; discriminate|apply Z.ltb_ge in E; lia].
      - intros (a & b & Hin & Hab). destruct (HN q a b Hin) as (Hq' & _). lia. }
    unfold R. rewrite (active_frames_proof c notes eq_refl eq_refl gt0_zero) by (try assumption; lia).
    split.
    - intros (_ & n & Hn & _ & Hqn & Hspan).
      unfold notes in Hn. apply in_map_iff in Hn. destruct Hn as ([[p a] b] & <- & Hin).
      destruct (Hfr p a b Hin) as [Ha Hb]. destruct (HN p a b Hin) as (_ & Hab & _).
      unfold grid_note, c in Hqn, Hspan. cbn in Hqn, Hspan.
      change (fz a * (1 / fps))%float with (ftime fps a) in Hspan.
      change (fz b * (1 / fps))%float with (ftime fps b) in Hspan.
      rewrite Ha, Hb in Hspan.
      exists a, b. replace q with p by lia. split; [assumption|lia].
    - intros (a & b & Hin & Hab).
      destruct (Hfr q a b Hin) as [Ha Hb]. destruct (HN q a b Hin) as (_ & Hab' & Hbr & _).
      split; [lia|]. exists (grid_note fps mn (q, a, b)).
      split; [unfold notes; apply in_map; assumption|]. split; [apply Hinr; assumption|].
      unfold grid_note, c. cbn.
      change (fz a * (1 / fps))%float with (ftime fps a). change (fz b * (1 / fps))%float with (ftime fps b).
      rewrite Ha, Hb. split; lia. }
  assert (HRrect : rect R (Z.to_nat (rows_of c)) P).
  { pose proof (active_roll_shape_proof c notes eq_refl eq_refl gt0_zero ltac:(lia) ltac:(lia) Hnonneg) as H.
    fold (rows_of c) in H. fold (cols_of c) in H. rewrite Hcols, Nat2Z.id in H. exact H. }
  assert (HA : forall p a b, In (p, a, b) N -> maximal_run (fun i => mget R i p) a b).
  { intros p a b Hin. destruct (HN p a b Hin) as (_ & Hab & _).
    split; [lia|]. split; [|split].
    - destruct (mget R (a - 1) p) eqn:E; [|reflexivity].
      apply Hcell in E. destruct E as (a' & b' & Hin' & Hab').
      destruct (Hsep p a b a' b' Hin Hin') as [[? ?]|[?|?]]; lia.
    - intros j Hj. apply Hcell. exists a, b. split; assumption.
    - destruct (mget R b p) eqn:E; [|reflexivity].
      apply Hcell in E. destruct E as (a' & b' & Hin' & Hab').
      destruct (HN p a' b' Hin') as (_ & Hab'' & _).
      destruct (Hsep p a b a' b' Hin Hin') as [[? ?]|[?|?]]; lia. }
  intros p a b.
  rewrite (runs_decoded_plain_proof R (Z.to_nat (rows_of c)) P ltac:(lia) HRrect p a b).
  split.
  - intros (Hp & Hrun).
    assert (Hfa : mget R a p = true) by (destruct Hrun as (H1 & _ & H3 & _); apply H3; lia).
    apply Hcell in Hfa. destruct Hfa as (a' & b' & Hin' & Hab').
    destruct (maximal_run_unique _ a b a' b' a Hrun (HA p a' b' Hin')) as [-> ->];
      [destruct Hrun as (H1 & _); lia|assumption|assumption].
  - intros Hin. split; [apply (HN p a b Hin)|apply HA; assumption].
Qed.

Theorem grid_converse_pow2_proof fps k total mn P (N : list (Z * Z * Z)) :
  fin fps -> R_of fps = Raux.bpow Zaux.radix2 k -> -64 <= k <= 64 ->
  let c := grid_cfg fps total mn (Z.of_nat P) in
  0 < rows_of c < 2 ^ 53 ->
  (forall p a b, In (p, a, b) N -> 0 <= p < Z.of_nat P /\ 0 <= a < b /\ b <= rows_of c) ->
  (forall p a b a' b', In (p, a, b) N -> In (p, a', b') N -> (a = a' /\ b = b') \/ b < a' \/ b' < a) ->
  forall p a b,
    In (p, a, b) (decode_spans (active_roll c (map (grid_note fps mn) N)) None None) <-> In (p, a, b) N.
Proof.
  intros Ffps Rfps Hk c Hrows HN Hsep. unfold c in *. clear c. apply grid_converse_proof; [lia| |assumption].
  intros p a b Hin. destruct (HN p a b Hin) as (Hp & Hab & Hb).
  split; [assumption|]. split; [assumption|]. split; [assumption|].
  split; apply (frame_exact_pow2 fps k Ffps Rfps Hk); lia.
Qed.
