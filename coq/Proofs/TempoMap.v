(** Proofs/TempoMap.v — facts about pretty_midi's tempo map as modelled in
    Model/TempoMap.v (C03): monotonicity of tick -> time, time -> tick -> time
    within half a tick, ticks are fixed points, the loader's normalisation of
    the set_tempo events does not change the tick -> time function. *)
From Coq Require Import ZArith List Bool Lia ZifyBool.
From NS Require Import Model.TempoMap.
Import ListNotations.
Local Open Scope Z_scope.

Definition hd_tick (l : list (Z * Z)) : Z := match l with [] => 0 | (k, _) :: _ => k end.
Definition hd_us (u0 : Z) (l : list (Z * Z)) : Z := match l with [] => u0 | (_, us) :: _ => us end.

(** well-formed map: positive tempos, ticks non-negative and non-decreasing in
    append order (the list is latest first) *)
Fixpoint wf (l : list (Z * Z)) : Prop :=
  match l with
  | [] => True
  | (k0, us0) :: older => 0 < us0 /\ hd_tick older <= k0 /\ wf older
  end.

Lemma wf_hd_nonneg : forall l, wf l -> 0 <= hd_tick l.
Proof.
  induction l as [|[k us] l IH]; cbn [wf hd_tick]; intros; [lia|].
  destruct H as (_ & H1 & H2). specialize (IH H2). lia.
Qed.

(** * tick -> time is strictly monotone *)
Lemma tt_mono : forall u0 l, 0 < u0 -> wf l -> forall k k', k < k' -> tt u0 l k < tt u0 l k'.
Proof.
  induction l as [|[k0 us0] l IH]; cbn [tt wf]; intros Hu Hwf k k' Hk.
  - nia.
  - destruct Hwf as (Hus & Hhd & Hwf).
    destruct (k0 <=? k) eqn:E1; destruct (k0 <=? k') eqn:E2.
    + nia.
    + lia.
    + assert (tt u0 l k < tt u0 l k0 \/ k = k0) as [H|H] by (destruct (Z.eq_dec k k0); [right; lia | left; apply IH; auto; lia]).
      * nia.
      * lia.
    + apply IH; auto.
Qed.

Lemma tt_mono_le : forall u0 l, 0 < u0 -> wf l -> forall k k', k <= k' -> tt u0 l k <= tt u0 l k'.
Proof.
  intros. destruct (Z.eq_dec k k'); [subst; lia|].
  pose proof (tt_mono u0 l H H0 k k'). lia.
Qed.

Lemma tt_inj_lt : forall u0 l, 0 < u0 -> wf l -> forall k k', tt u0 l k < tt u0 l k' -> k < k'.
Proof.
  intros. destruct (Z_lt_le_dec k k'); auto.
  pose proof (tt_mono_le u0 l H H0 k' k l0). lia.
Qed.

Lemma tt_zero : forall u0 l, wf l -> tt u0 l 0 = 0.
Proof.
  induction l as [|[k0 us0] l IH]; cbn [tt wf]; intros; [lia|].
  destruct H as (? & ? & Hw). pose proof (wf_hd_nonneg l Hw).
  destruct (k0 <=? 0) eqn:E.
  - assert (k0 = 0) by lia. subst. rewrite IH by auto. lia.
  - apply IH; auto.
Qed.

Lemma tt_nonneg : forall u0 l, 0 < u0 -> wf l -> forall k, 0 <= k -> 0 <= tt u0 l k.
Proof.
  intros. rewrite <- (tt_zero u0 l H0) at 1. apply tt_mono_le; auto.
Qed.

(** * nearest-tick division *)
Lemma near_up_spec : forall d us, 0 < us -> 0 <= d ->
  0 <= div_near_up d us /\ 2 * (us * div_near_up d us - d) <= us /\ - us < 2 * (us * div_near_up d us - d).
Proof.
  intros d us Hus Hd. unfold div_near_up.
  pose proof (Z.div_mod (2 * d + us) (2 * us) ltac:(lia)) as E.
  pose proof (Z.mod_pos_bound (2 * d + us) (2 * us) ltac:(lia)) as B.
  set (q := (2 * d + us) / (2 * us)) in *. set (r := (2 * d + us) mod (2 * us)) in *.
  assert (0 <= q) by (apply Z.div_pos; lia).
  nia.
Qed.

Lemma near_even_spec : forall d us, 0 < us -> 0 <= d ->
  0 <= div_near_even d us /\ 2 * (us * div_near_even d us - d) <= us /\ - us <= 2 * (us * div_near_even d us - d).
Proof.
  intros d us Hus Hd. unfold div_near_even, is_tie.
  pose proof (near_up_spec d us Hus Hd) as (H0 & H1 & H2).
  destruct (((2 * d + us) mod (2 * us) =? 0) && Z.odd (div_near_up d us)) eqn:E.
  - apply andb_prop in E. destruct E as [E1 E2].
    apply Z.eqb_eq in E1. unfold div_near_up in *.
    pose proof (Z.div_mod (2 * d + us) (2 * us) ltac:(lia)) as E.
    rewrite E1 in E. set (q := (2 * d + us) / (2 * us)) in *.
    assert (q <> 0) by (intro Hq; rewrite Hq in E2; discriminate).
    nia.
  - lia.
Qed.

Lemma near_even_le_up : forall d us, div_near_even d us <= div_near_up d us.
Proof.
  intros. unfold div_near_even. destruct (is_tie d us && Z.odd (div_near_up d us)); lia.
Qed.

Lemma near_up_mono : forall d d' us, 0 < us -> d <= d' -> div_near_up d us <= div_near_up d' us.
Proof. intros. unfold div_near_up. apply Z.div_le_mono; lia. Qed.

Lemma near_up_le : forall d us m, 0 < us -> 0 <= d -> d <= us * m -> div_near_up d us <= m.
Proof.
  intros d us m Hus Hd H. unfold div_near_up.
  assert ((2 * d + us) / (2 * us) < m + 1); [|lia].
  apply Z.div_lt_upper_bound; nia.
Qed.

Lemma near_up_exact : forall us m, 0 < us -> 0 <= m -> div_near_up (us * m) us = m.
Proof.
  intros. unfold div_near_up.
  symmetry. apply (Z.div_unique _ _ m us); lia.
Qed.

Lemma near_even_exact : forall us m, 0 < us -> 0 <= m -> div_near_even (us * m) us = m.
Proof.
  intros. unfold div_near_even, is_tie.
  assert ((2 * (us * m) + us) mod (2 * us) = us) as ->.
  { symmetry. apply (Z.mod_unique _ _ m us); lia. }
  replace (us =? 0) with false by lia. cbn [andb]. apply near_up_exact; auto.
Qed.

(** * time -> tick *)
Lemma ttt_in_upper : forall u0 l, 0 < u0 -> wf l -> forall k t,
  hd_tick l <= k -> t <= tt u0 l k -> ttt_in u0 l t <= k.
Proof.
  induction l as [|[k0 us0] l IH]; cbn [ttt_in tt wf hd_tick]; intros Hu Hwf k t Hk Ht.
  - destruct (0 <? t) eqn:E; [|lia]. apply near_up_le; lia.
  - destruct Hwf as (Hus & Hhd & Hwf).
    replace (k0 <=? k) with true in Ht by lia.
    destruct (tt u0 l k0 <? t) eqn:E.
    + assert (div_near_up (t - tt u0 l k0) us0 <= k - k0); [|lia].
      apply near_up_le; lia.
    + assert (ttt_in u0 l t <= k0); [|lia]. apply IH; auto; lia.
Qed.

Lemma ttt_in_nonneg : forall u0 l, 0 < u0 -> wf l -> forall t, 0 <= ttt_in u0 l t.
Proof.
  induction l as [|[k0 us0] l IH]; cbn [ttt_in wf]; intros Hu Hwf t.
  - destruct (0 <? t) eqn:E; [|lia]. apply near_up_spec; lia.
  - destruct Hwf as (Hus & Hhd & Hwf). pose proof (wf_hd_nonneg l Hwf).
    destruct (tt u0 l k0 <? t) eqn:E; [|auto].
    pose proof (near_up_spec (t - tt u0 l k0) us0 Hus ltac:(lia)). lia.
Qed.

Lemma ttt_in_mono : forall u0 l, 0 < u0 -> wf l -> forall t t', t <= t' -> ttt_in u0 l t <= ttt_in u0 l t'.
Proof.
  induction l as [|[k0 us0] l IH]; cbn [ttt_in wf]; intros Hu Hwf t t' Ht.
  - destruct (0 <? t) eqn:E1; destruct (0 <? t') eqn:E2; try lia.
    + apply near_up_mono; lia.
    + apply near_up_spec; lia.
  - destruct Hwf as (Hus & Hhd & Hwf).
    destruct (tt u0 l k0 <? t) eqn:E1; destruct (tt u0 l k0 <? t') eqn:E2; try lia.
    + pose proof (near_up_mono (t - tt u0 l k0) (t' - tt u0 l k0) us0 Hus ltac:(lia)). lia.
    + pose proof (ttt_in_upper u0 l Hu Hwf k0 t Hhd ltac:(lia)).
      pose proof (near_up_spec (t' - tt u0 l k0) us0 Hus ltac:(lia)). lia.
    + apply IH; auto.
Qed.

Lemma ttt_le_ttt_in : forall u0 l t, ttt u0 l t <= ttt_in u0 l t.
Proof.
  intros. destruct l as [|[k0 us0] l]; cbn [ttt ttt_in].
  - destruct (0 <? t); [apply near_even_le_up | lia].
  - destruct (tt u0 l k0 <? t); [|lia].
    pose proof (near_even_le_up (t - tt u0 l k0) us0). lia.
Qed.

Lemma ttt_nonneg : forall u0 l, 0 < u0 -> wf l -> forall t, 0 <= ttt u0 l t.
Proof.
  intros u0 l Hu Hwf t. destruct l as [|[k0 us0] l]; cbn [ttt].
  - destruct (0 <? t) eqn:E; [|lia]. apply near_even_spec; lia.
  - cbn [wf] in Hwf. destruct Hwf as (Hus & Hhd & Hwf). pose proof (wf_hd_nonneg l Hwf).
    destruct (tt u0 l k0 <? t) eqn:E.
    + pose proof (near_even_spec (t - tt u0 l k0) us0 Hus ltac:(lia)). lia.
    + apply ttt_in_nonneg; auto.
Qed.

(** the tick chosen for a later time is never before the last tempo change:
    this keeps the writer's tick list non-decreasing *)
Lemma ttt_ge_hd : forall u0 l, 0 < u0 -> wf l -> forall k us t1 t,
  k = ttt u0 l t1 -> 0 < us -> t1 <= t -> k <= ttt u0 ((k, us) :: l) t.
Proof.
  intros u0 l Hu Hwf k us t1 t Hk Hus Ht. cbn [ttt].
  destruct (tt u0 l k <? t) eqn:E.
  - pose proof (near_even_spec (t - tt u0 l k) us Hus ltac:(lia)). lia.
  - pose proof (ttt_le_ttt_in u0 l t1). pose proof (ttt_in_mono u0 l Hu Hwf t1 t Ht). lia.
Qed.

(** * time -> tick -> time is within half a tick *)
Definition near_some (u0 : Z) (l : list (Z * Z)) (x t : Z) : Prop :=
  exists us, In us (all_us u0 l) /\ 2 * (x - t) <= us /\ - us <= 2 * (x - t).

Lemma near_some_cons : forall u0 l e x t, near_some u0 l x t -> near_some u0 (e :: l) x t.
Proof.
  intros u0 l e x t (us & Hin & H). exists us. split; [|exact H].
  unfold all_us in *. cbn [map]. destruct Hin; [left; auto | right; right; auto].
Qed.

Lemma ttt_in_near : forall u0 l, 0 < u0 -> wf l -> forall t, 0 <= t ->
  near_some u0 l (tt u0 l (ttt_in u0 l t)) t.
Proof.
  induction l as [|[k0 us0] l IH]; intros Hu Hwf t Ht.
  - cbn [ttt_in tt]. exists u0. split; [left; auto|].
    destruct (0 <? t) eqn:E.
    + pose proof (near_up_spec t u0 Hu Ht). lia.
    + lia.
  - cbn [wf] in Hwf. destruct Hwf as (Hus & Hhd & Hwf). cbn [ttt_in].
    destruct (tt u0 l k0 <? t) eqn:E.
    + pose proof (near_up_spec (t - tt u0 l k0) us0 Hus ltac:(lia)) as (Q0 & Q1 & Q2).
      cbn [tt]. replace (k0 <=? k0 + div_near_up (t - tt u0 l k0) us0) with true by lia.
      exists us0. split; [right; left; auto|].
      replace (k0 + div_near_up (t - tt u0 l k0) us0 - k0) with (div_near_up (t - tt u0 l k0) us0) by lia.
      lia.
    + apply near_some_cons.
      pose proof (ttt_in_upper u0 l Hu Hwf k0 t Hhd ltac:(lia)) as Hup.
      specialize (IH Hu Hwf t Ht).
      cbn [tt]. destruct (k0 <=? ttt_in u0 l t) eqn:E2.
      * assert (ttt_in u0 l t = k0) as Heq by lia. rewrite Heq in *.
        replace (us0 * (k0 - k0)) with 0 by lia. rewrite Z.add_0_r. exact IH.
      * exact IH.
Qed.

Lemma ttt_near : forall u0 l, 0 < u0 -> wf l -> forall t, 0 <= t ->
  near_some u0 l (tt u0 l (ttt u0 l t)) t.
Proof.
  intros u0 l Hu Hwf t Ht. destruct l as [|[k0 us0] l].
  - cbn [ttt tt]. exists u0. split; [left; auto|].
    destruct (0 <? t) eqn:E.
    + pose proof (near_even_spec t u0 Hu Ht). lia.
    + lia.
  - pose proof Hwf as Hwf'. cbn [wf] in Hwf. destruct Hwf as (Hus & Hhd & Hwf). cbn [ttt].
    destruct (tt u0 l k0 <? t) eqn:E.
    + pose proof (near_even_spec (t - tt u0 l k0) us0 Hus ltac:(lia)) as (Q0 & Q1 & Q2).
      cbn [tt]. replace (k0 <=? k0 + div_near_even (t - tt u0 l k0) us0) with true by lia.
      exists us0. split; [right; left; auto|].
      replace (k0 + div_near_even (t - tt u0 l k0) us0 - k0) with (div_near_even (t - tt u0 l k0) us0) by lia.
      lia.
    + pose proof (ttt_in_near u0 ((k0, us0) :: l) Hu Hwf' t Ht) as H.
      cbn [ttt_in] in H. rewrite E in H. exact H.
Qed.

(** * ticks are fixed points of time -> tick *)
Lemma ttt_in_tt : forall u0 l, 0 < u0 -> wf l -> forall k, 0 <= k -> ttt_in u0 l (tt u0 l k) = k.
Proof.
  induction l as [|[k0 us0] l IH]; intros Hu Hwf k Hk.
  - cbn [ttt_in tt]. destruct (0 <? u0 * k) eqn:E.
    + apply near_up_exact; lia.
    + nia.
  - pose proof Hwf as Hwf'. cbn [wf] in Hwf. destruct Hwf as (Hus & Hhd & Hwf).
    cbn [ttt_in tt]. destruct (k0 <=? k) eqn:E1.
    + destruct (tt u0 l k0 <? tt u0 l k0 + us0 * (k - k0)) eqn:E2.
      * replace (tt u0 l k0 + us0 * (k - k0) - tt u0 l k0) with (us0 * (k - k0)) by lia.
        rewrite near_up_exact by lia. lia.
      * assert (k = k0) by nia. subst. replace (us0 * (k0 - k0)) with 0 by lia.
        rewrite Z.add_0_r. apply IH; auto.
    + pose proof (tt_mono u0 l Hu Hwf k k0 ltac:(lia)).
      replace (tt u0 l k0 <? tt u0 l k) with false by lia. apply IH; auto.
Qed.

Lemma ttt_tt : forall u0 l, 0 < u0 -> wf l -> forall k, 0 <= k -> ttt u0 l (tt u0 l k) = k.
Proof.
  intros u0 l Hu Hwf k Hk. destruct l as [|[k0 us0] l].
  - cbn [ttt tt]. destruct (0 <? u0 * k) eqn:E.
    + apply near_even_exact; lia.
    + nia.
  - pose proof (ttt_in_tt u0 ((k0, us0) :: l) Hu Hwf k Hk) as H.
    pose proof Hwf as Hwf'. cbn [wf] in Hwf. destruct Hwf as (Hus & Hhd & Hwf).
    cbn [ttt ttt_in] in *. destruct (tt u0 l k0 <? tt u0 ((k0, us0) :: l) k) eqn:E; [|exact H].
    cbn [tt] in *. destruct (k0 <=? k) eqn:E1.
    + replace (tt u0 l k0 + us0 * (k - k0) - tt u0 l k0) with (us0 * (k - k0)) by lia.
      rewrite near_even_exact; lia.
    + pose proof (tt_mono u0 l Hu Hwf k k0 ltac:(lia)). lia.
Qed.

(** * the loader's view of the written set_tempo events *)
Lemma tt_same_tempo : forall u0 l k0 us k, hd_us u0 l = us -> hd_tick l <= k0 ->
  tt u0 ((k0, us) :: l) k = tt u0 l k.
Proof.
  intros u0 l k0 us k Hus Hhd. cbn [tt]. destruct (k0 <=? k) eqn:E; [|reflexivity].
  destruct l as [|[k1 us1] l]; cbn [hd_us hd_tick tt] in *.
  - subst. lia.
  - subst. replace (k1 <=? k0) with true by lia. replace (k1 <=? k) with true by lia. lia.
Qed.

Definition loaded (u0 : Z) (l : list (Z * Z)) : Z * list (Z * Z) :=
  fold_left load_tempo_step (map (fun e => (fst e, snd e)) (rev l)) (u0, []).

Lemma load_tempos_id : forall u0 l, load_tempos (tempo_events (fun x => x) u0 l) = loaded u0 l.
Proof.
  intros. unfold load_tempos, tempo_events, loaded. cbn [fold_left load_tempo_step].
  replace (0 =? 0) with true by lia. reflexivity.
Qed.

Lemma loaded_cons : forall u0 l e, loaded u0 (e :: l) = load_tempo_step (loaded u0 l) e.
Proof.
  intros. unfold loaded. cbn [rev]. rewrite map_app, fold_left_app. cbn [map fold_left].
  destruct e; reflexivity.
Qed.

Lemma loaded_spec : forall u0 l, 0 < u0 -> wf l ->
  let '(ru0, rl) := loaded u0 l in
  (forall k, 0 <= k -> tt ru0 rl k = tt u0 l k) /\ hd_us ru0 rl = hd_us u0 l /\
  hd_tick rl <= hd_tick l /\ wf rl /\ 0 < ru0.
Proof.
  induction l as [|[k0 us0] l IH]; intros Hu Hwf.
  - unfold loaded. cbn. repeat split; auto; lia.
  - cbn [wf] in Hwf. destruct Hwf as (Hus & Hhd & Hwf).
    rewrite loaded_cons. specialize (IH Hu Hwf).
    destruct (loaded u0 l) as [ru0 rl]. destruct IH as (IH1 & IH2 & IH3 & IH4 & IH5).
    pose proof (wf_hd_nonneg l Hwf) as Hnn.
    unfold load_tempo_step. destruct (k0 =? 0) eqn:E0.
    + assert (k0 = 0) by lia. subst k0.
      repeat split; cbn [hd_us hd_tick wf]; auto; try lia.
      intros k Hk. cbn [tt]. replace (0 <=? k) with true by lia.
      rewrite tt_zero by auto. lia.
    + fold (hd_us ru0 rl). destruct (us0 =? hd_us ru0 rl) eqn:E1.
      * repeat split; auto; cbn [hd_us hd_tick]; try lia.
        intros k Hk. rewrite tt_same_tempo by lia. auto.
      * repeat split; cbn [hd_us hd_tick wf]; auto; try lia.
        intros k Hk. cbn [tt]. destruct (k0 <=? k); rewrite !IH1 by lia; reflexivity.
Qed.

(** With an exact channel the reader's tick -> time function is the writer's. *)
Lemma load_tempos_exact : forall u0 l, 0 < u0 -> wf l ->
  forall k, 0 <= k ->
  tt (fst (load_tempos (tempo_events (fun x => x) u0 l))) (snd (load_tempos (tempo_events (fun x => x) u0 l))) k
  = tt u0 l k.
Proof.
  intros u0 l Hu Hwf k Hk. rewrite load_tempos_id.
  pose proof (loaded_spec u0 l Hu Hwf) as H. destruct (loaded u0 l) as [ru0 rl].
  cbn [fst snd]. apply H; auto.
Qed.

(** * two ticks of real time are enough for distinct ticks *)
Lemma two_ticks_distinct : forall u0 l U, 0 < u0 -> wf l ->
  (forall us, In us (all_us u0 l) -> us <= U) ->
  forall s e, 0 <= s -> s + 2 * U <= e -> ttt u0 l s < ttt u0 l e.
Proof.
  intros u0 l U Hu Hwf HU s e Hs He.
  assert (0 < U) by (specialize (HU u0 (or_introl eq_refl)); lia).
  destruct (ttt_near u0 l Hu Hwf s Hs) as (us1 & I1 & A1 & B1).
  destruct (ttt_near u0 l Hu Hwf e ltac:(lia)) as (us2 & I2 & A2 & B2).
  pose proof (HU us1 I1). pose proof (HU us2 I2).
  apply (tt_inj_lt u0 l Hu Hwf). lia.
Qed.

(** non-overlap in real time is non-overlap in ticks *)
Lemma ttt_mono : forall u0 l, 0 < u0 -> wf l -> forall t t', 0 <= t -> t <= t' -> ttt u0 l t <= ttt u0 l t'.
Proof.
  intros u0 l Hu Hwf t t' H0 Ht. destruct l as [|[k0 us0] l]; cbn [ttt].
  - destruct (0 <? t) eqn:E1; destruct (0 <? t') eqn:E2; try lia.
    + (* half-even is monotone: compare through the nearest-tick bounds *)
      pose proof (near_even_spec t u0 Hu ltac:(lia)) as (A0 & A1 & A2).
      pose proof (near_even_spec t' u0 Hu ltac:(lia)) as (B0 & B1 & B2).
      destruct (Z_le_gt_dec (div_near_even t u0) (div_near_even t' u0)); auto.
      assert (div_near_even t' u0 + 1 <= div_near_even t u0) by lia.
      assert (t = t') by nia. subst. lia.
    + apply near_even_spec; lia.
  - pose proof Hwf as Hwf'. cbn [wf] in Hwf. destruct Hwf as (Hus & Hhd & Hwf).
    destruct (tt u0 l k0 <? t) eqn:E1; destruct (tt u0 l k0 <? t') eqn:E2; try lia.
    + pose proof (near_even_spec (t - tt u0 l k0) us0 Hus ltac:(lia)) as (A0 & A1 & A2).
      pose proof (near_even_spec (t' - tt u0 l k0) us0 Hus ltac:(lia)) as (B0 & B1 & B2).
      destruct (Z_le_gt_dec (div_near_even (t - tt u0 l k0) us0) (div_near_even (t' - tt u0 l k0) us0)); [lia|].
      assert (div_near_even (t' - tt u0 l k0) us0 + 1 <= div_near_even (t - tt u0 l k0) us0) by lia.
      assert (t = t') by nia. subst. lia.
    + pose proof (ttt_in_upper u0 l Hu Hwf k0 t Hhd ltac:(lia)).
      pose proof (near_even_spec (t' - tt u0 l k0) us0 Hus ltac:(lia)). lia.
    + apply ttt_in_mono; auto.
Qed.

Lemma tick_roundtrip : forall u0 l, 0 < u0 -> wf l -> forall t, 0 <= t ->
  0 <= ttt u0 l t /\
  exists us, In us (all_us u0 l) /\
    2 * (tt u0 l (ttt u0 l t) - t) <= us /\ - us <= 2 * (tt u0 l (ttt u0 l t) - t).
Proof. intros u0 l Hu Hwf t Ht. split; [apply ttt_nonneg; auto | apply ttt_near; auto]. Qed.
