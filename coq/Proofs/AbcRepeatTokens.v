(** Proofs/AbcRepeatTokens.v — C04: repeat expansion as one statement over raw
    token lists: for every tune of the strict grammar (supported grammar, every
    note of positive notated length) whose bar / repeat symbols are well nested
    with non-empty repeated bodies ([sp_items] accepts the token list and leaves
    nothing open), if the tune parses, its section groups are exactly the
    notated play counts and [expand] (the model of expand_section_groups) plays
    the sections in the notated order. *)
From Coq Require Import ZArith QArith List Bool Lia Lqa.
From NS Require Import Gen.G04 Model.Abc Proofs.AbcKeys Proofs.AbcPitch Proofs.AbcTime
                       Proofs.AbcBook Proofs.AbcRepeat Proofs.AbcGrammar.
Import ListNotations.
Local Open Scope Z_scope.

(** ** The strict grammar and the notated structure read off the tokens *)
Definition num_pos (l : lenspec) : bool :=
  match ls_num l with Some n => 0 <? n | None => true end.

Definition strict_token (t : token) : bool :=
  token_ok t && match t with TNote _ _ _ len => num_pos len | _ => true end.

Definition strict_line (l : line) : bool :=
  match l with LField f => field_ok f | LMusic ts => forallb strict_token ts end.

Definition strict_tune (ls : list line) : bool := forallb strict_line ls.

Definition sp_item (p : sp) (i : item) : option sp :=
  match i with
  | ITok (TBar lc bl rc) => sp_step p (EBar lc bl rc)
  | ITok (TColons n) => sp_step p (EColons n)
  | ITok (TNote _ _ _ _) => Some (mkSp (segs p) true (opn p) true (anyb p))
  | _ => Some p
  end.

Fixpoint sp_items (p : sp) (is : list item) : option sp :=
  match is with
  | [] => Some p
  | i :: r => match sp_item p i with Some q => sp_items q r | None => None end
  end.

Lemma sp_items_app : forall a b p,
  sp_items p (a ++ b) = match sp_items p a with Some q => sp_items q b | None => None end.
Proof.
  induction a as [|i r IH]; intros b p; cbn [app sp_items]; [reflexivity|].
  destruct (sp_item p i); [apply IH|reflexivity].
Qed.

Local Open Scope Q_scope.

(** ** Positive notated length => the clock strictly advances *)
Lemma pos_note_length : forall u l ln, 0 < u -> len_ok l = true -> num_pos l = true ->
  note_length u l = Ok ln -> 0 < ln.
Proof.
  intros u [num sl den] ln U H NP E. unfold len_ok in H. unfold num_pos in NP. unfold note_length in E.
  cbn [ls_num ls_slashes ls_den] in *.
  destruct num as [n|]; destruct den as [m|].
  - apply Z.ltb_lt in NP. apply andb_prop in H. destruct H as [_ Hk].
    destruct sl as [|k|k]; try discriminate.
    + injection E as <-. rewrite qmul_eq. apply Qmult_lt_0_compat; [assumption|now apply inject_pos].
    + destruct k; try discriminate. cbn [Z.eqb Pos.eqb negb orb] in Hk. apply Z.ltb_lt in Hk.
      replace (m =? 0)%Z with false in E by (symmetry; apply Z.eqb_neq; lia).
      injection E as <-. rewrite qmul_eq. apply Qmult_lt_0_compat; [assumption|now apply qfrac_gt0].
  - apply Z.ltb_lt in NP. destruct sl as [|k|k]; try discriminate.
    + injection E as <-. rewrite qmul_eq. apply Qmult_lt_0_compat; [assumption|now apply inject_pos].
    + destruct k; try discriminate.
      assert (F : 0 < qfrac n 2) by (apply qfrac_gt0; lia).
      set (q := qfrac n 2) in *. clearbody q.
      injection E as <-. rewrite qmul_eq. apply Qmult_lt_0_compat; assumption.
  - destruct sl as [|k|k].
    + injection E as <-. assumption.
    + cbn [Z.eqb orb] in H. apply andb_prop in H. destruct H as [Hk Hm]. apply Z.ltb_lt in Hm.
      destruct k; try discriminate. cbn [Z.eqb Pos.eqb] in E.
      replace (m =? 0)%Z with false in E by (symmetry; apply Z.eqb_neq; lia).
      injection E as <-. rewrite qdiv_eq. unfold Qdiv. apply Qmult_lt_0_compat; [assumption|].
      apply Qinv_lt_0_compat. apply inject_pos. lia.
    + cbn in H. discriminate.
  - destruct sl as [|k|k].
    + injection E as <-. assumption.
    + injection E as <-. rewrite qdiv_eq. unfold Qdiv. apply Qmult_lt_0_compat; [assumption|].
      apply Qinv_lt_0_compat. apply qpow2_pos. lia.
    + cbn in H. discriminate.
Qed.

Lemma seconds_pos : forall qpm ln, 0 < qpm -> 0 < ln -> 0 < note_seconds qpm ln.
Proof.
  intros qpm ln Q L. unfold note_seconds. rewrite !qmul_eq, qdiv_eq. unfold Qdiv, qz.
  apply Qmult_lt_0_compat.
  - apply Qmult_lt_0_compat; [apply inject_pos; lia|]. now apply Qinv_lt_0_compat.
  - apply Qmult_lt_0_compat; [assumption|apply inject_pos; lia].
Qed.

Lemma step_note_advances : forall s a l octs len s', NF s ->
  len_ok len = true -> num_pos len = true ->
  step_note s a l octs len = Ok s' -> cur s < cur s'.
Proof.
  intros s a l octs len s' N LO NP H. unfold step_note in H.
  destruct (note_pitch (kacc s) (bacc s) a l octs) as [[p b']|]; cbn [bind] in H; [|discriminate].
  destruct (unit_len s) as [u|] eqn:U; [|discriminate].
  destruct (note_length u len) as [ln|] eqn:NL; cbn [bind] in H; [|discriminate].
  destruct (qzero (cur_qpm s)); [discriminate|].
  pose proof (pos_note_length u len ln (nf_unit _ N u U) LO NP NL) as PL.
  pose proof (seconds_pos _ _ (nf_qpm _ N) PL) as PS.
  destruct (broken s) as [br|].
  - match type of H with context [apply_broken ?S br] => destruct (apply_broken S br) as [s2|] eqn:B end;
      cbn [bind] in H; [|discriminate].
    injection H as <-. apply apply_broken_frame in B. destruct B as [_ [_ [C _]]].
    cbn [cur set_broken]. rewrite C. cbn [cur set_notes set_cur]. rewrite qadd_eq. lra.
  - injection H as <-. cbn [cur set_notes set_cur]. rewrite qadd_eq. lra.
Qed.

(** ** Section times are strictly increasing and never ahead of the clock *)
Fixpoint all_lt (l : list (Q * Z)) (b : Q) : Prop :=
  match l with [] => True | (t, _) :: r => t < b /\ all_lt r b end.

Fixpoint sdesc (l : list (Q * Z)) : Prop :=
  match l with [] => True | (t, _) :: r => all_lt r t /\ sdesc r end.

Definition TS (s : st) : Prop :=
  sdesc (sects s) /\ forall t i r, sects s = (t, i) :: r -> t <= cur s.

Lemma all_lt_weaken : forall l a b, all_lt l a -> a <= b -> all_lt l b.
Proof.
  induction l as [|[t i] r IH]; intros a b H L; cbn [all_lt] in *; [exact I|].
  destruct H as [H1 H2]. split; [lra|]. eapply IH; eassumption.
Qed.

Lemma TS_same : forall s s', TS s -> sects s' = sects s -> cur s <= cur s' -> TS s'.
Proof.
  intros s s' [A B] E L. split; [now rewrite E|].
  intros t i r X. rewrite E in X. specialize (B _ _ _ X). lra.
Qed.

Lemma TS_add_section : forall s s1 new, TS s -> 0 <= cur s -> add_section s (cur s) = (s1, new) -> TS s1.
Proof.
  intros s s1 new [A B] NN AS.
  destruct (add_section_cases _ _ _ _ AS) as [[F1 _] C]. unfold TS. rewrite F1.
  destruct (sects s) as [|[t0 i0] r0] eqn:E.
  - destruct (qltb 0 (cur s)) eqn:LT.
    + apply qltb_iff in LT. destruct (qeqb 0 (cur s)); destruct C as [C _]; rewrite C; cbn [sdesc all_lt].
      * split; [tauto|]. intros t i r X. injection X as <- _ _. assumption.
      * split; [tauto|]. intros t i r X. injection X as <- _ _. lra.
    + destruct C as [C _]. rewrite C. cbn [sdesc all_lt]. split; [tauto|].
      intros t i r X. injection X as <- _ _. lra.
  - specialize (B _ _ _ eq_refl).
    destruct (qeqb t0 (cur s)) eqn:Q; destruct C as [C _]; rewrite C.
    + split; [assumption|]. intros t i r X. injection X as <- _ _. assumption.
    + assert (LT : t0 < cur s).
      { destruct (Qlt_le_dec t0 (cur s)) as [L|L]; [assumption|].
        assert (X : t0 == cur s) by lra. apply qeqb_iff in X. congruence. }
      cbn [sdesc all_lt] in *. destruct A as [A1 A2]. split.
      * split; [split; [assumption|]|split; assumption]. eapply all_lt_weaken; [exact A1|lra].
      * intros t i r X. injection X as <- _ _. lra.
Qed.

Lemma add_group_prev_sects : forall s n s', add_group_prev s n = Ok s' ->
  sects s' = sects s /\ cur s' = cur s.
Proof.
  intros s n s' H. unfold add_group_prev in H.
  destruct (sects s) as [|x [|[t i] r]] eqn:E; try discriminate. injection H as <-. cbn. now rewrite E.
Qed.

Lemma TS_repeat_common : forall s b f s', TS s -> 0 <= cur s -> repeat_common s b f = Ok s' -> TS s'.
Proof.
  intros s b f s' T NN H. unfold repeat_common in H.
  destruct (match expected s with Some e => _ | None => false end); [discriminate|].
  destruct (add_section s (cur s)) as [s1 new] eqn:AS.
  pose proof (TS_add_section _ _ _ T NN AS) as T1.
  destruct (add_section_cases _ _ _ _ AS) as [[F1 _] _].
  assert (K : forall s2, sects s2 = sects s1 -> cur s2 = cur s1 -> TS (set_expected s2 f)).
  { intros s2 E C. apply (TS_same s1); [assumption|cbn; assumption|cbn; rewrite C; lra]. }
  destruct b as [b|].
  - destruct (qzero (cur s)); [discriminate|].
    destruct (add_group_prev s1 b) as [s2|] eqn:G; cbn [bind] in H; [|discriminate].
    injection H as <-. apply add_group_prev_sects in G. now apply K.
  - destruct new.
    + destruct (qltb 0 (cur s)).
      * destruct (add_group_prev s1 1%Z) as [s2|] eqn:G; cbn [bind] in H; [|discriminate].
        injection H as <-. apply add_group_prev_sects in G. now apply K.
      * cbn [bind] in H. injection H as <-. now apply K.
    + cbn [bind] in H. injection H as <-. now apply K.
Qed.

Lemma TS_set_bacc : forall s b, TS s -> TS (set_bacc s b).
Proof. intros s b T. exact T. Qed.

Lemma TS_step_bar : forall s lc bl rc s', TS s -> 0 <= cur s -> step_bar s lc bl rc = Ok s' -> TS s'.
Proof.
  intros s lc bl rc s' T NN H. unfold step_bar in H.
  destruct ((0 <? lc)%Z || (0 <? rc)%Z).
  - eapply (TS_repeat_common (set_bacc s [])); [exact T|exact NN|exact H].
  - destruct (2 <=? bl)%Z; [|injection H as <-; exact T].
    cbn [expected set_bacc] in H. destruct (expected s); [injection H as <-; exact T|].
    cbn [cur set_bacc] in H. destruct (qltb 0 (cur s)); [|injection H as <-; exact T].
    destruct (add_section (set_bacc s []) (cur s)) as [s1 new] eqn:AS.
    pose proof (TS_add_section (set_bacc s []) _ _ T NN AS) as T1.
    destruct new; [|injection H as <-; exact T1].
    apply add_group_prev_sects in H. destruct H as [E C].
    apply (TS_same s1); [assumption|assumption|rewrite C; lra].
Qed.

Lemma TS_step_colons : forall s n s', TS s -> 0 <= cur s -> step_colons s n = Ok s' -> TS s'.
Proof.
  intros s n s' T NN H. unfold step_colons in H. destruct (negb _); [discriminate|].
  eapply (TS_repeat_common (set_bacc s [])); [exact T|exact NN|exact H].
Qed.

(** ** Generalised advance / no-op steps for the section invariant *)
Lemma inv_advance : forall s p s', Inv s p -> same_sec s s' -> cur s < cur s' ->
  (exists n r, notes s' = n :: r /\ n_end n == cur s') ->
  Inv s' (mkSp (segs p) true (opn p) true (anyb p)).
Proof.
  intros s p s' I [S1 [S2 S3]] D HN.
  assert (NN : 0 <= cur s).
  { destruct (started p) eqn:S.
    - destruct (i_start1 _ _ I S) as [X _]. lra.
    - destruct (i_start0 _ _ I S) as [X _]. lra. }
  constructor; cbn [segs has opn started anyb].
  - rewrite S3. apply (i_exp _ _ I).
  - discriminate.
  - intros _. split; [lra|assumption].
  - intros A. destruct (i_noany _ _ I A) as [E1 [E2 [E3 [E4 E5]]]]. rewrite S1, S2. repeat split; assumption.
  - intros A. destruct (i_any _ _ I A) as [t [r [E1 [E2 [E3 [E4 [E5 [E6 E7]]]]]]]].
    exists t, r. rewrite S1, S2. repeat split; try assumption.
    + intros _. destruct (has p) eqn:H; [specialize (E4 eq_refl)|specialize (E5 eq_refl)]; lra.
    + discriminate.
Qed.

Lemma inv_same : forall s p s', Inv s p -> same_sec s s' -> same_nc s s' -> Inv s' p.
Proof.
  intros s p s' I [S1 [S2 S3]] [N1 N2].
  destruct I. constructor; rewrite ?S1, ?S2, ?S3, ?N1, ?N2; assumption.
Qed.

(** ** One token / line / tune *)
Definition W (s : st) (p : sp) : Prop := NF s /\ Inv s p /\ chain (notes s) (cur s) /\ TS s.

Lemma chain_head : forall s, chain (notes s) (cur s) -> notes s <> [] ->
  exists n r, notes s = n :: r /\ n_end n == cur s.
Proof.
  intros s C NE. destruct (notes s) as [|n r]; [contradiction|]. cbn [chain] in C. exists n, r. tauto.
Qed.

Lemma lift_token : forall s p t s' p',
  W s p -> in_header s = false -> strict_token t = true ->
  step_token s t = Ok s' -> sp_item p (ITok t) = Some p' ->
  W s' p' /\ in_header s' = false.
Proof.
  intros s p t s' p' [N [I [C T]]] IH ST H SP.
  unfold strict_token in ST. apply andb_prop in ST. destruct ST as [OK NP].
  pose proof (good_step_token s t N IH OK) as G. rewrite H in G. cbn [Good] in G. destruct G as [N' IH'].
  assert (C' : chain (notes s') (cur s')) by (apply (step_item_chain s (ITok t)); assumption).
  split; [|assumption]. split; [assumption|].
  destruct t as [a l octs len|lc bl rc|n|gt k|f| |u]; cbn [step_token sp_item] in *.
  - injection SP as <-. cbn [token_ok] in OK. apply andb_prop in OK. destruct OK as [_ LO].
    pose proof (step_note_advances _ _ _ _ _ _ N LO NP H) as ADV.
    pose proof (step_note_sec _ _ _ _ _ _ H) as SS.
    split; [|split; [assumption|]].
    + apply (inv_advance s); try assumption.
      apply chain_head; [assumption|]. apply step_note_frame in H.
      destruct H as [_ [p0 [b0 [_ [_ [n [r [E _]]]]]]]]. rewrite E. discriminate.
    + destruct SS as [S1 _]. apply (TS_same s); [assumption|assumption|lra].
  - destruct (inv_step s p (EBar lc bl rc) p' I SP) as [s2 [E2 I2]]. cbn [sstep] in E2.
    rewrite H in E2. injection E2 as <-.
    split; [assumption|split; [assumption|]]. eapply TS_step_bar; [exact T|exact (nf_cur _ N)|exact H].
  - destruct (inv_step s p (EColons n) p' I SP) as [s2 [E2 I2]]. cbn [sstep] in E2.
    rewrite H in E2. injection E2 as <-.
    split; [assumption|split; [assumption|]]. eapply TS_step_colons; [exact T|exact (nf_cur _ N)|exact H].
  - injection SP as <-. destruct (broken s); [discriminate|]. injection H as <-.
    split; [|split; assumption]. apply (inv_same s); [assumption|repeat split|split; reflexivity].
  - injection SP as <-. pose proof (parse_field_sec _ _ _ H) as SS. pose proof (parse_field_nc _ _ _ H) as NC.
    split; [apply (inv_same s); assumption|split; [assumption|]].
    destruct SS as [S1 _]. destruct NC as [_ N2]. apply (TS_same s); [assumption|assumption|rewrite N2; lra].
  - injection SP as <-. injection H as <-. split; [assumption|split; assumption].
  - destruct u; discriminate.
Qed.

Lemma lift_tokens : forall ts s p s' p',
  W s p -> in_header s = false -> forallb strict_token ts = true ->
  run_items s (map ITok ts) = Ok s' -> sp_items p (map ITok ts) = Some p' ->
  W s' p'.
Proof.
  induction ts as [|t r IH]; intros s p s' p' Wsp H ST R SP; cbn [map run_items sp_items] in *.
  - injection R as <-. injection SP as <-. assumption.
  - cbn [forallb] in ST. apply andb_prop in ST. destruct ST as [S1 S2].
    cbn [step_item] in R. destruct (step_token s t) as [s1|] eqn:E; cbn [bind] in R; [|discriminate].
    destruct (sp_item p (ITok t)) as [q|] eqn:Q; [|discriminate].
    destruct (lift_token _ _ _ _ _ Wsp H S1 E Q) as [W1 H1].
    eapply IH; eassumption.
Qed.

Lemma W_same : forall s p s', W s p -> NF s' -> same_sec s s' -> same_nc s s' -> W s' p.
Proof.
  intros s p s' [N [I [C T]]] N' SS NC. split; [assumption|]. split; [now apply (inv_same s)|].
  destruct NC as [N1 N2]. destruct SS as [S1 _]. split.
  - now rewrite N1, N2.
  - apply (TS_same s); [assumption|assumption|rewrite N2; lra].
Qed.

Lemma sp_items_fields_line : forall p f, sp_items p (flatten_line (LField f)) = Some p.
Proof. reflexivity. Qed.

Lemma lift_line : forall l s p s' p',
  W s p -> strict_line l = true ->
  run_items s (flatten_line l) = Ok s' -> sp_items p (flatten_line l) = Some p' -> W s' p'.
Proof.
  intros l s p s' p' Wsp ST R SP. destruct l as [f|ts]; cbn [flatten_line strict_line] in *.
  - cbn [run_items step_item sp_items sp_item] in *. injection SP as <-.
    destruct (parse_field s f) as [s1|] eqn:E; cbn [bind] in R; [|discriminate]. injection R as <-.
    destruct Wsp as [N R']. pose proof (good_parse_field s f N ST) as G. rewrite E in G. cbn [Good] in G.
    apply (W_same s); [split; assumption|tauto|now apply parse_field_sec in E|now apply parse_field_nc in E].
  - destruct ts as [|t r]; [cbn in *; injection R as <-; injection SP as <-; assumption|].
    change (ILine :: map ITok (t :: r)) with ([ILine] ++ map ITok (t :: r)) in *.
    cbn [app run_items step_item sp_items sp_item] in R, SP.
    destruct Wsp as [N [I [C T]]].
    destruct (if in_header s then do s0 <- set_values_from_header s; Ok (set_in_header s0 false) else Ok s)
      as [s1|] eqn:E1; cbn [bind] in R; [|discriminate].
    assert (X : NF s1 /\ in_header s1 = false /\ same_sec s s1 /\ same_nc s s1).
    { destruct (in_header s) eqn:IH.
      - destruct (set_values_from_header s) as [s0|] eqn:SV; cbn [bind] in E1; [|discriminate].
        injection E1 as <-. pose proof (good_set_values s N) as G. rewrite SV in G. cbn [Good] in G.
        destruct G as [N0 [U0 _]]. split; [|split; [reflexivity|split]].
        + destruct N0. constructor; prjall; try assumption. intros _. assumption.
        + apply set_values_sec in SV. exact SV.
        + apply set_values_nc in SV. exact SV.
      - injection E1 as <-. split; [assumption|]. split; [assumption|]. split; [repeat split|apply same_nc_refl]. }
    destruct X as [N1 [H1 [SS NC]]].
    assert (W1 : W (set_broken s1 None) p).
    { apply (W_same s); [exact (conj N (conj I (conj C T)))| |exact SS|exact NC].
      destruct N1. constructor; prjall; assumption. }
    eapply (lift_tokens (t :: r)); [exact W1|exact H1|exact ST|exact R|exact SP].
Qed.

Lemma lift_lines : forall ls s p s' p',
  W s p -> forallb strict_line ls = true ->
  run_items s (flatten ls) = Ok s' -> sp_items p (flatten ls) = Some p' -> W s' p'.
Proof.
  induction ls as [|l r IH]; intros s p s' p' Wsp ST R SP; cbn [flatten flat_map] in *.
  - cbn in R, SP. injection R as <-. injection SP as <-. assumption.
  - cbn [forallb] in ST. apply andb_prop in ST. destruct ST as [S1 S2].
    rewrite run_items_app in R. rewrite sp_items_app in SP.
    destruct (run_items s (flatten_line l)) as [s1|] eqn:E1; [|discriminate].
    destruct (sp_items p (flatten_line l)) as [q|] eqn:Q1; [|discriminate].
    eapply IH; [eapply lift_line; eassumption|assumption|exact R|exact SP].
Qed.

Lemma W0 : W st0 sp0.
Proof.
  split; [exact st0_NF|]. split; [exact inv0|]. split; [cbn; reflexivity|].
  split; [exact I|]. intros t i r X. discriminate.
Qed.

(** ** End of tune: every remaining section starts before the end of the last note *)
Lemma finalize_sects_lt : forall s s', finalize s = Ok s' -> chain (notes s) (cur s) -> TS s ->
  all_lt (sects s') (cur s).
Proof.
  intros s s' H C [SD HB]. unfold finalize in H.
  destruct (truthy_z (expected s)); [discriminate|].
  destruct (sects s) as [|[t i] rest] eqn:E.
  - cbn [bind] in H. rewrite E in H. injection H as <-. rewrite E. exact I.
  - destruct (notes s) as [|n ns] eqn:N; [discriminate|]. cbn [chain] in C. destruct C as [C1 _].
    cbn [sdesc] in SD. destruct SD as [A1 A2]. specialize (HB _ _ _ eq_refl).
    destruct (qeqb t (n_end n)) eqn:Q; cbn [bind] in H.
    + apply qeqb_iff in Q.
      assert (X : sects s' = rest).
      { cbn [sects set_sects groups] in H.
        destruct rest as [|[t1 i1] r1]; [injection H as <-; reflexivity|].
        destruct (groups s) as [|[g c] gr]; [injection H as <-; reflexivity|].
        destruct (negb (g =? i1)%Z); injection H as <-; reflexivity. }
      rewrite X. eapply all_lt_weaken; [exact A1|lra].
    + assert (LT : t < cur s).
      { destruct (Qlt_le_dec t (cur s)) as [L|L]; [assumption|].
        assert (Y : t == n_end n) by lra. apply qeqb_iff in Y. congruence. }
      assert (X : sects s' = (t, i) :: rest).
      { rewrite E in H. destruct (groups s) as [|[g c] gr]; [injection H as <-; assumption|].
        destruct (negb (g =? i)%Z); injection H as <-; assumption. }
      rewrite X. cbn [all_lt]. split; [assumption|]. eapply all_lt_weaken; [exact A1|lra].
Qed.

Lemma all_lt_in : forall l b x, all_lt l b -> In x l -> fst x < b.
Proof.
  induction l as [|[t i] r IH]; intros b x A I; [destruct I|].
  cbn [all_lt] in A. destruct A as [A1 A2]. destruct I as [<-|I]; [assumption|now apply IH].
Qed.

(** ** expand_section_groups succeeds and plays the groups in order *)
Lemma section_bounds_in : forall l tot id s e, In (id, s, e) (section_bounds l tot) -> In (s, id) l.
Proof.
  induction l as [|[t i] r IH]; intros tot id s e H; cbn [section_bounds] in H; [destruct H|].
  destruct H as [H|H]; [injection H as <- <- _; now left|right; eapply IH; exact H].
Qed.

Lemma section_bounds_ids : forall l tot, map (fun b => fst (fst b)) (section_bounds l tot) = map snd l.
Proof.
  induction l as [|[t i] r IH]; intros tot; cbn [section_bounds map fst snd]; [reflexivity|].
  now rewrite IH.
Qed.

Lemma find_section_found : forall bs id found,
  (found <> None \/ In id (map (fun b => fst (fst b)) bs)) -> find_section id bs found <> None.
Proof.
  induction bs as [|[[i s] e] r IH]; intros id found H; cbn [find_section].
  - destruct H as [H|[]]. assumption.
  - apply IH. cbn [map fst In] in H. destruct (i =? id)%Z eqn:Q.
    + left. discriminate.
    + destruct H as [H|[H|H]]; [now left| |now right].
      apply Z.eqb_neq in Q. now contradiction Q.
Qed.

Lemma concat_ok : forall ns bs ids off,
  (forall i, In i ids -> find_section i bs None <> None) ->
  exists out, concat_sections ns bs ids off = Ok out.
Proof.
  induction ids as [|i r IH]; intros off H; cbn [concat_sections]; [eauto|].
  destruct (find_section i bs None) as [[s e]|] eqn:F; [|now contradiction (H i (or_introl eq_refl))].
  destruct (IH (qadd off (qsub e s))) as [out E]; [intros; apply H; now right|].
  rewrite E. cbn [bind]. eauto.
Qed.

Lemma group_ids_in : forall gs i, In i (group_ids gs) -> exists c, In (i, c) gs.
Proof.
  intros gs i H. unfold group_ids in H. apply in_flat_map in H. destruct H as [[g c] [I R]].
  cbn [fst snd] in R. apply repeat_spec in R. subst. eauto.
Qed.

Lemma expand_ok : forall t,
  t_groups t <> [] ->
  (forall x, In x (t_sects t) -> fst x < t_total t) ->
  (forall g, In g (t_groups t) -> In (fst g) (map snd (t_sects t))) ->
  exists ns, expand t = Ok (group_ids (t_groups t), ns).
Proof.
  intros t NE LT IDS. unfold expand. destruct (t_groups t) as [|g0 gr] eqn:G; [contradiction|].
  assert (X : existsb (fun b => negb (qltb (snd (fst b)) (t_total t)))
                      (section_bounds (t_sects t) (t_total t)) = false).
  { destruct (existsb _ _) eqn:E; [|reflexivity]. apply existsb_exists in E.
    destruct E as [[[id s] e] [I Q]]. cbn [fst snd] in Q. apply section_bounds_in in I.
    specialize (LT _ I). cbn [fst] in LT. apply qltb_iff in LT. rewrite LT in Q. discriminate. }
  rewrite X.
  destruct (concat_ok (t_notes t) (section_bounds (t_sects t) (t_total t)) (group_ids (g0 :: gr)) 0) as [out E].
  - intros i I. apply find_section_found. right. rewrite section_bounds_ids.
    apply group_ids_in in I. destruct I as [c I]. apply (IDS (i, c)). exact I.
  - rewrite E. cbn [bind]. eauto.
Qed.

Lemma gnum_ids : forall cs i c, In (i, c) (gnum cs) -> exists k, (k < length cs)%nat /\ i = Z.of_nat k.
Proof.
  induction cs as [|x r IH]; intros i c H; cbn [gnum] in H; [destruct H|].
  destruct H as [H|H].
  - injection H as <- _. exists (length r). cbn [length]. split; [lia|reflexivity].
  - destruct (IH _ _ H) as [k [L E]]. exists k. cbn [length]. split; [lia|assumption].
Qed.

Lemma desc_in : forall m k, (k <= m)%nat -> In (Z.of_nat k) (desc m).
Proof.
  induction m as [|m IH]; intros k L; cbn [desc].
  - left. f_equal. lia.
  - destruct (Nat.eq_dec k (S m)) as [->|NE]; [now left|right; apply IH; lia].
Qed.

(** ** The theorem over token lists *)
Lemma repeat_expansion_tokens : forall ls p t,
  strict_tune ls = true ->
  sp_items sp0 (flatten ls) = Some p -> opn p = None ->
  parse_tune ls = Ok t ->
  let counts := rev (final_segs p) in
  t_groups t = (if anyb p then numbered 0 counts else []) /\
  exists ns, expand t = Ok ((if anyb p then unroll counts else []), ns).
Proof.
  intros ls p t ST SP O PT counts. unfold parse_tune, parse_items in PT.
  destruct (run_items st0 (flatten ls)) as [s1|] eqn:R; cbn [bind] in PT; [|discriminate].
  pose proof (lift_lines ls st0 sp0 s1 p W0 ST R SP) as W1.
  destruct (if in_header s1 then set_values_from_header s1 else Ok s1) as [s2|] eqn:V; cbn [bind] in PT; [|discriminate].
  assert (W2 : W s2 p).
  { destruct (in_header s1).
    - destruct W1 as [N1 R1]. pose proof (good_set_values s1 N1) as G. rewrite V in G. cbn [Good] in G.
      apply (W_same s1); [exact (conj N1 R1)|tauto|now apply set_values_sec in V|now apply set_values_nc in V].
    - injection V as <-. assumption. }
  destruct W2 as [N2 [I2 [C2 T2]]].
  destruct (finalize s2) as [s3|] eqn:F; cbn [bind] in PT; [|discriminate]. injection PT as <-.
  destruct (inv_finalize s2 p I2 O) as [s' [F' [G [SA SN]]]]. rewrite F in F'. injection F' as <-.
  pose proof (finalize_sects_lt _ _ F C2 T2) as LT.
  pose proof (finalize_nc _ _ F) as [NC1 NC2].
  unfold tune_of. cbn [t_groups]. subst counts.
  destruct (anyb p) eqn:A.
  - split; [rewrite G, rev_gnum; reflexivity|].
    rewrite <- expansion_order, <- G.
    set (t := mkTune _ _ _ _ _ _ _ _).
    change (rev (groups s3)) with (t_groups t).
    assert (NEs : segs p <> []).
    { intro X. destruct (i_any _ _ I2 A) as [_ [_ [_ [_ [_ [_ [_ [E6 _]]]]]]]]. now apply (E6 X). }
    assert (ST1 : started p = true).
    { destruct (i_any _ _ I2 A) as [_ [_ [_ [_ [_ [_ [_ [_ E7]]]]]]]]. now apply E7. }
    destruct (i_start1 _ _ I2 ST1) as [_ [n [r [NN NE]]]].
    apply expand_ok.
    + subst t. cbn [t_groups]. rewrite G. unfold final_segs.
      destruct (has p); [cbn [gnum rev]; intro X; now apply app_eq_nil in X as [_ X]|].
      destruct (segs p) as [|c cs]; [contradiction|]. cbn [gnum rev]. intro X. now apply app_eq_nil in X as [_ X].
    + subst t. cbn [t_sects t_total]. intros x IX. apply in_rev in IX.
      rewrite NC1, NN. rewrite NE. eapply all_lt_in; eassumption.
    + subst t. cbn [t_sects t_groups]. intros g IG. apply in_rev in IG. rewrite G in IG.
      destruct g as [i c]. apply gnum_ids in IG. destruct IG as [k [L ->]]. cbn [fst].
      rewrite map_rev. apply in_rev. rewrite rev_involutive. rewrite (SA eq_refl). apply desc_in. lia.
  - rewrite G. split; [reflexivity|]. unfold expand. cbn [t_groups t_sects rev].
    rewrite (SN eq_refl). cbn [rev map]. eauto.
Qed.

Lemma strict_is_supported : forall ls, strict_tune ls = true -> supported_tune ls = true.
Proof.
  intros ls H. unfold strict_tune, supported_tune in *. rewrite forallb_forall in *. intros l I.
  specialize (H l I). destruct l as [f|ts]; cbn [strict_line line_ok] in *; [assumption|].
  rewrite forallb_forall in *. intros t IT. specialize (H t IT). unfold strict_token in H.
  now apply andb_prop in H as [H _].
Qed.
