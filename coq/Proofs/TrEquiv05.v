(** Proofs/TrEquiv05.v — musicxml_parser.Note.pitch_to_midi_pitch re-translated from its SOURCE on every run
    (Gen/Tr.v; the one-character step names are their code points) equals the hand-written model
    [step_class] / [midi_pitch] of Model/MusicXml.v for every step letter, every alteration and every octave, and
    rejects every other step character. *)
From Coq Require Import ZArith Bool Lia.
From NS Require Import Base.TrTac Gen.Tr Model.MusicXml.
Local Open Scope Z_scope.

(** code point of the step letter with model index i (C D E F G A B = 0..6) *)
Definition step_code (i : Z) : Z :=
  match i with 0 => 67 | 1 => 68 | 2 => 69 | 3 => 70 | 4 => 71 | 5 => 65 | 6 => 66 | _ => 0 end.

Lemma tr_pitch_to_midi_pitch_eq i alter octave : 0 <= i <= 6 ->
  tr_pitch_to_midi_pitch (step_code i) alter octave =
  option_map (fun pc => midi_pitch pc alter octave) (step_class i).
Proof.
  intros H. assert (i = 0 \/ i = 1 \/ i = 2 \/ i = 3 \/ i = 4 \/ i = 5 \/ i = 6) as C by lia.
  destruct C as [->|[->|[->|[->|[->|[->| ->]]]]]];
    (reflexivity || (cbn [step_code step_class option_map]; unfold tr_pitch_to_midi_pitch, midi_pitch; tr_solve)).
Qed.

Lemma tr_pitch_to_midi_pitch_rejects c alter octave :
  ~ (65 <= c <= 71) -> tr_pitch_to_midi_pitch c alter octave = None.
Proof.
  intros H. unfold tr_pitch_to_midi_pitch.
  first [ solve [ cbn zeta;
                  repeat match goal with |- context [?a =? ?b] => destruct (Z.eqb_spec a b); [exfalso; lia|] end;
                  reflexivity ]
        | tr_solve ].
Qed.
