(** Proofs/ExtractSort.v — facts about the stable insertion sort [sort_by] and
    about filtering time-sorted lists. *)
From Coq Require Import ZArith List Bool Lia ZifyBool Permutation Sorted.
From NS Require Import Base.NoteSeq Model.Extract.
Import ListNotations.
Local Open Scope Z_scope.

Section Sort.
Context {A : Type} (key : A -> Z).

Definition sorted_by (l : list A) : Prop := StronglySorted (fun x y => key x <= key y) l.

Lemma insert_by_perm : forall x l, Permutation (insert_by key x l) (x :: l).
Proof.
  induction l as [|y r IH]; cbn [insert_by]; [reflexivity|].
  destruct (key x <=? key y); [reflexivity|].
  rewrite IH. apply perm_swap.
Qed.

Lemma sort_by_perm : forall l, Permutation (sort_by key l) l.
Proof.
  induction l as [|x r IH]; cbn [sort_by]; [reflexivity|].
  rewrite insert_by_perm. now constructor.
Qed.

Lemma insert_by_sorted : forall x l, sorted_by l -> sorted_by (insert_by key x l).
Proof.
  induction l as [|y r IH]; intros S; cbn [insert_by].
  - repeat constructor.
  - destruct (key x <=? key y) eqn:E.
    + constructor; [exact S|]. inversion S; subst. constructor; [lia|].
      eapply Forall_impl; [|eassumption]. cbn; intros; lia.
    + inversion S; subst. constructor; [apply IH; assumption|].
      eapply Permutation_Forall; [symmetry; apply insert_by_perm|].
      constructor; [lia|assumption].
Qed.

Lemma sort_by_sorted : forall l, sorted_by (sort_by key l).
Proof.
  induction l; cbn [sort_by]; [constructor|]. now apply insert_by_sorted.
Qed.

Lemma sort_by_id : forall l, sorted_by l -> sort_by key l = l.
Proof.
  induction l as [|x r IH]; intros S; [reflexivity|].
  inversion S; subst. cbn [sort_by]. rewrite IH by assumption.
  destruct r as [|y r']; [reflexivity|]. cbn [insert_by].
  inversion H2; subst. destruct (key x <=? key y) eqn:E; [reflexivity|lia].
Qed.

Lemma sorted_by_filter : forall p l, sorted_by l -> sorted_by (filter p l).
Proof.
  induction l as [|x r IH]; intros S; cbn [filter]; [constructor|].
  inversion S; subst. destruct (p x); [|apply IH; assumption].
  constructor; [apply IH; assumption|]. rewrite Forall_forall in *. intros y Hy.
  apply filter_In in Hy. apply H2. tauto.
Qed.

Lemma filter_insert_by : forall p x l, sorted_by l ->
  filter p (insert_by key x l) = if p x then insert_by key x (filter p l) else filter p l.
Proof.
  induction l as [|y r IH]; intros S.
  - cbn. destruct (p x); reflexivity.
  - inversion S; subst. cbn [insert_by]. destruct (key x <=? key y) eqn:E.
    + cbn [filter]. destruct (p x) eqn:Px; [|reflexivity].
      destruct (p y) eqn:Py.
      * cbn [insert_by]. rewrite E. reflexivity.
      * (* x goes in front of every kept element: all of them have key >= key y >= key x *)
        assert (G : forall l', Forall (fun z => key x <= key z) l' -> insert_by key x l' = x :: l').
        { intros [|z l'] F; [reflexivity|]. cbn [insert_by]. inversion F; subst.
          destruct (key x <=? key z) eqn:E'; [reflexivity|lia]. }
        rewrite G; [reflexivity|].
        rewrite Forall_forall in *. intros z Hz. apply filter_In in Hz.
        specialize (H2 z (proj1 Hz)). cbn in H2. lia.
    + cbn [filter]. rewrite IH by assumption.
      destruct (p y) eqn:Py; destruct (p x) eqn:Px; try reflexivity.
      cbn [insert_by]. rewrite E. reflexivity.
Qed.

Lemma filter_sort_by : forall p l, filter p (sort_by key l) = sort_by key (filter p l).
Proof.
  induction l as [|x r IH]; [reflexivity|]. cbn [sort_by filter].
  rewrite filter_insert_by by apply sort_by_sorted.
  destruct (p x); cbn [sort_by]; now rewrite IH.
Qed.

Lemma filter_none : forall (p : A -> bool) l, Forall (fun x => p x = false) l -> filter p l = [].
Proof.
  induction l as [|x r IH]; intros F; [reflexivity|]. inversion F; subst.
  cbn [filter]. rewrite H1. now apply IH.
Qed.

Lemma filter_all : forall (p : A -> bool) l, Forall (fun x => p x = true) l -> filter p l = l.
Proof.
  induction l as [|x r IH]; intros F; [reflexivity|]. inversion F; subst.
  cbn [filter]. rewrite H1. f_equal. now apply IH.
Qed.

(** In a time-sorted list, the events up to [c] are the events up to [a]
    followed by those in [(a, c]]. *)
Lemma filter_le_split : forall a c l, sorted_by l -> a <= c ->
  filter (fun e => key e <=? c) l =
  filter (fun e => key e <=? a) l ++ filter (fun e => (a <? key e) && (key e <=? c)) l.
Proof.
  induction l as [|x r IH]; intros S Hac; [reflexivity|].
  inversion S; subst. cbn [filter].
  destruct (key x <=? a) eqn:E1.
  - assert (E2 : (key x <=? c) = true) by lia. rewrite E2.
    assert (E3 : (a <? key x) = false) by lia. rewrite E3. cbn [andb app].
    now rewrite IH.
  - assert (E3 : (a <? key x) = true) by lia. rewrite E3. cbn [andb].
    assert (N : filter (fun e => key e <=? a) r = []).
    { apply filter_none. rewrite Forall_forall in *. intros y Hy. specialize (H2 y Hy). cbn in H2. lia. }
    rewrite N in *. cbn [app] in *. destruct (key x <=? c); now rewrite IH.
Qed.

Lemma sorted_by_app_le : forall l1 l2, sorted_by l1 -> sorted_by l2 ->
  (forall x y, In x l1 -> In y l2 -> key x <= key y) -> sorted_by (l1 ++ l2).
Proof.
  induction l1 as [|x r IH]; intros l2 S1 S2 H; [exact S2|].
  inversion S1; subst. cbn [app]. constructor.
  - apply IH; auto. intros; apply H; [now right|assumption].
  - apply Forall_app. split; [assumption|].
    rewrite Forall_forall. intros y Hy. apply H; [now left|assumption].
Qed.

Lemma sorted_by_perm_eq_filter : forall l, sorted_by l -> forall x, In x l -> True.
Proof. trivial. Qed.

End Sort.

(** [last_opt] *)
Lemma last_some_default {A} : forall (l : list A) (d : option A),
  last (map Some l) d = match last (map Some l) None with Some x => Some x | None => d end.
Proof.
  induction l as [|x r IH]; intros d; [reflexivity|].
  destruct r as [|y r']; [reflexivity|].
  change (last (map Some (x :: y :: r')) d) with (last (map Some (y :: r')) d).
  change (last (map Some (x :: y :: r')) None) with (last (map Some (y :: r')) None).
  apply IH.
Qed.

Lemma last_opt_cons {A} : forall (x : A) l,
  last_opt (x :: l) = match last_opt l with Some y => Some y | None => Some x end.
Proof.
  unfold last_opt. intros x [|y r]; [reflexivity|].
  change (last (map Some (x :: y :: r)) None) with (last (map Some (y :: r)) None).
  destruct (last (map Some (y :: r)) None) eqn:E; [reflexivity|].
  exfalso. clear x. revert y E. induction r as [|z r IH]; intros y E; [discriminate|].
  apply (IH z). exact E.
Qed.

Lemma last_opt_app {A} : forall (l1 l2 : list A),
  last_opt (l1 ++ l2) = match last_opt l2 with Some x => Some x | None => last_opt l1 end.
Proof.
  induction l1 as [|x r IH]; intros l2.
  - cbn [app]. destruct (last_opt l2); reflexivity.
  - cbn [app]. rewrite !last_opt_cons, IH. destruct (last_opt l2); reflexivity.
Qed.

Lemma last_opt_nil {A} : @last_opt A [] = None.
Proof. reflexivity. Qed.

Lemma last_opt_map {A B} (f : A -> B) : forall l, last_opt (map f l) = option_map f (last_opt l).
Proof.
  induction l as [|x r IH]; [reflexivity|]. cbn [map]. rewrite !last_opt_cons, IH.
  destruct (last_opt r); reflexivity.
Qed.
