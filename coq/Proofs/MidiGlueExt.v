(** Proofs/MidiGlueExt.v — C03 [ext]: (a) the written tempo map does not depend
    on the storage order of the tempos; (b) the property's quantifier (notes at
    least two ticks long, no two overlapping notes of one pitch on one
    instrument) implies the precondition [chan_pre] under which the idealised
    channel is claimed to describe pretty_midi's note-on/note-off pairing. *)
From Coq Require Import ZArith List Bool Lia ZifyBool Permutation.
From NS Require Import Base.NoteSeq Gen.G03 Model.TempoMap Model.MidiGlue Proofs.TempoMap Proofs.MidiGlue.
Import ListNotations.
Local Open Scope Z_scope.

(** * (a) storage order of tempos *)
Fixpoint ssorted (l : list tempo) : Prop :=
  match l with
  | [] => True
  | a :: r => (forall x, In x r -> tp_time a < tp_time x) /\ ssorted r
  end.

Lemma tmins_ssorted : forall x l, ssorted l -> (forall y, In y l -> tp_time y <> tp_time x) -> ssorted (tmins x l).
Proof.
  induction l as [|y r IH]; intros Hs Hne; cbn [tmins ssorted] in *; [split; [intros ? []|exact I]|].
  destruct Hs as [H1 H2]. destruct (tp_time x <=? tp_time y) eqn:E; cbn [ssorted].
  - assert (tp_time y <> tp_time x) by (apply Hne; left; reflexivity).
    split; [|split; auto]. intros z [<-|Hz]; [lia|]. specialize (H1 z Hz). lia.
  - split.
    + intros z Hz. apply tmins_in in Hz. destruct Hz as [->|Hz]; [lia | apply H1; exact Hz].
    + apply IH; auto. intros z Hz. apply Hne. right. exact Hz.
Qed.

Lemma sort_tempos_ssorted : forall l, NoDup (map tp_time l) -> ssorted (sort_tempos l).
Proof.
  induction l as [|a r IH]; intros Hnd; cbn [sort_tempos fold_right]; [exact I|].
  fold (sort_tempos r). cbn [map] in Hnd. inversion Hnd as [|? ? Ha Hr]; subst.
  apply tmins_ssorted; [apply IH; exact Hr|].
  intros y Hy E. apply (proj1 (sort_tempos_in _ _)) in Hy. apply Ha. rewrite <- E. apply in_map. exact Hy.
Qed.

Lemma tmins_perm : forall x l, Permutation (tmins x l) (x :: l).
Proof.
  induction l as [|y r IH]; cbn [tmins]; [reflexivity|].
  destruct (tp_time x <=? tp_time y); [reflexivity|]. rewrite IH. apply perm_swap.
Qed.

Lemma sort_tempos_perm : forall l, Permutation (sort_tempos l) l.
Proof.
  induction l as [|a r IH]; cbn [sort_tempos fold_right]; [reflexivity|].
  fold (sort_tempos r). rewrite tmins_perm. constructor. exact IH.
Qed.

Lemma ssorted_perm_eq : forall l1 l2, ssorted l1 -> ssorted l2 -> Permutation l1 l2 -> l1 = l2.
Proof.
  induction l1 as [|a r1 IH]; intros l2 H1 H2 HP.
  - apply Permutation_nil in HP. subst. reflexivity.
  - destruct l2 as [|b r2]; [apply Permutation_sym, Permutation_nil in HP; discriminate|].
    cbn [ssorted] in *. destruct H1 as [A1 A2]. destruct H2 as [B1 B2].
    assert (a = b) as ->.
    { assert (In a (b :: r2)) as Ia by (apply (Permutation_in _ HP); left; reflexivity).
      assert (In b (a :: r1)) as Ib by (apply (Permutation_in _ (Permutation_sym HP)); left; reflexivity).
      destruct Ia as [<-|Ia]; [reflexivity|]. destruct Ib as [<-|Ib]; [reflexivity|].
      specialize (A1 b Ib). specialize (B1 a Ia). lia. }
    f_equal. apply IH; auto. apply Permutation_cons_inv in HP. exact HP.
Qed.

Lemma sort_tempos_unique : forall l l', Permutation l l' -> NoDup (map tp_time l) ->
  sort_tempos l = sort_tempos l'.
Proof.
  intros l l' HP Hnd. apply ssorted_perm_eq.
  - apply sort_tempos_ssorted; exact Hnd.
  - apply sort_tempos_ssorted. apply (Permutation_NoDup (Permutation_map tp_time HP)). exact Hnd.
  - rewrite !sort_tempos_perm. exact HP.
Qed.

Lemma find_time0 : forall l t, NoDup (map tp_time l) -> In t l -> tp_time t = 0 ->
  find (fun x => tp_time x =? 0) l = Some t.
Proof.
  induction l as [|a r IH]; intros t Hnd Hin Ht; [contradiction|].
  cbn [find]. cbn [map] in Hnd. inversion Hnd as [|? ? Ha Hr]; subst.
  destruct Hin as [->|Hin].
  - replace (tp_time t =? 0) with true by lia. reflexivity.
  - destruct (tp_time a =? 0) eqn:E.
    + exfalso. apply Ha. replace (tp_time a) with (tp_time t) by lia. apply in_map. exact Hin.
    + apply IH; auto.
Qed.

Lemma initial_tempo_perm : forall l l', Permutation l l' -> NoDup (map tp_time l) ->
  initial_tempo l = initial_tempo l'.
Proof.
  intros l l' HP Hnd. unfold initial_tempo.
  assert (NoDup (map tp_time l')) as Hnd' by (apply (Permutation_NoDup (Permutation_map tp_time HP)); exact Hnd).
  destruct (find (fun x => tp_time x =? 0) l) eqn:E.
  - apply find_some in E. destruct E as [E1 E2]. symmetry. apply find_time0; auto; [|lia].
    apply (Permutation_in _ HP). exact E1.
  - destruct (find (fun x => tp_time x =? 0) l') eqn:E'; [|reflexivity].
    apply find_some in E'. destruct E' as [E1 E2].
    apply (Permutation_in _ (Permutation_sym HP)) in E1.
    pose proof (find_none _ _ E _ E1) as H. cbv beta in H. congruence.
Qed.

Theorem tempo_order_irrelevant : forall s s', Permutation (s_tempos s) (s_tempos s') ->
  NoDup (map tp_time (s_tempos s)) ->
  write_u0 s = write_u0 s' /\ write_scales s = write_scales s'.
Proof.
  intros s s' HP Hnd. unfold write_scales, write_u0.
  rewrite (initial_tempo_perm _ _ HP Hnd), (sort_tempos_unique _ _ HP Hnd). split; reflexivity.
Qed.

(** * (b) the quantifier implies the channel's precondition *)
Fixpoint rt_no_overlap (ns : list note) : bool :=
  match ns with
  | [] => true
  | n :: r =>
      forallb (fun m => negb (key_eqb (note_key m) (note_key n) && (n_pitch m =? n_pitch n)) ||
                        (n_end m <=? n_start n) || (n_end n <=? n_start m)) r
      && rt_no_overlap r
  end.

Definition long_enough (U : Z) (n : note) : bool := (0 <=? n_start n) && (n_start n + 2 * U <=? n_end n).

Definition us_bound (U : Z) (s : seq) : bool :=
  (DEFAULT_US_PER_QUARTER <=? U) && forallb (fun t => tp_qpm t <=? U) (s_tempos s).

Lemma us_bound_all : forall U s, us_bound U s = true ->
  forall us, In us (all_us (write_u0 s) (write_scales s)) -> us <= U.
Proof.
  intros U s H us Hin. unfold us_bound in H. apply andb_prop in H. destruct H as [H1 H2].
  rewrite forallb_forall in H2. apply write_all_us in Hin.
  destruct Hin as [->|(t & Ht & <-)]; [lia|]. specialize (H2 t Ht). lia.
Qed.

Definition mkP (n : note) : pnote := mkPnote (n_vel n) (n_pitch n) (n_start n) (n_end n).

Lemma no_overlap_group : forall u0 l U k, 0 < u0 -> wf l -> 0 <= U -> forall ns,
  forallb (long_enough U) ns = true -> rt_no_overlap ns = true ->
  no_overlap u0 l (map mkP (filter (fun n => key_eqb (note_key n) k) ns)) = true.
Proof.
  intros u0 l U k Hu Hwf HU. induction ns as [|n r IH]; intros Hl Ho; [reflexivity|].
  cbn [forallb rt_no_overlap] in Hl, Ho. apply andb_prop in Hl. destruct Hl as [Hn Hl].
  apply andb_prop in Ho. destruct Ho as [Ho1 Ho2]. specialize (IH Hl Ho2).
  cbn [filter]. destruct (key_eqb (note_key n) k) eqn:Ek; [|exact IH].
  cbn [map no_overlap]. rewrite IH, andb_true_r.
  apply forallb_forall. intros m' Hm'. apply in_map_iff in Hm'. destruct Hm' as (m & <- & Hm).
  apply filter_In in Hm. destruct Hm as [Hm Ekm].
  rewrite forallb_forall in Ho1, Hl. specialize (Ho1 m Hm). specialize (Hl m Hm).
  apply key_eqb_eq in Ek, Ekm. unfold long_enough in *. cbn [mkP pn_pitch pn_start pn_end].
  destruct (n_pitch m =? n_pitch n) eqn:Ep; cbn [negb orb]; [|reflexivity].
  assert (key_eqb (note_key m) (note_key n) = true) as Ekk by (apply key_eqb_eq; congruence).
  rewrite Ekk in Ho1. cbn [andb negb orb] in Ho1.
  destruct (n_end m <=? n_start n) eqn:E1.
  - pose proof (ttt_mono u0 l Hu Hwf (n_end m) (n_start n) ltac:(lia) ltac:(lia)). lia.
  - cbn [orb] in Ho1.
    pose proof (ttt_mono u0 l Hu Hwf (n_end n) (n_start m) ltac:(lia) ltac:(lia)). lia.
Qed.

Lemma ticks_ok_group : forall u0 l U k, 0 < u0 -> wf l ->
  (forall us, In us (all_us u0 l) -> us <= U) -> forall ns,
  forallb (long_enough U) ns = true ->
  forallb (note_ticks_ok u0 l) (map mkP (filter (fun n => key_eqb (note_key n) k) ns)) = true.
Proof.
  intros u0 l U k Hu Hwf HU ns Hl. apply forallb_forall. intros m' Hm'.
  apply in_map_iff in Hm'. destruct Hm' as (m & <- & Hm). apply filter_In in Hm. destruct Hm as [Hm _].
  rewrite forallb_forall in Hl. specialize (Hl m Hm). unfold long_enough in Hl.
  unfold note_ticks_ok. cbn [mkP pn_start pn_end].
  pose proof (two_ticks_distinct u0 l U Hu Hwf HU (n_start m) (n_end m) ltac:(lia) ltac:(lia)). lia.
Qed.

Theorem chan_pre_holds : forall U s, valid s = true -> us_bound U s = true ->
  forallb (long_enough U) (s_notes s) = true -> rt_no_overlap (s_notes s) = true ->
  chan_pre (write s) = true.
Proof.
  intros U s Hv HU Hl Ho.
  pose proof (write_u0_pos s Hv) as Hu. pose proof (write_scales_wf s Hv) as Hwf.
  pose proof (us_bound_all U s HU) as Hall.
  assert (0 <= U) as HU0 by (specialize (Hall _ (or_introl eq_refl)); lia).
  unfold chan_pre, write. cbn [write_gen pm_instrs pm_u0 pm_scales].
  assert (forall k, (forallb (note_ticks_ok (write_u0 s) (write_scales s)) (pi_notes (build s k)) &&
                     no_overlap (write_u0 s) (write_scales s) (pi_notes (build s k))) = true) as Hb.
  { intros k. cbn [build pi_notes]. fold mkP.
    change (fun n => mkPnote (n_vel n) (n_pitch n) (n_start n) (n_end n)) with mkP.
    rewrite (ticks_ok_group _ _ U k Hu Hwf Hall _ Hl), (no_overlap_group _ _ U k Hu Hwf HU0 _ Hl Ho). reflexivity. }
  destruct (write_instrs_spec s) as (ks' & _ & [-> | ->]).
  - cbn [forallb empty_instr pi_notes no_overlap andb]. apply forallb_forall.
    intros i Hi. apply in_map_iff in Hi. destruct Hi as (k & <- & _). apply Hb.
  - apply forallb_forall. intros i Hi. apply in_map_iff in Hi. destruct Hi as (k & <- & _). apply Hb.
Qed.

From NS Require Import Proofs.MidiGlueEx.
Lemma ex_quantifier_ok :
  us_bound 600000 ex_seq = true /\ forallb (long_enough 600000) (s_notes ex_seq) = true /\
  rt_no_overlap (s_notes ex_seq) = true /\ chan_pre (write ex_seq) = true /\
  NoDup (map tp_time (s_tempos ex_seq)).
Proof.
  repeat split; try (vm_compute; reflexivity).
  cbn. repeat constructor; cbn; intuition discriminate.
Qed.
