(** Proofs/KeyMelody.v — KeyMelodyEncoderDecoder (C08): label/decode inverse,
    precedence, label range, generation loop, round trip, input length.
    The label function is the one of the code with notes/C08-fix-1.diff applied. *)
From Coq Require Import ZArith List Bool Lia ZifyBool.
From NS Require Import Gen.G08 Model.EncDec Model.Lookback Model.KeyMelody Proofs.EncDec Proofs.Lookback.
Import ListNotations.
Local Open Scope Z_scope.
Ltac Zify.zify_post_hook ::= Z.to_euclidean_division_equations.

(** The only facts about the regenerated constants the proofs use. *)
Lemma K_specials_distinct : K_NO_EVENT <> K_NOTE_OFF.
Proof. unfold K_NO_EVENT, K_NOTE_OFF. lia. Qed.
Lemma K_no_event_neg : K_NO_EVENT < 0.
Proof. unfold K_NO_EVENT. lia. Qed.
Lemma K_note_off_neg : K_NOTE_OFF < 0.
Proof. unfold K_NOTE_OFF. lia. Qed.
Lemma K_num_special_2 : K_NUM_SPECIAL = 2.
Proof. reflexivity. Qed.

(* a melody event the encoder is meant for: a special event or a pitch in [min_note, max_note) *)
Definition km_valid (min_note note_range a : Z) : bool :=
  (a =? K_NO_EVENT) || (a =? K_NOTE_OFF) || ((min_note <=? a) && (a <? min_note + note_range)).

Lemma Zeqb_spec a b : Z.eqb a b = true <-> a = b.
Proof. apply Z.eqb_eq. Qed.

Section KeyMelody.
  Variable min_note note_range : Z.
  Variable dists : list Z.
  Hypothesis min_note_nonneg : 0 <= min_note.
  Hypothesis dists_pos : Forall (fun d => 1 <= d) dists.

  Let label := km_label min_note note_range dists.
  Let decode := km_decode min_note note_range dists.
  Let valid a := km_valid min_note note_range a = true.

  Definition km_init_cond (a p : Z) : Prop :=
    exists ds' dl, dists = ds' ++ [dl] /\ p < dl /\ a = K_NO_EVENT.

  (* the plain (non-repeat) class of an event *)
  Definition km_plain (a : Z) : Z :=
    if a =? K_NOTE_OFF then note_range + 1 else if a =? K_NO_EVENT then note_range else a - min_note.

  Theorem keymelody_precedence es p a :
    0 <= p -> nth_error es (Z.to_nat p) = Some a ->
    exists l, label es p = Some l /\
      ((km_init_cond a p /\ l = note_range + 2 + zlen dists - 1) \/
       (~ km_init_cond a p /\
        exists r, scan_result Z dists es p r /\
                  match r with Some i => l = note_range + 2 + i | None => l = km_plain a end)).
  Proof.
    intros Hp Ha. unfold label, km_label, km_initial_default.
    set (rest := bind (lb_scan Z Z.eqb (km_rev_enum dists) es p) _).
    destruct (lb_scan_spec Z Z.eqb Zeqb_spec dists es p a dists_pos Hp Ha) as (r & Hr & Hspec).
    assert (Hfin : ~ km_init_cond a p ->
       exists l, rest = Some l /\
                 ((km_init_cond a p /\ l = note_range + 2 + zlen dists - 1) \/
                  (~ km_init_cond a p /\ exists r, scan_result Z dists es p r /\
                     match r with Some i => l = note_range + 2 + i | None => l = km_plain a end))).
    { intros Hni. unfold rest, km_rev_enum. rewrite Hr. cbn [bind]. destruct r as [i|].
      - exists (note_range + 2 + i). split; [reflexivity|]. right. split; [exact Hni|]. exists (Some i). auto.
      - rewrite (py_nth_pos es p), Ha by lia. cbn [bind]. exists (km_plain a). split.
        + unfold km_plain. destruct (a =? K_NOTE_OFF); [reflexivity|]. destruct (a =? K_NO_EVENT); reflexivity.
        + right. split; [exact Hni|]. exists None. auto. }
    clearbody rest.
    destruct (py_nth_m1_cases dists) as [[Hnil Hm1]|(ds' & dl & Hsn & Hm1)]; rewrite Hm1.
    - cbn [bind]. apply Hfin. intros (ds'' & dl' & H & _). rewrite Hnil in H. now destruct ds''.
    - destruct (p <? dl) eqn:Hlt.
      + rewrite (py_nth_pos es p), Ha by lia. cbn [bind].
        destruct (a =? K_NO_EVENT) eqn:Hd.
        * exists (note_range + km_k dists + 1). split; [reflexivity|]. left.
          split; [|unfold km_k; lia]. exists ds', dl. split; [exact Hsn|]. split; lia.
        * apply Hfin. intros (ds'' & dl' & H & _ & Hd'). lia.
      + cbn [bind]. apply Hfin. intros (ds'' & dl' & H & Hlt' & _).
        rewrite Hsn in H. apply app_inj_tail in H. destruct H as [_ <-]. lia.
  Qed.

  Theorem keymelody_decode_label es p a :
    0 <= p -> nth_error es (Z.to_nat p) = Some a -> valid a -> 0 <= note_range ->
    exists l, label es p = Some l /\ 0 <= l < km_num_classes note_range dists /\
              decode l (firstn (Z.to_nat p) es) = Some a.
  Proof.
    intros Hp Ha Hv Hnr.
    destruct (keymelody_precedence es p a Hp Ha) as (l & Hl & Hcases).
    exists l. split; [exact Hl|].
    pose proof (zlen_nonneg dists) as Hk.
    pose proof (nth_error_zlen _ _ _ Ha) as Hplen.
    assert (Hflen : zlen (firstn (Z.to_nat p) es) = p) by (apply zlen_firstn; lia).
    pose proof K_specials_distinct. pose proof K_no_event_neg. pose proof K_note_off_neg.
    unfold decode, km_decode, km_rev_enum, km_num_classes, km_k. rewrite lb_find_spec, K_num_special_2.
    destruct Hcases as [[(ds' & dl & Hsn & Hlt & Hd) Hlv] | [Hni (r & Hspec & Hr)]].
    - assert (Hkk : zlen dists = zlen ds' + 1) by (rewrite Hsn, zlen_app; reflexivity).
      pose proof (zlen_nonneg ds').
      split; [lia|].
      destruct ((note_range + 2 <=? l) && (l <? note_range + 2 + zlen dists)) eqn:?; [|lia].
      replace (Z.to_nat (l - (note_range + 2))) with (length ds') by (unfold zlen in *; lia).
      rewrite Hsn at 1. rewrite nth_error_snoc_last.
      rewrite Hflen. destruct (p <? dl) eqn:?; [|lia]. congruence.
    - destruct r as [i|].
      + cbn in Hspec. destruct Hspec as (Hi & (d & Hd & Hle & Hm) & _). subst l.
        pose proof (nth_error_zlen _ _ _ Hd).
        split; [lia|].
        destruct ((note_range + 2 <=? note_range + 2 + i) && (note_range + 2 + i <? note_range + 2 + zlen dists)) eqn:?; [|lia].
        replace (note_range + 2 + i - (note_range + 2)) with i by lia. rewrite Hd.
        pose proof (Forall_nth_error _ _ _ _ dists_pos Hd) as Hd1. cbn in Hd1.
        rewrite Hflen. destruct (p <? d) eqn:?; [lia|].
        rewrite py_nth_neg by lia. rewrite Hflen.
        rewrite nth_error_firstn by lia. congruence.
      + subst l. unfold valid, km_valid in Hv. unfold km_plain.
        destruct (a =? K_NOTE_OFF) eqn:Hoff.
        * split; [lia|].
          destruct ((note_range + 2 <=? note_range + 1) && _) eqn:?; [lia|].
          destruct (note_range + 1 =? note_range + 1) eqn:?; [|lia]. f_equal; lia.
        * destruct (a =? K_NO_EVENT) eqn:Hnoev.
          -- split; [lia|].
             destruct ((note_range + 2 <=? note_range) && _) eqn:?; [lia|].
             destruct (note_range =? note_range + 1) eqn:?; [lia|].
             destruct (note_range =? note_range) eqn:?; [|lia]. f_equal; lia.
          -- split; [lia|].
             destruct ((note_range + 2 <=? a - min_note) && _) eqn:?; [lia|].
             destruct (a - min_note =? note_range + 1) eqn:?; [lia|].
             destruct (a - min_note =? note_range) eqn:?; [lia|]. f_equal; lia.
  Qed.

  Corollary keymelody_label_range es p a l :
    0 <= p -> nth_error es (Z.to_nat p) = Some a -> valid a -> 0 <= note_range ->
    label es p = Some l -> 0 <= l < km_num_classes note_range dists.
  Proof.
    intros Hp Ha Hv Hnr Hl. destruct (keymelody_decode_label es p a Hp Ha Hv Hnr) as (l' & Hl' & Hr & _).
    unfold label in *. congruence.
  Qed.

  (* every class index decodes against every history (no error branch at all),
     and an in-range index decodes to a valid melody event when the history is valid *)
  Theorem keymelody_decode_total l evs :
    0 <= l < km_num_classes note_range dists -> Forall valid evs ->
    exists e, decode l evs = Some e /\ valid e.
  Proof.
    intros Hl Hev. unfold decode, km_decode, km_rev_enum, km_num_classes, km_k in *.
    rewrite lb_find_spec. rewrite K_num_special_2 in Hl.
    assert (Hv_no : valid K_NO_EVENT).
    { unfold valid, km_valid. rewrite Z.eqb_refl. reflexivity. }
    assert (Hv_off : valid K_NOTE_OFF).
    { unfold valid, km_valid. rewrite Z.eqb_refl. now rewrite orb_true_r. }
    destruct ((note_range + 2 <=? l) && (l <? note_range + 2 + zlen dists)) eqn:Hin.
    - destruct (nth_error dists (Z.to_nat (l - (note_range + 2)))) as [d|] eqn:Hd.
      + pose proof (Forall_nth_error _ _ _ _ dists_pos Hd) as Hd1. cbn in Hd1.
        destruct (zlen evs <? d) eqn:?; [eauto|].
        rewrite py_nth_neg by lia.
        destruct (nth_error evs (Z.to_nat (zlen evs - d))) as [e|] eqn:He.
        * exists e. split; [reflexivity|]. eapply Forall_nth_error; eauto.
        * apply nth_error_None in He. unfold zlen in *. lia.
      + apply nth_error_None in Hd. unfold zlen in *. lia.
    - destruct (l =? note_range + 1) eqn:?; [eauto|].
      destruct (l =? note_range) eqn:?; [eauto|].
      exists (min_note + l). split; [reflexivity|]. unfold valid, km_valid.
      destruct ((min_note <=? min_note + l) && (min_note + l <? min_note + note_range)) eqn:?; [|lia].
      now rewrite orb_true_r.
  Qed.

  Theorem keymelody_default_label evs :
    0 <= note_range ->
    0 <= km_default_label note_range < km_num_classes note_range dists /\
    decode (km_default_label note_range) evs = Some K_NO_EVENT.
  Proof.
    intros Hnr. pose proof (zlen_nonneg dists).
    unfold km_default_label, km_num_classes, km_k, decode, km_decode, km_rev_enum.
    rewrite lb_find_spec, K_num_special_2. split; [lia|].
    destruct ((note_range + 2 <=? note_range) && _) eqn:?; [lia|].
    destruct (note_range =? note_range + 1) eqn:?; [lia|]. now rewrite Z.eqb_refl.
  Qed.

  Variable bits : Z.

  Theorem keymelody_generation_total ls : forall evs,
    Forall (fun l => 0 <= l < km_num_classes note_range dists) ls -> Forall valid evs ->
    exists out, generate decode ls evs = Some out /\ length out = (length evs + length ls)%nat /\
                Forall valid out /\
                ed_num_steps (km min_note note_range dists bits) ls = Some (zlen out - zlen evs).
  Proof.
    induction ls as [|l ls IH]; intros evs Hl Hev.
    - exists evs. cbn. repeat split; auto; try lia. f_equal. unfold zlen; cbn; lia.
    - inversion Hl; subst. destruct (keymelody_decode_total l evs H1 Hev) as (e & He & Hve).
      cbn [generate]. rewrite He. cbn [bind].
      destruct (IH (evs ++ [e]) H2) as (out & Ho & Hlen & Hvo & _).
      { apply Forall_app. split; auto. }
      exists out. split; [exact Ho|]. rewrite app_length in Hlen; cbn in Hlen.
      split; [cbn; lia|]. split; [exact Hvo|].
      cbn. f_equal. unfold zlen. cbn [length]. lia.
  Qed.

  Theorem keymelody_roundtrip es ins labs :
    Forall valid es -> 0 <= note_range ->
    encode (km min_note note_range dists bits) es = Some (ins, labs) ->
    generate decode labs (firstn 1 es) = Some es.
  Proof.
    intros Hv Hnr Henc.
    apply (roundtrip_generic (km min_note note_range dists bits) es ins labs Henc).
    intros p Hp.
    destruct (nth_error es (Z.to_nat p)) as [a|] eqn:Ha.
    2:{ apply nth_error_None in Ha. unfold zlen in *. lia. }
    assert (valid a) as Hva by (eapply Forall_nth_error; eauto).
    destruct (keymelody_decode_label es p a ltac:(lia) Ha Hva Hnr) as (l & Hl & _ & Hd).
    exists l, a. cbn [ed_label ed_decode km]. auto.
  Qed.
End KeyMelody.
