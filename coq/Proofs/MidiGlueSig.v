(** Proofs/MidiGlueSig.v — C03 [ext]: time and key signatures through the round
    trip: the lists read back are the input lists in stable tick order (the
    default 4/4 first when no signature is at time <= 0), times snapped to the
    tick grid, numerator / denominator / key unchanged, mode normalised to
    MAJOR / MINOR. *)
From Coq Require Import ZArith List Bool Lia ZifyBool Permutation.
From NS Require Import Base.NoteSeq Gen.G03 Model.TempoMap Model.MidiGlue Proofs.TempoMap Proofs.MidiGlue.
Import ListNotations.
Local Open Scope Z_scope.

Lemma tins_payload : forall A B (h : A -> B) (x : Z * A) l,
  tins (fst x, h (snd x)) (map (fun e => (fst e, h (snd e))) l) = map (fun e => (fst e, h (snd e))) (tins x l).
Proof.
  induction l as [|y r IH]; cbn [map tins fst]; [reflexivity|].
  destruct (fst x <=? fst y); cbn [map fst snd]; [reflexivity|]. rewrite IH. reflexivity.
Qed.

Lemma tsort_payload : forall A B (h : A -> B) (l : list (Z * A)),
  tsort (map (fun e => (fst e, h (snd e))) l) = map (fun e => (fst e, h (snd e))) (tsort l).
Proof.
  induction l as [|x r IH]; cbn [map tsort fold_right]; [reflexivity|].
  fold (tsort r). fold (tsort (map (fun e => (fst e, h (snd e))) r)). rewrite IH. apply tins_payload.
Qed.

Lemma forallb_map' : forall A B (f : B -> bool) (g : A -> B) l, forallb f (map g l) = forallb (fun x => f (g x)) l.
Proof. induction l as [|a r IH]; cbn [map forallb]; [reflexivity|]. rewrite IH. reflexivity. Qed.

Definition wk (km : Z * Z) : Z := if snd km =? KEY_MODE_MINOR then fst km + MAJOR_TO_MINOR_OFFSET else fst km.

Lemma read_ksigs_map : forall (T : Z -> Z) (L : list (Z * (Z * Z))),
  (forall e, In e L -> 0 <= fst (snd e) <= 11) ->
  read_ksigs (map (fun e => mkPksig (wk (snd e)) (T (fst e))) L) =
  Some (map (fun e => mkKsig (T (fst e)) (fst (snd e)) (norm_mode (snd (snd e)))) L).
Proof.
  induction L as [|[k [key mode]] r IH]; intros H; cbn [map read_ksigs]; [reflexivity|].
  rewrite IH by (intros; apply H; right; auto).
  unfold wk. cbn [fst snd]. rewrite ksig_roundtrip by (apply (H (k, (key, mode))); left; reflexivity).
  reflexivity.
Qed.

Definition tsig_events (s : seq) : list (Z * (Z * Z)) :=
  (if forallb (fun t => 0 <? ts_time t) (s_tsigs s) then [(0, (4, 4))] else []) ++
  map (fun t => (ttt (write_u0 s) (write_scales s) (ts_time t), (ts_num t, ts_den t))) (s_tsigs s).

Definition ksig_events (s : seq) : list (Z * (Z * Z)) :=
  map (fun k => (ttt (write_u0 s) (write_scales s) (ks_time k), (ks_key k, ks_mode k))) (s_ksigs s).

Theorem roundtrip_signatures : forall wr s out, valid s = true -> chan_exact wr s ->
  roundtrip wr s = Some out ->
  s_tsigs out = map (fun e => mkTsig (tt (write_u0 s) (write_scales s) (fst e)) (fst (snd e)) (snd (snd e)))
                    (tsort (tsig_events s)) /\
  s_ksigs out = map (fun e => mkKsig (tt (write_u0 s) (write_scales s) (fst e)) (fst (snd e)) (norm_mode (snd (snd e))))
                    (tsort (ksig_events s)).
Proof.
  intros wr s out Hv Hex Hrt.
  pose proof (write_u0_pos s Hv) as Hu. pose proof (write_scales_wf s Hv) as Hwf.
  unfold roundtrip, pm_roundtrip, write in Hrt.
  cbn [write_gen pm_u0 pm_scales pm_res pm_tsigs pm_ksigs pm_instrs] in Hrt.
  rewrite (tempo_events_exact wr s Hex) in Hrt.
  pose proof (load_tempos_exact (write_u0 s) (write_scales s) Hu Hwf) as Hload.
  rewrite load_tempos_id in *.
  destruct (loaded (write_u0 s) (write_scales s)) as [ru0 rl] eqn:EL. cbn [fst snd] in Hload.
  unfold read in Hrt. cbn [pm_ksigs pm_instrs pm_u0 pm_scales pm_tsigs pm_res] in Hrt.
  (* key signatures *)
  assert (chan_ksigs (write_u0 s) (write_scales s) ru0 rl
            (map (fun k => mkPksig (if ks_mode k =? KEY_MODE_MINOR then ks_key k + MAJOR_TO_MINOR_OFFSET
                                    else ks_key k) (ks_time k)) (s_ksigs s))
          = map (fun e => mkPksig (wk (snd e)) (tt ru0 rl (fst e))) (tsort (ksig_events s))) as HK.
  { unfold chan_ksigs, ksig_events. rewrite map_map. cbn [pks_time pks_key].
    rewrite (map_ext _ (fun k => (fst (ttt (write_u0 s) (write_scales s) (ks_time k), (ks_key k, ks_mode k)),
                                  wk (snd (ttt (write_u0 s) (write_scales s) (ks_time k), (ks_key k, ks_mode k)))))).
    2:{ intros k. reflexivity. }
    rewrite <- (map_map (fun k => (ttt (write_u0 s) (write_scales s) (ks_time k), (ks_key k, ks_mode k)))
                        (fun e => (fst e, wk (snd e)))).
    rewrite tsort_payload, map_map. reflexivity. }
  rewrite HK in Hrt. rewrite read_ksigs_map in Hrt.
  2:{ intros e He. apply (proj1 (tsort_in _ _ _)) in He. unfold ksig_events in He.
      apply in_map_iff in He. destruct He as (k & <- & Hk). cbn [fst snd].
      unfold valid in Hv. apply andb_prop in Hv. destruct Hv as [_ Hv]. rewrite forallb_forall in Hv.
      specialize (Hv k Hk). lia. }
  inversion Hrt as [Hout]. clear Hrt Hout. cbn [s_tsigs s_ksigs].
  assert (forall e, In e (tsort (ksig_events s)) -> 0 <= fst e) as Hk0.
  { intros e He. apply (proj1 (tsort_in _ _ _)) in He. unfold ksig_events in He.
    apply in_map_iff in He. destruct He as (k & <- & _). cbn [fst]. apply ttt_nonneg; auto. }
  assert (forall e, In e (tsort (tsig_events s)) -> 0 <= fst e) as Ht0.
  { intros e He. apply (proj1 (tsort_in _ _ _)) in He. unfold tsig_events in He.
    apply in_app_or in He. destruct He as [He|He].
    - destruct (forallb _ _); [destruct He as [<-|[]]; cbn; lia | contradiction].
    - apply in_map_iff in He. destruct He as (k & <- & _). cbn [fst]. apply ttt_nonneg; auto. }
  split.
  - unfold chan_tsigs. rewrite forallb_map', !map_map. cbn [pts_time pts_num pts_den].
    fold (tsig_events s).
    apply map_ext_in. intros e He. rewrite Hload by (apply Ht0; exact He). reflexivity.
  - apply map_ext_in. intros e He. rewrite Hload by (apply Hk0; exact He). reflexivity.
Qed.
