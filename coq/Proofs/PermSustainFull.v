(** Proofs/PermSustainFull.v — C12 for apply_sustain_control_changes, the full statement:
    same verdict, the same multiset of notes INCLUDING the new end times, the same
    total_time, every other field the same multiset / equal.  Uses C14's refinement
    [sustain_refines_spec] (model = declarative specification), the order independence
    of the specification (PermSustainSpec.v) and the characterisation of total_time
    (PermSustainTotal.v). *)
From Coq Require Import ZArith List Bool Lia Permutation Sorted.
From NS Require Import Base.NoteSeq Model.PermDefs Proofs.PermTools.
From NS Require Import Gen.G14 Model.Sustain Proofs.Sustain Proofs.SustainFrame Proofs.SustainSpec
  Proofs.PermSustain Proofs.PermSustainSpec Proofs.PermSustainTotal.
Import ListNotations.
Local Open Scope Z_scope.

Lemma covered_perm tot ns ns' : Permutation ns ns' -> covered_b tot ns = covered_b tot ns'.
Proof. intros P. unfold covered_b. now apply perm_forallb. Qed.

(** without any assumption on total_time: everything but total_time *)
Theorem perm_sustain_notes ctl s s' : seq_perm s s' ->
  ordered_b (s_notes s) = true -> no_clash (s_notes s) = true ->
  match apply_sustain ctl s, apply_sustain ctl s' with
  | Some r, Some r' => Permutation (s_notes r) (s_notes r') /\
                       seq_perm (without_notes_total r) (without_notes_total r')
  | None, None => True
  | _, _ => False
  end.
Proof.
  intros P Hord Hnc.
  assert (Hord' : ordered_b (s_notes s') = true) by (rewrite <- (ordered_perm _ _ (sp_notes _ _ P)); exact Hord).
  assert (Hnc' : no_clash (s_notes s') = true) by (eapply no_clash_perm; [apply (sp_notes _ _ P)|exact Hnc]).
  pose proof (perm_sustain_partial ctl s s' P Hord Hnc) as Part.
  destruct (apply_sustain ctl s) as [r|] eqn:E1, (apply_sustain ctl s') as [r'|] eqn:E2; try exact Part.
  destruct Part as (O & _ & _). split; [|exact O].
  rewrite (sustain_refines_spec ctl s r Hord Hnc E1), (sustain_refines_spec ctl s' r' Hord' Hnc' E2).
  apply spec_notes_perm; [exact Hnc|exact Hnc'|apply (sp_notes _ _ P)|apply (sp_ccs _ _ P)].
Qed.

(** the full statement; [covered_b]: every note ends by total_time (part of a well-formed sequence) *)
Theorem perm_sustain ctl s s' : seq_perm s s' ->
  ordered_b (s_notes s) = true -> no_clash (s_notes s) = true -> covered_b (s_total s) (s_notes s) = true ->
  opt_rel seq_perm (apply_sustain ctl s) (apply_sustain ctl s').
Proof.
  intros P Hord Hnc Hcov.
  assert (Hord' : ordered_b (s_notes s') = true) by (rewrite <- (ordered_perm _ _ (sp_notes _ _ P)); exact Hord).
  assert (Hnc' : no_clash (s_notes s') = true) by (eapply no_clash_perm; [apply (sp_notes _ _ P)|exact Hnc]).
  assert (Hcov' : covered_b (s_total s') (s_notes s') = true)
    by (rewrite <- (sp_total _ _ P), <- (covered_perm _ _ _ (sp_notes _ _ P)); exact Hcov).
  pose proof (perm_sustain_notes ctl s s' P Hord Hnc) as N.
  destruct (apply_sustain ctl s) as [r|] eqn:E1, (apply_sustain ctl s') as [r'|] eqn:E2; cbn [opt_rel]; try exact N.
  destruct N as (PN & O).
  pose proof (sustain_total_is_max ctl s r Hord Hnc Hcov E1) as T1.
  pose proof (sustain_total_is_max ctl s' r' Hord' Hnc' Hcov' E2) as T2.
  pose proof (sp_total _ _ P) as Etot.
  destruct O as [_ o2 o3 o4 o5 o6 o7 o8 _ o10 o11 o12 o13 o14 o15].
  unfold without_notes_total, with_notes_total in *. cbn in *.
  constructor; try assumption.
  rewrite T1, T2, Etot. unfold max_end_from. now apply perm_fold_right_max.
Qed.
