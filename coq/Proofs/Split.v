(** Proofs/Split.v — the split-point lists of the three splitters: declarative
    characterisation, strict monotonicity, acceptance by [_extract_subsequences]. *)
From Coq Require Import ZArith List Bool Lia ZifyBool Permutation Sorted.
From NS Require Import Base.NoteSeq Gen.G02 Model.Extract Model.Split
     Proofs.ExtractSort Proofs.ExtractWalk Proofs.Extract.
Import ListNotations.
Local Open Scope Z_scope.

(** * The walk over candidate times, shared by the hop/list form and the time-change form *)
Fixpoint cand_walk (dedup skip : bool) (pending crossing : list note) (lastv : Z) (cands : list Z)
  : list Z :=
  match cands with
  | [] => []
  | t :: r =>
      let p := take_started t pending in
      let crossing' := still_sounding t (crossing ++ fst p) in
      let add := (negb dedup || (t >? lastv)) && negb (skip && nonempty crossing') in
      (if add then [t] else [])
      ++ cand_walk dedup skip (snd p) crossing' (if add then t else lastv) r
  end.

(** the same selection with the crossing test as a pure predicate *)
Fixpoint sel (dedup : bool) (ok : Z -> bool) (lastv : Z) (cands : list Z) : list Z :=
  match cands with
  | [] => []
  | t :: r =>
      let add := (negb dedup || (t >? lastv)) && ok t in
      (if add then [t] else []) ++ sel dedup ok (if add then t else lastv) r
  end.

Lemma split_walk_cand : forall skip sts pending crossing lastv,
  split_walk skip pending crossing sts = cand_walk false skip pending crossing lastv sts.
Proof.
  induction sts as [|t r IH]; intros; [reflexivity|].
  cbn [split_walk cand_walk negb orb andb].
  destruct (negb (skip && nonempty _)) eqn:E.
  - apply negb_true_iff in E. rewrite E. f_equal. apply IH.
  - apply negb_false_iff in E. rewrite E. f_equal. apply IH.
Qed.

Lemma tc_walk_cand : forall skip evs st pending crossing lastv,
  tc_walk skip st pending crossing lastv evs =
  cand_walk true skip pending crossing lastv (map tc_time (genuine st evs)).
Proof.
  induction evs as [|c r IH]; intros; [reflexivity|].
  cbn [tc_walk genuine]. destruct (tc_same st c); [apply IH|].
  cbn [map cand_walk negb orb]. f_equal. apply IH.
Qed.

Lemma sel_ext : forall dedup ok ok' cands lastv,
  (forall t, In t cands -> ok t = ok' t) -> sel dedup ok lastv cands = sel dedup ok' lastv cands.
Proof.
  induction cands as [|t r IH]; intros lastv H; [reflexivity|].
  cbn [sel]. rewrite (H t (or_introl eq_refl)). f_equal.
  apply IH. intros; apply H; now right.
Qed.

(** ** [take_started] on a start-sorted list *)
Lemma take_started_spec : forall t pending, sorted_by n_start pending ->
  pending = fst (take_started t pending) ++ snd (take_started t pending) /\
  Forall (fun n => n_start n < t) (fst (take_started t pending)) /\
  Forall (fun n => t <= n_start n) (snd (take_started t pending)) /\
  sorted_by n_start (snd (take_started t pending)).
Proof.
  induction pending as [|n r IH]; intros S.
  - cbn. repeat split; constructor.
  - cbn [take_started]. inversion S; subst. destruct (n_start n <? t) eqn:E.
    + destruct (IH H1) as (E1 & F1 & F2 & S2). cbn [fst snd]. repeat split.
      * cbn [app]. now f_equal.
      * constructor; [lia|assumption].
      * assumption.
      * assumption.
    + cbn [fst snd app]. repeat split; try constructor; try assumption; try lia.
      eapply Forall_impl; [|exact H2]. cbn; intros; lia.
Qed.

Lemma existsb_filter_irrelevant {X} (f g : X -> bool) : forall l,
  (forall x, In x l -> g x = false -> f x = false) -> existsb f (filter g l) = existsb f l.
Proof.
  induction l as [|x r IH]; intros H; [reflexivity|].
  cbn [filter existsb]. destruct (g x) eqn:G.
  - cbn [existsb]. f_equal. apply IH. intros; apply H; [now right|assumption].
  - rewrite (H x (or_introl eq_refl) G). cbn [orb]. apply IH. intros; apply H; [now right|assumption].
Qed.

Lemma existsb_ext_in {X} (f g : X -> bool) : forall l,
  (forall x, In x l -> f x = g x) -> existsb f l = existsb g l.
Proof.
  induction l as [|x r IH]; intros H; [reflexivity|]. cbn [existsb].
  rewrite (H x (or_introl eq_refl)). f_equal. apply IH. intros; apply H; now right.
Qed.

Lemma existsb_false {X} (f : X -> bool) : forall l, Forall (fun x => f x = false) l -> existsb f l = false.
Proof. induction l as [|x r IH]; intros F; [reflexivity|]. inversion F; subst. cbn. rewrite H1. now apply IH. Qed.

Lemma nonempty_existsb {X} (g : X -> bool) : forall l, nonempty (filter g l) = existsb g l.
Proof. induction l as [|x r IH]; [reflexivity|]. cbn [filter existsb]. destruct (g x); [reflexivity|exact IH]. Qed.

Lemma existsb_perm {X} (f : X -> bool) : forall l l', Permutation l l' -> existsb f l = existsb f l'.
Proof.
  induction 1; cbn [existsb]; try congruence.
  destruct (f x), (f y); reflexivity.
Qed.

(** ** the crossing list is exactly "some note sounds across t" *)
Lemma cand_walk_sel : forall dedup skip cands pending crossing lastv,
  zsorted cands -> sorted_by n_start pending ->
  (forall n t, In n crossing -> In t cands -> n_start n < t) ->
  cand_walk dedup skip pending crossing lastv cands =
  sel dedup (split_allowed skip (crossing ++ pending)) lastv cands.
Proof.
  induction cands as [|t r IH]; intros pending crossing lastv Sz Sp Hc; [reflexivity|].
  cbn [cand_walk sel].
  destruct (take_started_spec t pending Sp) as (Ep & F1 & F2 & S2).
  remember (take_started t pending) as p eqn:Heqp. clear Heqp.
  assert (Eapp : crossing ++ pending = (crossing ++ fst p) ++ snd p)
    by (rewrite <- app_assoc, <- Ep; reflexivity).
  assert (Hr : zsorted r) by (inversion Sz; assumption).
  assert (Htr : Forall (Z.le t) r) by (inversion Sz; assumption).
  (* the test at t *)
  assert (Ecross : nonempty (still_sounding t (crossing ++ fst p))
                   = existsb (sounding_at t) (crossing ++ pending)).
  { unfold still_sounding. rewrite nonempty_existsb.
    rewrite Eapp, (existsb_app (sounding_at t) (crossing ++ fst p) (snd p)).
    rewrite (existsb_false (sounding_at t) (snd p))
      by (eapply Forall_impl; [|exact F2]; cbn; intros; unfold sounding_at; lia).
    rewrite orb_false_r. apply existsb_ext_in. intros n Hn. unfold sounding_at.
    apply in_app_or in Hn. destruct Hn as [Hn|Hn].
    - specialize (Hc n t Hn (or_introl eq_refl)). lia.
    - rewrite Forall_forall in F1. specialize (F1 n Hn). cbn in F1. lia. }
  assert (Eal : split_allowed skip (crossing ++ pending) t
                = negb (skip && nonempty (still_sounding t (crossing ++ fst p))))
    by (unfold split_allowed; rewrite Ecross; reflexivity).
  rewrite !Eal.
  set (add := (negb dedup || (t >? lastv)) && negb (skip && nonempty (still_sounding t (crossing ++ fst p)))).
  f_equal.
  rewrite IH; [|assumption|assumption|].
  - apply sel_ext. intros t' Ht'. unfold split_allowed. f_equal. f_equal.
    rewrite Eapp, (existsb_app (sounding_at t') (crossing ++ fst p) (snd p)),
      (existsb_app (sounding_at t') (still_sounding t (crossing ++ fst p)) (snd p)). f_equal.
    unfold still_sounding. apply existsb_filter_irrelevant.
    intros n Hn Hend. rewrite Forall_forall in Htr. specialize (Htr t' Ht').
    unfold sounding_at. lia.
  - intros n t' Hn Ht'. unfold still_sounding in Hn. apply filter_In in Hn. destruct Hn as [Hn _].
    rewrite Forall_forall in Htr. specialize (Htr t' Ht').
    apply in_app_or in Hn. destruct Hn as [Hn|Hn].
    + specialize (Hc n t Hn (or_introl eq_refl)). lia.
    + rewrite Forall_forall in F1. specialize (F1 n Hn). cbn in F1. lia.
Qed.

(** ** the pure selection *)
Lemma sel_false : forall ok cands lastv, sel false ok lastv cands = filter ok cands.
Proof.
  induction cands as [|t r IH]; intros lastv; [reflexivity|].
  cbn [sel filter negb orb andb]. destruct (ok t); cbn [app]; now rewrite IH.
Qed.

Lemma sel_true_spec : forall ok cands lastv,
  strictly_inc (lastv :: sel true ok lastv cands) /\
  (zsorted cands ->
   forall t, In t (sel true ok lastv cands) <-> In t cands /\ lastv < t /\ ok t = true).
Proof.
  unfold strictly_inc. induction cands as [|t r IH]; intros lastv.
  - split; [repeat constructor|]. cbn. intros _ t. tauto.
  - cbn [sel negb orb]. destruct ((t >? lastv) && ok t) eqn:E.
    + destruct (IH t) as [S M]. split.
      * cbn [app]. constructor; [exact S|]. constructor; [lia|].
        inversion S; subst. eapply Forall_impl; [|eassumption]. cbn; intros; lia.
      * intros Sz x. assert (Sr : zsorted r) by (inversion Sz; assumption).
        assert (Ftr : Forall (Z.le t) r) by (inversion Sz; assumption).
        cbn [app In]. rewrite (M Sr x). split.
        -- intros [<-|(H1 & H2 & H3)]; [split; [now left|lia]|]. split; [now right|lia].
        -- intros ([<-|Hx] & H2 & H3); [now left|].
           rewrite Forall_forall in Ftr. specialize (Ftr x Hx).
           destruct (Z.eq_dec t x) as [->|Ne]; [now left|right]. repeat split; [assumption|lia|assumption].
    + destruct (IH lastv) as [S M]. split; [exact S|].
      intros Sz x. assert (Sr : zsorted r) by (inversion Sz; assumption).
      cbn [app In]. rewrite (M Sr x). split.
      * intros (H1 & H2 & H3). repeat split; [now right|assumption|assumption].
      * intros ([<-|Hx] & H2 & H3); [|repeat split; assumption].
        exfalso. assert ((t >? lastv) = true) by lia. rewrite H, H3 in E. discriminate.
Qed.

(** * finish *)
Lemma strictly_inc_last : forall l d x, strictly_inc l -> In x l -> x <= last l d.
Proof.
  unfold strictly_inc. induction l as [|a r IH]; intros d x S Hx; [contradiction|].
  inversion S; subst. destruct r as [|b r'].
  - destruct Hx as [<-|[]]. cbn. lia.
  - change (last (a :: b :: r') d) with (last (b :: r') d). destruct Hx as [<-|Hx].
    + rewrite Forall_forall in H2. pose proof (H2 b (or_introl eq_refl)).
      pose proof (IH d b H1 (or_introl eq_refl)). lia.
    + now apply IH.
Qed.

Lemma strictly_inc_app1 : forall l x, strictly_inc l -> (forall y, In y l -> y < x) -> strictly_inc (l ++ [x]).
Proof.
  unfold strictly_inc. induction l as [|a r IH]; intros x S H; [repeat constructor|].
  inversion S; subst. cbn [app]. constructor.
  - apply IH; [assumption|]. intros; apply H; now right.
  - apply Forall_app. split; [assumption|]. constructor; [|constructor]. apply H. now left.
Qed.

Lemma finish_strict : forall total valid, strictly_inc valid -> strictly_inc (finish total valid).
Proof.
  intros total valid S. unfold finish. destruct (total >? last valid 0) eqn:E; [|exact S].
  apply strictly_inc_app1; [exact S|]. intros y Hy.
  pose proof (strictly_inc_last valid 0 y S Hy). lia.
Qed.

Lemma strictly_inc_zsorted : forall l, strictly_inc l -> zsorted l.
Proof.
  unfold strictly_inc, zsorted. induction l as [|a r IH]; intros S; [constructor|].
  inversion S; subst. constructor; [now apply IH|]. eapply Forall_impl; [|eassumption]. cbn; intros; lia.
Qed.

Lemma strictly_inc_removelast_lt : forall l d, strictly_inc l ->
  Forall (fun t => t < last l d) (removelast l).
Proof.
  unfold strictly_inc. induction l as [|a r IH]; intros d S; [constructor|].
  inversion S; subst. destruct r as [|b r']; [constructor|].
  change (removelast (a :: b :: r')) with (a :: removelast (b :: r')).
  change (last (a :: b :: r') d) with (last (b :: r') d).
  constructor; [|now apply IH].
  rewrite Forall_forall in H2. pose proof (H2 b (or_introl eq_refl)).
  pose proof (strictly_inc_last (b :: r') d b H1 (or_introl eq_refl)). lia.
Qed.

(** the finished list is always accepted by the argument checks of [_extract_subsequences] *)
Lemma finish_extract_ok : forall s valid0,
  is_quantized s = false -> strictly_inc valid0 -> valid0 <> [] ->
  Forall (fun t => t <= s_total s) (tl valid0) ->
  exists ps, extract_valid s (finish (s_total s) valid0) = Ok ps.
Proof.
  intros s valid0 Q S Ne F. unfold extract_valid.
  destruct (1 <? length (finish (s_total s) valid0))%nat eqn:L; [|eauto].
  apply Nat.ltb_lt in L. apply extract_ok_iff. split; [exact Q|]. split; [lia|].
  split; [apply strictly_inc_zsorted, finish_strict, S|].
  unfold finish in *. destruct (s_total s >? last valid0 0) eqn:E.
  - rewrite removelast_last. rewrite Forall_forall. intros y Hy.
    pose proof (strictly_inc_last valid0 0 y S Hy). lia.
  - pose proof (strictly_inc_removelast_lt valid0 0 S) as R.
    destruct valid0 as [|a [|b r]]; [contradiction|cbn in L; lia|].
    assert (Hl : last (a :: b :: r) 0 <= s_total s).
    { cbn [tl] in F. rewrite Forall_forall in F. apply F.
      change (last (a :: b :: r) 0) with (last (b :: r) 0).
      destruct (exists_last (l := b :: r)) as (l' & z & Ez); [discriminate|].
      rewrite Ez, last_last. apply in_or_app. right. now left. }
    rewrite Forall_forall in R. rewrite Forall_forall. intros y Hy. specialize (R y Hy).
    cbv beta in R. lia.
Qed.

(** * split_note_sequence *)
Lemma split_allowed_perm : forall skip l l' t, Permutation l l' ->
  split_allowed skip l t = split_allowed skip l' t.
Proof. intros. unfold split_allowed. now rewrite (existsb_perm _ l l'). Qed.

Theorem hop_valid_spec : forall s sts skip, zsorted sts ->
  hop_valid s sts skip =
  finish (s_total s) (0 :: filter (split_allowed skip (s_notes s)) sts).
Proof.
  intros s sts skip Sz. unfold hop_valid. f_equal. f_equal.
  rewrite (split_walk_cand _ _ _ _ 0), cand_walk_sel, sel_false.
  - apply filter_ext. intros t. cbn [app]. apply split_allowed_perm, sort_by_perm.
  - exact Sz.
  - apply sort_by_sorted.
  - intros n t [].
Qed.

Lemma sorted_id_zsorted : forall l, zsorted (sort_by (fun t => t) l).
Proof. intros. exact (sort_by_sorted (fun t => t) l). Qed.

Theorem split_list_spec : forall s l skip,
  split_list s l skip =
  extract_valid s (finish (s_total s)
                          (0 :: filter (split_allowed skip (s_notes s)) (sort_by (fun t => t) l))).
Proof.
  intros. unfold split_list, split_at. rewrite hop_valid_spec by apply sorted_id_zsorted. reflexivity.
Qed.

(** the hop multiples *)
Lemma arange_In : forall hop total t, 0 < hop ->
  (In t (arange hop total) <-> exists k, 1 <= k /\ t = k * hop /\ t < total).
Proof.
  intros hop total t Hh. unfold arange. destruct (hop <=? 0) eqn:E; [lia|].
  rewrite in_map_iff. split.
  - intros [i [<- Hi]]. apply in_seq in Hi. exists (Z.of_nat i). split; [lia|]. split; [reflexivity|].
    assert (Z.of_nat i <= (total - 1) / hop) by lia.
    assert (Z.of_nat i * hop <= (total - 1) / hop * hop) by nia.
    pose proof (Z.mul_div_le (total - 1) hop Hh). lia.
  - intros [k (Hk & -> & Hlt)]. exists (Z.to_nat k). split; [lia|]. apply in_seq.
    assert (k <= (total - 1) / hop) by (apply Z.div_le_lower_bound; lia).
    lia.
Qed.

Lemma arange_strict : forall hop total, 0 < hop -> strictly_inc (0 :: arange hop total).
Proof.
  intros hop total Hh. unfold arange. destruct (hop <=? 0) eqn:E; [lia|].
  generalize (Z.to_nat ((total - 1) / hop)). intros n.
  assert (G : forall start lo, lo < Z.of_nat start * hop ->
                strictly_inc (lo :: map (fun i => Z.of_nat i * hop) (List.seq start n))).
  { unfold strictly_inc. induction n as [|n IH]; intros start lo Hlo; [repeat constructor|].
    cbn [List.seq map]. constructor.
    - apply IH. nia.
    - constructor; [exact Hlo|]. rewrite Forall_forall. intros x Hx. apply in_map_iff in Hx.
      destruct Hx as [i [<- Hi]]. apply in_seq in Hi. nia. }
  apply G. lia.
Qed.

Lemma strictly_inc_filter : forall p lo l, strictly_inc (lo :: l) -> strictly_inc (lo :: filter p l).
Proof.
  unfold strictly_inc. intros p lo l. revert lo. induction l as [|x r IH]; intros lo S; [exact S|].
  inversion S; subst. inversion H2; subst. cbn [filter]. destruct (p x).
  - constructor.
    + apply IH. exact H1.
    + constructor; [assumption|]. rewrite Forall_forall in *. intros y Hy. apply filter_In in Hy.
      apply H4. tauto.
  - apply IH. inversion H1; subst. constructor; [assumption|]. assumption.
Qed.

Theorem split_hop_spec : forall s hop skip, 0 < hop ->
  let valid := finish (s_total s) (0 :: filter (split_allowed skip (s_notes s)) (arange hop (s_total s))) in
  split_hop s hop skip = extract_valid s valid /\ strictly_inc valid /\
  (is_quantized s = false -> exists ps, split_hop s hop skip = Ok ps).
Proof.
  intros s hop skip Hh valid. unfold split_hop. destruct (hop =? 0) eqn:E; [lia|].
  pose proof (arange_strict hop (s_total s) Hh) as SA.
  assert (V : split_at s (arange hop (s_total s)) skip = extract_valid s valid).
  { unfold split_at. rewrite hop_valid_spec; [reflexivity|].
    apply strictly_inc_zsorted. unfold strictly_inc in *. now inversion SA. }
  assert (SV : strictly_inc (0 :: filter (split_allowed skip (s_notes s)) (arange hop (s_total s))))
    by (apply strictly_inc_filter; exact SA).
  split; [exact V|]. split; [apply finish_strict; exact SV|].
  intros Q. rewrite V. apply finish_extract_ok; [exact Q|exact SV|discriminate|].
  cbn [tl]. rewrite Forall_forall. intros t Ht. apply filter_In in Ht. destruct Ht as [Ht _].
  apply arange_In in Ht; [|exact Hh]. destruct Ht as (k & _ & _ & Hlt). lia.
Qed.

Theorem split_hop_nonpositive : forall s hop skip,
  (hop = 0 -> split_hop s hop skip = Err ErrZeroHop) /\
  (hop < 0 -> split_hop s hop skip = extract_valid s (finish (s_total s) [0])).
Proof.
  intros s hop skip. split; intros H; unfold split_hop.
  - subst. reflexivity.
  - destruct (hop =? 0) eqn:E; [lia|]. unfold split_at, hop_valid, arange.
    destruct (hop <=? 0) eqn:E2; [reflexivity|lia].
Qed.

(** * split_note_sequence_on_time_changes *)
Lemma genuine_incl : forall evs st c, In c (genuine st evs) -> In c evs.
Proof.
  induction evs as [|e r IH]; intros st c H; [contradiction|]. cbn [genuine] in H.
  destruct (tc_same st e); [right; eapply IH; eassumption|].
  destruct H as [<-|H]; [now left|right; eapply IH; eassumption].
Qed.

Lemma genuine_sorted : forall evs st, sorted_by tc_time evs -> zsorted (map tc_time (genuine st evs)).
Proof.
  unfold zsorted. induction evs as [|e r IH]; intros st S; [constructor|].
  inversion S; subst. cbn [genuine]. destruct (tc_same st e); [now apply IH|].
  cbn [map]. constructor; [now apply IH|].
  rewrite Forall_forall in *. intros x Hx. apply in_map_iff in Hx. destruct Hx as [c [<- Hc]].
  apply H2. eapply genuine_incl; eassumption.
Qed.

Lemma tc_events_sorted : forall s, sorted_by tc_time (tc_events s).
Proof. intros. unfold tc_events. apply sorted_by_filter, sort_by_sorted. Qed.

Lemma tc_events_before_total : forall s c, In c (tc_events s) -> tc_time c < s_total s.
Proof. intros s c H. unfold tc_events in H. apply filter_In in H. lia. Qed.

Theorem tc_valid_spec : forall s skip,
  let cands := map tc_time (genuine tc_init (tc_events s)) in
  let pts := sel true (split_allowed skip (s_notes s)) 0 cands in
  tc_valid s skip = finish (s_total s) (0 :: pts) /\
  strictly_inc (0 :: pts) /\
  (forall t, In t pts <-> In t cands /\ 0 < t /\ split_allowed skip (s_notes s) t = true) /\
  strictly_inc (tc_valid s skip) /\
  (is_quantized s = false -> exists ps, split_time_changes s skip = Ok ps).
Proof.
  intros s skip cands pts.
  assert (Sc : zsorted cands) by (apply genuine_sorted, tc_events_sorted).
  assert (V : tc_valid s skip = finish (s_total s) (0 :: pts)).
  { unfold tc_valid. f_equal. f_equal. rewrite tc_walk_cand. fold cands.
    rewrite cand_walk_sel; [|exact Sc|apply sort_by_sorted|intros n t []].
    apply sel_ext. intros t _. cbn [app]. apply split_allowed_perm, sort_by_perm. }
  destruct (sel_true_spec (split_allowed skip (s_notes s)) cands 0) as [S M].
  fold pts in S, M.
  split; [exact V|]. split; [exact S|]. split; [exact (M Sc)|].
  split; [rewrite V; apply finish_strict; exact S|].
  intros Q. unfold split_time_changes. rewrite V.
  apply finish_extract_ok; [exact Q|exact S|discriminate|].
  cbn [tl]. rewrite Forall_forall. intros t Ht. apply (M Sc) in Ht. destruct Ht as (Ht & _).
  unfold cands in Ht. apply in_map_iff in Ht. destruct Ht as [c [<- Hc]].
  apply genuine_incl in Hc. apply tc_events_before_total in Hc. lia.
Qed.

(** * split_note_sequence_on_silence *)
Lemma silence_walk_app : forall gap pre post la,
  silence_walk gap la (pre ++ post) = silence_walk gap la pre ++ silence_walk gap (active la pre) post.
Proof.
  induction pre as [|n r IH]; intros post la; [reflexivity|].
  cbn [app silence_walk]. rewrite IH, <- app_assoc. reflexivity.
Qed.

Theorem silence_walk_In : forall gap l la t,
  In t (silence_walk gap la l) <->
  exists pre n post, l = pre ++ n :: post /\ t = n_start n /\ n_start n > active la pre + gap.
Proof.
  induction l as [|m r IH]; intros la t.
  - cbn. split; [tauto|]. intros (pre & n & post & E & _). destruct pre; discriminate.
  - cbn [silence_walk]. rewrite in_app_iff, IH. split.
    + intros [H|(pre & n & post & E & Et & Hgt)].
      * destruct (n_start m >? la + gap) eqn:G; [|contradiction]. destruct H as [<-|[]].
        exists [], m, r. repeat split. cbn. lia.
      * exists (m :: pre), n, post. subst r. repeat split; [exact Et|exact Hgt].
    + intros ([|m' pre] & n & post & E & Et & Hgt).
      * cbn [app] in E. inversion E; subst. left. cbn [active fold_left] in Hgt.
        destruct (n_start n >? la + gap) eqn:G; [now left|lia].
      * cbn [app] in E. inversion E; subst. right. exists pre, n, post. repeat split. exact Hgt.
Qed.

Lemma active_ge : forall pre la, la <= active la pre.
Proof.
  unfold active. induction pre as [|n r IH]; intros la; cbn [fold_left]; [lia|].
  specialize (IH (Z.max la (n_end n))). lia.
Qed.

Lemma silence_walk_strict : forall gap l la, 0 <= gap ->
  Forall (fun n => n_start n <= n_end n) l -> strictly_inc (la :: silence_walk gap la l).
Proof.
  unfold strictly_inc. induction l as [|n r IH]; intros la Hg F; [repeat constructor|].
  inversion F; subst. cbn [silence_walk].
  specialize (IH (Z.max la (n_end n)) Hg H2). inversion IH; subst.
  destruct (n_start n >? la + gap) eqn:G; cbn [app].
  - constructor.
    + constructor; [assumption|]. eapply Forall_impl; [|eassumption]. cbn; intros; lia.
    + constructor; [lia|]. eapply Forall_impl; [|eassumption]. cbn; intros; lia.
  - constructor; [assumption|]. eapply Forall_impl; [|eassumption]. cbn; intros; lia.
Qed.

Theorem silence_valid_spec : forall s gap,
  0 <= gap -> Forall (fun n => n_start n <= n_end n /\ n_end n <= s_total s) (s_notes s) ->
  strictly_inc (silence_valid s gap) /\
  (is_quantized s = false -> exists ps, split_silence s gap = Ok ps).
Proof.
  intros s gap Hg F.
  assert (Fs : Forall (fun n => n_start n <= n_end n /\ n_end n <= s_total s) (sort_by n_start (s_notes s))).
  { eapply Permutation_Forall; [symmetry; apply sort_by_perm|exact F]. }
  assert (S : strictly_inc (0 :: silence_walk gap 0 (sort_by n_start (s_notes s)))).
  { apply silence_walk_strict; [exact Hg|]. eapply Forall_impl; [|exact Fs]. cbn. tauto. }
  split; [apply finish_strict; exact S|].
  intros Q. unfold split_silence, silence_valid.
  apply finish_extract_ok; [exact Q|exact S|discriminate|].
  cbn [tl]. rewrite Forall_forall. intros t Ht. apply silence_walk_In in Ht.
  destruct Ht as (pre & n & post & E & -> & _).
  rewrite Forall_forall in Fs. destruct (Fs n) as [H1 H2]; [rewrite E; apply in_or_app; right; now left|]. lia.
Qed.

(** * Statement-shaped corollaries (used by Props/C02.v) *)
Theorem tc_valid_points : forall s skip,
  exists pts,
    tc_valid s skip = finish (s_total s) (0 :: pts) /\
    strictly_inc (0 :: pts) /\
    (forall t, In t pts <->
               In t (map tc_time (genuine tc_init (tc_events s))) /\ 0 < t /\
               split_allowed skip (s_notes s) t = true) /\
    strictly_inc (tc_valid s skip) /\
    (is_quantized s = false -> exists ps, split_time_changes s skip = Ok ps).
Proof. intros. eexists. apply tc_valid_spec. Qed.

Theorem tc_candidates_before_total : forall s t,
  In t (map tc_time (genuine tc_init (tc_events s))) -> t < s_total s.
Proof.
  intros s t H. apply in_map_iff in H. destruct H as [c [<- Hc]].
  apply genuine_incl in Hc. now apply tc_events_before_total.
Qed.

Theorem silence_valid_points : forall s gap,
  exists pts,
    silence_valid s gap = finish (s_total s) (0 :: pts) /\
    (forall t, In t pts <->
               exists pre n post, sort_by n_start (s_notes s) = pre ++ n :: post /\
                                  t = n_start n /\ n_start n > active 0 pre + gap).
Proof. intros. eexists. split; [reflexivity|]. intros t. apply silence_walk_In. Qed.

Theorem active_spec : forall pre la,
  la <= active la pre /\ Forall (fun n => n_end n <= active la pre) pre /\
  (active la pre = la \/ exists n, In n pre /\ n_end n = active la pre).
Proof.
  unfold active. induction pre as [|n r IH]; intros la; cbn [fold_left].
  - repeat split; [lia|constructor|now left].
  - destruct (IH (Z.max la (n_end n))) as (H1 & H2 & H3). repeat split.
    + lia.
    + constructor; [lia|exact H2].
    + destruct H3 as [H3|[m [Hm Em]]].
      * destruct (Z.max_spec la (n_end n)) as [[L E]|[L E]].
        -- right. exists n. split; [now left|lia].
        -- left. lia.
      * right. exists m. split; [now right|exact Em].
Qed.

(** * trim_note_sequence *)
Theorem trim_spec : forall s a b,
  (is_quantized s = true -> trim s a b = Err ErrQuantized) /\
  (is_quantized s = false ->
   exists p, trim s a b = Ok p /\
     s_notes p = map (fun n => note_with_times n (n_start n) (Z.min (n_end n) b))
                     (filter (fun n => in_piece a b (n_start n)) (s_notes s)) /\
     s_total p = Z.min (s_total s) b /\
     s_tempos p = s_tempos s /\ s_tsigs p = s_tsigs s /\ s_ksigs p = s_ksigs s /\
     s_texts p = s_texts s /\ s_ccs p = s_ccs s /\ s_bends p = s_bends s /\ s_sects p = s_sects s).
Proof.
  intros s a b. unfold trim. split; intros Q; rewrite Q; [reflexivity|].
  eexists. split; [reflexivity|]. cbn [s_notes s_total s_tempos s_tsigs s_ksigs s_texts s_ccs s_bends s_sects].
  repeat split. f_equal. apply filter_ext. intros n. unfold in_piece. lia.
Qed.

Theorem trim_vs_extract : forall pres s a b p q,
  trim s a b = Ok p -> extract_subsequence pres s a b = Ok q ->
  Permutation (s_notes q)
              (map (fun n => note_with_times n (n_start n - a) (n_end n - a)) (s_notes p)).
Proof.
  intros pres s a b p q Ht He. unfold extract_subsequence in He.
  destruct (extract_subsequences pres s [a; b]) as [ps|e] eqn:E; [|discriminate].
  destruct ps as [|q' ps']; [discriminate|]. inversion He; subst q'.
  pose proof (extract_notes_partition pres s [a; b] (q :: ps') E 0 a b q eq_refl eq_refl) as P.
  rewrite P. unfold trim in Ht. destruct (is_quantized s); [discriminate|]. inversion Ht; subst p.
  cbn [s_notes]. rewrite map_map.
  rewrite (filter_ext (fun n => negb ((n_start n <? a) || (n_start n >=? b)))
                      (fun n => in_piece a b (n_start n))) by (intros; unfold in_piece; lia).
  reflexivity.
Qed.
