(** Proofs/WfExtract.v — C11, the operations modelled in Model/Extract.v and
    Model/Split.v (C02): trim, extract, the four splitters.  Well-formedness of every
    returned piece and "no note invented", as corollaries of the C02 refinement theorems.
    The models and the C02 lemmas are imported read-only. *)
From Coq Require Import ZArith List Bool Lia ZifyBool Permutation Sorted.
From NS Require Import Base.Sx Base.NoteSeq Model.Wf Proofs.WfBase Gen.G02
     Model.Extract Model.Split Proofs.ExtractSort Proofs.ExtractWalk Proofs.Extract Proofs.Split.
Import ListNotations.
Local Open Scope Z_scope.

(** * trim_note_sequence *)
Lemma wf_trim : forall s a b r, 0 <= b -> wf s -> trim s a b = Ok r -> wf r.
Proof.
  intros s a b r Hb (W0 & Wn & W1 & W2 & W3 & W4 & W5 & W6 & W7) H. unfold trim in H.
  destruct (is_quantized s); [discriminate|]. injection H as <-.
  apply wf_intro; cbn [s_total s_notes s_tempos s_tsigs s_ksigs s_texts s_ccs s_bends s_sects]; auto; [lia|].
  apply Forall_forall. intros n' Hn'. apply in_map_iff in Hn'. destruct Hn' as (n & <- & Hn).
  apply filter_In in Hn. destruct Hn as [Hn Hc]. rewrite Forall_forall in Wn. destruct (Wn n Hn) as (A & B & C).
  unfold note_wf. destruct n; unfold note_with_times; cbn in *. lia.
Qed.

Lemma inv_trim : forall s a b r, trim s a b = Ok r ->
  s_notes r = map (fun n => note_with_times n (n_start n) (Z.min (n_end n) b))
                  (filter (fun n => in_piece a b (n_start n)) (s_notes s)).
Proof.
  intros s a b r H. destruct (trim_spec s a b) as [Q1 Q2].
  destruct (is_quantized s) eqn:Q; [rewrite (Q1 eq_refl) in H; discriminate|].
  destruct (Q2 eq_refl) as (p & E & N & _). rewrite H in E. injection E as <-. exact N.
Qed.

(** * _extract_subsequences: every piece *)
Lemma extract_pieces_frame : forall pres s ts p, In p (extract_pieces pres s ts) ->
  s_bends p = [] /\ s_sects p = s_sects s.
Proof.
  intros pres s ts p H. unfold extract_pieces in H. apply in_map_iff in H. destruct H as (i & <- & _).
  split; reflexivity.
Qed.

Lemma max_end_nonneg : forall ns, 0 <= max_end ns.
Proof.
  induction ns as [|n r IH]; [cbn; lia|].
  change (max_end (n :: r)) with (Z.max (n_end n) (max_end r)). lia.
Qed.

Lemma piece_wf : forall pres s ts ps i a b p,
  wf s -> extract_subsequences pres s ts = Ok ps ->
  nth_error (intervals ts) i = Some (a, b) -> nth_error ps i = Some p -> wf p.
Proof.
  intros pres s ts ps i a b p (W0 & Wn & W1 & W2 & W3 & W4 & W5 & W6 & W7) H Hi Hp.
  destruct (extract_refines_spec _ _ _ _ H) as [_ R]. pose proof (R i a b p Hi Hp) as P.
  destruct (extract_events_inside _ _ _ _ H i a b p Hi Hp) as (I1 & I2 & I3 & I4 & I5 & I6 & I7).
  destruct (piece_chords_beats _ _ _ _ _ P) as [Ch Bt].
  destruct P as (N & _ & _ & _ & Tx & _ & Tot & _).
  assert (Fr : s_bends p = [] /\ s_sects p = s_sects s).
  { apply (extract_pieces_frame pres s ts). unfold extract_subsequences in H.
    destruct (is_quantized s); [discriminate|]. destruct (length ts <? 2)%nat; [discriminate|].
    destruct (unsorted ts); [discriminate|]. destruct (past_end (s_total s) ts); [discriminate|].
    injection H as <-. eapply nth_error_In; eauto. }
  destruct Fr as [Fb Fs].
  apply wf_intro.
  - rewrite Tot. apply max_end_nonneg.
  - rewrite Tot. destruct (max_end_spec (s_notes p)) as [ME _].
    apply Forall_forall. intros n' Hn'. rewrite Forall_forall in ME, I7.
    pose proof (ME n' Hn') as E1. destruct (I7 n' Hn') as [E2 E3].
    rewrite N in Hn'. unfold notes_spec in Hn'. apply in_map_iff in Hn'. destruct Hn' as (n & <- & Hn).
    apply filter_In in Hn. destruct Hn as [Hn Hc]. apply (Permutation_in _ (sort_by_perm n_start (s_notes s))) in Hn.
    rewrite Forall_forall in Wn. destruct (Wn n Hn) as (A & B & C).
    unfold note_wf, in_piece in *. destruct n; unfold clipshift, note_with_times in *; cbn in *. lia.
  - eapply Forall_impl; [|exact I1]. cbv beta. intros; lia.
  - eapply Forall_impl; [|exact I2]. cbv beta. intros; lia.
  - eapply Forall_impl; [|exact I3]. cbv beta. intros; lia.
  - rewrite Tx, <- Ch, <- Bt. apply Forall_app. split.
    + eapply Forall_impl; [|exact I4]. cbv beta. intros; lia.
    + eapply Forall_impl; [|exact I5]. cbv beta. intros; lia.
  - eapply Forall_impl; [|exact I6]. cbv beta. intros; lia.
  - rewrite Fb. constructor.
  - rewrite Fs. exact W7.
Qed.

Lemma wf_extract_subsequences : forall pres s ts ps,
  wf s -> extract_subsequences pres s ts = Ok ps -> Forall wf ps.
Proof.
  intros pres s ts ps W H. destruct (extract_refines_spec _ _ _ _ H) as [L _].
  apply Forall_forall. intros p Hp. apply In_nth_error in Hp. destruct Hp as [i Hp].
  assert (Hi : (i < length (intervals ts))%nat) by (rewrite <- L; apply nth_error_Some; congruence).
  destruct (nth_error (intervals ts) i) as [[a b]|] eqn:E; [|apply nth_error_None in E; lia].
  eapply piece_wf; eauto.
Qed.

(** no note invented: every note of every piece is an input note that starts in the
    piece's interval, shifted to the piece's origin and clipped at its end *)
Definition from_piece (n n' : note) : Prop :=
  exists a b, in_piece a b (n_start n) = true /\ n' = clipshift a b n.

Lemma inv_extract_subsequences : forall pres s ts ps,
  extract_subsequences pres s ts = Ok ps ->
  forall p, In p ps -> came_from from_piece (s_notes s) (s_notes p).
Proof.
  intros pres s ts ps H p Hp. destruct (extract_refines_spec _ _ _ _ H) as [L _].
  apply In_nth_error in Hp. destruct Hp as [i Hp].
  assert (Hi : (i < length (intervals ts))%nat) by (rewrite <- L; apply nth_error_Some; congruence).
  destruct (nth_error (intervals ts) i) as [[a b]|] eqn:E; [|apply nth_error_None in E; lia].
  pose proof (extract_notes_partition _ _ _ _ H i a b p E Hp) as Pm.
  intros n' Hn'. apply (Permutation_in _ Pm) in Hn'. apply in_map_iff in Hn'. destruct Hn' as (n & <- & Hn).
  apply filter_In in Hn. exists n. split; [tauto|]. exists a, b. tauto.
Qed.

(** * extract_subsequence *)
Lemma extract_subsequence_inv : forall pres s a b p, extract_subsequence pres s a b = Ok p ->
  exists ps, extract_subsequences pres s [a; b] = Ok ps /\ In p ps.
Proof.
  intros pres s a b p H. unfold extract_subsequence in H.
  destruct (extract_subsequences pres s [a; b]) as [ps|] eqn:E; [|discriminate].
  destruct ps as [|q ps]; [discriminate|]. injection H as <-. exists (q :: ps). split; [reflexivity|now left].
Qed.

Lemma wf_extract_subsequence : forall pres s a b p,
  wf s -> extract_subsequence pres s a b = Ok p -> wf p.
Proof.
  intros pres s a b p W H. destruct (extract_subsequence_inv _ _ _ _ _ H) as (ps & E & Hp).
  pose proof (wf_extract_subsequences _ _ _ _ W E) as F. rewrite Forall_forall in F. auto.
Qed.

Lemma inv_extract_subsequence : forall pres s a b p,
  extract_subsequence pres s a b = Ok p ->
  came_from (fun n n' => in_piece a b (n_start n) = true /\ n' = clipshift a b n) (s_notes s) (s_notes p).
Proof.
  intros pres s a b p H. unfold extract_subsequence in H.
  destruct (extract_subsequences pres s [a; b]) as [ps|] eqn:E; [|discriminate].
  destruct ps as [|q ps]; [discriminate|]. injection H as <-.
  pose proof (extract_notes_partition _ _ _ _ E 0%nat a b q eq_refl eq_refl) as Pm.
  intros n' Hn'. apply (Permutation_in _ Pm) in Hn'. apply in_map_iff in Hn'. destruct Hn' as (n & <- & Hn).
  apply filter_In in Hn. exists n. tauto.
Qed.

(** * The splitters: whatever split points they choose, the pieces come from
    [_extract_subsequences] (or there is no piece at all) *)
Lemma wf_extract_valid : forall s valid ps, wf s -> extract_valid s valid = Ok ps -> Forall wf ps.
Proof.
  intros s valid ps W H. unfold extract_valid in H. destruct (1 <? length valid)%nat.
  - eapply wf_extract_subsequences; eauto.
  - injection H as <-. constructor.
Qed.

Lemma inv_extract_valid : forall s valid ps, extract_valid s valid = Ok ps ->
  forall p, In p ps -> came_from from_piece (s_notes s) (s_notes p).
Proof.
  intros s valid ps H. unfold extract_valid in H. destruct (1 <? length valid)%nat.
  - eapply inv_extract_subsequences; eauto.
  - injection H as <-. intros p [].
Qed.

Lemma wf_split_hop : forall s hop skip ps, wf s -> split_hop s hop skip = Ok ps -> Forall wf ps.
Proof.
  intros s hop skip ps W H. unfold split_hop in H. destruct (hop =? 0); [discriminate|].
  unfold split_at in H. eapply wf_extract_valid; eauto.
Qed.

Lemma wf_split_list : forall s l skip ps, wf s -> split_list s l skip = Ok ps -> Forall wf ps.
Proof. intros s l skip ps W H. unfold split_list, split_at in H. eapply wf_extract_valid; eauto. Qed.

Lemma wf_split_time_changes : forall s skip ps, wf s -> split_time_changes s skip = Ok ps -> Forall wf ps.
Proof. intros s skip ps W H. unfold split_time_changes in H. eapply wf_extract_valid; eauto. Qed.

Lemma wf_split_silence : forall s gap ps, wf s -> split_silence s gap = Ok ps -> Forall wf ps.
Proof. intros s gap ps W H. unfold split_silence in H. eapply wf_extract_valid; eauto. Qed.

Lemma inv_split_hop : forall s hop skip ps, split_hop s hop skip = Ok ps ->
  forall p, In p ps -> came_from from_piece (s_notes s) (s_notes p).
Proof.
  intros s hop skip ps H. unfold split_hop in H. destruct (hop =? 0); [discriminate|].
  unfold split_at in H. eapply inv_extract_valid; eauto.
Qed.

Lemma inv_split_list : forall s l skip ps, split_list s l skip = Ok ps ->
  forall p, In p ps -> came_from from_piece (s_notes s) (s_notes p).
Proof. intros s l skip ps H. unfold split_list, split_at in H. eapply inv_extract_valid; eauto. Qed.

Lemma inv_split_time_changes : forall s skip ps, split_time_changes s skip = Ok ps ->
  forall p, In p ps -> came_from from_piece (s_notes s) (s_notes p).
Proof. intros s skip ps H. unfold split_time_changes in H. eapply inv_extract_valid; eauto. Qed.

Lemma inv_split_silence : forall s gap ps, split_silence s gap = Ok ps ->
  forall p, In p ps -> came_from from_piece (s_notes s) (s_notes p).
Proof. intros s gap ps H. unfold split_silence in H. eapply inv_extract_valid; eauto. Qed.

(** [from_piece] changes only the two times of a note *)
Lemma from_piece_same_but_times : forall n n', from_piece n n' -> same_but_times n n'.
Proof.
  intros n n' (a & b & _ & ->). unfold same_but_times, clipshift. destruct n; reflexivity.
Qed.

(** What [extract_subsequence] returns, as needed by the composed operations
    (expand_section_groups): a well-formed, unquantized piece no longer than its window. *)
Lemma extract_subsequence_piece : forall pres s a b p,
  wf s -> extract_subsequence pres s a b = Ok p ->
  wf p /\ s_spq p = s_spq s /\ s_sps p = s_sps s /\ is_quantized s = false /\ s_total p <= b - a.
Proof.
  intros pres s a b p W H. pose proof (wf_extract_subsequence _ _ _ _ _ W H) as Wp.
  unfold extract_subsequence in H.
  destruct (extract_subsequences pres s [a; b]) as [ps|] eqn:E; [|discriminate].
  destruct ps as [|q ps]; [discriminate|]. injection H as <-.
  assert (Hok : exists ps0, extract_subsequences pres s [a; b] = Ok ps0) by eauto.
  apply extract_ok_iff in Hok. destruct Hok as (Q & _ & So & _).
  assert (Hab : a <= b).
  { inversion So as [|? ? _ F]; subst. inversion F; subst. assumption. }
  destruct (extract_events_inside _ _ _ _ E 0%nat a b q eq_refl eq_refl) as (_ & _ & _ & _ & _ & _ & I7).
  destruct (extract_total_time _ _ _ _ E 0%nat a b q eq_refl eq_refl) as [Tot _].
  assert (Fr : s_spq q = s_spq s /\ s_sps q = s_sps s).
  { unfold extract_subsequences in E.
    destruct (is_quantized s); [discriminate|]. destruct (length [a; b] <? 2)%nat; [discriminate|].
    destruct (unsorted [a; b]); [discriminate|]. destruct (past_end (s_total s) [a; b]); [discriminate|].
    assert (E' : extract_pieces pres s [a; b] = q :: ps) by congruence.
    assert (Hq : In q (extract_pieces pres s [a; b])) by (rewrite E'; now left).
    unfold extract_pieces in Hq. apply in_map_iff in Hq. destruct Hq as (i & <- & _). split; reflexivity. }
  destruct Fr as [F1 F2]. split; [exact Wp|]. split; [exact F1|]. split; [exact F2|]. split; [exact Q|].
  rewrite Tot. destruct (max_end_spec (s_notes q)) as [_ [Z|(n & Hn & <-)]]; [lia|].
  rewrite Forall_forall in I7. apply (I7 n Hn).
Qed.
