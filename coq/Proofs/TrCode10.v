(** Proofs/TrCode10.v — C10's clauses about melodies and the transposition clamp stated DIRECTLY on the Gallina
    re-translated from note_seq's source on every run (Gen/Tr.v). *)
From Coq Require Import ZArith Bool Lia.
From NS Require Import Gen.G10 Gen.Tr Model.Transpose Proofs.Transpose Proofs.TrEquiv10.
Local Open Scope Z_scope.

(** the body of Melody.transpose's loop, as it reads now: special events are left alone; a pitch moves by k and, when
    the range spans an octave, is folded into [min_note, max_note) keeping its pitch class; a pitch that is still
    inside the range after moving is exactly e + k *)
Theorem code_melody_transpose_event k lo hi e :
  exists e', tr_melody_transpose_event k lo hi e = Some e' /\
    (e < 0 -> e' = e) /\
    (0 <= e -> e' mod 12 = (e + k) mod 12) /\
    (0 <= e -> hi - lo >= 12 -> lo <= e' < hi /\ (lo <= e + k < hi -> e' = e + k)).
Proof.
  exists (mel_event k lo hi e). split; [apply tr_melody_transpose_event_eq|].
  split; [apply mel_event_special|]. split; [apply mel_event_pc|].
  intros He Hr. destruct (mel_event_fold k lo hi e He Hr) as (A & _ & C). split; assumption.
Qed.

(** sequences_lib._clamp_transpose as it reads now: the clamped amount keeps the sequence's pitch span inside the
    allowed range whenever the span fits, and never exceeds the requested amount in absolute value *)
Theorem code_clamp_transpose a ns_min ns_max lo hi :
  lo <= ns_min -> ns_max <= hi ->
  exists c, tr_clamp_transpose a ns_min ns_max lo hi = Some c /\
    lo <= ns_min + c /\ ns_max + c <= hi /\ Z.abs c <= Z.abs a /\ (0 <= a -> 0 <= c) /\ (a < 0 -> c <= 0).
Proof.
  intros H1 H2. exists (clamp_transpose a ns_min ns_max lo hi).
  split; [apply tr_clamp_transpose_eq|].
  unfold clamp_transpose. destruct (a <? 0) eqn:E; lia.
Qed.
