(** Proofs/PermExtract.v — C12 for _extract_subsequences and the splitters
    (C02 models): permuting every repeated field of the input permutes, piece by
    piece, every repeated field of the output; the verdict of the argument checks and
    the chosen split points do not depend on the storage order. *)
From Coq Require Import ZArith List Bool Lia Permutation Sorted.
From NS Require Import Base.NoteSeq Model.PermDefs Proofs.PermTools.
From NS Require Import Gen.G02 Model.Extract Model.Split
     Proofs.ExtractSort Proofs.ExtractWalk Proofs.Extract Proofs.Split.
Import ListNotations.
Local Open Scope Z_scope.

Definition extract_rel (a b : res (list seq)) : Prop :=
  match a, b with
  | Ok ps, Ok ps' => Forall2 seq_perm ps ps'
  | Err e, Err e' => e = e'
  | _, _ => False
  end.

(** the model's stable sort is [ksort] *)
Lemma x_insert_by_ksort {A} (key : A -> Z) x l : insert_by key x l = kinsert key x l.
Proof. induction l as [|y r IH]; cbn; [reflexivity|]. now rewrite IH. Qed.
Lemma x_sort_by_ksort {A} (key : A -> Z) l : sort_by key l = ksort key l.
Proof. induction l as [|x r IH]; cbn; [reflexivity|]. now rewrite IH, x_insert_by_ksort. Qed.

Lemma sort_by_perm_invariant {A} (key : A -> Z) l l' :
  Permutation l l' -> distinct_on key l -> sort_by key l = sort_by key l'.
Proof. intros. rewrite !x_sort_by_ksort. now apply ksort_perm_invariant. Qed.

(** * the specification pieces under permutation *)
Lemma state_spec_perm {A} (time : A -> Z) (set_time : A -> Z -> A) a b evs evs' :
  Permutation evs evs' -> distinct_on time evs ->
  state_spec time set_time a b evs = state_spec time set_time a b evs'.
Proof. intros P D. unfold state_spec. now rewrite (sort_by_perm_invariant time _ _ P D). Qed.

Lemma sort_by_perm2 {A} (key : A -> Z) l l' : Permutation l l' -> Permutation (sort_by key l) (sort_by key l').
Proof. intros P. rewrite (sort_by_perm key l), P. symmetry. apply sort_by_perm. Qed.

Lemma notes_spec_perm a b ns ns' : Permutation ns ns' ->
  Permutation (notes_spec a b (sort_by n_start ns)) (notes_spec a b (sort_by n_start ns')).
Proof. intros P. unfold notes_spec. apply Permutation_map, perm_filter, sort_by_perm2, P. Qed.

Lemma beats_spec_perm a b l l' : Permutation l l' -> Permutation (beats_spec a b l) (beats_spec a b l').
Proof. intros P. unfold beats_spec. apply Permutation_map, perm_filter, sort_by_perm2, P. Qed.

Lemma key_eqb_spec (x y : key) : key_eqb x y = true <-> x = y.
Proof.
  destruct x as [x1 x2], y as [y1 y2]. unfold key_eqb. cbn [fst snd]. split.
  - intros H. apply andb_true_iff in H as [H1 H2]. apply Z.eqb_eq in H1, H2. now subst.
  - intros H. inversion H; subst. now rewrite !Z.eqb_refl.
Qed.

(** pedals of one (instrument, control number) have distinct times *)
Lemma with_key_distinct pres kk s :
  distinct_on cc_kind_time (s_ccs s) -> distinct_on cc_time (with_key kk (pedals_of pres s)).
Proof.
  intros D. unfold with_key, pedals_of.
  apply (distinct_on_coarser cc_kind_time cc_time).
  - intros c d Hc Hd E. apply filter_In in Hc as [_ Hc], Hd as [_ Hd].
    apply key_eqb_spec in Hc, Hd. unfold pedal_key in *. inversion Hc; inversion Hd; subst.
    unfold cc_kind_time. congruence.
  - now apply distinct_on_filter, distinct_on_filter.
Qed.

Lemma pedal_spec_perm pres kk a b s s' :
  Permutation (s_ccs s) (s_ccs s') -> distinct_on cc_kind_time (s_ccs s) ->
  pedal_spec pres kk a b s = pedal_spec pres kk a b s'.
Proof.
  intros P D. unfold pedal_spec. apply state_spec_perm.
  - unfold with_key, pedals_of. now apply perm_filter, perm_filter.
  - now apply with_key_distinct.
Qed.

(** * the verdict and the untouched fields *)
Lemma x_is_quantized_perm s s' : seq_perm s s' -> is_quantized s = is_quantized s'.
Proof. intros []. unfold is_quantized. congruence. Qed.

Lemma extract_verdict_perm pres s s' ts : seq_perm s s' ->
  extract_subsequences pres s' ts =
  match extract_subsequences pres s ts with
  | Ok _ => Ok (extract_pieces pres s' ts)
  | Err e => Err e
  end.
Proof.
  intros P. unfold extract_subsequences.
  rewrite <- (x_is_quantized_perm _ _ P), <- (sp_total _ _ P).
  destruct (is_quantized s); [reflexivity|]. destruct (length ts <? 2)%nat; [reflexivity|].
  destruct (unsorted ts); [reflexivity|]. destruct (past_end (s_total s) ts); reflexivity.
Qed.

Lemma extract_ok_pieces pres s ts ps :
  extract_subsequences pres s ts = Ok ps -> ps = extract_pieces pres s ts.
Proof.
  unfold extract_subsequences.
  destruct (is_quantized s); [discriminate|]. destruct (length ts <? 2)%nat; [discriminate|].
  destruct (unsorted ts); [discriminate|]. destruct (past_end (s_total s) ts); [discriminate|].
  intros H. now inversion H.
Qed.

Lemma piece_other_fields pres s ts i p : nth_error (extract_pieces pres s ts) i = Some p ->
  s_bends p = [] /\ s_sects p = s_sects s /\ s_qsteps p = s_qsteps s /\ s_spq p = s_spq s /\
  s_sps p = s_sps s /\ s_tpq p = s_tpq s /\ s_rest p = s_rest s.
Proof.
  unfold extract_pieces. rewrite nth_error_map.
  destruct (nth_error (List.seq 0 (length ts - 1)) i); cbn [option_map]; [|discriminate].
  intros H. inversion H; subst. cbn. repeat split.
Qed.

(** one piece *)
Lemma piece_perm pres s s' a b p p' : seq_perm s s' ->
  distinct_on tp_time (s_tempos s) -> distinct_on ts_time (s_tsigs s) -> distinct_on ks_time (s_ksigs s) ->
  distinct_on tx_time (chords_of s) -> distinct_on cc_kind_time (s_ccs s) ->
  piece_is_spec pres s a b p -> piece_is_spec pres s' a b p' ->
  Permutation (s_notes p) (s_notes p') /\ s_tempos p = s_tempos p' /\ s_tsigs p = s_tsigs p' /\
  s_ksigs p = s_ksigs p' /\ Permutation (s_texts p) (s_texts p') /\ Permutation (s_ccs p) (s_ccs p') /\
  s_total p = s_total p' /\ s_sub p = s_sub p'.
Proof.
  intros P Dtp Dts Dks Dch Dcc (N & Tp & Ts & Ks & Tx & Cc & Tot & Sub) (N' & Tp' & Ts' & Ks' & Tx' & Cc' & Tot' & Sub').
  assert (PN : Permutation (s_notes p) (s_notes p')).
  { rewrite N, N'. apply notes_spec_perm, (sp_notes _ _ P). }
  assert (ET : s_total p = s_total p').
  { rewrite Tot, Tot'. unfold max_end. now apply perm_fold_right_max. }
  split; [exact PN|].
  split; [rewrite Tp, Tp'; apply state_spec_perm; [apply (sp_tempos _ _ P)|exact Dtp]|].
  split; [rewrite Ts, Ts'; apply state_spec_perm; [apply (sp_tsigs _ _ P)|exact Dts]|].
  split; [rewrite Ks, Ks'; apply state_spec_perm; [apply (sp_ksigs _ _ P)|exact Dks]|].
  split.
  { rewrite Tx, Tx'. apply Permutation_app.
    - rewrite (state_spec_perm tx_time text_with_time a b (chords_of s) (chords_of s')); [reflexivity| |exact Dch].
      unfold chords_of. apply perm_filter, (sp_texts _ _ P).
    - apply beats_spec_perm. unfold beats_of. apply perm_filter, (sp_texts _ _ P). }
  split.
  { apply (perm_by_classes pedal_key key_eqb key_eqb_spec). intros kk.
    change (with_key kk (s_ccs p) = with_key kk (s_ccs p')).
    rewrite Cc, Cc'. apply pedal_spec_perm; [apply (sp_ccs _ _ P)|exact Dcc]. }
  split; [exact ET|]. rewrite Sub, Sub', ET, (sp_total _ _ P). reflexivity.
Qed.

(** * _extract_subsequences *)
Theorem perm_extract pres s s' ts : seq_perm s s' ->
  distinct_on tp_time (s_tempos s) -> distinct_on ts_time (s_tsigs s) -> distinct_on ks_time (s_ksigs s) ->
  distinct_on tx_time (chords_of s) -> distinct_on cc_kind_time (s_ccs s) ->
  extract_rel (extract_subsequences pres s ts) (extract_subsequences pres s' ts).
Proof.
  intros P Dtp Dts Dks Dch Dcc.
  pose proof (extract_verdict_perm pres s s' ts P) as V.
  destruct (extract_subsequences pres s ts) as [ps|e] eqn:E1; rewrite V; [|reflexivity].
  cbn [extract_rel].
  destruct (extract_refines_spec _ _ _ _ E1) as [L1 S1].
  destruct (extract_refines_spec _ _ _ _ V) as [L2 S2].
  apply Forall2_nth_error; [congruence|].
  intros i p p' Hp Hp'.
  assert (Hi : (i < length (intervals ts))%nat).
  { rewrite <- L1. apply nth_error_Some. congruence. }
  destruct (nth_error (intervals ts) i) as [[a b]|] eqn:EI; [|apply nth_error_None in EI; lia].
  destruct (piece_perm pres s s' a b p p' P Dtp Dts Dks Dch Dcc (S1 _ _ _ _ EI Hp) (S2 _ _ _ _ EI Hp'))
    as (H1 & H2 & H3 & H4 & H5 & H6 & H7 & H8).
  rewrite (extract_ok_pieces _ _ _ _ E1) in Hp.
  destruct (piece_other_fields _ _ _ _ _ Hp) as (B & Sc & Qs & Spq & Sps & Tpq & Rest).
  destruct (piece_other_fields _ _ _ _ _ Hp') as (B' & Sc' & Qs' & Spq' & Sps' & Tpq' & Rest').
  destruct P.
  constructor; try assumption; try (rewrite H2 || rewrite H3 || rewrite H4); try reflexivity; try congruence;
    first [rewrite B, B'; constructor | rewrite Sc, Sc'; assumption].
Qed.

(** * split_note_sequence (list form and hop form) *)
Lemma extract_valid_perm s s' valid : seq_perm s s' ->
  distinct_on tp_time (s_tempos s) -> distinct_on ts_time (s_tsigs s) -> distinct_on ks_time (s_ksigs s) ->
  distinct_on tx_time (chords_of s) -> distinct_on cc_kind_time (s_ccs s) ->
  extract_rel (extract_valid s valid) (extract_valid s' valid).
Proof.
  intros. unfold extract_valid. destruct (1 <? length valid)%nat; [now apply perm_extract|constructor].
Qed.

Lemma hop_valid_perm s s' sts skip : zsorted sts -> seq_perm s s' -> hop_valid s sts skip = hop_valid s' sts skip.
Proof.
  intros Sz P. rewrite !hop_valid_spec by exact Sz. rewrite (sp_total _ _ P). f_equal. f_equal.
  apply filter_ext. intros t. apply split_allowed_perm, (sp_notes _ _ P).
Qed.

Lemma arange_zsorted hop total : zsorted (arange hop total).
Proof.
  destruct (Z_lt_le_dec 0 hop) as [H|H].
  - pose proof (arange_strict hop total H) as S. apply strictly_inc_zsorted in S. now inversion S.
  - unfold arange. destruct (hop <=? 0) eqn:E; [constructor|lia].
Qed.

Theorem perm_split_hop s s' hop skip : seq_perm s s' ->
  distinct_on tp_time (s_tempos s) -> distinct_on ts_time (s_tsigs s) -> distinct_on ks_time (s_ksigs s) ->
  distinct_on tx_time (chords_of s) -> distinct_on cc_kind_time (s_ccs s) ->
  extract_rel (split_hop s hop skip) (split_hop s' hop skip).
Proof.
  intros P. intros. unfold split_hop. destruct (hop =? 0); [reflexivity|]. unfold split_at.
  rewrite <- (sp_total _ _ P), <- (hop_valid_perm s s' _ skip (arange_zsorted hop (s_total s)) P).
  now apply extract_valid_perm.
Qed.

Theorem perm_split_list s s' l skip : seq_perm s s' ->
  distinct_on tp_time (s_tempos s) -> distinct_on ts_time (s_tsigs s) -> distinct_on ks_time (s_ksigs s) ->
  distinct_on tx_time (chords_of s) -> distinct_on cc_kind_time (s_ccs s) ->
  extract_rel (split_list s l skip) (split_list s' l skip).
Proof.
  intros P. intros. unfold split_list, split_at.
  rewrite <- (hop_valid_perm s s' _ skip (sorted_id_zsorted l) P). now apply extract_valid_perm.
Qed.

(** * split_note_sequence_on_time_changes *)
Definition tc_kind (c : tchange) : Z := match c with TcSig _ => 0 | TcTempo _ => 1 end.
Definition tc_key2 (c : tchange) : Z := 2 * tc_time c + tc_kind c.

Lemma tc_list_refine (tss : list tsig) (tps : list tempo) :
  ksort tc_time (map TcSig tss ++ map TcTempo tps) = ksort tc_key2 (map TcSig tss ++ map TcTempo tps).
Proof.
  apply ksort_refine.
  - intros a b. unfold tc_key2, tc_kind. destruct a, b; lia.
  - apply FOP_app.
    + apply FOP_map, FOP_all. intros a b. unfold tc_key2. cbn [tc_time tc_kind]. lia.
    + apply FOP_map, FOP_all. intros a b. unfold tc_key2. cbn [tc_time tc_kind]. lia.
    + intros a b Ha Hb. apply in_map_iff in Ha as (x & <- & _). apply in_map_iff in Hb as (y & <- & _).
      unfold tc_key2. cbn [tc_time tc_kind]. lia.
Qed.

Lemma tc_list_distinct (tss : list tsig) (tps : list tempo) :
  distinct_on ts_time tss -> distinct_on tp_time tps ->
  distinct_on tc_key2 (map TcSig tss ++ map TcTempo tps).
Proof.
  unfold distinct_on. intros D1 D2. rewrite map_app, !map_map. apply NoDup_app_intro.
  - clear D2. induction tss as [|x r IH]; cbn [map] in *; [constructor|].
    inversion D1 as [|? ? Hx Hr]; subst. constructor; [|now apply IH].
    intros Hin. apply Hx. apply in_map_iff in Hin as (y & Ey & Hy). apply in_map_iff. exists y.
    split; [|exact Hy]. unfold tc_key2 in Ey. cbn [tc_time tc_kind] in Ey. lia.
  - clear D1. induction tps as [|x r IH]; cbn [map] in *; [constructor|].
    inversion D2 as [|? ? Hx Hr]; subst. constructor; [|now apply IH].
    intros Hin. apply Hx. apply in_map_iff in Hin as (y & Ey & Hy). apply in_map_iff. exists y.
    split; [|exact Hy]. unfold tc_key2 in Ey. cbn [tc_time tc_kind] in Ey. lia.
  - intros a Ha Hb. apply in_map_iff in Ha as (x & Ex & _). apply in_map_iff in Hb as (y & Ey & _).
    unfold tc_key2 in *. cbn [tc_time tc_kind] in *. lia.
Qed.

Lemma tc_events_perm s s' : seq_perm s s' ->
  distinct_on ts_time (s_tsigs s) -> distinct_on tp_time (s_tempos s) -> tc_events s = tc_events s'.
Proof.
  intros P D1 D2. unfold tc_events. rewrite (sp_total _ _ P). f_equal.
  rewrite !x_sort_by_ksort, !tc_list_refine. apply ksort_perm_invariant.
  - apply Permutation_app; apply Permutation_map; [apply (sp_tsigs _ _ P)|apply (sp_tempos _ _ P)].
  - now apply tc_list_distinct.
Qed.

Lemma tc_valid_perm s s' skip : seq_perm s s' ->
  distinct_on ts_time (s_tsigs s) -> distinct_on tp_time (s_tempos s) -> tc_valid s skip = tc_valid s' skip.
Proof.
  intros P D1 D2.
  destruct (tc_valid_spec s skip) as (V & _). destruct (tc_valid_spec s' skip) as (V' & _).
  rewrite V, V', <- (tc_events_perm _ _ P D1 D2), (sp_total _ _ P). f_equal. f_equal.
  apply sel_ext. intros t _. apply split_allowed_perm, (sp_notes _ _ P).
Qed.

Theorem perm_split_time_changes s s' skip : seq_perm s s' ->
  distinct_on tp_time (s_tempos s) -> distinct_on ts_time (s_tsigs s) -> distinct_on ks_time (s_ksigs s) ->
  distinct_on tx_time (chords_of s) -> distinct_on cc_kind_time (s_ccs s) ->
  extract_rel (split_time_changes s skip) (split_time_changes s' skip).
Proof.
  intros P Dtp Dts. intros. unfold split_time_changes.
  rewrite <- (tc_valid_perm s s' skip P Dts Dtp). now apply extract_valid_perm.
Qed.

(** * split_note_sequence_on_silence *)

(** a time-sorted list splits into the elements before [t] and the others *)
Lemma sorted_split_at {A} (key : A -> Z) t l : sorted_by key l ->
  exists pre post, l = pre ++ post /\ Forall (fun x => key x < t) pre /\ Forall (fun x => t <= key x) post.
Proof.
  induction 1 as [|x r S IH F].
  - exists [], []. repeat split; constructor.
  - destruct (Z_lt_le_dec (key x) t) as [L|G].
    + destruct IH as (pre & post & -> & H1 & H2). exists (x :: pre), post.
      repeat split; [constructor; assumption|assumption].
    + exists [], (x :: r). repeat split; [constructor|]. constructor; [exact G|].
      eapply Forall_impl; [|exact F]. cbn. intros; lia.
Qed.

(** the split points of the silence splitter, as a property of the note multiset *)
Definition silence_point (gap : Z) (ns : list note) (t : Z) : Prop :=
  (exists n, In n ns /\ n_start n = t) /\ gap < t /\
  forall m, In m ns -> n_start m < t -> n_end m + gap < t.

Lemma silence_walk_points gap ns t : 0 <= gap -> Forall (fun n => n_start n <= n_end n) ns ->
  (In t (silence_walk gap 0 (sort_by n_start ns)) <-> silence_point gap ns t).
Proof.
  intros Hg F. rewrite silence_walk_In. split.
  - intros (pre & n & post & E & -> & Hgt).
    pose proof (sort_by_sorted n_start ns) as S. rewrite E in S.
    destruct (active_spec pre 0) as (A0 & AF & _).
    assert (Hin : forall m, In m (pre ++ n :: post) <-> In m ns).
    { intros m. rewrite <- E. split; apply Permutation_in; [|symmetry]; apply sort_by_perm. }
    split; [exists n; split; [apply Hin, in_or_app; right; now left|reflexivity]|].
    split; [lia|]. intros m Hm Hlt. apply Hin in Hm.
    apply SSorted_app_inv in S as (_ & S2 & S12).
    apply in_app_or in Hm as [Hm|Hm].
    + rewrite Forall_forall in AF. specialize (AF m Hm). cbn in AF. lia.
    + exfalso. inversion S2 as [|? ? _ F2]; subst. destruct Hm as [->|Hm]; [lia|].
      rewrite Forall_forall in F2. specialize (F2 m Hm). cbn in F2. lia.
  - intros ((n & Hn & <-) & Hgap & Hall).
    pose proof (sort_by_sorted n_start ns) as S.
    destruct (sorted_split_at n_start (n_start n) _ S) as (pre & post & E & Hpre & Hpost).
    assert (Hin : forall m, In m (pre ++ post) <-> In m ns).
    { intros m. rewrite <- E. split; apply Permutation_in; [|symmetry]; apply sort_by_perm. }
    rewrite Forall_forall in Hpre, Hpost.
    assert (Hnp : In n post).
    { apply Hin in Hn. apply in_app_or in Hn as [Hn|Hn]; [|exact Hn]. specialize (Hpre n Hn). cbn in Hpre. lia. }
    destruct post as [|n0 post']; [destruct Hnp|].
    assert (E0 : n_start n0 = n_start n).
    { pose proof (Hpost n0 (or_introl eq_refl)) as G. cbn in G.
      rewrite E in S. apply SSorted_app_inv in S as (_ & S2 & _).
      inversion S2 as [|? ? _ F2]; subst. destruct Hnp as [->|Hnp]; [reflexivity|].
      rewrite Forall_forall in F2. specialize (F2 n Hnp). cbn in F2. lia. }
    exists pre, n0, post'. split; [exact E|]. split; [now rewrite E0|].
    destruct (active_spec pre 0) as (_ & _ & [A|(m & Hm & <-)]); [lia|].
    assert (In m ns) by (apply Hin, in_or_app; now left).
    specialize (Hpre m Hm). cbn in Hpre. specialize (Hall m H Hpre). lia.
Qed.

Lemma strict_sorted_ext (l1 l2 : list Z) :
  strictly_inc l1 -> strictly_inc l2 -> (forall t, In t l1 <-> In t l2) -> l1 = l2.
Proof.
  unfold strictly_inc. intros S1 S2 H.
  assert (ND : forall l, StronglySorted Z.lt l -> NoDup l).
  { induction 1 as [|x r _ IH F]; constructor; [|exact IH].
    intros Hin. rewrite Forall_forall in F. specialize (F x Hin). lia. }
  apply (sorted_perm_unique Z.lt); [intros; lia|exact S1|exact S2|].
  apply NoDup_Permutation; [now apply ND|now apply ND|exact H].
Qed.

Lemma silence_valid_perm s s' gap : seq_perm s s' -> 0 <= gap ->
  Forall (fun n => n_start n <= n_end n) (s_notes s) -> silence_valid s gap = silence_valid s' gap.
Proof.
  intros P Hg F. unfold silence_valid. rewrite (sp_total _ _ P). f_equal. f_equal.
  assert (F' : Forall (fun n => n_start n <= n_end n) (s_notes s'))
    by (eapply Permutation_Forall; [apply (sp_notes _ _ P)|exact F]).
  assert (Fs : forall ns, Forall (fun n => n_start n <= n_end n) ns ->
                          Forall (fun n => n_start n <= n_end n) (sort_by n_start ns)).
  { intros ns H. eapply Permutation_Forall; [symmetry; apply sort_by_perm|exact H]. }
  pose proof (silence_walk_strict gap _ 0 Hg (Fs _ F)) as S1.
  pose proof (silence_walk_strict gap _ 0 Hg (Fs _ F')) as S2.
  unfold strictly_inc in S1, S2. inversion S1; subst. inversion S2; subst.
  apply strict_sorted_ext; [assumption|assumption|].
  intros t. rewrite !silence_walk_points by assumption. unfold silence_point.
  split; intros ((n & Hn & En) & Hgap & Hall); (split; [exists n; split; [|exact En]|split; [exact Hgap|]]).
  - eapply Permutation_in; [apply (sp_notes _ _ P)|exact Hn].
  - intros m Hm. apply Hall. eapply Permutation_in; [symmetry; apply (sp_notes _ _ P)|exact Hm].
  - eapply Permutation_in; [symmetry; apply (sp_notes _ _ P)|exact Hn].
  - intros m Hm. apply Hall. eapply Permutation_in; [apply (sp_notes _ _ P)|exact Hm].
Qed.

Theorem perm_split_silence s s' gap : seq_perm s s' -> 0 <= gap ->
  Forall (fun n => n_start n <= n_end n) (s_notes s) ->
  distinct_on tp_time (s_tempos s) -> distinct_on ts_time (s_tsigs s) -> distinct_on ks_time (s_ksigs s) ->
  distinct_on tx_time (chords_of s) -> distinct_on cc_kind_time (s_ccs s) ->
  extract_rel (split_silence s gap) (split_silence s' gap).
Proof.
  intros P Hg F. intros. unfold split_silence.
  rewrite <- (silence_valid_perm s s' gap P Hg F). now apply extract_valid_perm.
Qed.

(** * extract_subsequence (one window) and trim_note_sequence *)
Definition extract1_rel (a b : res seq) : Prop :=
  match a, b with
  | Ok p, Ok p' => seq_perm p p'
  | Err e, Err e' => e = e'
  | _, _ => False
  end.

Theorem perm_extract_one pres s s' a b : seq_perm s s' ->
  distinct_on tp_time (s_tempos s) -> distinct_on ts_time (s_tsigs s) -> distinct_on ks_time (s_ksigs s) ->
  distinct_on tx_time (chords_of s) -> distinct_on cc_kind_time (s_ccs s) ->
  extract1_rel (extract_subsequence pres s a b) (extract_subsequence pres s' a b).
Proof.
  intros P D1 D2 D3 D4 D5. unfold extract_subsequence.
  pose proof (perm_extract pres s s' [a; b] P D1 D2 D3 D4 D5) as H.
  destruct (extract_subsequences pres s [a; b]) as [ps|e], (extract_subsequences pres s' [a; b]) as [ps'|e'];
    cbn in H; try contradiction; [|exact H].
  destruct H; [reflexivity|assumption].
Qed.

Theorem perm_trim s s' a b : seq_perm s s' -> extract1_rel (trim s a b) (trim s' a b).
Proof.
  intros P. unfold trim. rewrite <- (x_is_quantized_perm _ _ P).
  destruct (is_quantized s); [reflexivity|]. cbn [extract1_rel].
  destruct P. constructor; cbn; try assumption; try congruence.
  now apply Permutation_map, perm_filter.
Qed.
