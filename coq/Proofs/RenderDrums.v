(** Proofs/RenderDrums.v — C06 for DrumTrack at step level:
    - [roundtrip_steps_drums]: rendering a canonical drum track and extracting it again with the
      same parameters gives the same events, start and end;
    - [extraction_canonical_drums]: whatever [from_quantized_sequence] returns is canonical;
    - [drums_canonical_example]: a concrete non-trivial canonical track and its round trip.

    Both proofs go through the closed form of the extraction loop proved for C07
    ([dr_loop_first]: the loop yields [render tss 0 (first group :: gcut G k0 rest)]):
    - round trip: the sorted groups of the rendered notes are [egroups es s0] = the non-empty events
      with their steps; the canonical scan says that [gcut] cuts nothing and that [render] of these
      groups is [es] without its trailing empty events;
    - canonical: [dr_scan_canon] accepts [render] of a [gcut], and ends at its last hit. *)
From Coq Require Import ZArith List Bool Lia ZifyBool Permutation Sorted.
From NS Require Import Base.NoteSeq Gen.G07 Model.FqCommon Model.FqDrums Model.FqSpec
  Proofs.FqCommon Proofs.FqDrums
  Model.RenderCommon Model.RenderDrums Proofs.RenderChords.
Import ListNotations.
Local Open Scope Z_scope.
Ltac Zify.zify_post_hook ::= Z.to_euclidean_division_equations.

(** * small list facts *)
Lemma zrepeat_snoc {A} (x : A) n : 0 <= n -> zrepeat x n ++ [x] = zrepeat x (n + 1).
Proof.
  intros H. unfold zrepeat. replace (Z.to_nat (n + 1)) with (S (Z.to_nat n)) by lia.
  cbn [repeat]. now rewrite repeat_cons.
Qed.

Lemma zrepeat_0 {A} (x : A) : zrepeat x 0 = [].
Proof. reflexivity. Qed.

Lemma set_length_ge {A} (pad : A) n l :
  len l <= n -> set_length pad n l = l ++ zrepeat pad (n - len l).
Proof.
  intros H. unfold set_length. destruct (len l <? n) eqn:E; [reflexivity|].
  assert (n = len l) by lia. subst n. rewrite Z.sub_diag, zrepeat_0, app_nil_r.
  unfold zfirstn, len. rewrite Nat2Z.id. apply firstn_all.
Qed.

(** * the groups of a rendered track *)

(** the non-empty events with their steps *)
Fixpoint egroups (es : list (list Z)) (step : Z) : glist :=
  match es with
  | [] => []
  | ps :: r => if is_nil ps then egroups r (step + 1) else (step, ps) :: egroups r (step + 1)
  end.

Lemma group_add_fresh k q g : ~ In k (keys g) -> dr_group_add k q g = g ++ [(k, [q])].
Proof.
  induction g as [|[k' ps] r IH]; cbn [dr_group_add keys map fst In app]; intros H; [reflexivity|].
  destruct (k' =? k) eqn:E; [exfalso; apply H; left; lia|]. f_equal. apply IH. intuition.
Qed.

Lemma group_add_last k q qs g :
  ~ In k (keys g) -> dr_group_add k q (g ++ [(k, qs)]) = g ++ [(k, qs ++ [q])].
Proof.
  induction g as [|[k' ps] r IH]; cbn [dr_group_add keys map fst In app]; intros H.
  - now rewrite Z.eqb_refl.
  - destruct (k' =? k) eqn:E; [exfalso; apply H; left; lia|]. f_equal. apply IH. intuition.
Qed.

Section Render.
  Context (v i pr : Z).

  Let add := fun (g : glist) (n : note) => dr_group_add (n_qstart n) (n_pitch n) g.
  Let mk (step q : Z) := rnote q v i pr true step (step + 1).

  Lemma fold_add_same step : forall ps qs g,
    ~ In step (keys g) ->
    fold_left add (map (mk step) ps) (g ++ [(step, qs)]) = g ++ [(step, qs ++ ps)].
  Proof.
    induction ps as [|q ps IH]; intros qs g H; cbn [map fold_left]; [now rewrite app_nil_r|].
    unfold add at 2, mk at 2, rnote. cbn [n_qstart n_pitch].
    rewrite group_add_last by exact H. rewrite IH by exact H. now rewrite <- app_assoc.
  Qed.

  Lemma fold_add_step step ps g :
    ~ In step (keys g) ->
    fold_left add (map (mk step) ps) g = if is_nil ps then g else g ++ [(step, ps)].
  Proof.
    intros H. destruct ps as [|q ps]; cbn [map fold_left is_nil]; [reflexivity|].
    unfold add at 2, mk at 2, rnote. cbn [n_qstart n_pitch].
    rewrite group_add_fresh by exact H. now rewrite fold_add_same.
  Qed.

  Lemma groups_render : forall es step g,
    (forall k, In k (keys g) -> k < step) ->
    fold_left add (dr_render v i pr es step) g = g ++ egroups es step.
  Proof.
    induction es as [|ps r IH]; intros step g H; cbn [dr_render egroups fold_left]; [now rewrite app_nil_r|].
    rewrite fold_left_app. fold (mk step). rewrite fold_add_step by (intros Hin; specialize (H _ Hin); lia).
    destruct ps as [|q ps]; cbn [is_nil].
    - apply IH. intros k Hk. specialize (H k Hk). lia.
    - rewrite IH.
      + now rewrite <- app_assoc.
      + intros k Hk. unfold keys in Hk. rewrite map_app in Hk. apply in_app_or in Hk.
        destruct Hk as [Hk|[<-|[]]]; [specialize (H k Hk); lia|cbn [fst]; lia].
  Qed.

  Lemma dr_render_In : forall es step n,
    In n (dr_render v i pr es step) -> n_drum n = true /\ n_vel n = v /\ step <= n_qstart n.
  Proof.
    induction es as [|ps r IH]; intros step n H; cbn [dr_render] in H; [destruct H|].
    apply in_app_or in H. destruct H as [H|H].
    - apply in_map_iff in H. destruct H as (q & <- & _). unfold rnote. cbn. repeat split. lia.
    - destruct (IH _ _ H) as (H1 & H2 & H3). repeat split; [assumption|assumption|lia].
  Qed.
End Render.

Lemma egroups_incr : forall es step prev, prev < step -> incr prev (egroups es step).
Proof.
  induction es as [|ps r IH]; intros step prev H; cbn [egroups incr]; [exact I|].
  destruct (is_nil ps); [apply IH; lia|]. cbn [incr]. split; [exact H|apply IH; lia].
Qed.

Lemma incr_sorted_le : forall gs prev,
  incr prev gs -> StronglySorted (fun a b => dr_key_le a b = true) gs.
Proof.
  induction gs as [|[k ps] r IH]; intros prev H; [constructor|].
  cbn [incr] in H. destruct H as (_ & H). constructor; [eapply IH; exact H|].
  apply Forall_forall. intros [k' ps'] Hin. unfold dr_key_le. cbn [fst].
  assert (Hk : In k' (keys r)) by (unfold keys; change k' with (fst (k', ps')); now apply in_map).
  pose proof (incr_keys _ _ _ H Hk). lia.
Qed.

Lemma sorted_groups_render p v i pr es s0 :
  v <> 0 -> dp_search_start p <= s0 ->
  dr_sorted_groups p (dr_render v i pr es s0) = egroups es s0.
Proof.
  intros Hv Hss. unfold dr_sorted_groups. rewrite filter_all.
  - unfold dr_groups. rewrite groups_render by (intros k []). cbn [app].
    apply isort_sorted_id. apply (incr_sorted_le _ (s0 - 1)). apply egroups_incr. lia.
  - intros n Hn. destruct (dr_render_In _ _ _ _ _ _ Hn) as (H1 & H2 & H3).
    unfold dr_keep. rewrite H1, H2. cbn [orb]. lia.
Qed.

(** * the canonical scan read on the groups *)
Section Scan.
  Context (spb G s0 : Z).

  Lemma scan_some_render : forall es i j j',
    j < i ->
    dr_scan_canon spb G es i (Some j) = Some (Some j') ->
    gcut G (s0 + j) (egroups es (s0 + i)) = egroups es (s0 + i) /\
    zrepeat [] (i - (j + 1)) ++ es
      = render s0 (j + 1) (egroups es (s0 + i)) ++ zrepeat [] (i + len es - (j' + 1)) /\
    j <= j' < i + len es.
  Proof.
    induction es as [|ps r IH]; intros i j j' Hji H; cbn [dr_scan_canon egroups] in *.
    - injection H as <-. cbn [gcut render app]. rewrite len_nil, app_nil_r.
      split; [reflexivity|]. split; [f_equal; lia|lia].
    - rewrite len_cons. pose proof (len_nonneg r).
      replace (s0 + i + 1) with (s0 + (i + 1)) by lia.
      destruct ps as [|q ps]; cbn [is_nil] in *.
      + destruct (IH (i + 1) j j' ltac:(lia) H) as (H1 & H2 & H3).
        split; [exact H1|]. split; [|lia].
        change ([] :: r) with ([[]] ++ r). rewrite app_assoc, zrepeat_snoc by lia.
        replace (i - (j + 1) + 1) with (i + 1 - (j + 1)) by lia. rewrite H2. f_equal. f_equal. lia.
      + destruct (i - (j + 1) <? G) eqn:EG; [|discriminate].
        destruct (IH (i + 1) i j' ltac:(lia) H) as (H1 & H2 & H3).
        cbn [gcut render]. replace (G <=? s0 + i - (s0 + j + 1)) with false by lia.
        rewrite H1. split; [reflexivity|]. split; [|lia].
        replace (s0 + i - s0 - (j + 1)) with (i - (j + 1)) by lia.
        replace (s0 + i - s0 + 1) with (i + 1) by lia.
        rewrite <- app_assoc. cbn [app]. f_equal. f_equal.
        replace (i + 1 - (i + 1)) with 0 in H2 by lia. rewrite zrepeat_0 in H2. cbn [app] in H2.
        rewrite H2 at 1. f_equal. f_equal. lia.
  Qed.

  Lemma scan_none_render : forall es i j',
    0 <= i ->
    dr_scan_canon spb G es i None = Some (Some j') ->
    exists i0 ps0 rr,
      egroups es (s0 + i) = (s0 + i0, ps0) :: rr /\ i <= i0 < spb /\
      gcut G (s0 + i0) rr = rr /\ incr (s0 + i0) rr /\
      zrepeat [] i ++ es = render s0 0 ((s0 + i0, ps0) :: rr) ++ zrepeat [] (i + len es - (j' + 1)) /\
      i0 <= j' < i + len es.
  Proof.
    induction es as [|ps r IH]; intros i j' Hi H; cbn [dr_scan_canon egroups] in *; [discriminate|].
    rewrite len_cons. pose proof (len_nonneg r).
    replace (s0 + i + 1) with (s0 + (i + 1)) by lia.
    destruct ps as [|q ps]; cbn [is_nil] in *.
    - destruct (IH (i + 1) j' ltac:(lia) H) as (i0 & ps0 & rr & H1 & H2 & H3 & H4 & H5 & H6).
      exists i0, ps0, rr. split; [exact H1|]. split; [lia|]. split; [exact H3|]. split; [exact H4|].
      split; [|lia].
      change ([] :: r) with ([[]] ++ r). rewrite app_assoc, zrepeat_snoc by lia.
      rewrite H5. f_equal. f_equal. lia.
    - destruct (i <? spb) eqn:Ei; [|discriminate].
      destruct (scan_some_render r (i + 1) i j' ltac:(lia) H) as (H1 & H2 & H3).
      exists i, (q :: ps), (egroups r (s0 + (i + 1))).
      split; [reflexivity|]. split; [lia|]. split; [exact H1|].
      split; [apply egroups_incr; lia|]. split; [|lia].
      cbn [render].
      replace (s0 + i - s0 - 0) with i by lia. replace (s0 + i - s0 + 1) with (i + 1) by lia.
      rewrite <- app_assoc. cbn [app]. f_equal. f_equal.
      replace (i + 1 - (i + 1)) with 0 in H2 by lia. rewrite zrepeat_0 in H2. cbn [app] in H2.
      rewrite H2 at 1. f_equal. f_equal. lia.
  Qed.
End Scan.

Lemma bar_start_aligned s0 i0 ss spb :
  0 < spb -> (s0 - ss) mod spb = 0 -> 0 <= i0 < spb -> bar_start (s0 + i0) ss spb = s0.
Proof.
  intros Hpos Hm Hi. unfold bar_start.
  assert (H : (s0 + i0 - ss) mod spb = i0); [|lia].
  replace (s0 + i0 - ss) with (i0 + (s0 - ss)) by lia.
  rewrite Zplus_mod, Hm, Z.add_0_r, Z.mod_mod by lia. apply Z.mod_small. lia.
Qed.

(** * the round trip *)
Theorem roundtrip_steps_drums : forall s spb p v i pr s0 es,
  s_notes s = dr_to_step_notes v i pr s0 es ->
  steps_per_bar s = Ok spb ->
  v <> 0 ->
  canonical_drums spb (dp_search_start p) (dp_gap_bars p) (dp_pad_end p) s0 es = true ->
  dr_from_quantized p s = Ok (mkDrResult es s0 (s0 + len es) spb (s_spq s)).
Proof.
  intros s spb p v i pr s0 es Hnotes Hspb Hv Hcan.
  unfold dr_from_quantized. rewrite Hspb. cbn [bind]. rewrite Hnotes. unfold dr_to_step_notes.
  destruct es as [|e0 es'].
  - cbn in Hcan. assert (s0 = 0) by lia. subst s0. reflexivity.
  - remember (e0 :: es') as es eqn:Hes.
    assert (Hcan' :
      (0 <? spb) && (0 <=? s0) && (dp_search_start p <=? s0) && ((s0 - dp_search_start p) mod spb =? 0)
      && match dr_scan_canon spb (dp_gap_bars p * spb) es 0 None with
         | Some (Some j) => len es =? (if dp_pad_end p then pad_len (j + 1) spb else j + 1)
         | _ => false
         end = true) by (rewrite Hes; rewrite Hes in Hcan; exact Hcan).
    clear Hcan Hes e0 es'.
    rewrite !andb_true_iff in Hcan'. destruct Hcan' as ((((H1 & H2) & H3) & H4) & H5).
    destruct (dr_scan_canon spb (dp_gap_bars p * spb) es 0 None) as [[j|]|] eqn:Escan; try discriminate.
    destruct (scan_none_render spb (dp_gap_bars p * spb) s0 es 0 j ltac:(lia) Escan)
      as (i0 & ps0 & rr & Heg & Hi0 & Hcut & Hinc & Heq & Hj).
    rewrite Z.add_0_r in Heg. rewrite zrepeat_0 in Heq. cbn [app] in Heq.
    rewrite sorted_groups_render by lia. rewrite Heg. cbv beta iota zeta.
    rewrite (bar_start_aligned s0 i0 (dp_search_start p) spb) by lia.
    rewrite dr_loop_first by (assumption || lia). rewrite Hcut.
    set (R := render s0 0 ((s0 + i0, ps0) :: rr)) in *.
    assert (HlenR : len R = j + 1).
    { apply (f_equal len) in Heq. rewrite len_app, len_zrepeat in Heq. lia. }
    destruct R as [|e R'] eqn:ER.
    { rewrite len_nil in HlenR. lia. }
    rewrite <- ER in *. rewrite HlenR.
    assert (Hn : (if dp_pad_end p then pad_len (j + 1) spb else j + 1) = len es) by lia.
    rewrite Hn. f_equal. f_equal.
    rewrite set_length_ge by lia. etransitivity; [|symmetry; exact Heq]. f_equal. f_equal. lia.
Qed.

(** * extraction gives canonical tracks *)
Section ScanRender.
  Context (spb G tss : Z).

  Lemma scan_repeat_nils : forall n l i last,
    dr_scan_canon spb G (repeat [] n ++ l) i last = dr_scan_canon spb G l (i + Z.of_nat n) last.
  Proof.
    induction n as [|n IH]; intros l i last; cbn [repeat app dr_scan_canon is_nil].
    - f_equal. lia.
    - rewrite IH. f_equal. lia.
  Qed.

  Lemma scan_skip d l i last :
    0 <= d -> dr_scan_canon spb G (zrepeat [] d ++ l) i last = dr_scan_canon spb G l (i + d) last.
  Proof. intros H. unfold zrepeat. rewrite scan_repeat_nils. f_equal. lia. Qed.

  Lemma scan_nils m i last : dr_scan_canon spb G (zrepeat [] m) i last = Some last.
  Proof.
    rewrite <- (app_nil_r (zrepeat [] m)). unfold zrepeat. rewrite scan_repeat_nils. reflexivity.
  Qed.

  Lemma scan_app_nils m : forall l i last x,
    dr_scan_canon spb G l i last = Some x -> dr_scan_canon spb G (l ++ zrepeat [] m) i last = Some x.
  Proof.
    induction l as [|ps r IH]; intros i last x H; cbn [app dr_scan_canon] in *.
    - rewrite scan_nils. exact H.
    - destruct (is_nil ps); [now apply IH|].
      destruct last as [j|].
      + destruct (i - (j + 1) <? G); [now apply IH|discriminate].
      + destruct (i <? spb); [now apply IH|discriminate].
  Qed.

  (** the scan accepts what the loop writes after a hit at step [prev], and ends at its last hit *)
  Lemma scan_gcut : forall gs prev,
    incr prev gs -> Forall (fun g => snd g <> []) gs ->
    dr_scan_canon spb G (render tss (prev - tss + 1) (gcut G prev gs)) (prev - tss + 1) (Some (prev - tss))
    = Some (Some (prev - tss + len (render tss (prev - tss + 1) (gcut G prev gs)))).
  Proof.
    induction gs as [|[k ps] r IH]; intros prev Hinc Hne; cbn [gcut].
    - cbn [render dr_scan_canon]. rewrite len_nil. f_equal. f_equal. lia.
    - destruct (G <=? k - (prev + 1)) eqn:EG.
      + cbn [render dr_scan_canon]. rewrite len_nil. f_equal. f_equal. lia.
      + cbn [incr] in Hinc. destruct Hinc as (Hk & Hinc).
        inversion Hne as [|? ? Hps Hne']; subst. cbn [snd] in Hps.
        cbn [render]. rewrite scan_skip by lia.
        replace (prev - tss + 1 + (k - tss - (prev - tss + 1))) with (k - tss) by lia.
        destruct ps as [|q ps]; [congruence|]. cbn [dr_scan_canon is_nil].
        replace (k - tss - (prev - tss + 1) <? G) with true by lia.
        rewrite IH by assumption. f_equal. f_equal.
        rewrite len_app, len_zrepeat, len_cons. lia.
  Qed.
End ScanRender.

Lemma canonical_drums_intro spb ss gb (pad : bool) s0 es j :
  es <> [] -> 0 < spb -> 0 <= s0 -> ss <= s0 -> (s0 - ss) mod spb = 0 ->
  dr_scan_canon spb (gb * spb) es 0 None = Some (Some j) ->
  len es = (if pad then pad_len (j + 1) spb else j + 1) ->
  canonical_drums spb ss gb pad s0 es = true.
Proof.
  intros Hne H1 H2 H3 H4 Hscan Hlen. destruct es as [|e es']; [congruence|].
  unfold canonical_drums. rewrite Hscan.
  rewrite !andb_true_iff. repeat split; lia.
Qed.

Theorem extraction_canonical_drums : forall p s spb r,
  steps_per_bar s = Ok spb -> 0 < spb -> 0 <= dp_search_start p ->
  dr_from_quantized p s = Ok r ->
  canonical_drums spb (dp_search_start p) (dp_gap_bars p) (dp_pad_end p) (de_start r) (de_events r) = true
  /\ de_end r = de_start r + len (de_events r).
Proof.
  intros p s spb r Hspb Hpos Hss Hr.
  unfold dr_from_quantized in Hr. rewrite Hspb in Hr. cbn [bind] in Hr.
  destruct (sorted_groups_facts p (s_notes s)) as (Hnd & Hsorted & Hkeys & Hlook).
  destruct (dr_sorted_groups p (s_notes s)) as [|[k0 ps0] rr] eqn:Esg.
  { injection Hr as <-. cbn. split; reflexivity. }
  cbv beta iota zeta in Hr.
  set (ss := dp_search_start p) in *. set (G := dp_gap_bars p * spb) in *.
  set (tss := bar_start k0 ss spb) in *.
  (* the first hit is at or after search_start *)
  assert (Hk0 : ss <= k0).
  { destruct (proj1 (Hkeys k0)) as (n & _ & Hkeep & Hq); [cbn [keys map fst In]; now left|].
    unfold dr_keep in Hkeep. fold ss in Hkeep. lia. }
  pose proof (bar_start_spec k0 ss spb Hpos) as (Hb1 & Hb2). fold tss in Hb1, Hb2.
  assert (Htss : ss <= tss).
  { unfold tss, bar_start. pose proof (Z.mod_le (k0 - ss) spb ltac:(lia) Hpos). lia. }
  assert (Hinc : incr k0 rr).
  { inversion Hsorted as [|? ? Hs Hf]; subst. apply sorted_incr; [exact Hs|].
    intros k Hin. unfold keys in Hin. apply in_map_iff in Hin. destruct Hin as (b & <- & Hb).
    rewrite Forall_forall in Hf. exact (Hf b Hb). }
  (* every group holds at least one pitch *)
  assert (Hne : Forall (fun g => snd g <> []) ((k0, ps0) :: rr)).
  { apply Forall_forall. intros [k ps] Hin. cbn [snd]. intros ->.
    pose proof (lookup_In k [] _ Hnd Hin) as Hl. rewrite Hlook in Hl. apply map_eq_nil in Hl.
    destruct (proj1 (Hkeys k)) as (n & Hn & Hkeep & Hq).
    { unfold keys. change k with (fst (k, @nil Z)). now apply in_map. }
    assert (Hin' : In n (filter (fun n => dr_keep p n && (n_qstart n =? k)) (s_notes s))).
    { apply filter_In. split; [exact Hn|]. rewrite Hkeep. cbn [andb]. lia. }
    rewrite Hl in Hin'. destruct Hin'. }
  inversion Hne as [|? ? Hps0 Hne']; subst. cbn [snd] in Hps0.
  rewrite dr_loop_first in Hr by (assumption || lia). cbn [render] in Hr.
  replace (k0 - tss - 0) with (k0 - tss) in Hr by lia.
  set (R' := render tss (k0 - tss + 1) (gcut G k0 rr)) in *.
  remember (zrepeat [] (k0 - tss) ++ ps0 :: R') as evs eqn:Hevs.
  destruct evs as [|e evs'].
  { injection Hr as <-. cbn. split; reflexivity. }
  rewrite Hevs in Hr. clear e evs' Hevs. set (evs := zrepeat [] (k0 - tss) ++ ps0 :: R') in *.
  assert (Hlen : len evs = k0 - tss + 1 + len R').
  { unfold evs. rewrite len_app, len_zrepeat, len_cons. lia. }
  pose proof (len_nonneg R') as HR'.
  set (n := if dp_pad_end p then pad_len (len evs) spb else len evs) in *.
  assert (Hn : len evs <= n).
  { unfold n. destruct (dp_pad_end p); [|lia]. pose proof (pad_len_spec (len evs) spb Hpos). lia. }
  injection Hr as <-. cbn [de_start de_end de_events].
  split; [|rewrite len_set_length by lia; reflexivity].
  rewrite set_length_ge by exact Hn.
  apply (canonical_drums_intro spb ss (dp_gap_bars p) (dp_pad_end p) tss _ (len evs - 1)).
  - unfold evs. destruct (zrepeat [] (k0 - tss)); discriminate.
  - exact Hpos.
  - lia.
  - exact Htss.
  - exact Hb2.
  - apply scan_app_nils. unfold evs. rewrite scan_skip by lia.
    destruct ps0 as [|q ps0]; [congruence|]. cbn [dr_scan_canon is_nil].
    replace (0 + (k0 - tss) <? spb) with true by lia.
    replace (0 + (k0 - tss) + 1) with (k0 - tss + 1) by lia.
    replace (0 + (k0 - tss)) with (k0 - tss) by lia.
    fold G. unfold R'. rewrite scan_gcut by assumption. fold R'. f_equal. f_equal.
    rewrite len_app, len_zrepeat, len_cons. lia.
  - rewrite len_app, len_zrepeat. replace (len evs - 1 + 1) with (len evs) by lia.
    fold n. lia.
Qed.

(** * a non-trivial canonical track: search_start 3, 16 steps per bar, start_step 19 (one bar after
    search_start), kick at step 2 of the bar, snare + hi-hat 3 steps later, hi-hat 10 steps later;
    padded to the end of the bar *)
Example drums_canonical_example :
  let p := mkDrParams 3 1 true false in
  let es := [[]; []; [36]; []; []; [38; 42]] ++ repeat [] 9 ++ [[42]] in
  let s := dr_rseq 4 (mkTsig 0 4 4) 100 9 0 19 es in
  canonical_drums 16 3 1 true 19 es = true /\
  len (s_notes s) = 4 /\
  dr_from_quantized p s = Ok (mkDrResult es 19 35 16 4).
Proof. vm_compute. repeat split; reflexivity. Qed.
