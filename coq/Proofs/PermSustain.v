(** Proofs/PermSustain.v — C12 for apply_sustain_control_changes (C14 model).

    FULL statement (not proved; it needs the functional characterisation
    [sustain_refines_spec] that C14 leaves open):

      Theorem perm_sustain : forall ctl s s', seq_perm s s' ->
        ordered_b (s_notes s) = true -> no_clash (s_notes s) = true ->
        opt_rel seq_perm (apply_sustain ctl s) (apply_sustain ctl s').

    Proved here:
    - [perm_sustain_no_pedal]: the full statement when no control change with the
      sustain number is a pedal-down event (the function is then the identity);
    - [perm_sustain_partial]: for ALL inputs inside the quantifier, both calls fail
      together (QuantizationStatusError) or both succeed, and then
        * every repeated field other than the notes is the same multiset and every
          scalar other than total_time is equal,
        * the notes are the same multiset up to their END TIMES (nothing dropped,
          duplicated or otherwise altered),
        * the notes the pedal cannot touch — drums and notes of instruments that have
          no pedal-down event — are the same multiset, end times included.
      What is missing from the full statement is exactly: the new end times of the
      notes of pedalled instruments (and with them total_time) are the same for every
      storage order. *)
From Coq Require Import ZArith List Bool Lia ZifyBool Permutation Sorted.
From NS Require Import Base.NoteSeq Model.PermDefs Proofs.PermTools.
From NS Require Import Gen.G14 Model.Sustain Proofs.Sustain Proofs.SustainIdent Proofs.SustainFrame
  Proofs.SustainMono.
Import ListNotations.
Local Open Scope Z_scope.

(** * the hypotheses are properties of the multiset *)
Lemma clash_sym a b : clash a b = clash b a.
Proof.
  unfold clash. rewrite (Z.eqb_sym (n_instr a)), (Z.eqb_sym (n_pitch a)), (Z.eqb_sym (n_start a)).
  destruct (n_drum a), (n_drum b); cbn [negb andb]; try reflexivity.
  f_equal. f_equal. apply andb_comm.
Qed.

Lemma no_clash_FOP ns : no_clash ns = true <-> ForallOrdPairs (fun a b => clash a b = false) ns.
Proof.
  induction ns as [|n r IH]; cbn [no_clash].
  - split; [constructor|reflexivity].
  - rewrite andb_true_iff, forallb_forall, IH. split.
    + intros [H1 H2]. constructor; [|exact H2]. rewrite Forall_forall. intros m Hm.
      specialize (H1 m Hm). now apply negb_true_iff in H1.
    + intros H. inversion H as [|? ? H1 H2]; subst. split; [|exact H2].
      rewrite Forall_forall in H1. intros m Hm. apply negb_true_iff. now apply H1.
Qed.

Lemma no_clash_perm ns ns' : Permutation ns ns' -> no_clash ns = true -> no_clash ns' = true.
Proof.
  intros P. rewrite !no_clash_FOP. apply FOP_perm; [|exact P].
  intros a b H. now rewrite clash_sym.
Qed.

Lemma ordered_perm ns ns' : Permutation ns ns' -> ordered_b ns = ordered_b ns'.
Proof. intros P. unfold ordered_b. now apply perm_forallb. Qed.

(** * what the pedal cannot touch *)
Definition untouchable (ctl : Z) (ccs : list cc) (n : note) : bool :=
  n_drum n || no_pedal_down ctl (n_instr n) ccs.
Definition erase_end (n : note) : note := set_end n 0.

Lemma untouchable_perm ctl ccs ccs' n : Permutation ccs ccs' -> untouchable ctl ccs n = untouchable ctl ccs' n.
Proof.
  intros P. unfold untouchable, no_pedal_down, pedal_events. f_equal. apply perm_forallb, perm_filter, P.
Qed.

Lemma Forall2_and {A B} (P Q : A -> B -> Prop) l l' :
  Forall2 P l l' -> Forall2 Q l l' -> Forall2 (fun a b => P a b /\ Q a b) l l'.
Proof.
  intros H. induction H; intros G; inversion G; subst; constructor; auto.
Qed.

Lemma Forall2_len {A B} (P : A -> B -> Prop) l l' : Forall2 P l l' -> length l = length l'.
Proof. induction 1; cbn; congruence. Qed.

Lemma Forall2_impl {A B} (P Q : A -> B -> Prop) l l' :
  (forall a b, P a b -> Q a b) -> Forall2 P l l' -> Forall2 Q l l'.
Proof. intros H. induction 1; constructor; auto. Qed.

Lemma Forall2_all {A B I} (P : I -> A -> B -> Prop) l l' :
  (forall i, Forall2 (P i) l l') -> length l = length l' -> Forall2 (fun a b => forall i, P i a b) l l'.
Proof.
  revert l'. induction l as [|a r IH]; intros [|b r'] H HL; try discriminate; constructor.
  - intros i. specialize (H i). now inversion H.
  - apply IH; [|now injection HL]. intros i. specialize (H i). now inversion H.
Qed.

(** note by note: only the end may change, and not even that for untouchable notes *)
Lemma sustain_per_note ctl s r :
  ordered_b (s_notes s) = true -> no_clash (s_notes s) = true -> apply_sustain ctl s = Some r ->
  Forall2 (fun n n' => n' = set_end n (n_end n') /\ (untouchable ctl (s_ccs s) n = true -> n' = n))
          (s_notes s) (s_notes r).
Proof.
  intros Hord Hnc H. apply apply_sustain_result in H. subst r. cbn [with_notes_total s_notes].
  pose proof (sustain_ends_monotone ctl (s_notes s) (s_ccs s) (s_total s) Hord Hnc) as M.
  pose proof (sustain_shape ctl (s_notes s) (s_ccs s) (s_total s)) as S. cbv zeta in S.
  pose proof (sustain_drums_unchanged ctl (s_notes s) (s_ccs s) (s_total s)) as D.
  assert (N : Forall2 (fun n c => forall i, no_pedal_down ctl i (s_ccs s) = true -> n_instr n = i -> c = mkCell n true)
                      (s_notes s) (fst (sustain_cells ctl (s_notes s) (s_ccs s) (s_total s)))).
  { assert (G : forall i, Forall2 (fun n c => no_pedal_down ctl i (s_ccs s) = true -> n_instr n = i -> c = mkCell n true)
                                  (s_notes s) (fst (sustain_cells ctl (s_notes s) (s_ccs s) (s_total s)))).
    { intros i. destruct (no_pedal_down ctl i (s_ccs s)) eqn:E.
      - pose proof (sustain_instrument_without_pedal ctl i _ _ (s_total s) Hord E) as W.
        eapply Forall2_impl; [|exact W]. cbn. intros a b X _. exact X.
      - eapply Forall2_impl; [|exact M]. cbn. intros a b _ X. discriminate X. }
    apply (Forall2_all (fun i n c => no_pedal_down ctl i (s_ccs s) = true -> n_instr n = i -> c = mkCell n true)).
    - exact G.
    - exact (Forall2_len _ _ _ M). }
  set (cs := fst (sustain_cells ctl (s_notes s) (s_ccs s) (s_total s))) in *. clearbody cs.
  rewrite live_all by (clear - M; induction M; constructor; tauto).
  pose proof (Forall2_and _ _ _ _ S (Forall2_and _ _ _ _ D N)) as All. clear - All.
  induction All as [|n c ns cs' (S1 & D1 & N1) _ IH]; cbn [map]; constructor; [|exact IH].
  split; [exact S1|]. unfold untouchable. intros U. apply orb_true_iff in U as [U|U].
  - now rewrite (D1 U).
  - now rewrite (N1 _ U eq_refl).
Qed.

Lemma per_note_consequences ctl ccs ns ns' :
  Forall2 (fun n n' => n' = set_end n (n_end n') /\ (untouchable ctl ccs n = true -> n' = n)) ns ns' ->
  map erase_end ns' = map erase_end ns /\
  filter (untouchable ctl ccs) ns' = filter (untouchable ctl ccs) ns.
Proof.
  induction 1 as [|n n' r r' (E & U) _ (IH1 & IH2)]; [split; reflexivity|].
  cbn [map filter]. split.
  - rewrite IH1. f_equal. rewrite E. reflexivity.
  - assert (untouchable ctl ccs n' = untouchable ctl ccs n) as -> by (rewrite E; reflexivity).
    destruct (untouchable ctl ccs n) eqn:Un; [|exact IH2]. rewrite (U eq_refl), IH2. reflexivity.
Qed.

Definition without_notes_total (s : seq) : seq := with_notes_total s [] 0.

Theorem perm_sustain_partial ctl s s' : seq_perm s s' ->
  ordered_b (s_notes s) = true -> no_clash (s_notes s) = true ->
  match apply_sustain ctl s, apply_sustain ctl s' with
  | Some r, Some r' =>
      seq_perm (without_notes_total r) (without_notes_total r') /\
      Permutation (map erase_end (s_notes r)) (map erase_end (s_notes r')) /\
      Permutation (filter (untouchable ctl (s_ccs s)) (s_notes r))
                  (filter (untouchable ctl (s_ccs s)) (s_notes r'))
  | None, None => True
  | _, _ => False
  end.
Proof.
  intros P Hord Hnc.
  assert (Hord' : ordered_b (s_notes s') = true) by (rewrite <- (ordered_perm _ _ (sp_notes _ _ P)); exact Hord).
  assert (Hnc' : no_clash (s_notes s') = true) by (eapply no_clash_perm; [apply (sp_notes _ _ P)|exact Hnc]).
  destruct (apply_sustain ctl s) as [r|] eqn:E1, (apply_sustain ctl s') as [r'|] eqn:E2.
  - pose proof (sustain_per_note ctl s r Hord Hnc E1) as N1.
    pose proof (sustain_per_note ctl s' r' Hord' Hnc' E2) as N2.
    apply per_note_consequences in N1 as [A1 B1]. apply per_note_consequences in N2 as [A2 B2].
    apply apply_sustain_result in E1, E2.
    split; [|split].
    + rewrite E1, E2. destruct P. constructor; cbn; try assumption; reflexivity.
    + rewrite A1, A2. apply Permutation_map, (sp_notes _ _ P).
    + rewrite B1.
      rewrite (filter_ext _ _ (fun n => untouchable_perm ctl _ _ n (sp_ccs _ _ P)) (s_notes r')), B2.
      rewrite <- (filter_ext _ _ (fun n => untouchable_perm ctl _ _ n (sp_ccs _ _ P)) (s_notes s')).
      apply perm_filter, (sp_notes _ _ P).
  - apply sustain_quantized_rejected in E2. assert (apply_sustain ctl s = None) as X.
    { apply sustain_quantized_rejected. rewrite (sp_spq _ _ P), (sp_sps _ _ P). exact E2. }
    congruence.
  - apply sustain_quantized_rejected in E1. assert (apply_sustain ctl s' = None) as X.
    { apply sustain_quantized_rejected. rewrite <- (sp_spq _ _ P), <- (sp_sps _ _ P). exact E1. }
    congruence.
  - exact I.
Qed.

(** the full statement when the pedal is never pressed *)
Theorem perm_sustain_no_pedal ctl s s' : seq_perm s s' -> ordered_b (s_notes s) = true ->
  (forall c, In c (s_ccs s) -> cc_num c = ctl -> is_on c = false) ->
  opt_rel seq_perm (apply_sustain ctl s) (apply_sustain ctl s').
Proof.
  intros P Hord Hcc.
  assert (Hord' : ordered_b (s_notes s') = true) by (rewrite <- (ordered_perm _ _ (sp_notes _ _ P)); exact Hord).
  assert (Hcc' : forall c, In c (s_ccs s') -> cc_num c = ctl -> is_on c = false).
  { intros c Hc. apply Hcc. eapply Permutation_in; [symmetry; apply (sp_ccs _ _ P)|exact Hc]. }
  assert (Q : is_quantized s' = is_quantized s) by (unfold is_quantized; now rewrite (sp_spq _ _ P), (sp_sps _ _ P)).
  destruct (is_quantized s) eqn:E.
  - assert (apply_sustain ctl s = None) as -> by (unfold apply_sustain, apply_sustain_gen; now rewrite E).
    assert (apply_sustain ctl s' = None) as -> by (unfold apply_sustain, apply_sustain_gen; now rewrite Q).
    exact I.
  - rewrite (sustain_no_pedal_identity ctl s E Hord Hcc), (sustain_no_pedal_identity ctl s' Q Hord' Hcc').
    exact P.
Qed.
