(** Proofs/PermCompose.v — C12 end to end for the event extractors: quantize the
    sequence as stored and a re-ordered copy (C01 model), then extract (C07 models).
    The hypothesis on time signatures of the extractor theorems ([tsigs_agree]) is
    discharged by what quantize_note_sequence returns (exactly one time signature). *)
From Coq Require Import ZArith List Bool Lia Permutation Sorted.
From NS Require Import Base.NoteSeq Model.PermDefs Proofs.PermTools.
From NS Require Model.Quantize Proofs.Quantize Proofs.PermSimple.
From NS Require Import Gen.G07 Model.FqCommon Model.FqMelody Model.FqDrums Model.FqChords
  Model.FqPianoroll Model.FqPerformance Proofs.PermFq.
Import ListNotations.
Local Open Scope Z_scope.

Module Q := NS.Model.Quantize.
Module QP := NS.Proofs.Quantize.
Module S := NS.Proofs.PermSimple.

Lemma quantized_tsigs_agree spq s q : Q.quantize_rel spq s = Q.Ok q -> tsigs_agree q.
Proof.
  intros H. destruct (QP.quantize_rel_ok _ _ _ H) as (num & den & qpm & _ & _ & _ & _ & _ & _ & _ & _ & _ & ->).
  unfold tsigs_agree, QP.result_of. cbn [s_tsigs]. intros a b [<-|[]] [<-|[]]. split; reflexivity.
Qed.

Lemma quantized_start_pitch spq s q : Q.quantize_rel spq s = Q.Ok q ->
  distinct_on start_pitch (s_notes s) -> distinct_on start_pitch (s_notes q).
Proof.
  intros H D. destruct (QP.quantize_rel_ok _ _ _ H) as (num & den & qpm & _ & _ & _ & _ & _ & _ & _ & _ & _ & ->).
  unfold QP.result_of. cbn [s_notes]. unfold distinct_on in *. rewrite map_map.
  erewrite map_ext; [exact D|]. intros n. reflexivity.
Qed.

Theorem perm_quantize_then_extract spq s s' : seq_perm s s' ->
  distinct_on tp_time (s_tempos s) -> distinct_on ts_time (s_tsigs s) ->
  match Q.quantize_rel spq s, Q.quantize_rel spq s' with
  | Q.Ok q, Q.Ok q' =>
      seq_perm q q' /\
      (forall p, pr_from_quantized p q' = pr_from_quantized p q) /\
      (forall p, distinct_on qstart_pitch (s_notes q) -> mel_from_quantized p q' = mel_from_quantized p q) /\
      (forall a b, distinct_on tx_qstep (filter is_chord (s_texts q)) ->
                   ch_from_quantized q' a b = ch_from_quantized q a b) /\
      (forall p, (forall spb, steps_per_bar q = Ok spb -> 0 < spb) ->
                 fq_rel dr_rel (dr_from_quantized p q) (dr_from_quantized p q')) /\
      (forall p, distinct_on start_pitch (s_notes s) ->
                 pf_from_quantized p (s_notes q') = pf_from_quantized p (s_notes q))
  | Q.Err e, Q.Err e' => e = e'
  | _, _ => False
  end.
Proof.
  intros P Dtp Dts. pose proof (S.perm_quantize_rel spq s s' P Dtp Dts) as R.
  destruct (Q.quantize_rel spq s) as [q|e] eqn:E1, (Q.quantize_rel spq s') as [q'|e'] eqn:E2;
    cbn in R; try contradiction; [|exact R].
  pose proof (quantized_tsigs_agree _ _ _ E1) as A.
  split; [exact R|].
  split; [intros p; now apply perm_pianorollseq|].
  split; [intros p D; now apply perm_melody|].
  split; [intros a b D; now apply perm_chords|].
  split; [intros p Hpos; now apply perm_drums|].
  intros p D. apply perm_performance; [apply (sp_notes _ _ R)|].
  eapply quantized_start_pitch; eassumption.
Qed.
