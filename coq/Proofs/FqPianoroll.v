(** Proofs/FqPianoroll.v — pianoroll_frames: the roll built by painting the notes in start
    order equals the declarative frame specification, for ALL note lists. *)
From Coq Require Import ZArith List Bool Lia ZifyBool Permutation Sorted.
From NS Require Import Base.NoteSeq Gen.G07 Model.FqCommon Model.FqPianoroll Model.FqSpec Proofs.FqCommon.
Import ListNotations.
Local Open Scope Z_scope.

Lemma pr_le_total a b : pr_le a b = true \/ pr_le b a = true.
Proof. unfold pr_le. lia. Qed.
Lemma pr_le_trans a b c : pr_le a b = true -> pr_le b c = true -> pr_le a c = true.
Proof. unfold pr_le. lia. Qed.

Lemma existsb_snoc {A} (f : A -> bool) l x : existsb f (l ++ [x]) = existsb f l || f x.
Proof. rewrite existsb_app. cbn [existsb]. now rewrite orb_false_r. Qed.

(** painting a start-sorted list of kept notes *)
Lemma pr_cell_sorted p ns s q :
  0 <= s ->
  StronglySorted (fun a b => pr_le a b = true) ns ->
  fold_left (pr_write p s q) ns false
  = existsb (fun n => (n_pitch n - pp_min_pitch p =? q) && (n_qstart n - pp_start p <=? s)
                      && (s <? n_qend n - pp_start p)) ns
    && negb (pp_split p && existsb (fun n => (n_pitch n - pp_min_pitch p =? q)
                                             && (n_qstart n - pp_start p =? s + 1)) ns).
Proof.
  intros Hs. induction ns as [|n l IH] using rev_ind; intros Hsorted; [reflexivity|].
  apply StronglySorted_app_inv in Hsorted. destruct Hsorted as (Hl & _ & Hle).
  rewrite fold_left_app. cbn [fold_left]. rewrite (IH Hl). rewrite !existsb_snoc.
  set (cov := existsb _ l). set (rst := existsb _ l).
  unfold pr_write.
  destruct ((n_pitch n - pp_min_pitch p =? q) && (n_qstart n - pp_start p <=? s)
            && (s <? n_qend n - pp_start p)) eqn:Ecov.
  - (* n covers the cell: nothing in l can restart at s+1 *)
    assert (rst = false) as ->.
    { unfold rst. apply not_true_is_false. intros H. apply existsb_exists in H.
      destruct H as (m & Hm & Hm'). specialize (Hle m n Hm (or_introl eq_refl)).
      unfold pr_le in Hle. lia. }
    rewrite orb_true_r.
    replace ((n_pitch n - pp_min_pitch p =? q) && (n_qstart n - pp_start p =? s + 1)) with false by lia.
    cbn. now rewrite andb_false_r.
  - rewrite orb_false_r.
    destruct (pp_split p) eqn:Esp; cbn [andb negb].
    + destruct ((n_pitch n - pp_min_pitch p =? q) && (n_qstart n - pp_start p =? s + 1)) eqn:Er.
      * replace ((0 <? n_qstart n - pp_start p) && (n_qstart n - pp_start p - 1 =? s)
                 && (n_pitch n - pp_min_pitch p =? q)) with true by lia.
        rewrite orb_true_r. now rewrite andb_false_r.
      * replace ((0 <? n_qstart n - pp_start p) && (n_qstart n - pp_start p - 1 =? s)
                 && (n_pitch n - pp_min_pitch p =? q)) with false by lia.
        now rewrite orb_false_r.
    + now rewrite !andb_true_r.
Qed.

Lemma pr_cell_spec p ns s q : 0 <= s -> pr_cell p (pr_notes p ns) s q = pr_spec_cell p ns s q.
Proof.
  intros Hs. unfold pr_cell, pr_notes, pr_spec_cell.
  rewrite pr_cell_sorted; [|exact Hs|apply isort_sorted; [apply pr_le_total|apply pr_le_trans]].
  rewrite !(existsb_perm _ _ _ (isort_perm pr_le _)), !existsb_filter.
  f_equal; [|do 2 f_equal]; apply existsb_ext || idtac.
  - clear. induction ns as [|n r IH]; cbn [existsb]; [reflexivity|]. rewrite IH. f_equal.
    unfold pr_covers. now rewrite !andb_assoc.
  - clear. induction ns as [|n r IH]; cbn [existsb]; [reflexivity|]. rewrite IH. f_equal.
    unfold pr_restarts. now rewrite !andb_assoc.
Qed.

(** ** pianoroll_frames *)
Theorem pianoroll_frames p s r :
  pr_from_quantized p s = Ok r ->
  pe_start r = pp_start p /\
  len (pe_events r) = s_qsteps s - pp_start p /\
  forall i, 0 <= i < s_qsteps s - pp_start p ->
    znth [] i (pe_events r) = pr_spec_frame p (s_notes s) i.
Proof.
  unfold pr_from_quantized. intros H.
  destruct (s_spq s <=? 0); [discriminate|].
  destruct ((s_qsteps s - pp_start p <? 0) || (pp_max_pitch p - pp_min_pitch p + 1 <? 0)) eqn:E; [discriminate|].
  destruct (negb (forallb _ _)); [discriminate|].
  injection H as <-. cbn [pe_start pe_events].
  split; [reflexivity|]. split.
  - rewrite len_map. unfold len. rewrite range_from_length. lia.
  - intros i Hi.
    rewrite (znth_map _ 0) by (unfold len; rewrite range_from_length; lia).
    rewrite znth_range_from by lia. unfold pr_spec_frame.
    apply filter_ext_in. intros q _. replace (0 + i) with i by lia. now apply pr_cell_spec.
Qed.

(** the frames are ascending, duplicate-free lists of offsets in range: a set of pitches *)
Lemma pr_spec_frame_In p ns s q :
  In q (pr_spec_frame p ns s) <->
  0 <= q <= pp_max_pitch p - pp_min_pitch p /\ pr_spec_cell p ns s q = true.
Proof.
  unfold pr_spec_frame. rewrite filter_In, In_range_from. intuition lia.
Qed.

(** the error exits *)
Theorem pianoroll_errors p s :
  (forall n, In n (s_notes s) -> n_qend n <= s_qsteps s /\ n_qstart n < n_qend n) ->
  pp_min_pitch p <= pp_max_pitch p + 1 ->
  match pr_from_quantized p s with
  | Ok _ => 0 < s_spq s /\ pp_start p <= s_qsteps s
  | Err c => (c = E_QSTATUS /\ s_spq s <= 0) \/ (c = E_VALUE /\ s_qsteps s < pp_start p)
  end.
Proof.
  intros Hwf Hw. unfold pr_from_quantized.
  destruct (s_spq s <=? 0) eqn:E1; [left; split; [reflexivity|lia]|].
  destruct ((s_qsteps s - pp_start p <? 0) || (pp_max_pitch p - pp_min_pitch p + 1 <? 0)) eqn:E2.
  - right. split; [reflexivity|lia].
  - destruct (forallb (pr_index_ok p (s_qsteps s - pp_start p)) (pr_notes p (s_notes s))) eqn:E3;
      cbn [negb]; [lia|].
    exfalso. apply not_true_iff_false in E3. apply E3. apply forallb_forall.
    intros n Hn. apply isort_In, filter_In in Hn. destruct Hn as (Hn & _).
    destruct (Hwf n Hn). unfold pr_index_ok. lia.
Qed.
