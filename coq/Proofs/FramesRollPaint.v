(** Proofs/FramesRollPaint.v — generic "last writer wins" semantics of a sequence
    of numpy slice assignments m[s:e, col] = f(row) on a rows x cols matrix
    (used for the velocity and weights rolls of sequence_to_pianoroll, C18). *)
From Coq Require Import ZArith List Bool Lia.
From NS Require Import Model.FramesRoll.
Import ListNotations.
Local Open Scope Z_scope.

Section Generic.
Context {A : Type} (d : A).

Definition gmg (m : list (list A)) (i k : nat) : A := nth k (nth i m []) d.
Definition grect (m : list (list A)) (R P : nat) : Prop :=
  length m = R /\ forall r, In r m -> length r = P.

Lemma gset_nth_length (v : A) : forall l p, length (set_nth p v l) = length l.
Proof. induction l as [|x l IH]; intros [|p]; cbn; auto. Qed.

Lemma gset_nth_nth (v : A) : forall l p q, (p < length l)%nat ->
  nth q (set_nth p v l) d = if Nat.eqb q p then v else nth q l d.
Proof.
  induction l as [|x l IH]; intros p q Hp; [cbn in Hp; lia|].
  destruct p, q; cbn [set_nth nth Nat.eqb]; try reflexivity.
  apply IH. cbn in Hp. lia.
Qed.

Lemma gnth_nil k : nth k (@nil A) d = d.
Proof. destruct k; reflexivity. Qed.

(* does the assignment m[s:e, col] touch cell (j, q)?  (0 <= s, 0 <= e; rows clipped by the caller) *)
Definition gcovers (s e : Z) (col : nat) (j q : nat) : bool :=
  (s <=? Z.of_nat j) && (Z.of_nat j <? e) && Nat.eqb q col.

Lemma gpaint_from_spec lo hi p (f : Z -> A) : forall m i0 R P, grect m R P -> (p < P)%nat ->
  grect (paint_from i0 lo hi p f m) R P /\
  forall j q, gmg (paint_from i0 lo hi p f m) j q =
              if (Nat.ltb j R) && (lo <=? i0 + Z.of_nat j) && (i0 + Z.of_nat j <? hi) && Nat.eqb q p
              then f (i0 + Z.of_nat j) else gmg m j q.
Proof.
  induction m as [|row r IH]; intros i0 R P [Hl Hr] Hp.
  - cbn in Hl. subst R. cbn [paint_from]. split; [split; [reflexivity|intros ? []]|].
    intros j q. cbn. reflexivity.
  - cbn [length] in Hl. destruct R as [|R]; [discriminate|]. injection Hl as Hl.
    assert (Hrect : grect r R P) by (split; [assumption|intros x Hx; apply Hr; right; assumption]).
    destruct (IH (i0 + 1) R P Hrect Hp) as [[IH1 IH2] IH3].
    assert (Hrow : length row = P) by (apply Hr; left; reflexivity).
    cbn [paint_from]. split.
    + split; [cbn [length]; rewrite IH1; reflexivity|].
      intros x [Hx|Hx]; [|apply IH2; assumption]. subst x.
      destruct ((lo <=? i0) && (i0 <? hi)); [rewrite gset_nth_length|]; assumption.
    + intros [|j] q; unfold gmg; cbn [nth].
      * replace (i0 + Z.of_nat 0) with i0 by lia. cbn [Nat.ltb Nat.leb andb].
        destruct ((lo <=? i0) && (i0 <? hi)) eqn:E; cbn [andb].
        -- rewrite gset_nth_nth by lia. reflexivity.
        -- destruct (lo <=? i0); destruct (i0 <? hi); try discriminate; reflexivity.
      * fold (gmg (paint_from (i0 + 1) lo hi p f r) j q). rewrite IH3.
        replace (i0 + 1 + Z.of_nat j) with (i0 + Z.of_nat (S j)) by lia.
        change (Nat.ltb (S j) (S R)) with (Nat.ltb j R). reflexivity.
Qed.

Lemma gpaint_spec m R P s e p (f : Z -> A) : grect m R P -> (p < P)%nat -> 0 <= s -> 0 <= e ->
  grect (paint m s e p f) R P /\
  forall j q, gmg (paint m s e p f) j q =
              if gcovers s e p j q && Nat.ltb j R then f (Z.of_nat j) else gmg m j q.
Proof.
  intros Hm Hp Hs He. unfold paint. cbv zeta.
  assert (Hlen : Z.of_nat (length m) = Z.of_nat R) by (destruct Hm as [-> _]; reflexivity).
  rewrite Hlen.
  assert (Hidx : forall x, 0 <= x -> py_idx (Z.of_nat R) x = Z.min x (Z.of_nat R)).
  { intros x Hx. unfold py_idx. destruct (x <? 0) eqn:E; [apply Z.ltb_lt in E; lia|reflexivity]. }
  rewrite !Hidx by assumption.
  destruct (gpaint_from_spec (Z.min s (Z.of_nat R)) (Z.min e (Z.of_nat R)) p f m 0 R P Hm Hp) as [H1 H2].
  split; [assumption|]. intros j q. rewrite H2. unfold gcovers. cbn [Z.add].
  destruct (Nat.ltb j R) eqn:Ej; [|rewrite andb_false_r; reflexivity].
  apply Nat.ltb_lt in Ej. cbn [andb]. rewrite andb_true_r.
  replace (Z.min s (Z.of_nat R) <=? Z.of_nat j) with (s <=? Z.of_nat j)
    by (destruct (s <=? Z.of_nat j) eqn:E1; destruct (Z.min s (Z.of_nat R) <=? Z.of_nat j) eqn:E2; try reflexivity;
        [apply Z.leb_le in E1; apply Z.leb_gt in E2; lia|apply Z.leb_gt in E1; apply Z.leb_le in E2; lia]).
  replace (Z.of_nat j <? Z.min e (Z.of_nat R)) with (Z.of_nat j <? e)
    by (destruct (Z.of_nat j <? e) eqn:E1; destruct (Z.of_nat j <? Z.min e (Z.of_nat R)) eqn:E2; try reflexivity;
        [apply Z.ltb_lt in E1; apply Z.ltb_ge in E2; lia|apply Z.ltb_ge in E1; apply Z.ltb_lt in E2; lia]).
  reflexivity.
Qed.

Lemma gblank_rect R P : 0 <= R -> 0 <= P -> grect (blank R P d) (Z.to_nat R) (Z.to_nat P).
Proof.
  intros. unfold blank. split; [apply repeat_length|].
  intros r Hr. apply repeat_spec in Hr. subst. apply repeat_length.
Qed.

Lemma gblank_mg R P j q : gmg (blank R P d) j q = d.
Proof.
  unfold gmg, blank.
  destruct (nth_in_or_default j (repeat (repeat d (Z.to_nat P)) (Z.to_nat R)) []) as [H|H].
  - apply repeat_spec in H. rewrite H.
    destruct (nth_in_or_default q (repeat d (Z.to_nat P)) d) as [H'|H']; [apply repeat_spec in H'|]; assumption.
  - rewrite H. apply gnth_nil.
Qed.

(* a sequence of slice assignments, one per element of l *)
Variable B : Type.
Variable op : B -> Z * Z * nat * (Z -> A).     (* start row, end row, column, value per row *)

Definition op_s (n : B) := fst (fst (fst (op n))).
Definition op_e (n : B) := snd (fst (fst (op n))).
Definition op_col (n : B) := snd (fst (op n)).
Definition op_f (n : B) := snd (op n).

Definition apply_ops (l : list B) (m : list (list A)) : list (list A) :=
  fold_left (fun m n => paint m (op_s n) (op_e n) (op_col n) (op_f n)) l m.

(* the value of a cell: the last assignment that touches it wins *)
Definition last_write (R : nat) (j q : nat) (l : list B) (a : A) : A :=
  fold_left (fun acc n => if gcovers (op_s n) (op_e n) (op_col n) j q && Nat.ltb j R then op_f n (Z.of_nat j) else acc) l a.

Lemma apply_ops_spec : forall l m R P, grect m R P ->
  (forall n, In n l -> 0 <= op_s n /\ 0 <= op_e n /\ (op_col n < P)%nat) ->
  grect (apply_ops l m) R P /\
  forall j q, gmg (apply_ops l m) j q = last_write R j q l (gmg m j q).
Proof.
  induction l as [|n l IH]; intros m R P Hm Hl.
  - cbn. split; [assumption|reflexivity].
  - unfold apply_ops, last_write. cbn [fold_left].
    destruct (Hl n (or_introl eq_refl)) as (H1 & H2 & H3).
    destruct (gpaint_spec m R P _ _ _ (op_f n) Hm H3 H1 H2) as [Hr Hg].
    destruct (IH _ R P Hr (fun n' Hn' => Hl n' (or_intror Hn'))) as [IH1 IH2].
    split; [exact IH1|]. intros j q. unfold apply_ops, last_write in IH2. rewrite IH2, Hg. reflexivity.
Qed.
End Generic.

(* last element of l satisfying cov *)
Definition last_cover {B} (cov : B -> bool) (l : list B) : option B :=
  fold_left (fun acc n => if cov n then Some n else acc) l None.

Lemma last_cover_gen {B} (cov : B -> bool) : forall l a,
  fold_left (fun acc n => if cov n then Some n else acc) l a =
  match last_cover cov l with Some n => Some n | None => a end.
Proof.
  unfold last_cover. induction l as [|x l IH]; intros a; [reflexivity|].
  cbn [fold_left]. rewrite IH. rewrite (IH (if cov x then Some x else None)).
  destruct (fold_left _ l None); [reflexivity|]. destruct (cov x); reflexivity.
Qed.

Lemma last_cover_some {B} (cov : B -> bool) : forall l n, last_cover cov l = Some n -> In n l /\ cov n = true.
Proof.
  unfold last_cover. induction l as [|x l IH] using rev_ind; intros n H; [discriminate|].
  rewrite fold_left_app in H. cbn [fold_left] in H.
  destruct (cov x) eqn:E.
  - inversion H; subst. split; [apply in_or_app; right; left; reflexivity|assumption].
  - destruct (IH n H) as [H1 H2]. split; [apply in_or_app; left|]; assumption.
Qed.

Lemma last_cover_none {B} (cov : B -> bool) : forall l, last_cover cov l = None <-> forall n, In n l -> cov n = false.
Proof.
  unfold last_cover. induction l as [|x l IH] using rev_ind.
  - split; [intros _ n []|reflexivity].
  - rewrite fold_left_app. cbn [fold_left]. destruct (cov x) eqn:E.
    + split; [discriminate|]. intros H. rewrite (H x) in E; [discriminate|apply in_or_app; right; left; reflexivity].
    + rewrite IH. split.
      * intros H n Hn. apply in_app_or in Hn. destruct Hn as [Hn|[<-|[]]]; [apply H; assumption|assumption].
      * intros H n Hn. apply H. apply in_or_app. left. assumption.
Qed.

(* a constant value per element: the cell holds the value of the last covering element *)
Lemma last_write_const {A B} (op : B -> Z * Z * nat * (Z -> A)) (val : B -> A) R j q : forall l a,
  (forall n, In n l -> forall i, @op_f A B op n i = val n) ->
  @last_write A B op R j q l a =
  match last_cover (fun n => gcovers (@op_s A B op n) (@op_e A B op n) (@op_col A B op n) j q && Nat.ltb j R) l with
  | Some n => val n | None => a end.
Proof.
  unfold last_write, last_cover. induction l as [|x l IH] using rev_ind; intros a Hc; [reflexivity|].
  rewrite !fold_left_app. cbn [fold_left].
  destruct (gcovers _ _ _ j q && Nat.ltb j R).
  - apply Hc. apply in_or_app. right. left. reflexivity.
  - apply IH. intros n Hn. apply Hc. apply in_or_app. left. assumption.
Qed.
