(** Proofs/QuantizeTop.v — C01: the float layer and the sequence layer put
    together for the two public entry points. *)
From Coq Require Import ZArith List Bool Reals Floats Lia Lra.
From Flocq Require Import Core BinarySingleNaN PrimFloat.
From NS Require Import Base.Sx Base.NoteSeq Base.FloatBridge Gen.G01 Model.Quantize
                       Proofs.Quantize Proofs.QuantizeFloat Proofs.QuantizeFloatExt.
Import ListNotations.

(** a float time "in range": finite, |t| <= 2^40 s *)
Definition time_ok (c : Z) : Prop := fin (fdec c) /\ Rabs (R_of (fdec c)) <= bpow radix2 40.
(** a resolution "in range": finite, 0 <= sps <= 2^20 *)
Definition sps_ok (sps : PrimFloat.float) : Prop := fin sps /\ (0 <= R_of sps <= bpow radix2 20)%R.

(** in terms of codes alone: a code below the infinity pattern whose value is at most 2^40 in magnitude *)
Lemma time_ok_code c : code_ok c -> (Rabs (code_val c) <= bpow radix2 40)%R -> time_ok c.
Proof. intros H B. destruct (fdec_R c H) as [E F]. split; [exact F|]. rewrite E. exact B. Qed.

Lemma prod_bound c sps : time_ok c -> sps_ok sps ->
  (Rabs (R_of (fdec c) * R_of sps) <= bpow radix2 60)%R.
Proof.
  intros [_ Ht] [_ [S0 S1]]. rewrite Rabs_mult, (Rabs_pos_eq (R_of sps)) by lra.
  replace (bpow radix2 60) with (bpow radix2 40 * bpow radix2 20)%R by (rewrite <- bpow_plus; reflexivity).
  apply Rmult_le_compat; try lra. apply Rabs_pos.
Qed.

(** * Step function facts for any in-range resolution *)
Section Step.
Variable sps : PrimFloat.float.
Hypothesis Hsps : sps_ok sps.

Lemma qstep_mono c1 c2 : time_ok c1 -> time_ok c2 ->
  (R_of (fdec c1) <= R_of (fdec c2))%R -> (qstep sps c1 <= qstep sps c2)%Z.
Proof.
  intros [F1 B1] [F2 B2] H. destruct Hsps as [Fs Bs]. unfold qstep.
  apply q2s_mono_any; assumption.
Qed.

(** every note whose end is not before its start is at least one step long *)
Lemma note_min_length n : time_ok (n_start n) -> time_ok (n_end n) ->
  (R_of (fdec (n_start n)) <= R_of (fdec (n_end n)))%R ->
  (n_qstart (qnote (qstep sps) n) + 1 <= n_qend (qnote (qstep sps) n))%Z.
Proof.
  intros H1 H2 H. cbn [qnote note_with_qsteps n_qstart n_qend].
  apply qend_min_length. apply qstep_mono; assumption.
Qed.

(** non-negative times are never rejected *)
Lemma qstep_nonneg c : time_ok c -> (0 <= R_of (fdec c))%R -> (0 <= qstep sps c)%Z.
Proof.
  intros Hc H0. pose proof (prod_bound c sps Hc Hsps) as B. destruct Hc as [Fc _]. destruct Hsps as [Fs [S0 _]].
  unfold qstep. apply q2s_nonneg; try assumption.
  assert (0 <= R_of (fdec c) * R_of sps)%R by (apply Rmult_le_pos; assumption).
  rewrite Rabs_pos_eq in B by assumption. lra.
Qed.

Lemma seq_nonneg_accepted s :
  (forall n, In n (s_notes s) -> time_ok (n_start n) /\ time_ok (n_end n) /\
                                   (0 <= R_of (fdec (n_start n)))%R /\ (0 <= R_of (fdec (n_end n)))%R) ->
  (forall c, In c (s_ccs s) -> time_ok (cc_time c) /\ (0 <= R_of (fdec (cc_time c)))%R) ->
  (forall t, In t (s_texts s) -> time_ok (tx_time t) /\ (0 <= R_of (fdec (tx_time t)))%R) ->
  seq_neg (qstep sps) s = false.
Proof.
  intros Hn Hc Ht. destruct (seq_neg (qstep sps) s) eqn:E; [exfalso|reflexivity].
  apply seq_neg_true_iff in E. destruct E as [(n & In_n & H)|[(c & In_c & H)|(t & In_t & H)]].
  - destruct (Hn n In_n) as (T1 & T2 & P1 & P2).
    pose proof (qstep_nonneg _ T1 P1). pose proof (qstep_nonneg _ T2 P2).
    destruct H as [H|H]; [lia|]. apply qend_neg in H. lia.
  - destruct (Hc c In_c) as (T1 & P1). pose proof (qstep_nonneg _ T1 P1). lia.
  - destruct (Ht t In_t) as (T1 & P1). pose proof (qstep_nonneg _ T1 P1). lia.
Qed.

(** a note start, control change or annotation two or more steps before zero is rejected *)
Lemma qstep_negative c : time_ok c -> (R_of (fdec c) * R_of sps <= -2)%R -> (qstep sps c < 0)%Z.
Proof.
  intros Hc H. pose proof (prod_bound c sps Hc Hsps) as B. destruct Hc as [Fc _]. destruct Hsps as [Fs _].
  unfold qstep. apply q2s_negative; try assumption.
  rewrite Rabs_left1 in B by lra. lra.
Qed.

Lemma seq_negative_rejected s :
  (exists n, In n (s_notes s) /\ time_ok (n_start n) /\ (R_of (fdec (n_start n)) * R_of sps <= -2)%R) \/
  (exists c, In c (s_ccs s) /\ time_ok (cc_time c) /\ (R_of (fdec (cc_time c)) * R_of sps <= -2)%R) \/
  (exists t, In t (s_texts s) /\ time_ok (tx_time t) /\ (R_of (fdec (tx_time t)) * R_of sps <= -2)%R) ->
  seq_neg (qstep sps) s = true.
Proof.
  intros H. apply seq_neg_true_iff.
  destruct H as [(n & I & T & P)|[(c & I & T & P)|(t & I & T & P)]].
  - left. exists n. split; [exact I|]. left. apply qstep_negative; assumption.
  - right; left. exists c. split; [exact I|]. apply qstep_negative; assumption.
  - right; right. exists t. split; [exact I|]. apply qstep_negative; assumption.
Qed.
End Step.

(** * Absolute quantization *)
Lemma abs_sps_ok sps : (0 <= sps <= 2 ^ 20)%Z -> sps_ok (sps_abs sps).
Proof. intros H. destruct (sps_abs_R sps H) as (_ & F & B). split; assumption. Qed.

Theorem abs_nonneg_accepted sps s :
  (0 <= sps <= 2 ^ 20)%Z ->
  (forall n, In n (s_notes s) -> time_ok (n_start n) /\ time_ok (n_end n) /\
                                   (0 <= R_of (fdec (n_start n)))%R /\ (0 <= R_of (fdec (n_end n)))%R) ->
  (forall c, In c (s_ccs s) -> time_ok (cc_time c) /\ (0 <= R_of (fdec (cc_time c)))%R) ->
  (forall t, In t (s_texts s) -> time_ok (tx_time t) /\ (0 <= R_of (fdec (tx_time t)))%R) ->
  quantize_abs sps s = Ok (result_of (abs_q sps) 0 sps (s_tempos s) (s_tsigs s) s).
Proof.
  intros Hs Hn Hc Ht. rewrite quantize_abs_eq. unfold abs_q.
  rewrite (seq_nonneg_accepted _ (abs_sps_ok sps Hs) s Hn Hc Ht). reflexivity.
Qed.

Theorem abs_negative_rejected sps s n :
  (0 <= sps <= 2 ^ 20)%Z -> In n (s_notes s) -> time_ok (n_start n) ->
  (R_of (fdec (n_start n)) * IZR sps <= -2)%R ->
  quantize_abs sps s = Err NegativeTime.
Proof.
  intros Hs I T P. rewrite quantize_abs_eq. unfold abs_q.
  rewrite (seq_negative_rejected _ (abs_sps_ok sps Hs) s); [reflexivity|].
  left. exists n. split; [exact I|]. split; [exact T|].
  destruct (sps_abs_R sps Hs) as (E & _). rewrite E. exact P.
Qed.

Theorem abs_note_min_length sps s n :
  (0 <= sps <= 2 ^ 20)%Z -> In n (s_notes s) ->
  time_ok (n_start n) -> time_ok (n_end n) ->
  (R_of (fdec (n_start n)) <= R_of (fdec (n_end n)))%R ->
  let n' := qnote (abs_q sps) n in
  In n' (s_notes (result_of (abs_q sps) 0 sps (s_tempos s) (s_tsigs s) s)) /\
  (n_qstart n' + 1 <= n_qend n')%Z.
Proof.
  intros Hs I T1 T2 H. split.
  - cbn [result_of s_notes]. apply in_map, I.
  - apply (note_min_length _ (abs_sps_ok sps Hs)); assumption.
Qed.

(** * Relative quantization *)
Lemma rel_sps_ok spq qpm :
  (1 <= spq <= 1024)%Z -> fin (fdec qpm) -> (1 <= R_of (fdec qpm) <= 1024)%R ->
  sps_ok (sps_rel spq (fdec qpm)).
Proof.
  intros Hs F B. destruct (sps_rel_R spq (fdec qpm) Hs F B) as (F' & [B0 B1] & _).
  split; [exact F'|]. split; lra.
Qed.

Theorem rel_note_min_length spq qpm n :
  (1 <= spq <= 1024)%Z -> fin (fdec qpm) -> (1 <= R_of (fdec qpm) <= 1024)%R ->
  time_ok (n_start n) -> time_ok (n_end n) ->
  (R_of (fdec (n_start n)) <= R_of (fdec (n_end n)))%R ->
  (n_qstart (qnote (rel_q spq qpm) n) + 1 <= n_qend (qnote (rel_q spq qpm) n))%Z.
Proof.
  intros Hs F B T1 T2 H. apply (note_min_length _ (rel_sps_ok spq qpm Hs F B)); assumption.
Qed.

Theorem rel_negative_rejected spq s qpm n :
  (1 <= spq <= 1024)%Z -> fin (fdec qpm) -> (1 <= R_of (fdec qpm) <= 1024)%R ->
  check_tempos false (s_tempos s) = Ok [mkTempo 0 qpm] ->
  In n (s_notes s) -> time_ok (n_start n) ->
  (R_of (fdec (n_start n)) * R_of (sps_rel spq (fdec qpm)) <= -2)%R ->
  exists e, quantize_rel spq s = Err e.
Proof.
  intros Hs F B Etp I T P. rewrite quantize_rel_eq.
  destruct (check_tsigs false (s_tsigs s)) as [tss|e]; [|eexists; reflexivity].
  destruct (negb (check_tsig_value (hd_tsig tss))); [eexists; reflexivity|].
  rewrite Etp. cbn [hd_tempo hd tp_qpm]. cbv zeta. unfold rel_q.
  rewrite (seq_negative_rejected _ (rel_sps_ok spq qpm Hs F B) s); [eexists; reflexivity|].
  left. exists n. split; [exact I|]. split; [exact T|exact P].
Qed.

(** * Stretch invariance, exact arithmetic: stretching all times by f and dividing the tempo by f
    leaves every position in steps unchanged *)
Theorem stretch_invariance_exact (t f spq qpm : R) :
  (f <> 0)%R -> ((t * f) * (spq * (qpm / f) / 60) = t * (spq * qpm / 60))%R.
Proof. intros Hf. field. exact Hf. Qed.

(** * Non-vacuity witnesses *)
Example q2s_nearest_nonvacuous :
  let t := f_of_Z 1 in let s := f_of_Z 100 in
  fin t /\ fin s /\ (0 <= R_of t * R_of s <= bpow radix2 60)%R /\
  (forall k : Z, (Rabs (R_of t * R_of s - (IZR k + / 2)) > bpow radix2 (-50) * (R_of t * R_of s + 1))%R) /\
  q2s t s = 100%Z.
Proof.
  cbv zeta. destruct (f_of_Z_R 1 ltac:(lia)) as [E1 F1]. destruct (f_of_Z_R 100 ltac:(lia)) as [E2 F2].
  split; [exact F1|]. split; [exact F2|]. rewrite E1, E2.
  assert (B60 : (1024 <= bpow radix2 60)%R).
  { replace 1024%R with (bpow radix2 10) by (cbn; lra). apply bpow_le. lia. }
  assert (B50 : (bpow radix2 (-50) <= / 1024)%R).
  { replace (/ 1024)%R with (bpow radix2 (-10)) by (cbn; lra). apply bpow_le. lia. }
  pose proof (bpow_gt_0 radix2 (-50)).
  split; [lra|]. split.
  - intros k. destruct (Z_lt_le_dec k 100) as [Hk|Hk].
    + assert (IZR k <= 99)%R by (apply (IZR_le k 99); lia). rewrite Rabs_pos_eq by lra. lra.
    + assert (100 <= IZR k)%R by (apply (IZR_le 100 k); lia). rewrite Rabs_left1 by lra. lra.
  - vm_compute. reflexivity.
Qed.

Local Open Scope Z_scope.
(** concrete sequences (times are float codes: 0.26 s, 1.0 s, 2.5 s, 3.0 s; 60 qpm) *)
Definition ex_note (s e : Z) : note := mkNote 60 100 s e 0 0 false 0 0 7.
Definition ex_seq (tps : list tempo) (tss : list tsig) : seq :=
  mkSeq [ex_note 4598355363530371236 4598355363530371236; ex_note 4607182418800017408 4612811918334230528]
        tps tss [mkKsig 0 3 0] [mkText 4607182418800017408 0 [67] 1] [mkCc 4612811918334230528 0 64 127 0 0 false]
        [] [] 4613937818241073152 0 0 0 (0, 0) 220 99.

(** absolute, 2 steps per second: the zero-length note at 0.26 s becomes (1, 2); 1.0..2.5 s becomes (2, 5);
    total_time 3.0 s gives 6 steps; nothing else changes *)
Example quantize_abs_nonvacuous :
  quantize_abs 2 (ex_seq [mkTempo 0 4633641066610819072] []) =
  Ok (mkSeq [note_with_qsteps (ex_note 4598355363530371236 4598355363530371236) 1 2;
             note_with_qsteps (ex_note 4607182418800017408 4612811918334230528) 2 5]
            [mkTempo 0 4633641066610819072] [] [mkKsig 0 3 0] [mkText 4607182418800017408 2 [67] 1]
            [mkCc 4612811918334230528 5 64 127 0 0 false] [] [] 4613937818241073152 6 0 2 (0, 0) 220 99).
Proof. vm_compute. reflexivity. Qed.

(** relative, 4 steps per quarter at the single tempo 60 qpm stored twice (out of time order) *)
Example quantize_rel_nonvacuous :
  quantize_rel 4 (ex_seq [mkTempo 4617315517961601024 4633641066610819072; mkTempo 0 4633641066610819072]
                         [mkTsig 0 3 4]) =
  Ok (mkSeq [note_with_qsteps (ex_note 4598355363530371236 4598355363530371236) 1 2;
             note_with_qsteps (ex_note 4607182418800017408 4612811918334230528) 4 10]
            [mkTempo 0 4633641066610819072] [mkTsig 0 3 4] [mkKsig 0 3 0] [mkText 4607182418800017408 4 [67] 1]
            [mkCc 4612811918334230528 10 64 127 0 0 false] [] [] 4613937818241073152 12 4 0 (0, 0) 220 99).
Proof. vm_compute. reflexivity. Qed.

(** the witness of DESIGN F1 on the repaired model: tempos stored [60 qpm @ 5 s; 120 qpm @ 0 s] *)
Example quantize_rel_rejects_F1_witness :
  quantize_rel 4 (ex_seq [mkTempo 4617315517961601024 4633641066610819072; mkTempo 0 DEFAULT_QPM_CODE] []) =
  Err MultipleTempo.
Proof. vm_compute. reflexivity. Qed.

(** ... and on the model of the code before the repair: accepted and quantized at 60 qpm *)
Theorem quantize_rel_legacy_refuted :
  exists s t1 t2 s', In t1 (s_tempos s) /\ In t2 (s_tempos s) /\ tp_qpm t1 <> tp_qpm t2 /\
                     quantize_rel_legacy 4 s = Ok s'.
Proof.
  eexists (ex_seq [mkTempo 4617315517961601024 4633641066610819072; mkTempo 0 DEFAULT_QPM_CODE] []),
          (mkTempo 4617315517961601024 4633641066610819072), (mkTempo 0 DEFAULT_QPM_CODE), _.
  split; [left; reflexivity|]. split; [right; left; reflexivity|]. split; [vm_compute; discriminate|].
  vm_compute. reflexivity.
Qed.

Example time_ok_nonvacuous : time_ok 4612811918334230528 /\ R_of (fdec 4612811918334230528) = (5 / 2)%R.
Proof.
  assert (E : R_of (fdec 4612811918334230528) = (5 / 2)%R).
  { rewrite R_of_SF.
    replace (Prim2SF (fdec 4612811918334230528)) with (S754_finite false 5629499534213120 (-51))
      by (vm_compute; reflexivity).
    unfold SF2R, F2R. cbn -[IZR]. lra. }
  split; [|exact E]. split; [reflexivity|]. rewrite E, Rabs_pos_eq by lra.
  apply Rle_trans with (bpow radix2 2). cbn; lra. apply bpow_le. lia.
Qed.
