(** Proofs/PermTools.v — generic lemmas for C12: what is invariant under
    [Permutation] (filter, map, existsb, forallb, max folds), uniqueness of a sorted
    permutation, the stable insertion sort by an integer key and its invariance
    under permutation of a list with distinct keys. *)
From Coq Require Import ZArith List Bool Lia Permutation Sorted.
From NS Require Import Base.NoteSeq Model.PermDefs.
Import ListNotations.
Local Open Scope Z_scope.

(** * seq_perm is an equivalence *)
Lemma seq_perm_refl s : seq_perm s s.
Proof. constructor; reflexivity. Qed.

Lemma seq_perm_sym a b : seq_perm a b -> seq_perm b a.
Proof. intros []. constructor; solve [symmetry; assumption]. Qed.

Lemma seq_perm_trans a b c : seq_perm a b -> seq_perm b c -> seq_perm a c.
Proof. intros [] []. constructor; solve [etransitivity; eassumption]. Qed.

(** * filter / existsb / forallb / length *)
Lemma perm_filter {A} (f : A -> bool) l l' : Permutation l l' -> Permutation (filter f l) (filter f l').
Proof.
  induction 1 as [|x l l' _ IH|x y l|l l' l'' _ IH1 _ IH2]; cbn [filter].
  - constructor.
  - destruct (f x); [constructor|]; exact IH.
  - destruct (f x), (f y); try reflexivity. apply perm_swap.
  - etransitivity; eassumption.
Qed.

Lemma perm_existsb {A} (f : A -> bool) l l' : Permutation l l' -> existsb f l = existsb f l'.
Proof.
  induction 1 as [|x l l' _ IH|x y l|l l' l'' _ IH1 _ IH2]; cbn [existsb].
  - reflexivity.
  - now rewrite IH.
  - destruct (f x), (f y); reflexivity.
  - congruence.
Qed.

Lemma perm_forallb {A} (f : A -> bool) l l' : Permutation l l' -> forallb f l = forallb f l'.
Proof.
  induction 1 as [|x l l' _ IH|x y l|l l' l'' _ IH1 _ IH2]; cbn [forallb].
  - reflexivity.
  - now rewrite IH.
  - destruct (f x), (f y); reflexivity.
  - congruence.
Qed.

Lemma perm_filter_length {A} (f : A -> bool) l l' :
  Permutation l l' -> length (filter f l) = length (filter f l').
Proof. intros H. apply Permutation_length, perm_filter, H. Qed.

(** * max folds *)
Lemma perm_fold_right_max {A} (g : A -> Z) (z : Z) l l' : Permutation l l' ->
  fold_right (fun n m => Z.max (g n) m) z l = fold_right (fun n m => Z.max (g n) m) z l'.
Proof.
  induction 1 as [|x l l' _ IH|x y l|l l' l'' _ IH1 _ IH2]; cbn [fold_right].
  - reflexivity.
  - now rewrite IH.
  - lia.
  - congruence.
Qed.

(** * distinct keys *)
Lemma distinct_on_inj {A B} (key : A -> B) l a b :
  distinct_on key l -> In a l -> In b l -> key a = key b -> a = b.
Proof.
  unfold distinct_on. induction l as [|x r IH]; cbn [map In]; [intros _ []|].
  intros Hnd Ha Hb E. inversion Hnd as [|? ? Hx Hr]; subst.
  destruct Ha as [->|Ha], Hb as [->|Hb].
  - reflexivity.
  - exfalso. apply Hx. rewrite E. apply in_map, Hb.
  - exfalso. apply Hx. rewrite <- E. apply in_map, Ha.
  - now apply IH.
Qed.

Lemma distinct_on_perm {A B} (key : A -> B) l l' :
  Permutation l l' -> distinct_on key l -> distinct_on key l'.
Proof. unfold distinct_on. intros H. apply Permutation_NoDup, Permutation_map, H. Qed.

Lemma distinct_on_filter {A B} (key : A -> B) (f : A -> bool) l :
  distinct_on key l -> distinct_on key (filter f l).
Proof.
  unfold distinct_on. induction l as [|x r IH]; cbn [filter map]; [trivial|].
  intros H. inversion H as [|? ? Hx Hr]; subst.
  destruct (f x); cbn [map]; [|now apply IH].
  constructor; [|now apply IH].
  intros Hin. apply Hx. apply in_map_iff in Hin as (y & Ey & Hy). apply filter_In in Hy as [Hy _].
  rewrite <- Ey. apply in_map, Hy.
Qed.

(** a coarser key that is still distinct on a sub-list where the rest of the key is constant *)
Lemma distinct_on_coarser {A B C} (key : A -> B) (key' : A -> C) l :
  (forall a b, In a l -> In b l -> key' a = key' b -> key a = key b) ->
  distinct_on key l -> distinct_on key' l.
Proof.
  unfold distinct_on. induction l as [|x r IH]; cbn [map]; [constructor|].
  intros Hk H. inversion H as [|? ? Hx Hr]; subst. constructor.
  - intros Hin. apply Hx. apply in_map_iff in Hin as (y & Ey & Hy).
    rewrite <- (Hk y x); [apply in_map, Hy|now right|now left|exact Ey].
  - apply IH; [|exact Hr]. intros a b Ha Hb. apply Hk; now right.
Qed.

(** * a sorted permutation is unique when the order is antisymmetric on the elements *)
Lemma sorted_perm_unique {A} (R : A -> A -> Prop) l1 : forall l2,
  (forall a b, In a l1 -> In b l1 -> R a b -> R b a -> a = b) ->
  StronglySorted R l1 -> StronglySorted R l2 -> Permutation l1 l2 -> l1 = l2.
Proof.
  induction l1 as [|a r1 IH]; intros l2 Hanti S1 S2 P.
  - apply Permutation_nil in P. now subst.
  - destruct l2 as [|b r2]; [symmetry in P; apply Permutation_nil in P; discriminate|].
    inversion S1 as [|? ? S1r F1]; subst. inversion S2 as [|? ? S2r F2]; subst.
    rewrite Forall_forall in F1, F2.
    assert (a = b) as ->.
    { assert (Ha : In a (b :: r2)) by (eapply Permutation_in; [exact P|now left]).
      assert (Hb : In b (a :: r1)) by (eapply Permutation_in; [symmetry; exact P|now left]).
      destruct Ha as [->|Ha]; [reflexivity|].
      destruct Hb as [->|Hb]; [reflexivity|].
      apply Hanti; [now left|now right|apply F1, Hb|apply F2, Ha]. }
    f_equal. apply IH; [|exact S1r|exact S2r|eapply Permutation_cons_inv; exact P].
    intros x y Hx Hy. apply Hanti; now right.
Qed.

(** * the stable insertion sort by an integer key

    Every model has its own copy of Python's [sorted(l, key=...)]: an element goes in front
    of the first already-sorted element whose key is >= its own.  [ksort] is that function
    once more; each copy is shown equal to it where it is used. *)
Fixpoint kinsert {A} (key : A -> Z) (x : A) (l : list A) : list A :=
  match l with
  | [] => [x]
  | y :: r => if key x <=? key y then x :: y :: r else y :: kinsert key x r
  end.
Fixpoint ksort {A} (key : A -> Z) (l : list A) : list A :=
  match l with
  | [] => []
  | x :: r => kinsert key x (ksort key r)
  end.

Lemma kinsert_perm {A} (key : A -> Z) x l : Permutation (kinsert key x l) (x :: l).
Proof.
  induction l as [|y r IH]; cbn [kinsert]; [reflexivity|].
  destruct (key x <=? key y); [reflexivity|]. rewrite IH. apply perm_swap.
Qed.

Lemma ksort_perm {A} (key : A -> Z) l : Permutation (ksort key l) l.
Proof. induction l as [|x r IH]; cbn [ksort]; [reflexivity|]. rewrite kinsert_perm. now constructor. Qed.

Lemma kinsert_sorted {A} (key : A -> Z) x l :
  StronglySorted (fun a b => key a <= key b) l -> StronglySorted (fun a b => key a <= key b) (kinsert key x l).
Proof.
  induction 1 as [|y r Hs IH Hy]; cbn [kinsert].
  - constructor; constructor.
  - destruct (key x <=? key y) eqn:E.
    + constructor; [constructor; assumption|]. constructor; [lia|].
      eapply Forall_impl; [|exact Hy]. cbn. intros; lia.
    + constructor; [exact IH|].
      eapply Permutation_Forall; [symmetry; apply kinsert_perm|]. constructor; [lia|exact Hy].
Qed.

Lemma ksort_sorted {A} (key : A -> Z) l : StronglySorted (fun a b => key a <= key b) (ksort key l).
Proof. induction l; cbn [ksort]; [constructor|now apply kinsert_sorted]. Qed.

(** the sort of a list with distinct keys does not depend on the order in which it is stored *)
Theorem ksort_perm_invariant {A} (key : A -> Z) l l' :
  Permutation l l' -> distinct_on key l -> ksort key l = ksort key l'.
Proof.
  intros P D. apply sorted_perm_unique with (R := fun a b => key a <= key b).
  - intros a b Ha Hb H1 H2. apply (distinct_on_inj key l); try assumption.
    + eapply Permutation_in; [apply ksort_perm|exact Ha].
    + eapply Permutation_in; [apply ksort_perm|exact Hb].
    + lia.
  - apply ksort_sorted.
  - apply ksort_sorted.
  - rewrite ksort_perm, P. symmetry. apply ksort_perm.
Qed.

(** two keys that order an element against a sorted tail in the same way insert it in the same place *)
Lemma kinsert_ext {A} (k1 k2 : A -> Z) x l :
  (forall y, In y l -> (k1 x <=? k1 y) = (k2 x <=? k2 y)) -> kinsert k1 x l = kinsert k2 x l.
Proof.
  induction l as [|y r IH]; cbn [kinsert]; intros H; [reflexivity|].
  rewrite (H y) by now left. destruct (k2 x <=? k2 y); [reflexivity|].
  f_equal. apply IH. intros z Hz. apply H. now right.
Qed.

(** a finer key [k2] (it refines [k1] and, among elements with equal [k1], follows the storage
    order) sorts the list exactly as the stable sort by [k1] does *)
Lemma ksort_refine {A} (k1 k2 : A -> Z) l :
  (forall a b, k1 a < k1 b -> k2 a < k2 b) ->
  ForallOrdPairs (fun a b => k1 a = k1 b -> k2 a <= k2 b) l ->
  ksort k1 l = ksort k2 l.
Proof.
  intros Href. induction 1 as [|x r Hx _ IH]; cbn [ksort]; [reflexivity|].
  rewrite IH. apply kinsert_ext. intros y Hy.
  assert (Hy' : In y r) by (eapply Permutation_in; [apply ksort_perm|exact Hy]).
  rewrite Forall_forall in Hx. specialize (Hx y Hy').
  destruct (Z.compare_spec (k1 x) (k1 y)) as [E|L|G].
  - specialize (Hx E). lia.
  - specialize (Href _ _ L). lia.
  - specialize (Href _ _ G). lia.
Qed.

(** * ForallOrdPairs of a symmetric relation is a property of the multiset *)
Lemma FOP_perm {A} (R : A -> A -> Prop) l l' :
  (forall a b, R a b -> R b a) -> Permutation l l' -> ForallOrdPairs R l -> ForallOrdPairs R l'.
Proof.
  intros Hsym. induction 1 as [|x l l' P IH|x y l|l l' l'' _ IH1 _ IH2]; intros H.
  - exact H.
  - inversion H as [|? ? Hx Hr]; subst. constructor; [|now apply IH].
    eapply Permutation_Forall; eassumption.
  - inversion H as [|? ? Hy Hr]; subst. inversion Hr as [|? ? Hx Hr']; subst.
    inversion Hy as [|? ? Hyx Hy']; subst.
    constructor; [constructor; [now apply Hsym|exact Hx]|]. constructor; assumption.
  - auto.
Qed.

Lemma FOP_In {A} (R : A -> A -> Prop) l :
  ForallOrdPairs R l -> forall l1 a l2 b l3, l = l1 ++ a :: l2 ++ b :: l3 -> R a b.
Proof.
  induction 1 as [|x r Hx _ IH]; intros l1 a l2 b l3 E.
  - destruct l1; discriminate.
  - destruct l1 as [|z l1]; cbn [app] in E; inversion E; subst.
    + rewrite Forall_forall in Hx. apply Hx. apply in_or_app. right. now left.
    + eapply IH. reflexivity.
Qed.

(** distinct keys from a pairwise statement *)
Lemma FOP_distinct_on {A B} (key : A -> B) l :
  ForallOrdPairs (fun a b => key a <> key b) l -> distinct_on key l.
Proof.
  unfold distinct_on. induction 1 as [|x r Hx _ IH]; cbn [map]; constructor; [|exact IH].
  intros Hin. apply in_map_iff in Hin as (y & Ey & Hy). rewrite Forall_forall in Hx.
  apply (Hx y Hy). now symmetry.
Qed.

Lemma FOP_impl {A} (R S : A -> A -> Prop) l :
  (forall a b, R a b -> S a b) -> ForallOrdPairs R l -> ForallOrdPairs S l.
Proof.
  intros H. induction 1 as [|x r Hx _ IH]; constructor; [|exact IH].
  eapply Forall_impl; [|exact Hx]. intros; now apply H.
Qed.

Lemma FOP_filter {A} (R : A -> A -> Prop) (f : A -> bool) l :
  ForallOrdPairs R l -> ForallOrdPairs R (filter f l).
Proof.
  induction 1 as [|x r Hx _ IH]; cbn [filter]; [constructor|].
  destruct (f x); [|exact IH]. constructor; [|exact IH].
  rewrite Forall_forall in *. intros y Hy. apply Hx. now apply filter_In in Hy.
Qed.

(** * lists of equal length that agree position by position, up to Permutation *)
Lemma Forall2_perm_refl {A} (l : list (list A)) : Forall2 (@Permutation A) l l.
Proof. induction l; constructor; [reflexivity|assumption]. Qed.

Lemma Forall2_nth {A} (R : A -> A -> Prop) (d : A) l l' :
  length l = length l' -> (forall i, (i < length l)%nat -> R (nth i l d) (nth i l' d)) -> Forall2 R l l'.
Proof.
  revert l'. induction l as [|x r IH]; intros [|y r'] HL H; try discriminate; constructor.
  - apply (H 0%nat). cbn. lia.
  - apply IH; [now injection HL|]. intros i Hi. apply (H (S i)). cbn. lia.
Qed.

Lemma list_eq_nth {A} (d : A) l l' :
  length l = length l' -> (forall i, (i < length l)%nat -> nth i l d = nth i l' d) -> l = l'.
Proof.
  revert l'. induction l as [|x r IH]; intros [|y r'] HL H; try discriminate; [reflexivity|].
  f_equal; [apply (H 0%nat); cbn; lia|].
  apply IH; [now injection HL|]. intros i Hi. apply (H (S i)). cbn. lia.
Qed.

Lemma Forall2_nth_error {A} (R : A -> A -> Prop) l : forall l',
  length l = length l' ->
  (forall i x y, nth_error l i = Some x -> nth_error l' i = Some y -> R x y) -> Forall2 R l l'.
Proof.
  induction l as [|x r IH]; intros [|y r'] HL H; try discriminate; constructor.
  - apply (H 0%nat); reflexivity.
  - apply IH; [now injection HL|]. intros i. apply (H (S i)).
Qed.

(** * a list is determined, as a multiset, by its classes (sub-lists of one key) *)
Lemma filter_split_first {A} (p : A -> bool) l : forall x t,
  filter p l = x :: t -> exists l1 l2, l = l1 ++ x :: l2 /\ filter p l1 = [] /\ filter p l2 = t.
Proof.
  induction l as [|y r IH]; cbn [filter]; intros x t H; [discriminate|].
  destruct (p y) eqn:E.
  - inversion H; subst. exists [], r. repeat split.
  - destruct (IH _ _ H) as (l1 & l2 & -> & H1 & H2). exists (y :: l1), l2. cbn [app filter].
    rewrite E. repeat split; assumption.
Qed.

Lemma perm_by_classes {A K} (key : A -> K) (eqb : K -> K -> bool) :
  (forall a b, eqb a b = true <-> a = b) ->
  forall l l', (forall k, filter (fun x => eqb (key x) k) l = filter (fun x => eqb (key x) k) l') ->
  Permutation l l'.
Proof.
  intros Heq. induction l as [|x r IH]; intros l' H.
  - destruct l' as [|y r']; [constructor|]. specialize (H (key y)). cbn [filter] in H.
    rewrite (proj2 (Heq _ _) eq_refl) in H. discriminate.
  - pose proof (H (key x)) as Hx. cbn [filter] in Hx. rewrite (proj2 (Heq _ _) eq_refl) in Hx.
    symmetry in Hx. destruct (filter_split_first _ _ _ _ Hx) as (l1 & l2 & -> & H1 & H2).
    apply Permutation_cons_app. apply IH. intros k.
    specialize (H k). cbn [filter] in H. rewrite !filter_app in *. cbn [filter] in H.
    destruct (eqb (key x) k) eqn:E.
    + apply Heq in E. subst k. rewrite H1. cbn [app]. now rewrite H2.
    + exact H.
Qed.

(** * ForallOrdPairs / NoDup of an append *)
Lemma FOP_app {A} (R : A -> A -> Prop) l1 l2 :
  ForallOrdPairs R l1 -> ForallOrdPairs R l2 -> (forall a b, In a l1 -> In b l2 -> R a b) ->
  ForallOrdPairs R (l1 ++ l2).
Proof.
  induction 1 as [|x r Hx _ IH]; intros H2 H12; cbn [app]; [exact H2|].
  constructor.
  - apply Forall_app. split; [exact Hx|]. rewrite Forall_forall. intros b Hb. apply H12; [now left|exact Hb].
  - apply IH; [exact H2|]. intros a b Ha. apply H12. now right.
Qed.

Lemma NoDup_app_intro {A} (l1 l2 : list A) :
  NoDup l1 -> NoDup l2 -> (forall a, In a l1 -> In a l2 -> False) -> NoDup (l1 ++ l2).
Proof.
  induction 1 as [|x r Hx _ IH]; intros H2 H12; cbn [app]; [exact H2|].
  constructor.
  - intros Hin. apply in_app_or in Hin as [Hin|Hin]; [now apply Hx|]. apply (H12 x); [now left|exact Hin].
  - apply IH; [exact H2|]. intros a Ha. apply H12. now right.
Qed.

Lemma FOP_map {A B} (f : A -> B) (R : B -> B -> Prop) l :
  ForallOrdPairs (fun a b => R (f a) (f b)) l -> ForallOrdPairs R (map f l).
Proof.
  induction 1 as [|x r Hx _ IH]; cbn [map]; constructor; [|exact IH].
  rewrite Forall_forall in *. intros y Hy. apply in_map_iff in Hy as (z & <- & Hz). now apply Hx.
Qed.

Lemma FOP_all {A} (R : A -> A -> Prop) l : (forall a b, R a b) -> ForallOrdPairs R l.
Proof. intros H. induction l; constructor; [|assumption]. rewrite Forall_forall. intros; apply H. Qed.

Lemma SSorted_app_inv {A} (R : A -> A -> Prop) l1 l2 :
  StronglySorted R (l1 ++ l2) ->
  StronglySorted R l1 /\ StronglySorted R l2 /\ (forall a b, In a l1 -> In b l2 -> R a b).
Proof.
  induction l1 as [|x l1 IH]; cbn [app]; intros H.
  - repeat split; [constructor|exact H|intros a b []].
  - inversion H as [|? ? Hs Hf]; subst. destruct (IH Hs) as (H1 & H2 & H3).
    repeat split; [|exact H2|].
    + constructor; [exact H1|]. rewrite Forall_forall in *. intros z Hz. apply Hf, in_or_app. now left.
    + intros a b [->|Ha] Hb; [|now apply H3].
      rewrite Forall_forall in Hf. apply Hf, in_or_app. now right.
Qed.
