(** Proofs/TrEquivF06.v — the seconds_per_step expression at the top of every to_sequence method, re-translated
    from the SOURCE on every run into PrimFloat terms (Gen/TrF.v), is the model's sigma_rel / sigma_metric /
    sigma_abs (Model/RenderFloat.v) that the C06 step-time round-trip theorems are about — bit for bit. *)
From Coq Require Import ZArith Bool Floats.
From NS Require Import Base.FloatBridge Gen.TrF Model.RenderFloat.
Local Open Scope Z_scope.

(** Python float division by zero raises ZeroDivisionError: the translation returns None exactly there. *)
Definition guard_rel (spq : Z) (qpm : PrimFloat.float) (v : PrimFloat.float) : option PrimFloat.float :=
  if PrimFloat.eqb qpm 0%float then None else if PrimFloat.eqb (f_of_Z spq) 0%float then None else Some v.

Lemma trf_sigma_melody_eq spq qpm : trf_sigma_melody spq qpm = guard_rel spq qpm (sigma_rel qpm spq).
Proof. reflexivity. Qed.
Lemma trf_sigma_drums_eq spq qpm : trf_sigma_drums spq qpm = guard_rel spq qpm (sigma_rel qpm spq).
Proof. reflexivity. Qed.
Lemma trf_sigma_chords_eq spq qpm : trf_sigma_chords spq qpm = guard_rel spq qpm (sigma_rel qpm spq).
Proof. reflexivity. Qed.
Lemma trf_sigma_pianoroll_eq spq qpm : trf_sigma_pianoroll spq qpm = guard_rel spq qpm (sigma_rel qpm spq).
Proof. reflexivity. Qed.
Lemma trf_sigma_metric_eq spq qpm : trf_sigma_metric spq qpm =
  if PrimFloat.eqb (f_of_Z spq * qpm)%float 0%float then None else Some (sigma_metric qpm spq).
Proof. reflexivity. Qed.
Lemma trf_sigma_performance_eq sps : trf_sigma_performance sps =
  if PrimFloat.eqb (f_of_Z sps) 0%float then None else Some (sigma_abs sps).
Proof. reflexivity. Qed.
Lemma trf_sigma_noteperformance_eq sps : trf_sigma_noteperformance sps =
  if PrimFloat.eqb (f_of_Z sps) 0%float then None else Some (sigma_abs sps).
Proof. reflexivity. Qed.
