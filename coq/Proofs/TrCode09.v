(** Proofs/TrCode09.v — C09's clauses stated DIRECTLY on the Gallina re-translated from note_seq's source on every run
    (Gen/Tr.v): no hand-written model occurs in the statements.  They follow from the equivalences of
    Proofs/TrEquiv09.v and the model theorems of Proofs/OneHot.v. *)
From Coq Require Import ZArith Bool Lia.
From NS Require Import Gen.G09 Gen.Tr Model.OneHot Proofs.OneHot Proofs.TrEquiv09.
Local Open Scope Z_scope.

Lemma init_ok mn mx : tr_melody_init mn mx = Some tt -> mel_cfg_ok mn mx = true.
Proof. rewrite tr_melody_init_eq. destruct (mel_cfg_ok mn mx); [reflexivity|discriminate]. Qed.

(** MelodyOneHotEncoding: for every accepted (min_note, max_note), decode then encode is the identity on every index
    of the class range *)
Theorem code_melody_decode_encode mn mx nc i :
  tr_melody_init mn mx = Some tt -> tr_melody_num_classes mx mn = Some nc -> 0 <= i < nc ->
  exists e, tr_melody_decode_event mn i = Some e /\ tr_melody_encode_event mx mn e = Some i.
Proof.
  intros Hi Hn Hr. apply init_ok in Hi. rewrite tr_melody_num_classes_eq in Hn. injection Hn as <-.
  exists (mel_decode mn i). split; [apply tr_melody_decode_eq|].
  rewrite tr_melody_encode_eq. apply mel_dec_enc; assumption.
Qed.

(** ... and every event it encodes lands in the class range and decodes back to itself *)
Theorem code_melody_encode_decode mn mx nc e c :
  tr_melody_init mn mx = Some tt -> tr_melody_num_classes mx mn = Some nc ->
  tr_melody_encode_event mx mn e = Some c -> 0 <= c < nc /\ tr_melody_decode_event mn c = Some e.
Proof.
  intros Hi Hn He. apply init_ok in Hi. rewrite tr_melody_num_classes_eq in Hn. injection Hn as <-.
  rewrite tr_melody_encode_eq in He. split; [eapply mel_enc_range; eassumption|].
  rewrite tr_melody_decode_eq. f_equal. eapply mel_enc_dec; eassumption.
Qed.

(** velocity binning as the code computes it: every MIDI velocity gets a bin in 1..nb, the bin's representative
    velocity is not above it and falls into the same bin *)
Theorem code_velocity_bins nb v : 1 <= nb <= 127 -> 1 <= v <= 127 ->
  exists b v0, tr_velocity_to_bin v nb = Some b /\ 1 <= b <= nb /\
               tr_velocity_bin_to_velocity b nb = Some v0 /\ v0 <= v /\ tr_velocity_to_bin v0 nb = Some b.
Proof.
  intros Hn Hv. exists (vel_to_bin v nb), (bin_to_vel (vel_to_bin v nb) nb).
  rewrite !tr_velocity_to_bin_eq, tr_velocity_bin_to_velocity_eq by lia.
  split; [reflexivity|]. split; [apply vel_bin_range; assumption|]. split; [reflexivity|].
  split; [apply (bin_vel_lower_bound nb v Hn Hv)|]. f_equal. apply bin_vel_right_inverse. assumption.
Qed.

Theorem code_velocity_monotone nb v1 v2 b1 b2 : 1 <= nb <= 127 -> v1 <= v2 ->
  tr_velocity_to_bin v1 nb = Some b1 -> tr_velocity_to_bin v2 nb = Some b2 -> b1 <= b2.
Proof.
  intros Hn Hv H1 H2. rewrite tr_velocity_to_bin_eq in H1, H2 by lia.
  injection H1 as <-. injection H2 as <-. apply vel_bin_mono; assumption.
Qed.
