(** Proofs/WfBase.v — C11: the boolean and propositional well-formedness predicates
    agree; small list lemmas shared by the Wf*.v files. *)
From Coq Require Import ZArith List Bool Lia ZifyBool.
From NS Require Import Base.Sx Base.NoteSeq Model.Wf.
Import ListNotations.
Local Open Scope Z_scope.

Lemma forallb_Forall : forall {A} (p : A -> bool) (P : A -> Prop),
  (forall x, p x = true <-> P x) -> forall l, forallb p l = true <-> Forall P l.
Proof.
  intros A p P H l. rewrite forallb_forall, Forall_forall. split; intros F x Hx; apply H, F, Hx.
Qed.

Lemma note_okb_iff : forall tot n, note_okb tot n = true <-> note_wf tot n.
Proof. intros. unfold note_okb, note_wf. lia. Qed.

(** [wfb] decides [wf]. *)
Lemma wfb_iff : forall s, wfb s = true <-> wf s.
Proof.
  intros s. unfold wfb, wf, seq_wf. rewrite !andb_true_iff.
  rewrite (forallb_Forall _ _ (note_okb_iff (s_total s))).
  rewrite (forallb_Forall (fun t => 0 <=? tp_time t) (fun t => 0 <= tp_time t)) by (intros; lia).
  rewrite (forallb_Forall (fun t => 0 <=? ts_time t) (fun t => 0 <= ts_time t)) by (intros; lia).
  rewrite (forallb_Forall (fun t => 0 <=? ks_time t) (fun t => 0 <= ks_time t)) by (intros; lia).
  rewrite (forallb_Forall (fun t => 0 <=? tx_time t) (fun t => 0 <= tx_time t)) by (intros; lia).
  rewrite (forallb_Forall (fun t => 0 <=? cc_time t) (fun t => 0 <= cc_time t)) by (intros; lia).
  rewrite (forallb_Forall (fun t => 0 <=? pb_time t) (fun t => 0 <= pb_time t)) by (intros; lia).
  rewrite (forallb_Forall (fun t => 0 <=? sa_time t) (fun t => 0 <= sa_time t)) by (intros; lia).
  rewrite Z.leb_le. tauto.
Qed.

Lemma wfb_false_iff : forall s, wfb s = false <-> ~ wf s.
Proof. intros s. rewrite <- wfb_iff. destruct (wfb s); split; congruence. Qed.

Lemma qwfb_iff : forall s, qwfb s = true <-> qwf s.
Proof.
  intros s. unfold qwfb, qwf. rewrite !andb_true_iff.
  rewrite (forallb_Forall (qnote_okb (s_qsteps s))
             (fun n => 0 <= n_qstart n /\ n_qstart n <= n_qend n /\ n_qend n <= s_qsteps s))
    by (intros; unfold qnote_okb; lia).
  rewrite (forallb_Forall (fun c => 0 <=? cc_qstep c) (fun c => 0 <= cc_qstep c)) by (intros; lia).
  rewrite (forallb_Forall (fun t => 0 <=? tx_qstep t) (fun t => 0 <= tx_qstep t)) by (intros; lia).
  tauto.
Qed.

(** Unfolded form of [wf], convenient for proofs. *)
Lemma wf_intro : forall s,
  0 <= s_total s ->
  Forall (note_wf (s_total s)) (s_notes s) ->
  Forall (fun t => 0 <= tp_time t) (s_tempos s) -> Forall (fun t => 0 <= ts_time t) (s_tsigs s) ->
  Forall (fun t => 0 <= ks_time t) (s_ksigs s) -> Forall (fun t => 0 <= tx_time t) (s_texts s) ->
  Forall (fun t => 0 <= cc_time t) (s_ccs s) -> Forall (fun t => 0 <= pb_time t) (s_bends s) ->
  Forall (fun t => 0 <= sa_time t) (s_sects s) -> wf s.
Proof. intros. unfold wf, seq_wf. tauto. Qed.

Lemma wf_seq_wf : forall s, wf s -> seq_wf s.
Proof. intros s [_ H]. exact H. Qed.

Lemma wf_total : forall s, wf s -> 0 <= s_total s.
Proof. intros s [H _]. exact H. Qed.

Lemma wf_notes : forall s, wf s -> Forall (note_wf (s_total s)) (s_notes s).
Proof. intros s [_ H]. apply H. Qed.

(** [seq_wf] with at least one note, or a non-negative total, is [wf]. *)
Lemma seq_wf_wf : forall s, seq_wf s -> 0 <= s_total s -> wf s.
Proof. intros; split; assumption. Qed.

Lemma Forall_map_iff : forall {A B} (P : B -> Prop) (g : A -> B) l,
  Forall P (map g l) <-> Forall (fun x => P (g x)) l.
Proof. intros. rewrite !Forall_forall. setoid_rewrite in_map_iff. firstorder (subst; auto). Qed.

Lemma Forall_filter : forall {A} (P : A -> Prop) (p : A -> bool) l, Forall P l -> Forall P (filter p l).
Proof.
  intros A P p l H. rewrite Forall_forall in *. intros x Hx. apply filter_In in Hx. apply H, Hx.
Qed.

Lemma Forall_incl : forall {A} (P : A -> Prop) l l', (forall x, In x l' -> In x l) -> Forall P l -> Forall P l'.
Proof. intros A P l l' I H. rewrite Forall_forall in *. auto. Qed.

Lemma Forall2_In_r : forall {A B} (R : A -> B -> Prop) l l' y,
  Forall2 R l l' -> In y l' -> exists x, In x l /\ R x y.
Proof.
  induction 1; intros Hy; [contradiction|]. destruct Hy as [<-|Hy].
  - exists x. split; [now left|assumption].
  - destruct (IHForall2 Hy) as (x0 & I & Rx). exists x0. split; [now right|assumption].
Qed.

(** [came_from] is monotone in the relation and closed under list inclusion. *)
Lemma came_from_map : forall (f : note -> note) (p : note -> bool) ins,
  came_from (fun n n' => p n = true /\ n' = f n) ins (map f (filter p ins)).
Proof.
  intros f p ins n' H. apply in_map_iff in H. destruct H as (n & <- & Hn). apply filter_In in Hn.
  exists n. tauto.
Qed.
