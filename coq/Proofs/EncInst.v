(** Proofs/EncInst.v — the generic C08 theorems instantiated for the concrete
    encoders of Model/EncInst.v (melody and performance one-hot encodings):
    the hypotheses of the generic theorems are discharged from the C09
    bijection lemmas, so these statements have no abstract premises left. *)
From Coq Require Import ZArith List Bool Lia ZifyBool.
From NS Require Import Gen.G09 Model.OneHot Model.EncDec Model.Lookback Model.NotePerfEnc Model.EncInst
  Proofs.OneHot Proofs.EncDec Proofs.Lookback Proofs.LookbackInput.
Import ListNotations.
Local Open Scope Z_scope.
Ltac Zify.zify_post_hook ::= Z.to_euclidean_division_equations.

(** * Melody events *)
Definition mel_event_ok (mn mx a : Z) : bool :=
  ((- NUM_SPECIAL_MELODY_EVENTS <=? a) && (a <? 0)) || ((mn <=? a) && (a <? mx)).

Lemma mel_enc_ok mn mx : mel_cfg_ok mn mx = true ->
  forall e, mel_event_ok mn mx e = true ->
  exists c, mel_encode mn mx e = Some c /\ 0 <= c < mel_num_classes mn mx /\ mel_dec mn c = Some e.
Proof.
  intros Hc e He.
  assert (mel_encode mn mx e <> None) as Hn by (apply mel_enc_total; [exact Hc|unfold mel_event_ok in He; lia]).
  destruct (mel_encode mn mx e) as [c|] eqn:Henc; [|congruence].
  exists c. split; [reflexivity|]. split; [eapply mel_enc_range; eauto|].
  unfold mel_dec. f_equal. eapply mel_enc_dec; eauto.
Qed.

Lemma mel_dec_total mn c : mel_dec mn c <> None.
Proof. discriminate. Qed.

Lemma Zeqb_iff a b : Z.eqb a b = true <-> a = b.
Proof. apply Z.eqb_eq. Qed.

Definition pos_dists (ds : list Z) : bool := forallb (fun d => 1 <=? d) ds.

Lemma pos_dists_Forall ds : pos_dists ds = true -> Forall (fun d => 1 <= d) ds.
Proof.
  unfold pos_dists. rewrite forallb_forall, Forall_forall. intros H d Hd. apply H in Hd. lia.
Qed.

Lemma forallb_Forall {A} (f : A -> bool) l : forallb f l = true -> Forall (fun x => f x = true) l.
Proof. rewrite forallb_forall, Forall_forall. auto. Qed.

Section Melody.
  Variables mn mx : Z.
  Variable ds : list Z.
  Variable bits : Z.
  Hypothesis cfg : mel_cfg_ok mn mx = true.
  Hypothesis dpos : pos_dists ds = true.

  Theorem lookback_melody_decode_label es p a :
    0 <= p -> nth_error es (Z.to_nat p) = Some a -> mel_event_ok mn mx a = true ->
    exists l, ed_label (lb_mel mn mx ds bits) es p = Some l /\
              0 <= l < mel_num_classes mn mx + zlen ds /\
              ed_decode (lb_mel mn mx ds bits) l (firstn (Z.to_nat p) es) = Some a.
  Proof.
    intros Hp Ha Hv.
    exact (lookback_decode_label Z Z.eqb (mel_num_classes mn mx) (mel_encode mn mx) (mel_dec mn)
             MELODY_NO_EVENT ds Zeqb_iff (fun e => mel_event_ok mn mx e = true) (mel_enc_ok mn mx cfg)
             (pos_dists_Forall ds dpos) es p a Hp Ha Hv).
  Qed.

  Theorem lookback_melody_default_label evs :
    exists c, lb_mel_default_label mn mx = Some c /\ 0 <= c < mel_num_classes mn mx + zlen ds /\
              ed_decode (lb_mel mn mx ds bits) c evs = Some MELODY_NO_EVENT.
  Proof.
    apply (lookback_default_label Z Z.eqb (mel_num_classes mn mx) (mel_encode mn mx) (mel_dec mn) MELODY_NO_EVENT ds)
      with (valid := fun e => mel_event_ok mn mx e = true);
      first [exact Zeqb_iff | exact (mel_enc_ok mn mx cfg) | exact (pos_dists_Forall ds dpos) | reflexivity].
  Qed.

  Theorem lookback_melody_roundtrip es ins labs :
    forallb (mel_event_ok mn mx) es = true ->
    encode (lb_mel mn mx ds bits) es = Some (ins, labs) ->
    generate (ed_decode (lb_mel mn mx ds bits)) labs (firstn 1 es) = Some es.
  Proof.
    intros Hv Henc.
    exact (lookback_roundtrip Z Z.eqb (mel_num_classes mn mx) (mel_encode mn mx) (mel_dec mn)
             MELODY_NO_EVENT ds Zeqb_iff (fun e => mel_event_ok mn mx e = true)
             (mel_enc_ok mn mx cfg) (pos_dists_Forall ds dpos) one_step bits es ins labs (forallb_Forall _ _ Hv) Henc).
  Qed.

  Theorem lookback_melody_generation_total ls evs :
    forallb (fun l => (0 <=? l) && (l <? mel_num_classes mn mx + zlen ds)) ls = true ->
    (exists out, generate (ed_decode (lb_mel mn mx ds bits)) ls evs = Some out /\
                 length out = (length evs + length ls)%nat) /\
    ed_num_steps (lb_mel mn mx ds bits) ls = Some (zlen ls).
  Proof.
    intros Hl.
    assert (Forall (fun l => 0 <= l < lb_num_classes (mel_num_classes mn mx) ds) ls) as Hl'.
    { apply forallb_Forall in Hl. eapply Forall_impl; [|exact Hl]. intros a0 Ha0. cbn beta in Ha0. unfold lb_num_classes, lb_k. clear - Ha0. lia. }
    destruct (lookback_generation_total Z Z.eqb (mel_num_classes mn mx) (mel_encode mn mx) (mel_dec mn)
                MELODY_NO_EVENT ds Zeqb_iff (fun e => mel_event_ok mn mx e = true)
                (mel_enc_ok mn mx cfg) (pos_dists_Forall ds dpos) one_step ls evs
                (fun c _ => mel_dec_total mn c) Hl') as [H1 (g & Hg & Hlen & Hsteps)].
    split; [exact H1|].
    cbn [ed_num_steps lb_mel lb]. rewrite Hsteps. f_equal.
    assert (forall l : list Z, zsum (map one_step l) = zlen l) as Hz.
    { induction l as [|x l IH]; [reflexivity|]. cbn [map zsum fold_right]. unfold zsum in IH. rewrite IH.
      rewrite zlen_cons. reflexivity. }
    rewrite Hz. unfold zlen. lia.
  Qed.

  (* the input vector of the lookback encoder over the melody one-hot: exact layout, input_size entries *)
  Theorem lookback_melody_input_shape es p a :
    0 <= bits -> 0 <= p -> nth_error es (Z.to_nat p) = Some a -> forallb (mel_event_ok mn mx) es = true ->
    exists c cs fs v,
      ed_input (lb_mel mn mx ds bits) es p = Some v /\
      v = onehot (mel_num_classes mn mx) c ++ concat (map (onehot (mel_num_classes mn mx)) cs) ++
          map (counter_bit (p + 1)) (EncDec.zrange bits) ++ map b2z fs /\
      zlen v = ed_input_size (lb_mel mn mx ds bits) /\
      mel_encode mn mx a = Some c /\ zlen cs = zlen ds /\ zlen fs = zlen ds /\
      Forall is_one_hot (onehot (mel_num_classes mn mx) c :: map (onehot (mel_num_classes mn mx)) cs) /\
      Forall2 (fun d f => f = true <-> lb_match Z es p d) ds fs.
  Proof.
    intros Hb Hp Ha Hv.
    assert (Hn : 0 <= mel_num_classes mn mx).
    { unfold mel_cfg_ok, mel_num_classes, NUM_SPECIAL_MELODY_EVENTS in *. lia. }
    assert (Hok : forall e, mel_event_ok mn mx e = true ->
                  exists c, mel_encode mn mx e = Some c /\ 0 <= c < mel_num_classes mn mx).
    { intros e He. destruct (mel_enc_ok mn mx cfg e He) as (c & H1 & H2 & _). eauto. }
    assert (Hd : mel_event_ok mn mx MELODY_NO_EVENT = true) by reflexivity.
    destruct (lookback_input_shape Z Z.eqb (mel_num_classes mn mx) (mel_encode mn mx) MELODY_NO_EVENT
                Zeqb_iff Hn (fun e => mel_event_ok mn mx e = true) Hok Hd ds bits
                (pos_dists_Forall ds dpos) Hb es p a Hp Ha (forallb_Forall _ _ Hv))
      as (c & cs & fs & v & H1 & H2 & H3 & H4 & _ & H6 & H7 & H8 & _).
    exists c, cs, fs, v. cbn [ed_input ed_input_size lb_mel lb].
    split; [exact H1|]. split; [exact H2|]. split; [exact H3|]. split; [exact H4|].
    split; [unfold zlen; f_equal; symmetry; eapply Forall2_len; eauto|].
    split; [unfold zlen; f_equal; symmetry; eapply Forall2_len; eauto|].
    split; [exact H8|exact H7].
  Qed.

  Theorem onehot_melody_decode_label es p a :
    0 <= p -> nth_error es (Z.to_nat p) = Some a -> mel_event_ok mn mx a = true ->
    exists l v, ed_label (ohs_mel mn mx) es p = Some l /\ 0 <= l < mel_num_classes mn mx /\
                ed_decode (ohs_mel mn mx) l (firstn (Z.to_nat p) es) = Some a /\
                ed_input (ohs_mel mn mx) es p = Some v /\ zlen v = ed_input_size (ohs_mel mn mx) /\
                is_one_hot v /\ nth (Z.to_nat l) v 0 = 1 /\
                ed_input (ohi_mel mn mx) es p = Some [l] /\ ed_label (ohi_mel mn mx) es p = Some l.
  Proof.
    intros Hp Ha Hv.
    destruct (onehot_decode_label Z (mel_num_classes mn mx) (mel_encode mn mx) (mel_dec mn)
                (fun e => mel_event_ok mn mx e = true) (mel_enc_ok mn mx cfg) es p a Ha Hp Hv) as (l & Hl & Hr & Hd).
    destruct (onehot_input_shape Z (mel_num_classes mn mx) (mel_encode mn mx) (mel_dec mn)
                (fun e => mel_event_ok mn mx e = true) (mel_enc_ok mn mx cfg) es p a Ha Hp Hv)
      as (v & c & Hi & Hc & Hlen & Hoh & Hnth).
    destruct (onehot_index_input Z (mel_num_classes mn mx) (mel_encode mn mx) (mel_dec mn)
                (fun e => mel_event_ok mn mx e = true) (mel_enc_ok mn mx cfg) es p a Ha Hp Hv) as (c' & Hi' & Hl' & _).
    assert (c = l /\ c' = l) as [-> ->].
    { unfold ohs_label in Hl, Hl'. rewrite py_nth_pos, Ha in Hl, Hl' by lia. cbn in Hl, Hl'. split; congruence. }
    exists l, v. cbn [ed_label ed_decode ed_input ed_input_size ohs_mel ohi_mel ohs ohi].
    split; [exact Hl|]. split; [exact Hr|]. split; [exact Hd|]. split; [exact Hi|]. split; [exact Hlen|].
    split; [exact Hoh|]. split; [exact Hnth|]. split; [exact Hi'|exact Hl'].
  Qed.
End Melody.

(** * Performance events *)
Definition perf_event_ok (nb ms minp maxp : Z) (e : pevent) : bool :=
  let '(ty, v) := e in
  (((ty =? EV_NOTE_ON) || (ty =? EV_NOTE_OFF)) && (minp <=? v) && (v <=? maxp)) ||
  ((ty =? EV_TIME_SHIFT) && (1 <=? v) && (v <=? ms)) ||
  ((ty =? EV_VELOCITY) && (0 <? nb) && (1 <=? v) && (v <=? nb)).

Lemma perf_event_ok_valid nb ms minp maxp e :
  perf_event_ok nb ms minp maxp e = true -> perf_valid nb ms minp maxp (fst e) (snd e).
Proof.
  destruct e as [ty v]. unfold perf_event_ok, perf_valid. cbn [fst snd]. intros H.
  apply orb_true_iff in H. destruct H as [H|H]; [apply orb_true_iff in H; destruct H as [H|H]|].
  - apply andb_true_iff in H. destruct H as [H H3]. apply andb_true_iff in H. destruct H as [H H2].
    apply orb_true_iff in H. destruct H as [H|H]; apply Z.eqb_eq in H; [left|right; left]; split; auto; lia.
  - apply andb_true_iff in H. destruct H as [H H3]. apply andb_true_iff in H. destruct H as [H H2].
    apply Z.eqb_eq in H. right; right; left. split; auto; lia.
  - apply andb_true_iff in H. destruct H as [H H4]. apply andb_true_iff in H. destruct H as [H H3].
    apply andb_true_iff in H. destruct H as [H H2].
    apply Z.eqb_eq in H. right; right; right. split; auto; lia.
Qed.

Lemma pe_eqb_iff a b : pe_eqb a b = true <-> a = b.
Proof.
  destruct a, b. unfold pe_eqb. cbn [fst snd]. split.
  - intros H. f_equal; lia.
  - intros H; inversion H; subst. rewrite !Z.eqb_refl. reflexivity.
Qed.

Section Perf.
  Variables nb ms minp maxp : Z.
  Variable ds : list Z.
  Variable bits : Z.
  Hypothesis cfg : (0 <=? nb) && (1 <=? ms) && (minp <=? maxp) = true.
  Hypothesis dpos : pos_dists ds = true.

  Let rs := perf_ranges nb ms minp maxp.

  Lemma perf_cfg : perf_cfg_ok nb ms minp maxp.
  Proof. unfold perf_cfg_ok. lia. Qed.

  Lemma pe_enc_ok : forall e, perf_event_ok nb ms minp maxp e = true ->
    exists c, pe_enc rs e = Some c /\ 0 <= c < oh_num_classes rs /\ pe_dec rs c = Some e.
  Proof.
    intros e He. apply perf_event_ok_valid in He.
    destruct (perf_enc_dec _ _ _ _ _ _ perf_cfg He) as (c & Hc & Hr & Hd).
    exists c. unfold pe_enc, pe_dec, rs. repeat split; auto; try lia. rewrite Hd. now destruct e.
  Qed.

  Lemma pe_dec_total c : 0 <= c < oh_num_classes rs -> pe_dec rs c <> None.
  Proof.
    intros Hc. destruct (perf_dec_enc _ _ _ _ c perf_cfg Hc) as (t & v & Hd & _).
    unfold pe_dec, rs. congruence.
  Qed.

  Theorem lookback_perf_decode_label es p a :
    0 <= p -> nth_error es (Z.to_nat p) = Some a -> perf_event_ok nb ms minp maxp a = true ->
    exists l, ed_label (lb_perf nb ms minp maxp ds bits) es p = Some l /\
              0 <= l < oh_num_classes rs + zlen ds /\
              ed_decode (lb_perf nb ms minp maxp ds bits) l (firstn (Z.to_nat p) es) = Some a.
  Proof.
    intros Hp Ha Hv.
    exact (lookback_decode_label pevent pe_eqb (oh_num_classes rs) (pe_enc rs) (pe_dec rs)
             (EV_TIME_SHIFT, ms) ds pe_eqb_iff (fun e => perf_event_ok nb ms minp maxp e = true) pe_enc_ok
             (pos_dists_Forall ds dpos) es p a Hp Ha Hv).
  Qed.

  Theorem lookback_perf_roundtrip es ins labs :
    forallb (perf_event_ok nb ms minp maxp) es = true ->
    encode (lb_perf nb ms minp maxp ds bits) es = Some (ins, labs) ->
    generate (ed_decode (lb_perf nb ms minp maxp ds bits)) labs (firstn 1 es) = Some es.
  Proof.
    intros Hv Henc.
    exact (lookback_roundtrip pevent pe_eqb (oh_num_classes rs) (pe_enc rs) (pe_dec rs)
             (EV_TIME_SHIFT, ms) ds pe_eqb_iff (fun e => perf_event_ok nb ms minp maxp e = true)
             pe_enc_ok (pos_dists_Forall ds dpos) perf_steps bits es ins labs (forallb_Forall _ _ Hv) Henc).
  Qed.

  (* labels_to_num_steps = the time shifts of the generated events *)
  Theorem lookback_perf_generation_total ls :
    forallb (fun l => (0 <=? l) && (l <? oh_num_classes rs + zlen ds)) ls = true ->
    exists g, generate (ed_decode (lb_perf nb ms minp maxp ds bits)) ls [] = Some g /\
              length g = length ls /\
              ed_num_steps (lb_perf nb ms minp maxp ds bits) ls = Some (zsum (map perf_steps g)).
  Proof.
    intros Hl.
    assert (Forall (fun l => 0 <= l < lb_num_classes (oh_num_classes rs) ds) ls) as Hl'.
    { apply forallb_Forall in Hl. eapply Forall_impl; [|exact Hl]. intros a0 Ha0. cbn beta in Ha0. unfold lb_num_classes, lb_k. clear - Ha0. lia. }
    destruct (lookback_generation_total pevent pe_eqb (oh_num_classes rs) (pe_enc rs) (pe_dec rs)
                (EV_TIME_SHIFT, ms) ds pe_eqb_iff (fun e => perf_event_ok nb ms minp maxp e = true)
                pe_enc_ok (pos_dists_Forall ds dpos) perf_steps ls [] pe_dec_total Hl') as [_ H2].
    exact H2.
  Qed.
End Perf.

Example lookback_instances_nonvacuous :
  mel_cfg_ok 48 84 = true /\ pos_dists [2; 4] = true /\
  forallb (mel_event_ok 48 84) [-2; -2; 60; -1; 60; -1; 60; 62; 60] = true /\
  (* labels of the docstring example: default before the first lookback, both lookbacks matching *)
  map (ed_label (lb_mel 48 84 [2; 4] 5) [-2; -2; 60; -1; 60; -1; 60; 62; 60]) [0; 1; 2; 3; 4; 5; 6; 7; 8]
    = [Some 39; Some 39; Some 14; Some 1; Some 38; Some 38; Some 39; Some 16; Some 39] /\
  (exists ins labs, encode (lb_mel 48 84 [2; 4] 5) [-2; -2; 60; -1; 60; -1; 60; 62; 60] = Some (ins, labs) /\
     generate (ed_decode (lb_mel 48 84 [2; 4] 5)) labs [-2] = Some [-2; -2; 60; -1; 60; -1; 60; 62; 60]).
Proof. vm_compute. repeat split. do 2 eexists. split; reflexivity. Qed.
