(** Proofs/RenderCompose.v — C06: the float layer composed with the step level.

    [requant_note rt s0] models [_quantize_notes] on a rendered note whose times are
    [step_time sigma (step - s0) s0].  By the float theorems (Proofs/RenderFloat.v) it returns the
    note unchanged as long as every step is in [s0, 2^31]; hence the sequence the extractor sees
    after [to_sequence] + [quantize_note_sequence(_absolute)] at ANY tempo in range IS the
    step-level [*_rseq], and the step-level round-trip theorems apply to the real pipeline. *)
From Coq Require Import ZArith List Bool Lia ZifyBool Reals.
From NS Require Import Base.NoteSeq Base.FloatBridge Gen.G07 Model.Quantize Model.FqCommon Model.FqMelody
  Model.FqDrums Model.FqChords Model.FqPianoroll Model.FqPerformance Model.FqSpec
  Model.RenderCommon Model.RenderMelody Model.RenderDrums Model.RenderChords Model.RenderPianoroll
  Model.RenderPerformance Model.RenderFloat Proofs.FqCommon Proofs.RenderFloat Proofs.RenderMelody Proofs.RenderDrums
  Proofs.RenderChords Proofs.RenderPianoroll Proofs.RenderPerformance Proofs.RenderPerfCanon Proofs.RenderPerfWide.
Import ListNotations.
Local Open Scope Z_scope.

Definition rt_exact (rt : Z -> Z -> Z) : Prop :=
  forall n s0, 0 <= n -> 0 <= s0 -> n + s0 <= 2 ^ 31 -> rt n s0 = n + s0.

Lemma rt_rel_exact qpm spq :
  fin qpm -> (10 <= R_of qpm <= 480)%R -> 1 <= spq <= 96 -> rt_exact (rt_rel qpm spq).
Proof. intros F Q S n s0 Hn Hs Hb. now apply step_time_roundtrip_rel. Qed.

Lemma rt_metric_exact qpm spq :
  fin qpm -> (10 <= R_of qpm <= 480)%R -> 1 <= spq <= 96 -> rt_exact (rt_metric qpm spq).
Proof. intros F Q S n s0 Hn Hs Hb. now apply step_time_roundtrip_metric. Qed.

Lemma rt_abs_exact sps : 1 <= sps <= 1000 -> rt_exact (rt_abs sps).
Proof. intros S n s0 Hn Hs Hb. now apply step_time_roundtrip_abs. Qed.

Lemma note_with_own_qsteps n : note_with_qsteps n (n_qstart n) (n_qend n) = n.
Proof. destruct n; reflexivity. Qed.

Lemma text_with_own_qstep t : text_with_qstep t (tx_qstep t) = t.
Proof. destruct t; reflexivity. Qed.

Theorem requant_notes_fixed rt s0 ns :
  rt_exact rt -> 0 <= s0 -> steps_in_range s0 ns = true -> map (requant_note rt s0) ns = ns.
Proof.
  intros Hrt Hs0. unfold steps_in_range. induction ns as [|n r IH]; cbn [forallb map]; [reflexivity|].
  intros H. apply andb_prop in H. destruct H as (Hn & Hr). rewrite (IH Hr). f_equal.
  unfold requant_note.
  rewrite (Hrt (n_qstart n - s0) s0) by lia. rewrite (Hrt (n_qend n - s0) s0) by lia.
  replace (n_qstart n - s0 + s0) with (n_qstart n) by lia.
  replace (n_qend n - s0 + s0) with (n_qend n) by lia.
  destruct (n_qend n =? n_qstart n) eqn:E; [lia|]. apply note_with_own_qsteps.
Qed.

Theorem requant_texts_fixed rt s0 ts :
  rt_exact rt -> 0 <= s0 -> text_steps_in_range s0 ts = true -> map (requant_text rt s0) ts = ts.
Proof.
  intros Hrt Hs0. unfold text_steps_in_range. induction ts as [|t r IH]; cbn [forallb map]; [reflexivity|].
  intros H. apply andb_prop in H. destruct H as (Ht & Hr). rewrite (IH Hr). f_equal.
  unfold requant_text. rewrite (Hrt (tx_qstep t - s0) s0) by lia.
  replace (tx_qstep t - s0 + s0) with (tx_qstep t) by lia. apply text_with_own_qstep.
Qed.

(** * the rendered steps of a melody / drum track / chord progression lie in [s0, s0 + len es] *)
Lemma forallb_app {A} (f : A -> bool) l1 l2 : forallb f (l1 ++ l2) = forallb f l1 && forallb f l2.
Proof. induction l1; cbn; [reflexivity|]. now rewrite IHl1, andb_assoc. Qed.

Lemma mel_render_range v i pr lo hi : forall es step cur,
  lo <= step -> step + len es <= hi ->
  match cur with Some (_, s) => lo <= s < step | None => True end ->
  forallb (fun n => (lo <=? n_qstart n) && (n_qstart n <? n_qend n) && (n_qend n <=? hi))
          (mel_render v i pr es step cur) = true.
Proof.
  induction es as [|e r IH]; intros step cur Hlo Hhi Hcur; cbn [mel_render].
  - rewrite len_nil in Hhi. destruct cur as [[p s]|]; [|reflexivity]. cbn. lia.
  - rewrite len_cons in Hhi. pose proof (len_nonneg r) as Hr.
    assert (Hclose : forallb (fun n => (lo <=? n_qstart n) && (n_qstart n <? n_qend n) && (n_qend n <=? hi))
                       (match cur with Some (p, s) => [rnote p v i pr false s step] | None => [] end) = true).
    { destruct cur as [[p s]|]; [|reflexivity]. cbn. lia. }
    destruct (is_pitch e).
    + rewrite forallb_app, Hclose. apply IH; lia.
    + destruct (e =? MELODY_NOTE_OFF).
      * rewrite forallb_app, Hclose. apply IH; [lia|lia|exact I].
      * apply IH; [lia|lia|]. destruct cur as [[p s]|]; [lia|exact I].
Qed.

Lemma canonical_melody_s0 spb ss gb pad s0 es : canonical_melody spb ss gb pad s0 es = true -> 0 <= s0.
Proof. unfold canonical_melody. destruct es; lia. Qed.

Lemma mel_steps_in_range v i pr s0 es :
  0 <= s0 -> s0 + len es <= 2 ^ 31 -> steps_in_range s0 (mel_to_step_notes v i pr s0 es) = true.
Proof. intros H0 Hb. unfold steps_in_range, mel_to_step_notes. apply mel_render_range; [lia|exact Hb|exact I]. Qed.

Lemma dr_render_range v i pr lo hi : forall es step,
  lo <= step -> step + len es <= hi ->
  forallb (fun n => (lo <=? n_qstart n) && (n_qstart n <? n_qend n) && (n_qend n <=? hi))
          (dr_render v i pr es step) = true.
Proof.
  induction es as [|ps r IH]; intros step Hlo Hhi; cbn [dr_render]; [reflexivity|].
  rewrite len_cons in Hhi. pose proof (len_nonneg r). rewrite forallb_app, IH by lia. rewrite andb_true_r.
  induction ps as [|q l IHl]; cbn; [reflexivity|]. cbn in IHl. rewrite IHl. lia.
Qed.

Lemma dr_steps_in_range v i pr s0 es :
  0 <= s0 -> s0 + len es <= 2 ^ 31 -> steps_in_range s0 (dr_to_step_notes v i pr s0 es) = true.
Proof. intros H0 Hb. unfold steps_in_range, dr_to_step_notes. now apply dr_render_range. Qed.

Lemma ch_render_range lo hi : forall es step cur,
  lo <= step -> step + len es <= hi ->
  forallb (fun t => (lo <=? tx_qstep t) && (tx_qstep t <=? hi)) (ch_render es step cur) = true.
Proof.
  induction es as [|f r IH]; intros step cur Hlo Hhi; cbn [ch_render]; [reflexivity|].
  rewrite len_cons in Hhi. pose proof (len_nonneg r).
  destruct (zs_eqb f cur); [apply IH; lia|]. cbn [forallb tx_qstep]. rewrite IH by lia. lia.
Qed.

Lemma ch_steps_in_range s0 es :
  0 <= s0 -> s0 + len es <= 2 ^ 31 -> text_steps_in_range s0 (ch_to_step_texts false s0 es) = true.
Proof. intros H0 Hb. unfold text_steps_in_range, ch_to_step_texts. now apply ch_render_range. Qed.

(** * fully composed round trips: the notes / annotations re-quantized THROUGH THE FLOATS *)
Theorem roundtrip_melody_float : forall qpm spq ts qsteps spb p v i pr s0 es,
  fin qpm -> (10 <= R_of qpm <= 480)%R -> 1 <= spq <= 96 -> s0 + len es <= 2 ^ 31 ->
  let s := rseq spq ts (map (requant_note (rt_rel qpm spq) s0) (mel_to_step_notes v i pr s0 es)) [] qsteps in
  steps_per_bar s = Ok spb -> mp_instrument p = i -> v <> 0 ->
  canonical_melody spb (mp_search_start p) (mp_gap_bars p) (mp_pad_end p) s0 es = true ->
  mel_from_quantized p s = Ok (mkMelResult es s0 (s0 + len es) spb spq).
Proof.
  intros qpm spq ts qsteps spb p v i pr s0 es F Q S Hb s Hspb Hi Hv Hc.
  pose proof (canonical_melody_s0 _ _ _ _ _ _ Hc) as H0.
  apply (roundtrip_steps_melody s spb p v i pr s0 es); try assumption.
  unfold s, rseq. cbn [s_notes].
  apply requant_notes_fixed; [now apply rt_rel_exact|exact H0|now apply mel_steps_in_range].
Qed.

Lemma canonical_drums_s0 spb ss gb pad s0 es : canonical_drums spb ss gb pad s0 es = true -> 0 <= s0.
Proof. unfold canonical_drums. destruct es; lia. Qed.

Theorem roundtrip_drums_float : forall qpm spq ts qsteps spb p v i pr s0 es,
  fin qpm -> (10 <= R_of qpm <= 480)%R -> 1 <= spq <= 96 -> s0 + len es <= 2 ^ 31 ->
  let s := rseq spq ts (map (requant_note (rt_rel qpm spq) s0) (dr_to_step_notes v i pr s0 es)) [] qsteps in
  steps_per_bar s = Ok spb -> v <> 0 ->
  canonical_drums spb (dp_search_start p) (dp_gap_bars p) (dp_pad_end p) s0 es = true ->
  dr_from_quantized p s = Ok (mkDrResult es s0 (s0 + len es) spb spq).
Proof.
  intros qpm spq ts qsteps spb p v i pr s0 es F Q S Hb s Hspb Hv Hc.
  pose proof (canonical_drums_s0 _ _ _ _ _ _ Hc) as H0.
  apply (roundtrip_steps_drums s spb p v i pr s0 es); try assumption.
  unfold s, rseq. cbn [s_notes].
  apply requant_notes_fixed; [now apply rt_rel_exact|exact H0|now apply dr_steps_in_range].
Qed.

Theorem roundtrip_chords_float : forall qpm spq ts spb s0 e0 es,
  fin qpm -> (10 <= R_of qpm <= 480)%R -> 1 <= spq <= 96 -> s0 + len es <= 2 ^ 31 ->
  let s := rseq spq ts [] (map (requant_text (rt_rel qpm spq) s0) (ch_to_step_texts false s0 es)) 0 in
  steps_per_bar s = Ok spb ->
  canonical_chords s0 e0 es = true ->
  ch_from_quantized s s0 e0 = Ok (mkChResult es s0 e0 spb spq).
Proof.
  intros qpm spq ts spb s0 e0 es F Q S Hb s Hspb Hc.
  assert (H0 : 0 <= s0) by (unfold canonical_chords in Hc; lia).
  apply (roundtrip_steps_chords s spb s0 e0 es); try assumption.
  unfold s, rseq. cbn [s_texts].
  apply requant_texts_fixed; [now apply rt_rel_exact|exact H0|now apply ch_steps_in_range].
Qed.

(** LeadSheet: the melody and the chords of one re-quantized sequence (after notes/C06-fix-1.diff both
    are rendered from the same start step). *)
Theorem roundtrip_steps_leadsheet : forall s spb p v i s0 mel chs,
  s_notes s = mel_to_step_notes v i 0 s0 mel ->
  s_texts s = ch_to_step_texts false s0 chs ->
  steps_per_bar s = Ok spb ->
  mp_instrument p = i -> v <> 0 ->
  canonical_leadsheet spb (mp_search_start p) (mp_gap_bars p) (mp_pad_end p) s0 mel chs = true ->
  ls_from_quantized p s
  = Ok (mkMelResult mel s0 (s0 + len mel) spb (s_spq s), mkChResult chs s0 (s0 + len mel) spb (s_spq s)).
Proof.
  intros s spb p v i s0 mel chs Hn Ht Hspb Hi Hv Hc.
  unfold canonical_leadsheet in Hc. apply andb_prop in Hc. destruct Hc as (Hc & Hlen).
  apply andb_prop in Hc. destruct Hc as (Hm & Hne).
  unfold ls_from_quantized.
  rewrite (roundtrip_steps_melody s spb p v i 0 s0 mel Hn Hspb Hi Hv Hm). cbn [bind me_start me_end].
  pose proof (canonical_melody_s0 _ _ _ _ _ _ Hm) as H0.
  rewrite (roundtrip_steps_chords s spb s0 (s0 + len mel) chs Ht Hspb).
  - reflexivity.
  - unfold canonical_chords. lia.
Qed.

Theorem roundtrip_leadsheet_float : forall qpm spq ts qsteps spb p v i s0 mel chs,
  fin qpm -> (10 <= R_of qpm <= 480)%R -> 1 <= spq <= 96 -> s0 + len mel <= 2 ^ 31 ->
  let s := rseq spq ts (map (requant_note (rt_rel qpm spq) s0) (mel_to_step_notes v i 0 s0 mel))
                (map (requant_text (rt_rel qpm spq) s0) (ch_to_step_texts false s0 chs)) qsteps in
  steps_per_bar s = Ok spb -> mp_instrument p = i -> v <> 0 ->
  canonical_leadsheet spb (mp_search_start p) (mp_gap_bars p) (mp_pad_end p) s0 mel chs = true ->
  ls_from_quantized p s
  = Ok (mkMelResult mel s0 (s0 + len mel) spb spq, mkChResult chs s0 (s0 + len mel) spb spq).
Proof.
  intros qpm spq ts qsteps spb p v i s0 mel chs F Q S Hb s Hspb Hi Hv Hc.
  assert (Hc' := Hc). unfold canonical_leadsheet in Hc'. apply andb_prop in Hc'. destruct Hc' as (Hc' & Hlen).
  apply andb_prop in Hc'. destruct Hc' as (Hm & Hne).
  pose proof (canonical_melody_s0 _ _ _ _ _ _ Hm) as H0.
  apply (roundtrip_steps_leadsheet s spb p v i s0 mel chs); try assumption.
  - unfold s, rseq. cbn [s_notes].
    apply requant_notes_fixed; [now apply rt_rel_exact|exact H0|now apply mel_steps_in_range].
  - unfold s, rseq. cbn [s_texts].
    apply requant_texts_fixed; [now apply rt_rel_exact|exact H0|]. apply ch_steps_in_range; lia.
Qed.

(** * PianorollSequence, Performance, MetricPerformance, NotePerformance through the floats.
    The range of the rendered steps is a boolean hypothesis on the rendered notes ([steps_in_range]). *)
Theorem roundtrip_pianoroll_float : forall legacy qpm spq ts v i pr minp maxp split s0 es,
  fin qpm -> (10 <= R_of qpm <= 480)%R -> 1 <= spq <= 96 -> minp <= maxp + 1 ->
  canonical_pianoroll legacy minp maxp s0 es = true ->
  let nf := pr_to_step_notes legacy v i pr minp s0 es in
  steps_in_range s0 (fst nf) = true -> s0 <= snd nf <= 2 ^ 31 ->
  let ns' := map (requant_note (rt_rel qpm spq) s0) (fst nf) in
  let total := rt_rel qpm spq (snd nf - s0) s0 in
  pr_from_quantized (mkPrParams s0 minp maxp split) (rseq spq ts ns' [] (max_end total ns'))
  = Ok (mkPrResult es s0 spq).
Proof.
  intros legacy qpm spq ts v i pr minp maxp split s0 es F Q S Hw Hc nf Hr Hf ns' total.
  assert (H0 : 0 <= s0) by (unfold canonical_pianoroll in Hc; lia).
  unfold ns', total.
  rewrite (requant_notes_fixed _ s0 (fst nf) (rt_rel_exact qpm spq F Q S) H0 Hr).
  rewrite (rt_rel_exact qpm spq F Q S (snd nf - s0) s0) by lia.
  replace (snd nf - s0 + s0) with (snd nf) by lia.
  rewrite <- (roundtrip_steps_pianoroll legacy spq ts v i pr minp maxp split s0 es) by (assumption || lia).
  unfold pr_rseq. fold nf. destruct nf as [ns final]. reflexivity.
Qed.

Theorem roundtrip_perf_float : forall sps p dv i pr drum es,
  1 <= sps <= 1000 -> 0 <= fp_start p ->
  1 <= fp_max_shift p -> (fp_bins p = 0 \/ 1 <= fp_bins p) ->
  (match fp_instrument p with None => True | Some j => j = i end) ->
  canonical_perf_w (fp_bins p) (fp_max_shift p) es = true ->
  steps_in_range (fp_start p) (pf_rnotes p dv i pr drum es) = true ->
  pf_from_quantized p (map (requant_note (rt_abs sps) (fp_start p)) (pf_rnotes p dv i pr drum es)) = es.
Proof.
  intros sps p dv i pr drum es S H0 Hm Hb Hi Hc Hr.
  rewrite (requant_notes_fixed _ _ _ (rt_abs_exact sps S) H0 Hr).
  now apply roundtrip_steps_perf_w.
Qed.

Theorem roundtrip_metric_float : forall qpm spq p dv i pr drum es,
  fin qpm -> (10 <= R_of qpm <= 480)%R -> 1 <= spq <= 96 -> 0 <= fp_start p ->
  1 <= fp_max_shift p -> (fp_bins p = 0 \/ 1 <= fp_bins p) ->
  (match fp_instrument p with None => True | Some j => j = i end) ->
  canonical_perf_w (fp_bins p) (fp_max_shift p) es = true ->
  steps_in_range (fp_start p) (pf_rnotes p dv i pr drum es) = true ->
  pf_from_quantized p (map (requant_note (rt_metric qpm spq) (fp_start p)) (pf_rnotes p dv i pr drum es)) = es.
Proof.
  intros qpm spq p dv i pr drum es F Q S H0 Hm Hb Hi Hc Hr.
  rewrite (requant_notes_fixed _ _ _ (rt_metric_exact qpm spq F Q S) H0 Hr).
  now apply roundtrip_steps_perf_w.
Qed.

Theorem roundtrip_noteperf_float : forall sps p md i pr drum evs,
  1 <= sps <= 1000 -> 0 <= fp_start p ->
  (match fp_instrument p with None => True | Some j => j = i end) ->
  canonical_noteperf (fp_bins p) (fp_max_shift p) md evs = true ->
  steps_in_range (fp_start p) (np_rnotes p i pr drum evs) = true ->
  np_from_quantized p md (map (requant_note (rt_abs sps) (fp_start p)) (np_rnotes p i pr drum evs)) = Ok evs.
Proof.
  intros sps p md i pr drum evs S H0 Hi Hc Hr.
  rewrite (requant_notes_fixed _ _ _ (rt_abs_exact sps S) H0 Hr).
  now apply roundtrip_steps_noteperf.
Qed.

(** * the wide Performance theorems with [perf_input_ok_w] spelled out (for Props/C06.v) *)
Theorem extraction_canonical_perf_w_flat : forall p ns,
  1 <= fp_max_shift p -> (fp_bins p = 0 \/ 1 <= fp_bins p) ->
  Forall (fun n => n_qstart n < n_qend n /\ MIN_MIDI_VELOCITY <= n_vel n) ns ->
  no_nested_same_pitch (pf_selected p ns) = true -> times_follow_steps (pf_selected p ns) ->
  canonical_perf_w (fp_bins p) (fp_max_shift p) (pf_from_quantized p ns) = true.
Proof.
  intros p ns H1 H2 H3 H4 H5. apply extraction_canonical_perf_w.
  exact (conj H1 (conj H2 (conj H3 (conj H4 H5)))).
Qed.

Theorem roundtrip_extracted_perf_w_flat : forall p dv i pr drum ns,
  1 <= fp_max_shift p -> (fp_bins p = 0 \/ 1 <= fp_bins p) ->
  Forall (fun n => n_qstart n < n_qend n /\ MIN_MIDI_VELOCITY <= n_vel n) ns ->
  no_nested_same_pitch (pf_selected p ns) = true -> times_follow_steps (pf_selected p ns) ->
  (match fp_instrument p with None => True | Some j => j = i end) ->
  let es := pf_from_quantized p ns in
  pf_from_quantized p (pf_rnotes p dv i pr drum es) = es.
Proof.
  intros p dv i pr drum ns H1 H2 H3 H4 H5 H6. apply roundtrip_extracted_perf_w; [|exact H6].
  exact (conj H1 (conj H2 (conj H3 (conj H4 H5)))).
Qed.
