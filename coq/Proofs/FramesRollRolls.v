(** Proofs/FramesRollRolls.v — cell-by-cell characterisation of the onset, offset,
    velocity and weights rolls painted by sequence_to_pianoroll (C18). *)
From Coq Require Import ZArith Reals Floats List Bool Lia Lra.
From Flocq Require Import Core BinarySingleNaN PrimFloat.
From NS Require Import Base.FloatBridge Gen.G18 Model.FramesRoll
  Proofs.FramesRoll Proofs.FramesRollFloat Proofs.FramesRollGrid Proofs.FramesRollPaint.
Import ListNotations.
Local Open Scope Z_scope.

(** * Boolean rolls: a cell is set iff some painted note's frame range covers it *)
Definition bool_roll (c : s2p_cfg) (fr : snote -> Z * Z) (notes : list snote) : list (list bool) :=
  fold_left (fun m n => paint m (fst (fr n)) (snd (fr n)) (col_of c n) (fun _ => true))
            (painted_notes c notes) (blank (rows_of c) (cols_of c) false).

Lemma in_range_col c n : in_range c n = true -> 0 <= n_pitch n - c_min_pitch c < cols_of c.
Proof.
  intros H. unfold in_range in H. apply negb_true_iff in H. apply orb_false_elim in H. destruct H as [H1 H2].
  apply Z.ltb_ge in H1. apply Z.ltb_ge in H2. unfold cols_of. lia.
Qed.

Lemma painted_notes_In c notes n : In n (painted_notes c notes) <-> In n notes /\ in_range c n = true.
Proof. unfold painted_notes. rewrite filter_In, sort_notes_In. reflexivity. Qed.

Theorem bool_roll_cells c fr notes :
  0 <= rows_of c -> 0 <= cols_of c ->
  (forall n, In n notes -> in_range c n = true -> 0 <= fst (fr n) /\ 0 <= snd (fr n)) ->
  rect (bool_roll c fr notes) (Z.to_nat (rows_of c)) (Z.to_nat (cols_of c)) /\
  forall i p, 0 <= i -> 0 <= p ->
  (mget (bool_roll c fr notes) i p = true <->
   (i < rows_of c /\
    exists n, In n notes /\ in_range c n = true /\ p = n_pitch n - c_min_pitch c /\ fst (fr n) <= i < snd (fr n))).
Proof.
  intros Hrows Hcols Hnonneg.
  pose proof (blank_rect (rows_of c) (cols_of c) Hrows Hcols) as Hb.
  set (fr3 := fun n : snote => (fst (fr n), snd (fr n), col_of c n)).
  destruct (fold_paint_true_clamped fr3 (painted_notes c notes) _ _ _ Hb) as [Hrect Hres].
  { intros n Hn. apply painted_notes_In in Hn. destruct Hn as [Hn Hr]. cbn [fr3 fst snd].
    pose proof (Hnonneg n Hn Hr). pose proof (in_range_col c n Hr). unfold col_of. lia. }
  cbv zeta in Hres. split; [exact Hrect|].
  intros i p Hi Hp. unfold bool_roll.
  unfold mget. destruct (i <? 0) eqn:Ei; [apply Z.ltb_lt in Ei; lia|].
  destruct (p <? 0) eqn:Ep; [apply Z.ltb_lt in Ep; lia|]. cbn [orb].
  change (fold_left (fun m n => paint m (fst (fr n)) (snd (fr n)) (col_of c n) (fun _ => true)))
    with (fold_left (fun m n => paint m (fst (fst (fr3 n))) (snd (fst (fr3 n))) (snd (fr3 n)) (fun _ => true))).
  rewrite Hres. rewrite blank_mg. split.
  - intros [H|(HjR & n & Hn & Hc)]; [discriminate|].
    apply painted_notes_In in Hn. destruct Hn as [Hn Hr]. cbn [fr3 fst snd] in Hc. unfold covers in Hc.
    apply andb_prop in Hc. destruct Hc as [Hc Hq]. apply andb_prop in Hc. destruct Hc as [Hc1 Hc2].
    apply Z.leb_le in Hc1. apply Z.ltb_lt in Hc2. apply Nat.eqb_eq in Hq.
    pose proof (in_range_col c n Hr). unfold col_of in Hq.
    split; [lia|]. exists n. split; [assumption|]. split; [assumption|]. split; lia.
  - intros (HiR & n & Hn & Hr & Hpn & Hspan). right. split; [lia|].
    exists n. split; [apply painted_notes_In; split; assumption|]. cbn [fr3 fst snd]. unfold covers, col_of.
    rewrite Z2Nat.id by lia.
    destruct (fst (fr n) <=? i) eqn:E1; [|apply Z.leb_gt in E1; lia].
    destruct (i <? snd (fr n)) eqn:E2; [|apply Z.ltb_ge in E2; lia].
    cbn [andb]. apply Nat.eqb_eq. lia.
Qed.

Lemma onset_roll_bool c notes : onset_roll c notes = bool_roll c (onset_frames c) notes.
Proof. reflexivity. Qed.
Lemma offset_roll_bool c notes : offset_roll c notes = bool_roll c (offset_frames c) notes.
Proof. reflexivity. Qed.

(** ** Onsets *)
(* delayed onset times *)
Definition onset_t0 (c : s2p_cfg) (n : snote) : flt := (n_start n + c_delay_ms c / f1000)%float.
Definition onset_t1 (c : s2p_cfg) (n : snote) : flt := (n_end n + c_delay_ms c / f1000)%float.

Lemma onset_frames_window c n : c_mode c = 0 -> gt0 (c_occ c) = false ->
  onset_frames c n =
  (Z.max 0 (Z.max 0 (sframe (c_fps c) (onset_t0 c n) - c_window c)),
   Z.max 0 (Z.min (rows_of c) (sframe (c_fps c) (onset_t0 c n) + c_window c + 1))).
Proof.
  intros Hm Hocc. unfold onset_frames, onset_frames_raw. rewrite Hm. cbn [Z.eqb]. cbv zeta.
  unfold fft. rewrite (fft_no_occupancy _ _ _ _ Hocc). reflexivity.
Qed.

Lemma onset_frames_length c n : c_mode c <> 0 -> gt0 (c_occ c) = false ->
  onset_frames c n =
  (Z.max 0 (sframe (c_fps c) (onset_t0 c n)),
   Z.max 0 (Z.max (sframe (c_fps c) (onset_t0 c n) + 1)
         (eframe (c_fps c) (fmin (onset_t1 c n) (onset_t0 c n + c_onset_len_ms c / f1000)%float)))).
Proof.
  intros Hm Hocc. unfold onset_frames, onset_frames_raw. destruct (c_mode c =? 0) eqn:E; [apply Z.eqb_eq in E; contradiction|].
  cbv zeta. unfold fft. rewrite (fft_no_occupancy _ _ _ _ Hocc). reflexivity.
Qed.

Lemma onset_frames_nonneg c n : 0 <= fst (onset_frames c n) /\ 0 <= snd (onset_frames c n).
Proof. unfold onset_frames. cbn [fst snd]. lia. Qed.

Theorem onset_cells_proof c notes :
  0 <= rows_of c -> 0 <= cols_of c ->
  forall i p, 0 <= i -> 0 <= p ->
  (mget (onset_roll c notes) i p = true <->
   (i < rows_of c /\
    exists n, In n notes /\ in_range c n = true /\ p = n_pitch n - c_min_pitch c /\
              fst (onset_frames c n) <= i < snd (onset_frames c n))).
Proof.
  intros H1 H2. rewrite onset_roll_bool.
  apply (bool_roll_cells c (onset_frames c) notes H1 H2 (fun n _ _ => onset_frames_nonneg c n)).
Qed.

(* 'window' mode: exactly [w - window, w + window] intersected with the roll, w = int((start + delay/1000) * fps) *)
Theorem onset_window_proof c notes :
  c_mode c = 0 -> gt0 (c_occ c) = false -> 0 <= rows_of c -> 0 <= cols_of c ->
  forall i p, 0 <= i -> 0 <= p ->
  (mget (onset_roll c notes) i p = true <->
   (i < rows_of c /\
    exists n, In n notes /\ in_range c n = true /\ p = n_pitch n - c_min_pitch c /\
              sframe (c_fps c) (onset_t0 c n) - c_window c <= i <= sframe (c_fps c) (onset_t0 c n) + c_window c)).
Proof.
  intros Hm Hocc Hrows Hcols i p Hi Hp.
  rewrite (onset_cells_proof c notes Hrows Hcols i p Hi Hp).
  split; intros (HiR & n & Hn & Hr & Hpn & Hspan); (split; [assumption|]); exists n;
    (split; [assumption|]); (split; [assumption|]); (split; [assumption|]);
    rewrite (onset_frames_window c n Hm Hocc) in *; cbn [fst snd] in *; lia.
Qed.

(* 'length_ms' mode: [int(t0*fps), max(+1, ceil(min(t1, t0 + length/1000) * fps))) intersected with the roll *)
Theorem onset_length_proof c notes :
  c_mode c <> 0 -> gt0 (c_occ c) = false -> 0 <= rows_of c -> 0 <= cols_of c ->
  forall i p, 0 <= i -> 0 <= p ->
  (mget (onset_roll c notes) i p = true <->
   (i < rows_of c /\
    exists n, In n notes /\ in_range c n = true /\ p = n_pitch n - c_min_pitch c /\
              sframe (c_fps c) (onset_t0 c n) <= i <
              Z.max (sframe (c_fps c) (onset_t0 c n) + 1)
                    (eframe (c_fps c) (fmin (onset_t1 c n) (onset_t0 c n + c_onset_len_ms c / f1000)%float)))).
Proof.
  intros Hm Hocc Hrows Hcols i p Hi Hp.
  rewrite (onset_cells_proof c notes Hrows Hcols i p Hi Hp).
  split; intros (HiR & n & Hn & Hr & Hpn & Hspan); (split; [assumption|]); exists n;
    (split; [assumption|]); (split; [assumption|]); (split; [assumption|]);
    rewrite (onset_frames_length c n Hm Hocc) in *; cbn [fst snd] in *; lia.
Qed.

(** ** Offsets *)
Definition offset_t0 (c : s2p_cfg) (n : snote) : flt :=
  fmin (n_end n) (c_total c - c_offset_len_ms c / f1000)%float.

Lemma offset_frames_eq c n : gt0 (c_occ c) = false ->
  offset_frames c n =
  (sframe (c_fps c) (offset_t0 c n),
   Z.max (sframe (c_fps c) (offset_t0 c n) + 1)
         (eframe (c_fps c) (offset_t0 c n + c_offset_len_ms c / f1000)%float)).
Proof.
  intros Hocc. unfold offset_frames. cbv zeta. unfold fft. rewrite (fft_no_occupancy _ _ _ _ Hocc).
  cbn [fst snd]. unfold offset_t0. f_equal. lia.
Qed.

Theorem offset_cells_proof c notes :
  gt0 (c_occ c) = false -> 0 <= rows_of c -> 0 <= cols_of c ->
  (forall n, In n notes -> in_range c n = true -> 0 <= sframe (c_fps c) (offset_t0 c n)) ->
  forall i p, 0 <= i -> 0 <= p ->
  (mget (offset_roll c notes) i p = true <->
   (i < rows_of c /\
    exists n, In n notes /\ in_range c n = true /\ p = n_pitch n - c_min_pitch c /\
              sframe (c_fps c) (offset_t0 c n) <= i <
              Z.max (sframe (c_fps c) (offset_t0 c n) + 1)
                    (eframe (c_fps c) (offset_t0 c n + c_offset_len_ms c / f1000)%float))).
Proof.
  intros Hocc Hrows Hcols Hw i p Hi Hp. rewrite offset_roll_bool.
  destruct (bool_roll_cells c (offset_frames c) notes Hrows Hcols) as [_ H].
  - intros n Hn Hr. rewrite (offset_frames_eq c n Hocc). cbn [fst snd]. pose proof (Hw n Hn Hr). lia.
  - rewrite (H i p Hi Hp).
    split; intros (HiR & n & Hn & Hr & Hpn & Hspan); (split; [assumption|]); exists n;
      (split; [assumption|]); (split; [assumption|]); (split; [assumption|]);
      rewrite (offset_frames_eq c n Hocc) in *; cbn [fst snd] in *; lia.
Qed.

(** ** Velocities: the cell holds the velocity of the last-painted covering note *)
Definition zget (m : list (list Z)) (i p : Z) : Z :=
  if (i <? 0) || (p <? 0) then 0 else gmg 0 m (Z.to_nat i) (Z.to_nat p).

(* note n paints cell (i, p) of the active / velocity roll *)
Definition in_cell (c : s2p_cfg) (n : snote) (i p : Z) : bool :=
  (f_start (note_frames c n) <=? i) && (i <? f_end (note_frames c n)) && (p =? n_pitch n - c_min_pitch c).

Lemma last_cover_ext {B} (c1 c2 : B -> bool) : forall l, (forall n, In n l -> c1 n = c2 n) ->
  last_cover c1 l = last_cover c2 l.
Proof.
  unfold last_cover. induction l as [|x l IH] using rev_ind; intros H; [reflexivity|].
  rewrite !fold_left_app. cbn [fold_left].
  rewrite (H x) by (apply in_or_app; right; left; reflexivity).
  rewrite IH; [reflexivity|]. intros n Hn. apply H. apply in_or_app. left. assumption.
Qed.

Definition vel_op (c : s2p_cfg) (n : snote) : Z * Z * nat * (Z -> Z) :=
  (f_start (note_frames c n), f_end (note_frames c n), col_of c n, fun _ => n_vel n).

Lemma velocity_roll_ops c notes :
  velocity_roll c notes = apply_ops snote (vel_op c) (painted_notes c notes) (blank (rows_of c) (cols_of c) 0).
Proof. reflexivity. Qed.

Theorem velocity_cells_proof c notes :
  0 <= rows_of c -> 0 <= cols_of c ->
  (forall n, In n notes -> in_range c n = true ->
             0 <= f_start (note_frames c n) /\ 0 <= f_end (note_frames c n)) ->
  forall i p, 0 <= i < rows_of c -> 0 <= p ->
  zget (velocity_roll c notes) i p =
  match last_cover (fun n => in_cell c n i p) (painted_notes c notes) with
  | Some n => n_vel n
  | None => 0
  end.
Proof.
  intros Hrows Hcols Hnonneg i p Hi Hp.
  pose proof (gblank_rect 0 (rows_of c) (cols_of c) Hrows Hcols) as Hb.
  rewrite velocity_roll_ops.
  destruct (apply_ops_spec 0 snote (vel_op c) (painted_notes c notes) _ _ _ Hb) as [_ Hres].
  { intros n Hn. apply painted_notes_In in Hn. destruct Hn as [Hn Hr].
    unfold op_s, op_e, op_col, vel_op. cbn [fst snd].
    pose proof (Hnonneg n Hn Hr). pose proof (in_range_col c n Hr). unfold col_of. lia. }
  unfold zget. destruct (i <? 0) eqn:Ei; [apply Z.ltb_lt in Ei; lia|].
  destruct (p <? 0) eqn:Ep; [apply Z.ltb_lt in Ep; lia|]. cbn [orb].
  rewrite Hres. rewrite gblank_mg.
  rewrite (last_write_const (vel_op c) n_vel) by (intros; reflexivity).
  rewrite (last_cover_ext _ (fun n => in_cell c n i p)); [reflexivity|].
  intros n Hn. apply painted_notes_In in Hn. destruct Hn as [Hn Hr].
  pose proof (in_range_col c n Hr) as Hcol.
  unfold op_s, op_e, op_col, vel_op, gcovers, in_cell, col_of. cbn [fst snd].
  rewrite !Z2Nat.id by lia.
  replace (Nat.ltb (Z.to_nat i) (Z.to_nat (rows_of c))) with true
    by (symmetry; apply Nat.ltb_lt; lia).
  rewrite andb_true_r. f_equal.
  destruct (p =? n_pitch n - c_min_pitch c) eqn:E.
  - apply Z.eqb_eq in E. apply Nat.eqb_eq. lia.
  - apply Z.eqb_neq in E. apply Nat.eqb_neq. lia.
Qed.

(* the active roll in the same terms (no blank frame): active iff some painted note covers the cell *)
Lemma active_roll_bool c notes : c_blank c = false ->
  active_roll c notes = bool_roll c (fun n => (f_start (note_frames c n), f_end (note_frames c n))) notes.
Proof.
  intros Hb. unfold active_roll, bool_roll. apply fold_left_ext.
  intros m n. unfold paint_active. rewrite Hb. reflexivity.
Qed.

Lemma last_cover_exists {B} (cov : B -> bool) l :
  (exists n, last_cover cov l = Some n) <-> (exists n, In n l /\ cov n = true).
Proof.
  split.
  - intros (n & H). exists n. apply (last_cover_some cov l n H).
  - intros (n & Hn & Hc). destruct (last_cover cov l) as [m|] eqn:E; [exists m; reflexivity|].
    rewrite (proj1 (last_cover_none cov l) E n Hn) in Hc. discriminate.
Qed.

(* velocities are non-zero exactly on the active frames (velocities >= 1, no blank frame) *)
Theorem velocity_active_proof c notes :
  c_blank c = false -> 0 <= rows_of c -> 0 <= cols_of c ->
  (forall n, In n notes -> in_range c n = true ->
             0 <= f_start (note_frames c n) /\ 0 <= f_end (note_frames c n)) ->
  (forall n, In n notes -> in_range c n = true -> 1 <= n_vel n) ->
  forall i p, 0 <= i < rows_of c -> 0 <= p ->
  (zget (velocity_roll c notes) i p <> 0 <-> mget (active_roll c notes) i p = true).
Proof.
  intros Hblank Hrows Hcols Hnonneg Hvel i p Hi Hp.
  rewrite (velocity_cells_proof c notes Hrows Hcols Hnonneg i p Hi Hp).
  rewrite (active_roll_bool c notes Hblank).
  destruct (bool_roll_cells c (fun n => (f_start (note_frames c n), f_end (note_frames c n))) notes Hrows Hcols) as [_ Hact].
  { intros n Hn Hr. cbn [fst snd]. apply Hnonneg; assumption. }
  rewrite (Hact i p ltac:(lia) Hp). cbn [fst snd].
  split.
  - intros H. destruct (last_cover _ _) as [n|] eqn:E; [|contradiction].
    apply last_cover_some in E. destruct E as [Hn Hc]. apply painted_notes_In in Hn. destruct Hn as [Hn Hr].
    unfold in_cell in Hc. apply andb_prop in Hc. destruct Hc as [Hc Hq]. apply andb_prop in Hc. destruct Hc as [H1 H2].
    apply Z.leb_le in H1. apply Z.ltb_lt in H2. apply Z.eqb_eq in Hq.
    split; [lia|]. exists n. repeat split; try assumption; lia.
  - intros (_ & n & Hn & Hr & Hq & Hspan).
    assert (Hex : exists m, In m (painted_notes c notes) /\ in_cell c m i p = true).
    { exists n. split; [apply painted_notes_In; split; assumption|]. unfold in_cell.
      destruct (f_start (note_frames c n) <=? i) eqn:E1; [|apply Z.leb_gt in E1; lia].
      destruct (i <? f_end (note_frames c n)) eqn:E2; [|apply Z.ltb_ge in E2; lia].
      cbn [andb]. apply Z.eqb_eq. assumption. }
    apply last_cover_exists in Hex. destruct Hex as (m & Hm). rewrite Hm.
    apply last_cover_some in Hm. destruct Hm as [Hm _]. apply painted_notes_In in Hm. destruct Hm as [Hm Hr'].
    pose proof (Hvel m Hm Hr'). lia.
Qed.

(** The Python cell is float32(velocity / max_velocity): the float64 quotient lies in (0, 1]
    (the float32 cast is not modelled in Coq; the harness compares its bits exactly). *)
Local Open Scope R_scope.
Lemma velocity_unit_real v mv : (1 <= v <= mv)%Z -> 0 < IZR v / IZR mv <= 1.
Proof.
  intros H. assert (0 < IZR mv) by (apply IZR_lt; lia). assert (1 <= IZR v) by (apply IZR_le; lia).
  assert (IZR v <= IZR mv) by (apply IZR_le; lia).
  split.
  - apply Rdiv_lt_0_compat; lra.
  - apply Rmult_le_reg_r with (IZR mv); [assumption|]. unfold Rdiv. rewrite Rmult_assoc, Rinv_l by lra. lra.
Qed.

Theorem velocity_unit_float v mv : (1 <= v <= mv)%Z -> (mv < 2 ^ 53)%Z ->
  fin (fz v / fz mv)%float /\ 0 < R_of (fz v / fz mv)%float <= 1.
Proof.
  intros H Hmv.
  destruct (fz_R v) as [Hv Fv]; [lia|]. destruct (fz_R mv) as [Hm Fm]; [lia|].
  pose proof (velocity_unit_real v mv H) as [Hlo Hhi].
  assert (Hne : R_of (fz mv) <> 0) by (rewrite Hm; apply Rgt_not_eq; apply IZR_lt; lia).
  destruct (div_R (fz v) (fz mv) 0 Fv Fm Hne) as [Hd Fd]; [lia| |].
  - rewrite Hv, Hm. rewrite Rabs_pos_eq by lra. cbn. lra.
  - split; [exact Fd|]. rewrite Hd, Hv, Hm. split.
    + apply Rlt_le_trans with (bpow radix2 (-53)); [apply bpow_gt_0|].
      apply round_ge_generic; auto with typeclass_instances.
      * apply generic_format_bpow. unfold FLT_exp, emax, prec. lia.
      * assert (Hmvb : IZR mv < bpow radix2 53).
        { rewrite <- (IZR_Zpower radix2 53) by lia. apply IZR_lt. exact Hmv. }
        assert (Hpos : 0 < IZR mv) by (apply IZR_lt; lia).
        replace (bpow radix2 (-53)) with (/ bpow radix2 53) by (rewrite <- bpow_opp; reflexivity).
        apply Rle_trans with (/ IZR mv).
        -- apply Rinv_le; [assumption|lra].
        -- unfold Rdiv. rewrite <- (Rmult_1_l (/ IZR mv)) at 1.
           apply Rmult_le_compat_r; [apply Rlt_le, Rinv_0_lt_compat; assumption|apply IZR_le; lia].
    + change (rnd (IZR v / IZR mv) <= bpow radix2 0).
      apply round_le_generic; auto with typeclass_instances;
        try (apply generic_format_bpow; unfold FLT_exp, emax, prec; lia); try exact Hhi.
Qed.
Local Close Scope R_scope.
Local Open Scope Z_scope.

(** ** Weights: code 0 = 1.0, code k >= 1 = onset_upweight / k.  Each painted note performs, in
    this order, the slice assignments [weight_ops]; every cell holds what the last assignment
    touching it wrote. *)
Definition wop := (Z * Z * nat * (Z -> Z))%type.

Definition weight_ops (c : s2p_cfg) (R : nat) (n : snote) : list wop :=
  let fr := note_frames c n in
  let len := Z.max 0 (f_end fr - f_on_e fr) in
  let lo := py_idx (Z.of_nat R) (f_on_e fr) in
  [ (f_on_s fr, f_on_e fr, col_of c n, fun _ => 1);                                   (* onset frames: upweight *)
    (f_on_e fr, f_end fr, col_of c n, fun i => if len =? 1 then 1 else i - lo + 1) ]  (* ramp upweight / 1, /2, ... *)
  ++ (if c_blank c && (0 <? f_start fr)
      then [ (f_start fr - 1, f_start fr, col_of c n, fun _ => 0) ] else []).         (* blank frame: 1.0 *)

Lemma apply_ops_app {A B} (op : B -> Z * Z * nat * (Z -> A)) l1 l2 m :
  apply_ops B op (l1 ++ l2) m = apply_ops B op l2 (apply_ops B op l1 m).
Proof. unfold apply_ops. apply fold_left_app. Qed.

Lemma paint_length {A} (m : list (list A)) s e p f : length (paint m s e p f) = length m.
Proof.
  unfold paint. cbv zeta. generalize 0 at 1. generalize (py_idx (Z.of_nat (length m)) s) (py_idx (Z.of_nat (length m)) e).
  induction m as [|r m IH]; intros lo hi i0; cbn [paint_from length]; [reflexivity|]. f_equal. apply IH.
Qed.

Lemma paint_weights_ops c m n : paint_weights c m n = apply_ops wop (fun o => o) (weight_ops c (length m) n) m.
Proof.
  unfold paint_weights, weight_ops. cbv zeta.
  destruct (c_blank c && (0 <? f_start (note_frames c n))); reflexivity.
Qed.

Lemma apply_ops_length {A B} (op : B -> Z * Z * nat * (Z -> A)) : forall l m, length (apply_ops B op l m) = length m.
Proof.
  induction l as [|x l IH]; intros m; [reflexivity|].
  unfold apply_ops in *. cbn [fold_left]. rewrite IH. apply paint_length.
Qed.

Lemma weights_roll_ops c : forall l m,
  fold_left (paint_weights c) l m = apply_ops wop (fun o => o) (flat_map (weight_ops c (length m)) l) m.
Proof.
  induction l as [|n l IH]; intros m; [reflexivity|].
  cbn [fold_left flat_map]. rewrite apply_ops_app. rewrite IH. rewrite paint_weights_ops.
  rewrite apply_ops_length. reflexivity.
Qed.

Theorem weights_cells_proof c notes :
  0 <= rows_of c -> 0 <= cols_of c ->
  (forall n, In n notes -> in_range c n = true ->
     0 <= f_start (note_frames c n) /\ 0 <= f_end (note_frames c n)) ->
  forall i p, 0 <= i -> 0 <= p ->
  zget (weights_roll c notes) i p =
  last_write wop (fun o => o) (Z.to_nat (rows_of c)) (Z.to_nat i) (Z.to_nat p)
             (flat_map (weight_ops c (Z.to_nat (rows_of c))) (painted_notes c notes)) 0.
Proof.
  intros Hrows Hcols Hnonneg i p Hi Hp.
  pose proof (gblank_rect 0 (rows_of c) (cols_of c) Hrows Hcols) as Hb.
  unfold weights_roll. rewrite weights_roll_ops.
  assert (Hlen : length (blank (rows_of c) (cols_of c) 0) = Z.to_nat (rows_of c)) by apply Hb.
  rewrite Hlen.
  destruct (apply_ops_spec 0 wop (fun o => o)
              (flat_map (weight_ops c (Z.to_nat (rows_of c))) (painted_notes c notes)) _ _ _ Hb) as [_ Hres].
  { intros o Ho. apply in_flat_map in Ho. destruct Ho as (n & Hn & Ho).
    apply painted_notes_In in Hn. destruct Hn as [Hn Hr].
    destruct (Hnonneg n Hn Hr) as (H3 & H4). pose proof (in_range_col c n Hr) as Hcol.
    destruct (onset_frames_nonneg c n) as [H1 H2].
    change (fst (onset_frames c n)) with (f_on_s (note_frames c n)) in H1.
    change (snd (onset_frames c n)) with (f_on_e (note_frames c n)) in H2.
    unfold weight_ops in Ho. cbv zeta in Ho. apply in_app_or in Ho.
    unfold op_s, op_e, op_col.
    destruct Ho as [[<-|[<-|[]]]|Ho]; cbn [fst snd]; unfold col_of; try lia.
    destruct (c_blank c && (0 <? f_start (note_frames c n))) eqn:E; [|destruct Ho].
    destruct Ho as [<-|[]]. cbn [fst snd]. apply andb_prop in E. destruct E as [_ E]. apply Z.ltb_lt in E. unfold col_of. lia. }
  unfold zget. destruct (i <? 0) eqn:Ei; [apply Z.ltb_lt in Ei; lia|].
  destruct (p <? 0) eqn:Ep; [apply Z.ltb_lt in Ep; lia|]. cbn [orb].
  rewrite Hres. rewrite gblank_mg. reflexivity.
Qed.

(* one note, read off: onset frames carry code 1, the frames after them up to the note's end carry 2, 3, ... *)
Example weights_single_note_demo :
  let c := grid_cfg (fz 16) (fz 1) 60 1 in
  let n := {| n_pitch := 60; n_vel := 80; n_start := ftime (fz 16) 2; n_end := ftime (fz 16) 8 |} in
  map (fun i => zget (weights_roll c [n]) i 0) [0; 1; 2; 3; 4; 5; 6; 7; 8; 9] = [0; 1; 1; 1; 1; 2; 3; 4; 0; 0].
Proof. vm_compute. reflexivity. Qed.

(** Before repo commit 05c4d11 the onset frames were used unclamped: with a note at time 0, 100 fps,
    onset_delay_ms = -50 and window 1 the end frame is -3 and numpy's slice [0:-3] marks the onset
    in frames 0 .. rows-4, nowhere near the note (and the weights assignment then raised). *)
Definition early_cfg : s2p_cfg :=
  {| c_fps := fz 100; c_occ := zero; c_min_pitch := 60; c_max_pitch := 60; c_max_vel := 127;
     c_blank := false; c_window := 1; c_onset_len_ms := zero; c_offset_len_ms := zero;
     c_mode := 0; c_delay_ms := (- fz 50)%float; c_overlap := true; c_total := ftime (fz 100) 30 |}.
Definition early_note : snote :=
  {| n_pitch := 60; n_vel := 80; n_start := zero; n_end := ftime (fz 100) 10 |}.

Lemma unclamped_onset_refuted_proof :
  onset_frames_raw early_cfg early_note = (0, -3) /\
  mget (paint (blank (rows_of early_cfg) 1 false) 0 (-3) 0 (fun _ => true)) 20 0 = true /\
  onset_frames early_cfg early_note = (0, 0) /\
  s2p early_cfg [early_note] [] <> inl 1 /\
  forall i, In i [0; 1; 5; 20; 27; 30] -> mget (onset_roll early_cfg [early_note]) i 0 = false.
Proof.
  split; [vm_compute; reflexivity|]. split; [vm_compute; reflexivity|]. split; [vm_compute; reflexivity|].
  split; [vm_compute; discriminate|].
  intros i Hi. cbn in Hi. repeat (destruct Hi as [<-|Hi]; [vm_compute; reflexivity|]). destruct Hi.
Qed.
