(** Proofs/PermSustainTotal.v — C12 for apply_sustain_control_changes, part 2:
    total_time.  The state machine only ever writes into [total] a time at which it
    has just fixed the final end of some note (pedal release, closing loop), so the
    returned total_time is the old total_time or the new end of some note; with C14's
    "total_time covers every note" it is max(old total_time, latest new end) — a
    function of the multiset of returned notes.  The invariant rides on the simulation
    invariant [inv] of Proofs/SustainSpec.v. *)
From Coq Require Import ZArith List Bool Lia ZifyBool Permutation Sorted.
From NS Require Import Base.NoteSeq Model.PermDefs Proofs.PermTools.
From NS Require Import Gen.G14 Model.Sustain Proofs.Sustain Proofs.SustainFrame Proofs.SustainMono
  Proofs.SustainSpecA Proofs.SustainSpecB Proofs.SustainSpec.
Import ListNotations.
Local Open Scope Z_scope.

(** * what the release loop and the closing loop do to [total] *)
Lemma off_loop_total i t : forall act cs tot,
  NoDup act -> (forall a, In a act -> (a < length cs)%nat) ->
  let r := off_loop i t act cs tot in
  snd r = tot \/
  (snd r = t /\ exists a, In a act /\ ~ In a (fst (fst r)) /\ n_end (cell_at (snd (fst r)) a) = t).
Proof.
  induction act as [|a act IH]; intros cs tot ND RG; cbn [off_loop]; [left; reflexivity|].
  inversion ND as [|? ? NI ND']; subst.
  assert (RG' : forall b, In b act -> (b < length cs)%nat) by (intros; apply RG; now right).
  destruct (n_instr (cell_at cs a) =? i); [destruct (n_end (cell_at cs a) <? t) eqn:E2|].
  - set (cs1 := set_end_at cs a t).
    assert (RG1 : forall b, In b act -> (b < length cs1)%nat)
      by (intros b Hb; unfold cs1; rewrite set_end_at_length; now apply RG').
    specialize (IH cs1 (if tot <? t then t else tot) ND' RG1). cbv zeta in IH.
    assert (W : ~ In a (fst (fst (off_loop i t act cs1 (if tot <? t then t else tot)))) /\
                n_end (cell_at (snd (fst (off_loop i t act cs1 (if tot <? t then t else tot)))) a) = t).
    { split; [intros H; apply NI; eapply off_loop_incl; exact H|].
      unfold cell_at. rewrite off_loop_frame by exact NI. unfold cs1.
      rewrite set_end_at_nth_eq by (apply RG; now left). reflexivity. }
    destruct IH as [IH|(IH & b & B1 & B2 & B3)].
    + destruct (tot <? t) eqn:E; [right|left; exact IH].
      split; [exact IH|]. exists a. split; [now left|exact W].
    + right. split; [exact IH|]. exists b. split; [now right|]. split; assumption.
  - specialize (IH cs tot ND' RG'). cbv zeta in IH.
    destruct (off_loop i t act cs tot) as [[keep cs'] tot'] eqn:OL. cbn [fst snd] in *.
    destruct IH as [IH|(IH & b & B1 & B2 & B3)]; [left; exact IH|right].
    split; [exact IH|]. exists b. split; [now right|]. split; [|exact B3].
    intros [->|H]; [contradiction|contradiction].
  - specialize (IH cs tot ND' RG'). cbv zeta in IH.
    destruct (off_loop i t act cs tot) as [[keep cs'] tot'] eqn:OL. cbn [fst snd] in *.
    destruct IH as [IH|(IH & b & B1 & B2 & B3)]; [left; exact IH|right].
    split; [exact IH|]. exists b. split; [now right|]. split; [|exact B3].
    intros [->|H]; [contradiction|contradiction].
Qed.

Lemma close_total t : forall act cs tot,
  snd (close t act cs tot) = tot \/ (snd (close t act cs tot) = t /\ act <> []).
Proof.
  induction act as [|a act IH]; intros cs tot; cbn [close]; [left; reflexivity|].
  destruct (IH (set_end_at cs a t) (if tot <? t then t else tot)) as [H|[H _]].
  - destruct (tot <? t) eqn:E; [right; split; [exact H|discriminate]|left; exact H].
  - right. split; [exact H|discriminate].
Qed.

Section Tot.
  Variable ctl : Z.
  Variable ns : list note.
  Variable ccs : list cc.
  Hypothesis Hord : ordered_b ns = true.
  Hypothesis Hnc : no_clash ns = true.
  Variable tot0 : Z.
  Let evs := sorted_events ctl ns ccs.

  (** [total] is the initial value or the specified end of a note that is finished *)
  Definition tinv (s : st) (rest : list event) : Prop :=
    total s = tot0 \/
    exists k n, V ns k n /\ ~ In (on_ev k n) rest /\ ~ In k (active s) /\ total s = spec_end ctl ns ccs k n.

  Lemma step_tinv s done e rest :
    evs = done ++ e :: rest -> inv ctl ns ccs s done (e :: rest) -> tinv s (e :: rest) -> tinv (step s e) rest.
  Proof.
    intros E I T.
    pose proof (step_inv ctl ns ccs Hord Hnc s done e rest E I) as I'.
    (* an old witness survives whenever [total] is unchanged and the new active list adds at most e's own note *)
    assert (KEEP : total (step s e) = total s ->
                   (forall k, In k (active (step s e)) -> In k (active s) \/ (e_kind e = KNoteOn /\ k = e_ref e)) ->
                   tinv (step s e) rest).
    { intros Et Ha. destruct T as [T|(k & n & Vk & N1 & N2 & T)]; [left; congruence|right].
      exists k, n. split; [exact Vk|]. split; [intros C; apply N1; now right|]. split; [|congruence].
      intros C. destruct (Ha k C) as [C'|[K ->]]; [now apply N2|].
      assert (In e evs) by (unfold evs in *; rewrite E; apply in_or_app; right; now left).
      destruct (ev_on_form ctl ns ccs e H K) as (n' & V' & Ee).
      rewrite (V_fun ns _ n n' Vk V') in N1. apply N1. left. exact Ee. }
    unfold step in *. destruct (e_kind e) eqn:K.
    - apply KEEP; [reflexivity|]. cbn [active]. auto.
    - assert (RG : forall a, In a (active s) -> (a < length (cells s))%nat).
      { intros a Ha. destruct (i_act _ _ _ _ _ _ I a Ha) as (na & Va & _). eapply V_range; eassumption. }
      pose proof (off_loop_total (e_instr e) (e_time e) (active s) (cells s) (total s) (i_nd _ _ _ _ _ _ I) RG) as OT.
      pose proof (off_loop_incl (e_instr e) (e_time e) (active s) (cells s) (total s)) as OI.
      destruct (off_loop (e_instr e) (e_time e) (active s) (cells s) (total s)) as [[keep cs'] tot'] eqn:OL.
      cbn [fst snd] in *. cbv zeta in OT.
      destruct OT as [OT|(OT & a & A1 & A2 & A3)].
      + apply KEEP; [exact OT|]. cbn [active]. intros k Hk. left. now apply OI.
      + right. destruct (i_act _ _ _ _ _ _ I a A1) as (na & Va & Na).
        exists a, na. cbn [active total]. split; [exact Va|]. split; [intros C; apply Na; now right|].
        split; [exact A2|].
        assert (D : nth a cs' dummy_cell = mkCell (set_end na (spec_end ctl ns ccs a na)) true).
        { apply (i_done _ _ _ _ _ _ I' a na Va); [intros C; apply Na; now right|exact A2]. }
        unfold cell_at in A3. rewrite D in A3. cbn in A3. congruence.
    - destruct (is_sus (e_instr e) (sus s)).
      + pose proof (on_loop_incl (e_instr e) (n_pitch (cell_at (cells s) (e_ref e))) (e_time e) (active s) (cells s)) as OI.
        destruct (on_loop (e_instr e) (n_pitch (cell_at (cells s) (e_ref e))) (e_time e) (active s) (cells s)) as [act cs'].
        cbn [fst] in OI. apply KEEP; [reflexivity|]. cbn [active]. intros k Hk.
        apply in_app_or in Hk as [Hk|[<-|[]]]; [left; now apply OI|right; split; reflexivity].
      + apply KEEP; [reflexivity|]. cbn [active]. intros k Hk.
        apply in_app_or in Hk as [Hk|[<-|[]]]; [now left|right; split; reflexivity].
    - destruct (is_sus (e_instr e) (sus s)).
      + apply KEEP; [reflexivity|]. auto.
      + apply KEEP; [reflexivity|]. cbn [active]. intros k Hk. left.
        eapply remove_first_eq_incl. exact Hk.
  Qed.

  Lemma run_tinv : forall rest done s, evs = done ++ rest -> inv ctl ns ccs s done rest -> tinv s rest ->
    tinv (run_events rest s) [].
  Proof.
    induction rest as [|e rest IH]; intros done s E I T; cbn [run_events fold_left]; [exact T|].
    apply (IH (done ++ [e])).
    - rewrite <- app_assoc. exact E.
    - now apply step_inv.
    - eapply step_tinv; eassumption.
  Qed.

  (** the returned total_time is the old one or the new end of some note *)
  Lemma final_total_is_an_end :
    snd (sustain_cells ctl ns ccs tot0) = tot0 \/
    exists k n, nth_error ns k = Some n /\ snd (sustain_cells ctl ns ccs tot0) = spec_end ctl ns ccs k n.
  Proof.
    assert (I : inv ctl ns ccs (pre_close ctl ns ccs tot0) evs [])
      by exact (run_inv ctl ns ccs Hord Hnc evs [] (init_st ns tot0) eq_refl (init_inv ctl ns ccs tot0)).
    assert (T : tinv (pre_close ctl ns ccs tot0) []).
    { apply (run_tinv evs [] (init_st ns tot0) eq_refl (init_inv ctl ns ccs tot0)). left. reflexivity. }
    pose proof (final_cells ctl ns ccs Hord Hnc tot0) as FC.
    unfold sustain_cells, sustain_cells_gen in FC |- *.
    set (sF := pre_close ctl ns ccs tot0) in *. set (t := last_time (sorted_events ctl ns ccs)) in *.
    destruct (close_total t (active sF) (cells sF) (total sF)) as [C|[C NE]].
    - rewrite C. destruct T as [T|(k & n & Vk & _ & _ & T)]; [left; exact T|right].
      exists k, n. split; [apply Vk|exact T].
    - right. destruct (active sF) as [|a r] eqn:EA; [congruence|].
      assert (Ha : In a (active sF)) by (rewrite EA; now left).
      destruct (i_act _ _ _ _ _ _ I a Ha) as (na & Va & _). exists a, na. split; [apply Va|].
      rewrite C. specialize (FC a na (proj1 Va)).
      rewrite <- EA in FC. rewrite close_char in FC; [|apply (i_nd _ _ _ _ _ _ I)| |exact Ha].
      2:{ intros b Hb. destruct (i_act _ _ _ _ _ _ I b Hb) as (nb & Vb & _). eapply V_range; eassumption. }
      unfold set_cell in FC. apply (f_equal (fun c => n_end (c_n c))) in FC. cbn in FC. exact FC.
  Qed.
End Tot.

(** * total_time as a function of the returned notes *)
Definition max_end_from (t : Z) (l : list note) : Z := fold_right (fun n m => Z.max (n_end n) m) t l.

Lemma max_end_from_spec t l :
  t <= max_end_from t l /\ (forall n, In n l -> n_end n <= max_end_from t l) /\
  (max_end_from t l = t \/ exists n, In n l /\ n_end n = max_end_from t l).
Proof.
  induction l as [|x r (A & B & C)]; cbn [max_end_from fold_right].
  - split; [lia|]. split; [intros n []|now left].
  - fold (max_end_from t r). split; [lia|]. split.
    + intros n [<-|Hn]; [lia|]. specialize (B n Hn). lia.
    + destruct (Z.max_spec (n_end x) (max_end_from t r)) as [[_ M]|[_ M]]; rewrite M.
      * destruct C as [C|(n & N1 & N2)]; [left; exact C|right; exists n; split; [now right|exact N2]].
      * right. exists x. split; [now left|reflexivity].
Qed.

Theorem sustain_total_is_max ctl s r :
  ordered_b (s_notes s) = true -> no_clash (s_notes s) = true -> covered_b (s_total s) (s_notes s) = true ->
  apply_sustain ctl s = Some r -> s_total r = max_end_from (s_total s) (s_notes r).
Proof.
  intros Hord Hnc Hcov H.
  destruct (apply_sustain_total_covers ctl s r Hord Hcov H) as [L1 L2].
  pose proof (sustain_refines_spec ctl s r Hord Hnc H) as SN.
  pose proof (final_total_is_an_end ctl (s_notes s) (s_ccs s) Hord Hnc (s_total s)) as F.
  pose proof (apply_sustain_result ctl s r H) as R.
  assert (ET : s_total r = snd (sustain_cells ctl (s_notes s) (s_ccs s) (s_total s))) by (rewrite R; reflexivity).
  rewrite <- ET in F.
  destruct (max_end_from_spec (s_total s) (s_notes r)) as (A & B & C).
  assert (UB : max_end_from (s_total s) (s_notes r) <= s_total r).
  { destruct C as [C|(n & N1 & N2)]; [lia|]. rewrite <- N2. now apply L2. }
  assert (LB : s_total r <= max_end_from (s_total s) (s_notes r)); [|lia].
  destruct F as [F|(k & n & Nk & F)]; [lia|].
  rewrite F. apply (B (set_end n (spec_end ctl (s_notes s) (s_ccs s) k n))).
  rewrite SN. unfold spec_notes. apply in_map_iff. exists (k, n). split; [reflexivity|now apply In_indexed].
Qed.
