(** Proofs/MidiConvert.v — C16: the post-constructor conversion raises only
    MIDIConversionError and returns only well-formed sequences, for every abstract
    PrettyMIDI object satisfying [pm_invb]. *)
From Coq Require Import ZArith List Bool Lia ZifyBool.
From NS Require Import Base.Sx Base.NoteSeq Gen.G16 Model.MidiConvert.
Import ListNotations.
Local Open Scope Z_scope.
Ltac Zify.zify_post_hook ::= Z.to_euclidean_division_equations.

Ltac b2p :=
  repeat match goal with
  | H : _ && _ = true |- _ => apply andb_prop in H; destruct H
  | H : (_ <=? _) = true |- _ => apply Z.leb_le in H
  | H : (_ <=? _) = false |- _ => apply Z.leb_gt in H
  | H : negb _ = true |- _ => apply negb_true_iff in H
  end.

(** * Generic facts about [bind] / [mapM] *)
Definition only (E : exn -> Prop) {A} (Q : A -> Prop) (r : result A) : Prop :=
  match r with Ok a => Q a | Err e => E e end.

Lemma only_bind {A B} (E : exn -> Prop) (P : A -> Prop) (Q : B -> Prop) (r : result A) (f : A -> result B) :
  only E P r -> (forall a, P a -> only E Q (f a)) -> only E Q (bind r f).
Proof. destruct r; cbn; auto. Qed.

Lemma mapM_only {A B} (f : A -> result B) (E : exn -> Prop) (P : A -> Prop) (Q : B -> Prop) :
  (forall a, P a -> only E Q (f a)) ->
  forall l, Forall P l -> only E (Forall Q) (mapM f l).
Proof.
  intros Hf l. induction l as [|x r IH]; intros HP; cbn [mapM].
  - cbn. constructor.
  - inversion HP; subst.
    apply only_bind with (P := Q); [apply Hf; assumption|].
    intros y Hy. apply only_bind with (P := Forall Q); [apply IH; assumption|].
    intros ys Hys. cbn. constructor; assumption.
Qed.

Lemma mapM_length {A B} (f : A -> result B) : forall l r, mapM f l = Ok r -> length r = length l.
Proof.
  induction l as [|x l IH]; cbn [mapM]; intros r H.
  - inversion H; reflexivity.
  - destruct (f x); cbn in H; [|discriminate].
    destruct (mapM f l) eqn:E; cbn in H; [|discriminate].
    inversion H; subst. cbn. f_equal. apply IH. reflexivity.
Qed.

(** [mapM] succeeds iff every element does, and fails with the first failing element's error *)
Lemma mapM_ok_iff {A B} (f : A -> result B) : forall l,
  (exists r, mapM f l = Ok r) <-> Forall (fun a => exists b, f a = Ok b) l.
Proof.
  induction l as [|x l IH]; cbn [mapM].
  - split; intros; [constructor | eexists; reflexivity].
  - split.
    + intros [r H]. destruct (f x) eqn:Ex; cbn in H; [|discriminate].
      destruct (mapM f l) eqn:El; cbn in H; [|discriminate].
      constructor; [eexists; exact Ex | apply IH; eexists; reflexivity].
    + intros H. inversion H as [|? ? [b Hb] Hl]; subst. apply IH in Hl. destruct Hl as [r Hr].
      rewrite Hb, Hr. cbn. eexists; reflexivity.
Qed.

Lemma forallb_Forall {A} (p : A -> bool) l : forallb p l = true <-> Forall (fun a => p a = true) l.
Proof. rewrite forallb_forall, Forall_forall. reflexivity. Qed.

Definition isMCE (e : exn) : Prop := e = MIDIConversionError.

(** * [set_int32] *)
Lemma set_int32_ok z : int32_ok z = true -> set_int32 z = Ok z.
Proof. intros H. unfold set_int32. rewrite H. reflexivity. Qed.

Lemma int32_ok_spec z : int32_ok z = true <-> INT32_MIN <= z <= INT32_MAX.
Proof. unfold int32_ok. rewrite andb_true_iff, !Z.leb_le. tauto. Qed.

Lemma byte7_int32 z : byte7 z = true -> int32_ok z = true.
Proof. unfold byte7. intros H. b2p. apply int32_ok_spec. unfold INT32_MIN, INT32_MAX. lia. Qed.

(** * Pass 1: time signatures.  No hypothesis on the denominator. *)
Lemma conv_tsig_only t :
  int32_ok (pt_num t) = true /\ 0 <= pt_time t ->
  only isMCE (fun s => 0 <= ts_time s) (conv_tsig t).
Proof.
  intros [Hn Ht]. unfold conv_tsig. rewrite (set_int32_ok _ Hn). cbn [bind].
  destruct (int32_ok (pt_den t)); cbn; [assumption | reflexivity].
Qed.

(** * Pass 2: key signatures.  No hypothesis on the key number. *)
Lemma conv_key_only k :
  0 <= pk_time k -> only isMCE (fun s => 0 <= ks_time s) (conv_key k).
Proof.
  intros Ht. unfold conv_key.
  destruct (pk_number k / 12 =? 0); [cbn; assumption|].
  destruct (pk_number k / 12 =? 1); [cbn; assumption|]. cbn. reflexivity.
Qed.

(** * [total_time] bookkeeping *)
Lemma upd_total_fold : forall ns tot,
  0 <= tot -> Forall (fun n => 0 <= pn_end n) ns ->
  tot <= fold_left upd_total ns tot /\ Forall (fun n => pn_end n <= fold_left upd_total ns tot) ns.
Proof.
  induction ns as [|n ns IH]; intros tot Ht Hn; cbn [fold_left].
  - split; [lia | constructor].
  - inversion Hn as [|? ? Hn0 Hns]; subst.
    assert (Hu : tot <= upd_total tot n /\ pn_end n <= upd_total tot n).
    { unfold upd_total. destruct (tot =? 0) eqn:E0; cbn [orb].
      - apply Z.eqb_eq in E0. lia.
      - destruct (pn_end n >? tot) eqn:E1; [apply Z.gtb_lt in E1; lia|].
        rewrite Z.gtb_ltb in E1. apply Z.ltb_ge in E1. lia. }
    destruct Hu as [Hu1 Hu2].
    destruct (IH (upd_total tot n)) as [I1 I2]; [lia | assumption |].
    split; [lia|]. constructor; [lia | assumption].
Qed.

(** under the time invariant [total_time] is exactly the maximum end time (0 if there are no notes) *)
Lemma upd_total_fold_max : forall ns tot,
  0 <= tot -> Forall (fun n => 0 <= pn_end n) ns ->
  fold_left upd_total ns tot = fold_left (fun t n => Z.max t (pn_end n)) ns tot.
Proof.
  induction ns as [|n ns IH]; intros tot Ht Hn; cbn [fold_left]; [reflexivity|].
  inversion Hn as [|? ? Hn0 Hns]; subst.
  assert (E : upd_total tot n = Z.max tot (pn_end n)).
  { unfold upd_total. destruct (tot =? 0) eqn:E0; cbn [orb].
    - apply Z.eqb_eq in E0. lia.
    - destruct (pn_end n >? tot) eqn:E1; [apply Z.gtb_lt in E1; lia|].
      rewrite Z.gtb_ltb in E1. apply Z.ltb_ge in E1. lia. }
  rewrite E. apply IH; [lia | assumption].
Qed.

(** * Pass 4: gather *)
Definition good_tag {A} (P : A -> Prop) (t : tagged A) : Prop :=
  int32_ok (tg_instr t) = true /\ int32_ok (tg_prog t) = true /\ P (tg_ev t).

Lemma tag_all_good {A} (P : A -> Prop) idx i (l : list A) :
  int32_ok idx = true -> int32_ok (pi_program i) = true -> Forall P l ->
  Forall (good_tag P) (tag_all idx i l).
Proof.
  intros Hi Hp Hl. unfold tag_all. induction Hl; cbn [map]; constructor; auto.
  unfold good_tag; cbn. auto.
Qed.

Lemma good_tag_weaken {A} (P Q : A -> Prop) l :
  (forall a, P a -> Q a) -> Forall (good_tag P) l -> Forall (good_tag Q) l.
Proof.
  intros H F. induction F as [|t l [H1 [H2 H3]] _ IH]; constructor; auto. unfold good_tag; auto.
Qed.

Definition gnote_ok (tot : Z) (n : pnote) : Prop :=
  note_rangeb n = true /\ note_timeb n = true /\ pn_end n <= tot.
Definition gbend_ok (b : pbend) : Prop := int32_ok (pbd_pitch b) = true /\ 0 <= pbd_time b.
Definition gcc_ok (c : pcc) : Prop :=
  int32_ok (pc_number c) = true /\ int32_ok (pc_value c) = true /\ 0 <= pc_time c.

Lemma gather_ok : forall l idx tot,
  0 <= idx -> idx + Z.of_nat (length l) <= INT32_MAX + 1 -> 0 <= tot ->
  forallb inst_rangeb l = true -> forallb inst_timeb l = true ->
  exists g, gather idx l tot = Ok g /\ tot <= g_total g /\
    Forall (good_tag (gnote_ok (g_total g))) (g_notes g) /\
    Forall (good_tag gbend_ok) (g_bends g) /\ Forall (good_tag gcc_ok) (g_ccs g).
Proof.
  induction l as [|i l IH]; intros idx tot Hidx Hlen Htot Hr Ht; cbn [gather].
  - eexists; split; [reflexivity|]. cbn. repeat split; try constructor. lia.
  - cbn [forallb length] in *. rewrite Nat2Z.inj_succ in Hlen.
    apply andb_prop in Hr; destruct Hr as [Hri Hrl].
    apply andb_prop in Ht; destruct Ht as [Hti Htl].
    unfold inst_rangeb in Hri. unfold inst_timeb in Hti. b2p.
    assert (Hidx32 : int32_ok idx = true).
    { apply int32_ok_spec. unfold INT32_MIN, INT32_MAX in *. lia. }
    assert (Hinfo : exists inf, conv_info idx i = Ok inf).
    { assert (Hs : set_string (pi_name i) = Ok (pi_name i)).
      { unfold set_string. match goal with H : existsb surrogate _ = false |- _ => rewrite H end. reflexivity. }
      unfold conv_info. destruct (pi_name i); [eexists; reflexivity|]. rewrite Hs.
      cbn [bind]. rewrite (set_int32_ok _ Hidx32). cbn [bind]. eexists; reflexivity. }
    destruct Hinfo as [inf Hinf]. rewrite Hinf. cbn [bind].
    match goal with H : forallb note_timeb _ = true |- _ => rename H into Hnt end.
    match goal with H : forallb note_rangeb _ = true |- _ => rename H into Hnr end.
    assert (Hends : Forall (fun n => 0 <= pn_end n) (pi_notes i)).
    { apply forallb_Forall in Hnt. eapply Forall_impl; [|exact Hnt].
      intros n Hn. unfold note_timeb in Hn. b2p. lia. }
    destruct (upd_total_fold (pi_notes i) tot Htot Hends) as [Hge Hall].
    set (tot' := fold_left upd_total (pi_notes i) tot) in *.
    destruct (IH (idx + 1) tot') as [g [Hg [Hgt [Hgn [Hgb Hgc]]]]]; try assumption; try lia.
    rewrite Hg. cbn [bind]. eexists; split; [reflexivity|]. cbn.
    split; [lia|]. split; [|split].
    + apply Forall_app; split; [|assumption].
      apply tag_all_good; try assumption.
      apply forallb_Forall in Hnt. apply forallb_Forall in Hnr.
      rewrite Forall_forall in *. intros n Hin. unfold gnote_ok.
      repeat split; auto. specialize (Hall n Hin). cbn in Hall. lia.
    + apply Forall_app; split; [|assumption].
      apply tag_all_good; try assumption.
      match goal with H : forallb (fun b => int32_ok (pbd_pitch b)) _ = true |- _ => apply forallb_Forall in H; rename H into Hb1 end.
      match goal with H : forallb (fun b => 0 <=? pbd_time b) _ = true |- _ => apply forallb_Forall in H; rename H into Hb2 end.
      rewrite Forall_forall in *. intros b Hin. split; [auto|]. apply Z.leb_le. auto.
    + apply Forall_app; split; [|assumption].
      apply tag_all_good; try assumption.
      match goal with H : forallb (fun c => int32_ok (pc_number c) && _) _ = true |- _ => apply forallb_Forall in H; rename H into Hc1 end.
      match goal with H : forallb (fun c => 0 <=? pc_time c) _ = true |- _ => apply forallb_Forall in H; rename H into Hc2 end.
      rewrite Forall_forall in *. intros c Hin. specialize (Hc1 c Hin). specialize (Hc2 c Hin).
      cbn in Hc1. b2p. unfold gcc_ok. auto.
Qed.

(** * Passes 5-7 *)
Definition out_note_ok (tot : Z) (n : note) : Prop := note_wf tot n /\ note_byteb n = true.

Lemma conv_note_only tot t :
  good_tag (gnote_ok tot) t -> only isMCE (out_note_ok tot) (conv_note t).
Proof.
  intros [Hi [Hp [Hr [Ht He]]]]. unfold conv_note.
  unfold note_rangeb in Hr. apply andb_prop in Hr. destruct Hr as [Hpi Hve].
  rewrite (set_int32_ok _ Hi), (set_int32_ok _ Hp). cbn [bind].
  rewrite (set_int32_ok _ (byte7_int32 _ Hpi)), (set_int32_ok _ (byte7_int32 _ Hve)). cbn [bind only].
  unfold out_note_ok, note_wf, note_byteb; cbn. unfold note_timeb in Ht. b2p.
  repeat split; try lia. rewrite Hpi, Hve. reflexivity.
Qed.

Lemma conv_bend_only t :
  good_tag gbend_ok t -> only isMCE (fun b => 0 <= pb_time b) (conv_bend t).
Proof.
  intros [Hi [Hp [Hb Ht]]]. unfold conv_bend.
  rewrite (set_int32_ok _ Hi), (set_int32_ok _ Hp), (set_int32_ok _ Hb). cbn. assumption.
Qed.

Lemma conv_cc_only t :
  good_tag gcc_ok t -> only isMCE (fun c => 0 <= cc_time c) (conv_cc t).
Proof.
  intros [Hi [Hp [Hn [Hv Ht]]]]. unfold conv_cc.
  rewrite (set_int32_ok _ Hi), (set_int32_ok _ Hp), (set_int32_ok _ Hn), (set_int32_ok _ Hv). cbn. assumption.
Qed.

(** * Main theorem *)
Lemma convert_rejects_nonpositive_resolution m :
  pm_res m <= 0 -> convert m = Err MIDIConversionError.
Proof.
  intros H. unfold convert, convert_gen. cbn [andb].
  destruct (pm_res m <=? 0) eqn:E; [reflexivity|]. apply Z.leb_gt in E. lia.
Qed.

Lemma pm_invb_pos m :
  pm_invb m = true -> 0 < pm_res m -> pm_rangeb m = true /\ pm_timeb m = true.
Proof.
  unfold pm_invb. intros H Hp. apply andb_prop in H. destruct H as [Hr Ht]. split; [assumption|].
  apply orb_prop in Ht. destruct Ht as [Ht|Ht]; [apply Z.leb_le in Ht; lia | assumption].
Qed.

Lemma convert_gen_only_pos fixed m :
  pm_rangeb m = true -> pm_timeb m = true -> 0 < pm_res m ->
  only isMCE c16_wf (convert_gen fixed m).
Proof.
  intros Hr Ht Hpos. unfold convert_gen.
  assert (E : pm_res m <=? 0 = false) by (apply Z.leb_gt; lia). rewrite E, andb_false_r.
  unfold pm_rangeb in Hr. unfold pm_timeb in Ht. b2p.
  rewrite set_int32_ok by (apply int32_ok_spec; unfold INT32_MIN; lia). cbn [bind].
  (* time signatures *)
  apply only_bind with (P := Forall (fun s => 0 <= ts_time s)).
  { apply mapM_only with (P := fun t => int32_ok (pt_num t) = true /\ 0 <= pt_time t); [apply conv_tsig_only|].
    match goal with H1 : forallb (fun t => int32_ok (pt_num t)) _ = true,
                    H2 : forallb (fun t => 0 <=? pt_time t) _ = true |- _ =>
      apply forallb_Forall in H1; apply forallb_Forall in H2; rewrite Forall_forall in * end.
    intros t Hin. split; [auto|]. apply Z.leb_le. auto. }
  intros tsigs Htsigs.
  (* key signatures *)
  apply only_bind with (P := Forall (fun s => 0 <= ks_time s)).
  { apply mapM_only with (P := fun k => 0 <= pk_time k); [apply conv_key_only|].
    match goal with H2 : forallb (fun k => 0 <=? pk_time k) _ = true |- _ =>
      apply forallb_Forall in H2; rewrite Forall_forall in * end.
    intros k Hin. apply Z.leb_le. auto. }
  intros ksigs Hksigs.
  (* gather *)
  destruct (gather_ok (pm_insts m) 0 0) as [g [Hg [Hgt [Hgn [Hgb Hgc]]]]]; try assumption; try lia.
  rewrite Hg. cbn [bind].
  apply only_bind with (P := Forall (out_note_ok (g_total g))).
  { apply mapM_only with (P := good_tag (gnote_ok (g_total g))); [apply conv_note_only | assumption]. }
  intros notes Hnotes.
  apply only_bind with (P := Forall (fun b => 0 <= pb_time b)).
  { apply mapM_only with (P := good_tag gbend_ok); [apply conv_bend_only | assumption]. }
  intros bends Hbends.
  apply only_bind with (P := Forall (fun c => 0 <= cc_time c)).
  { apply mapM_only with (P := good_tag gcc_ok); [apply conv_cc_only | assumption]. }
  intros ccs Hccs.
  cbn [only]. unfold c16_wf, seq_wf. cbn.
  repeat split; try constructor; try assumption.
  - eapply Forall_impl; [|exact Hnotes]. intros n [Hn _]. exact Hn.
  - match goal with H2 : forallb (fun t => 0 <=? pp_time t) _ = true |- _ =>
      apply forallb_Forall in H2; rename H2 into Htp end.
    apply Forall_map. eapply Forall_impl; [|exact Htp]. intros t Hx. cbn. apply Z.leb_le. exact Hx.
  - apply forallb_Forall. eapply Forall_impl; [|exact Hnotes]. intros n [_ Hn]. exact Hn.
Qed.

Lemma convert_only m : pm_invb m = true -> only isMCE c16_wf (convert m).
Proof.
  intros H. destruct (Z_le_gt_dec (pm_res m) 0) as [Hle|Hgt].
  - rewrite (convert_rejects_nonpositive_resolution _ Hle). cbn. reflexivity.
  - destruct (pm_invb_pos m H) as [Hr Ht]; [lia|]. apply convert_gen_only_pos; auto; lia.
Qed.

Theorem convert_only_documented m :
  pm_invb m = true ->
  convert m = Err MIDIConversionError \/ exists c, convert m = Ok c /\ c16_wf c.
Proof.
  intros H. pose proof (convert_only m H) as Ho. destruct (convert m) as [c|e]; cbn in Ho.
  - right. exists c. split; [reflexivity | assumption].
  - left. rewrite Ho. reflexivity.
Qed.

(** The repair changes nothing for positive resolutions. *)
Lemma convert_legacy_same_when_positive m : 0 < pm_res m -> convert_legacy m = convert m.
Proof.
  intros H. unfold convert_legacy, convert, convert_gen.
  assert (E : pm_res m <=? 0 = false) by (apply Z.leb_gt; lia). rewrite E. reflexivity.
Qed.

(** * Exact characterisation of the error branch under the invariant *)
Definition den_overflows (m : pm) : bool := existsb (fun t => negb (int32_ok (pt_den t))) (pm_tsigs m).
Definition bad_mode (m : pm) : bool :=
  existsb (fun k => negb ((pk_number k / 12 =? 0) || (pk_number k / 12 =? 1))) (pm_keys m).

Lemma mapM_err_or_ok {A B} (f : A -> result B) (bad : A -> bool) :
  (forall a, bad a = true -> exists e, f a = Err e) ->
  (forall a, bad a = false -> exists b, f a = Ok b) ->
  forall l, (existsb bad l = true -> exists e, mapM f l = Err e) /\
            (existsb bad l = false -> exists r, mapM f l = Ok r).
Proof.
  intros Hb Hg. induction l as [|x l [IH1 IH2]]; cbn [existsb mapM].
  - split; [discriminate | eexists; reflexivity].
  - destruct (bad x) eqn:Ex; cbn [orb].
    + split; [|discriminate]. intros _. destruct (Hb x Ex) as [e He]. rewrite He. eexists; reflexivity.
    + destruct (Hg x Ex) as [b Hbx]. rewrite Hbx. cbn [bind]. split; intros H.
      * destruct (IH1 H) as [e He]. rewrite He. eexists; reflexivity.
      * destruct (IH2 H) as [r Hr]. rewrite Hr. eexists; reflexivity.
Qed.

Theorem convert_error_iff m :
  pm_invb m = true ->
  (convert m = Err MIDIConversionError <->
   pm_res m <= 0 \/ den_overflows m = true \/ bad_mode m = true).
Proof.
  intros Hinv. split.
  - intros Herr. destruct (Z_le_gt_dec (pm_res m) 0) as [Hle|Hgt]; [left; assumption|right].
    destruct (den_overflows m) eqn:Ed; [left; reflexivity|].
    destruct (bad_mode m) eqn:Eb; [right; reflexivity|]. exfalso.
    destruct (pm_invb_pos m Hinv) as [Hr Ht]; [lia|].
    unfold convert, convert_gen in Herr.
    assert (E : pm_res m <=? 0 = false) by (apply Z.leb_gt; lia). rewrite E, andb_false_r in Herr.
    unfold pm_rangeb in Hr. unfold pm_timeb in Ht. b2p.
    rewrite set_int32_ok in Herr by (apply int32_ok_spec; unfold INT32_MIN; lia). cbn [bind] in Herr.
    (* tsigs succeed *)
    destruct (mapM_err_or_ok conv_tsig (fun t => negb (int32_ok (pt_num t)) || negb (int32_ok (pt_den t)))) with (l := pm_tsigs m) as [_ Hok].
    { intros t Hb. unfold conv_tsig, set_int32. destruct (int32_ok (pt_num t)); cbn in *; [|eexists; reflexivity].
      rewrite negb_true_iff in Hb. rewrite Hb. eexists; reflexivity. }
    { intros t Hb. apply orb_false_elim in Hb. destruct Hb as [Hq1 Hq2]. rewrite negb_false_iff in Hq1, Hq2.
      unfold conv_tsig, set_int32. rewrite Hq1. cbn. rewrite Hq2. eexists; reflexivity. }
    destruct Hok as [ts Hts].
    { unfold den_overflows in Ed. rewrite <- not_true_iff_false in *. intros Hc. apply Ed.
      rewrite existsb_exists in *. destruct Hc as [t [Hin Hc]]. exists t. split; [assumption|].
      match goal with H1 : forallb (fun t => int32_ok (pt_num t)) _ = true |- _ =>
        rewrite forallb_forall in H1; rewrite (H1 t Hin) in Hc end. exact Hc. }
    rewrite Hts in Herr. cbn [bind] in Herr.
    destruct (mapM_err_or_ok conv_key (fun k => negb ((pk_number k / 12 =? 0) || (pk_number k / 12 =? 1)))) with (l := pm_keys m) as [_ Hok].
    { intros k Hb. rewrite negb_true_iff in Hb. apply orb_false_elim in Hb. destruct Hb as [Hq1 Hq2].
      unfold conv_key. rewrite Hq1, Hq2. eexists; reflexivity. }
    { intros k Hb. rewrite negb_false_iff in Hb. unfold conv_key.
      destruct (pk_number k / 12 =? 0); [eexists; reflexivity|]. cbn in Hb. rewrite Hb. eexists; reflexivity. }
    destruct (Hok Eb) as [ks Hks]. rewrite Hks in Herr. cbn [bind] in Herr.
    destruct (gather_ok (pm_insts m) 0 0) as [g [Hg [Hgt' [Hgn [Hgb Hgc]]]]]; try assumption; try lia.
    rewrite Hg in Herr. cbn [bind] in Herr.
    pose proof (mapM_only conv_note isMCE _ _ (conv_note_only (g_total g)) _ Hgn) as On.
    pose proof (mapM_only conv_bend isMCE _ _ conv_bend_only _ Hgb) as Ob.
    pose proof (mapM_only conv_cc isMCE _ _ conv_cc_only _ Hgc) as Oc.
    assert (Hn : exists r, mapM conv_note (g_notes g) = Ok r).
    { apply mapM_ok_iff. eapply Forall_impl; [|exact Hgn]. intros t Ht'.
      pose proof (conv_note_only _ _ Ht') as O. destruct Ht' as [Hi [Hp [Hr' _]]].
      unfold conv_note in *. unfold note_rangeb in Hr'. apply andb_prop in Hr'. destruct Hr' as [Hpi Hve].
      rewrite (set_int32_ok _ Hi), (set_int32_ok _ Hp), (set_int32_ok _ (byte7_int32 _ Hpi)),
        (set_int32_ok _ (byte7_int32 _ Hve)). cbn. eexists; reflexivity. }
    assert (Hb : exists r, mapM conv_bend (g_bends g) = Ok r).
    { apply mapM_ok_iff. eapply Forall_impl; [|exact Hgb]. intros t [Hi [Hp [Hb' _]]].
      unfold conv_bend. rewrite (set_int32_ok _ Hi), (set_int32_ok _ Hp), (set_int32_ok _ Hb'). cbn. eexists; reflexivity. }
    assert (Hc : exists r, mapM conv_cc (g_ccs g) = Ok r).
    { apply mapM_ok_iff. eapply Forall_impl; [|exact Hgc]. intros t [Hi [Hp [Hn' [Hv' _]]]].
      unfold conv_cc. rewrite (set_int32_ok _ Hi), (set_int32_ok _ Hp), (set_int32_ok _ Hn'), (set_int32_ok _ Hv'). cbn. eexists; reflexivity. }
    destruct Hn as [rn Hn]. destruct Hb as [rb Hb]. destruct Hc as [rc Hc].
    rewrite Hn, Hb, Hc in Herr. cbn in Herr. discriminate.
  - intros [Hle | Hbad]; [apply convert_rejects_nonpositive_resolution; assumption|].
    destruct (Z_le_gt_dec (pm_res m) 0) as [Hle|Hgt]; [apply convert_rejects_nonpositive_resolution; assumption|].
    pose proof (convert_only m Hinv) as Ho.
    destruct (convert m) as [c|e] eqn:Ec; cbn in Ho; [exfalso | rewrite Ho; reflexivity].
    destruct (pm_invb_pos m Hinv) as [Hr Ht]; [lia|].
    unfold convert, convert_gen in Ec.
    assert (E : pm_res m <=? 0 = false) by (apply Z.leb_gt; lia). rewrite E, andb_false_r in Ec.
    unfold pm_rangeb in Hr. b2p.
    rewrite set_int32_ok in Ec by (apply int32_ok_spec; unfold INT32_MIN; lia). cbn [bind] in Ec.
    destruct (mapM conv_tsig (pm_tsigs m)) as [ts|e] eqn:Ets; cbn [bind] in Ec; [|discriminate].
    destruct (mapM conv_key (pm_keys m)) as [ks|e] eqn:Eks; cbn [bind] in Ec; [|discriminate].
    destruct Hbad as [Hd | Hk].
    + assert (Hall : Forall (fun a => exists b, conv_tsig a = Ok b) (pm_tsigs m)) by (apply mapM_ok_iff; eexists; exact Ets).
      unfold den_overflows in Hd. apply existsb_exists in Hd. destruct Hd as [t [Hin Hd]].
      rewrite Forall_forall in Hall. destruct (Hall t Hin) as [b Hb]. rewrite negb_true_iff in Hd.
      unfold conv_tsig, set_int32 in Hb. destruct (int32_ok (pt_num t)); cbn in Hb; [|discriminate].
      rewrite Hd in Hb. discriminate.
    + assert (Hall : Forall (fun a => exists b, conv_key a = Ok b) (pm_keys m)) by (apply mapM_ok_iff; eexists; exact Eks).
      unfold bad_mode in Hk. apply existsb_exists in Hk. destruct Hk as [k [Hin Hk]].
      rewrite Forall_forall in Hall. destruct (Hall k Hin) as [b Hb]. rewrite negb_true_iff in Hk.
      apply orb_false_elim in Hk. destruct Hk as [Hq1 Hq2].
      unfold conv_key in Hb. rewrite Hq1, Hq2 in Hb. discriminate.
Qed.

(** key numbers 0..23 (what pretty_midi.KeySignature accepts) never trigger the mode error *)
Lemma bad_mode_false_when_0_23 m :
  forallb (fun k => (0 <=? pk_number k) && (pk_number k <=? 23)) (pm_keys m) = true -> bad_mode m = false.
Proof.
  intros H. unfold bad_mode. rewrite <- not_true_iff_false. intros Hc.
  apply existsb_exists in Hc. destruct Hc as [k [Hin Hc]].
  rewrite forallb_forall in H. specialize (H k Hin). b2p. apply orb_false_elim in Hc. destruct Hc as [Hq1 Hq2].
  apply Z.eqb_neq in Hq1. apply Z.eqb_neq in Hq2. lia.
Qed.

(** * What a successful conversion contains *)
Lemma gather_total : forall l idx tot g,
  gather idx l tot = Ok g ->
  g_total g = fold_left upd_total (flat_map pi_notes l) tot /\
  map tg_ev (g_notes g) = flat_map pi_notes l.
Proof.
  induction l as [|i l IH]; intros idx tot g H; cbn [gather] in H.
  - inversion H; subst. cbn. split; reflexivity.
  - destruct (conv_info idx i); cbn [bind] in H; [|discriminate].
    destruct (gather (idx + 1) l (fold_left upd_total (pi_notes i) tot)) as [g'|] eqn:Eg; cbn [bind] in H; [|discriminate].
    inversion H; subst. cbn. destruct (IH _ _ _ Eg) as [I1 I2]. rewrite fold_left_app. split; [assumption|].
    rewrite map_app, I2. f_equal. unfold tag_all. rewrite map_map. cbn. apply map_id.
Qed.

Lemma mapM_conv_note_fields : forall l r,
  mapM conv_note l = Ok r ->
  map (fun n => (n_start n, n_end n, n_pitch n, n_vel n)) r =
  map (fun t => (pn_start (tg_ev t), pn_end (tg_ev t), pn_pitch (tg_ev t), pn_vel (tg_ev t))) l.
Proof.
  induction l as [|t l IH]; cbn [mapM]; intros r H.
  - inversion H; reflexivity.
  - destruct (conv_note t) as [n|] eqn:En; cbn [bind] in H; [|discriminate].
    destruct (mapM conv_note l) as [ns|] eqn:El; cbn [bind] in H; [|discriminate].
    inversion H; subst. cbn [map]. f_equal; [|apply IH; reflexivity].
    unfold conv_note, set_int32 in En.
    destruct (int32_ok (tg_instr t)); cbn in En; [|discriminate].
    destruct (int32_ok (tg_prog t)); cbn in En; [|discriminate].
    destruct (int32_ok (pn_pitch (tg_ev t))); cbn in En; [|discriminate].
    destruct (int32_ok (pn_vel (tg_ev t))); cbn in En; [|discriminate].
    inversion En; subst. reflexivity.
Qed.

Definition all_notes (m : pm) : list pnote := flat_map pi_notes (pm_insts m).

Theorem convert_ok_content fixed m c :
  convert_gen fixed m = Ok c ->
  s_tpq (c_seq c) = pm_res m /\
  s_tempos (c_seq c) = map conv_tempo (pm_tempos m) /\
  length (s_tsigs (c_seq c)) = length (pm_tsigs m) /\
  length (s_ksigs (c_seq c)) = length (pm_keys m) /\
  map (fun n => (n_start n, n_end n, n_pitch n, n_vel n)) (s_notes (c_seq c)) =
    map (fun n => (pn_start n, pn_end n, pn_pitch n, pn_vel n)) (all_notes m) /\
  s_total (c_seq c) = fold_left upd_total (all_notes m) 0 /\
  c_parser c = SRC_PRETTY_MIDI /\ c_encoding c = ENC_MIDI.
Proof.
  unfold convert_gen. intros H.
  destruct (fixed && (pm_res m <=? 0)); [discriminate|].
  unfold set_int32 in H. destruct (int32_ok (pm_res m)); cbn [bind] in H; [|discriminate].
  destruct (mapM conv_tsig (pm_tsigs m)) as [ts|] eqn:Ets; cbn [bind] in H; [|discriminate].
  destruct (mapM conv_key (pm_keys m)) as [ks|] eqn:Eks; cbn [bind] in H; [|discriminate].
  destruct (gather 0 (pm_insts m) 0) as [g|] eqn:Eg; cbn [bind] in H; [|discriminate].
  destruct (mapM conv_note (g_notes g)) as [ns|] eqn:En; cbn [bind] in H; [|discriminate].
  destruct (mapM conv_bend (g_bends g)) as [bs|] eqn:Eb; cbn [bind] in H; [|discriminate].
  destruct (mapM conv_cc (g_ccs g)) as [cs|] eqn:Ec; cbn [bind] in H; [|discriminate].
  inversion H; subst; cbn.
  destruct (gather_total _ _ _ _ Eg) as [G1 G2].
  repeat split; try reflexivity.
  - apply (mapM_length _ _ _ Ets).
  - apply (mapM_length _ _ _ Eks).
  - rewrite (mapM_conv_note_fields _ _ En). unfold all_notes. rewrite <- G2, map_map. reflexivity.
  - exact G1.
Qed.

(** under the invariant, total_time is exactly the latest note end (0 without notes) *)
Theorem convert_total_is_max m c :
  pm_invb m = true -> convert m = Ok c ->
  s_total (c_seq c) = fold_left (fun t n => Z.max t (pn_end n)) (all_notes m) 0.
Proof.
  intros Hinv Hc. destruct (Z_le_gt_dec (pm_res m) 0) as [Hle|Hgt].
  - rewrite (convert_rejects_nonpositive_resolution _ Hle) in Hc. discriminate.
  - destruct (pm_invb_pos m Hinv) as [_ Ht]; [lia|].
    destruct (convert_ok_content true m c Hc) as [_ [_ [_ [_ [_ [Htot _]]]]]]. rewrite Htot.
    apply upd_total_fold_max; [lia|]. unfold all_notes.
    unfold pm_timeb in Ht. b2p.
    match goal with H : forallb inst_timeb _ = true |- _ => rename H into Hi end.
    apply Forall_forall. intros n Hin. apply in_flat_map in Hin. destruct Hin as [i [Hi1 Hi2]].
    rewrite forallb_forall in Hi. specialize (Hi i Hi1). unfold inst_timeb in Hi. b2p.
    match goal with H : forallb note_timeb _ = true |- _ => rewrite forallb_forall in H; specialize (H n Hi2); unfold note_timeb in H end.
    b2p. lia.
Qed.

(** * A successful conversion is exactly this error-free specification (maps only) *)
Fixpoint spec_tagged {A} (sel : pinst -> list A) (idx : Z) (l : list pinst) : list (tagged A) :=
  match l with
  | [] => []
  | i :: r => tag_all idx i (sel i) ++ spec_tagged sel (idx + 1) r
  end.
Fixpoint spec_infos (idx : Z) (l : list pinst) : list info :=
  match l with
  | [] => []
  | i :: r => (match pi_name i with [] => [] | _ => [mkInfo idx (pi_name i)] end) ++ spec_infos (idx + 1) r
  end.
Definition note_of (t : tagged pnote) : note :=
  mkNote (pn_pitch (tg_ev t)) (pn_vel (tg_ev t)) (pn_start (tg_ev t)) (pn_end (tg_ev t))
         (tg_instr t) (tg_prog t) (tg_drum t) 0 0 0.
Definition bend_of (t : tagged pbend) : bend :=
  mkBend (pbd_time (tg_ev t)) (pbd_pitch (tg_ev t)) (tg_instr t) (tg_prog t) (tg_drum t).
Definition cc_of (t : tagged pcc) : cc :=
  mkCc (pc_time (tg_ev t)) 0 (pc_number (tg_ev t)) (pc_value (tg_ev t)) (tg_instr t) (tg_prog t) (tg_drum t).
Definition tsig_of (t : ptsig) : tsig := mkTsig (pt_time t) (pt_num t) (pt_den t).
Definition ksig_of (k : pkey) : ksig :=
  mkKsig (pk_time k) (pk_number k mod 12) (if pk_number k / 12 =? 0 then KS_MAJOR else KS_MINOR).
Definition spec (m : pm) : cseq :=
  mkCseq (mkSeq (map note_of (spec_tagged pi_notes 0 (pm_insts m)))
                (map conv_tempo (pm_tempos m)) (map tsig_of (pm_tsigs m)) (map ksig_of (pm_keys m)) []
                (map cc_of (spec_tagged pi_ccs 0 (pm_insts m)))
                (map bend_of (spec_tagged pi_bends 0 (pm_insts m))) []
                (fold_left upd_total (all_notes m) 0) 0 0 0 (0, 0) (pm_res m) 0)
         (spec_infos 0 (pm_insts m)) SRC_PRETTY_MIDI ENC_MIDI.

Lemma mapM_ok_map {A B} (f : A -> result B) (g : A -> B) :
  (forall a b, f a = Ok b -> b = g a) -> forall l r, mapM f l = Ok r -> r = map g l.
Proof.
  intros Hf. induction l as [|x l IH]; cbn [mapM]; intros r H.
  - inversion H; reflexivity.
  - destruct (f x) as [y|] eqn:Ex; cbn [bind] in H; [|discriminate].
    destruct (mapM f l) as [ys|] eqn:El; cbn [bind] in H; [|discriminate].
    inversion H; subst. cbn [map]. f_equal; [apply Hf; assumption | apply IH; reflexivity].
Qed.

Lemma set_int32_inv z y : set_int32 z = Ok y -> y = z.
Proof. unfold set_int32. destruct (int32_ok z); intros H; inversion H; reflexivity. Qed.

Ltac bind_inv H :=
  repeat match type of H with
  | bind (set_int32 ?z) _ = Ok _ =>
      let y := fresh "y" in let E := fresh "E" in
      destruct (set_int32 z) as [y|] eqn:E; cbn [bind] in H; [apply set_int32_inv in E; subst y | discriminate]
  end.

Lemma conv_note_spec t n : conv_note t = Ok n -> n = note_of t.
Proof. unfold conv_note. intros H. bind_inv H. inversion H; reflexivity. Qed.
Lemma conv_bend_spec t b : conv_bend t = Ok b -> b = bend_of t.
Proof. unfold conv_bend. intros H. bind_inv H. inversion H; reflexivity. Qed.
Lemma conv_cc_spec t c : conv_cc t = Ok c -> c = cc_of t.
Proof. unfold conv_cc. intros H. bind_inv H. inversion H; reflexivity. Qed.
Lemma conv_tsig_spec t s : conv_tsig t = Ok s -> s = tsig_of t.
Proof.
  unfold conv_tsig. intros H. bind_inv H. destruct (int32_ok (pt_den t)); inversion H; reflexivity.
Qed.
Lemma conv_key_spec k s : conv_key k = Ok s -> s = ksig_of k.
Proof.
  unfold conv_key, ksig_of. intros H. destruct (pk_number k / 12 =? 0); [inversion H; reflexivity|].
  destruct (pk_number k / 12 =? 1); inversion H; reflexivity.
Qed.

Lemma gather_spec : forall l idx tot g,
  gather idx l tot = Ok g ->
  g_infos g = spec_infos idx l /\ g_notes g = spec_tagged pi_notes idx l /\
  g_bends g = spec_tagged pi_bends idx l /\ g_ccs g = spec_tagged pi_ccs idx l.
Proof.
  induction l as [|i l IH]; intros idx tot g H; cbn [gather] in H.
  - inversion H; subst. cbn. repeat split.
  - destruct (conv_info idx i) as [inf|] eqn:Ei; cbn [bind] in H; [|discriminate].
    destruct (gather (idx + 1) l (fold_left upd_total (pi_notes i) tot)) as [g'|] eqn:Eg; cbn [bind] in H; [|discriminate].
    inversion H; subst. cbn. destruct (IH _ _ _ Eg) as [I1 [I2 [I3 I4]]].
    rewrite I1, I2, I3, I4. repeat split. f_equal.
    unfold conv_info in Ei. destruct (pi_name i) as [|c0 nm]; [inversion Ei; reflexivity|].
    unfold set_string in Ei. destruct (existsb surrogate (c0 :: nm)); cbn [bind] in Ei; [discriminate|].
    bind_inv Ei. inversion Ei; reflexivity.
Qed.

Theorem convert_ok_is_spec fixed m c : convert_gen fixed m = Ok c -> c = spec m.
Proof.
  unfold convert_gen. intros H.
  destruct (fixed && (pm_res m <=? 0)); [discriminate|].
  bind_inv H.
  destruct (mapM conv_tsig (pm_tsigs m)) as [ts|] eqn:Ets; cbn [bind] in H; [|discriminate].
  destruct (mapM conv_key (pm_keys m)) as [ks|] eqn:Eks; cbn [bind] in H; [|discriminate].
  destruct (gather 0 (pm_insts m) 0) as [g|] eqn:Eg; cbn [bind] in H; [|discriminate].
  destruct (mapM conv_note (g_notes g)) as [ns|] eqn:En; cbn [bind] in H; [|discriminate].
  destruct (mapM conv_bend (g_bends g)) as [bs|] eqn:Eb; cbn [bind] in H; [|discriminate].
  destruct (mapM conv_cc (g_ccs g)) as [cs|] eqn:Ec; cbn [bind] in H; [|discriminate].
  inversion H; subst. unfold spec.
  destruct (gather_spec _ _ _ _ Eg) as [G1 [G2 [G3 G4]]].
  destruct (gather_total _ _ _ _ Eg) as [G5 _].
  rewrite (mapM_ok_map _ _ conv_tsig_spec _ _ Ets), (mapM_ok_map _ _ conv_key_spec _ _ Eks),
    (mapM_ok_map _ _ conv_note_spec _ _ En), (mapM_ok_map _ _ conv_bend_spec _ _ Eb),
    (mapM_ok_map _ _ conv_cc_spec _ _ Ec), G1, G2, G3, G4, G5. reflexivity.
Qed.

(** * [exn_possible]: the order-independent set of exception classes.  Whatever [convert]
    (either variant) raises is in the set, and if the set is empty the conversion succeeds. *)
Lemma mapM_err {A B} (f : A -> result B) : forall l e,
  mapM f l = Err e -> exists a, In a l /\ f a = Err e.
Proof.
  induction l as [|x l IH]; cbn [mapM]; intros e H; [discriminate|].
  destruct (f x) as [y|e'] eqn:Ex; cbn [bind] in H.
  - destruct (mapM f l) as [ys|e''] eqn:El; cbn [bind] in H; [discriminate|].
    inversion H; subst. destruct (IH e eq_refl) as [a [Hin Ha]]. exists a. split; [right; assumption | assumption].
  - inversion H; subst. exists x. split; [left; reflexivity | assumption].
Qed.

Lemma set_int32_err z e : set_int32 z = Err e -> e = ValueError /\ int32_ok z = false.
Proof. unfold set_int32. destruct (int32_ok z); intros H; inversion H. split; reflexivity. Qed.

Lemma nonempty_in {A} (a : A) l : In a l -> nonempty l = true.
Proof. destruct l; [intros [] | reflexivity]. Qed.

Lemma gather_err : forall l idx tot e,
  gather idx l tot = Err e ->
  (e = UnicodeEncodeError /\ existsb (fun i => existsb surrogate (pi_name i)) l = true) \/
  (e = ValueError /\ insts_value_err idx l = true).
Proof.
  induction l as [|i l IH]; intros idx tot e H; cbn [gather] in H; [discriminate|].
  cbn [existsb insts_value_err].
  destruct (conv_info idx i) as [inf|e'] eqn:Ei; cbn [bind] in H.
  - destruct (gather (idx + 1) l (fold_left upd_total (pi_notes i) tot)) as [g|e''] eqn:Eg; cbn [bind] in H; [discriminate|].
    inversion H; subst. destruct (IH _ _ _ Eg) as [[He Hs]|[He Hs]]; [left | right]; split; try assumption;
      rewrite Hs; apply orb_true_r.
  - inversion H; subst. unfold conv_info in Ei. destruct (pi_name i) as [|c0 nm] eqn:En; [discriminate|].
    unfold set_string in Ei. destruct (existsb surrogate (c0 :: nm)) eqn:Es; cbn [bind] in Ei.
    + inversion Ei; subst. left. split; [reflexivity|]. reflexivity.
    + destruct (set_int32 idx) as [y|e2] eqn:E2; cbn [bind] in Ei; [discriminate|].
      inversion Ei; subst. apply set_int32_err in E2. destruct E2 as [-> Hidx]. right. split; [reflexivity|].
      unfold inst_value_err. rewrite En, Hidx. reflexivity.
Qed.

Lemma spec_tagged_value_err {A} (sel : pinst -> list A) (bad : A -> bool) :
  (forall idx i, (nonempty (sel i) && (negb (int32_ok idx) || negb (int32_ok (pi_program i)))) || existsb bad (sel i) = true ->
                 inst_value_err idx i = true) ->
  forall l idx t, In t (spec_tagged sel idx l) ->
    negb (int32_ok (tg_instr t)) || negb (int32_ok (tg_prog t)) || bad (tg_ev t) = true ->
    insts_value_err idx l = true.
Proof.
  intros Hsel. induction l as [|i l IH]; intros idx t Hin Hbad; cbn [spec_tagged insts_value_err] in *; [destruct Hin|].
  apply in_app_or in Hin. destruct Hin as [Hin|Hin].
  - apply orb_true_iff. left. apply Hsel. unfold tag_all in Hin. apply in_map_iff in Hin.
    destruct Hin as [a [Ht Ha]]. subst t. cbn in Hbad.
    rewrite (nonempty_in _ _ Ha). cbn [andb].
    destruct (negb (int32_ok idx) || negb (int32_ok (pi_program i))) eqn:E; [reflexivity|].
    cbn [orb] in *. apply existsb_exists. exists a. split; assumption.
  - apply orb_true_iff. right. eapply IH; eassumption.
Qed.

Lemma inst_err_notes idx i :
  (nonempty (pi_notes i) && (negb (int32_ok idx) || negb (int32_ok (pi_program i)))) ||
  existsb (fun n => negb (int32_ok (pn_pitch n)) || negb (int32_ok (pn_vel n))) (pi_notes i) = true ->
  inst_value_err idx i = true.
Proof.
  unfold inst_value_err. intros H.
  destruct (existsb (fun n => negb (int32_ok (pn_pitch n)) || negb (int32_ok (pn_vel n))) (pi_notes i));
    [rewrite !orb_true_r; reflexivity|].
  rewrite orb_false_r in H. apply andb_prop in H. destruct H as [H1 H2]. rewrite H1, H2. cbn.
  rewrite !orb_true_r. reflexivity.
Qed.
Lemma inst_err_bends idx i :
  (nonempty (pi_bends i) && (negb (int32_ok idx) || negb (int32_ok (pi_program i)))) ||
  existsb (fun b => negb (int32_ok (pbd_pitch b))) (pi_bends i) = true ->
  inst_value_err idx i = true.
Proof.
  unfold inst_value_err. intros H.
  destruct (existsb (fun b => negb (int32_ok (pbd_pitch b))) (pi_bends i)); [rewrite !orb_true_r; reflexivity|].
  rewrite orb_false_r in H. apply andb_prop in H. destruct H as [H1 H2]. rewrite H1, H2. cbn.
  rewrite !orb_true_r. reflexivity.
Qed.
Lemma inst_err_ccs idx i :
  (nonempty (pi_ccs i) && (negb (int32_ok idx) || negb (int32_ok (pi_program i)))) ||
  existsb (fun c => negb (int32_ok (pc_number c)) || negb (int32_ok (pc_value c))) (pi_ccs i) = true ->
  inst_value_err idx i = true.
Proof.
  unfold inst_value_err. intros H.
  destruct (existsb (fun c => negb (int32_ok (pc_number c)) || negb (int32_ok (pc_value c))) (pi_ccs i)); [rewrite !orb_true_r; reflexivity|].
  rewrite orb_false_r in H. apply andb_prop in H. destruct H as [H1 H2]. rewrite H1, H2. cbn.
  rewrite !orb_true_r. reflexivity.
Qed.

Ltac bind_err H :=
  repeat match type of H with
  | bind (set_int32 ?z) _ = Err _ =>
      let y := fresh "y" in let E := fresh "E" in
      destruct (set_int32 z) as [y|] eqn:E; cbn [bind] in H;
      [apply set_int32_inv in E; subst y
      | inversion H; subst; apply set_int32_err in E; destruct E as [_ E]]
  end.

Lemma conv_note_err t e : conv_note t = Err e ->
  e = ValueError /\
  negb (int32_ok (tg_instr t)) || negb (int32_ok (tg_prog t)) ||
    (negb (int32_ok (pn_pitch (tg_ev t))) || negb (int32_ok (pn_vel (tg_ev t)))) = true.
Proof.
  unfold conv_note, set_int32. intros H.
  destruct (int32_ok (tg_instr t)); cbn in *; [|inversion H; auto].
  destruct (int32_ok (tg_prog t)); cbn in *; [|inversion H; auto].
  destruct (int32_ok (pn_pitch (tg_ev t))); cbn in *; [|inversion H; auto].
  destruct (int32_ok (pn_vel (tg_ev t))); cbn in *; [discriminate|inversion H; auto].
Qed.
Lemma conv_bend_err t e : conv_bend t = Err e ->
  e = ValueError /\
  negb (int32_ok (tg_instr t)) || negb (int32_ok (tg_prog t)) || negb (int32_ok (pbd_pitch (tg_ev t))) = true.
Proof.
  unfold conv_bend, set_int32. intros H.
  destruct (int32_ok (tg_instr t)); cbn in *; [|inversion H; auto].
  destruct (int32_ok (tg_prog t)); cbn in *; [|inversion H; auto].
  destruct (int32_ok (pbd_pitch (tg_ev t))); cbn in *; [discriminate|inversion H; auto].
Qed.
Lemma conv_cc_err t e : conv_cc t = Err e ->
  e = ValueError /\
  negb (int32_ok (tg_instr t)) || negb (int32_ok (tg_prog t)) ||
    (negb (int32_ok (pc_number (tg_ev t))) || negb (int32_ok (pc_value (tg_ev t)))) = true.
Proof.
  unfold conv_cc, set_int32. intros H.
  destruct (int32_ok (tg_instr t)); cbn in *; [|inversion H; auto].
  destruct (int32_ok (tg_prog t)); cbn in *; [|inversion H; auto].
  destruct (int32_ok (pc_number (tg_ev t))); cbn in *; [|inversion H; auto].
  destruct (int32_ok (pc_value (tg_ev t))); cbn in *; [discriminate|inversion H; auto].
Qed.

Theorem convert_err_possible fixed m e : convert_gen fixed m = Err e -> exn_possible m e = true.
Proof.
  unfold convert_gen. intros H.
  destruct (fixed && (pm_res m <=? 0)) eqn:Ef.
  { inversion H; subst. apply andb_prop in Ef. destruct Ef as [_ Ef]. cbn. unfold can_mce. rewrite Ef. reflexivity. }
  destruct (set_int32 (pm_res m)) as [tpq|e0] eqn:Er; cbn [bind] in H.
  2:{ inversion H; subst. apply set_int32_err in Er. destruct Er as [-> Er]. cbn. unfold can_value. rewrite Er. reflexivity. }
  destruct (mapM conv_tsig (pm_tsigs m)) as [ts|e1] eqn:Ets; cbn [bind] in H.
  2:{ inversion H; subst. apply mapM_err in Ets. destruct Ets as [t [Hin Ht]].
      unfold conv_tsig, set_int32 in Ht. destruct (int32_ok (pt_num t)) eqn:En; cbn [bind] in Ht.
      - destruct (int32_ok (pt_den t)) eqn:Ed; [discriminate|]. inversion Ht; subst. cbn. unfold can_mce.
        assert (X : existsb (fun t => negb (int32_ok (pt_den t))) (pm_tsigs m) = true)
          by (apply existsb_exists; exists t; split; [assumption | rewrite Ed; reflexivity]).
        rewrite X. rewrite orb_true_r. reflexivity.
      - inversion Ht; subst. cbn. unfold can_value.
        assert (X : existsb (fun t => negb (int32_ok (pt_num t))) (pm_tsigs m) = true)
          by (apply existsb_exists; exists t; split; [assumption | rewrite En; reflexivity]).
        rewrite X. rewrite orb_true_r. reflexivity. }
  destruct (mapM conv_key (pm_keys m)) as [ks|e2] eqn:Eks; cbn [bind] in H.
  2:{ inversion H; subst. apply mapM_err in Eks. destruct Eks as [k [Hin Hk]].
      unfold conv_key in Hk. destruct (pk_number k / 12 =? 0) eqn:E0; [discriminate|].
      destruct (pk_number k / 12 =? 1) eqn:E1; [discriminate|]. inversion Hk; subst. cbn. unfold can_mce.
      assert (X : existsb (fun k => negb ((pk_number k / 12 =? 0) || (pk_number k / 12 =? 1))) (pm_keys m) = true)
        by (apply existsb_exists; exists k; split; [assumption | rewrite E0, E1; reflexivity]).
      rewrite X. apply orb_true_r. }
  destruct (gather 0 (pm_insts m) 0) as [g|e3] eqn:Eg; cbn [bind] in H.
  2:{ inversion H; subst. destruct (gather_err _ _ _ _ Eg) as [[-> Hs]|[-> Hs]]; cbn.
      - exact Hs.
      - unfold can_value. rewrite Hs. apply orb_true_r. }
  destruct (gather_spec _ _ _ _ Eg) as [_ [G2 [G3 G4]]].
  assert (V : insts_value_err 0 (pm_insts m) = true -> exn_possible m ValueError = true).
  { intros Hv. cbn. unfold can_value. rewrite Hv. apply orb_true_r. }
  destruct (mapM conv_note (g_notes g)) as [ns|e4] eqn:En; cbn [bind] in H.
  2:{ inversion H; subst. apply mapM_err in En. destruct En as [t [Hin Ht]]. apply conv_note_err in Ht.
      destruct Ht as [-> Hb]. apply V. rewrite G2 in Hin.
      eapply (spec_tagged_value_err pi_notes (fun n => negb (int32_ok (pn_pitch n)) || negb (int32_ok (pn_vel n))));
        [apply inst_err_notes | exact Hin | exact Hb]. }
  destruct (mapM conv_bend (g_bends g)) as [bs|e5] eqn:Eb; cbn [bind] in H.
  2:{ inversion H; subst. apply mapM_err in Eb. destruct Eb as [t [Hin Ht]]. apply conv_bend_err in Ht.
      destruct Ht as [-> Hb]. apply V. rewrite G3 in Hin.
      eapply (spec_tagged_value_err pi_bends (fun b => negb (int32_ok (pbd_pitch b))));
        [apply inst_err_bends | exact Hin | exact Hb]. }
  destruct (mapM conv_cc (g_ccs g)) as [cs|e6] eqn:Ec; cbn [bind] in H; [discriminate|].
  inversion H; subst. apply mapM_err in Ec. destruct Ec as [t [Hin Ht]]. apply conv_cc_err in Ht.
  destruct Ht as [-> Hb]. apply V. rewrite G4 in Hin.
  eapply (spec_tagged_value_err pi_ccs (fun c => negb (int32_ok (pc_number c)) || negb (int32_ok (pc_value c))));
    [apply inst_err_ccs | exact Hin | exact Hb].
Qed.

Corollary convert_ok_when_nothing_possible fixed m :
  can_mce m = false -> can_value m = false -> can_unicode m = false -> exists c, convert_gen fixed m = Ok c.
Proof.
  intros H1 H2 H3. destruct (convert_gen fixed m) as [c|e] eqn:E; [eexists; reflexivity|].
  apply convert_err_possible in E. destruct e; cbn in E; congruence.
Qed.

(** on everything a byte string can parse to ([pm_rangeb]), no foreign class is possible:
    the set is at most {MIDIConversionError}, so the bytes-side comparison is exact *)
Lemma insts_no_value_err : forall l idx,
  0 <= idx -> idx + Z.of_nat (length l) <= INT32_MAX + 1 ->
  forallb inst_rangeb l = true -> insts_value_err idx l = false.
Proof.
  induction l as [|i l IH]; intros idx H0 Hl Hf; cbn [insts_value_err]; [reflexivity|].
  cbn [forallb length] in *. rewrite Nat2Z.inj_succ in Hl. apply andb_prop in Hf. destruct Hf as [Hi Hf].
  rewrite IH by (try assumption; lia). rewrite orb_false_r.
  assert (Hidx : int32_ok idx = true) by (apply int32_ok_spec; unfold INT32_MIN, INT32_MAX in *; lia).
  unfold inst_rangeb in Hi. b2p. unfold inst_value_err.
  match goal with H : int32_ok (pi_program i) = true |- _ => rewrite H end. rewrite Hidx. cbn [negb orb].
  rewrite !andb_false_r. cbn [orb].
  match goal with H : forallb note_rangeb _ = true |- _ => rename H into Hn end.
  match goal with H : forallb (fun b => int32_ok (pbd_pitch b)) _ = true |- _ => rename H into Hb end.
  match goal with H : forallb (fun c => int32_ok (pc_number c) && _) _ = true |- _ => rename H into Hc end.
  assert (X1 : existsb (fun n => negb (int32_ok (pn_pitch n)) || negb (int32_ok (pn_vel n))) (pi_notes i) = false).
  { rewrite <- not_true_iff_false. intros Hx. apply existsb_exists in Hx. destruct Hx as [n [Hin Hx]].
    rewrite forallb_forall in Hn. specialize (Hn n Hin). unfold note_rangeb in Hn. apply andb_prop in Hn.
    destruct Hn as [Hp Hv]. rewrite (byte7_int32 _ Hp), (byte7_int32 _ Hv) in Hx. discriminate. }
  assert (X2 : existsb (fun b => negb (int32_ok (pbd_pitch b))) (pi_bends i) = false).
  { rewrite <- not_true_iff_false. intros Hx. apply existsb_exists in Hx. destruct Hx as [b [Hin Hx]].
    rewrite forallb_forall in Hb. rewrite (Hb b Hin) in Hx. discriminate. }
  assert (X3 : existsb (fun c => negb (int32_ok (pc_number c)) || negb (int32_ok (pc_value c))) (pi_ccs i) = false).
  { rewrite <- not_true_iff_false. intros Hx. apply existsb_exists in Hx. destruct Hx as [c [Hin Hx]].
    rewrite forallb_forall in Hc. specialize (Hc c Hin). cbn in Hc. apply andb_prop in Hc. destruct Hc as [Hc1 Hc2].
    rewrite Hc1, Hc2 in Hx. discriminate. }
  rewrite X1, X2, X3. reflexivity.
Qed.

Theorem pm_rangeb_no_foreign_possible m :
  pm_rangeb m = true -> INT32_MIN <= pm_res m -> can_value m = false /\ can_unicode m = false.
Proof.
  intros Hr Hlo. unfold pm_rangeb in Hr. b2p.
  match goal with H : forallb (fun t => int32_ok (pt_num t)) _ = true |- _ => rename H into Hn end.
  match goal with H : forallb inst_rangeb _ = true |- _ => rename H into Hi end.
  split.
  - unfold can_value.
    assert (R : int32_ok (pm_res m) = true) by (apply int32_ok_spec; lia). rewrite R. cbn [negb orb].
    assert (X : existsb (fun t => negb (int32_ok (pt_num t))) (pm_tsigs m) = false).
    { rewrite <- not_true_iff_false. intros Hc. apply existsb_exists in Hc. destruct Hc as [t [Hin Hc]].
      rewrite forallb_forall in Hn. rewrite (Hn t Hin) in Hc. discriminate. }
    rewrite X. cbn [orb]. apply insts_no_value_err; try assumption; lia.
  - unfold can_unicode. rewrite <- not_true_iff_false. intros Hc. apply existsb_exists in Hc.
    destruct Hc as [i [Hin Hc]]. rewrite forallb_forall in Hi. specialize (Hi i Hin).
    unfold inst_rangeb in Hi. b2p. congruence.
Qed.

(** * On constructor-valid objects (all that bytes parse to) the only post-constructor
    errors are the SMPTE / zero division and a denominator above INT32_MAX. *)
Theorem convert_error_iff_constructible m :
  pm_ctorb m = true -> pm_invb m = true ->
  (convert m = Err MIDIConversionError <->
   pm_res m <= 0 \/ existsb (fun t => INT32_MAX <? pt_den t) (pm_tsigs m) = true).
Proof.
  intros Hc Hinv. rewrite (convert_error_iff m Hinv).
  unfold pm_ctorb in Hc. apply andb_prop in Hc. destruct Hc as [Hc _]. apply andb_prop in Hc. destruct Hc as [Ht Hk].
  assert (Bm : bad_mode m = false).
  { apply bad_mode_false_when_0_23. rewrite forallb_forall in *. intros k Hin. specialize (Hk k Hin).
    apply andb_prop in Hk. destruct Hk as [Hk _]. exact Hk. }
  assert (Ed : den_overflows m = existsb (fun t => INT32_MAX <? pt_den t) (pm_tsigs m)).
  { unfold den_overflows. rewrite forallb_forall in Ht. apply eq_true_iff_eq.
    rewrite !existsb_exists. split; intros [t [Hin Hx]]; exists t; (split; [assumption|]);
      specialize (Ht t Hin); apply andb_prop in Ht; destruct Ht as [Ht _]; apply andb_prop in Ht; destruct Ht as [_ Hd];
      apply Z.leb_le in Hd.
    - apply negb_true_iff in Hx. unfold int32_ok in Hx. apply andb_false_iff in Hx. apply Z.ltb_lt.
      destruct Hx as [Hx|Hx]; [apply Z.leb_gt in Hx; unfold INT32_MIN in Hx; lia | apply Z.leb_gt in Hx; lia].
    - apply Z.ltb_lt in Hx. apply negb_true_iff. unfold int32_ok. apply andb_false_iff. right. apply Z.leb_gt. lia. }
  rewrite Bm, Ed. split; [intros [H|[H|H]]; [left; assumption | right; assumption | discriminate]
                        | intros [H|H]; [left; assumption | right; left; assumption]].
Qed.

(** * The boolean well-formedness used by the runner is implied by [c16_wf] *)
Lemma c16_wf_wfb c : c16_wf c -> c16_wfb c = true.
Proof.
  intros [[Hn [Htp [Hts [Hks [Htx [Hcc [Hpb Hsa]]]]]]] Hb]. unfold c16_wfb, seq_wfb.
  rewrite Hb, andb_true_r.
  repeat (apply andb_true_intro; split); apply forallb_Forall;
    (eapply Forall_impl; [|eassumption]); cbn; intros a Ha; try (apply Z.leb_le; exact Ha).
  destruct Ha as [H1 [H2 H3]]. repeat (apply andb_true_intro; split); apply Z.leb_le; assumption.
Qed.

(** * The unrepaired code violates the property (defect D1): SMPTE division,
    tempo change after tick 0.  Witness = what pretty_midi produces for the file
    4d546864 00000006 0001 0001 e728 4d54726b 00000012 0aff5103070000 0aff5103060000 00ff2f00
    (times as ordinals of -0.000786..., -0.001507...). *)
Definition d1_witness : pm :=
  mkPm (-6360) [] []
       [mkPTempo 0 4638144666238189568;
        mkPTempo (-4560390301916897537) 4638805767238526098;
        mkPTempo (-4564594809052305623) 4639572725684240384] [].

Theorem convert_legacy_refuted :
  exists m, pm_invb m = true /\ exists c, convert_legacy m = Ok c /\ ~ c16_wf c.
Proof.
  exists d1_witness. split; [vm_compute; reflexivity|].
  eexists. split; [vm_compute; reflexivity|].
  intros H. apply c16_wf_wfb in H. vm_compute in H. discriminate.
Qed.

(** * Every hypothesis of [pm_invb] is needed: dropping any one of them admits an
    object on which the (repaired) conversion raises a foreign exception or returns
    an ill-formed sequence. *)
Definition foreign_or_illformed (m : pm) : bool :=
  match convert m with
  | Err MIDIConversionError => false
  | Err _ => true
  | Ok c => negb (c16_wfb c)
  end.

Definition mk1 (i : pinst) : pm := mkPm 480 [] [] [mkPTempo 0 0] [i].
Definition hyp_witnesses : list pm :=
  [ mkPm 2147483648 [] [] [] [];                                          (* resolution > INT32_MAX *)
    mkPm 480 [mkPTsig 0 2147483648 4] [] [] [];                           (* numerator *)
    mk1 (mkPInst 2147483648 false [] [mkPNote 0 0 60 60] [] []);          (* program *)
    mk1 (mkPInst 0 false [55296] [] [] []);                               (* surrogate in name *)
    mk1 (mkPInst 0 false [] [mkPNote 0 0 128 60] [] []);                  (* pitch *)
    mk1 (mkPInst 0 false [] [mkPNote 0 0 60 128] [] []);                  (* velocity *)
    mk1 (mkPInst 0 false [] [] [mkPBend 0 2147483648] []);                (* bend *)
    mk1 (mkPInst 0 false [] [] [] [mkPCc 0 2147483648 0]);                (* control number *)
    mk1 (mkPInst 0 false [] [] [] [mkPCc 0 0 (-2147483649)]);             (* control value *)
    mkPm 480 [mkPTsig (-1) 4 4] [] [] [];                                 (* time-signature time *)
    mkPm 480 [] [mkPKey (-1) 0] [] [];                                    (* key-signature time *)
    mkPm 480 [] [] [mkPTempo (-1) 0] [];                                  (* tempo time *)
    mk1 (mkPInst 0 false [] [mkPNote (-2) (-1) 60 60] [] []);             (* note start < 0 *)
    mk1 (mkPInst 0 false [] [mkPNote 2 1 60 60] [] []);                   (* note end < start *)
    mk1 (mkPInst 0 false [] [] [mkPBend (-1) 0] []);                      (* bend time *)
    mk1 (mkPInst 0 false [] [] [] [mkPCc (-1) 0 0]) ].                    (* control-change time *)

Theorem pm_inv_hypotheses_necessary :
  forallb (fun m => negb (pm_invb m) && foreign_or_illformed m) hyp_witnesses = true.
Proof. vm_compute. reflexivity. Qed.

(** ...whereas denominators and key numbers need no hypothesis: *)
Example convert_handles_huge_denominator :
  pm_invb (mkPm 480 [mkPTsig 0 4 (2 ^ 255)] [] [] []) = true /\
  convert (mkPm 480 [mkPTsig 0 4 (2 ^ 255)] [] [] []) = Err MIDIConversionError.
Proof. split; vm_compute; reflexivity. Qed.

Example convert_handles_bad_key_number :
  pm_invb (mkPm 480 [] [mkPKey 0 24; mkPKey 0 (-1)] [] []) = true /\
  convert (mkPm 480 [] [mkPKey 0 24] [] []) = Err MIDIConversionError /\
  convert (mkPm 480 [] [mkPKey 0 (-1)] [] []) = Err MIDIConversionError.
Proof. repeat split; vm_compute; reflexivity. Qed.

(** * Non-vacuity: a two-instrument object satisfying the invariant converts to a
    sequence with notes, a bend, a control change, an instrument name. *)
Definition nv_pm : pm :=
  mkPm 480 [mkPTsig 0 6 8] [mkPKey 0 13] [mkPTempo 0 100; mkPTempo 7 200]
       [mkPInst 5 false [112; 105] [mkPNote 1 9 60 100; mkPNote 3 5 64 1] [mkPBend 2 (-8192)] [mkPCc 4 64 127];
        mkPInst 0 true [] [mkPNote 0 0 36 127] [] []].

Example convert_nonvacuous :
  pm_invb nv_pm = true /\
  exists c, convert nv_pm = Ok c /\ length (s_notes (c_seq c)) = 3%nat /\ s_total (c_seq c) = 9 /\
            s_ksigs (c_seq c) = [mkKsig 0 1 KS_MINOR] /\ c_infos c = [mkInfo 0 [112; 105]].
Proof. split; [vm_compute; reflexivity|]. eexists. split; [vm_compute; reflexivity|]. repeat split. Qed.
