(** Proofs/Extract.v — [_extract_subsequences] refines its declarative
    specification, and what follows from that: note partition, value in effect,
    beats, total_time, subsequence_info, argument checks. *)
From Coq Require Import ZArith List Bool Lia ZifyBool Permutation Sorted.
From NS Require Import Base.NoteSeq Model.Extract Proofs.ExtractSort Proofs.ExtractWalk.
Import ListNotations.
Local Open Scope Z_scope.

(** * Generic event kinds *)
Section Kind.
Context {A : Type} (time : A -> Z) (set_time : A -> Z -> A).
Hypothesis Htime : forall e x, time (set_time e x) = x.
Hypothesis Hset : forall e x y, set_time (set_time e x) y = set_time e y.

Definition kf0 : A -> key := fun _ => (0, 0).
Definition dict_of (prev : option A) : list (key * A) :=
  match prev with Some e => [((0, 0), e)] | None => [] end.

Lemma state_walk_nil : forall t0 a b r prev,
  state_walk time set_time t0 a (b :: r) prev [] =
  [] :: repeat (map (fun p => set_time p 0) (opt_list prev)) (length r).
Proof. reflexivity. Qed.

Lemma state_walk_cons : forall t0 a b r prev e l,
  state_walk time set_time t0 a (b :: r) prev (e :: l) =
  if time e <=? t0 then state_walk time set_time t0 a (b :: r) (Some e) l
  else if time e >? b
       then [] :: prepend (map (fun p => set_time p 0) (opt_list prev))
                          (state_walk time set_time t0 b r prev (e :: l))
  else let rr := state_walk time set_time t0 a (b :: r) (Some e) l in
       if time e <? b then cons_hd (set_time e (time e - a)) rr else rr.
Proof. reflexivity. Qed.

(** the single [previous_event] variable is the pedal dict with one constant key *)
Lemma state_walk_dict : forall t0 rest a prev l,
  state_walk time set_time t0 a rest prev l =
  dict_walk kf0 time set_time t0 a rest (dict_of prev) l.
Proof.
  intros t0. induction rest as [|b r IHr]; intros a prev l; [reflexivity|].
  revert prev. induction l as [|e l IHl]; intros prev.
  - rewrite state_walk_nil, dict_walk_nil. unfold carry_of. destruct prev; reflexivity.
  - rewrite state_walk_cons, dict_walk_cons.
    assert (D : dict_set (dict_of prev) (kf0 e) e = dict_of (Some e)) by (destruct prev; reflexivity).
    assert (C : carry_of set_time (dict_of prev) = map (fun p => set_time p 0) (opt_list prev))
      by (destruct prev; reflexivity).
    rewrite D, C, <- IHr, <- !IHl. reflexivity.
Qed.

Lemma wk_kf0 : forall l, wk kf0 (0, 0) l = l.
Proof. intros. unfold wk, kf0. apply filter_all. rewrite Forall_forall. reflexivity. Qed.

Lemma spec_future_state_spec : forall a b evs,
  spec_future time set_time a b None (sort_by time evs) = state_spec time set_time a b evs.
Proof.
  intros. unfold spec_future, state_spec, last_or, zero, shift.
  destruct (last_opt _); reflexivity.
Qed.

Lemma state_pieces_spec : forall ts evs, zsorted ts ->
  state_pieces time set_time ts evs =
  map (fun pq => state_spec time set_time (fst pq) (snd pq) evs) (intervals ts).
Proof.
  intros ts evs Sz. unfold state_pieces. rewrite state_walk_dict. cbn [dict_of].
  pose proof (dict_pieces_spec kf0 time set_time (fun _ _ => eq_refl) ts [] (sort_by time evs) (0, 0) Sz
                (sort_by_sorted time evs)) as H.
  rewrite (map_ext _ (fun x => x)), map_id in H by apply wk_kf0.
  rewrite H; [|split; constructor]. rewrite wk_kf0. apply map_ext. intros pq.
  apply spec_future_state_spec.
Qed.

(** ** value in effect *)
Lemma filter_map {X Y} (f : X -> Y) (p : Y -> bool) : forall l,
  filter p (map f l) = map f (filter (fun x => p (f x)) l).
Proof. induction l as [|x r IH]; [reflexivity|]. cbn. destruct (p (f x)); cbn; now rewrite IH. Qed.

Lemma filter_filter {X} (p q : X -> bool) : forall l,
  filter p (filter q l) = filter (fun x => q x && p x) l.
Proof.
  induction l as [|x r IH]; [reflexivity|]. cbn [filter]. destruct (q x); cbn [filter andb]; [|exact IH].
  destruct (p x); now rewrite IH.
Qed.

Lemma state_spec_sorted : forall a b evs, sorted_by time (state_spec time set_time a b evs).
Proof.
  intros a b evs. unfold state_spec. set (S := sort_by time evs).
  assert (SS : sorted_by time S) by apply sort_by_sorted.
  apply sorted_by_app_le.
  - destruct (last_opt _); cbn; repeat constructor.
  - set (I := filter _ S). assert (SI : sorted_by time I) by (apply sorted_by_filter; exact SS).
    clearbody I. induction I as [|x r IH]; [constructor|]. inversion SI; subst.
    cbn [map]. constructor; [now apply IH|].
    rewrite Forall_forall in *. intros y Hy. apply in_map_iff in Hy. destruct Hy as [z [<- Hz]].
    rewrite !Htime. specialize (H2 z Hz). cbn in H2. lia.
  - intros x y Hx Hy. apply in_map_iff in Hx. destruct Hx as [x' [<- _]].
    apply in_map_iff in Hy. destruct Hy as [y' [<- Hy]]. apply filter_In in Hy.
    rewrite !Htime. unfold strictly_inside in Hy. lia.
Qed.

Theorem in_effect_state_spec : forall a b evs tau, 0 <= tau < b - a ->
  in_effect time set_time (state_spec time set_time a b evs) tau =
  in_effect time set_time evs (a + tau).
Proof.
  intros a b evs tau Ht. unfold in_effect.
  rewrite (sort_by_id time _ (state_spec_sorted a b evs)).
  unfold state_spec. set (S := sort_by time evs).
  assert (SS : sorted_by time S) by apply sort_by_sorted.
  rewrite (filter_le_split time a (a + tau) S SS) by lia.
  rewrite filter_app, !filter_map, filter_filter.
  set (F := filter (fun e => time e <=? a) S).
  rewrite (filter_ext (fun x => time (set_time x 0) <=? tau) (fun _ => true))
    by (intros; rewrite Htime; lia).
  rewrite (filter_all (fun _ => true)) by (rewrite Forall_forall; reflexivity).
  rewrite (filter_ext (fun x => strictly_inside a b (time x) && (time (set_time x (time x - a)) <=? tau))
                      (fun e => (a <? time e) && (time e <=? a + tau)))
    by (intros; rewrite Htime; unfold strictly_inside; lia).
  set (J := filter _ S).
  rewrite !last_opt_app, !last_opt_map.
  destruct (last_opt J) as [x|]; cbn [option_map].
  - now rewrite Hset.
  - destruct (last_opt F) as [y|]; cbn [opt_list map option_map last_opt last]; [now rewrite Hset|reflexivity].
Qed.

Lemma state_spec_Forall : forall (P : A -> Prop) a b evs,
  (forall e x, P e -> P (set_time e x)) -> Forall P evs -> Forall P (state_spec time set_time a b evs).
Proof.
  intros P a b evs HP F. unfold state_spec.
  assert (FS : Forall P (sort_by time evs)).
  { eapply Permutation_Forall; [symmetry; apply sort_by_perm|exact F]. }
  rewrite Forall_forall in FS. apply Forall_app. split; rewrite Forall_forall; intros x Hx;
    apply in_map_iff in Hx; destruct Hx as [y [<- Hy]]; apply HP, FS.
  - destruct (last_opt _) as [z|] eqn:E; [|contradiction]. destruct Hy as [<-|[]].
    assert (In z (filter (fun e => time e <=? a) (sort_by time evs))).
    { revert E. generalize (filter (fun e => time e <=? a) (sort_by time evs)).
      induction l as [|u l IH]; [discriminate|]. rewrite last_opt_cons.
      destruct (last_opt l); intros E; inversion E; subst; [right; now apply IH|now left]. }
    apply filter_In in H. tauto.
  - apply filter_In in Hy. tauto.
Qed.

Lemma state_spec_times : forall a b evs,
  Forall (fun e => time e = 0 \/ 0 < time e < b - a) (state_spec time set_time a b evs).
Proof.
  intros a b evs. unfold state_spec. apply Forall_app. split; rewrite Forall_forall; intros x Hx;
    apply in_map_iff in Hx; destruct Hx as [y [<- Hy]]; rewrite Htime.
  - now left.
  - right. apply filter_In in Hy. unfold strictly_inside in Hy. lia.
Qed.

End Kind.

(** * Notes *)
Lemma notes_spec_ge_spec : forall a b l, notes_spec a b l = ge_spec n_start clipshift a b l.
Proof. reflexivity. Qed.

Lemma note_pieces_spec : forall ts notes, zsorted ts ->
  note_pieces ts notes = map (fun pq => notes_spec (fst pq) (snd pq) (sort_by n_start notes)) (intervals ts).
Proof. intros. unfold note_pieces, note_walk. now apply ge_pieces_spec. Qed.

Lemma beat_pieces_spec : forall ts beats, zsorted ts ->
  beat_pieces ts beats = map (fun pq => beats_spec (fst pq) (snd pq) beats) (intervals ts).
Proof.
  intros. unfold beat_pieces, beat_walk. rewrite ge_pieces_spec by assumption. reflexivity.
Qed.

Lemma piece_total_max_end : forall ns, piece_total ns = max_end ns.
Proof.
  unfold piece_total. intros ns.
  assert (G : forall acc, 0 <= acc ->
               fold_left (fun acc n => if n_end n >? acc then n_end n else acc) ns acc
               = Z.max acc (max_end ns) /\ 0 <= max_end ns).
  { induction ns as [|n r IH]; intros acc Hacc.
    - unfold max_end. cbn. lia.
    - cbn [fold_left].
      destruct (IH (if n_end n >? acc then n_end n else acc)) as [-> P];
        [destruct (n_end n >? acc) eqn:E; lia|].
      change (max_end (n :: r)) with (Z.max (n_end n) (max_end r)).
      destruct (n_end n >? acc) eqn:E; lia. }
  destruct (G 0); lia.
Qed.

(** * Pedals *)
Lemma cc_Hkf : forall e x, pedal_key (cc_with_time e x) = pedal_key e.
Proof. reflexivity. Qed.

Lemma pedal_pieces_spec : forall pres s ts kk, zsorted ts ->
  map (with_key kk) (pedal_pieces ts (pedals_of pres s)) =
  map (fun pq => pedal_spec pres kk (fst pq) (snd pq) s) (intervals ts).
Proof.
  intros pres s ts kk Sz. unfold pedal_pieces.
  pose proof (dict_pieces_spec pedal_key cc_time cc_with_time cc_Hkf ts [] (sort_by cc_time (pedals_of pres s)) kk Sz
                (sort_by_sorted cc_time _)) as H.
  change (wk pedal_key kk) with (with_key kk) in H.
  rewrite H; [|split; constructor]. apply map_ext. intros [p q]. cbn [fst snd].
  unfold pedal_spec. rewrite <- spec_future_state_spec. unfold with_key.
  rewrite <- filter_sort_by. reflexivity.
Qed.

(** * Argument checks *)
Lemma unsorted_false : forall ts, unsorted ts = false <-> zsorted ts.
Proof.
  induction ts as [|a [|b r] IH].
  - split; [constructor|reflexivity].
  - split; [repeat constructor|reflexivity].
  - change (unsorted (a :: b :: r)) with ((a >? b) || unsorted (b :: r)). split.
    + intros H. apply orb_false_iff in H. destruct H as [H1 H2]. apply IH in H2.
      constructor; [assumption|]. constructor; [lia|].
      inversion H2; subst. eapply Forall_impl; [|eassumption]. cbn; intros; lia.
    + intros H. inversion H; subst. inversion H3; subst. apply orb_false_iff. split; [lia|].
      now apply IH.
Qed.

Lemma past_end_false : forall total ts,
  past_end total ts = false <-> Forall (fun t => t < total) (removelast ts).
Proof.
  intros. unfold past_end. generalize (removelast ts). induction l as [|x r IH]; cbn [existsb].
  - split; [constructor|reflexivity].
  - rewrite orb_false_iff, IH. split.
    + intros [H1 H2]. constructor; [lia|assumption].
    + intros H. inversion H; subst. split; [lia|assumption].
Qed.

Theorem extract_ok_iff : forall pres s ts,
  (exists ps, extract_subsequences pres s ts = Ok ps) <->
  is_quantized s = false /\ (2 <= length ts)%nat /\ zsorted ts /\
  Forall (fun t => t < s_total s) (removelast ts).
Proof.
  intros pres s ts. unfold extract_subsequences. split.
  - intros [ps H]. destruct (is_quantized s); [discriminate|].
    destruct (length ts <? 2)%nat eqn:E1; [discriminate|].
    destruct (unsorted ts) eqn:E2; [discriminate|].
    destruct (past_end (s_total s) ts) eqn:E3; [discriminate|].
    repeat split; [apply Nat.ltb_ge in E1; lia|now apply unsorted_false|now apply past_end_false].
  - intros (Q & L & S & P). rewrite Q.
    assert (E1 : (length ts <? 2)%nat = false) by (apply Nat.ltb_ge; lia). rewrite E1.
    apply unsorted_false in S. rewrite S. apply past_end_false in P. rewrite P. eauto.
Qed.

Theorem extract_error_cases : forall pres s ts e,
  extract_subsequences pres s ts = Err e ->
  match e with
  | ErrQuantized => is_quantized s = true
  | ErrTooFew => (length ts < 2)%nat
  | ErrUnsorted => ~ zsorted ts
  | ErrPastEnd => ~ Forall (fun t => t < s_total s) (removelast ts)
  | ErrZeroHop => False
  end.
Proof.
  intros pres s ts e. unfold extract_subsequences.
  destruct (is_quantized s) eqn:Q; [intros H; inversion H; subst; reflexivity|].
  destruct (length ts <? 2)%nat eqn:E1; [intros H; inversion H; subst; apply Nat.ltb_lt in E1; exact E1|].
  destruct (unsorted ts) eqn:E2.
  { intros H; inversion H; subst. intros S. apply unsorted_false in S. congruence. }
  destruct (past_end (s_total s) ts) eqn:E3.
  { intros H; inversion H; subst. intros S. apply past_end_false in S. congruence. }
  discriminate.
Qed.

(** * The refinement theorem *)
Definition piece_is_spec (pres : list Z) (s : seq) (a b : Z) (p : seq) : Prop :=
  s_notes p = notes_spec a b (sort_by n_start (s_notes s)) /\
  s_tempos p = state_spec tp_time tempo_with_time a b (s_tempos s) /\
  s_tsigs p = state_spec ts_time tsig_with_time a b (s_tsigs s) /\
  s_ksigs p = state_spec ks_time ksig_with_time a b (s_ksigs s) /\
  s_texts p = state_spec tx_time text_with_time a b (chords_of s) ++ beats_spec a b (beats_of s) /\
  (forall kk, with_key kk (s_ccs p) = pedal_spec pres kk a b s) /\
  s_total p = max_end (s_notes p) /\
  s_sub p = (a, s_total s - a - s_total p).

Lemma nth_error_intervals : forall ts i a b,
  nth_error (intervals ts) i = Some (a, b) -> tsn ts i = a /\ (i < length ts - 1)%nat.
Proof.
  induction ts as [|x [|y r] IH]; intros i a b H.
  - destruct i; discriminate.
  - destruct i; discriminate.
  - rewrite intervals_cons2 in H. destruct i as [|i].
    + inversion H; subst. split; [reflexivity|cbn; lia].
    + cbn [nth_error] in H. apply IH in H. destruct H as [H1 H2].
      split; [exact H1|]. cbn [length] in *. lia.
Qed.

Lemma nth_map_intervals {X} (f : Z * Z -> list X) : forall ts i a b,
  nth_error (intervals ts) i = Some (a, b) -> nth i (map f (intervals ts)) [] = f (a, b).
Proof.
  intros ts i a b H. apply nth_error_nth. now apply map_nth_error.
Qed.

Lemma intervals_length' : forall ts, length (intervals ts) = (length ts - 1)%nat.
Proof. intros [|a r]; [reflexivity|]. rewrite intervals_length. cbn. lia. Qed.

Lemma filter_chord_state : forall a b evs,
  Forall (fun t => tx_type t = ANN_CHORD_SYMBOL) evs ->
  Forall (fun t => tx_type t = ANN_CHORD_SYMBOL) (state_spec tx_time text_with_time a b evs).
Proof. intros. apply state_spec_Forall; [|assumption]. intros e x H'. exact H'. Qed.

Lemma beats_spec_type : forall a b evs, Forall (fun t => tx_type t = ANN_BEAT) evs ->
  Forall (fun t => tx_type t = ANN_BEAT) (beats_spec a b evs).
Proof.
  intros a b evs F. unfold beats_spec. rewrite Forall_forall. intros x Hx.
  apply in_map_iff in Hx. destruct Hx as [y [<- Hy]]. apply filter_In in Hy. destruct Hy as [Hy _].
  cbn. rewrite Forall_forall in F. apply F. eapply Permutation_in; [apply sort_by_perm|exact Hy].
Qed.

Lemma chords_of_Forall : forall s, Forall (fun t => tx_type t = ANN_CHORD_SYMBOL) (chords_of s).
Proof. intros. unfold chords_of. rewrite Forall_forall. intros x Hx. apply filter_In in Hx. lia. Qed.
Lemma beats_of_Forall : forall s, Forall (fun t => tx_type t = ANN_BEAT) (beats_of s).
Proof. intros. unfold beats_of. rewrite Forall_forall. intros x Hx. apply filter_In in Hx. lia. Qed.

Lemma nth_error_map_seq {X} (f : nat -> X) : forall n i, (i < n)%nat ->
  nth_error (map f (List.seq 0 n)) i = Some (f i).
Proof.
  intros n i H. apply map_nth_error.
  rewrite nth_error_nth' with (d := O) by (now rewrite seq_length).
  now rewrite seq_nth.
Qed.

Theorem extract_refines_spec : forall pres s ts ps,
  extract_subsequences pres s ts = Ok ps ->
  length ps = length (intervals ts) /\
  forall i a b p, nth_error (intervals ts) i = Some (a, b) -> nth_error ps i = Some p ->
                  piece_is_spec pres s a b p.
Proof.
  intros pres s ts ps H.
  assert (Sz : zsorted ts).
  { assert (E : exists ps, extract_subsequences pres s ts = Ok ps) by eauto.
    apply extract_ok_iff in E. tauto. }
  unfold extract_subsequences in H.
  destruct (is_quantized s); [discriminate|]. destruct (length ts <? 2)%nat; [discriminate|].
  destruct (unsorted ts); [discriminate|]. destruct (past_end (s_total s) ts); [discriminate|].
  inversion H; subst ps; clear H. unfold extract_pieces. split.
  - now rewrite map_length, seq_length, intervals_length'.
  - intros i a b p Hi Hp.
    destruct (nth_error_intervals _ _ _ _ Hi) as [Ha Hlt].
    rewrite nth_error_map_seq in Hp by exact Hlt.
    inversion Hp; subst p; clear Hp. unfold piece_is_spec. cbn [s_notes s_tempos s_tsigs s_ksigs s_texts s_ccs s_total s_sub].
    rewrite note_pieces_spec, !state_pieces_spec, beat_pieces_spec by assumption.
    rewrite !(nth_map_intervals _ ts i a b Hi). cbn [fst snd].
    repeat split; try reflexivity.
    + intros kk. pose proof (pedal_pieces_spec pres s ts kk Sz) as P.
      apply (f_equal (fun l => nth i l [])) in P.
      rewrite (nth_map_intervals _ ts i a b Hi) in P. cbn [fst snd] in P. rewrite <- P.
      rewrite <- (map_nth (with_key kk)). reflexivity.
    + apply piece_total_max_end.
    + rewrite Ha. reflexivity.
Qed.

(** chords and beats of a piece, separated again *)
Lemma piece_chords_beats : forall pres s a b p, piece_is_spec pres s a b p ->
  chords_of p = state_spec tx_time text_with_time a b (chords_of s) /\
  beats_of p = beats_spec a b (beats_of s).
Proof.
  intros pres s a b p (_ & _ & _ & _ & T & _). unfold chords_of at 1, beats_of at 1. rewrite T, !filter_app.
  split.
  - rewrite filter_all, filter_none, app_nil_r; [reflexivity| |].
    + eapply Forall_impl; [|apply beats_spec_type, beats_of_Forall]. cbn. intros t Ht. rewrite Ht. reflexivity.
    + eapply Forall_impl; [|apply filter_chord_state, chords_of_Forall]. cbn. intros t Ht. rewrite Ht. reflexivity.
  - rewrite filter_none, filter_all; [reflexivity| |].
    + eapply Forall_impl; [|apply beats_spec_type, beats_of_Forall]. cbn. intros t Ht. rewrite Ht. reflexivity.
    + eapply Forall_impl; [|apply filter_chord_state, chords_of_Forall]. cbn. intros t Ht. rewrite Ht. reflexivity.
Qed.

(** * Consequences *)

(** ** Notes: each piece holds exactly the notes that start in it, shifted and clipped *)
Lemma filter_perm_sort {X} (key : X -> Z) (p : X -> bool) : forall l,
  Permutation (filter p (sort_by key l)) (filter p l).
Proof. intros. rewrite filter_sort_by. apply sort_by_perm. Qed.

Theorem extract_notes_partition : forall pres s ts ps,
  extract_subsequences pres s ts = Ok ps ->
  forall i a b p, nth_error (intervals ts) i = Some (a, b) -> nth_error ps i = Some p ->
  Permutation (s_notes p)
              (map (clipshift a b) (filter (fun n => in_piece a b (n_start n)) (s_notes s))).
Proof.
  intros pres s ts ps H i a b p Hi Hp.
  destruct (extract_refines_spec _ _ _ _ H) as [_ R].
  destruct (R i a b p Hi Hp) as (N & _). rewrite N. unfold notes_spec.
  apply Permutation_map, filter_perm_sort.
Qed.

Theorem clipshift_fields : forall a b n,
  let m := clipshift a b n in
  n_start m = n_start n - a /\ n_end m = Z.min (n_end n) b - a /\
  n_pitch m = n_pitch n /\ n_vel m = n_vel n /\ n_instr m = n_instr n /\ n_prog m = n_prog n /\
  n_drum m = n_drum n /\ n_qstart m = n_qstart n /\ n_qend m = n_qend n /\ n_rest m = n_rest n.
Proof. intros. repeat split; reflexivity. Qed.

(** the pieces are disjoint and cover [[t_0, t_last)] *)
Lemma nth_error_intervals2 : forall ts i a b,
  nth_error (intervals ts) i = Some (a, b) -> tsn ts i = a /\ tsn ts (S i) = b /\ (S i < length ts)%nat.
Proof.
  induction ts as [|x [|y r] IH]; intros i a b H.
  - destruct i; discriminate.
  - destruct i; discriminate.
  - rewrite intervals_cons2 in H. destruct i as [|i].
    + inversion H; subst. repeat split. cbn; lia.
    + cbn [nth_error] in H. apply IH in H. destruct H as (H1 & H2 & H3).
      repeat split; [exact H1|exact H2|]. cbn [length] in *. lia.
Qed.

Lemma zsorted_nth : forall ts, zsorted ts -> forall i j, (i <= j < length ts)%nat -> tsn ts i <= tsn ts j.
Proof.
  unfold tsn. induction ts as [|x r IH]; intros Sz i j H; [cbn in H; lia|].
  inversion Sz; subst. destruct i as [|i], j as [|j]; cbn [nth]; try lia.
  - rewrite Forall_forall in H3. apply H3, nth_In. cbn in H; lia.
  - apply IH; [assumption|cbn in H; lia].
Qed.

Theorem intervals_disjoint : forall ts, zsorted ts ->
  forall i j a b a' b' x,
    nth_error (intervals ts) i = Some (a, b) -> nth_error (intervals ts) j = Some (a', b') ->
    in_piece a b x = true -> in_piece a' b' x = true -> i = j.
Proof.
  intros ts Sz i j a b a' b' x Hi Hj Px Px'.
  apply nth_error_intervals2 in Hi. apply nth_error_intervals2 in Hj.
  destruct Hi as (<- & <- & Li). destruct Hj as (<- & <- & Lj).
  unfold in_piece in *.
  destruct (Nat.lt_trichotomy i j) as [L|[E|L]]; [|exact E|].
  - pose proof (zsorted_nth ts Sz (S i) j). lia.
  - pose proof (zsorted_nth ts Sz (S j) i). lia.
Qed.

Theorem intervals_cover : forall ts x, ts <> [] -> tsn ts 0 <= x < last ts 0 ->
  exists i a b, nth_error (intervals ts) i = Some (a, b) /\ in_piece a b x = true.
Proof.
  unfold tsn. induction ts as [|t0 [|t1 r] IH]; intros x Hne Hx; [contradiction|cbn in Hx; lia|].
  destruct (x <? t1) eqn:E.
  - exists O, t0, t1. split; [reflexivity|]. unfold in_piece. cbn [nth] in Hx. lia.
  - destruct (IH x) as (i & a & b & Hi & Pi); [discriminate|cbn [nth last] in *; lia|].
    exists (S i), a, b. split; [exact Hi|exact Pi].
Qed.

(** ** Value in effect *)
Theorem extract_state_in_effect : forall pres s ts ps,
  extract_subsequences pres s ts = Ok ps ->
  forall i a b p, nth_error (intervals ts) i = Some (a, b) -> nth_error ps i = Some p ->
  forall tau, 0 <= tau < b - a ->
    in_effect tp_time tempo_with_time (s_tempos p) tau
      = in_effect tp_time tempo_with_time (s_tempos s) (a + tau) /\
    in_effect ts_time tsig_with_time (s_tsigs p) tau
      = in_effect ts_time tsig_with_time (s_tsigs s) (a + tau) /\
    in_effect ks_time ksig_with_time (s_ksigs p) tau
      = in_effect ks_time ksig_with_time (s_ksigs s) (a + tau) /\
    in_effect tx_time text_with_time (chords_of p) tau
      = in_effect tx_time text_with_time (chords_of s) (a + tau) /\
    forall kk, in_effect cc_time cc_with_time (with_key kk (s_ccs p)) tau
               = in_effect cc_time cc_with_time (with_key kk (pedals_of pres s)) (a + tau).
Proof.
  intros pres s ts ps H i a b p Hi Hp tau Ht.
  destruct (extract_refines_spec _ _ _ _ H) as [_ R].
  pose proof (R i a b p Hi Hp) as P.
  destruct (piece_chords_beats _ _ _ _ _ P) as [Ch _].
  destruct P as (_ & Tp & Ts & Ks & _ & Cc & _).
  rewrite Tp, Ts, Ks, Ch.
  repeat split; try (apply in_effect_state_spec; [reflexivity|reflexivity|exact Ht]).
  intros kk. rewrite Cc. unfold pedal_spec.
  apply in_effect_state_spec; [reflexivity|reflexivity|exact Ht].
Qed.

(** ** Beats *)
Theorem extract_beats : forall pres s ts ps,
  extract_subsequences pres s ts = Ok ps ->
  forall i a b p, nth_error (intervals ts) i = Some (a, b) -> nth_error ps i = Some p ->
  Permutation (beats_of p)
              (map (fun e => text_with_time e (tx_time e - a))
                   (filter (fun e => in_piece a b (tx_time e)) (beats_of s))).
Proof.
  intros pres s ts ps H i a b p Hi Hp.
  destruct (extract_refines_spec _ _ _ _ H) as [_ R].
  destruct (piece_chords_beats _ _ _ _ _ (R i a b p Hi Hp)) as [_ B]. rewrite B.
  unfold beats_spec. apply Permutation_map, filter_perm_sort.
Qed.

(** ** total_time and subsequence_info *)
Lemma max_end_spec : forall ns,
  Forall (fun n => n_end n <= max_end ns) ns /\
  (max_end ns = 0 \/ exists n, In n ns /\ n_end n = max_end ns).
Proof.
  induction ns as [|n r [F D]].
  - split; [constructor|now left].
  - change (max_end (n :: r)) with (Z.max (n_end n) (max_end r)). split.
    + constructor; [lia|]. eapply Forall_impl; [|exact F]. cbn; intros; lia.
    + destruct (Z.max_spec (n_end n) (max_end r)) as [[L E]|[L E]]; rewrite E.
      * destruct D as [D|[m [Hm Em]]]; [now left|right; exists m; split; [now right|exact Em]].
      * right. exists n. split; [now left|reflexivity].
Qed.

Theorem extract_total_time : forall pres s ts ps,
  extract_subsequences pres s ts = Ok ps ->
  forall i a b p, nth_error (intervals ts) i = Some (a, b) -> nth_error ps i = Some p ->
  s_total p = max_end (s_notes p) /\
  s_sub p = (a, s_total s - a - s_total p).
Proof.
  intros pres s ts ps H i a b p Hi Hp.
  destruct (extract_refines_spec _ _ _ _ H) as [_ R].
  destruct (R i a b p Hi Hp) as (_ & _ & _ & _ & _ & _ & T & Sb). split; assumption.
Qed.

(** ** Every event of a piece lies inside the piece (carried events sit at time 0) *)
Theorem extract_events_inside : forall pres s ts ps,
  extract_subsequences pres s ts = Ok ps ->
  forall i a b p, nth_error (intervals ts) i = Some (a, b) -> nth_error ps i = Some p ->
  Forall (fun e => tp_time e = 0 \/ 0 < tp_time e < b - a) (s_tempos p) /\
  Forall (fun e => ts_time e = 0 \/ 0 < ts_time e < b - a) (s_tsigs p) /\
  Forall (fun e => ks_time e = 0 \/ 0 < ks_time e < b - a) (s_ksigs p) /\
  Forall (fun e => tx_time e = 0 \/ 0 < tx_time e < b - a) (chords_of p) /\
  Forall (fun e => 0 <= tx_time e < b - a) (beats_of p) /\
  Forall (fun e => cc_time e = 0 \/ 0 < cc_time e < b - a) (s_ccs p) /\
  Forall (fun n => 0 <= n_start n < b - a /\ n_end n <= b - a) (s_notes p).
Proof.
  intros pres s ts ps H i a b p Hi Hp.
  destruct (extract_refines_spec _ _ _ _ H) as [_ R].
  pose proof (R i a b p Hi Hp) as P.
  destruct (piece_chords_beats _ _ _ _ _ P) as [Ch Bt].
  destruct P as (N & Tp & Ts & Ks & _ & Cc & _).
  rewrite Tp, Ts, Ks, Ch, Bt, N.
  repeat split; try (apply state_spec_times; reflexivity).
  - unfold beats_spec. rewrite Forall_forall. intros x Hx. apply in_map_iff in Hx.
    destruct Hx as [y [<- Hy]]. apply filter_In in Hy. cbn [tx_time text_with_time]. unfold in_piece in Hy. lia.
  - rewrite Forall_forall. intros c Hc.
    assert (Hk : In c (with_key (pedal_key c) (s_ccs p))).
    { unfold with_key. apply filter_In. split; [exact Hc|]. apply key_eqb_refl. }
    rewrite Cc in Hk. unfold pedal_spec in Hk.
    pose proof (state_spec_times cc_time cc_with_time (fun _ _ => eq_refl) a b
                  (with_key (pedal_key c) (pedals_of pres s))) as F.
    rewrite Forall_forall in F. exact (F c Hk).
  - unfold notes_spec. rewrite Forall_forall. intros x Hx. apply in_map_iff in Hx.
    destruct Hx as [y [<- Hy]]. apply filter_In in Hy. unfold in_piece in Hy.
    cbn [clipshift note_with_times n_start n_end]. lia.
Qed.

(** ** The notes of a piece do not depend on the storage order of the input notes *)
Theorem extract_notes_order_independent : forall pres s s' ts ps ps',
  Permutation (s_notes s) (s_notes s') ->
  extract_subsequences pres s ts = Ok ps -> extract_subsequences pres s' ts = Ok ps' ->
  forall i p p', nth_error ps i = Some p -> nth_error ps' i = Some p' ->
  Permutation (s_notes p) (s_notes p').
Proof.
  intros pres s s' ts ps ps' Pm H H' i p p' Hp Hp'.
  destruct (extract_refines_spec _ _ _ _ H) as [L _].
  assert (Hi : exists ab, nth_error (intervals ts) i = Some ab).
  { destruct (nth_error (intervals ts) i) eqn:E; [eauto|].
    apply nth_error_None in E. assert (nth_error ps i <> None) by congruence.
    apply nth_error_Some in H0. lia. }
  destruct Hi as [[a b] Hi].
  rewrite (extract_notes_partition _ _ _ _ H i a b p Hi Hp).
  rewrite (extract_notes_partition _ _ _ _ H' i a b p' Hi Hp').
  apply Permutation_map.
  clear -Pm. induction Pm; cbn [filter].
  - constructor.
  - destruct (in_piece a b (n_start x)); [now constructor|assumption].
  - destruct (in_piece a b (n_start x)), (in_piece a b (n_start y)); try reflexivity. apply perm_swap.
  - etransitivity; eassumption.
Qed.
