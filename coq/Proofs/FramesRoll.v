(** Proofs/FramesRoll.v — the run-length decoder of pianoroll_to_note_sequence
    (pure lists, no floats): one-dimensional specification, projection of the
    matrix loop onto one pitch, characterisation of the emitted spans. *)
From Coq Require Import ZArith List Bool Lia.
From NS Require Import Model.FramesRoll.
Import ListNotations.
Local Open Scope Z_scope.

(** * One pitch *)

Definition cstep (has_on : bool) (i : Z) (c : cell) (st : option Z) : option Z * option (Z * Z) :=
  cell_step has_on i (fst (fst c)) (snd (fst c)) (snd c) st.

Fixpoint dec1 (has_on : bool) (i : Z) (col : list cell) (st : option Z) : list (Z * Z) :=
  match col with
  | [] => []
  | c :: r =>
      match snd (cstep has_on i c st) with
      | Some sp => sp :: dec1 has_on (i + 1) r (fst (cstep has_on i c st))
      | None => dec1 has_on (i + 1) r (fst (cstep has_on i c st))
      end
  end.

(* the column of frames i, i+1, ... of a pitch whose effective activity is [f]
   and whose onset predictions are [o] *)
Fixpoint mkcol (f o : Z -> bool) (i : Z) (n : nat) : list cell :=
  match n with
  | O => []
  | S n' => (f i, o i, o (i - 1)) :: mkcol f o (i + 1) n'
  end.

(** Declarative reading.  A note starts exactly where [f && o] rises. *)
Definition nstart (f o : Z -> bool) (a : Z) : bool := f a && o a && negb (f (a - 1) && o (a - 1)).
(* the note running into frame j stops there *)
Definition nstop (f o : Z -> bool) (j : Z) : bool := negb (f j) || nstart f o j.

Definition note_span (f o : Z -> bool) (a b : Z) : Prop :=
  a < b /\ nstart f o a = true /\
  (forall j, a < j < b -> f j = true /\ nstart f o j = false) /\
  (f b = false \/ nstart f o b = true).

(* without onset predictions the decoder behaves as if every frame carried one *)
Lemma cell_step_no_onsets i a o po st :
  cell_step false i a o po st = cell_step true i a true true st.
Proof. unfold cell_step. destruct a, st; reflexivity. Qed.

Lemma dec1_no_onsets f o : forall n i st,
  dec1 false i (mkcol f o i n) st = dec1 true i (mkcol f (fun _ => true) i n) st.
Proof.
  induction n as [|n IH]; intros i st; [reflexivity|].
  cbn [mkcol dec1]. unfold cstep. cbn [fst snd].
  rewrite cell_step_no_onsets. rewrite IH. reflexivity.
Qed.

(* state invariant before frame i *)
Definition inv (f o : Z -> bool) (i : Z) (st : option Z) : Prop :=
  match st with
  | None => f (i - 1) && o (i - 1) = false
  | Some s => f (i - 1) = true
  end.

Lemma cstep_cases f o i st : inv f o i st ->
  let r := cell_step true i (f i) (o i) (o (i - 1)) st in
  fst r = (if nstart f o i then Some i else if f i then st else None) /\
  snd r = (match st with Some s => if nstop f o i then Some (s, i) else None | None => None end) /\
  inv f o (i + 1) (fst r).
Proof.
  intros Hinv. unfold cell_step, nstop, nstart, inv in *.
  replace (i + 1 - 1) with i by lia.
  destruct st as [s|]; destruct (f i) eqn:Ef; destruct (o i) eqn:Eo; cbn [andb orb negb fst snd];
    try rewrite Hinv; cbn [andb orb negb fst snd];
    try (destruct (o (i - 1)) eqn:Ep; cbn [andb orb negb fst snd]);
    repeat split; try reflexivity; try assumption; try (rewrite ?Ef, ?Eo; reflexivity).
Qed.

Lemma dec1_spec f o : forall n i st, inv f o i st ->
  forall a b,
  In (a, b) (dec1 true i (mkcol f o i n) st) <->
  (i <= b < i + Z.of_nat n /\ nstop f o b = true /\
   ((st = Some a /\ forall j, i <= j < b -> nstop f o j = false) \/
    (i <= a < b /\ nstart f o a = true /\ forall j, a < j < b -> nstop f o j = false))).
Proof.
  induction n as [|n IH]; intros i st Hinv a b.
  - cbn [mkcol dec1]. split; [intros []|]. intros [H _]. lia.
  - cbn [mkcol dec1]. unfold cstep. cbn [fst snd].
    destruct (cstep_cases f o i st Hinv) as (Hst & Hem & Hinv').
    cbv zeta in Hst, Hem, Hinv'.
    set (r := cell_step true i (f i) (o i) (o (i - 1)) st) in *.
    specialize (IH (i + 1) (fst r) Hinv' a b).
    rewrite Hem. clear Hem.
    assert (Hsplit : forall P : Z -> Prop, (forall j, i <= j < b -> P j) <->
                     (b <= i \/ (P i /\ forall j, i + 1 <= j < b -> P j))).
    { intros P. split.
      - intros H. destruct (Z_le_gt_dec b i); [left; assumption|right].
        split; [apply H; lia|intros; apply H; lia].
      - intros [H|[H1 H2]] j Hj; [lia|]. destruct (Z.eq_dec j i); [subst; assumption|apply H2; lia]. }
    destruct st as [s|].
    + destruct (nstop f o i) eqn:Estop.
      * (* the running note ends at i *)
        cbn [In]. rewrite IH. rewrite Hst. clear IH.
        split.
        -- intros [Heq|(Hb & Hs & Hc)].
           ++ inversion Heq; subst. split; [lia|]. split; [assumption|]. left. split; [reflexivity|intros; lia].
           ++ split; [lia|]. split; [assumption|].
              destruct Hc as [(Hsa & Hall)|(Ha & Hsa & Hall)].
              ** destruct (nstart f o i) eqn:En.
                 --- inversion Hsa; subst. right. split; [lia|]. split; [assumption|].
                     intros; apply Hall; lia.
                 --- unfold nstop in Estop. rewrite En in Estop. destruct (f i); discriminate.
              ** right. split; [lia|]. split; assumption.
        -- intros (Hb & Hs & Hc).
           destruct Hc as [(Hsa & Hall)|(Ha & Hsa & Hall)].
           ++ inversion Hsa; subst. destruct (Z.eq_dec b i); [subst; left; reflexivity|].
              exfalso. specialize (Hall i). rewrite Hall in Estop; [discriminate|lia].
           ++ right. split; [lia|]. split; [assumption|].
              destruct (Z.eq_dec a i).
              ** subst. left. rewrite Hsa. split; [reflexivity|]. intros; apply Hall; lia.
              ** right. split; [lia|]. split; assumption.
      * (* the running note continues *)
        rewrite IH. rewrite Hst. clear IH.
        assert (En : nstart f o i = false).
        { unfold nstop in Estop. destruct (nstart f o i); [rewrite orb_true_r in Estop; discriminate|reflexivity]. }
        assert (Ef : f i = true).
        { unfold nstop in Estop. destruct (f i); [reflexivity|discriminate]. }
        rewrite En, Ef.
        split.
        -- intros (Hb & Hs & Hc). split; [lia|]. split; [assumption|].
           destruct Hc as [(Hsa & Hall)|(Ha & Hsa & Hall)].
           ++ left. split; [assumption|]. apply Hsplit. right. split; assumption.
           ++ right. split; [lia|]. split; assumption.
        -- intros (Hb & Hs & Hc).
           assert (b <> i) by (intros ->; rewrite Hs in Estop; discriminate).
           split; [lia|]. split; [assumption|].
           destruct Hc as [(Hsa & Hall)|(Ha & Hsa & Hall)].
           ++ left. split; [assumption|]. intros; apply Hall; lia.
           ++ right. assert (a <> i) by (intros ->; rewrite Hsa in En; discriminate).
              split; [lia|]. split; assumption.
    + (* no note running *)
      rewrite IH. rewrite Hst. clear IH.
      split.
      * intros (Hb & Hs & Hc). split; [lia|]. split; [assumption|].
        destruct Hc as [(Hsa & Hall)|(Ha & Hsa & Hall)].
        -- destruct (nstart f o i) eqn:En.
           ++ inversion Hsa; subst. right. split; [lia|]. split; [assumption|]. intros; apply Hall; lia.
           ++ destruct (f i); discriminate.
        -- right. split; [lia|]. split; assumption.
      * intros (Hb & Hs & Hc).
        destruct Hc as [(Hsa & Hall)|(Ha & Hsa & Hall)]; [discriminate|].
        split; [lia|]. split; [assumption|].
        destruct (Z.eq_dec a i).
        -- subst. left. rewrite Hsa. split; [reflexivity|]. intros; apply Hall; lia.
        -- right. split; [lia|]. split; assumption.
Qed.

(* ends are emitted in strictly increasing frame order: no span is emitted twice *)
Lemma dec1_ends_ge has_on : forall col i st a b, In (a, b) (dec1 has_on i col st) -> i <= b.
Proof.
  induction col as [|c r IH]; intros i st a b H; [destruct H|].
  cbn [dec1] in H.
  assert (Hsp : forall sp, snd (cstep has_on i c st) = Some sp -> snd sp = i).
  { intros sp. unfold cstep, cell_step.
    destruct (fst (fst c)); destruct st; cbn [snd fst];
      repeat match goal with |- context [if ?x then _ else _] => destruct x end;
      cbn [snd fst]; intros E; inversion E; reflexivity. }
  destruct (snd (cstep has_on i c st)) as [sp|] eqn:E.
  - destruct H as [H|H].
    + specialize (Hsp sp eq_refl). subst sp. cbn in Hsp. lia.
    + apply IH in H. lia.
  - apply IH in H. lia.
Qed.

Lemma dec1_NoDup has_on : forall col i st, NoDup (dec1 has_on i col st).
Proof.
  induction col as [|c r IH]; intros i st; [constructor|].
  cbn [dec1].
  assert (Hsp : forall sp, snd (cstep has_on i c st) = Some sp -> snd sp = i).
  { intros sp. unfold cstep, cell_step.
    destruct (fst (fst c)); destruct st; cbn [snd fst];
      repeat match goal with |- context [if ?x then _ else _] => destruct x end;
      cbn [snd fst]; intros E; inversion E; reflexivity. }
  destruct (snd (cstep has_on i c st)) as [[a b]|] eqn:E; [|apply IH].
  constructor; [|apply IH].
  intros Hin. apply dec1_ends_ge in Hin. specialize (Hsp _ eq_refl). cbn in Hsp. lia.
Qed.

(** * Projection of the matrix loop onto one pitch *)
Definition dcell : cell := (false, false, false).
Definition colp (k : nat) (rows : list (list cell)) : list cell := map (fun r => nth k r dcell) rows.
Definition pitch_spans (p : Z) (l : list (Z * Z * Z)) : list (Z * Z) :=
  map (fun t => (snd (fst t), snd t)) (filter (fun t => fst (fst t) =? p) l).

Lemma pitch_spans_app p l1 l2 : pitch_spans p (l1 ++ l2) = pitch_spans p l1 ++ pitch_spans p l2.
Proof. unfold pitch_spans. rewrite filter_app, map_app. reflexivity. Qed.

Lemma pitch_spans_none p l : (forall t, In t l -> fst (fst t) <> p) -> pitch_spans p l = [].
Proof.
  induction l as [|t r IH]; intros H; [reflexivity|].
  unfold pitch_spans in *. cbn [filter].
  destruct (fst (fst t) =? p) eqn:E.
  - apply Z.eqb_eq in E. exfalso. apply (H t); [left; reflexivity|assumption].
  - apply IH. intros t' Ht'. apply H. right. assumption.
Qed.

Lemma in_pitch_spans p a b l : In (a, b) (pitch_spans p l) <-> In (p, a, b) l.
Proof.
  unfold pitch_spans. rewrite in_map_iff. split.
  - intros ([[q s] e] & Heq & Hin). apply filter_In in Hin. destruct Hin as [Hin Hq].
    cbn in Heq, Hq. inversion Heq; subst. apply Z.eqb_eq in Hq. subst. assumption.
  - intros Hin. exists (p, a, b). split; [reflexivity|]. apply filter_In. split; [assumption|].
    cbn. apply Z.eqb_refl.
Qed.

Lemma row_step_spec has_on i : forall cells sts p0, length cells = length sts ->
  let r := row_step has_on i p0 cells sts in
  length (fst r) = length sts /\
  (forall k, (k < length cells)%nat ->
     nth k (fst r) None = fst (cstep has_on i (nth k cells dcell) (nth k sts None))) /\
  (forall k, (k < length cells)%nat ->
     pitch_spans (p0 + Z.of_nat k) (snd r) =
     match snd (cstep has_on i (nth k cells dcell) (nth k sts None)) with Some sp => [sp] | None => [] end) /\
  (forall t, In t (snd r) -> p0 <= fst (fst t) < p0 + Z.of_nat (length cells)).
Proof.
  induction cells as [|c cr IH]; intros sts p0 Hlen.
  - destruct sts; [|discriminate]. cbn. repeat split; intros; try lia; contradiction.
  - destruct sts as [|st sr]; [discriminate|].
    cbn [length] in Hlen. injection Hlen as Hlen.
    specialize (IH sr (p0 + 1) Hlen). cbv zeta in IH.
    destruct c as [[a o] po].
    cbn [row_step].
    change (cell_step has_on i a o po st) with (cstep has_on i (a, o, po) st).
    destruct (cstep has_on i (a, o, po) st) as [st' em] eqn:Ec.
    destruct (row_step has_on i (p0 + 1) cr sr) as [sr' ems] eqn:Er.
    cbn [fst snd] in IH |- *.
    destruct IH as (IH1 & IH2 & IH3 & IH4).
    assert (Hems : pitch_spans p0 ems = []).
    { apply pitch_spans_none. intros t Ht. apply IH4 in Ht. lia. }
    split; [cbn [length]; lia|]. split; [|split].
    + intros [|k] Hk; cbn [nth]; [rewrite Ec; reflexivity|]. apply IH2. cbn [length] in Hk. lia.
    + intros [|k] Hk; cbn [nth].
      * rewrite Ec. cbn [snd]. replace (p0 + Z.of_nat 0) with p0 by lia.
        destruct em as [[s e]|]; [|assumption].
        unfold pitch_spans in *. cbn [filter fst snd]. rewrite Z.eqb_refl. cbn [map fst snd]. rewrite Hems. reflexivity.
      * replace (p0 + Z.of_nat (S k)) with (p0 + 1 + Z.of_nat k) by lia.
        rewrite <- IH3 by (cbn [length] in Hk; lia).
        destruct em as [[s e]|]; [|reflexivity].
        unfold pitch_spans. cbn [filter fst snd].
        destruct (p0 =? p0 + 1 + Z.of_nat k) eqn:E; [apply Z.eqb_eq in E; lia|reflexivity].
    + intros t Ht. cbn [length].
      destruct em as [[s e]|].
      * destruct Ht as [Ht|Ht]; [subst t; cbn; lia|apply IH4 in Ht; lia].
      * apply IH4 in Ht. lia.
Qed.

Lemma frames_loop_proj has_on : forall rows i sts,
  (forall r, In r rows -> length r = length sts) ->
  (forall k, (k < length sts)%nat ->
     pitch_spans (Z.of_nat k) (frames_loop has_on i rows sts) = dec1 has_on i (colp k rows) (nth k sts None)) /\
  (forall t, In t (frames_loop has_on i rows sts) -> 0 <= fst (fst t) < Z.of_nat (length sts)).
Proof.
  induction rows as [|r rs IH]; intros i sts Hrows.
  - cbn. split; intros; [reflexivity|contradiction].
  - cbn [frames_loop colp map dec1].
    assert (Hr : length r = length sts) by (apply Hrows; left; reflexivity).
    pose proof (row_step_spec has_on i r sts 0 Hr) as Hs. cbv zeta in Hs.
    destruct (row_step has_on i 0 r sts) as [sts' em] eqn:Er. cbn [fst snd] in Hs.
    destruct Hs as (H1 & H2 & H3 & H4).
    assert (Hrows' : forall r0, In r0 rs -> length r0 = length sts').
    { intros r0 H0. rewrite H1. apply Hrows. right. assumption. }
    destruct (IH (i + 1) sts' Hrows') as [IHa IHb].
    split.
    + intros k Hk. rewrite pitch_spans_app.
      rewrite IHa by lia. rewrite <- H2 by lia.
      replace (Z.of_nat k) with (0 + Z.of_nat k) at 1 by lia. rewrite H3 by lia.
      fold (colp k rs).
      destruct (snd (cstep has_on i (nth k r dcell) (nth k sts None))); reflexivity.
    + intros t Ht. apply in_app_or in Ht. destruct Ht as [Ht|Ht].
      * apply H4 in Ht. lia.
      * apply IHb in Ht. lia.
Qed.

(** * The cells the loop sees, read back as functions of (frame, pitch) *)
Definition mg (m : list (list bool)) (i k : nat) : bool := nth k (nth i m []) false.

Definition rect (m : list (list bool)) (T P : nat) : Prop :=
  length m = T /\ forall r, In r m -> length r = P.

Lemma nth_nil_bool k : nth k (@nil bool) false = false.
Proof. destruct k; reflexivity. Qed.

Lemma nth_zrow w k : nth k (zrow w) false = false.
Proof.
  unfold zrow. revert k. induction w as [|w IH]; intros [|k]; cbn; auto.
Qed.

Lemma rect_width m T P : rect m T P -> (0 < T)%nat -> width m = P.
Proof.
  intros [Hl Hr] HT. unfold width. destruct m as [|r rs]; [cbn in Hl; lia|]. cbn. apply Hr. left. reflexivity.
Qed.

Lemma rect_app_silent m T P : rect m T P -> (0 < T)%nat -> rect (app_silent m) (S T) P.
Proof.
  intros H HT. pose proof (rect_width _ _ _ H HT) as Hw. destruct H as [Hl Hr].
  unfold app_silent. split.
  - rewrite app_length. cbn. lia.
  - intros r Hin. apply in_app_or in Hin. destruct Hin as [Hin|[Hin|[]]]; [auto|].
    subst r. unfold zrow. rewrite repeat_length. assumption.
Qed.

Lemma mg_app_silent m i k : mg (app_silent m) i k = mg m i k.
Proof.
  unfold mg, app_silent.
  destruct (Nat.lt_ge_cases i (length m)) as [H|H].
  - rewrite app_nth1 by assumption. reflexivity.
  - rewrite app_nth2 by assumption. rewrite (nth_overflow m) by assumption.
    rewrite nth_nil_bool.
    destruct (i - length m)%nat as [|d]; cbn [nth]; [apply nth_zrow|].
    destruct d; cbn [nth]; apply nth_nil_bool.
Qed.

Lemma map2_length {A B C} (g : A -> B -> C) : forall a b, length (map2 g a b) = Nat.min (length a) (length b).
Proof. induction a as [|x a IH]; intros [|y b]; cbn; auto. Qed.

Lemma map2_nth {A B C} (g : A -> B -> C) da db dc : forall a b i,
  (i < length a)%nat -> (i < length b)%nat -> nth i (map2 g a b) dc = g (nth i a da) (nth i b db).
Proof.
  induction a as [|x a IH]; intros [|y b] i Ha Hb; cbn in *; try lia.
  destruct i; [reflexivity|]. apply IH; lia.
Qed.

Lemma in_map2 {A B C} (g : A -> B -> C) : forall a b z, In z (map2 g a b) -> exists x y, In x a /\ In y b /\ z = g x y.
Proof.
  induction a as [|x a IH]; intros [|y b] z H; cbn in H; try contradiction.
  destruct H as [H|H].
  - exists x, y. repeat split; [left|left|]; auto.
  - destruct (IH _ _ H) as (x' & y' & Hx & Hy & E). exists x', y'. repeat split; [right|right|]; auto.
Qed.

Lemma rect_map2 g a b T P : rect a T P -> rect b T P -> rect (map2 (map2 g) a b) T P.
Proof.
  intros [Ha1 Ha2] [Hb1 Hb2]. split.
  - rewrite map2_length. lia.
  - intros r Hr. apply in_map2 in Hr. destruct Hr as (x & y & Hx & Hy & ->).
    rewrite map2_length. rewrite (Ha2 _ Hx), (Hb2 _ Hy). lia.
Qed.

Lemma mg_map2 g a b T P i k : g false false = false -> rect a T P -> rect b T P ->
  mg (map2 (map2 g) a b) i k = g (mg a i k) (mg b i k).
Proof.
  intros Hg [Ha1 Ha2] [Hb1 Hb2]. unfold mg.
  destruct (Nat.lt_ge_cases i T) as [Hi|Hi].
  - rewrite (map2_nth (map2 g) [] [] []) by lia.
    assert (La : length (nth i a []) = P) by (apply Ha2, nth_In; lia).
    assert (Lb : length (nth i b []) = P) by (apply Hb2, nth_In; lia).
    destruct (Nat.lt_ge_cases k P) as [Hk|Hk].
    + apply map2_nth; lia.
    + rewrite !nth_overflow; auto; try lia. rewrite map2_length. lia.
  - rewrite (nth_overflow (map2 _ _ _)) by (rewrite map2_length; lia).
    rewrite (nth_overflow a), (nth_overflow b) by lia. rewrite !nth_nil_bool. auto.
Qed.

Lemma zip3_length : forall a b c, length (zip3 a b c) = Nat.min (length a) (Nat.min (length b) (length c)).
Proof. induction a as [|x a IH]; intros [|y b] [|z c]; cbn; auto. Qed.

Lemma zip3_nth : forall a b c k, (k < length a)%nat -> (k < length b)%nat -> (k < length c)%nat ->
  nth k (zip3 a b c) dcell = (nth k a false, nth k b false, nth k c false).
Proof.
  induction a as [|x a IH]; intros [|y b] [|z c] k Ha Hb Hc; cbn in *; try lia.
  destruct k; [reflexivity|]. apply IH; lia.
Qed.

Lemma mkcol_length f o : forall n i, length (mkcol f o i n) = n.
Proof. induction n; intros; cbn; auto. Qed.

Lemma mkcol_nth f o : forall n i j, (j < n)%nat ->
  nth j (mkcol f o i n) dcell = (f (i + Z.of_nat j), o (i + Z.of_nat j), o (i + Z.of_nat j - 1)).
Proof.
  induction n as [|n IH]; intros i j Hj; [lia|].
  destruct j; cbn [mkcol nth].
  - replace (i + Z.of_nat 0) with i by lia. reflexivity.
  - rewrite IH by lia. replace (i + 1 + Z.of_nat j) with (i + Z.of_nat (S j)) by lia. reflexivity.
Qed.

(* Z-indexed access, silent outside the matrix *)
Definition mget (m : list (list bool)) (i p : Z) : bool :=
  if (i <? 0) || (p <? 0) then false else mg m (Z.to_nat i) (Z.to_nat p).

Definition oget (o : option (list (list bool))) (i p : Z) : bool :=
  match o with Some m => mget m i p | None => false end.

(* effective activity of pitch p: (frames OR onset predictions) AND NOT offset predictions *)
Definition eff (F : list (list bool)) (On Off : option (list (list bool))) (p i : Z) : bool :=
  (mget F i p || oget On i p) && negb (oget Off i p).
(* onset prediction of pitch p; without predictions every frame may start a note *)
Definition onf (On : option (list (list bool))) (p i : Z) : bool :=
  match On with Some m => mget m i p | None => true end.

Definition orect (o : option (list (list bool))) T P : Prop :=
  match o with Some m => rect m T P | None => True end.

Lemma mget_nat m (i k : nat) : mget m (Z.of_nat i) (Z.of_nat k) = mg m i k.
Proof.
  unfold mget. destruct (Z.of_nat i <? 0) eqn:E1; [apply Z.ltb_lt in E1; lia|].
  destruct (Z.of_nat k <? 0) eqn:E2; [apply Z.ltb_lt in E2; lia|]. cbn. rewrite !Nat2Z.id. reflexivity.
Qed.

Lemma mg_const_rows (rows : list (list bool)) w i k : mg (map (fun _ => zrow w) rows) i k = false.
Proof.
  unfold mg. destruct (Nat.lt_ge_cases i (length rows)) as [H|H].
  - rewrite (nth_indep _ [] (zrow w)) by (rewrite map_length; assumption).
    rewrite (map_nth (fun _ => zrow w) rows []). apply nth_zrow.
  - rewrite (nth_overflow (map (fun _ => zrow w) rows)) by (rewrite map_length; assumption). apply nth_nil_bool.
Qed.

Lemma merged_col F On Off T P k : (0 < T)%nat -> (k < P)%nat ->
  rect F T P -> orect On T P -> orect Off T P ->
  let '(has_on, cells) := merged F On Off in
  has_on = (match On with Some _ => true | None => false end) /\
  length cells = S T /\ (forall r, In r cells -> length r = P) /\
  colp k cells = mkcol (eff F On Off (Z.of_nat k)) (fun i => oget On i (Z.of_nat k)) 0 (S T).
Proof.
  intros HT Hk HF HOn HOff.
  pose proof (rect_width _ _ _ HF HT) as Hw.
  pose proof (rect_app_silent _ _ _ HF HT) as HF0.
  unfold merged.
  set (f0 := app_silent F).
  (* onset matrix actually used *)
  set (hom := match On with Some o => (true, app_silent o) | None => (false, map (fun _ => zrow (width F)) f0) end).
  assert (Hhom : fst hom = (match On with Some _ => true | None => false end) /\
                 rect (snd hom) (S T) P /\
                 (forall i j, mg (snd hom) i j = oget On (Z.of_nat i) (Z.of_nat j)) /\
                 exists body, snd hom = body ++ [zrow P] /\ length body = T).
  { destruct On as [o|]; cbn [hom fst snd oget].
    - cbn in HOn. split; [reflexivity|]. split; [apply rect_app_silent; assumption|].
      split; [intros; rewrite mg_app_silent, mget_nat; reflexivity|].
      exists o. unfold app_silent. rewrite (rect_width _ _ _ HOn HT). split; [reflexivity|apply HOn].
    - split; [reflexivity|]. rewrite Hw. split; [|split].
      + split; [rewrite map_length; apply HF0|].
        intros r Hr. apply in_map_iff in Hr. destruct Hr as (x & <- & _). apply repeat_length.
      + intros. apply mg_const_rows.
      + exists (map (fun _ => zrow P) F). unfold f0, app_silent. rewrite map_app. cbn [map].
        split; [reflexivity|]. rewrite map_length. apply HF. }
  destruct hom as [has_on om]. cbn [fst snd] in Hhom.
  destruct Hhom as (Hhas & Hom & Hmg & body & Hbody & Hlb).
  set (f1 := if has_on then map2 (map2 orb) f0 om else f0).
  assert (Hf1 : rect f1 (S T) P /\ forall i j, mg f1 i j = mg F i j || oget On (Z.of_nat i) (Z.of_nat j)).
  { unfold f1. destruct has_on.
    - split; [apply rect_map2; assumption|]. intros.
      rewrite (mg_map2 orb f0 om (S T) P) by (auto). unfold f0. rewrite mg_app_silent, Hmg. reflexivity.
    - split; [assumption|]. intros. unfold f0. rewrite mg_app_silent.
      destruct On; [discriminate|]. cbn. rewrite orb_false_r. reflexivity. }
  destruct Hf1 as [Hf1r Hf1].
  set (f2 := match Off with Some off => map2 (map2 (fun a b => a && negb b)) f1 (app_silent off) | None => f1 end).
  assert (Hf2 : rect f2 (S T) P /\
                forall i j, mg f2 i j = (mg F i j || oget On (Z.of_nat i) (Z.of_nat j)) && negb (oget Off (Z.of_nat i) (Z.of_nat j))).
  { unfold f2. destruct Off as [off|]; cbn [oget].
    - cbn in HOff. split; [apply rect_map2; [assumption|apply rect_app_silent; assumption]|]. intros.
      rewrite (mg_map2 (fun a b => a && negb b) f1 (app_silent off) (S T) P); auto.
      + rewrite mg_app_silent, Hf1, mget_nat. reflexivity.
      + apply rect_app_silent; assumption.
    - split; [assumption|]. intros. rewrite Hf1. cbn. rewrite andb_true_r. reflexivity. }
  destruct Hf2 as [Hf2r Hf2].
  set (prev := last om (zrow (width F)) :: removelast om).
  assert (Hprev : prev = zrow P :: body).
  { unfold prev. rewrite Hbody. rewrite last_last, removelast_last. reflexivity. }
  assert (Hlom : length om = S T) by apply Hom.
  assert (Hlprev : length prev = S T) by (rewrite Hprev; cbn; lia).
  assert (Hlf2 : length f2 = S T) by apply Hf2r.
  assert (Hlcomb : length (combine om prev) = S T) by (rewrite combine_length; lia).
  set (cells := map2 (fun fr op => zip3 fr (fst op) (snd op)) f2 (combine om prev)).
  assert (Hprevrows : forall i, (i < S T)%nat -> length (nth i prev []) = P).
  { intros i Hi. rewrite Hprev. destruct i; cbn [nth]; [apply repeat_length|].
    apply Hom. rewrite Hbody. apply in_or_app. left. apply nth_In. lia. }
  assert (Hcell : forall i, (i < S T)%nat ->
            nth i cells [] = zip3 (nth i f2 []) (nth i om []) (nth i prev [])).
  { intros i Hi. unfold cells.
    rewrite (map2_nth _ [] ([], []) []) by lia.
    rewrite (combine_nth om prev i [] []) by lia. reflexivity. }
  split; [assumption|]. split; [unfold cells; rewrite map2_length; lia|]. split.
  - intros r Hr. destruct (In_nth _ _ [] Hr) as (i & Hi & <-).
    unfold cells in Hi. rewrite map2_length in Hi.
    rewrite Hcell by lia. rewrite zip3_length.
    rewrite (proj2 Hf2r (nth i f2 [])) by (apply nth_In; lia).
    rewrite (proj2 Hom (nth i om [])) by (apply nth_In; lia).
    rewrite Hprevrows by lia. lia.
  - apply (nth_ext _ _ dcell dcell).
    + unfold colp. rewrite map_length, mkcol_length. unfold cells. rewrite map2_length. lia.
    + intros i Hi. unfold colp in Hi |- *. rewrite map_length in Hi.
      unfold cells in Hi. rewrite map2_length in Hi.
      assert (HiT : (i < S T)%nat) by lia.
      rewrite (nth_indep _ dcell (nth k [] dcell)) by (rewrite map_length; unfold cells; rewrite map2_length; lia).
      rewrite (map_nth (fun r => nth k r dcell) cells []).
      rewrite Hcell by assumption.
      rewrite zip3_nth.
      2:{ rewrite (proj2 Hf2r (nth i f2 [])) by (apply nth_In; lia). assumption. }
      2:{ rewrite (proj2 Hom (nth i om [])) by (apply nth_In; lia). assumption. }
      2:{ rewrite Hprevrows by lia. assumption. }
      rewrite mkcol_nth by assumption. cbn [Z.add].
      fold (mg f2 i k). fold (mg om i k). fold (mg prev i k).
      assert (Hp : mg prev i k = oget On (Z.of_nat i - 1) (Z.of_nat k)).
      { rewrite Hprev. unfold mg. destruct i as [|i]; cbn [nth].
        - rewrite nth_zrow. destruct On; cbn [oget]; [|reflexivity]. unfold mget. cbn. reflexivity.
        - replace (Z.of_nat (S i) - 1) with (Z.of_nat i) by lia.
          rewrite <- Hmg. unfold mg. rewrite Hbody. rewrite app_nth1 by lia. reflexivity. }
      rewrite Hf2, Hmg, Hp. unfold eff. rewrite mget_nat. reflexivity.
Qed.

Lemma mget_range m T P i p : rect m T P -> mget m i p = true -> 0 <= i < Z.of_nat T /\ 0 <= p < Z.of_nat P.
Proof.
  intros [Hl Hr] H. unfold mget in H.
  destruct (i <? 0) eqn:Ei; [discriminate|]. destruct (p <? 0) eqn:Ep; [discriminate|].
  apply Z.ltb_ge in Ei. apply Z.ltb_ge in Ep. cbn in H. unfold mg in H.
  destruct (Nat.lt_ge_cases (Z.to_nat i) T) as [Hi|Hi].
  - destruct (Nat.lt_ge_cases (Z.to_nat p) P) as [Hp|Hp]; [lia|].
    rewrite (nth_overflow (nth _ m [])) in H; [discriminate|].
    rewrite (Hr (nth (Z.to_nat i) m [])); [assumption|]. apply nth_In. lia.
  - rewrite (nth_overflow m) in H by lia. rewrite nth_nil_bool in H. discriminate.
Qed.

Lemma eff_range F On Off T P p i : rect F T P -> orect On T P ->
  eff F On Off p i = true -> 0 <= i < Z.of_nat T.
Proof.
  intros HF HOn H. unfold eff in H. apply andb_prop in H. destruct H as [H _].
  apply orb_prop in H. destruct H as [H|H].
  - apply (mget_range _ _ _ _ _ HF) in H. lia.
  - destruct On as [o|]; [|discriminate]. cbn in H, HOn. apply (mget_range _ _ _ _ _ HOn) in H. lia.
Qed.

Lemma decode_spans_unfold F On Off :
  decode_spans F On Off =
  frames_loop (fst (merged F On Off)) 0 (snd (merged F On Off)) (repeat None (width F)).
Proof. unfold decode_spans. destruct (merged F On Off). reflexivity. Qed.

(** [runs_decoded]: for every pitch, the spans handed to end_pitch are exactly
    the declarative note spans, each emitted once. *)
Theorem runs_decoded_proof F On Off T P : (0 < T)%nat -> rect F T P -> orect On T P -> orect Off T P ->
  forall p, 0 <= p < Z.of_nat P ->
  NoDup (pitch_spans p (decode_spans F On Off)) /\
  forall a b, In (p, a, b) (decode_spans F On Off) <-> note_span (eff F On Off p) (onf On p) a b.
Proof.
  intros HT HF HOn HOff p Hp.
  set (k := Z.to_nat p). assert (Hk : (k < P)%nat) by lia.
  assert (Epk : p = Z.of_nat k) by lia.
  pose proof (merged_col F On Off T P k HT Hk HF HOn HOff) as Hm.
  pose proof (rect_width _ _ _ HF HT) as Hw.
  rewrite decode_spans_unfold.
  destruct (merged F On Off) as [has_on cells]. cbn [fst snd].
  destruct Hm as (Hhas & Hlc & Hrows & Hcol).
  rewrite Hw.
  assert (Hrows' : forall r, In r cells -> length r = length (repeat (@None Z) P)).
  { intros r Hr. rewrite repeat_length. auto. }
  destruct (frames_loop_proj has_on cells 0 _ Hrows') as [Hproj _].
  specialize (Hproj k). rewrite repeat_length in Hproj. specialize (Hproj Hk).
  rewrite <- Epk in Hproj.
  assert (Hnone : nth k (repeat (@None Z) P) None = None).
  { destruct (nth_in_or_default k (repeat (@None Z) P) None) as [H|H]; [|assumption].
    apply repeat_spec in H. assumption. }
  rewrite Hnone, Hcol in Hproj. rewrite <- Epk in Hproj.
  split; [rewrite Hproj; apply dec1_NoDup|].
  intros a b. rewrite <- in_pitch_spans. rewrite Hproj.
  set (f := eff F On Off p).
  assert (Hdec : dec1 has_on 0 (mkcol f (fun i => oget On i p) 0 (S T)) None =
                 dec1 true 0 (mkcol f (onf On p) 0 (S T)) None).
  { destruct On as [o|]; subst has_on; [reflexivity|]. apply dec1_no_onsets. }
  rewrite Hdec.
  assert (Hinv : inv f (onf On p) 0 None).
  { unfold inv. destruct (f (0 - 1)) eqn:E; [|reflexivity].
    apply (eff_range _ _ _ _ _ _ _ HF HOn) in E. lia. }
  rewrite (dec1_spec f (onf On p) (S T) 0 None Hinv a b).
  unfold note_span. split.
  - intros (Hb & Hs & [[Habs _]|(Ha & Hsa & Hall)]); [discriminate|].
    split; [lia|]. split; [assumption|]. split.
    + intros j Hj. specialize (Hall j Hj). unfold nstop in Hall.
      destruct (f j); [|discriminate]. destruct (nstart f (onf On p) j); [discriminate|]. split; reflexivity.
    + unfold nstop in Hs. destruct (f b); [right|left; reflexivity].
      destruct (nstart f (onf On p) b); [reflexivity|discriminate].
  - intros (Hab & Hsa & Hall & Hend).
    assert (Hfa : f a = true).
    { unfold nstart in Hsa. destruct (f a); [reflexivity|discriminate]. }
    apply (eff_range _ _ _ _ _ _ _ HF HOn) in Hfa.
    assert (HbT : b <= Z.of_nat T).
    { destruct (Z_le_gt_dec b (Z.of_nat T)); [assumption|].
      destruct (Hall (Z.of_nat T)) as [Hf _]; [lia|].
      apply (eff_range _ _ _ _ _ _ _ HF HOn) in Hf. lia. }
    split; [lia|]. split.
    + unfold nstop. destruct Hend as [-> | ->]; [reflexivity|apply orb_true_r].
    + right. split; [lia|]. split; [assumption|].
      intros j Hj. destruct (Hall j Hj) as [H1 H2]. unfold nstop. rewrite H1, H2. reflexivity.
Qed.

Lemma decode_spans_pitch_range F On Off T P : (0 < T)%nat -> rect F T P -> orect On T P -> orect Off T P ->
  forall p a b, In (p, a, b) (decode_spans F On Off) -> 0 <= p < Z.of_nat P.
Proof.
  intros HT HF HOn HOff p a b Hin.
  assert (Hk : (0 < P)%nat \/ P = 0%nat) by lia.
  pose proof (rect_width _ _ _ HF HT) as Hw.
  rewrite decode_spans_unfold in Hin.
  destruct Hk as [Hk|Hk].
  - pose proof (merged_col F On Off T P 0 HT Hk HF HOn HOff) as Hm.
    destruct (merged F On Off) as [has_on cells]. cbn [fst snd] in Hin.
    destruct Hm as (_ & _ & Hrows & _).
    assert (Hrows' : forall r, In r cells -> length r = length (repeat (@None Z) (width F))).
    { intros r Hr. rewrite repeat_length, Hw. auto. }
    destruct (frames_loop_proj has_on cells 0 _ Hrows') as [_ Hrange].
    apply Hrange in Hin. rewrite repeat_length, Hw in Hin. exact Hin.
  - exfalso. rewrite Hw, Hk in Hin. cbn [repeat] in Hin.
    clear -Hin. revert Hin. generalize 0 at 1. generalize (snd (merged F On Off)).
    induction l as [|r rs IH]; intros i Hin; [exact Hin|].
    cbn [frames_loop] in Hin.
    assert (E : row_step (fst (merged F On Off)) i 0 r [] = ([], [])) by (destruct r as [|[[? ?] ?] ?]; reflexivity).
    rewrite E in Hin. cbn in Hin. eapply IH. exact Hin.
Qed.

(** Plain case (no predictions): the spans of a pitch are its maximal runs. *)
Definition maximal_run (f : Z -> bool) (a b : Z) : Prop :=
  a < b /\ f (a - 1) = false /\ (forall j, a <= j < b -> f j = true) /\ f b = false.

Lemma note_span_plain f a b : note_span f (fun _ => true) a b <-> maximal_run f a b.
Proof.
  unfold note_span, maximal_run, nstart. split.
  - intros (Hab & Hs & Hall & Hend).
    rewrite !andb_true_r in Hs. apply andb_prop in Hs. destruct Hs as [Hfa Hfp].
    split; [assumption|]. split; [destruct (f (a - 1)); [discriminate|reflexivity]|]. split.
    + intros j Hj. destruct (Z.eq_dec j a); [subst; assumption|]. apply Hall. lia.
    + destruct Hend as [H|H]; [assumption|].
      rewrite !andb_true_r in H. apply andb_prop in H. destruct H as [_ H].
      destruct (Z.eq_dec (b - 1) a) as [E|E].
      * rewrite E in H. rewrite Hfa in H. discriminate.
      * destruct (Hall (b - 1)) as [H1 _]; [lia|]. rewrite H1 in H. discriminate.
  - intros (Hab & Hp & Hall & Hend).
    split; [assumption|]. split; [rewrite Hall by lia; rewrite Hp; reflexivity|]. split.
    + intros j Hj. split; [apply Hall; lia|]. rewrite (Hall (j - 1)) by lia. rewrite (Hall j) by lia. reflexivity.
    + left. assumption.
Qed.
