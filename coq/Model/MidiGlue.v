(** Model/MidiGlue.v — note_seq/midi_io.py: note_sequence_to_pretty_midi (writer
    glue) and midi_to_note_sequence (reader glue), C03.

    Input: a [seq] (Base/NoteSeq.v) whose times are integers in units of
    1/(10^6 * resolution) s and whose tempo field [tp_qpm] carries the MIDI
    tempo value (microseconds per quarter), see Model/TempoMap.v.

    The model follows the code pass by pass:
      - resolution = ticks_per_quarter or STANDARD_PPQ
      - initial tempo = FIRST STORED tempo with time == 0, else 120 qpm
      - one empty Instrument(0) is created up front
      - time / key signatures copied in storage order (minor = key + 12)
      - tempo loop: every tempo that is not (by value) the initial one gets
        tick = time_to_tick(time) against the map BUILT SO FAR and is appended.
        [write true]  follows the repaired code (notes/C03-fix-1.diff: the loop
        iterates sorted(tempos, key=time));  [write false] is not provided for
        the unsorted loop because pretty_midi's table is then ill-defined.
      - events grouped by (instrument, program, is_drum); keys iterated sorted;
        instr_id > 0 -> new Instrument appended; otherwise the pre-created
        Instrument is reused.  [fix9 = false] is the code before
        notes/C03-fix-2.diff (EVERY instr_id <= 0 group overwrites the one
        pre-created Instrument), [fix9 = true] the repaired code (only the first
        such group reuses it, later ones get their own Instrument).
    Not modelled: drop_events_n_seconds_after_last_note (None), instrument
    names. *)
From Coq Require Import ZArith List Bool.
From NS Require Import Base.NoteSeq Gen.G03 Model.TempoMap.
Import ListNotations.
Local Open Scope Z_scope.

(** * keys *)
Definition key : Type := (Z * Z * bool)%type.
Definition k_id (k : key) : Z := fst (fst k).
Definition k_prog (k : key) : Z := snd (fst k).
Definition k_drum (k : key) : bool := snd k.

Definition key_eqb (a b : key) : bool :=
  (k_id a =? k_id b) && (k_prog a =? k_prog b) && Bool.eqb (k_drum a) (k_drum b).
(** Python tuple order, False < True *)
Definition key_ltb (a b : key) : bool :=
  if k_id a <? k_id b then true else if k_id b <? k_id a then false
  else if k_prog a <? k_prog b then true else if k_prog b <? k_prog a then false
  else negb (k_drum a) && k_drum b.

(** sorted(instrument_events.keys()): the dict holds each key once *)
Fixpoint kins (x : key) (l : list key) : list key :=
  match l with
  | [] => [x]
  | y :: r => if key_ltb x y then x :: l else y :: kins x r
  end.
Definition kadd (x : key) (acc : list key) : list key :=
  if existsb (key_eqb x) acc then acc else kins x acc.
Definition ksort (l : list key) : list key := fold_right kadd [] l.

Definition note_key (n : note) : key := (n_instr n, n_prog n, n_drum n).
Definition bend_key (b : bend) : key := (pb_instr b, pb_prog b, pb_drum b).
Definition cc_key (c : cc) : key := (cc_instr c, cc_prog c, cc_drum c).

Definition seq_keys (s : seq) : list key :=
  ksort (map note_key (s_notes s) ++ map bend_key (s_bends s) ++ map cc_key (s_ccs s)).

(** * tempos *)
Fixpoint tmins (x : tempo) (l : list tempo) : list tempo :=
  match l with
  | [] => [x]
  | y :: r => if tp_time x <=? tp_time y then x :: y :: r else y :: tmins x r
  end.
(** sorted(sequence.tempos, key=lambda t: t.time) — stable *)
Definition sort_tempos (l : list tempo) : list tempo := fold_right tmins [] l.

Definition initial_tempo (ts : list tempo) : option tempo :=
  find (fun t => tp_time t =? 0) ts.

Definition is_initial (init : option tempo) (t : tempo) : bool :=
  match init with
  | Some i => (tp_time t =? tp_time i) && (tp_qpm t =? tp_qpm i)    (* protobuf == is by value *)
  | None => false
  end.

Definition tempo_step (u0 : Z) (init : option tempo) (l : list (Z * Z)) (t : tempo) : list (Z * Z) :=
  if is_initial init t then l else (ttt u0 l (tp_time t), tp_qpm t) :: l.

Definition tempo_loop (u0 : Z) (init : option tempo) (ts : list tempo) : list (Z * Z) :=
  fold_left (tempo_step u0 init) ts [].

Definition write_u0 (s : seq) : Z :=
  match initial_tempo (s_tempos s) with Some t => tp_qpm t | None => DEFAULT_US_PER_QUARTER end.

Definition write_scales (s : seq) : list (Z * Z) :=
  tempo_loop (write_u0 s) (initial_tempo (s_tempos s)) (sort_tempos (s_tempos s)).

(** * instruments *)
Definition build (s : seq) (k : key) : pinstr :=
  mkPinstr (k_prog k) (k_drum k)
    (map (fun n => mkPnote (n_vel n) (n_pitch n) (n_start n) (n_end n))
         (filter (fun n => key_eqb (note_key n) k) (s_notes s)))
    (map (fun b => mkPbend (pb_bend b) (pb_time b))
         (filter (fun b => key_eqb (bend_key b) k) (s_bends s)))
    (map (fun c => mkPcc (cc_num c) (cc_val c) (cc_time c))
         (filter (fun c => key_eqb (cc_key c) k) (s_ccs s))).

Definition empty_instr : pinstr := mkPinstr 0 false [] [] [].

(** state of the loop: the Instrument at index 0, whether it has been taken,
    and the Instruments appended after it (latest first) *)
Definition assign_step (fix9 : bool) (s : seq) (st : pinstr * bool * list pinstr) (k : key)
  : pinstr * bool * list pinstr :=
  let '(first, used, app) := st in
  if (0 <? k_id k) || (fix9 && used) then (first, used, build s k :: app)
  else (build s k, true, app).

Definition write_instrs (fix9 : bool) (s : seq) : list pinstr :=
  let '(first, _, app) := fold_left (assign_step fix9 s) (seq_keys s) (empty_instr, false, []) in
  first :: rev app.

Definition write_res (s : seq) : Z := if s_tpq s =? 0 then STANDARD_PPQ else s_tpq s.

Definition write_gen (fix9 : bool) (s : seq) : pm :=
  mkPm (write_res s) (write_u0 s) (write_scales s)
       (map (fun t => mkPtsig (ts_num t) (ts_den t) (ts_time t)) (s_tsigs s))
       (map (fun k => mkPksig (if ks_mode k =? KEY_MODE_MINOR then ks_key k + MAJOR_TO_MINOR_OFFSET
                               else ks_key k) (ks_time k)) (s_ksigs s))
       (write_instrs fix9 s).

Definition write : seq -> pm := write_gen true.

(** * reader *)
Fixpoint read_notes (i : Z) (l : list pinstr) : list note :=
  match l with
  | [] => []
  | ins :: r =>
      map (fun n => mkNote (pn_pitch n) (pn_vel n) (pn_start n) (pn_end n) i (pi_prog ins) (pi_drum ins) 0 0 0)
          (pi_notes ins) ++ read_notes (i + 1) r
  end.
Fixpoint read_bends (i : Z) (l : list pinstr) : list bend :=
  match l with
  | [] => []
  | ins :: r =>
      map (fun b => mkBend (pbd_time b) (pbd_pitch b) i (pi_prog ins) (pi_drum ins)) (pi_bends ins)
      ++ read_bends (i + 1) r
  end.
Fixpoint read_ccs (i : Z) (l : list pinstr) : list cc :=
  match l with
  | [] => []
  | ins :: r =>
      map (fun c => mkCc (pc_time c) 0 (pc_num c) (pc_val c) i (pi_prog ins) (pi_drum ins)) (pi_ccs ins)
      ++ read_ccs (i + 1) r
  end.

(** [if not sequence.total_time or note.end > sequence.total_time] over all notes *)
Definition read_total (ns : list note) : Z :=
  fold_left (fun tot n => if (tot =? 0) || (tot <? n_end n) then n_end n else tot) ns 0.

(** key_number % 12, key_number // 12 -> MAJOR / MINOR; anything else is a
    MIDIConversionError (None) *)
Definition read_ksig (k : pksig) : option ksig :=
  let m := pks_key k / 12 in
  if m =? 0 then Some (mkKsig (pks_time k) (pks_key k mod 12) KEY_MODE_MAJOR)
  else if m =? 1 then Some (mkKsig (pks_time k) (pks_key k mod 12) KEY_MODE_MINOR)
  else None.

Fixpoint read_ksigs (l : list pksig) : option (list ksig) :=
  match l with
  | [] => Some []
  | k :: r => match read_ksig k, read_ksigs r with
              | Some a, Some b => Some (a :: b)
              | _, _ => None
              end
  end.

(** get_tempo_changes: (tick_to_time(tick), tempo) per tick scale, oldest first *)
Definition read_tempos (u0 : Z) (l : list (Z * Z)) : list tempo :=
  mkTempo 0 u0 :: map (fun e => mkTempo (tt u0 l (fst e)) (snd e)) (rev l).

Definition read (p : pm) : option seq :=
  match read_ksigs (pm_ksigs p) with
  | None => None
  | Some ks =>
      let ns := read_notes 0 (pm_instrs p) in
      Some (mkSeq ns (read_tempos (pm_u0 p) (pm_scales p))
                  (map (fun t => mkTsig (pts_time t) (pts_num t) (pts_den t)) (pm_tsigs p))
                  ks [] (read_ccs 0 (pm_instrs p)) (read_bends 0 (pm_instrs p)) []
                  (read_total ns) 0 0 0 (0, 0) (pm_res p) 0)
  end.

Definition roundtrip (wr : Z -> Z) (s : seq) : option seq := read (pm_roundtrip wr (write s)).
