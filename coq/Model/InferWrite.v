(** Model/InferWrite.v — how the inferred state paths are written back into
    the NoteSequence (chord_inference.infer_chords_for_sequence, the loop over
    [key_chords]; melody_inference.infer_melody_for_sequence, the loop over
    [melody_events]), together with the frame grids those loops walk over.
    Times are exact integer ticks, chord figures / keys are integer ids
    (index into chord_inference._CHORDS / pitch class). *)
From Coq Require Import ZArith List Bool.
From NS Require Import Gen.G19.
Import ListNotations.
Local Open Scope Z_scope.

(** * Python [sorted] on times, and the "keep strictly greater than the predecessor" pass *)
Fixpoint insert (x : Z) (l : list Z) : list Z :=
  match l with
  | [] => [x]
  | y :: r => if x <=? y then x :: l else y :: insert x r
  end.
Fixpoint isort (l : list Z) : list Z :=
  match l with [] => [] | x :: r => insert x (isort r) end.

(* [sorted_beats[i] for i in range(n) if i == 0 or sorted_beats[i].time > sorted_beats[i-1].time]
   — the comparison is with the predecessor in the sorted list, kept or not. *)
Fixpoint uniq_from (prev : Z) (l : list Z) : list Z :=
  match l with
  | [] => []
  | x :: r => if prev <? x then x :: uniq_from x r else uniq_from x r
  end.
Definition uniq (l : list Z) : list Z :=
  match l with [] => [] | x :: r => x :: uniq_from x r end.

(** * Chord frames *)
(* quantized sequence: frame k starts at k * seconds_per_chord *)
Definition frame_times_fixed (spc : Z) (n : nat) : list Z :=
  map (fun k => Z.of_nat k * spc) (seq 0 n).

(* beat-annotated sequence: frame 0 starts at 0, frame k at the k-th distinct
   beat time strictly inside (0, total_time) *)
Definition interior_beats (beats : list Z) (total : Z) : list Z :=
  uniq (isort (filter (fun t => (0 <? t) && (t <? total)) beats)).
Definition frame_times_beats (beats : list Z) (total : Z) : list Z :=
  0 :: interior_beats beats total.

(** * Chord annotations: one annotation whenever the figure differs from the current one *)
Fixpoint write_chords (cur : option Z) (l : list (Z * Z)) : list (Z * Z) :=
  match l with
  | [] => []
  | (t, f) :: r =>
      match cur with
      | Some c => if c =? f then write_chords cur r else (t, f) :: write_chords (Some f) r
      | None => (t, f) :: write_chords (Some f) r
      end
  end.

(* what infer_chords_for_sequence adds for a path of figures (or of keys, with
   add_key_signatures=True: the same loop shape on [_PITCH_CLASS_NAMES[key]]) *)
Definition chords_written (times : list Z) (figs : list Z) : list (Z * Z) :=
  write_chords None (combine times figs).

(** * Melody frames: event times separating frames *)
(* sorted(set(onsets + offsets) - {0.0, total_time}) *)
Definition event_times (starts ends : list Z) (total : Z) : list Z :=
  uniq (isort (filter (fun t => negb (t =? 0) && negb (t =? total)) (starts ++ ends))).

(** * Melody frames: melody_inference.sequence_note_frames *)
Record fnote := mkF { f_pitch : Z; f_start : Z; f_end : Z; f_drum : bool; f_program : Z }.

(* the notes the frame summaries are built from: pitched, non-drum, and (since
   notes/C19-fix-1) starting before the end of the sequence *)
Definition melodic (total : Z) (n : fnote) : bool :=
  negb (f_drum n) && negb (existsb (Z.eqb (f_program n)) UNPITCHED_PROGRAMS) && (f_start n <? total).
Definition frame_notes (notes : list fnote) (total : Z) : list fnote := filter (melodic total) notes.

(* bisect on a sorted list = number of elements <= x (right) / < x (left) *)
Definition bisect_right (l : list Z) (x : Z) : nat := length (filter (fun t => t <=? x) l).
Definition bisect_left (l : list Z) (x : Z) : nat := length (filter (fun t => t <? x) l).

Definition note_event_times (ns : list fnote) (total : Z) : list Z :=
  event_times (map f_start ns) (map f_end ns) total.
Definition note_pitches (ns : list fnote) : list Z := uniq (isort (map f_pitch ns)).  (* sorted(set(...)) *)

(* has_onsets[f, pitch_map[p]] / has_notes[f, pitch_map[p]] *)
Definition has_onset (ns : list fnote) (et : list Z) (f : nat) (p : Z) : bool :=
  existsb (fun n => (f_pitch n =? p) && Nat.eqb (bisect_right et (f_start n)) f) ns.
Definition has_note (ns : list fnote) (et : list Z) (f : nat) (p : Z) : bool :=
  existsb (fun n => (f_pitch n =? p) && Nat.leb (bisect_right et (f_start n)) f
                    && Nat.leb f (bisect_left et (f_end n))) ns.

(** * Melody notes *)
Inductive mev := Rest | Onset (p : Z) | Sustain (p : Z).

(* _melody_viterbi.index_to_event *)
Definition index_to_event (pitches : list Z) (i : nat) : mev :=
  let np := length pitches in
  match i with
  | O => Rest
  | Datatypes.S k => if Nat.leb i np then Onset (nth k pitches 0)
                     else Sustain (nth (k - np) pitches 0)
  end.

Record mnote := mkM { m_start : Z; m_end : Z; m_pitch : Z }.

(* state: the sounding note (pitch, start) if any.  None result = the code's
   [assert pitch == note_pitch] fails. *)
Fixpoint write_melody (cur : option (Z * Z)) (l : list (mev * Z)) (total : Z) : option (list mnote) :=
  match l with
  | [] => match cur with
          | Some (p, s) => Some [mkM s total p]
          | None => Some []
          end
  | (Rest, t) :: r =>
      match cur with
      | Some (p, s) => option_map (cons (mkM s t p)) (write_melody None r total)
      | None => write_melody None r total
      end
  | (Onset q, t) :: r =>
      match cur with
      | Some (p, s) => option_map (cons (mkM s t p)) (write_melody (Some (q, t)) r total)
      | None => write_melody (Some (q, t)) r total
      end
  | (Sustain q, t) :: r =>
      match cur with
      | Some (p, s) => if p =? q then write_melody cur r total else None
      | None => None
      end
  end.

(* for event, time in zip(melody_events, [0.0] + event_times) *)
Definition melody_written (evs : list mev) (etimes : list Z) (total : Z) : option (list mnote) :=
  write_melody None (combine evs (0 :: etimes)) total.

(* infer_melody_for_sequence after the Viterbi call: nothing is written when no
   pitched note remains ([if not pitches: return]) *)
Definition infer_melody_write (evs : list mev) (notes : list fnote) (total : Z) : option (list mnote) :=
  let ns := frame_notes notes total in
  match ns with
  | [] => Some []
  | _ => melody_written evs (note_event_times ns total) total
  end.
