(** Model/InferWrite.v — how the inferred state paths are written back into
    the NoteSequence (chord_inference.infer_chords_for_sequence, the loop over
    [key_chords]; melody_inference.infer_melody_for_sequence, the loop over
    [melody_events]).  Times and figures are integers (ticks / figure ids). *)
From Coq Require Import ZArith List Bool.
Import ListNotations.
Local Open Scope Z_scope.

(** * Chord annotations: one annotation whenever the figure differs from the current one *)
Fixpoint write_chords (cur : option Z) (l : list (Z * Z)) : list (Z * Z) :=
  match l with
  | [] => []
  | (t, f) :: r =>
      match cur with
      | Some c => if c =? f then write_chords cur r else (t, f) :: write_chords (Some f) r
      | None => (t, f) :: write_chords (Some f) r
      end
  end.

(** * Melody notes *)
Inductive mev := Rest | Onset (p : Z) | Sustain (p : Z).

Record mnote := mkM { m_start : Z; m_end : Z; m_pitch : Z }.

(* state: the sounding note (pitch, start) if any.  None result = the code's
   [assert pitch == note_pitch] fails. *)
Fixpoint write_melody (cur : option (Z * Z)) (l : list (mev * Z)) (total : Z) : option (list mnote) :=
  match l with
  | [] => match cur with
          | Some (p, s) => Some [mkM s total p]
          | None => Some []
          end
  | (Rest, t) :: r =>
      match cur with
      | Some (p, s) => option_map (cons (mkM s t p)) (write_melody None r total)
      | None => write_melody None r total
      end
  | (Onset q, t) :: r =>
      match cur with
      | Some (p, s) => option_map (cons (mkM s t p)) (write_melody (Some (q, t)) r total)
      | None => write_melody (Some (q, t)) r total
      end
  | (Sustain q, t) :: r =>
      match cur with
      | Some (p, s) => if p =? q then write_melody cur r total else None
      | None => None
      end
  end.
