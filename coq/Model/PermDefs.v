(** Model/PermDefs.v — vocabulary of property C12 (results do not depend on the
    storage order of notes and events).  Definitions only, no proofs.

    [seq_perm a b]       b is a with every repeated field stored in another order:
                         each of the eight repeated fields is a [Permutation], every
                         scalar field is equal.
    [seq_perm] is also the relation in which RESULTS are compared ("the same, as a
    multiset"); for a list of pieces the comparison is piecewise ([Forall2 seq_perm]).

    The quantifier's distinctness hypotheses ("no two same-pitch notes overlap or
    coincide, no two state events of one kind share a time") are stated per theorem
    with [distinct_on key l] = no two elements of [l] have the same [key]; every
    theorem names exactly the part of the hypothesis it needs, [seq_distinct] is the
    whole of it. *)
From Coq Require Import ZArith List Bool Permutation.
From NS Require Import Base.NoteSeq.
Import ListNotations.
Local Open Scope Z_scope.

Record seq_perm (a b : seq) : Prop := mkSeqPerm {
  sp_notes : Permutation (s_notes a) (s_notes b);
  sp_tempos : Permutation (s_tempos a) (s_tempos b);
  sp_tsigs : Permutation (s_tsigs a) (s_tsigs b);
  sp_ksigs : Permutation (s_ksigs a) (s_ksigs b);
  sp_texts : Permutation (s_texts a) (s_texts b);
  sp_ccs : Permutation (s_ccs a) (s_ccs b);
  sp_bends : Permutation (s_bends a) (s_bends b);
  sp_sects : Permutation (s_sects a) (s_sects b);
  sp_total : s_total a = s_total b;
  sp_qsteps : s_qsteps a = s_qsteps b;
  sp_spq : s_spq a = s_spq b;
  sp_sps : s_sps a = s_sps b;
  sp_sub : s_sub a = s_sub b;
  sp_tpq : s_tpq a = s_tpq b;
  sp_rest : s_rest a = s_rest b }.

(** no two elements of [l] share a key *)
Definition distinct_on {A B} (key : A -> B) (l : list A) : Prop := NoDup (map key l).

(** results of partial operations: both fail the same way, or both succeed with related values *)
Definition opt_rel {A} (R : A -> A -> Prop) (a b : option A) : Prop :=
  match a, b with
  | Some x, Some y => R x y
  | None, None => True
  | _, _ => False
  end.

(** two notes of one pitch overlap in time or start together *)
Definition notes_clash (a b : note) : Prop :=
  n_pitch a = n_pitch b /\
  ((n_start a < n_end b /\ n_start b < n_end a) \/ n_start a = n_start b).

(** the same on the quantized grid (what the event extractors see) *)
Definition qnotes_clash (a b : note) : Prop :=
  n_pitch a = n_pitch b /\
  ((n_qstart a < n_qend b /\ n_qstart b < n_qend a) \/ n_qstart a = n_qstart b).

(** control-change "kind": (instrument, control number) *)
Definition cc_kind_time (c : cc) : Z * Z * Z := (cc_instr c, cc_num c, cc_time c).
Definition bend_kind_time (b : bend) : Z * Z := (pb_instr b, pb_time b).
Definition text_kind_time (t : text) : Z * Z := (tx_type t, tx_time t).

(** The whole hypothesis of the property's quantifier, on an unquantized sequence. *)
Definition seq_distinct (s : seq) : Prop :=
  ForallOrdPairs (fun a b => ~ notes_clash a b) (s_notes s) /\
  distinct_on tp_time (s_tempos s) /\ distinct_on ts_time (s_tsigs s) /\
  distinct_on ks_time (s_ksigs s) /\ distinct_on text_kind_time (s_texts s) /\
  distinct_on cc_kind_time (s_ccs s) /\ distinct_on bend_kind_time (s_bends s).

(** ... and on a quantized one (steps instead of seconds). *)
Definition seq_qdistinct (s : seq) : Prop :=
  ForallOrdPairs (fun a b => ~ qnotes_clash a b) (s_notes s) /\
  distinct_on (fun t => (tx_type t, tx_qstep t)) (s_texts s).
