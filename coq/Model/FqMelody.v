(** Model/FqMelody.v — melodies_lib.Melody.from_quantized_sequence (C07, reused by C06).

    INTERFACE
    - events are [Z]: a MIDI pitch, [MELODY_NOTE_OFF] or [MELODY_NO_EVENT] (from Gen.G07).
    - [mel_params]: search_start_step, instrument, gap_bars, ignore_polyphonic_notes,
      pad_end, filter_drums (the keyword arguments of the Python method).
    - [mel_result]: the observable state of the Melody object after the call:
      [me_events], [me_start] (start_step), [me_end] (end_step), [me_spb] (steps_per_bar),
      [me_spq] (steps_per_quarter).
    - [mel_from_quantized p s : res mel_result]; errors: E_QSTATUS, E_NONINT, E_POLY, E_BADNOTE.
    - [mel_candidates], [mel_set_length], [mel_add_note], [mel_last_on_off], [mel_loop] are the passes of the code.

    The model follows the code AFTER notes/C07-fix-3.diff (F15): drum and zero-velocity
    notes are removed before the first bar is computed.  (In the unpatched code the first
    bar is taken from the first note of the instrument even if that note is then skipped.) *)
From Coq Require Import ZArith List Bool.
From NS Require Import Base.NoteSeq Gen.G07 Model.FqCommon.
Import ListNotations.
Local Open Scope Z_scope.

Record mel_params := mkMelParams {
  mp_search_start : Z; mp_instrument : Z; mp_gap_bars : Z;
  mp_ignore_poly : bool; mp_pad_end : bool; mp_filter_drums : bool }.

Record mel_result := mkMelResult {
  me_events : list Z; me_start : Z; me_end : Z; me_spb : Z; me_spq : Z }.

(** key=lambda note: (note.quantized_start_step, -note.pitch) *)
Definition mel_le (a b : note) : bool :=
  (n_qstart a <? n_qstart b) || ((n_qstart a =? n_qstart b) && (n_pitch b <=? n_pitch a)).

Definition mel_keep (p : mel_params) (n : note) : bool :=
  (n_instr n =? mp_instrument p) && (mp_search_start p <=? n_qstart n)
  && negb (mp_filter_drums p && n_drum n) && negb (n_vel n =? 0).

Definition mel_candidates (p : mel_params) (ns : list note) : list note :=
  isort mel_le (filter (mel_keep p) ns).

(** Melody.set_length (overrides SimpleEventSequence.set_length): when the melody is extended on
    the right, a note still sustained at the old end is ended — scanning back from the old last
    event, if a pitch is met before any NOTE_OFF, the first new event becomes NOTE_OFF. *)
Fixpoint mel_sustained (rev_evs : list Z) : bool :=
  match rev_evs with
  | [] => false
  | e :: r => if e =? MELODY_NOTE_OFF then false
              else if e =? MELODY_NO_EVENT then mel_sustained r else true
  end.

Definition mel_set_length (n : Z) (evs : list Z) : list Z :=
  if len evs <? n then
    if mel_sustained (rev evs) then evs ++ MELODY_NOTE_OFF :: zrepeat MELODY_NO_EVENT (n - len evs - 1)
    else evs ++ zrepeat MELODY_NO_EVENT (n - len evs)
  else zfirstn n evs.

(** Melody._add_note: set_length(end+1); events[start] = pitch; events[end] = NOTE_OFF;
    events[start+1 .. end-1] = NO_EVENT.  All of [start..end] is overwritten, so the result is
    the first [start] events of the re-sized list followed by the new note (start >= 0). *)
Definition mel_add_note (pitch s e : Z) (evs : list Z) : res (list Z) :=
  if e <=? s then Err E_BADNOTE
  else Ok (zfirstn s (mel_set_length (e + 1) evs)
           ++ pitch :: zrepeat MELODY_NO_EVENT (e - s - 1) ++ [MELODY_NOTE_OFF]).

(** Melody._get_last_on_off_events: scan from the right; [l] is the reversed event list,
    [i] the index of its head, [last_off] the leftmost NOTE_OFF seen so far. *)
Fixpoint mel_scan (l : list Z) (i last_off : Z) : option (Z * Z) :=
  match l with
  | [] => None                                  (* ValueError('No events in the stream') *)
  | e :: r =>
      let lo := if e =? MELODY_NOTE_OFF then i else last_off in
      if MIN_MIDI_PITCH <=? e then Some (i, lo) else mel_scan r (i - 1) lo
  end.

Definition mel_last_on_off (evs : list Z) : option (Z * Z) :=
  mel_scan (rev evs) (len evs - 1) (len evs).

(** The main loop over the sorted candidate notes.  [Ok evs] = loop left by exhaustion or
    by [break]. *)
Fixpoint mel_loop (ignore_poly : bool) (gap_steps mss : Z) (ns : list note) (evs : list Z)
  : res (list Z) :=
  match ns with
  | [] => Ok evs
  | n :: r =>
      let si := n_qstart n - mss in
      let ei := n_qend n - mss in
      match evs with
      | [] => bind (mel_add_note (n_pitch n) si ei evs) (mel_loop ignore_poly gap_steps mss r)
      | _ :: _ =>
          match mel_last_on_off evs with
          | None => Err E_VALUE
          | Some (last_on, last_off) =>
              if si - last_on =? 0 then
                if ignore_poly then mel_loop ignore_poly gap_steps mss r evs else Err E_POLY
              else if si - last_on <? 0 then Err E_POLY
              else if gap_steps <=? si - last_off then Ok evs
              else bind (mel_add_note (n_pitch n) si ei evs) (mel_loop ignore_poly gap_steps mss r)
          end
      end
  end.

(** Strip the final NOTE_OFF. *)
Definition mel_strip (evs : list Z) : list Z :=
  match rev evs with
  | e :: r => if e =? MELODY_NOTE_OFF then rev r else evs
  | [] => evs
  end.

Definition mel_from_quantized (p : mel_params) (s : seq) : res mel_result :=
  bind (steps_per_bar s) (fun spb =>
  let cands := mel_candidates p (s_notes s) in
  match cands with
  | [] => Ok (mkMelResult [] 0 0 spb (s_spq s))
  | first :: _ =>
      let mss := bar_start (n_qstart first) (mp_search_start p) spb in
      bind (mel_loop (mp_ignore_poly p) (mp_gap_bars p * spb) mss cands []) (fun evs =>
      match evs with
      | [] => Ok (mkMelResult [] 0 0 spb (s_spq s))
      | _ :: _ =>
          let evs1 := mel_strip evs in
          let n := if mp_pad_end p then pad_len (len evs1) spb else len evs1 in
          Ok (mkMelResult (mel_set_length n evs1) mss (mss + n) spb (s_spq s))
      end)
  end).
