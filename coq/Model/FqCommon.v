(** Model/FqCommon.v — helpers shared by the [from_quantized_sequence] models
    (C07; reused by C06).  No proofs here.

    INTERFACE (what later builders may rely on)
    - [res A]            result of a modelled Python call: [Ok a] or [Err code]
                         (codes: the [E_*] constants below, one per Python exception class).
    - [isort le l]       Python's stable [sorted(l, key=...)] for a key order [le]
                         (insertion sort; equal keys keep their input order).
    - [set_length pad n l]   events_lib.SimpleEventSequence.set_length (right side):
                         pad with [pad] up to [n] events, or truncate to [n].
    - [pad_len len spb]  [len + (-len) % spb]  (pad_end: round up to a multiple of spb).
    - [steps_per_bar s]  sequences_lib.steps_per_bar_in_quantized_sequence followed by the
                         callers' integrality test: [Ok spb], [Err E_NONINT], [Err E_QSTATUS]
                         (not relative-quantized), [Err E_INDEX] (no time signature).
                         Exact-rational reading of [spq * (4.0/den * num)]; bit-equal to the
                         float code whenever [den] is a power of two (what the harness generates).
    - [range_from a n]   [[a; a+1; ...; a+n-1]]. *)
From Coq Require Import ZArith List Bool.
From NS Require Import Base.NoteSeq.
Import ListNotations.
Local Open Scope Z_scope.

Inductive res (A : Type) : Type :=
| Ok (a : A)
| Err (code : Z).
Arguments Ok {A} a.
Arguments Err {A} code.

Definition bind {A B} (r : res A) (f : A -> res B) : res B :=
  match r with Ok a => f a | Err c => Err c end.

(** Exception classes (wire codes). *)
Definition E_QSTATUS : Z := 1.     (* sequences_lib.QuantizationStatusError *)
Definition E_NONINT : Z := 2.      (* events_lib.NonIntegerStepsPerBarError *)
Definition E_POLY : Z := 3.        (* melodies_lib.PolyphonicMelodyError *)
Definition E_BADNOTE : Z := 4.     (* melodies_lib.BadNoteError *)
Definition E_COINCIDENT : Z := 5.  (* chords_lib.CoincidentChordsError *)
Definition E_BADCHORD : Z := 6.    (* chords_lib.BadChordError *)
Definition E_INDEX : Z := 7.       (* IndexError *)
Definition E_VALUE : Z := 8.       (* ValueError *)
Definition E_SHIFT : Z := 9.       (* performance_lib.TooManyTimeShiftStepsError *)
Definition E_DURATION : Z := 10.   (* performance_lib.TooManyDurationStepsError *)
Definition E_ZERODIV : Z := 11.    (* ZeroDivisionError *)

(** Stable sort: [x] (earlier in the input) goes before every element it is [le] to. *)
Fixpoint insert {A} (le : A -> A -> bool) (x : A) (l : list A) : list A :=
  match l with
  | [] => [x]
  | y :: r => if le x y then x :: y :: r else y :: insert le x r
  end.

Fixpoint isort {A} (le : A -> A -> bool) (l : list A) : list A :=
  match l with
  | [] => []
  | x :: r => insert le x (isort le r)
  end.

Definition len {A} (l : list A) : Z := Z.of_nat (length l).

Definition zrepeat {A} (x : A) (n : Z) : list A := repeat x (Z.to_nat n).

Definition zfirstn {A} (n : Z) (l : list A) : list A := firstn (Z.to_nat n) l.

(** SimpleEventSequence.set_length(steps), from_left=False. *)
Definition set_length {A} (pad : A) (n : Z) (l : list A) : list A :=
  if len l <? n then l ++ zrepeat pad (n - len l) else zfirstn n l.

(** [len + (-len) % spb] with Python's modulo (spb > 0). *)
Definition pad_len (n spb : Z) : Z := n + (- n) mod spb.

Fixpoint range_from (a : Z) (n : nat) : list Z :=
  match n with O => [] | S k => a :: range_from (a + 1) k end.

(** steps_per_bar_in_quantized_sequence + [% 1 != 0] test + [int()]. *)
Definition steps_per_bar (s : seq) : res Z :=
  if s_spq s <=? 0 then Err E_QSTATUS
  else match s_tsigs s with
       | [] => Err E_INDEX
       | t :: _ =>
           if ts_den t =? 0 then Err E_ZERODIV
           else let n := s_spq s * 4 * ts_num t in
                if n mod ts_den t =? 0 then Ok (n / ts_den t) else Err E_NONINT
       end.

(** first bar line at or before [first], counting bars from [search_start]:
    [first - (first - search_start) % spb]. *)
Definition bar_start (first search_start spb : Z) : Z :=
  first - (first - search_start) mod spb.
