(** Model/Wf.v — the ONE well-formedness predicate of property C11, over the shared
    NoteSequence record of Base/NoteSeq.v, in a boolean form ([wfb], executable: it is
    what Run/C11.v evaluates on the wire image of the sequences the REAL operations
    return, and what the harness compares with its own Python predicate) and a
    propositional form ([wf], what the theorems of Props/C11.v speak about).
    Proofs/WfBase.v proves [wfb s = true <-> wf s].

      wf s   :  0 <= total_time,
                every note has 0 <= start <= end <= total_time,
                no tempo / time signature / key signature / text annotation /
                control change / pitch bend / section annotation has a negative time.

      qwf s  :  (quantized results) every note has
                0 <= quantized_start_step <= quantized_end_step <= total_quantized_steps,
                no control change / text annotation has a negative quantized_step.

    Also the vocabulary of the "no note has been invented" clause: every note of a
    result is the image of an input note under the operation's per-note map.
    No proofs in this file. *)
From Coq Require Import ZArith List Bool.
From NS Require Import Base.Sx Base.NoteSeq.
Import ListNotations.
Local Open Scope Z_scope.

(** * Unquantized well-formedness *)
Definition note_okb (total : Z) (n : note) : bool :=
  (0 <=? n_start n) && (n_start n <=? n_end n) && (n_end n <=? total).

Definition wfb (s : seq) : bool :=
  (0 <=? s_total s) &&
  forallb (note_okb (s_total s)) (s_notes s) &&
  forallb (fun t => 0 <=? tp_time t) (s_tempos s) &&
  forallb (fun t => 0 <=? ts_time t) (s_tsigs s) &&
  forallb (fun t => 0 <=? ks_time t) (s_ksigs s) &&
  forallb (fun t => 0 <=? tx_time t) (s_texts s) &&
  forallb (fun t => 0 <=? cc_time t) (s_ccs s) &&
  forallb (fun t => 0 <=? pb_time t) (s_bends s) &&
  forallb (fun t => 0 <=? sa_time t) (s_sects s).

(** [seq_wf] is the predicate of Base/NoteSeq.v (the one the C10 and C13 developments
    already use); [wf] adds that total_time itself is not negative (it follows from
    [seq_wf] as soon as there is a note). *)
Definition wf (s : seq) : Prop := 0 <= s_total s /\ seq_wf s.

(** * Quantized well-formedness *)
Definition qnote_okb (total_steps : Z) (n : note) : bool :=
  (0 <=? n_qstart n) && (n_qstart n <=? n_qend n) && (n_qend n <=? total_steps).

Definition qwfb (s : seq) : bool :=
  forallb (qnote_okb (s_qsteps s)) (s_notes s) &&
  forallb (fun c => 0 <=? cc_qstep c) (s_ccs s) &&
  forallb (fun t => 0 <=? tx_qstep t) (s_texts s).

Definition qwf (s : seq) : Prop :=
  Forall (fun n => 0 <= n_qstart n /\ n_qstart n <= n_qend n /\ n_qend n <= s_qsteps s) (s_notes s) /\
  Forall (fun c => 0 <= cc_qstep c) (s_ccs s) /\
  Forall (fun t => 0 <= tx_qstep t) (s_texts s).

(** * No note has been invented *)

(** every note of [outs] is related by [R] to some note of [ins] *)
Definition came_from (R : note -> note -> Prop) (ins outs : list note) : Prop :=
  forall n', In n' outs -> exists n, In n ins /\ R n n'.

(** [n'] is [n] with other times: pitch, velocity, instrument, program, drum flag,
    quantized steps and every other field are those of [n] *)
Definition same_but_times (n n' : note) : Prop :=
  n' = note_with_times n (n_start n') (n_end n').

(** [n'] is [n] with other quantized steps and nothing else changed *)
Definition same_but_qsteps (n n' : note) : Prop :=
  n' = note_with_qsteps n (n_qstart n') (n_qend n').

(** a list of sequences, flattened to its notes (operations taking several sequences) *)
Definition all_notes (ss : list seq) : list note := flat_map s_notes ss.
