(** Model/Extract.v — executable model of
    [note_seq.sequences_lib._extract_subsequences] (sequences_lib.py:134-329),
    [extract_subsequence] and [trim_note_sequence], followed pass by pass, and
    the declarative specification written with filter/map/last only.

    Times are exact ticks ([Z]).  No proofs in this file.

    Representation of the code's loop state:
    - [subsequence_index] (starts at -1) is carried as the triple
        [k    = subsequence_index + 1 : nat]      (number of split times passed),
        [a    = split_times[subsequence_index]]   (never read while the index is -1),
        [rest = split_times[subsequence_index + 1 :]].
      So [split_times[subsequence_index + 1]] is the head of [rest],
      [subsequence_index < len(split_times) - 1] is [rest <> []], and
      [subsequence_index == len(split_times) - 1] is [rest = []].
    - [containers[i].extend([x])] is an emission [(i, x)] appended to a log; the
      content of container [i] is [collect i log] (the emissions to [i], in order).
    - [previous_pedal_events] (a dict, insertion ordered) is an association list;
      assignment to an existing key keeps its position, a new key goes last. *)
From Coq Require Import ZArith List Bool.
From NS Require Import Base.Sx Base.NoteSeq.
Import ListNotations.
Local Open Scope Z_scope.

(** * Python's stable [sorted(xs, key=...)] *)
Fixpoint insert_by {A} (key : A -> Z) (x : A) (l : list A) : list A :=
  match l with
  | [] => [x]
  | y :: r => if key x <=? key y then x :: l else y :: insert_by key x r
  end.

(** Insertion sort from the right: an element is placed before every element
    already present (= stored later) whose key is >= its own, so elements with
    equal keys keep their storage order (stability). *)
Fixpoint sort_by {A} (key : A -> Z) (l : list A) : list A :=
  match l with
  | [] => []
  | x :: r => insert_by key x (sort_by key r)
  end.

(** * Outcomes *)
Inductive xerr := ErrQuantized | ErrTooFew | ErrUnsorted | ErrPastEnd | ErrZeroHop.
Inductive res (A : Type) := Ok (a : A) | Err (e : xerr).
Arguments Ok {A} a.
Arguments Err {A} e.

(** * Emission logs *)
Definition collect {A} (i : nat) (log : list (nat * A)) : list A :=
  map snd (filter (fun p => Nat.eqb (fst p) i) log).

Definition tsn (ts : list Z) (i : nat) : Z := nth i ts 0.

Definition opt_list {A} (o : option A) : list A :=
  match o with Some x => [x] | None => [] end.

Definition walk := (nat * Z * list Z)%type.      (* (k, a, rest) *)

(** * Note pass (lines 190-209) and BEAT pass (lines 261-278): same index walk.

    [while subsequence_index < len(split_times) - 1 and
           x >= split_times[subsequence_index + 1]: subsequence_index += 1] *)
Fixpoint adv_ge (x : Z) (k : nat) (a : Z) (rest : list Z) : walk :=
  match rest with
  | [] => (k, a, [])
  | t :: rest' => if x >=? t then adv_ge x (S k) t rest' else (k, a, rest)
  end.

(** [notes[-1].start_time -= split_times[i];
     notes[-1].end_time = min(note.end_time, split_times[i+1]) - split_times[i]] *)
Definition clipshift (a b : Z) (n : note) : note :=
  note_with_times n (n_start n - a) (Z.min (n_end n) b - a).

Fixpoint note_pass (t0 : Z) (k : nat) (a : Z) (rest : list Z) (l : list note) : list (nat * note) :=
  match l with
  | [] => []
  | n :: l' =>
      if n_start n <? t0 then note_pass t0 k a rest l'                 (* continue *)
      else
        match adv_ge (n_start n) k a rest with
        | (_, _, []) => []                                             (* break *)
        | (k', a', (b :: _) as rest') =>
            ((k' - 1)%nat, clipshift a' b n) :: note_pass t0 k' a' rest' l'
        end
  end.

(** [if notes[-1].end_time > total_time: total_time = notes[-1].end_time], from 0.0 *)
Definition piece_total (ns : list note) : Z :=
  fold_left (fun acc n => if n_end n >? acc then n_end n else acc) ns 0.

Definition text_with_time (t : text) (x : Z) : text :=
  mkText x (tx_qstep t) (tx_text t) (tx_type t).

Fixpoint beat_pass (t0 : Z) (k : nat) (a : Z) (rest : list Z) (l : list text) : list (nat * text) :=
  match l with
  | [] => []
  | e :: l' =>
      if tx_time e <? t0 then beat_pass t0 k a rest l'
      else
        match adv_ge (tx_time e) k a rest with
        | (_, _, []) => []
        | (k', a', (_ :: _) as rest') =>
            ((k' - 1)%nat, text_with_time e (tx_time e - a')) :: beat_pass t0 k' a' rest' l'
        end
  end.

(** * State-event passes (lines 227-256)

    [while subsequence_index < len(split_times) - 1 and
           event.time > split_times[subsequence_index + 1]:
       subsequence_index += 1
       if subsequence_index == len(split_times) - 1: break
       <emit the carried events, time 0, into containers[subsequence_index]>]
    Returns the new walk state and the emissions.  [carry] is already re-timed to 0. *)
Fixpoint adv_gt {A} (x : Z) (k : nat) (a : Z) (rest : list Z) (carry : list A)
  : walk * list (nat * A) :=
  match rest with
  | [] => ((k, a, []), [])
  | t :: rest' =>
      if x >? t then
        match rest' with
        | [] => ((S k, t, []), [])                    (* new index = len - 1: break *)
        | _ :: _ =>
            let r := adv_gt x (S k) t rest' carry in
            (fst r, map (fun c => (k, c)) carry ++ snd r)
        end
      else ((k, a, rest), [])
  end.

(** [while subsequence_index < len(split_times) - 2: subsequence_index += 1; <emit carry>] *)
Definition flush_carry {A} (k : nat) (rest : list Z) (carry : list A) : list (nat * A) :=
  flat_map (fun i => map (fun c => (i, c)) carry) (List.seq k (length rest - 1)).

Fixpoint state_pass {A} (time : A -> Z) (set_time : A -> Z -> A) (t0 : Z)
         (k : nat) (a : Z) (rest : list Z) (prev : option A) (l : list A) : list (nat * A) :=
  match l with
  | [] => flush_carry k rest (map (fun p => set_time p 0) (opt_list prev))
  | e :: l' =>
      if time e <=? t0 then state_pass time set_time t0 k a rest (Some e) l'
      else
        let r := adv_gt (time e) k a rest (map (fun p => set_time p 0) (opt_list prev)) in
        match fst r with
        | (_, _, []) => snd r                                            (* break; no flush *)
        | (k', a', (b :: _) as rest') =>
            snd r
            ++ (if time e <? b then [((k' - 1)%nat, set_time e (time e - a'))] else [])
            ++ state_pass time set_time t0 k' a' rest' (Some e) l'
        end
  end.

(** * Pedal pass (lines 283-321): the same walk with a dict of previous events *)
Definition key := (Z * Z)%type.
Definition key_eqb (a b : key) : bool := (fst a =? fst b) && (snd a =? snd b).

Fixpoint dict_set {A} (d : list (key * A)) (k : key) (v : A) : list (key * A) :=
  match d with
  | [] => [(k, v)]
  | (k', v') :: r => if key_eqb k' k then (k', v) :: r else (k', v') :: dict_set r k v
  end.

Fixpoint dict_pass {A} (kf : A -> key) (time : A -> Z) (set_time : A -> Z -> A) (t0 : Z)
         (k : nat) (a : Z) (rest : list Z) (d : list (key * A)) (l : list A) : list (nat * A) :=
  match l with
  | [] => flush_carry k rest (map (fun p => set_time (snd p) 0) d)
  | e :: l' =>
      if time e <=? t0 then dict_pass kf time set_time t0 k a rest (dict_set d (kf e) e) l'
      else
        let r := adv_gt (time e) k a rest (map (fun p => set_time (snd p) 0) d) in
        match fst r with
        | (_, _, []) => snd r
        | (k', a', (b :: _) as rest') =>
            snd r
            ++ (if time e <? b then [((k' - 1)%nat, set_time e (time e - a'))] else [])
            ++ dict_pass kf time set_time t0 k' a' rest' (dict_set d (kf e) e) l'
        end
  end.

(** * Event kinds *)
Definition tempo_with_time (t : tempo) (x : Z) : tempo := mkTempo x (tp_qpm t).
Definition tsig_with_time (t : tsig) (x : Z) : tsig := mkTsig x (ts_num t) (ts_den t).
Definition ksig_with_time (t : ksig) (x : Z) : ksig := mkKsig x (ks_key t) (ks_mode t).
Definition cc_with_time (c : cc) (x : Z) : cc :=
  mkCc x (cc_qstep c) (cc_num c) (cc_val c) (cc_instr c) (cc_prog c) (cc_drum c).
Definition pedal_key (c : cc) : key := (cc_instr c, cc_num c).

Definition zmem (x : Z) (l : list Z) : bool := existsb (Z.eqb x) l.

(** * Argument checks (lines 159-168) *)
Definition is_quantized (s : seq) : bool := (s_spq s >? 0) || (s_sps s >? 0).

Fixpoint unsorted (ts : list Z) : bool :=
  match ts with
  | a :: (b :: _) as r => (a >? b) || unsorted r
  | _ => false
  end.

Definition past_end (total : Z) (ts : list Z) : bool :=
  existsb (fun t => t >=? total) (removelast ts).

(** * The whole function *)
Definition chords_of (s : seq) : list text :=
  filter (fun a => tx_type a =? ANN_CHORD_SYMBOL) (s_texts s).
Definition beats_of (s : seq) : list text :=
  filter (fun a => tx_type a =? ANN_BEAT) (s_texts s).
Definition pedals_of (pres : list Z) (s : seq) : list cc :=
  filter (fun c => zmem (cc_num c) pres) (s_ccs s).

Definition extract_pieces (pres : list Z) (s : seq) (ts : list Z) : list seq :=
  let t0 := tsn ts 0 in
  let nlog := note_pass t0 0 0 ts (sort_by n_start (s_notes s)) in
  let tslog := state_pass ts_time tsig_with_time t0 0 0 ts None (sort_by ts_time (s_tsigs s)) in
  let kslog := state_pass ks_time ksig_with_time t0 0 0 ts None (sort_by ks_time (s_ksigs s)) in
  let tplog := state_pass tp_time tempo_with_time t0 0 0 ts None (sort_by tp_time (s_tempos s)) in
  let chlog := state_pass tx_time text_with_time t0 0 0 ts None (sort_by tx_time (chords_of s)) in
  let btlog := beat_pass t0 0 0 ts (sort_by tx_time (beats_of s)) in
  let cclog := dict_pass pedal_key cc_time cc_with_time t0 0 0 ts []
                         (sort_by cc_time (pedals_of pres s)) in
  map (fun i =>
         let ns := collect i nlog in
         let total := piece_total ns in
         mkSeq ns (collect i tplog) (collect i tslog) (collect i kslog)
               (collect i chlog ++ collect i btlog) (collect i cclog)
               [] (s_sects s)
               total (s_qsteps s) (s_spq s) (s_sps s)
               (tsn ts i, s_total s - tsn ts i - total)
               (s_tpq s) (s_rest s))
      (List.seq 0 (length ts - 1)).

Definition extract_subsequences (pres : list Z) (s : seq) (ts : list Z) : res (list seq) :=
  if is_quantized s then Err ErrQuantized
  else if (length ts <? 2)%nat then Err ErrTooFew
  else if unsorted ts then Err ErrUnsorted
  else if past_end (s_total s) ts then Err ErrPastEnd
  else Ok (extract_pieces pres s ts).

(** [extract_subsequence] (lines 332-371): [_extract_subsequences(...)[0]] *)
Definition extract_subsequence (pres : list Z) (s : seq) (a b : Z) : res seq :=
  match extract_subsequences pres s [a; b] with
  | Err e => Err e
  | Ok ps => match ps with p :: _ => Ok p | [] => Err ErrTooFew end
  end.

(** [trim_note_sequence] (lines 89-124): storage order, no shift, everything else copied *)
Definition trim (s : seq) (a b : Z) : res seq :=
  if is_quantized s then Err ErrQuantized
  else
    Ok (mkSeq (map (fun n => note_with_times n (n_start n) (Z.min (n_end n) b))
                   (filter (fun n => negb ((n_start n <? a) || (n_start n >=? b))) (s_notes s)))
              (s_tempos s) (s_tsigs s) (s_ksigs s) (s_texts s) (s_ccs s) (s_bends s) (s_sects s)
              (Z.min (s_total s) b) (s_qsteps s) (s_spq s) (s_sps s) (s_sub s) (s_tpq s) (s_rest s)).

(** * Declarative specification (filter / map / last only)

    Piece [[a, b)] of a sequence.  [sort_by] is Python's stable sort, so "the
    last event with time <= a" is well defined for coinciding events. *)
Definition last_opt {A} (l : list A) : option A := last (map Some l) None.

Definition in_piece (a b x : Z) : bool := (a <=? x) && (x <? b).
Definition strictly_inside (a b x : Z) : bool := (a <? x) && (x <? b).

Definition notes_spec (a b : Z) (ns : list note) : list note :=
  map (clipshift a b) (filter (fun n => in_piece a b (n_start n)) ns).

Definition state_spec {A} (time : A -> Z) (set_time : A -> Z -> A) (a b : Z) (evs : list A) : list A :=
  let s := sort_by time evs in
  map (fun e => set_time e 0) (opt_list (last_opt (filter (fun e => time e <=? a) s)))
  ++ map (fun e => set_time e (time e - a)) (filter (fun e => strictly_inside a b (time e)) s).

Definition beats_spec (a b : Z) (evs : list text) : list text :=
  map (fun e => text_with_time e (tx_time e - a))
      (filter (fun e => in_piece a b (tx_time e)) (sort_by tx_time evs)).

(** pedal events of one (instrument, control number): the state specification
    of the events with that key *)
Definition with_key (kk : key) (l : list cc) : list cc :=
  filter (fun c => key_eqb (pedal_key c) kk) l.

Definition pedal_spec (pres : list Z) (kk : key) (a b : Z) (s : seq) : list cc :=
  state_spec cc_time cc_with_time a b (with_key kk (pedals_of pres s)).

Definition max_end (ns : list note) : Z := fold_right (fun n acc => Z.max (n_end n) acc) 0 ns.

(** consecutive pairs of split times = the pieces *)
Definition intervals (ts : list Z) : list (Z * Z) := combine ts (tl ts).

(** * Value in effect

    The event in effect at instant [t]: the last event, in stable time order,
    with [time <= t]; compared with its time erased. *)
Definition in_effect {A} (time : A -> Z) (set_time : A -> Z -> A) (evs : list A) (t : Z) : option A :=
  option_map (fun e => set_time e 0) (last_opt (filter (fun e => time e <=? t) (sort_by time evs))).
