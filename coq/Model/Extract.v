(** Model/Extract.v — executable model of
    [note_seq.sequences_lib._extract_subsequences] (sequences_lib.py:134-329),
    [extract_subsequence] and [trim_note_sequence], followed pass by pass, and
    the declarative specification [extract_spec_*] written with filter/map.

    Times are exact ticks ([Z]).  No proofs in this file.

    Representation of the code's state:
    - [subsequence_index] (starts at -1) is carried as [k = subsequence_index + 1 : nat];
      [split_times[subsequence_index + 1]] is [tsn ts k], the piece written to is
      [k - 1].  The inner [while] loops recurse over [skipn k ts] (= the split times
      not yet passed), which is only the termination argument.
    - [containers[i].extend([x])] is an emission [(i, x)] appended to a log; the
      content of container [i] is [collect i log] (the emissions to [i], in order).
    - [previous_pedal_events] (a dict, insertion ordered) is an association list;
      assignment to an existing key keeps its position, a new key goes last. *)
From Coq Require Import ZArith List Bool.
From NS Require Import Base.Sx Base.NoteSeq.
Import ListNotations.
Local Open Scope Z_scope.

(** * Python's stable [sorted(xs, key=...)] *)
Fixpoint insert_by {A} (key : A -> Z) (x : A) (l : list A) : list A :=
  match l with
  | [] => [x]
  | y :: r => if key x <=? key y then x :: l else y :: insert_by key x r
  end.

Fixpoint sort_by {A} (key : A -> Z) (l : list A) : list A :=
  match l with
  | [] => []
  | x :: r => insert_by key x (sort_by key r)
  end.

(** * Outcomes *)
Inductive xerr := ErrQuantized | ErrTooFew | ErrUnsorted | ErrPastEnd | ErrZeroHop.
Inductive res (A : Type) := Ok (a : A) | Err (e : xerr).
Arguments Ok {A} a.
Arguments Err {A} e.

(** * Emission logs *)
Definition collect {A} (i : nat) (log : list (nat * A)) : list A :=
  map snd (filter (fun p => Nat.eqb (fst p) i) log).

Definition tsn (ts : list Z) (i : nat) : Z := nth i ts 0.

Definition opt_list {A} (o : option A) : list A :=
  match o with Some x => [x] | None => [] end.

(** * Note pass (lines 190-209) and BEAT pass (lines 261-278): same index walk.

    [while subsequence_index < len(split_times) - 1 and
           x >= split_times[subsequence_index + 1]: subsequence_index += 1] *)
Fixpoint adv_ge (x : Z) (rest : list Z) (k : nat) : nat :=
  match rest with
  | [] => k
  | t :: rest' => if x >=? t then adv_ge x rest' (S k) else k
  end.

Fixpoint note_pass (ts : list Z) (k : nat) (l : list note) : list (nat * note) :=
  match l with
  | [] => []
  | n :: l' =>
      if n_start n <? tsn ts 0 then note_pass ts k l'                  (* continue *)
      else
        let k' := adv_ge (n_start n) (skipn k ts) k in
        if Nat.eqb k' (length ts) then []                              (* break *)
        else
          let a := tsn ts (k' - 1) in
          let b := tsn ts k' in
          ((k' - 1)%nat, note_with_times n (n_start n - a) (Z.min (n_end n) b - a))
            :: note_pass ts k' l'
  end.

(** [if notes[-1].end_time > total_time: total_time = notes[-1].end_time], from 0.0 *)
Definition piece_total (ns : list note) : Z :=
  fold_left (fun acc n => if n_end n >? acc then n_end n else acc) ns 0.

Definition text_with_time (t : text) (x : Z) : text :=
  mkText x (tx_qstep t) (tx_text t) (tx_type t).

Fixpoint beat_pass (ts : list Z) (k : nat) (l : list text) : list (nat * text) :=
  match l with
  | [] => []
  | e :: l' =>
      if tx_time e <? tsn ts 0 then beat_pass ts k l'
      else
        let k' := adv_ge (tx_time e) (skipn k ts) k in
        if Nat.eqb k' (length ts) then []
        else ((k' - 1)%nat, text_with_time e (tx_time e - tsn ts (k' - 1))) :: beat_pass ts k' l'
  end.

(** * State-event passes (lines 227-256)

    [while subsequence_index < len(split_times) - 1 and
           event.time > split_times[subsequence_index + 1]:
       subsequence_index += 1
       if subsequence_index == len(split_times) - 1: break
       <emit the carried events, time 0, into containers[subsequence_index]>]
    Returns the new [k] and the emissions.  [carry] is already re-timed to 0. *)
Fixpoint adv_gt_carry {A} (x : Z) (rest : list Z) (k len : nat) (carry : list A)
  : nat * list (nat * A) :=
  match rest with
  | [] => (k, [])
  | t :: rest' =>
      if x >? t then
        if Nat.eqb k (len - 1) then (S k, [])        (* new index = k = len - 1: break *)
        else
          let r := adv_gt_carry x rest' (S k) len carry in
          (fst r, map (fun c => (k, c)) carry ++ snd r)
      else (k, [])
  end.

(** [while subsequence_index < len(split_times) - 2: subsequence_index += 1; <emit carry>] *)
Definition flush_carry {A} (len k : nat) (carry : list A) : list (nat * A) :=
  flat_map (fun i => map (fun c => (i, c)) carry) (seq k (len - 1 - k)).

Fixpoint state_pass {A} (time : A -> Z) (set_time : A -> Z -> A) (ts : list Z)
         (k : nat) (prev : option A) (l : list A) : list (nat * A) :=
  match l with
  | [] => flush_carry (length ts) k (map (fun p => set_time p 0) (opt_list prev))
  | e :: l' =>
      if time e <=? tsn ts 0 then state_pass time set_time ts k (Some e) l'
      else
        let r := adv_gt_carry (time e) (skipn k ts) k (length ts)
                              (map (fun p => set_time p 0) (opt_list prev)) in
        let k' := fst r in
        if Nat.eqb k' (length ts) then snd r                            (* break; no flush *)
        else
          snd r
          ++ (if time e <? tsn ts k'
              then [((k' - 1)%nat, set_time e (time e - tsn ts (k' - 1)))] else [])
          ++ state_pass time set_time ts k' (Some e) l'
  end.

(** * Pedal pass (lines 283-321): the same walk with a dict of previous events *)
Definition key := (Z * Z)%type.
Definition key_eqb (a b : key) : bool := (fst a =? fst b) && (snd a =? snd b).

Fixpoint dict_set {A} (d : list (key * A)) (k : key) (v : A) : list (key * A) :=
  match d with
  | [] => [(k, v)]
  | (k', v') :: r => if key_eqb k' k then (k', v) :: r else (k', v') :: dict_set r k v
  end.

Fixpoint dict_pass {A} (kf : A -> key) (time : A -> Z) (set_time : A -> Z -> A) (ts : list Z)
         (k : nat) (d : list (key * A)) (l : list A) : list (nat * A) :=
  match l with
  | [] => flush_carry (length ts) k (map (fun p => set_time (snd p) 0) d)
  | e :: l' =>
      if time e <=? tsn ts 0 then dict_pass kf time set_time ts k (dict_set d (kf e) e) l'
      else
        let r := adv_gt_carry (time e) (skipn k ts) k (length ts)
                              (map (fun p => set_time (snd p) 0) d) in
        let k' := fst r in
        if Nat.eqb k' (length ts) then snd r
        else
          snd r
          ++ (if time e <? tsn ts k'
              then [((k' - 1)%nat, set_time e (time e - tsn ts (k' - 1)))] else [])
          ++ dict_pass kf time set_time ts k' (dict_set d (kf e) e) l'
  end.

(** * Event kinds *)
Definition tempo_with_time (t : tempo) (x : Z) : tempo := mkTempo x (tp_qpm t).
Definition tsig_with_time (t : tsig) (x : Z) : tsig := mkTsig x (ts_num t) (ts_den t).
Definition ksig_with_time (t : ksig) (x : Z) : ksig := mkKsig x (ks_key t) (ks_mode t).
Definition cc_with_time (c : cc) (x : Z) : cc :=
  mkCc x (cc_qstep c) (cc_num c) (cc_val c) (cc_instr c) (cc_prog c) (cc_drum c).
Definition pedal_key (c : cc) : key := (cc_instr c, cc_num c).

Definition zmem (x : Z) (l : list Z) : bool := existsb (Z.eqb x) l.

(** * Argument checks (lines 159-168) *)
Definition is_quantized (s : seq) : bool := (s_spq s >? 0) || (s_sps s >? 0).

Fixpoint unsorted (ts : list Z) : bool :=
  match ts with
  | a :: (b :: _) as r => (a >? b) || unsorted r
  | _ => false
  end.

Definition past_end (total : Z) (ts : list Z) : bool :=
  existsb (fun t => t >=? total) (removelast ts).

(** * The whole function *)
Definition chords_of (s : seq) : list text :=
  filter (fun a => tx_type a =? ANN_CHORD_SYMBOL) (s_texts s).
Definition beats_of (s : seq) : list text :=
  filter (fun a => tx_type a =? ANN_BEAT) (s_texts s).
Definition pedals_of (pres : list Z) (s : seq) : list cc :=
  filter (fun c => zmem (cc_num c) pres) (s_ccs s).

Definition extract_pieces (pres : list Z) (s : seq) (ts : list Z) : list seq :=
  let nlog := note_pass ts 0 (sort_by n_start (s_notes s)) in
  let tslog := state_pass ts_time tsig_with_time ts 0 None (sort_by ts_time (s_tsigs s)) in
  let kslog := state_pass ks_time ksig_with_time ts 0 None (sort_by ks_time (s_ksigs s)) in
  let tplog := state_pass tp_time tempo_with_time ts 0 None (sort_by tp_time (s_tempos s)) in
  let chlog := state_pass tx_time text_with_time ts 0 None (sort_by tx_time (chords_of s)) in
  let btlog := beat_pass ts 0 (sort_by tx_time (beats_of s)) in
  let cclog := dict_pass pedal_key cc_time cc_with_time ts 0 [] (sort_by cc_time (pedals_of pres s)) in
  map (fun i =>
         let ns := collect i nlog in
         let total := piece_total ns in
         mkSeq ns (collect i tplog) (collect i tslog) (collect i kslog)
               (collect i chlog ++ collect i btlog) (collect i cclog)
               [] (s_sects s)
               total (s_qsteps s) (s_spq s) (s_sps s)
               (tsn ts i, s_total s - tsn ts i - total)
               (s_tpq s) (s_rest s))
      (seq 0 (length ts - 1)).

Definition extract_subsequences (pres : list Z) (s : seq) (ts : list Z) : res (list seq) :=
  if is_quantized s then Err ErrQuantized
  else if (length ts <? 2)%nat then Err ErrTooFew
  else if unsorted ts then Err ErrUnsorted
  else if past_end (s_total s) ts then Err ErrPastEnd
  else Ok (extract_pieces pres s ts).

(** [extract_subsequence] (lines 332-371): [_extract_subsequences(...)[0]] *)
Definition extract_subsequence (pres : list Z) (s : seq) (a b : Z) : res seq :=
  match extract_subsequences pres s [a; b] with
  | Err e => Err e
  | Ok ps => match ps with p :: _ => Ok p | [] => Err ErrTooFew end
  end.

(** [trim_note_sequence] (lines 89-124): storage order, no shift, everything else copied *)
Definition trim (s : seq) (a b : Z) : res seq :=
  if is_quantized s then Err ErrQuantized
  else
    Ok (mkSeq (map (fun n => note_with_times n (n_start n) (Z.min (n_end n) b))
                   (filter (fun n => negb ((n_start n <? a) || (n_start n >=? b))) (s_notes s)))
              (s_tempos s) (s_tsigs s) (s_ksigs s) (s_texts s) (s_ccs s) (s_bends s) (s_sects s)
              (Z.min (s_total s) b) (s_qsteps s) (s_spq s) (s_sps s) (s_sub s) (s_tpq s) (s_rest s)).

(** * Declarative specification (filter / map / last only)

    Piece [[a, b)] of a sequence.  [sort_by] is Python's stable sort, so "the
    last event with time <= a" is well defined for coinciding events. *)
Definition last_opt {A} (l : list A) : option A := last (map Some l) None.

Definition clipshift (a b : Z) (n : note) : note :=
  note_with_times n (n_start n - a) (Z.min (n_end n) b - a).

Definition in_piece (a b x : Z) : bool := (a <=? x) && (x <? b).
Definition strictly_inside (a b x : Z) : bool := (a <? x) && (x <? b).

Definition notes_spec (a b : Z) (ns : list note) : list note :=
  map (clipshift a b) (filter (fun n => in_piece a b (n_start n)) ns).

Definition state_spec {A} (time : A -> Z) (set_time : A -> Z -> A) (a b : Z) (evs : list A) : list A :=
  let s := sort_by time evs in
  map (fun e => set_time e 0) (opt_list (last_opt (filter (fun e => time e <=? a) s)))
  ++ map (fun e => set_time e (time e - a)) (filter (fun e => strictly_inside a b (time e)) s).

Definition beats_spec (a b : Z) (evs : list text) : list text :=
  map (fun e => text_with_time e (tx_time e - a))
      (filter (fun e => in_piece a b (tx_time e)) (sort_by tx_time evs)).

(** pedal events of one (instrument, control number): the state specification
    of the events with that key *)
Definition pedal_spec (pres : list Z) (kk : key) (a b : Z) (s : seq) : list cc :=
  state_spec cc_time cc_with_time a b
             (filter (fun c => key_eqb (pedal_key c) kk) (pedals_of pres s)).

Definition max_end (ns : list note) : Z := fold_right (fun n acc => Z.max (n_end n) acc) 0 ns.

Record piece_obs := mkObs {
  po_notes : list note; po_tempos : list tempo; po_tsigs : list tsig; po_ksigs : list ksig;
  po_chords : list text; po_beats : list text; po_total : Z; po_sub : Z * Z }.

Definition extract_spec_piece (s : seq) (a b : Z) : piece_obs :=
  let ns := notes_spec a b (sort_by n_start (s_notes s)) in
  mkObs ns
        (state_spec tp_time tempo_with_time a b (s_tempos s))
        (state_spec ts_time tsig_with_time a b (s_tsigs s))
        (state_spec ks_time ksig_with_time a b (s_ksigs s))
        (state_spec tx_time text_with_time a b (chords_of s))
        (beats_spec a b (beats_of s))
        (max_end ns)
        (a, s_total s - a - max_end ns).

Definition obs_of (p : seq) : piece_obs :=
  mkObs (s_notes p) (s_tempos p) (s_tsigs p) (s_ksigs p) (chords_of p) (beats_of p)
        (s_total p) (s_sub p).

(** consecutive pairs of split times = the pieces *)
Definition intervals (ts : list Z) : list (Z * Z) := combine ts (tl ts).

Definition extract_spec (s : seq) (ts : list Z) : list piece_obs :=
  map (fun ab => extract_spec_piece s (fst ab) (snd ab)) (intervals ts).

(** * Value in effect (used by the theorems and exposed through Run for the harness)

    The event in effect at instant [t]: the last event, in stable time order,
    with [time <= t]; compared with its time erased. *)
Definition in_effect {A} (time : A -> Z) (set_time : A -> Z -> A) (evs : list A) (t : Z) : option A :=
  option_map (fun e => set_time e 0) (last_opt (filter (fun e => time e <=? t) (sort_by time evs))).
