(** Model/Extract.v — executable model of
    [note_seq.sequences_lib._extract_subsequences] (sequences_lib.py:134-329),
    [extract_subsequence] and [trim_note_sequence], followed pass by pass, and
    the declarative specification written with filter/map/last only.

    Times are exact ticks ([Z]).  No proofs in this file.

    How the code's loops are rendered.  Every pass of the code is
      [subsequence_index = -1
       for x in sorted(...):            # outer loop: one event at a time
         <continue if x is before split_times[0]>
         while subsequence_index < len(split_times) - 1 and x.time >(=) split_times[subsequence_index + 1]:
           subsequence_index += 1 ...  # inner loop: one split time at a time
         if subsequence_index == len(split_times) - 1: break
         containers[subsequence_index].extend([x]) ...]
    i.e. a machine that in every step consumes either one event or one split time and
    never goes back.  The model is exactly that machine, written as the usual
    two-list recursion ("merge" shape): the state is
        [a    = split_times[subsequence_index]]      (start of the piece being filled),
        [rest = split_times[subsequence_index + 1 :]] (so [rest = []] is
                                                      [subsequence_index == len - 1]),
        the remaining events, and the carried [previous_event] / pedal dict;
    the result is the list of the containers [subsequence_index, subsequence_index+1, ...]
    (what is still going to be appended to each of them), so that
    "append to containers[subsequence_index]" is [cons_hd] and "subsequence_index += 1"
    closes the head container.  While [subsequence_index = -1] the head is a virtual
    container (nothing is ever appended to it; it is dropped with [tl]).
    [previous_pedal_events] (a dict, insertion ordered) is an association list;
    assignment to an existing key keeps its position, a new key goes last. *)
From Coq Require Import ZArith List Bool.
From NS Require Import Base.Sx Base.NoteSeq.
Import ListNotations.
Local Open Scope Z_scope.

(** * Python's stable [sorted(xs, key=...)] *)
Fixpoint insert_by {A} (key : A -> Z) (x : A) (l : list A) : list A :=
  match l with
  | [] => [x]
  | y :: r => if key x <=? key y then x :: l else y :: insert_by key x r
  end.

(** Insertion sort from the right: an element is placed before every element
    already present (= stored later) whose key is >= its own, so elements with
    equal keys keep their storage order (stability). *)
Fixpoint sort_by {A} (key : A -> Z) (l : list A) : list A :=
  match l with
  | [] => []
  | x :: r => insert_by key x (sort_by key r)
  end.

(** * Outcomes *)
Inductive xerr := ErrQuantized | ErrTooFew | ErrUnsorted | ErrPastEnd | ErrZeroHop.
Inductive res (A : Type) := Ok (a : A) | Err (e : xerr).
Arguments Ok {A} a.
Arguments Err {A} e.

(** * Containers *)
Definition tsn (ts : list Z) (i : nat) : Z := nth i ts 0.

Definition opt_list {A} (o : option A) : list A :=
  match o with Some x => [x] | None => [] end.

(** [containers[subsequence_index].extend([x])] *)
Definition cons_hd {A} (x : A) (r : list (list A)) : list (list A) :=
  match r with p :: r' => (x :: p) :: r' | [] => [] end.
(** the carried events go in front of whatever else the (new) head container receives *)
Definition prepend {A} (c : list A) (r : list (list A)) : list (list A) :=
  match r with p :: r' => (c ++ p) :: r' | [] => [] end.

(** * Note pass (lines 190-209)

    [for note in sorted(notes, key=start_time):
       if note.start_time < split_times[0]: continue
       while idx < len - 1 and note.start_time >= split_times[idx + 1]: idx += 1
       if idx == len - 1: break
       append a copy to subsequences[idx], start -= split_times[idx],
       end = min(end, split_times[idx + 1]) - split_times[idx]]
    The [continue] touches no state, so it is a filter (see [extract_pieces]). *)
Definition clipshift (a b : Z) (n : note) : note :=
  note_with_times n (n_start n - a) (Z.min (n_end n) b - a).

Fixpoint ge_walk {A} (time : A -> Z) (place : Z -> Z -> A -> A) (a : Z) (rest : list Z)
  : list A -> list (list A) :=
  match rest with
  | [] => fun _ => []                                    (* idx == len - 1: break *)
  | b :: rest' =>
      fix inner (l : list A) : list (list A) :=
        match l with
        | [] => [] :: repeat [] (length rest')           (* later containers stay empty *)
        | n :: l' =>
            if time n >=? b then [] :: ge_walk time place b rest' l        (* idx += 1 *)
            else cons_hd (place a b n) (inner l')
        end
  end.

Definition note_walk := ge_walk n_start clipshift.

(** [if notes[-1].end_time > total_time: total_time = notes[-1].end_time], from 0.0 *)
Definition piece_total (ns : list note) : Z :=
  fold_left (fun acc n => if n_end n >? acc then n_end n else acc) ns 0.

Definition text_with_time (t : text) (x : Z) : text :=
  mkText x (tx_qstep t) (tx_text t) (tx_type t).

(** * BEAT pass (lines 261-278): the same walk, only the time is shifted *)
Definition beat_walk :=
  ge_walk tx_time (fun a _ e => text_with_time e (tx_time e - a)).

(** * State-event passes (lines 227-256)

    [for event in sorted(events, key=time):
       if event.time <= split_times[0]: previous_event = event; continue
       while idx < len - 1 and event.time > split_times[idx + 1]:
         idx += 1
         if idx == len - 1: break
         if previous_event is not None: containers[idx].extend([previous_event at time 0])
       if idx == len - 1: break
       if event.time < split_times[idx + 1]: containers[idx].extend([event shifted])
       previous_event = event
     while idx < len - 2: idx += 1; <same carry>]
    When [rest' = []] the recursive call returns [[]] and [prepend] does nothing:
    that is the [break] before the carry is emitted. *)
Fixpoint state_walk {A} (time : A -> Z) (set_time : A -> Z -> A) (t0 a : Z) (rest : list Z)
  : option A -> list A -> list (list A) :=
  match rest with
  | [] => fun _ _ => []
  | b :: rest' =>
      fix inner (prev : option A) (l : list A) : list (list A) :=
        let carry := map (fun p => set_time p 0) (opt_list prev) in
        match l with
        | [] => [] :: repeat carry (length rest')                       (* final while loop *)
        | e :: l' =>
            if time e <=? t0 then inner (Some e) l'                      (* continue *)
            else if time e >? b then
              [] :: prepend carry (state_walk time set_time t0 b rest' prev l)   (* idx += 1 *)
            else
              let r := inner (Some e) l' in
              if time e <? b then cons_hd (set_time e (time e - a)) r else r
        end
  end.

(** * Pedal pass (lines 283-321): the same walk with a dict of previous events *)
Definition key := (Z * Z)%type.
Definition key_eqb (a b : key) : bool := (fst a =? fst b) && (snd a =? snd b).

Fixpoint dict_set {A} (d : list (key * A)) (k : key) (v : A) : list (key * A) :=
  match d with
  | [] => [(k, v)]
  | (k', v') :: r => if key_eqb k' k then (k', v) :: r else (k', v') :: dict_set r k v
  end.

Fixpoint dict_walk {A} (kf : A -> key) (time : A -> Z) (set_time : A -> Z -> A) (t0 a : Z)
         (rest : list Z) : list (key * A) -> list A -> list (list A) :=
  match rest with
  | [] => fun _ _ => []
  | b :: rest' =>
      fix inner (d : list (key * A)) (l : list A) : list (list A) :=
        let carry := map (fun p => set_time (snd p) 0) d in            (* d.values(), time = 0 *)
        match l with
        | [] => [] :: repeat carry (length rest')
        | e :: l' =>
            if time e <=? t0 then inner (dict_set d (kf e) e) l'
            else if time e >? b then
              [] :: prepend carry (dict_walk kf time set_time t0 b rest' d l)
            else
              let r := inner (dict_set d (kf e) e) l' in
              if time e <? b then cons_hd (set_time e (time e - a)) r else r
        end
  end.

(** * Event kinds *)
Definition tempo_with_time (t : tempo) (x : Z) : tempo := mkTempo x (tp_qpm t).
Definition tsig_with_time (t : tsig) (x : Z) : tsig := mkTsig x (ts_num t) (ts_den t).
Definition ksig_with_time (t : ksig) (x : Z) : ksig := mkKsig x (ks_key t) (ks_mode t).
Definition cc_with_time (c : cc) (x : Z) : cc :=
  mkCc x (cc_qstep c) (cc_num c) (cc_val c) (cc_instr c) (cc_prog c) (cc_drum c).
Definition pedal_key (c : cc) : key := (cc_instr c, cc_num c).

Definition zmem (x : Z) (l : list Z) : bool := existsb (Z.eqb x) l.

(** * Argument checks (lines 159-168) *)
Definition is_quantized (s : seq) : bool := (s_spq s >? 0) || (s_sps s >? 0).

Fixpoint unsorted (ts : list Z) : bool :=
  match ts with
  | a :: (b :: _) as r => (a >? b) || unsorted r
  | _ => false
  end.

Definition past_end (total : Z) (ts : list Z) : bool :=
  existsb (fun t => t >=? total) (removelast ts).

(** * The whole function *)
Definition chords_of (s : seq) : list text :=
  filter (fun a => tx_type a =? ANN_CHORD_SYMBOL) (s_texts s).
Definition beats_of (s : seq) : list text :=
  filter (fun a => tx_type a =? ANN_BEAT) (s_texts s).
Definition pedals_of (pres : list Z) (s : seq) : list cc :=
  filter (fun c => zmem (cc_num c) pres) (s_ccs s).

(** containers 0 .. len-2 of each pass; [tl] drops the virtual container of index -1 *)
Definition note_pieces (ts : list Z) (notes : list note) : list (list note) :=
  tl (note_walk 0 ts (filter (fun n => negb (n_start n <? tsn ts 0)) (sort_by n_start notes))).
Definition beat_pieces (ts : list Z) (beats : list text) : list (list text) :=
  tl (beat_walk 0 ts (filter (fun e => negb (tx_time e <? tsn ts 0)) (sort_by tx_time beats))).
Definition state_pieces {A} (time : A -> Z) (set_time : A -> Z -> A) (ts : list Z) (evs : list A)
  : list (list A) :=
  tl (state_walk time set_time (tsn ts 0) 0 ts None (sort_by time evs)).
Definition pedal_pieces (ts : list Z) (pedals : list cc) : list (list cc) :=
  tl (dict_walk pedal_key cc_time cc_with_time (tsn ts 0) 0 ts [] (sort_by cc_time pedals)).

Definition extract_pieces (pres : list Z) (s : seq) (ts : list Z) : list seq :=
  let np := note_pieces ts (s_notes s) in
  let tsp := state_pieces ts_time tsig_with_time ts (s_tsigs s) in
  let ksp := state_pieces ks_time ksig_with_time ts (s_ksigs s) in
  let tpp := state_pieces tp_time tempo_with_time ts (s_tempos s) in
  let chp := state_pieces tx_time text_with_time ts (chords_of s) in
  let btp := beat_pieces ts (beats_of s) in
  let ccp := pedal_pieces ts (pedals_of pres s) in
  map (fun i =>
         let ns := nth i np [] in
         let total := piece_total ns in
         mkSeq ns (nth i tpp []) (nth i tsp []) (nth i ksp [])
               (nth i chp [] ++ nth i btp []) (nth i ccp [])
               [] (s_sects s)
               total (s_qsteps s) (s_spq s) (s_sps s)
               (tsn ts i, s_total s - tsn ts i - total)
               (s_tpq s) (s_rest s))
      (List.seq 0 (length ts - 1)).

Definition extract_subsequences (pres : list Z) (s : seq) (ts : list Z) : res (list seq) :=
  if is_quantized s then Err ErrQuantized
  else if (length ts <? 2)%nat then Err ErrTooFew
  else if unsorted ts then Err ErrUnsorted
  else if past_end (s_total s) ts then Err ErrPastEnd
  else Ok (extract_pieces pres s ts).

(** [extract_subsequence] (lines 332-371): [_extract_subsequences(...)[0]] *)
Definition extract_subsequence (pres : list Z) (s : seq) (a b : Z) : res seq :=
  match extract_subsequences pres s [a; b] with
  | Err e => Err e
  | Ok ps => match ps with p :: _ => Ok p | [] => Err ErrTooFew end
  end.

(** [trim_note_sequence] (lines 89-124): storage order, no shift, everything else copied *)
Definition trim (s : seq) (a b : Z) : res seq :=
  if is_quantized s then Err ErrQuantized
  else
    Ok (mkSeq (map (fun n => note_with_times n (n_start n) (Z.min (n_end n) b))
                   (filter (fun n => negb ((n_start n <? a) || (n_start n >=? b))) (s_notes s)))
              (s_tempos s) (s_tsigs s) (s_ksigs s) (s_texts s) (s_ccs s) (s_bends s) (s_sects s)
              (Z.min (s_total s) b) (s_qsteps s) (s_spq s) (s_sps s) (s_sub s) (s_tpq s) (s_rest s)).

(** * Declarative specification (filter / map / last only)

    Piece [[a, b)] of a sequence.  [sort_by] is Python's stable sort, so "the
    last event with time <= a" is well defined for coinciding events. *)
Definition last_opt {A} (l : list A) : option A := last (map Some l) None.

Definition in_piece (a b x : Z) : bool := (a <=? x) && (x <? b).
Definition strictly_inside (a b x : Z) : bool := (a <? x) && (x <? b).

Definition notes_spec (a b : Z) (ns : list note) : list note :=
  map (clipshift a b) (filter (fun n => in_piece a b (n_start n)) ns).

Definition state_spec {A} (time : A -> Z) (set_time : A -> Z -> A) (a b : Z) (evs : list A) : list A :=
  let s := sort_by time evs in
  map (fun e => set_time e 0) (opt_list (last_opt (filter (fun e => time e <=? a) s)))
  ++ map (fun e => set_time e (time e - a)) (filter (fun e => strictly_inside a b (time e)) s).

Definition beats_spec (a b : Z) (evs : list text) : list text :=
  map (fun e => text_with_time e (tx_time e - a))
      (filter (fun e => in_piece a b (tx_time e)) (sort_by tx_time evs)).

(** pedal events of one (instrument, control number): the state specification
    of the events with that key *)
Definition with_key (kk : key) (l : list cc) : list cc :=
  filter (fun c => key_eqb (pedal_key c) kk) l.

Definition pedal_spec (pres : list Z) (kk : key) (a b : Z) (s : seq) : list cc :=
  state_spec cc_time cc_with_time a b (with_key kk (pedals_of pres s)).

Definition max_end (ns : list note) : Z := fold_right (fun n acc => Z.max (n_end n) acc) 0 ns.

(** consecutive pairs of split times = the pieces *)
Definition intervals (ts : list Z) : list (Z * Z) := combine ts (tl ts).

(** * Value in effect

    The event in effect at instant [t]: the last event, in stable time order,
    with [time <= t]; compared with its time erased. *)
Definition in_effect {A} (time : A -> Z) (set_time : A -> Z -> A) (evs : list A) (t : Z) : option A :=
  option_map (fun e => set_time e 0) (last_opt (filter (fun e => time e <=? t) (sort_by time evs))).
