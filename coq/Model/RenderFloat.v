(** Model/RenderFloat.v — the float layer of [to_sequence] (C06), bit-exact in Coq primitive
    floats (binary64 = CPython's float).

    [seconds_per_step] as each class computes it:
    - [sigma_rel qpm spq    = 60.0 / qpm / steps_per_quarter]   Melody, DrumTrack, ChordProgression,
                                                                 LeadSheet, PianorollSequence
    - [sigma_metric qpm spq = 60.0 / (steps_per_quarter * qpm)]  MetricPerformance
    - [sigma_abs sps        = 1.0 / steps_per_second]            Performance, NotePerformance
    ([steps_per_quarter], [steps_per_second] are Python ints, converted exactly).

    [step_time sigma n s0 = n * sigma + s0 * sigma]: the time every class gives to step [n] of a
    sequence whose [start_step] is [s0]: [step * seconds_per_step + sequence_start_time] with
    [sequence_start_time = (0.0 +) start_step * seconds_per_step] (adding 0.0 is exact); the
    pianoroll's [total_time = seconds_per_step * final_step + sequence_start_time] is the same
    value because float multiplication commutes.

    The way back is C01's model: [q2s t (sps_rel spq qpm)] for [quantize_note_sequence],
    [q2s t (sps_abs sps)] for [quantize_note_sequence_absolute] (Model/Quantize.v).
    No proofs here. *)
From Coq Require Import ZArith List Bool Floats.
From NS Require Import Base.NoteSeq Base.FloatBridge Model.Quantize.
Import ListNotations.
Local Open Scope Z_scope.

Definition sigma_rel (qpm : PrimFloat.float) (spq : Z) : PrimFloat.float :=
  (60 / qpm / f_of_Z spq)%float.

Definition sigma_metric (qpm : PrimFloat.float) (spq : Z) : PrimFloat.float :=
  (60 / (f_of_Z spq * qpm))%float.

Definition sigma_abs (sps : Z) : PrimFloat.float := (1 / f_of_Z sps)%float.

Definition step_time (sigma : PrimFloat.float) (n s0 : Z) : PrimFloat.float :=
  (f_of_Z n * sigma + f_of_Z s0 * sigma)%float.

(** render step [n] (start_step [s0]) and quantize it again at the same resolution *)
Definition rt_rel (qpm : PrimFloat.float) (spq n s0 : Z) : Z :=
  q2s (step_time (sigma_rel qpm spq) n s0) (sps_rel spq qpm).
Definition rt_metric (qpm : PrimFloat.float) (spq n s0 : Z) : Z :=
  q2s (step_time (sigma_metric qpm spq) n s0) (sps_rel spq qpm).
Definition rt_abs (sps n s0 : Z) : Z :=
  q2s (step_time (sigma_abs sps) n s0) (sps_abs sps).

(** [_quantize_notes] applied to a rendered note / chord annotation whose times are [step_time] of the
    steps the step-level model gives it ([rt] is one of [rt_rel qpm spq], [rt_metric qpm spq],
    [rt_abs sps]; [s0] the sequence's start_step): start and end are quantized, an end that lands on
    the start is moved one step up. *)
Definition requant_note (rt : Z -> Z -> Z) (s0 : Z) (n : note) : note :=
  let qs := rt (n_qstart n - s0) s0 in
  let qe0 := rt (n_qend n - s0) s0 in
  note_with_qsteps n qs (if qe0 =? qs then qe0 + 1 else qe0).

Definition requant_text (rt : Z -> Z -> Z) (s0 : Z) (t : text) : text :=
  text_with_qstep t (rt (tx_qstep t - s0) s0).

(** every rendered step lies in [s0, 2^31] and every note has positive length: the domain of the
    float theorem, as a checkable predicate on the rendered notes / annotations *)
Definition steps_in_range (s0 : Z) (ns : list note) : bool :=
  forallb (fun n => (s0 <=? n_qstart n) && (n_qstart n <? n_qend n) && (n_qend n <=? 2 ^ 31)) ns.
Definition text_steps_in_range (s0 : Z) (ts : list text) : bool :=
  forallb (fun t => (s0 <=? tx_qstep t) && (tx_qstep t <=? 2 ^ 31)) ts.

(** one row of the regenerated sample table (Gen/G06.v): the times the REAL [to_sequence] produced,
    as exact (mantissa, exponent) pairs, against this model.
    kind: 0 = relative (Melody), 1 = metric (MetricPerformance), 2 = absolute (Performance);
    for kind 2, [res] is steps_per_second and the qpm pair is ignored.
    kind 3: [steps_per_quarter_to_steps_per_second(res, qpm)] is the float in the time slot;
    kind 4: [quantize_to_step(t, res)] = [n] with [t] in the qpm slot (the way back, C01's model). *)
Definition sample_ok (row : Z * (Z * Z) * Z * Z * Z * (Z * Z)) : bool :=
  let '(kind, (qm, qe), res, n, s0, (tm, te)) := row in
  let qpm := f_of_me qm qe in
  if kind =? 3 then PrimFloat.eqb (sps_rel res qpm) (f_of_me tm te)
  else if kind =? 4 then q2s qpm (sps_abs res) =? n
  else
    let sigma := if kind =? 0 then sigma_rel qpm res
                 else if kind =? 1 then sigma_metric qpm res else sigma_abs res in
    PrimFloat.eqb (step_time sigma n s0) (f_of_me tm te).
