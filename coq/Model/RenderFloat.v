(** Model/RenderFloat.v — the float layer of [to_sequence] (C06), bit-exact in Coq primitive
    floats (binary64 = CPython's float).

    [seconds_per_step] as each class computes it:
    - [sigma_rel qpm spq    = 60.0 / qpm / steps_per_quarter]   Melody, DrumTrack, ChordProgression,
                                                                 LeadSheet, PianorollSequence
    - [sigma_metric qpm spq = 60.0 / (steps_per_quarter * qpm)]  MetricPerformance
    - [sigma_abs sps        = 1.0 / steps_per_second]            Performance, NotePerformance
    ([steps_per_quarter], [steps_per_second] are Python ints, converted exactly).

    [step_time sigma n s0 = n * sigma + s0 * sigma]: the time every class gives to step [n] of a
    sequence whose [start_step] is [s0]: [step * seconds_per_step + sequence_start_time] with
    [sequence_start_time = (0.0 +) start_step * seconds_per_step] (adding 0.0 is exact); the
    pianoroll's [total_time = seconds_per_step * final_step + sequence_start_time] is the same
    value because float multiplication commutes.

    The way back is C01's model: [q2s t (sps_rel spq qpm)] for [quantize_note_sequence],
    [q2s t (sps_abs sps)] for [quantize_note_sequence_absolute] (Model/Quantize.v).
    No proofs here. *)
From Coq Require Import ZArith List Bool Floats.
From NS Require Import Base.FloatBridge Model.Quantize.
Import ListNotations.
Local Open Scope Z_scope.

Definition sigma_rel (qpm : PrimFloat.float) (spq : Z) : PrimFloat.float :=
  (60 / qpm / f_of_Z spq)%float.

Definition sigma_metric (qpm : PrimFloat.float) (spq : Z) : PrimFloat.float :=
  (60 / (f_of_Z spq * qpm))%float.

Definition sigma_abs (sps : Z) : PrimFloat.float := (1 / f_of_Z sps)%float.

Definition step_time (sigma : PrimFloat.float) (n s0 : Z) : PrimFloat.float :=
  (f_of_Z n * sigma + f_of_Z s0 * sigma)%float.

(** render step [n] (start_step [s0]) and quantize it again at the same resolution *)
Definition rt_rel (qpm : PrimFloat.float) (spq n s0 : Z) : Z :=
  q2s (step_time (sigma_rel qpm spq) n s0) (sps_rel spq qpm).
Definition rt_metric (qpm : PrimFloat.float) (spq n s0 : Z) : Z :=
  q2s (step_time (sigma_metric qpm spq) n s0) (sps_rel spq qpm).
Definition rt_abs (sps n s0 : Z) : Z :=
  q2s (step_time (sigma_abs sps) n s0) (sps_abs sps).

(** one row of the regenerated sample table (Gen/G06.v): the times the REAL [to_sequence] produced,
    as exact (mantissa, exponent) pairs, against this model.
    kind: 0 = relative (Melody), 1 = metric (MetricPerformance), 2 = absolute (Performance);
    for kind 2, [res] is steps_per_second and the qpm pair is ignored. *)
Definition sample_ok (row : Z * (Z * Z) * Z * Z * Z * (Z * Z)) : bool :=
  let '(kind, (qm, qe), res, n, s0, (tm, te)) := row in
  let qpm := f_of_me qm qe in
  let sigma := if kind =? 0 then sigma_rel qpm res
               else if kind =? 1 then sigma_metric qpm res else sigma_abs res in
  PrimFloat.eqb (step_time sigma n s0) (f_of_me tm te).
