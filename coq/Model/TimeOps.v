(** Model/TimeOps.v — executable model of the time operations of
    note_seq/sequences_lib.py (property C13):

      shift_sequence_times            (lines 374-418)
      remove_redundant_data           (lines 421-468, the three event passes)
      concatenate_sequences           (lines 471-519)
      repeat_sequence_to_duration     (lines 550-570; the single-window part of
                                       extract_subsequence it needs is modelled
                                       locally, see [window])
      stretch_note_sequence           (lines 1324-1373)
      adjust_notesequence_times       (lines 1376-1477)
      rectify_beats                   (lines 1480-1533)

    Times are exact ticks (1 tick = 2^-40 s); a stretch factor is the dyadic
    rational fn/fd; rectified times are integers in units of 1/S beat (S is
    the product of the beat intervals, so linear interpolation is exact).

    The model follows the code AS REPAIRED by notes/C13-fix-1.diff (stretch and
    adjust also move section_annotations) and notes/C13-fix-2.diff (rectify's
    interpolation saturates at the last *rectified* beat).  No proofs here. *)
From Coq Require Import ZArith List Bool.
From NS Require Import Base.Sx Base.NoteSeq.
From NS Require Gen.G02 Model.Extract.     (* C02's constants and model, used qualified (read-only) *)
Import ListNotations.
Local Open Scope Z_scope.

(** Python exceptions that can escape the modelled functions. *)
Inductive terr : Type :=
| EValue      (* ValueError *)
| EQuant      (* QuantizationStatusError *)
| EAdjust     (* InvalidTimeAdjustmentError *)
| ERectify    (* RectifyBeatsError *)
| EZeroDiv.   (* ZeroDivisionError *)

Inductive res (A : Type) : Type :=
| Ok (a : A)
| Err (e : terr).
Arguments Ok {A} a.
Arguments Err {A} e.

(** * Applying a time map to every kind of event *)
Definition note_t (f : Z -> Z) (n : note) : note := note_with_times n (f (n_start n)) (f (n_end n)).
Definition tempo_t (f : Z -> Z) (t : tempo) : tempo := mkTempo (f (tp_time t)) (tp_qpm t).
Definition tsig_t (f : Z -> Z) (t : tsig) : tsig := mkTsig (f (ts_time t)) (ts_num t) (ts_den t).
Definition ksig_t (f : Z -> Z) (k : ksig) : ksig := mkKsig (f (ks_time k)) (ks_key k) (ks_mode k).
Definition text_t (f : Z -> Z) (t : text) : text := mkText (f (tx_time t)) (tx_qstep t) (tx_text t) (tx_type t).
Definition cc_t (f : Z -> Z) (c : cc) : cc :=
  mkCc (f (cc_time c)) (cc_qstep c) (cc_num c) (cc_val c) (cc_instr c) (cc_prog c) (cc_drum c).
Definition bend_t (f : Z -> Z) (b : bend) : bend :=
  mkBend (f (pb_time b)) (pb_bend b) (pb_instr b) (pb_prog b) (pb_drum b).
Definition sect_t (f : Z -> Z) (s : sect) : sect := mkSect (f (sa_time s)) (sa_id s).

(** is_quantized_sequence *)
Definition is_quantized (s : seq) : bool := (0 <? s_spq s) || (0 <? s_sps s).

(** * shift_sequence_times *)
Definition shift (d : Z) (s : seq) : res seq :=
  if d <=? 0 then Err EValue
  else if is_quantized s then Err EQuant
  else
    let f := fun t => t + d in
    Ok (mkSeq (map (note_t f) (s_notes s))
              (* events_to_shift: time_signatures, key_signatures, tempos, pitch_bends,
                 control_changes, text_annotations, section_annotations *)
              (map (tempo_t f) (s_tempos s)) (map (tsig_t f) (s_tsigs s)) (map (ksig_t f) (s_ksigs s))
              (map (text_t f) (s_texts s)) (map (cc_t f) (s_ccs s)) (map (bend_t f) (s_bends s))
              (map (sect_t f) (s_sects s))
              (s_total s + d) (s_qsteps s) (s_spq s) (s_sps s)
              (0, 0)                      (* ClearField('subsequence_info') *)
              (s_tpq s) (s_rest s)).

(** * stretch_note_sequence (in_place=False), factor fn/fd.
    [t * fn / fd] is the exact product whenever fd divides t * fn (the
    generators guarantee it; the theorems carry it as a hypothesis). *)
Definition mulf (fn fd t : Z) : Z := t * fn / fd.
Definition divf (fn fd q : Z) : Z := q * fd / fn.

Definition stretch (fn fd : Z) (s : seq) : res seq :=
  if is_quantized s then Err EQuant
  else if fn =? fd then Ok s            (* stretch_factor == 1.0: plain copy *)
  else
    let f := mulf fn fd in
    Ok (mkSeq (map (note_t f) (s_notes s))
              (* times of the chain, then qpm /= factor *)
              (map (fun t => mkTempo (f (tp_time t)) (divf fn fd (tp_qpm t))) (s_tempos s))
              (map (tsig_t f) (s_tsigs s)) (map (ksig_t f) (s_ksigs s))
              (map (text_t f) (s_texts s)) (map (cc_t f) (s_ccs s)) (map (bend_t f) (s_bends s))
              (map (sect_t f) (s_sects s))          (* C13-fix-1 *)
              (f (s_total s)) (s_qsteps s) (s_spq s) (s_sps s) (s_sub s) (s_tpq s) (s_rest s)).

(** * remove_redundant_data: the three event passes *)

(** Python's stable [list.sort(key=time)]: insertion sort, an element goes
    before the first later element whose key is >= its own. *)
Fixpoint insert_by {A : Type} (key : A -> Z) (x : A) (l : list A) : list A :=
  match l with
  | [] => [x]
  | y :: r => if key x <=? key y then x :: y :: r else y :: insert_by key x r
  end.
Definition sort_by {A : Type} (key : A -> Z) (l : list A) : list A :=
  fold_right (insert_by key) [] l.

(** [for i in range(len-1, 0, -1): if events[i] == events[i-1] up to time: del events[i]]
    Deleting index i never moves an index below i, so every comparison is
    between neighbours of the sorted list. *)
Fixpoint drop_rep {A : Type} (same : A -> A -> bool) (prev : A) (l : list A) : list A :=
  match l with
  | [] => []
  | x :: r => if same prev x then drop_rep same x r else x :: drop_rep same x r
  end.
Definition dedup {A : Type} (same : A -> A -> bool) (l : list A) : list A :=
  match l with
  | [] => []
  | x :: r => x :: drop_rep same x r
  end.

Definition tempo_same (a b : tempo) : bool := tp_qpm a =? tp_qpm b.
Definition tsig_same (a b : tsig) : bool := (ts_num a =? ts_num b) && (ts_den a =? ts_den b).
Definition ksig_same (a b : ksig) : bool := (ks_key a =? ks_key b) && (ks_mode a =? ks_mode b).

Definition tidy_tempos (l : list tempo) := dedup tempo_same (sort_by tp_time l).
Definition tidy_tsigs (l : list tsig) := dedup tsig_same (sort_by ts_time l).
Definition tidy_ksigs (l : list ksig) := dedup ksig_same (sort_by ks_time l).

(** sequence_metadata de-duplication lives in the opaque [s_rest] and is not modelled. *)
Definition remove_redundant (s : seq) : seq :=
  mkSeq (s_notes s) (tidy_tempos (s_tempos s)) (tidy_tsigs (s_tsigs s)) (tidy_ksigs (s_ksigs s))
        (s_texts s) (s_ccs s) (s_bends s) (s_sects s)
        (s_total s) (s_qsteps s) (s_spq s) (s_sps s) (s_sub s) (s_tpq s) (s_rest s).

(** * concatenate_sequences *)

(** proto3 MergeFrom: repeated fields are appended, a scalar is overwritten
    only by a non-default value.  [s_rest] is opaque; its merge is not
    modelled (placeholder: same scalar rule) and never compared. *)
Definition merge_z (a b : Z) : Z := if b =? 0 then a else b.
Definition merge (a b : seq) : seq :=
  mkSeq (s_notes a ++ s_notes b) (s_tempos a ++ s_tempos b) (s_tsigs a ++ s_tsigs b)
        (s_ksigs a ++ s_ksigs b) (s_texts a ++ s_texts b) (s_ccs a ++ s_ccs b)
        (s_bends a ++ s_bends b) (s_sects a ++ s_sects b)
        (merge_z (s_total a) (s_total b)) (merge_z (s_qsteps a) (s_qsteps b))
        (* quantization_info is a oneof {steps_per_quarter, steps_per_second}: merging a message
           that has one of them set replaces the whole oneof *)
        (if negb (s_spq b =? 0) then s_spq b else if negb (s_sps b =? 0) then 0 else s_spq a)
        (if negb (s_spq b =? 0) then 0 else if negb (s_sps b =? 0) then s_sps b else s_sps a)
        (merge_z (fst (s_sub a)) (fst (s_sub b)), merge_z (snd (s_sub a)) (snd (s_sub b)))
        (merge_z (s_tpq a) (s_tpq b)) (merge_z (s_rest a) (s_rest b)).

Definition empty_seq : seq := mkSeq [] [] [] [] [] [] [] [] 0 0 0 0 (0, 0) 0 0.

Definition clear_sub (s : seq) : seq :=
  mkSeq (s_notes s) (s_tempos s) (s_tsigs s) (s_ksigs s) (s_texts s) (s_ccs s) (s_bends s) (s_sects s)
        (s_total s) (s_qsteps s) (s_spq s) (s_sps s) (0, 0) (s_tpq s) (s_rest s).

(** The loop of concatenate_sequences over (sequence, optional duration);
    [cur] is current_total_time, [cat] is cat_seq. *)
Fixpoint concat_loop (ps : list (seq * option Z)) (cur : Z) (cat : seq) : res seq :=
  match ps with
  | [] => Ok cat
  | (s, od) :: ps' =>
      if (match od with Some d => d <? s_total s | None => false end) then Err EValue
      else
        match (if 0 <? cur then shift cur s else Ok s) with
        | Err e => Err e
        | Ok p =>
            let cat' := merge cat p in
            let cur' := match od with Some d => cur + d | None => s_total cat' end in
            concat_loop ps' cur' cat'
        end
  end.

(** [sequence_durations] empty or None means "use total_time". *)
Definition pair_durations (ss : list seq) (ds : list Z) : option (list (seq * option Z)) :=
  match ds with
  | [] => Some (map (fun s => (s, None)) ss)
  | _ => if Nat.eqb (length ss) (length ds)
         then Some (combine ss (map Some ds)) else None
  end.

Definition concat_pairs (ps : list (seq * option Z)) : res seq :=
  match concat_loop ps 0 empty_seq with
  | Err e => Err e
  | Ok cat => Ok (remove_redundant (clear_sub cat))
  end.

Definition concatenate (ss : list seq) (ds : list Z) : res seq :=
  match pair_durations ss ds with
  | None => Err EValue
  | Some ps => concat_pairs ps
  end.

(** * repeat_sequence_to_duration *)

(** What [extract_subsequence(seq, 0, d)] does to one window [0, d), for the
    fields modelled here (derived from _extract_subsequences with
    split_times = [0, d]):
      - notes in start order (stable), those with 0 <= start < d, end clipped to d;
      - tempo / time signature / key / chord symbol: the last event at time <= 0
        (re-timed to 0) followed by the events with 0 < time < d, in time order;
      - beats with 0 <= time < d appended after the chord symbols; other text dropped;
      - control changes: C02's pedal pass (Model/Extract.v) reused as is;
      - pitch bends deleted; section annotations copied; total_time = last clipped end.
    Proofs/TimeOpsExtract.v proves that [window] IS C02's [extract_subsequence _ 0 d]
    (all fields, subsequence_info cleared). *)
Definition window_notes (d : Z) (l : list note) : list note :=
  map (fun n => note_with_times n (n_start n) (Z.min (n_end n) d))
      (filter (fun n => (0 <=? n_start n) && (n_start n <? d)) (sort_by n_start l)).

Definition window_state {A : Type} (time : A -> Z) (retime : (Z -> Z) -> A -> A) (d : Z) (l : list A) : list A :=
  let sl := sort_by time l in
  (match rev (filter (fun e => time e <=? 0) sl) with
   | p :: _ => [retime (fun _ => 0) p]
   | [] => []
   end) ++ filter (fun e => (0 <? time e) && (time e <? d)) sl.

Definition max_end (l : list note) : Z := fold_left (fun m n => Z.max m (n_end n)) l 0.

Definition window (d : Z) (s : seq) : res seq :=
  if is_quantized s then Err EQuant
  else if d <? 0 then Err EValue                   (* split times must be sorted *)
  else if s_total s <=? 0 then Err EValue          (* 0 >= total_time: past the end *)
  else
    let ns := window_notes d (s_notes s) in
    Ok (mkSeq ns
              (window_state tp_time tempo_t d (s_tempos s))
              (window_state ts_time tsig_t d (s_tsigs s))
              (window_state ks_time ksig_t d (s_ksigs s))
              (window_state tx_time text_t d (filter (fun t => tx_type t =? ANN_CHORD_SYMBOL) (s_texts s))
               ++ filter (fun t => (0 <=? tx_time t) && (tx_time t <? d))
                         (sort_by tx_time (filter (fun t => tx_type t =? ANN_BEAT) (s_texts s))))
              (* control changes: the pedal pass is C02's model of it, on the split vector [0; d]
                 (pedals = the preserved control numbers regenerated from the code; others dropped) *)
              (nth 0 (Extract.pedal_pieces [0; d] (Extract.pedals_of G02.DEFAULT_PRESERVE s)) [])
              [] (s_sects s)
              (max_end ns) (s_qsteps s) (s_spq s) (s_sps s)
              (0, 0)                                 (* trimmed.ClearField('subsequence_info') *)
              (s_tpq s) (s_rest s)).

(** ceil(d / sd) on exact values; Coq's [/] is floor division with the sign
    rule of Python's [//]. *)
Definition ceil_div (d sd : Z) : Z := - ((- d) / sd).

(** [osd]: the optional sequence_duration argument ([None] or 0 -> total_time). *)
Definition repeat_pairs (s : seq) (d : Z) (osd : option Z) : res (list (seq * option Z)) :=
  let sd := match osd with Some x => if x =? 0 then s_total s else x | None => s_total s end in
  if sd =? 0 then Err EZeroDiv
  else Ok (repeat (s, Some sd) (Z.to_nat (ceil_div d sd))).

Definition repeat_to_duration (s : seq) (d : Z) (osd : option Z) : res seq :=
  match repeat_pairs s d osd with
  | Err e => Err e
  | Ok ps =>
      (* [sequence] * 0 = [] and [sd] * 0 = []: concatenate_sequences([], []) *)
      match concat_pairs ps with
      | Err e => Err e
      | Ok c => window d c
      end
  end.

(** * The rest of the message under concatenation

    What [MergeFrom] + [remove_redundant_data] do to the fields outside the
    eight event lists (the opaque [s_rest] of one sequence, opened up): proto3
    merge = a scalar is overwritten by a non-default value, repeated fields are
    appended, sub-messages merge field by field; then sequence_metadata.composers
    and .genre lose their repeats (first occurrence kept).  Strings are small
    integers chosen by the harness (0 = empty). *)
Record meta := mkMeta {
  m_scalars : list Z;            (* id, filename, reference_number, collection_name, source_info.parser,
                                    source_info.encoding_type, sequence_metadata.title, .artist *)
  m_composers : list Z; m_genres : list Z;
  m_instr : list (list Z); m_parts : list (list Z); m_groups : list (list Z) }.
                                 (* instrument_infos, part_infos, section_groups as rows of integers *)

Fixpoint merge_scalars (a b : list Z) : list Z :=
  match a, b with
  | x :: a', y :: b' => merge_z x y :: merge_scalars a' b'
  | [], _ => b
  | _, [] => a
  end.

Fixpoint nodup_z (seen : list Z) (l : list Z) : list Z :=
  match l with
  | [] => []
  | x :: r => if existsb (Z.eqb x) seen then nodup_z seen r else x :: nodup_z (x :: seen) r
  end.

Definition merge_meta (a b : meta) : meta :=
  mkMeta (merge_scalars (m_scalars a) (m_scalars b)) (m_composers a ++ m_composers b)
         (m_genres a ++ m_genres b) (m_instr a ++ m_instr b) (m_parts a ++ m_parts b)
         (m_groups a ++ m_groups b).

Definition concat_meta (ms : list meta) : meta :=
  let m := fold_left merge_meta ms (mkMeta [] [] [] [] [] []) in
  mkMeta (m_scalars m) (nodup_z [] (m_composers m)) (nodup_z [] (m_genres m))
         (m_instr m) (m_parts m) (m_groups m).

(** * adjust_notesequence_times *)

(** The note loop: [acc] collects adjusted notes in reverse, [tot] is
    adjusted_ns.total_time, [sk] is skipped_notes.  [md] is minimum_duration
    ([None] or 0: collapsed notes are skipped). *)
Fixpoint adjust_notes (f : Z -> Z) (md : option Z) (l : list note) (acc : list note) (tot sk : Z)
  : res (list note * Z * Z) :=
  match l with
  | [] => Ok (rev acc, tot, sk)
  | n :: r =>
      let st := f (n_start n) in
      let en := f (n_end n) in
      let collapsed := st =? en in
      let use_md := match md with Some m => negb (m =? 0) | None => false end in
      if collapsed && negb use_md then adjust_notes f md r acc tot (sk + 1)
      else
        let en := if collapsed then en + (match md with Some m => m | None => 0 end) else en in
        if en <? st then Err EAdjust
        else if st <? 0 then Err EAdjust
        else if en <? 0 then Err EAdjust
        else adjust_notes f md r (note_with_times n st en :: acc) (Z.max tot en) sk
  end.

Definition any_neg {A : Type} (f : Z -> Z) (time : A -> Z) (l : list A) : bool :=
  existsb (fun e => f (time e) <? 0) l.

Definition adjust (f : Z -> Z) (md : option Z) (s : seq) : res (seq * Z) :=
  match adjust_notes f md (s_notes s) [] 0 0 with
  | Err e => Err e
  | Ok (ns, tot, sk) =>
      (* chain: control_changes, pitch_bends, time_signatures, key_signatures,
         text_annotations, section_annotations (C13-fix-1) *)
      if any_neg f cc_time (s_ccs s) || any_neg f pb_time (s_bends s) || any_neg f ts_time (s_tsigs s)
         || any_neg f ks_time (s_ksigs s) || any_neg f tx_time (s_texts s) || any_neg f sa_time (s_sects s)
      then Err EAdjust
      else
        Ok (mkSeq ns
                  []                                     (* del adjusted_ns.tempos[:] *)
                  (map (tsig_t f) (s_tsigs s)) (map (ksig_t f) (s_ksigs s))
                  (map (text_t f) (s_texts s)) (map (cc_t f) (s_ccs s)) (map (bend_t f) (s_bends s))
                  (map (sect_t f) (s_sects s))
                  tot (s_qsteps s) (s_spq s) (s_sps s) (s_sub s) (s_tpq s) (s_rest s), sk)
  end.

(** * rectify_beats *)

(** [sorted[i] for i if i == 0 or sorted[i] > sorted[i-1]] *)
Fixpoint strict_filter (prev : Z) (l : list Z) : list Z :=
  match l with
  | [] => []
  | x :: r => if prev <? x then x :: strict_filter x r else strict_filter x r
  end.
Definition unique_beats (l : list Z) : list Z :=
  match l with [] => [] | x :: r => x :: strict_filter x r end.

Fixpoint deltas (l : list Z) : list Z :=
  match l with
  | x :: ((y :: _) as r) => (y - x) :: deltas r
  | _ => []
  end.
Definition prod (l : list Z) : Z := fold_right Z.mul 1 l.

(** np.interp(t, xs, S*arange(n), left=0, right=S*(n-1)) for t >= head xs,
    result in units of 1/S beat; [j] is the index of the head of [xs]. *)
Fixpoint interp (xs : list Z) (j S t : Z) : Z :=
  match xs with
  | [] => 0
  | x :: r =>
      match r with
      | [] => j * S
      | y :: _ => if t <? y then j * S + (t - x) * (S / (y - x)) else interp r (j + 1) S t
      end
  end.
Definition rect_fun (xs : list Z) (S t : Z) : Z :=
  match xs with
  | [] => 0
  | x :: _ => if t <? x then 0 else interp xs 0 S t
  end.

Definition beat_times (s : seq) : list Z :=
  map tx_time (filter (fun t => (tx_type t =? ANN_BEAT) && (tx_time t <=? s_total s)) (s_texts s)).

Definition rect_beats (s : seq) : list Z :=
  unique_beats ([0] ++ sort_by (fun t => t) (beat_times s) ++ [s_total s]).

(** Result: rectified sequence (times in 1/S beat), the original unique beat
    times (first column of the alignment), and S. *)
Definition rectify (bpm : Z) (s : seq) : res (seq * list Z * Z) :=
  if is_quantized s then Err EQuant
  else
    match beat_times s with
    | [] => Err ERectify
    | _ =>
        if bpm =? 0 then Err EZeroDiv
        else
          let xs := rect_beats s in
          let S := prod (deltas xs) in
          match adjust (rect_fun xs S) None s with
          | Err e => Err e
          | Ok (a, _) =>
              Ok (mkSeq (s_notes a) [mkTempo 0 bpm] [] (s_ksigs a) (s_texts a) (s_ccs a) (s_bends a)
                        (s_sects a) (s_total a) (s_qsteps a) (s_spq a) (s_sps a) (s_sub a) (s_tpq a)
                        (s_rest a), xs, S)
          end
    end.
