(** Model/ChordOneHot.v — MajorMinorChordOneHotEncoding and TriadChordOneHotEncoding
    (note_seq/chords_encoder_decoder.py).

    An event is NO_CHORD ([None]) or a chord symbol, of which the encoders read
    only (root pitch class, quality) through chord_symbols_lib; the decoders
    return NO_CHORD or a name _PITCH_CLASS_MAPPING[k] ++ suffix.  The name table
    and the suffixes are regenerated into Gen/G09.v as the (root, quality) the
    library's own parser assigns to each name, so the model's decoder returns
    what the produced string *means*.

    Python list indexing is modelled faithfully ([py_index]: negative indices
    wrap, out of range is IndexError = [None] at the outer level), because the
    decoders' if-chains rely on it for indices outside the class range. *)
From Coq Require Import ZArith List Bool.
From NS Require Import Gen.G09.
Import ListNotations.
Local Open Scope Z_scope.

Inductive chres (A : Type) := ChOk (a : A) | ChErr.   (* ChErr: the Python code raises *)
Arguments ChOk {A} a. Arguments ChErr {A}.

(** Python [lst[k]] on a list of length n. *)
Definition py_index {A} (l : list A) (k : Z) : option A :=
  let n := Z.of_nat (length l) in
  if (0 <=? k) && (k <? n) then nth_error l (Z.to_nat k)
  else if (- n <=? k) && (k <? 0) then nth_error l (Z.to_nat (k + n))
  else None.

Definition ch_num_classes (nq : Z) : Z := nq * NOTES_PER_OCTAVE + 1.

(** encode_event: [None] = NO_CHORD; [Some (root, quality)] as read by chord_symbols_lib. *)
Definition mm_encode (ev : option (Z * Z)) : chres Z :=
  match ev with
  | None => ChOk 0
  | Some (root, q) =>
      if q =? CHORD_QUALITY_MAJOR then ChOk (root + 1)
      else if q =? CHORD_QUALITY_MINOR then ChOk (root + NOTES_PER_OCTAVE + 1)
      else ChErr
  end.

Definition triad_encode (ev : option (Z * Z)) : chres Z :=
  match ev with
  | None => ChOk 0
  | Some (root, q) =>
      if q =? CHORD_QUALITY_MAJOR then ChOk (root + 1)
      else if q =? CHORD_QUALITY_MINOR then ChOk (root + NOTES_PER_OCTAVE + 1)
      else if q =? CHORD_QUALITY_AUGMENTED then ChOk (root + 2 * NOTES_PER_OCTAVE + 1)
      else if q =? CHORD_QUALITY_DIMINISHED then ChOk (root + 3 * NOTES_PER_OCTAVE + 1)
      else ChErr
  end.

(** The meaning (root, quality) of _PITCH_CLASS_MAPPING[k] ++ suffix number sfx
    (0 = '', 1 = 'm', 2 = 'aug', 3 = 'dim'), from the regenerated table. *)
Definition name_meaning (sfx : nat) (k : Z) : chres (option (Z * Z)) :=
  match nth_error DECODED_NAME_MEANING sfx with
  | Some row => match py_index row k with
                | Some (r :: q :: nil) => ChOk (Some (r, q))
                | _ => ChErr
                end
  | None => ChErr
  end.

(** decode_event, following the code's if-chains literally. *)
Definition mm_decode (i : Z) : chres (option (Z * Z)) :=
  if i =? 0 then ChOk None
  else if i - 1 <? 12 then name_meaning 0 (i - 1)
  else name_meaning 1 (i - NOTES_PER_OCTAVE - 1).

Definition triad_decode (i : Z) : chres (option (Z * Z)) :=
  if i =? 0 then ChOk None
  else if i - 1 <? 12 then name_meaning 0 (i - 1)
  else if i - NOTES_PER_OCTAVE - 1 <? 12 then name_meaning 1 (i - NOTES_PER_OCTAVE - 1)
  else if i - 2 * NOTES_PER_OCTAVE - 1 <? 12 then name_meaning 2 (i - 2 * NOTES_PER_OCTAVE - 1)
  else name_meaning 3 (i - 3 * NOTES_PER_OCTAVE - 1).
