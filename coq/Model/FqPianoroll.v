(** Model/FqPianoroll.v — pianoroll_lib.PianorollSequence(quantized_sequence=...)
    i.e. [_from_quantized_sequence] (C07, reused by C06).

    INTERFACE
    - an event (frame) is the ascending [list Z] of pitch OFFSETS [pitch - min_pitch] that are on.
    - [pr_params]: start_step, min_pitch, max_pitch, split_repeats.
    - [pr_from_quantized p s : res pr_result] with [pe_events], [pe_start] (= start_step),
      [pe_spq]; errors: E_QSTATUS, E_VALUE (negative number of frames), E_INDEX.
    - [pr_cell split start minp ns s q]: value of roll[s, q] after all writes, in paint order.

    The model follows the code AFTER notes/C07-fix-1.diff (F6: a note starting at the first frame
    clears nothing — unpatched, [roll[-1]] is cleared) and notes/C07-fix-2.diff (F7: notes are
    painted in order of start step — unpatched, in storage order).
    Assumes [qstart <= qend] for every note (negative slice ends are not modelled). *)
From Coq Require Import ZArith List Bool.
From NS Require Import Base.NoteSeq Gen.G07 Model.FqCommon.
Import ListNotations.
Local Open Scope Z_scope.

Record pr_params := mkPrParams {
  pp_start : Z; pp_min_pitch : Z; pp_max_pitch : Z; pp_split : bool }.

Record pr_result := mkPrResult { pe_events : list (list Z); pe_start : Z; pe_spq : Z }.

Definition pr_keep (p : pr_params) (n : note) : bool :=
  (pp_start p <=? n_qstart n) && (pp_min_pitch p <=? n_pitch n) && (n_pitch n <=? pp_max_pitch p).

Definition pr_le (a b : note) : bool := n_qstart a <=? n_qstart b.

(** the notes that write to the roll, in paint order *)
Definition pr_notes (p : pr_params) (ns : list note) : list note :=
  isort pr_le (filter (pr_keep p) ns).

(** one note's two writes applied to the cell (s, q) holding [v] *)
Definition pr_write (p : pr_params) (s q : Z) (v : bool) (n : note) : bool :=
  let po := n_pitch n - pp_min_pitch p in
  let so := n_qstart n - pp_start p in
  let eo := n_qend n - pp_start p in
  let v1 := if pp_split p && (0 <? so) && (so - 1 =? s) && (po =? q) then false else v in
  if (po =? q) && (so <=? s) && (s <? eo) then true else v1.

Definition pr_cell (p : pr_params) (ns : list note) (s q : Z) : bool :=
  fold_left (pr_write p s q) ns false.

(** numpy raises IndexError for roll[so - 1] when so - 1 >= number of frames *)
Definition pr_index_ok (p : pr_params) (frames : Z) (n : note) : bool :=
  let so := n_qstart n - pp_start p in
  negb (pp_split p && (0 <? so) && (frames <=? so - 1)).

Definition pr_from_quantized (p : pr_params) (s : seq) : res pr_result :=
  if s_spq s <=? 0 then Err E_QSTATUS
  else
    let frames := s_qsteps s - pp_start p in
    let width := pp_max_pitch p - pp_min_pitch p + 1 in
    if (frames <? 0) || (width <? 0) then Err E_VALUE
    else
      let ns := pr_notes p (s_notes s) in
      if negb (forallb (pr_index_ok p frames) ns) then Err E_INDEX
      else
        Ok (mkPrResult
              (map (fun st => filter (pr_cell p ns st) (range_from 0 (Z.to_nat width)))
                   (range_from 0 (Z.to_nat frames)))
              (pp_start p) (s_spq s)).
