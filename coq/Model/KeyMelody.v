(** Model/KeyMelody.v — melody_encoder_decoder.KeyMelodyEncoderDecoder (C08).

    events_to_label / class_index_to_event are the lookback scheme again with
    the melody classes laid out as  [0, note_range) pitches, note_range = no
    event, note_range + 1 = note-off, note_range + 2 + i = repeat lookback i.
    The reversed scan over the lookback distances is textually the same loop as
    in LookbackEventSequenceEncoderDecoder, so the model shares [lb_scan] /
    [lb_find] / [lb_pass_repeat] / [lb_pass_counter] with Model/Lookback.v (the
    two classes are tied to the code separately by the correspondence run).

    events_to_input is followed pass by pass, including: [if current_note:]
    (pitch 0 counts as silence), the dedup-then-append of the 3-note deque, the
    Melody constructor's range check and its replacement of leading note-offs,
    list assignment with wrapping negative indices.

    The label function follows the code WITH notes/C08-fix-1.diff applied (the
    guard [self._lookback_distances and ...] that the generic lookback encoder
    already has); the unpatched code raises IndexError for an empty distance
    list. *)
From Coq Require Import ZArith List Bool.
From NS Require Import Gen.G08 Model.EncDec Model.Lookback.
Import ListNotations.
Local Open Scope Z_scope.

(** * melodies_lib.Melody pieces used by events_to_input *)
(* events[:stop]  (Python slice, stop may be negative) *)
Definition py_take {A} (l : list A) (stop : Z) : list A :=
  let s := if stop <? 0 then Z.max 0 (stop + zlen l) else stop in
  firstn (Z.to_nat s) l.

Definition km_special (e : Z) : bool := (e =? K_NO_EVENT) || (e =? K_NOTE_OFF).

(* "Replace MELODY_NOTE_OFF events with MELODY_NO_EVENT before first note." *)
Fixpoint km_clean (es : list Z) : list Z :=
  match es with
  | [] => []
  | e :: r => if km_special e then K_NO_EVENT :: km_clean r else es
  end.

(* Melody(events): ValueError unless every event is in [MIN_MELODY_EVENT, MAX_MELODY_EVENT] *)
Definition km_melody (es : list Z) : option (list Z) :=
  if forallb (fun e => (K_MIN_MELODY_EVENT <=? e) && (e <=? K_MAX_MELODY_EVENT)) es
  then Some (km_clean es) else None.

Definition note_hist (es : list Z) : list Z :=
  map (fun pc => zlen (filter (fun e => (K_MIN_MIDI_PITCH <=? e) && (e mod K_NOTES_PER_OCTAVE =? pc)) es))
      (zrange K_NOTES_PER_OCTAVE).

(* key_histogram[NOTE_KEYS[note]] += count *)
Definition key_hist (es : list Z) : list Z :=
  map (fun k => zsum (map (fun nc => if existsb (Z.eqb k) (nth (Z.to_nat (fst nc)) K_NOTE_KEYS [])
                                      then snd nc else 0)
                          (enumerate (note_hist es))))
      (zrange K_NOTES_PER_OCTAVE).

Definition zmax_list (l : list Z) : Z :=
  match l with [] => 0 | x :: r => fold_left Z.max r x end.

Definition key_flags (es : list Z) : list bool :=
  let h := key_hist es in map (fun v => v =? zmax_list h) h.

(** * the scan over sub_melody *)
Record km_state : Type := mkKm {
  km_cur : option Z;        (* current_note *)
  km_attack : bool;         (* is_attack *)
  km_asc : option bool;     (* is_ascending *)
  km_last3 : list Z         (* last_3_notes, a deque(maxlen=3) *)
}.

Fixpoint remove_first (x : Z) (l : list Z) : list Z :=
  match l with
  | [] => []
  | y :: r => if x =? y then r else y :: remove_first x r
  end.

Definition deque3_append (l : list Z) (x : Z) : list Z :=
  let l' := l ++ [x] in
  if (3 <? zlen l') then tl l' else l'.

Definition km_step (s : km_state) (note : Z) : km_state :=
  if note =? K_NO_EVENT then mkKm (km_cur s) false (km_asc s) (km_last3 s)
  else if note =? K_NOTE_OFF then mkKm None (km_attack s) (km_asc s) (km_last3 s)
  else
    let asc1 := match rev (km_last3 s) with
                | [] => km_asc s
                | l :: _ =>
                    let a := if l <? note then Some true else km_asc s in
                    if note <? l then Some false else a
                end in
    let l3 := if existsb (Z.eqb note) (km_last3 s) then remove_first note (km_last3 s)
              else km_last3 s in
    mkKm (Some note) true asc1 (deque3_append l3 note).

Definition km_scan (sub : list Z) : km_state :=
  fold_left km_step sub (mkKm None false None []).

(* for flag in flags: if flag: input_[offset] = 1.0 ; offset += 1 *)
Fixpoint pass_flags (fl : list bool) (st : list Z * Z) : option (list Z * Z) :=
  match fl with
  | [] => Some st
  | f :: r =>
      v' <- (if f then py_set (fst st) (snd st) 1 else Some (fst st)) ;;
      pass_flags r (v', snd st + 1)
  end.

Section KeyMelody.
  Variable min_note : Z.
  Variable note_range : Z.             (* max_note - min_note *)
  Variable dists : list Z.             (* lookback_distances *)
  Variable bits : Z.                   (* binary_counter_bits *)

  Definition km_k : Z := zlen dists.

  Definition km_input_size : Z :=
    note_range + 2 + 1 + 1 + km_k + bits + 1 + K_NOTES_PER_OCTAVE + K_NOTES_PER_OCTAVE.

  Definition km_num_classes : Z := note_range + K_NUM_SPECIAL + km_k.

  Definition km_rev_enum : list (Z * Z) := rev (enumerate dists).

  (* default_event_label *)
  Definition km_default_label : Z := note_range.

  (** ** events_to_label (with C08-fix-1) *)
  Definition km_initial_default (es : list Z) (p : Z) : option bool :=
    match py_nth dists (-1) with
    | None => Some false
    | Some dl => if p <? dl then a <- py_nth es p ;; Some (a =? K_NO_EVENT) else Some false
    end.

  Definition km_label (es : list Z) (p : Z) : option Z :=
    ini <- km_initial_default es p ;;
    if ini then Some (note_range + km_k + 1)
    else m <- lb_scan Z Z.eqb km_rev_enum es p ;;
         match m with
         | Some i => Some (note_range + 2 + i)
         | None =>
             a <- py_nth es p ;;
             if a =? K_NOTE_OFF then Some (note_range + 1)
             else if a =? K_NO_EVENT then Some note_range
             else Some (a - min_note)
         end.

  (** ** class_index_to_event *)
  Definition km_decode (c : Z) (es : list Z) : option Z :=
    match lb_find (note_range + 2) km_rev_enum c with
    | Some d => if zlen es <? d then Some K_NO_EVENT else py_nth es (- d)
    | None =>
        if c =? note_range + 1 then Some K_NOTE_OFF
        else if c =? note_range then Some K_NO_EVENT
        else Some (min_note + c)
    end.

  (** ** events_to_input *)
  Definition km_input (es : list Z) (p : Z) : option (list Z) :=
    sub <- km_melody (py_take es (p + 1)) ;;
    let s := km_scan sub in
    let v0 := zeros km_input_size in
    (* if current_note: ... else: ...   (None and pitch 0 are both falsy) *)
    v1 <- match km_cur s with
          | Some c => if c =? 0 then py_set v0 (note_range + 1) 1
                      else v <- py_set v0 (c - min_note) 1 ;; py_set v note_range 1
          | None => py_set v0 (note_range + 1) 1
          end ;;
    s1 <- pass_flags [km_attack s] (v1, note_range + 2) ;;
    v2 <- match km_asc s with
          | Some true => py_set (fst s1) (snd s1) 1
          | Some false => py_set (fst s1) (snd s1) (-1)
          | None => Some (fst s1)
          end ;;
    s3 <- lb_pass_repeat Z Z.eqb dists es p (v2, snd s1 + 1) ;;
    s4 <- lb_pass_counter (zrange bits) (zlen sub) s3 ;;
    s5 <- pass_flags [zlen sub mod K_STEPS_PER_BAR =? 0] s4 ;;
    s6 <- pass_flags (key_flags sub) s5 ;;
    l3 <- km_melody (km_last3 s) ;;
    s7 <- pass_flags (key_flags l3) s6 ;;
    if snd s7 =? km_input_size then Some (fst s7) else None.

  (* labels_to_num_steps is inherited from the base class: len(labels) *)
  Definition km : encdec Z Z :=
    mkEncDec km_input_size km_input km_label km_decode (fun ls => Some (zlen ls)).
End KeyMelody.
